(** C13: the weakly consistent iterator of the lock-free JDK queue model,
    concurrent with arbitrary Offer/Poll/Remove activity (all programs, all
    schedules): cursor discipline, what a Next / Remove call does, ordering
    and completeness of a traversal, and "exactly one fate" of every node. *)
From Coq Require Import List Arith Bool NArith Lia.
From Garr Require Import Conc.Conc Queue.JdkModel Queue.JdkInv Queue.JdkLin Queue.JdkProgress Queue.JdkSeq.
Import ListNotations.

(** ** Execution logs (copied from Breaker/ConcBase.v) *)

(* every step actually taken: (configuration before the step, thread that stepped) *)
Fixpoint steps_of {sh ts lo op ret} (M : machine sh ts lo op ret) (c : config sh ts lo op) (sched : list nat)
  : list (config sh ts lo op * nat) :=
  match sched with
  | [] => []
  | t :: s => match step_thread M c t with
              | Some (c', _) => (c, t) :: steps_of M c' s
              | None => steps_of M c s
              end
  end.

Section StepsOf.
Context {sh ts lo op ret : Type}.
Variable M : machine sh ts lo op ret.

Lemma step_cfg_some c t c' e : step_thread M c t = Some (c', e) -> step_cfg M c t = c'.
Proof. intros H. unfold step_cfg. rewrite H. reflexivity. Qed.

Lemma step_cfg_none c t : step_thread M c t = None -> step_cfg M c t = c.
Proof. intros H. unfold step_cfg. rewrite H. reflexivity. Qed.

Lemma steps_of_split c sched i ci ti :
  nth_error (steps_of M c sched) i = Some (ci, ti) ->
  exists s1 s2 ci' e,
    ci = final M c s1 /\ step_thread M ci ti = Some (ci', e) /\
    skipn (S i) (steps_of M c sched) = steps_of M ci' s2.
Proof.
  revert c i. induction sched as [|t s IH]; intros c i H.
  - destruct i; discriminate.
  - cbn [steps_of] in *. destruct (step_thread M c t) as [[c' e]|] eqn:E.
    + destruct i as [|i].
      * injection H as <- <-. exists [], s, c', e. repeat split; auto.
      * cbn [nth_error] in H. destruct (IH _ _ H) as (s1 & s2 & ci' & e' & H1 & H2 & H3).
        exists (t :: s1), s2, ci', e'. rewrite final_cons, (step_cfg_some _ _ _ _ E).
        repeat split; auto.
    + destruct (IH _ _ H) as (s1 & s2 & ci' & e' & H1 & H2 & H3).
      exists (t :: s1), s2, ci', e'. rewrite final_cons, (step_cfg_none _ _ E). auto.
Qed.

Lemma steps_of_reach c sched j cj tj :
  nth_error (steps_of M c sched) j = Some (cj, tj) -> exists s1, cj = final M c s1.
Proof.
  intros H. destruct (steps_of_split _ _ _ _ _ H) as (s1 & _ & _ & _ & H1 & _). eauto.
Qed.

Lemma nth_error_skipn {A} (l : list A) n k : nth_error (skipn n l) k = nth_error l (n + k).
Proof.
  revert l; induction n as [|n IH]; intros l; simpl; [reflexivity|].
  destruct l; simpl; [destruct k; reflexivity|apply IH].
Qed.

Lemma steps_of_app c s1 s2 :
  steps_of M c (s1 ++ s2) = steps_of M c s1 ++ steps_of M (final M c s1) s2.
Proof.
  revert c; induction s1 as [|t s1 IH]; intros c; [reflexivity|].
  simpl. rewrite final_cons. unfold step_cfg.
  destruct (step_thread M c t) as [[c' e]|]; simpl; rewrite IH; reflexivity.
Qed.
End StepsOf.

(** ** Which steps change which part of the shared state (no invariant needed) *)

Definition st_of (out : qout) (s : qshared) : qshared :=
  match out with Next _ s' => s' | Done _ _ s' => s' | _ => s end.

Lemma st_finish it k s' s : st_of (finish it k s') s = s'.
Proof. destruct k; reflexivity. Qed.

Lemma st_update_head it h x k s' s : st_of (update_head it h x k s') s = s'.
Proof. unfold update_head. destruct (Nat.eqb h x); [apply st_finish|reflexivity]. Qed.

Lemma st_scan_end it k h p f v s' s : st_of (scan_end it k h p f v s') s = s'.
Proof. destruct k; unfold scan_end; apply st_update_head. Qed.

Lemma st_nloop it pred p v s' s : st_of (nloop it pred p v s') s = s'.
Proof. destruct p; reflexivity. Qed.

Lemma st_after_succ it pred p q v s' s : st_of (after_succ it pred p q v s') s = s'.
Proof. destruct q; unfold after_succ; [apply st_nloop|reflexivity]. Qed.

Definition appst (s : qshared) (p v : nat) : qshared :=
  let s1 := setn s p (Node (n_val (nd s p)) (n_live (nd s p)) (S (length (q_nodes s)))) in
  QS (q_nodes s1 ++ [Node v true 0]) (q_head s1) (q_tail s1).

Lemma cellsq_appst s p v : inr s p -> cellsq (appst s p v) = cellsq s ++ [(v, true)].
Proof. intros Hp. apply (cellsq_append s p v Hp). Qed.

Inductive effect (c : pc) (s s' : qshared) : Prop :=
| eff_same : cellsq s' = cellsq s -> effect c s s'
| eff_kill p : inr s p -> ((exists h, c = PCasItem h p) /\ live s p = true \/ c = RSet p) ->
    s' = setn s p (Node (n_val (nd s p)) false (n_next (nd s p))) -> effect c s s'
| eff_app v t p : c = OCasNext v t p -> inr s p -> nxt s p = 0 ->
    s' = appst s p v -> effect c s s'.

Lemma qstep_effect l s : effect (l_pc l) s (st_of (qstep l s) s).
Proof.
  destruct l as [c it]. cbn [l_pc].
  destruct c; unfold qstep; cbn [l_pc l_it];
    try (match goal with |- context [getn s ?a] =>
           destruct (getn s a) as [np|] eqn:Eg; [apply getn_Some in Eg; destruct Eg as [Hin <-]|apply eff_same; reflexivity] end);
    try (apply eff_same; reflexivity);
    rewrite ?st_update_head, ?st_scan_end, ?st_nloop, ?st_after_succ, ?st_finish;
    try (apply eff_same; reflexivity).
  - destruct o; try (apply eff_same; reflexivity).
    + destruct (Nat.eqb v 0); apply eff_same; reflexivity.
    + destruct (it_node it); apply eff_same; reflexivity.
    + destruct (it_last it); apply eff_same; reflexivity.
  - repeat match goal with |- context [if ?b then _ else _] => destruct b end; apply eff_same; reflexivity.
  - fold (nxt s p). destruct (Nat.eqb_spec (nxt s p) 0) as [E0|N0]; [|apply eff_same; reflexivity].
    apply (eff_app _ _ _ v t p); auto. destruct (Nat.eqb p t); reflexivity.
  - destruct (Nat.eqb (q_tail s) t); apply eff_same; reflexivity.
  - destruct (Nat.eqb t (q_tail s)); apply eff_same; reflexivity.
  - destruct (Nat.eqb t (q_tail s)); apply eff_same; reflexivity.
  - destruct (n_live (nd s p)); apply eff_same; reflexivity.
  - fold (live s p). destruct (live s p) eqn:El; [|apply eff_same; reflexivity].
    apply (eff_kill _ _ _ p); auto; [left; split; [eexists; reflexivity|exact El]|].
    destruct (Nat.eqb p h); reflexivity.
  - repeat match goal with |- context [if ?b then _ else _] => destruct b end;
      rewrite ?st_update_head; apply eff_same; reflexivity.
  - destruct (Nat.eqb (q_head s) h); rewrite ?st_finish; apply eff_same; reflexivity.
  - apply eff_same. apply cellsq_setnext. exact Hin.
  - destruct (n_live (nd s p)); rewrite ?st_scan_end; apply eff_same; reflexivity.
  - repeat match goal with |- context [if ?b then _ else _] => destruct b end;
      rewrite ?st_scan_end; apply eff_same; reflexivity.
  - repeat match goal with |- context [if ?b then _ else _] => destruct b end; apply eff_same; reflexivity.
  - repeat match goal with |- context [if ?b then _ else _] => destruct b end; apply eff_same; reflexivity.
  - destruct (Nat.eqb pred (n_next (nd s pred))); rewrite ?st_nloop; apply eff_same; reflexivity.
  - destruct (n_live (nd s p)); apply eff_same; reflexivity.
  - destruct (Nat.eqb p (n_next (nd s p))); rewrite ?st_after_succ; apply eff_same; reflexivity.
  - destruct (Nat.eqb (n_next (nd s pred)) p); apply eff_same; [apply cellsq_setnext; exact Hin|reflexivity].
  - apply (eff_kill _ _ _ l); auto.
Qed.

Lemma cells_eq_at s s' a :
  inr s a -> inr s' a -> nth_error (cellsq s') (pred a) = nth_error (cellsq s) (pred a) ->
  val s' a = val s a /\ live s' a = live s a.
Proof.
  intros H1 H2 E. rewrite (cellsq_nth s a H1), (cellsq_nth s' a H2) in E.
  injection E as -> ->. auto.
Qed.

Lemma eff_len c s s' :
  effect c s s' ->
  len s' = len s \/
  exists v t p, c = OCasNext v t p /\ len s' = S (len s) /\
                live s' (S (len s)) = true /\ val s' (S (len s)) = v.
Proof.
  intros [E|p Hp _ ->|v t p -> Hp E0 ->].
  - left. rewrite <- !cellsq_length, E. reflexivity.
  - left. apply len_setn.
  - right. exists v, t, p. split; [reflexivity|].
    pose proof (cellsq_appst s p v Hp) as Ea.
    set (s2 := appst s p v) in *.
    assert (Hl : len s2 = S (len s)).
    { rewrite <- !cellsq_length, Ea, app_length. simpl. lia. }
    split; [exact Hl|].
    assert (Hin : inr s2 (S (len s))) by (unfold inr; lia).
    pose proof (cellsq_nth s2 _ Hin) as Hn. simpl in Hn.
    rewrite Ea, nth_error_app2 in Hn by (rewrite cellsq_length; lia).
    rewrite cellsq_length, Nat.sub_diag in Hn. simpl in Hn. injection Hn as <- <-. auto.
Qed.

Lemma eff_cell c s s' a :
  effect c s s' -> inr s a ->
  val s' a = val s a /\
  (live s' a = live s a \/
   (live s a = true /\ live s' a = false /\ ((exists h, c = PCasItem h a) \/ c = RSet a))).
Proof.
  intros He Ha. pose proof (eff_len _ _ _ He) as Hl.
  assert (Ha' : inr s' a).
  { unfold inr in *. destruct Hl as [->|(v & t & p & _ & -> & _)]; lia. }
  destruct He as [E|p Hp Hc ->|v t p -> Hp E0 ->].
  - destruct (cells_eq_at s s' a Ha Ha') as [A B]; [rewrite E; reflexivity|]. auto.
  - unfold val, live. rewrite nd_setn by assumption.
    destruct (Nat.eqb_spec a p) as [->|Hne]; simpl; [|auto].
    split; [reflexivity|]. fold (live s p).
    destruct (live s p) eqn:El; [right|left; reflexivity].
    split; [reflexivity|]. split; [reflexivity|].
    destruct Hc as [[Hc _]|Hc]; auto.
  - pose proof (cellsq_appst s p v Hp) as Ea.
    destruct (cells_eq_at s _ a Ha Ha') as [A B]; [|auto].
    rewrite Ea, nth_error_app1; [reflexivity|]. rewrite cellsq_length. unfold inr in Ha. lia.
Qed.

(** ** I1: cursor discipline *)

Definition itd (s : qshared) (it : qiter) : Prop :=
  (it_has it = true -> 2 <= it_node it /\ it_node it <= len s /\ it_val it = val s (it_node it)) /\
  (it_has it = false -> it_node it = 0) /\
  (it_last it = 0 \/ inr s (it_last it)) /\
  (it_last it <> 0 -> it_node it <> 0 -> it_last it < it_node it).

(** the same with [it_last <= it_node] (inside a Next call the node about to
    be returned is already recorded as last) *)
Definition itdw (s : qshared) (it : qiter) : Prop :=
  (it_has it = true -> 2 <= it_node it /\ it_node it <= len s /\ it_val it = val s (it_node it)) /\
  (it_has it = false -> it_node it = 0) /\
  (it_last it = 0 \/ inr s (it_last it)) /\
  (it_last it <> 0 -> it_node it <> 0 -> it_last it <= it_node it).

Lemma itd_w s it : itd s it -> itdw s it.
Proof.
  intros (A & B & C & D). split; [exact A|split; [exact B|split; [exact C|]]].
  intros H1 H2. specialize (D H1 H2). lia.
Qed.

Lemma itd_le s s' it : sh_le s s' -> itd s it -> itd s' it.
Proof.
  intros Hle (A & B & C & D). pose proof (le_len _ _ Hle) as Hl.
  split; [|split; [exact B|split; [|exact D]]].
  - intros H. destruct (A H) as (A1 & A2 & A3). split; [exact A1|]. split; [lia|].
    rewrite A3. symmetry. apply (le_val _ _ Hle). unfold inr; lia.
  - destruct C as [C|C]; [left; exact C|right; eapply inr_le; eauto].
Qed.

(** the iterator just built by the constructor: nothing returned yet, and
    every node before the cursor is dead *)
Definition itnew (s : qshared) (it : qiter) : Prop :=
  itd s it /\ it_last it = 0 /\ (it_has it = true -> db s (it_node it)).

(** registers of a Next call in progress: [pred] is the cursor [c0] at the invocation *)
Definition nitA (ts : qiter) (pred : nat) (it : qiter) : Prop :=
  it_has ts = true /\ it_node ts = pred /\ it = Iter pred true (it_val ts) pred.

Definition hd_op (o : qop) : Prop :=
  match o with Poll | Peek | IsEmpty | Size | IterNew => True | _ => False end.

(** operation / iterator at the invocation / program counter / current iterator *)
Definition opc (s : qshared) (o : qop) (ts : qiter) (c : pc) (it : qiter) : Prop :=
  match c with
  | Inv o' => o = o' /\ it = ts
  | OTail v | ONext v _ _ | OCasNext v _ _ | OReTailOff v _ _ | OHead v _ | OReTailHop v _ _ _ =>
      o = Offer v /\ v <> 0 /\ it = ts
  | OCasTail _ _ => (exists v, o = Offer v) /\ it = ts
  | PHead | PItem _ _ | PCasItem _ _ | PNext _ _ => o = Poll /\ it = ts
  | PNextAfter _ p v => o = Poll /\ it = ts /\ v = val s p /\ live s p = false
  | UCasHead _ _ (KRet r) | USetNext _ (KRet r) =>
      hd_op o /\ (o <> IterNew -> it = ts) /\ (o = IterNew -> r = RUnit /\ itnew s it)
  | UCasHead _ _ (KSize _) | USetNext _ (KSize _) => o = Size /\ it = ts
  | SHead k | SItem k _ _ | SNext k _ _ =>
      scan_kind o k /\ it = match k with SKIter => qiter0 | _ => ts end
  | ZItem _ _ | ZNext _ _ => o = Size /\ it = ts
  | NSucc1 pred | NHead1 pred => o = ItNext /\ nitA ts pred it
  | NItem pred p => o = ItNext /\ nitA ts pred it /\ dead_in s (S pred) p
  | NSucc2 pred p _ | NHead2 pred p _ => o = ItNext /\ nitA ts pred it /\ dead_in s (S pred) (S p)
  | NCas pred _ q _ => o = ItNext /\ nitA ts pred it /\ dead_in s (S pred) q
  | RSet l => o = Remove /\ it = ts /\ l = it_last ts /\ l <> 0
  end.

Lemma dead_in_le s s' a b : sh_le s s' -> 1 <= a -> b <= S (len s) -> dead_in s a b -> dead_in s' a b.
Proof.
  intros Hle Ha Hb Hd x X1 X2. apply (le_dead _ _ Hle); [unfold inr; lia|]. apply Hd; assumption.
Qed.

Lemma itnew_le s s' it : sh_le s s' -> itnew s it -> itnew s' it.
Proof.
  intros Hle (A & B & C). split; [eapply itd_le; eauto|]. split; [exact B|].
  intros H. destruct A as (A & _). destruct (A H) as (A1 & A2 & _).
  apply (db_le s); auto; lia.
Qed.

Lemma opc_le s s' o ts c it :
  QInv s -> sh_le s s' -> pc_ok s c -> opc s o ts c it -> opc s' o ts c it.
Proof.
  intros HI Hle Hpc. pose proof (qi_head _ HI) as Hhd. unfold inr in Hhd.
  destruct c; simpl in *; auto.
  - destruct Hpc as (A & B & C & D). intros (E & F & G & H).
    split; [exact E|]. split; [exact F|]. split.
    + rewrite G. symmetry. apply (le_val _ _ Hle). unfold inr; lia.
    + apply (le_dead _ _ Hle); [unfold inr; lia|exact H].
  - destruct k; auto. intros (A & B & C). split; [exact A|]. split; [exact B|].
    intros E. destruct (C E) as [C1 C2]. split; [exact C1|]. eapply itnew_le; eauto.
  - destruct k; auto. intros (A & B & C). split; [exact A|]. split; [exact B|].
    intros E. destruct (C E) as [C1 C2]. split; [exact C1|]. eapply itnew_le; eauto.
  - destruct Hpc as (A & B & C). intros (E & F & G).
    split; [exact E|]. split; [exact F|]. eapply dead_in_le; eauto; lia.
  - destruct Hpc as (A & B & C & D). intros (E & F & G).
    split; [exact E|]. split; [exact F|]. eapply dead_in_le; eauto; lia.
  - destruct Hpc as (A & B & C). intros (E & F & G).
    split; [exact E|]. split; [exact F|]. eapply dead_in_le; eauto; lia.
  - destruct Hpc as (A & B & C & D & E'). intros (E & F & G).
    split; [exact E|]. split; [exact F|]. eapply dead_in_le; eauto; lia.
Qed.

(** ** I2 / I3: what a completed call did to the iterator *)

(** a Next call invoked with cursor [c0 = it_node ts], returning [r] with new iterator [ts'],
    all facts at the instant [s] of the returning step *)
Definition next_ret (s : qshared) (ts : qiter) (r : qret) (ts' : qiter) : Prop :=
  let c0 := it_node ts in
  (c0 = 0 -> ts' = ts /\ r = RVal 0) /\
  (c0 <> 0 ->
     r = RVal (it_val ts) /\ it_last ts' = c0 /\
     ((it_node ts' = 0 /\ it_has ts' = false /\
       forall a, c0 < a -> a <= len s -> live s a = false) \/
      (c0 < it_node ts' /\ it_node ts' <= len s /\ it_has ts' = true /\
       live s (it_node ts') = true /\ it_val ts' = val s (it_node ts') /\
       dead_in s (S c0) (it_node ts')))).

Definition remove_ret (s : qshared) (ts ts' : qiter) (s' : qshared) : Prop :=
  it_node ts' = it_node ts /\ it_has ts' = it_has ts /\ it_val ts' = it_val ts /\ it_last ts' = 0 /\
  (it_last ts = 0 -> s' = s) /\
  (it_last ts <> 0 ->
     s' = setn s (it_last ts) (Node (val s (it_last ts)) false (nxt s (it_last ts)))).

Definition done_ok (s : qshared) (o : qop) (ts : qiter) (r : qret) (ts' : qiter) (s' : qshared) : Prop :=
  match o with
  | ItNext => s' = s /\ next_ret s ts r ts'
  | IterNew => r = RUnit /\ itnew s' ts'
  | Remove => r = RUnit /\ remove_ret s ts ts' s'
  | HasNext => s' = s /\ ts' = ts /\ r = RBool (it_has ts)
  | _ => ts' = ts
  end /\ itd s' ts'.

Definition it_out (s : qshared) (o : qop) (ts : qiter) (out : qout) : Prop :=
  match out with
  | Next l' s' => QInv s' -> sh_le s s' -> opc s' o ts (l_pc l') (l_it l')
  | Done r ts' s' => QInv s' -> sh_le s s' -> done_ok s o ts r ts' s'
  | Blocked => True
  | Fault => True
  end.

Lemma io_goto s o ts it c s' :
  (QInv s' -> sh_le s s' -> opc s' o ts c it) -> it_out s o ts (goto it c s').
Proof. intros H. exact H. Qed.

Lemma io_done s o ts it r s' :
  (QInv s' -> sh_le s s' -> done_ok s o ts r it s') -> it_out s o ts (done it r s').
Proof. intros H. exact H. Qed.

(** calls that end through updateHead *)
Definition hdA (s : qshared) (o : qop) (ts : qiter) (r : qret) (it : qiter) : Prop :=
  hd_op o /\ (o <> IterNew -> it = ts) /\ (o = IterNew -> r = RUnit /\ itnew s it).

Lemma hdA_le s s' o ts r it : sh_le s s' -> hdA s o ts r it -> hdA s' o ts r it.
Proof.
  intros Hle (A & B & C). split; [exact A|]. split; [exact B|].
  intros E. destruct (C E) as [C1 C2]. split; [exact C1|]. eapply itnew_le; eauto.
Qed.

Lemma hdA_done s0 s s' o ts r it :
  hdA s o ts r it -> itd s ts -> sh_le s s' -> done_ok s0 o ts r it s'.
Proof.
  intros (A & B & C) Hts Hle.
  destruct o; simpl in A; try contradiction; unfold done_ok.
  - rewrite B by discriminate. split; [reflexivity|eapply itd_le; eauto].
  - rewrite B by discriminate. split; [reflexivity|eapply itd_le; eauto].
  - rewrite B by discriminate. split; [reflexivity|eapply itd_le; eauto].
  - rewrite B by discriminate. split; [reflexivity|eapply itd_le; eauto].
  - destruct (C eq_refl) as [-> C2]. pose proof (itnew_le _ _ _ Hle C2) as C3.
    split; [split; [reflexivity|exact C3]|apply C3].
Qed.

Lemma io_update_head_ret s o ts it h x r :
  hdA s o ts r it -> itd s ts -> it_out s o ts (update_head it h x (KRet r) s).
Proof.
  intros H Hts. unfold update_head. destruct (Nat.eqb h x); simpl.
  - intros _ Hle. eapply hdA_done; eauto.
  - intros _ Hle. eapply hdA_le; eauto.
Qed.

Lemma itd_0 s : itd s qiter0.
Proof.
  split; [discriminate|]. split; [reflexivity|]. split; [left; reflexivity|]. intros H; contradiction.
Qed.

Lemma itd_has_node s it : itd s it -> it_node it <> 0 -> it_has it = true.
Proof.
  intros (_ & B & _) H. destruct (it_has it); [reflexivity|]. exfalso. apply H. apply B. reflexivity.
Qed.

Ltac ssplit := repeat match goal with |- _ /\ _ => split end.

Lemma qstep_it o ts l s :
  QInv s -> live s 1 = false -> pc_ok s (l_pc l) -> itd s ts ->
  opc s o ts (l_pc l) (l_it l) -> it_out s o ts (qstep l s).
Proof.
  intros HI Hd1 Hpc Hts HA. destruct l as [c it]. cbn [l_pc l_it] in *.
  pose proof (qi_head _ HI) as Hhd. unfold inr in Hhd.
  destruct c; unfold qstep; cbn [l_pc l_it]; cbn [opc] in HA; cbn [pc_ok] in Hpc.
  - (* Inv *)
    destruct HA as [<- ->].
    destruct o as [[|v]| | | | | | | |]; cbn [Nat.eqb]; cbv iota.
    + apply io_done. intros _ _. split; [reflexivity|exact Hts].
    + apply io_goto. intros _ _. simpl. ssplit; auto.
    + apply io_goto. intros _ _. simpl. auto.
    + apply io_goto. intros _ _. simpl. auto.
    + apply io_goto. intros _ _. simpl. auto.
    + apply io_goto. intros _ _. simpl. auto.
    + apply io_goto. intros _ _. simpl. auto.
    + apply io_done. intros _ _. split; [auto|exact Hts].
    + destruct (it_node ts) as [|n] eqn:En.
      * apply io_done. intros _ _. split; [|exact Hts]. split; [reflexivity|].
        unfold next_ret. rewrite En. split; [auto|]. intros H; contradiction.
      * assert (Hh : it_has ts = true) by (apply (itd_has_node s); [exact Hts|rewrite En; discriminate]).
        apply io_goto. intros _ _. simpl. split; [reflexivity|]. unfold nitA.
        rewrite Hh, En. auto.
    + destruct (it_last ts) as [|n] eqn:En.
      * apply io_done. intros _ _. split; [|exact Hts]. split; [reflexivity|].
        unfold remove_ret. rewrite En. ssplit; auto; intros H; contradiction.
      * apply io_goto. intros _ _. simpl. ssplit; auto.
  - (* OTail *) apply io_goto. intros _ _. exact HA.
  - (* ONext *)
    rewrite (getn_inr s p Hpc).
    destruct (Nat.eqb (n_next (nd s p)) 0); [apply io_goto; intros _ _; exact HA|].
    destruct (Nat.eqb p (n_next (nd s p))); [apply io_goto; intros _ _; exact HA|].
    destruct (negb (Nat.eqb p t)); apply io_goto; intros _ _; exact HA.
  - (* OCasNext *)
    destruct HA as (-> & Hv & ->). rewrite (getn_inr s p Hpc).
    destruct (Nat.eqb (n_next (nd s p)) 0); [|apply io_goto; intros _ _; simpl; auto].
    destruct (Nat.eqb p t).
    + apply io_done. intros _ Hle. split; [reflexivity|eapply itd_le; eauto].
    + apply io_goto. intros _ _. simpl. split; [eexists; reflexivity|reflexivity].
  - (* OCasTail *)
    destruct HA as [[v ->] ->]. apply io_done. intros _ Hle.
    split; [reflexivity|eapply itd_le; eauto].
  - (* OReTailOff *)
    destruct (Nat.eqb t (q_tail s)); apply io_goto; intros _ _; exact HA.
  - (* OHead *) apply io_goto; intros _ _; exact HA.
  - (* OReTailHop *)
    destruct (Nat.eqb t (q_tail s)); apply io_goto; intros _ _; exact HA.
  - (* PHead *) apply io_goto. intros _ _. exact HA.
  - (* PItem *)
    destruct Hpc as (A & B & C & Dd).
    assert (Hp : inr s p) by (unfold inr; lia).
    rewrite (getn_inr s p Hp). destruct (n_live (nd s p)); apply io_goto; intros _ _; exact HA.
  - (* PCasItem *)
    destruct Hpc as (A & B & C & Dd). destruct HA as [-> ->].
    assert (Hp : inr s p) by (unfold inr; lia).
    rewrite (getn_inr s p Hp).
    destruct (n_live (nd s p)); [|apply io_goto; intros _ _; simpl; auto].
    destruct (Nat.eqb p h).
    + apply io_done. intros _ Hle. split; [reflexivity|eapply itd_le; eauto].
    + apply io_goto. intros _ _. simpl. ssplit; auto.
      * unfold val. rewrite nd_setn, Nat.eqb_refl by assumption. reflexivity.
      * unfold live. rewrite nd_setn, Nat.eqb_refl by assumption. reflexivity.
  - (* PNextAfter *)
    destruct Hpc as (A & B & C & Dd). destruct HA as (-> & -> & _).
    assert (Hp : inr s p) by (unfold inr; lia).
    rewrite (getn_inr s p Hp). apply io_update_head_ret; [|exact Hts].
    split; [exact I|]. split; [auto|discriminate].
  - (* PNext *)
    destruct Hpc as (A & B & C & Dd). destruct HA as [-> ->].
    assert (Hp : inr s p) by (unfold inr; lia).
    rewrite (getn_inr s p Hp).
    destruct (Nat.eqb (n_next (nd s p)) 0).
    + apply io_update_head_ret; [|exact Hts]. split; [exact I|]. split; [auto|discriminate].
    + destruct (Nat.eqb p (n_next (nd s p))); apply io_goto; intros _ _; simpl; auto.
  - (* UCasHead *)
    destruct k as [r|p].
    + destruct (Nat.eqb (q_head s) h).
      * apply io_goto. intros _ Hle. simpl. eapply hdA_le; eauto.
      * cbn [finish]. apply io_done. intros _ Hle. eapply hdA_done; eauto.
    + destruct (Nat.eqb (q_head s) h); cbn [finish]; apply io_goto; intros _ _; exact HA.
  - (* USetNext *)
    destruct Hpc as (A & B & C).
    assert (Hh : inr s h) by (unfold inr in *; lia).
    rewrite (getn_inr s h Hh). destruct k as [r|p]; cbn [finish].
    + apply io_done. intros _ Hle. eapply hdA_done; eauto.
    + apply io_goto; intros _ _; exact HA.
  - (* SHead *) apply io_goto. intros _ _. exact HA.
  - (* SItem *)
    destruct Hpc as (A & B & C & Dd). destruct HA as [K ->].
    assert (Hp : inr s p) by (unfold inr; lia).
    rewrite (getn_inr s p Hp). fold (live s p). fold (val s p).
    destruct (live s p) eqn:El; [|apply io_goto; intros _ _; simpl; auto].
    assert (Hp2 : 2 <= p) by (destruct (Nat.eq_dec p 1) as [->|]; [congruence|lia]).
    destruct k; destruct o; try contradiction; unfold scan_end; cbv iota.
    * apply io_update_head_ret; [|exact Hts]. split; [exact I|]. split; [auto|discriminate].
    * apply io_update_head_ret; [|exact Hts]. split; [exact I|]. split; [auto|discriminate].
    * unfold update_head. destruct (Nat.eqb h p); cbn [finish]; apply io_goto; intros _ _; simpl; auto.
    * apply io_update_head_ret; [|exact Hts]. split; [exact I|]. split; [intros H; contradiction|].
      intros _. split; [reflexivity|]. split; [|split; [reflexivity|intros _; exact Dd]].
      split; [intros _; simpl; auto|]. split; [discriminate|]. split; [left; reflexivity|].
      intros H; contradiction.
  - (* SNext *)
    destruct Hpc as (A & B & C & Dd). destruct HA as [K ->].
    assert (Hp : inr s p) by (unfold inr; lia).
    rewrite (getn_inr s p Hp).
    destruct (Nat.eqb (n_next (nd s p)) 0).
    + destruct k; destruct o; try contradiction; unfold scan_end; cbv iota;
        (apply io_update_head_ret; [|exact Hts]); (split; [exact I|]).
      * split; [auto|discriminate].
      * split; [auto|discriminate].
      * split; [auto|discriminate].
      * split; [intros H; contradiction|]. intros _. split; [reflexivity|].
        split; [apply itd_0|]. split; [reflexivity|discriminate].
    + destruct (Nat.eqb p (n_next (nd s p))); apply io_goto; intros _ _; simpl; auto.
  - (* ZItem *)
    destruct HA as [-> ->]. rewrite (getn_inr s p Hpc). destruct (n_live (nd s p)).
    + destruct (N.eqb (N.succ cnt) max_int32).
      * apply io_done. intros _ Hle. split; [reflexivity|eapply itd_le; eauto].
      * apply io_goto; intros _ _; simpl; auto.
    + apply io_goto; intros _ _; simpl; auto.
  - (* ZNext *)
    destruct HA as [-> ->]. rewrite (getn_inr s p Hpc).
    destruct (Nat.eqb p (n_next (nd s p))); [apply io_goto; intros _ _; simpl; auto|].
    destruct (Nat.eqb (n_next (nd s p)) 0).
    + apply io_done. intros _ Hle. split; [reflexivity|eapply itd_le; eauto].
    + apply io_goto; intros _ _; simpl; auto.
  - (* NSucc1 *)
    destruct HA as (-> & Hn). pose proof Hn as (N1 & N2 & ->).
    destruct Hts as (T1 & T2 & T3 & T4). destruct (T1 N1) as (T5 & T6 & T7). rewrite N2 in *.
    rewrite (getn_inr s pred Hpc). fold (nxt s pred).
    destruct (Nat.eqb_spec pred (nxt s pred)) as [E1|Ne1].
    + apply io_goto. intros _ _. simpl. auto.
    + unfold nloop. destruct (nxt s pred) as [|n] eqn:En.
      * assert (Hpl : pred = len s) by (apply (qi_last _ HI); assumption).
        apply io_done. intros _ _. split.
        -- split; [reflexivity|]. unfold next_ret. rewrite N2. split; [lia|]. intros _. simpl.
           ssplit; auto. left. ssplit; auto. intros a A1 A2. lia.
        -- split; [discriminate|]. split; [reflexivity|]. split; [right; exact Hpc|].
           simpl. intros _ H; contradiction.
      * assert (N0 : nxt s pred <> 0) by lia. rewrite <- En in *.
        destruct (nxt_fwd s pred HI Hpc N0 Ne1) as [F G].
        apply io_goto. intros _ _. simpl. ssplit; auto.
        intros a A1 A2. apply (qi_skip _ HI pred a); auto.
  - (* NHead1 *)
    destruct HA as (-> & Hn). destruct Hpc as [A B].
    unfold nloop. destruct (q_head s) as [|n] eqn:En; [lia|].
    apply io_goto. intros _ _. simpl. ssplit; auto.
    intros a A1 A2. apply (qi_dead _ HI); lia.
  - (* NItem *)
    destruct HA as (-> & Hn & Hd). pose proof Hn as (N1 & N2 & ->).
    destruct Hts as (T1 & T2 & T3 & T4). destruct (T1 N1) as (T5 & T6 & T7). rewrite N2 in *.
    destruct Hpc as (A & B & C).
    assert (Hp : inr s p) by (unfold inr; lia).
    rewrite (getn_inr s p Hp). fold (live s p). fold (val s p).
    destruct (live s p) eqn:El.
    + apply io_done. intros _ _. split.
      -- split; [reflexivity|]. unfold next_ret. rewrite N2. split; [lia|]. intros _. simpl.
         ssplit; auto. right. ssplit; auto.
      -- split; [intros _; simpl; ssplit; auto; lia|]. split; [discriminate|].
         split; [right; unfold inr; simpl; lia|]. simpl. intros _ _. exact B.
    + apply io_goto. intros _ _. simpl. ssplit; auto.
      intros a A1 A2. destruct (Nat.eq_dec a p) as [->|]; [exact El|apply Hd; lia].
  - (* NSucc2 *)
    destruct HA as (-> & Hn & Hd). pose proof Hn as (N1 & N2 & ->).
    destruct Hts as (T1 & T2 & T3 & T4). destruct (T1 N1) as (T5 & T6 & T7). rewrite N2 in *.
    destruct Hpc as (A & B & C & Dp).
    assert (Hp : inr s p) by (unfold inr; lia).
    rewrite (getn_inr s p Hp). fold (nxt s p).
    destruct (Nat.eqb_spec p (nxt s p)) as [E1|Ne1].
    + apply io_goto. intros _ _. simpl. auto.
    + unfold after_succ. destruct (nxt s p) as [|n] eqn:En.
      * assert (Hpl : p = len s) by (apply (qi_last _ HI); assumption).
        unfold nloop. apply io_done. intros _ _. split.
        -- split; [reflexivity|]. unfold next_ret. rewrite N2. split; [lia|]. intros _. simpl.
           ssplit; auto. left. ssplit; auto. intros a A1 A2. apply Hd; lia.
        -- split; [discriminate|]. split; [reflexivity|]. split; [right; unfold inr; simpl; lia|].
           simpl. intros _ H; contradiction.
      * assert (N0 : nxt s p <> 0) by lia. rewrite <- En in *.
        destruct (nxt_fwd s p HI Hp N0 Ne1) as [F G].
        apply io_goto. intros _ _. simpl. ssplit; auto.
        intros a A1 A2. destruct (Nat.lt_ge_cases a (S p)) as [L|Ge]; [apply Hd; lia|].
        apply (qi_skip _ HI p a); auto.
  - (* NHead2 *)
    destruct HA as (-> & Hn & Hd). destruct Hpc as (A & B & C).
    unfold after_succ. destruct (q_head s) as [|n] eqn:En; [lia|].
    apply io_goto. intros _ _. simpl. ssplit; auto.
    intros a A1 A2. apply (qi_dead _ HI); lia.
  - (* NCas *)
    destruct HA as (-> & Hn & Hd). destruct Hpc as (A & B & C & Dq & E).
    assert (Hp : inr s pred) by (unfold inr; lia).
    rewrite (getn_inr s pred Hp).
    unfold nloop. destruct q as [|n]; [lia|].
    apply io_goto. intros _ Hle. simpl. ssplit; auto.
    eapply dead_in_le; eauto; lia.
  - (* RSet *)
    destruct HA as (-> & -> & Hl & Hl0).
    rewrite (getn_inr s l Hpc). apply io_done. intros _ Hle.
    pose proof (itd_le _ _ _ Hle Hts) as (T1 & T2 & T3 & T4). split.
    + split; [reflexivity|]. unfold remove_ret. simpl. ssplit; auto.
      * intros H. congruence.
      * intros _. rewrite <- Hl. reflexivity.
    + split; [exact T1|]. split; [exact T2|]. split; [left; reflexivity|].
      simpl. intros H; contradiction.
Qed.

(** ** The invariant on configurations *)

Definition thr_it (s : qshared) (th : qthread) : Prop :=
  itd s (t_ts th) /\
  match t_cur th with
  | None => True
  | Some (o, l) => opc s o (t_ts th) (l_pc l) (l_it l)
  end.

Definition XInv (c : qcfg) : Prop :=
  CInv c /\ live (c_sh c) 1 = false /\
  (forall a, 2 <= a -> a <= len (c_sh c) -> val (c_sh c) a <> 0) /\
  forall t th, nth_error (c_thr c) t = Some th -> thr_it (c_sh c) th.

Lemma view_it s th o l fresh :
  thr_it s th -> view jdk th = Some (o, l, fresh) -> opc s o (t_ts th) (l_pc l) (l_it l).
Proof.
  intros [A B]. unfold view. destruct (t_dead th); [discriminate|].
  destruct (t_cur th) as [[o' l']|].
  - intros E. injection E as <- <- <-. exact B.
  - destruct (t_prog th) as [|o' r]; [discriminate|].
    intros E. injection E as <- <- <-. simpl. auto.
Qed.

(** explicit description of one step of the interleaving semantics *)
Lemma step_descr (c : qcfg) t th o l fresh :
  nth_error (c_thr c) t = Some th -> view jdk th = Some (o, l, fresh) ->
  step_cfg jdk c t =
  match qstep l (c_sh c) with
  | Next l' s' => Config s' (upd (c_thr c) t (Thread (rest_prog th fresh) (t_ts th) (Some (o, l')) false))
  | Done r ts' s' => Config s' (upd (c_thr c) t (Thread (rest_prog th fresh) ts' None false))
  | Blocked => c
  | Fault => Config (c_sh c) (upd (c_thr c) t (Thread (rest_prog th fresh) (t_ts th) None true))
  end.
Proof.
  intros Hn Hv. unfold step_cfg, step_thread. rewrite Hn, Hv.
  change (m_step jdk l (c_sh c)) with (qstep l (c_sh c)).
  destruct (qstep l (c_sh c)); reflexivity.
Qed.

Lemma step_idle (c : qcfg) t :
  (forall th, nth_error (c_thr c) t = Some th -> view jdk th = None) -> step_cfg jdk c t = c.
Proof.
  intros H. unfold step_cfg, step_thread. destruct (nth_error (c_thr c) t) as [th|]; [|reflexivity].
  rewrite (H th eq_refl). reflexivity.
Qed.

Lemma step_sh (c : qcfg) t th o l fresh :
  nth_error (c_thr c) t = Some th -> view jdk th = Some (o, l, fresh) ->
  c_sh (step_cfg jdk c t) = st_of (qstep l (c_sh c)) (c_sh c).
Proof.
  intros Hn Hv. rewrite (step_descr c t th o l fresh Hn Hv).
  destruct (qstep l (c_sh c)); reflexivity.
Qed.

Lemma XInv_step c t : XInv c -> XInv (step_cfg jdk c t).
Proof.
  intros HX. pose proof HX as (HC & Hd1 & Hv0 & Hthr). pose proof HC as [HI HCthr].
  destruct (CInv_step c t HC) as [HC' Hle].
  destruct (nth_error (c_thr c) t) as [th|] eqn:Hn.
  2:{ rewrite step_idle; [exact HX|]. intros th E. congruence. }
  destruct (view jdk th) as [[[o l] fresh]|] eqn:Hv.
  2:{ rewrite step_idle; [exact HX|]. intros th' E. congruence. }
  destruct (view_ok _ _ _ _ _ (HCthr _ _ Hn) Hv) as [Hpc Hit].
  destruct (Hthr _ _ Hn) as [Hts _].
  pose proof (view_it _ _ _ _ _ (Hthr _ _ Hn) Hv) as HA.
  pose proof (qstep_ok l (c_sh c) HI Hpc Hit) as Hout.
  pose proof (qstep_it o (t_ts th) l (c_sh c) HI Hd1 Hpc Hts HA) as Hio.
  pose proof (qstep_effect l (c_sh c)) as Heff.
  pose proof (step_sh c t th o l fresh Hn Hv) as Hsh. rewrite <- Hsh in Heff.
  pose proof (step_descr c t th o l fresh Hn Hv) as Hdesc.
  set (c' := step_cfg jdk c t) in *.
  assert (H1 : inr (c_sh c) 1) by (pose proof (qi_ne _ HI); unfold inr; lia).
  split; [exact HC'|]. split; [apply (le_dead _ _ Hle 1 H1 Hd1)|]. split.
  - intros a A1 A2. destruct (Nat.le_gt_cases a (len (c_sh c))) as [L|G].
    + rewrite (le_val _ _ Hle) by (unfold inr; lia). apply Hv0; assumption.
    + destruct (eff_len _ _ _ Heff) as [E|(v & t0 & p & Ec & El & _ & Ev)]; [lia|].
      assert (a = S (len (c_sh c))) by lia. subst a. rewrite Ev.
      rewrite Ec in HA. simpl in HA. apply HA.
  - intros t' th'. destruct (Nat.eq_dec t' t) as [->|Hne].
    + rewrite Hdesc.
      destruct (qstep l (c_sh c)) as [l' s'|r ts' s'| |] eqn:Eq; simpl in Hout, Hio; try contradiction.
      * destruct Hout as (HI' & Hle' & _). simpl. rewrite nth_error_upd, Nat.eqb_refl, Hn.
        intros E. injection E as <-. split; simpl; [eapply itd_le; eauto|apply Hio; assumption].
      * destruct Hout as (HI' & Hle' & _). simpl. rewrite nth_error_upd, Nat.eqb_refl, Hn.
        intros E. injection E as <-. split; simpl; [|exact I].
        apply (Hio HI' Hle').
    + unfold c'. rewrite step_cfg_other by assumption. intros E.
      destruct (Hthr _ _ E) as [A B]. split; [eapply itd_le; eauto|].
      destruct (t_cur th') as [[o' l']|] eqn:Ec; [|exact I].
      destruct (HCthr _ _ E) as (_ & _ & Hc). rewrite Ec in Hc. destruct Hc as [Hpc' _].
      eapply opc_le; eauto.
Qed.

Lemma XInv_init progs : XInv (jdk_init progs).
Proof.
  split; [apply CInv_init|]. split; [reflexivity|]. split.
  - intros a A1 A2. unfold len in A2. simpl in A2. lia.
  - simpl. intros t th H. apply nth_error_In in H. apply in_map_iff in H.
    destruct H as [p [<- _]]. split; [apply itd_0|exact I].
Qed.

Lemma XInv_run c sched : XInv c -> XInv (final jdk c sched).
Proof.
  revert c; induction sched as [|t s IH]; intros c H; [exact H|].
  rewrite final_cons. apply IH. apply XInv_step. exact H.
Qed.

Lemma XInv_final progs sched : XInv (final jdk (jdk_init progs) sched).
Proof. apply XInv_run. apply XInv_init. Qed.

(** ** I1 as a theorem *)

Lemma opc_cases s o ts c it :
  opc s o ts c it ->
  it = ts \/ it = qiter0 \/ (o = IterNew /\ itnew s it) \/ (o = ItNext /\ exists pred, nitA ts pred it).
Proof.
  destruct c; simpl; try tauto.
  - destruct k; [|tauto]. intros (A & B & C).
    destruct o; simpl in A; try contradiction; try (left; apply B; discriminate).
    right; right; left. split; [reflexivity|apply C; reflexivity].
  - destruct k; [|tauto]. intros (A & B & C).
    destruct o; simpl in A; try contradiction; try (left; apply B; discriminate).
    right; right; left. split; [reflexivity|apply C; reflexivity].
  - intros [_ ->]. destruct k; auto.
  - intros [_ ->]. destruct k; auto.
  - intros [_ ->]. destruct k; auto.
  - intros [A B]. right; right; right. eauto.
  - intros [A B]. right; right; right. eauto.
  - intros (A & B & _). right; right; right. eauto.
  - intros (A & B & _). right; right; right. eauto.
  - intros (A & B & _). right; right; right. eauto.
  - intros (A & B & _). right; right; right. eauto.
Qed.

Lemma nitA_itdw s ts pred it : itd s ts -> nitA ts pred it -> itdw s it.
Proof.
  intros (T1 & T2 & T3 & T4) (N1 & N2 & ->). destruct (T1 N1) as (A & B & C). rewrite N2 in *.
  split; [intros _; simpl; auto|]. split; [discriminate|].
  split; [right; unfold inr; simpl; lia|]. simpl. lia.
Qed.

(** cursor discipline in every reachable configuration, for every thread: the
    iterator owned by the thread ([t_ts], the iterator at the invocation of
    the current call) and the working copy of a call in progress *)
Theorem jdk_iter_discipline : forall progs sched t th,
  let c := final jdk (jdk_init progs) sched in
  nth_error (c_thr c) t = Some th ->
  itd (c_sh c) (t_ts th) /\
  match t_cur th with
  | None => True
  | Some (o, l) => itdw (c_sh c) (l_it l) /\ (o <> ItNext -> itd (c_sh c) (l_it l))
  end.
Proof.
  intros progs sched t th c Hn.
  destruct (XInv_final progs sched) as (_ & _ & _ & Hthr). destruct (Hthr _ _ Hn) as [A B].
  fold c in A, B. split; [exact A|]. destruct (t_cur th) as [[o l]|]; [|exact I].
  destruct (opc_cases _ _ _ _ _ B) as [->|[->|[[-> [H _]]|[-> [pred H]]]]].
  - split; [apply itd_w; exact A|auto].
  - split; [apply itd_w; apply itd_0|intros _; apply itd_0].
  - split; [apply itd_w; exact H|auto].
  - split; [eapply nitA_itdw; eauto|intros E; congruence].
Qed.

(** every node of address >= 2 carries an offered (non-nil) value, node 1 is the dead dummy *)
Theorem jdk_nodes_offered : forall progs sched,
  let s := c_sh (final jdk (jdk_init progs) sched) in
  live s 1 = false /\ forall a, 2 <= a -> a <= len s -> val s a <> 0.
Proof. intros progs sched s. destruct (XInv_final progs sched) as (_ & A & B & _). auto. Qed.

Print Assumptions jdk_iter_discipline.

(** ** I2 / I3 as theorems: the step that completes a call *)

Theorem jdk_call_done : forall progs sched t th o l fresh r ts' s',
  let c := final jdk (jdk_init progs) sched in
  nth_error (c_thr c) t = Some th -> view jdk th = Some (o, l, fresh) ->
  qstep l (c_sh c) = Done r ts' s' ->
  done_ok (c_sh c) o (t_ts th) r ts' s'.
Proof.
  intros progs sched t th o l fresh r ts' s' c Hn Hv Hq.
  destruct (XInv_final progs sched) as (HC & Hd1 & _ & Hthr). fold c in HC, Hd1, Hthr.
  pose proof HC as [HI HCthr].
  destruct (view_ok _ _ _ _ _ (HCthr _ _ Hn) Hv) as [Hpc Hit].
  destruct (Hthr _ _ Hn) as [Hts _].
  pose proof (view_it _ _ _ _ _ (Hthr _ _ Hn) Hv) as HA.
  pose proof (qstep_ok l (c_sh c) HI Hpc Hit) as Hout.
  pose proof (qstep_it o (t_ts th) l (c_sh c) HI Hd1 Hpc Hts HA) as Hio.
  rewrite Hq in Hout, Hio. simpl in Hout, Hio. destruct Hout as (HI' & Hle & _). auto.
Qed.

(** I2: a Next call invoked with cursor c0 <> 0 returns the value captured for
    c0, which is the value of node c0; records c0 as last; and moves the
    cursor strictly forward over dead nodes only, to a node that is live at
    this instant - or to nil if every later node is dead at this instant *)
Theorem jdk_next_done : forall progs sched t th l fresh r ts' s',
  let c := final jdk (jdk_init progs) sched in
  let s := c_sh c in
  let c0 := it_node (t_ts th) in
  nth_error (c_thr c) t = Some th -> view jdk th = Some (ItNext, l, fresh) ->
  qstep l s = Done r ts' s' -> c0 <> 0 ->
  s' = s /\ r = RVal (val s c0) /\ 2 <= c0 /\ c0 <= len s /\ val s c0 <> 0 /\ it_last ts' = c0 /\
  ((it_node ts' = 0 /\ it_has ts' = false /\ forall a, c0 < a -> a <= len s -> live s a = false) \/
   (c0 < it_node ts' /\ it_node ts' <= len s /\ it_has ts' = true /\
    live s (it_node ts') = true /\ it_val ts' = val s (it_node ts') /\
    forall a, c0 < a -> a < it_node ts' -> live s a = false)).
Proof.
  intros progs sched t th l fresh r ts' s' c s c0 Hn Hv Hq H0.
  destruct (jdk_call_done progs sched t th _ l fresh r ts' s' Hn Hv Hq) as [[-> [_ H]] _].
  destruct (H H0) as (-> & Hl & Hc).
  destruct (jdk_iter_discipline progs sched t th Hn) as [(T1 & T2 & _) _].
  pose proof (itd_has_node _ _ (proj1 (jdk_iter_discipline progs sched t th Hn)) H0) as Hh.
  destruct (T1 Hh) as (A & B & C). fold c s c0 in A, B, C.
  destruct (jdk_nodes_offered progs sched) as [_ Hv0].
  split; [reflexivity|]. split; [rewrite C; reflexivity|]. split; [exact A|]. split; [exact B|].
  split; [apply Hv0; assumption|]. split; [exact Hl|].
  destruct Hc as [Hc|(C1 & C2 & C3 & C4 & C5 & C6)]; [left; exact Hc|right].
  repeat split; auto.
Qed.

(** (b), single call: a node behind the old cursor that is live when the call
    returns has not been skipped *)
Corollary jdk_next_complete : forall progs sched t th l fresh r ts' s' a,
  let c := final jdk (jdk_init progs) sched in
  let s := c_sh c in
  let c0 := it_node (t_ts th) in
  nth_error (c_thr c) t = Some th -> view jdk th = Some (ItNext, l, fresh) ->
  qstep l s = Done r ts' s' -> c0 <> 0 ->
  c0 < a -> a <= len s -> live s a = true -> it_node ts' <> 0 /\ it_node ts' <= a.
Proof.
  intros progs sched t th l fresh r ts' s' a c s c0 Hn Hv Hq H0 A1 A2 A3.
  destruct (jdk_next_done progs sched t th l fresh r ts' s' Hn Hv Hq H0)
    as (_ & _ & _ & _ & _ & _ & [(_ & _ & H)|(C1 & _ & _ & _ & _ & H)]).
  - fold c s c0 in H. rewrite H in A3 by assumption. discriminate.
  - fold c s c0 in H, C1. split; [lia|]. destruct (Nat.le_gt_cases (it_node ts') a) as [L|G]; [exact L|].
    rewrite H in A3 by assumption. discriminate.
Qed.

(** Next at the end of the traversal: no access, returns nil, nothing changes *)
Theorem jdk_next_end : forall ts s, it_node ts = 0 -> qstep (qstart ts ItNext) s = Done (RVal 0) ts s.
Proof. intros ts s H. unfold qstart, qstep. simpl. rewrite H. reflexivity. Qed.

Lemma opc_remove s ts c it :
  opc s Remove ts c it ->
  (c = Inv Remove /\ it = ts) \/ (c = RSet (it_last ts) /\ it_last ts <> 0).
Proof.
  destruct c; simpl; try (intros [H _]; discriminate H);
    try (intros [[v H] _]; discriminate H);
    try (destruct k; intros [H _]; try discriminate H; simpl in H; contradiction);
    try (destruct k; intros [H _]; simpl in H; contradiction).
  - intros [<- ->]. left. auto.
  - intros (_ & _ & -> & H). right. auto.
Qed.

(** I3: Remove *)
Theorem jdk_remove_noop : forall ts s, it_last ts = 0 -> qstep (qstart ts Remove) s = Done RUnit ts s.
Proof. intros ts s H. unfold qstart, qstep. simpl. rewrite H. reflexivity. Qed.

Theorem jdk_remove_done : forall progs sched t th l fresh r ts' s',
  let c := final jdk (jdk_init progs) sched in
  let s := c_sh c in
  let lst := it_last (t_ts th) in
  nth_error (c_thr c) t = Some th -> view jdk th = Some (Remove, l, fresh) ->
  qstep l s = Done r ts' s' ->
  r = RUnit /\ it_last ts' = 0 /\
  it_node ts' = it_node (t_ts th) /\ it_has ts' = it_has (t_ts th) /\ it_val ts' = it_val (t_ts th) /\
  (lst = 0 -> s' = s) /\
  (lst <> 0 ->
     1 <= lst /\ lst <= len s /\ l_pc l = RSet lst /\
     q_head s' = q_head s /\ q_tail s' = q_tail s /\ len s' = len s /\
     forall a, nd s' a = if Nat.eqb a lst then Node (val s lst) false (nxt s lst) else nd s a).
Proof.
  intros progs sched t th l fresh r ts' s' c s lst Hn Hv Hq.
  destruct (jdk_call_done progs sched t th _ l fresh r ts' s' Hn Hv Hq) as [[-> H] _].
  destruct H as (A & B & C & D & E & F). fold c s lst in E, F.
  assert (Hin : lst <> 0 -> inr s lst).
  { intros H. destruct (jdk_iter_discipline progs sched t th Hn) as [(_ & _ & [T|T] & _) _];
      [unfold lst in H; contradiction|exact T]. }
  repeat split; auto.
  - apply (Hin H).
  - apply (Hin H).
  - destruct (XInv_final progs sched) as (_ & _ & _ & Hthr).
    pose proof (view_it _ _ _ _ _ (Hthr _ _ Hn) Hv) as HA. fold c s in HA.
    destruct (opc_remove _ _ _ _ HA) as [[E1 E2]|[E1 _]]; [|exact E1].
    exfalso. destruct l as [pc0 it0]. simpl in E1, E2. subst pc0 it0.
    unfold qstep in Hq. simpl in Hq.
    destruct (it_last (t_ts th)) eqn:El; [unfold lst in H; contradiction|discriminate].
  - rewrite (F H). apply head_setn.
  - rewrite (F H). apply tail_setn.
  - rewrite (F H). apply len_setn.
  - intros a. rewrite (F H). apply nd_setn. apply (Hin H).
Qed.

Print Assumptions jdk_next_done.
Print Assumptions jdk_remove_done.

(** *** the iterator constructor *)

Definition out_it (out : qout) : option qiter :=
  match out with Next l' _ => Some (l_it l') | Done _ ts' _ => Some ts' | _ => None end.

Lemma out_it_update_head it h x r s : out_it (update_head it h x (KRet r) s) = Some it.
Proof. unfold update_head. destruct (Nat.eqb h x); reflexivity. Qed.

(** the instant at which the constructor's scan ends: either it reads a live
    node p - every node before p is dead - and captures it, or it reads the
    dead last node - the whole list is dead - and the cursor is nil *)
Theorem jdk_iternew_instant : forall progs sched t th l fresh k h p,
  let c := final jdk (jdk_init progs) sched in
  let s := c_sh c in
  nth_error (c_thr c) t = Some th -> view jdk th = Some (IterNew, l, fresh) ->
  (l_pc l = SItem k h p -> live s p = true ->
     db s p /\ 2 <= p /\ p <= len s /\ out_it (qstep l s) = Some (Iter p true (val s p) 0)) /\
  (l_pc l = SNext k h p -> nxt s p = 0 ->
     p = len s /\ db s (S (len s)) /\ out_it (qstep l s) = Some qiter0).
Proof.
  intros progs sched t th l fresh k h p c s Hn Hv.
  destruct (XInv_final progs sched) as (HC & Hd1 & _ & Hthr). fold c in HC, Hd1, Hthr.
  pose proof HC as [HI HCthr].
  destruct (view_ok _ _ _ _ _ (HCthr _ _ Hn) Hv) as [Hpc Hit].
  pose proof (view_it _ _ _ _ _ (Hthr _ _ Hn) Hv) as HA. fold s in Hpc, HA, Hd1, HI.
  destruct l as [pc0 it0]. simpl in *. split; intros -> Hl; simpl in Hpc, HA.
  - destruct Hpc as (A & B & C & D). destruct HA as [K ->].
    destruct k; simpl in K; try contradiction.
    assert (Hp : inr s p) by (unfold inr; lia).
    split; [exact D|]. split; [destruct (Nat.eq_dec p 1) as [->|]; [congruence|lia]|].
    split; [exact C|]. unfold qstep. simpl. rewrite (getn_inr s p Hp). fold (live s p). rewrite Hl.
    unfold scan_end. apply out_it_update_head.
  - destruct Hpc as (A & B & C & D). destruct HA as [K ->].
    destruct k; simpl in K; try contradiction.
    assert (Hp : inr s p) by (unfold inr; lia).
    assert (Hpl : p = len s) by (apply (qi_last _ HI); assumption).
    split; [exact Hpl|]. split; [rewrite <- Hpl; exact D|].
    unfold qstep. simpl. rewrite (getn_inr s p Hp). fold (nxt s p). rewrite Hl. simpl.
    unfold scan_end. apply out_it_update_head.
Qed.

(** the constructor returns an iterator with no last element whose cursor, if
    any, has only dead nodes before it *)
Theorem jdk_iternew_done : forall progs sched t th l fresh r ts' s',
  let c := final jdk (jdk_init progs) sched in
  nth_error (c_thr c) t = Some th -> view jdk th = Some (IterNew, l, fresh) ->
  qstep l (c_sh c) = Done r ts' s' ->
  r = RUnit /\ it_last ts' = 0 /\ itd s' ts' /\ (it_has ts' = true -> db s' (it_node ts')).
Proof.
  intros progs sched t th l fresh r ts' s' c Hn Hv Hq.
  destruct (jdk_call_done progs sched t th _ l fresh r ts' s' Hn Hv Hq) as [[-> (A & B & C)] _].
  auto.
Qed.

Print Assumptions jdk_iternew_instant.

(** ** (a) the cursor only moves forward within a traversal *)

(** order on cursors: nil (0) is the end of the list *)
Definition clt (a b : nat) : Prop := a <> 0 /\ (b = 0 \/ a < b).
Definition cle (a b : nat) : Prop := a = b \/ clt a b.

Lemma cle_trans a b c : cle a b -> cle b c -> cle a c.
Proof.
  unfold cle, clt. intros [->|[A1 A2]] [->|[B1 B2]]; auto.
  right. split; [exact A1|]. destruct A2 as [->|A2]; [contradiction|]. destruct B2; [auto|right; lia].
Qed.

Definition cur (c : qcfg) (t : nat) : nat :=
  match nth_error (c_thr c) t with Some th => it_node (t_ts th) | None => 0 end.

(** the operation thread [t] is executing or about to invoke *)
Definition op_of (c : qcfg) (t : nat) : option qop :=
  match nth_error (c_thr c) t with
  | Some th => match view jdk th with Some (o, _, _) => Some o | None => None end
  | None => None
  end.

Lemma cur_step c t t' :
  XInv c -> (t' = t -> op_of c t <> Some IterNew) -> cle (cur c t) (cur (step_cfg jdk c t') t).
Proof.
  intros HX Hno. destruct (Nat.eq_dec t' t) as [->|Hne].
  2:{ left. unfold cur. rewrite step_cfg_other by auto. reflexivity. }
  specialize (Hno eq_refl). unfold op_of in Hno.
  destruct (nth_error (c_thr c) t) as [th|] eqn:Hn.
  2:{ rewrite step_idle; [left; reflexivity|]. intros th E. congruence. }
  destruct (view jdk th) as [[[o l] fresh]|] eqn:Hv.
  2:{ rewrite step_idle; [left; reflexivity|]. intros th' E. congruence. }
  pose proof HX as (HC & Hd1 & _ & Hthr). pose proof HC as [HI HCthr].
  destruct (view_ok _ _ _ _ _ (HCthr _ _ Hn) Hv) as [Hpc Hit].
  destruct (Hthr _ _ Hn) as [Hts _].
  pose proof (view_it _ _ _ _ _ (Hthr _ _ Hn) Hv) as HA.
  pose proof (qstep_ok l (c_sh c) HI Hpc Hit) as Hout.
  pose proof (qstep_it o (t_ts th) l (c_sh c) HI Hd1 Hpc Hts HA) as Hio.
  rewrite (step_descr c t th o l fresh Hn Hv). unfold cur at 1. rewrite Hn.
  destruct (qstep l (c_sh c)) as [l' s'|r ts' s'| |]; simpl in Hout, Hio; try contradiction;
    unfold cur; simpl; rewrite nth_error_upd, Nat.eqb_refl, Hn; simpl; [left; reflexivity|].
  destruct Hout as (HI' & Hle & _). destruct (Hio HI' Hle) as [Hd _].
  destruct o; simpl in Hd; try (subst ts'; left; reflexivity).
  - congruence.
  - destruct Hd as (_ & -> & _). left; reflexivity.
  - destruct Hd as (_ & N1 & N2). destruct (Nat.eq_dec (it_node (t_ts th)) 0) as [E|E].
    + destruct (N1 E) as [-> _]. left; reflexivity.
    + destruct (N2 E) as (_ & _ & [(-> & _)|(H & _)]); right; split; auto.
  - destruct Hd as (_ & -> & _). left; reflexivity.
Qed.

Lemma cur_steps : forall sched c t k ck tk,
  XInv c -> nth_error (steps_of jdk c sched) k = Some (ck, tk) ->
  (forall m cm, m < k -> nth_error (steps_of jdk c sched) m = Some (cm, t) -> op_of cm t <> Some IterNew) ->
  cle (cur c t) (cur ck t).
Proof.
  induction sched as [|t0 s IH]; intros c t k ck tk HX Hk Hno.
  - destruct k; discriminate.
  - cbn [steps_of] in *. destruct (step_thread jdk c t0) as [[c' e]|] eqn:E.
    + destruct k as [|k].
      * injection Hk as <- <-. left; reflexivity.
      * cbn [nth_error] in Hk.
        assert (Hc' : step_cfg jdk c t0 = c') by (apply (step_cfg_some jdk _ _ _ _ E)).
        apply cle_trans with (cur c' t).
        -- rewrite <- Hc'. apply cur_step; [exact HX|]. intros ->.
           apply (Hno 0 c); [lia|reflexivity].
        -- apply (IH c' t k ck tk); [rewrite <- Hc'; apply XInv_step; exact HX|exact Hk|].
           intros m cm Hm Hnm. apply (Hno (S m) cm); [lia|exact Hnm].
    + apply (IH c t k ck tk); auto.
Qed.

(** two Next calls of the same thread with no IterNew of that thread in
    between return strictly increasing node addresses: no element is returned
    twice, and elements come in queue order *)
Theorem jdk_traversal_ordered : forall progs sched t i j ci cj thi thj li lj fri frj ri rj tsi tsj si sj,
  let steps := steps_of jdk (jdk_init progs) sched in
  nth_error steps i = Some (ci, t) -> nth_error steps j = Some (cj, t) -> i < j ->
  nth_error (c_thr ci) t = Some thi -> view jdk thi = Some (ItNext, li, fri) ->
  qstep li (c_sh ci) = Done ri tsi si -> it_node (t_ts thi) <> 0 ->
  nth_error (c_thr cj) t = Some thj -> view jdk thj = Some (ItNext, lj, frj) ->
  qstep lj (c_sh cj) = Done rj tsj sj -> it_node (t_ts thj) <> 0 ->
  (forall k ck, i < k -> k < j -> nth_error steps k = Some (ck, t) -> op_of ck t <> Some IterNew) ->
  it_node (t_ts thi) < it_node (t_ts thj) /\
  ri = RVal (val (c_sh ci) (it_node (t_ts thi))) /\ rj = RVal (val (c_sh cj) (it_node (t_ts thj))).
Proof.
  intros progs sched t i j ci cj thi thj li lj fri frj ri rj tsi tsj si sj steps
         Hi Hj Hij Hni Hvi Hqi H0i Hnj Hvj Hqj H0j Hno.
  destruct (steps_of_split jdk _ _ _ _ _ Hi) as (s1 & s2 & ci' & e & E1 & E2 & E3).
  destruct (steps_of_split jdk _ _ _ _ _ Hj) as (s1j & _ & _ & _ & E1j & _ & _).
  pose proof (jdk_next_done progs s1 t thi li fri ri tsi si) as Di. rewrite <- E1 in Di.
  destruct (Di Hni Hvi Hqi H0i) as (_ & Ri & _ & _ & _ & _ & Ci).
  pose proof (jdk_next_done progs s1j t thj lj frj rj tsj sj) as Dj. rewrite <- E1j in Dj.
  destruct (Dj Hnj Hvj Hqj H0j) as (_ & Rj & _).
  split; [|split; assumption].
  assert (HXi : XInv ci) by (rewrite E1; apply XInv_final).
  assert (Hc' : step_cfg jdk ci t = ci') by (apply (step_cfg_some jdk _ _ _ _ E2)).
  assert (HXi' : XInv ci') by (rewrite <- Hc'; apply XInv_step; exact HXi).
  assert (Hcur' : cur ci' t = it_node tsi).
  { rewrite <- Hc', (step_descr ci t thi ItNext li fri Hni Hvi), Hqi. unfold cur. simpl.
    rewrite nth_error_upd, Nat.eqb_refl, Hni. reflexivity. }
  assert (Hj' : nth_error (steps_of jdk ci' s2) (j - S i) = Some (cj, t)).
  { rewrite <- E3, nth_error_skipn. replace (S i + (j - S i)) with j by lia. exact Hj. }
  assert (Hle : cle (cur ci' t) (cur cj t)).
  { apply (cur_steps s2 ci' t (j - S i) cj t HXi' Hj').
    intros m cm Hm Hnm. apply (Hno (S i + m) cm); try lia.
    fold steps in E3. rewrite <- nth_error_skipn, E3. exact Hnm. }
  rewrite Hcur' in Hle. unfold cur in Hle. rewrite Hnj in Hle.
  unfold cle, clt in Hle.
  destruct Ci as [(Z & _)|(Lt & _)].
  - rewrite Z in Hle. destruct Hle as [Hle|[Hle _]]; [congruence|contradiction].
  - destruct Hle as [Hle|[_ [Hle|Hle]]]; [rewrite <- Hle; exact Lt|contradiction|lia].
Qed.

Print Assumptions jdk_traversal_ordered.

(** ** I4: exactly one fate for every node *)

Section StepsMore.
Context {sh ts lo op ret : Type}.
Variable M : machine sh ts lo op ret.

Lemma steps_of_split' c sched i ci ti :
  nth_error (steps_of M c sched) i = Some (ci, ti) ->
  exists s1 s2,
    ci = final M c s1 /\ step_thread M ci ti <> None /\
    skipn (S i) (steps_of M c sched) = steps_of M (step_cfg M ci ti) s2 /\
    final M c sched = final M (step_cfg M ci ti) s2.
Proof.
  revert c i. induction sched as [|t s IH]; intros c i H.
  - destruct i; discriminate.
  - cbn [steps_of] in *. destruct (step_thread M c t) as [[c' e]|] eqn:E.
    + destruct i as [|i].
      * injection H as <- <-. exists [], s. rewrite final_cons.
        repeat split; auto; try congruence; rewrite (step_cfg_some M _ _ _ _ E); reflexivity.
      * cbn [nth_error] in H. destruct (IH _ _ H) as (s1 & s2 & H1 & H2 & H3 & H4).
        exists (t :: s1), s2. rewrite !final_cons, (step_cfg_some M _ _ _ _ E). auto.
    + destruct (IH _ _ H) as (s1 & s2 & H1 & H2 & H3 & H4).
      exists (t :: s1), s2. rewrite !final_cons, (step_cfg_none M _ _ E). auto.
Qed.

Lemma steps_later c sched i j ci ti cj tj :
  nth_error (steps_of M c sched) i = Some (ci, ti) ->
  nth_error (steps_of M c sched) j = Some (cj, tj) -> i < j ->
  exists s1 s3, ci = final M c s1 /\ cj = final M (step_cfg M ci ti) s3.
Proof.
  intros Hi Hj Hlt.
  destruct (steps_of_split' _ _ _ _ _ Hi) as (s1 & s2 & H1 & H2 & H3 & _).
  assert (Hj' : nth_error (steps_of M (step_cfg M ci ti) s2) (j - S i) = Some (cj, tj)).
  { rewrite <- H3, nth_error_skipn. replace (S i + (j - S i)) with j by lia. exact Hj. }
  destruct (steps_of_reach M _ _ _ _ _ Hj') as [s3 H4]. eauto.
Qed.
End StepsMore.

(** the value a call in its final phase is going to return *)
Definition pending_ret (c : pc) : option qret :=
  match c with
  | OCasTail _ _ => Some RUnit
  | PNextAfter _ _ v => Some (RVal v)
  | UCasHead _ _ (KRet r) | USetNext _ (KRet r) => Some r
  | _ => None
  end.

Definition pend_of_out (out : qout) : option qret :=
  match out with
  | Done r _ _ => Some r
  | Next l' _ => pending_ret (l_pc l')
  | _ => None
  end.

Lemma pend_update_head it h x r s : pend_of_out (update_head it h x (KRet r) s) = Some r.
Proof. unfold update_head. destruct (Nat.eqb h x); reflexivity. Qed.

(** once determined, the value is the one returned *)
Lemma pending_step l s r :
  QInv s -> pc_ok s (l_pc l) -> pending_ret (l_pc l) = Some r -> pend_of_out (qstep l s) = Some r.
Proof.
  intros HI Hpc. destruct l as [c it]. simpl in *. pose proof (qi_head _ HI) as Hhd. unfold inr in Hhd.
  destruct c; simpl; try discriminate; unfold qstep; cbn [l_pc l_it].
  - intros E. injection E as <-. reflexivity.
  - intros E. injection E as <-. destruct Hpc as (A & B & C & D).
    assert (Hp : inr s p) by (unfold inr; lia). rewrite (getn_inr s p Hp). apply pend_update_head.
  - destruct k as [r0|]; [|discriminate]. intros E. injection E as <-.
    destruct (Nat.eqb (q_head s) h); reflexivity.
  - destruct k as [r0|]; [|discriminate]. intros E. injection E as <-. destruct Hpc as (A & B & C).
    assert (Hh : inr s h) by (unfold inr; lia). rewrite (getn_inr s h Hh). reflexivity.
Qed.

(** step [t] from [c] takes the item of node [a] *)
Definition kills (c : qcfg) (t a : nat) : Prop :=
  inr (c_sh c) a /\ live (c_sh c) a = true /\ live (c_sh (step_cfg jdk c t)) a = false.

(** the only steps that take an item: the successful item CAS of a Poll -
    which then returns the value of that node - and the store of a Remove on
    the node last returned by Next *)
Lemma kill_cause c t a :
  XInv c -> kills c t a ->
  exists th o l fresh,
    nth_error (c_thr c) t = Some th /\ view jdk th = Some (o, l, fresh) /\
    ((o = Poll /\ (exists h, l_pc l = PCasItem h a) /\
      pend_of_out (qstep l (c_sh c)) = Some (RVal (val (c_sh c) a))) \/
     (o = Remove /\ l_pc l = RSet a /\ a = it_last (t_ts th))).
Proof.
  intros HX (Ha & Hl & Hd). pose proof HX as (HC & _ & _ & Hthr).
  destruct (nth_error (c_thr c) t) as [th|] eqn:Hn.
  2:{ rewrite step_idle in Hd; [congruence|]. intros th E. congruence. }
  destruct (view jdk th) as [[[o l] fresh]|] eqn:Hv.
  2:{ rewrite step_idle in Hd; [congruence|]. intros th' E. congruence. }
  exists th, o, l, fresh. split; [reflexivity|]. split; [exact Hv|].
  pose proof (view_it _ _ _ _ _ (Hthr _ _ Hn) Hv) as HA.
  pose proof (qstep_effect l (c_sh c)) as Heff.
  rewrite <- (step_sh c t th o l fresh Hn Hv) in Heff.
  destruct (eff_cell _ _ _ a Heff Ha) as [_ [E|(_ & _ & [[h Ec]|Ec])]]; [congruence| |].
  - left. rewrite Ec in HA. simpl in HA. destruct HA as [-> _].
    split; [reflexivity|]. split; [eauto|].
    destruct l as [c0 it0]. simpl in Ec. subst c0. unfold qstep. simpl.
    rewrite (getn_inr _ a Ha). fold (live (c_sh c) a). rewrite Hl. fold (val (c_sh c) a).
    destruct (Nat.eqb a h); reflexivity.
  - right. rewrite Ec in HA. simpl in HA. destruct HA as (-> & _ & E & _). auto.
Qed.

Lemma run_le c sched : CInv c -> sh_le (c_sh c) (c_sh (final jdk c sched)).
Proof. intros H. apply CInv_run. exact H. Qed.

(** a dead node stays dead *)
Theorem jdk_dead_forever : forall progs sched i j ci ti cj tj a,
  let steps := steps_of jdk (jdk_init progs) sched in
  nth_error steps i = Some (ci, ti) -> nth_error steps j = Some (cj, tj) -> i <= j ->
  inr (c_sh ci) a -> live (c_sh ci) a = false ->
  inr (c_sh cj) a /\ live (c_sh cj) a = false.
Proof.
  intros progs sched i j ci ti cj tj a steps Hi Hj Hij Ha Hd.
  destruct (Nat.eq_dec i j) as [->|Hne].
  - unfold steps in *. rewrite Hi in Hj. injection Hj as <- <-. auto.
  - destruct (steps_later jdk _ _ _ _ _ _ _ _ Hi Hj) as (s1 & s3 & E1 & E2); [lia|].
    assert (HC : CInv ci) by (rewrite E1; apply CInv_final).
    destruct (CInv_step ci ti HC) as [HC' Hle1].
    pose proof (run_le _ s3 HC') as Hle2. rewrite <- E2 in Hle2.
    pose proof (sh_le_trans _ _ _ Hle1 Hle2) as Hle.
    split; [eapply inr_le; eauto|apply (le_dead _ _ Hle); assumption].
Qed.

(** at most one step takes the item of a node *)
Theorem jdk_killed_once : forall progs sched i j ci ti cj tj a,
  let steps := steps_of jdk (jdk_init progs) sched in
  nth_error steps i = Some (ci, ti) -> nth_error steps j = Some (cj, tj) ->
  kills ci ti a -> kills cj tj a -> i = j.
Proof.
  intros progs sched i j ci ti cj tj a steps Hi Hj Ki Kj.
  assert (Gen : forall i j ci ti cj tj,
            nth_error steps i = Some (ci, ti) -> nth_error steps j = Some (cj, tj) ->
            kills ci ti a -> kills cj tj a -> i < j -> False).
  { clear. intros i j ci ti cj tj Hi Hj (Ai & Li & Di) (Aj & Lj & Dj) Hlt.
    destruct (steps_later jdk _ _ _ _ _ _ _ _ Hi Hj Hlt) as (s1 & s3 & E1 & E2).
    assert (HC : CInv ci) by (rewrite E1; apply CInv_final).
    destruct (CInv_step ci ti HC) as [HC' Hle1].
    pose proof (run_le _ s3 HC') as Hle2. rewrite <- E2 in Hle2.
    assert (Ai' : inr (c_sh (step_cfg jdk ci ti)) a) by (eapply inr_le; eauto).
    rewrite (le_dead _ _ Hle2 a Ai' Di) in Lj. discriminate. }
  destruct (Nat.lt_trichotomy i j) as [L|[E|G]]; [exfalso; eauto|exact E|exfalso; eauto].
Qed.

(** every node that is dead at the end was taken by some step of the execution *)
Theorem jdk_dead_was_killed : forall progs sched a,
  let c := final jdk (jdk_init progs) sched in
  2 <= a -> a <= len (c_sh c) -> live (c_sh c) a = false ->
  exists i ci ti, nth_error (steps_of jdk (jdk_init progs) sched) i = Some (ci, ti) /\ kills ci ti a.
Proof.
  intros progs sched. induction sched as [|t s1 IH] using rev_ind; intros a c A1 A2 Hd.
  - unfold c, len in A2. simpl in A2. lia.
  - unfold c in *. rewrite final_app in *. rewrite steps_of_app.
    set (c1 := final jdk (jdk_init progs) s1) in *.
    rewrite final_cons, final_nil in *.
    assert (HX : XInv c1) by apply XInv_final.
    assert (Hpre : forall i ci ti, nth_error (steps_of jdk (jdk_init progs) s1) i = Some (ci, ti) ->
              nth_error (steps_of jdk (jdk_init progs) s1 ++ steps_of jdk c1 [t]) i = Some (ci, ti)).
    { intros i ci ti H. rewrite nth_error_app1; [exact H|]. apply nth_error_Some. congruence. }
    destruct (step_thread jdk c1 t) as [[c2 e]|] eqn:E.
    2:{ rewrite (step_cfg_none jdk _ _ E) in *. destruct (IH a A1 A2 Hd) as (i & ci & ti & H & K).
        exists i, ci, ti. split; [apply Hpre; exact H|exact K]. }
    destruct (Nat.le_gt_cases a (len (c_sh c1))) as [L|G].
    + destruct (live (c_sh c1) a) eqn:El.
      * exists (length (steps_of jdk (jdk_init progs) s1)), c1, t. split.
        -- rewrite nth_error_app2, Nat.sub_diag by lia. cbn [steps_of]. rewrite E. reflexivity.
        -- split; [unfold inr; lia|]. split; [exact El|exact Hd].
      * destruct (IH a A1 L El) as (i & ci & ti & H & K).
        exists i, ci, ti. split; [apply Hpre; exact H|exact K].
    + (* a was appended by this very step: it is live *)
      exfalso. destruct HX as (HC & _ & _ & Hthr).
      destruct (nth_error (c_thr c1) t) as [th|] eqn:Hn.
      2:{ rewrite step_idle in A2; [lia|]. intros th E'. congruence. }
      destruct (view jdk th) as [[[o l] fresh]|] eqn:Hv.
      2:{ rewrite step_idle in A2; [lia|]. intros th' E'. congruence. }
      pose proof (qstep_effect l (c_sh c1)) as Heff.
      rewrite <- (step_sh c1 t th o l fresh Hn Hv) in Heff.
      destruct (eff_len _ _ _ Heff) as [El|(v & t0 & p & _ & El & Hl & _)]; [lia|].
      assert (a = S (len (c_sh c1))) by lia. subst a. congruence.
Qed.

(** [absq] is the list of values of the live nodes, in address order *)
Lemma absl_map {A} (g : A -> node) l :
  absl (map g l) = map (fun a => n_val (g a)) (filter (fun a => n_live (g a)) l).
Proof.
  induction l as [|a l IH]; [reflexivity|]. simpl. rewrite absl_cons, IH.
  destruct (n_live (g a)); reflexivity.
Qed.

Lemma nodes_seq s : q_nodes s = map (nd s) (seq 1 (len s)).
Proof.
  destruct s as [l hd tl]. unfold len, nd. simpl q_nodes.
  assert (H : forall (l0 l : list node) , 
            map (fun a => match getn (QS (l0 ++ l) 0 0) a with Some n => n | None => dnode end)
                (seq (S (length l0)) (length l)) = l).
  { intros l0 l1. revert l0. induction l1 as [|x l1 IH]; intros l0; [reflexivity|].
    simpl. rewrite nth_error_app2, Nat.sub_diag by lia. simpl. f_equal.
    specialize (IH (l0 ++ [x])). rewrite <- app_assoc, app_length in IH. simpl in IH.
    replace (length l0 + 1) with (S (length l0)) in IH by lia. exact IH. }
  specialize (H [] l). simpl in H. symmetry.
  etransitivity; [|exact H]. apply map_ext. intros a. destruct a; reflexivity.
Qed.

Theorem absq_live_nodes s : absq s = map (val s) (filter (live s) (seq 1 (len s))).
Proof. unfold absq. rewrite (nodes_seq s) at 1. apply absl_map. Qed.

(** exactly one fate: a node is either still queued (live, its value is in
    [absq]) and no step ever took it, or it was taken by exactly one step, which
    is the item CAS of a Poll that returns its value or the store of a Remove
    on the element last returned by Next *)
Theorem jdk_exactly_one_fate : forall progs sched a,
  let c := final jdk (jdk_init progs) sched in
  let steps := steps_of jdk (jdk_init progs) sched in
  2 <= a -> a <= len (c_sh c) ->
  (live (c_sh c) a = true /\ forall i ci ti, nth_error steps i = Some (ci, ti) -> ~ kills ci ti a) \/
  (live (c_sh c) a = false /\
   exists i ci ti, nth_error steps i = Some (ci, ti) /\ kills ci ti a /\
     (forall j cj tj, nth_error steps j = Some (cj, tj) -> kills cj tj a -> j = i) /\
     exists th o l fresh,
       nth_error (c_thr ci) ti = Some th /\ view jdk th = Some (o, l, fresh) /\
       ((o = Poll /\ (exists h, l_pc l = PCasItem h a) /\
         pend_of_out (qstep l (c_sh ci)) = Some (RVal (val (c_sh ci) a))) \/
        (o = Remove /\ l_pc l = RSet a /\ a = it_last (t_ts th)))).
Proof.
  intros progs sched a c steps A1 A2. destruct (live (c_sh c) a) eqn:El; [left|right].
  - split; [reflexivity|]. intros i ci ti Hi (Ka & Kl & Kd).
    destruct (steps_of_split' jdk _ _ _ _ _ Hi) as (s1 & s2 & E1 & _ & _ & E4).
    assert (HC : CInv ci) by (rewrite E1; apply CInv_final).
    destruct (CInv_step ci ti HC) as [HC' Hle1].
    pose proof (run_le _ s2 HC') as Hle2. rewrite <- E4 in Hle2. fold c in Hle2.
    assert (Ai' : inr (c_sh (step_cfg jdk ci ti)) a) by (eapply inr_le; eauto).
    rewrite (le_dead _ _ Hle2 a Ai' Kd) in El. discriminate.
  - split; [reflexivity|].
    destruct (jdk_dead_was_killed progs sched a A1 A2 El) as (i & ci & ti & Hi & K).
    exists i, ci, ti. split; [exact Hi|]. split; [exact K|]. split.
    + intros j cj tj Hj Kj. eapply jdk_killed_once; eauto.
    + destruct (steps_of_reach jdk _ _ _ _ _ Hi) as [s1 E1].
      apply kill_cause; [rewrite E1; apply XInv_final|exact K].
Qed.

Print Assumptions jdk_exactly_one_fate.

(** where the value returned by a Poll or a Peek comes from: the node whose
    item was live at the instant of the item CAS / item load (or nil when the
    dead last node was reached) *)
Lemma opc_poll_peek s o ts c it :
  opc s o ts c it -> o = Poll \/ o = Peek -> pending_ret c = None ->
  (o = Poll /\ (c = Inv Poll \/ c = PHead \/
                exists h p, c = PItem h p \/ c = PCasItem h p \/ c = PNext h p)) \/
  (o = Peek /\ (c = Inv Peek \/ c = SHead SKPeek \/
                exists h p, c = SItem SKPeek h p \/ c = SNext SKPeek h p)).
Proof.
  intros HA Ho Hp.
  destruct c; simpl in HA, Hp; try discriminate Hp;
    try (exfalso; destruct HA as [HA _]; destruct Ho as [Ho|Ho]; rewrite Ho in HA; discriminate HA).
  - destruct HA as [<- _]. destruct Ho as [->| ->]; [left|right]; auto.
  - destruct HA as [-> _]. left. auto.
  - destruct HA as [-> _]. left. split; [reflexivity|]. right; right. eauto.
  - destruct HA as [-> _]. left. split; [reflexivity|]. right; right. eauto.
  - destruct HA as [-> _]. left. split; [reflexivity|]. right; right. eauto.
  - destruct k; [discriminate Hp|]. exfalso. destruct HA as [HA _].
    destruct Ho as [Ho|Ho]; rewrite Ho in HA; discriminate HA.
  - destruct k; [discriminate Hp|]. exfalso. destruct HA as [HA _].
    destruct Ho as [Ho|Ho]; rewrite Ho in HA; discriminate HA.
  - destruct HA as [K _]. destruct k; destruct Ho as [-> | ->]; simpl in K; try contradiction.
    right. auto.
  - destruct HA as [K _]. destruct k; destruct Ho as [-> | ->]; simpl in K; try contradiction.
    right. split; [reflexivity|]. right; right. eauto.
  - destruct HA as [K _]. destruct k; destruct Ho as [-> | ->]; simpl in K; try contradiction.
    right. split; [reflexivity|]. right; right. eauto.
Qed.

Theorem jdk_value_origin : forall progs sched t th o l fresh r,
  let c := final jdk (jdk_init progs) sched in
  let s := c_sh c in
  nth_error (c_thr c) t = Some th -> view jdk th = Some (o, l, fresh) ->
  o = Poll \/ o = Peek ->
  pending_ret (l_pc l) = None -> pend_of_out (qstep l s) = Some r ->
  (exists h p, (l_pc l = PCasItem h p \/ l_pc l = SItem SKPeek h p) /\
               inr s p /\ live s p = true /\ r = RVal (val s p)) \/
  (exists h p, (l_pc l = PNext h p \/ l_pc l = SNext SKPeek h p) /\
               p = len s /\ db s (S (len s)) /\ r = RVal 0).
Proof.
  intros progs sched t th o l fresh r c s Hn Hv Ho Hp Hr.
  destruct (XInv_final progs sched) as (HC & Hd1 & _ & Hthr). fold c in HC, Hd1, Hthr.
  pose proof HC as [HI HCthr].
  destruct (view_ok _ _ _ _ _ (HCthr _ _ Hn) Hv) as [Hpc Hit].
  pose proof (view_it _ _ _ _ _ (Hthr _ _ Hn) Hv) as HA. fold s in Hpc, HA, HI.
  destruct l as [pc0 it0]. cbn [l_pc l_it] in *.
  destruct (opc_poll_peek _ _ _ _ _ HA Ho Hp)
    as [(-> & [-> | [-> | (h & p & [-> | [-> | ->]])]]) | (-> & [-> | [-> | (h & p & [-> | ->])]])];
    unfold qstep in Hr; cbn [l_pc l_it] in Hr; cbn [pc_ok] in Hpc; try discriminate Hr.
  - (* PItem *) destruct Hpc as (A & B & C & D). assert (Hin : inr s p) by (unfold inr; lia).
    rewrite (getn_inr s p Hin) in Hr. destruct (n_live (nd s p)); discriminate.
  - (* PCasItem *) destruct Hpc as (A & B & C & D). assert (Hin : inr s p) by (unfold inr; lia).
    rewrite (getn_inr s p Hin) in Hr. fold (live s p) in Hr. fold (val s p) in Hr.
    destruct (live s p) eqn:El; [|discriminate]. left. exists h, p.
    split; [auto|]. split; [exact Hin|]. split; [exact El|].
    destruct (Nat.eqb p h); simpl in Hr; congruence.
  - (* PNext *) destruct Hpc as (A & B & C & D). assert (Hin : inr s p) by (unfold inr; lia).
    rewrite (getn_inr s p Hin) in Hr. fold (nxt s p) in Hr.
    destruct (Nat.eqb_spec (nxt s p) 0) as [E0|N0].
    + rewrite pend_update_head in Hr. right. exists h, p. split; [auto|].
      assert (Hpl : p = len s) by (apply (qi_last _ HI); assumption).
      split; [exact Hpl|]. split; [rewrite <- Hpl; exact D|congruence].
    + destruct (Nat.eqb p (nxt s p)); discriminate.
  - (* SItem *) destruct Hpc as (A & B & C & D). assert (Hin : inr s p) by (unfold inr; lia).
    rewrite (getn_inr s p Hin) in Hr. fold (live s p) in Hr. fold (val s p) in Hr.
    destruct (live s p) eqn:El; [|discriminate].
    unfold scan_end in Hr. rewrite pend_update_head in Hr.
    left. exists h, p. split; [auto|]. split; [exact Hin|]. split; [exact El|congruence].
  - (* SNext *) destruct Hpc as (A & B & C & D). assert (Hin : inr s p) by (unfold inr; lia).
    rewrite (getn_inr s p Hin) in Hr. fold (nxt s p) in Hr.
    destruct (Nat.eqb_spec (nxt s p) 0) as [E0|N0].
    + unfold scan_end in Hr. rewrite pend_update_head in Hr.
      right. exists h, p. split; [auto|].
      assert (Hpl : p = len s) by (apply (qi_last _ HI); assumption).
      split; [exact Hpl|]. split; [rewrite <- Hpl; exact D|congruence].
    + destruct (Nat.eqb p (nxt s p)); discriminate.
Qed.

Print Assumptions jdk_value_origin.

(** ** (b) completeness of a traversal *)

Lemma call_done_gen c t th o l fresh r ts' s' :
  XInv c -> nth_error (c_thr c) t = Some th -> view jdk th = Some (o, l, fresh) ->
  qstep l (c_sh c) = Done r ts' s' -> done_ok (c_sh c) o (t_ts th) r ts' s'.
Proof.
  intros (HC & Hd1 & _ & Hthr) Hn Hv Hq. pose proof HC as [HI HCthr].
  destruct (view_ok _ _ _ _ _ (HCthr _ _ Hn) Hv) as [Hpc Hit].
  destruct (Hthr _ _ Hn) as [Hts _].
  pose proof (view_it _ _ _ _ _ (Hthr _ _ Hn) Hv) as HA.
  pose proof (qstep_ok l (c_sh c) HI Hpc Hit) as Hout.
  pose proof (qstep_it o (t_ts th) l (c_sh c) HI Hd1 Hpc Hts HA) as Hio.
  rewrite Hq in Hout, Hio. simpl in Hout, Hio. destruct Hout as (HI' & Hle & _). auto.
Qed.

(** the step of thread [t] from [c] completes a Next call that returns node [a] *)
Definition next_returns (c : qcfg) (t a : nat) : Prop :=
  exists th l fresh r ts' s',
    nth_error (c_thr c) t = Some th /\ view jdk th = Some (ItNext, l, fresh) /\
    qstep l (c_sh c) = Done r ts' s' /\ it_node (t_ts th) = a /\ a <> 0.

Lemma cur_step' c t t' :
  XInv c -> (t' = t -> op_of c t <> Some IterNew) ->
  cur (step_cfg jdk c t') t = cur c t \/
  (t' = t /\ cur c t <> 0 /\ next_returns c t (cur c t) /\ c_sh (step_cfg jdk c t') = c_sh c /\
   (cur (step_cfg jdk c t') t <> 0 ->
      cur c t < cur (step_cfg jdk c t') t /\
      dead_in (c_sh c) (S (cur c t)) (cur (step_cfg jdk c t') t))).
Proof.
  intros HX Hno. destruct (Nat.eq_dec t' t) as [->|Hne].
  2:{ left. unfold cur. rewrite step_cfg_other by auto. reflexivity. }
  specialize (Hno eq_refl). unfold op_of in Hno.
  destruct (nth_error (c_thr c) t) as [th|] eqn:Hn.
  2:{ rewrite step_idle; [left; reflexivity|]. intros th E. congruence. }
  destruct (view jdk th) as [[[o l] fresh]|] eqn:Hv.
  2:{ rewrite step_idle; [left; reflexivity|]. intros th' E. congruence. }
  pose proof HX as (HC & _ & _ & _). pose proof HC as [HI HCthr].
  destruct (view_ok _ _ _ _ _ (HCthr _ _ Hn) Hv) as [Hpc Hit].
  pose proof (qstep_ok l (c_sh c) HI Hpc Hit) as Hout.
  pose proof (step_descr c t th o l fresh Hn Hv) as Hd.
  destruct (qstep l (c_sh c)) as [l' s'|r ts' s'| |] eqn:Hq; simpl in Hout; try contradiction.
  - left. rewrite Hd. unfold cur. simpl. rewrite nth_error_upd, Nat.eqb_refl, Hn. reflexivity.
  - pose proof (call_done_gen c t th o l fresh r ts' s' HX Hn Hv Hq) as [Hdn _].
    assert (Hc' : cur (step_cfg jdk c t) t = it_node ts').
    { rewrite Hd. unfold cur. simpl. rewrite nth_error_upd, Nat.eqb_refl, Hn. reflexivity. }
    assert (Hc : cur c t = it_node (t_ts th)) by (unfold cur; rewrite Hn; reflexivity).
    rewrite Hc', Hc.
    destruct o; simpl in Hdn; try (subst ts'; left; reflexivity).
    + congruence.
    + destruct Hdn as (_ & -> & _). left; reflexivity.
    + destruct Hdn as (-> & N1 & N2). destruct (Nat.eq_dec (it_node (t_ts th)) 0) as [E|E].
      * destruct (N1 E) as [-> _]. left; reflexivity.
      * right. split; [reflexivity|]. split; [exact E|]. split.
        { exists th, l, fresh, r, ts', (c_sh c). auto. }
        split; [rewrite Hd; reflexivity|].
        intros H. destruct (N2 E) as (_ & _ & [(Z & _)|(A & _ & _ & _ & _ & B)]); [contradiction|auto].
    + destruct Hdn as (_ & -> & _). left; reflexivity.
Qed.

(** every live node behind the first cursor [f] is at or behind the cursor, or [P] (returned) *)
Definition Qinv (P : nat -> Prop) (f : nat) (c : qcfg) (t : nat) : Prop :=
  cur c t <> 0 ->
  forall a, inr (c_sh c) a -> live (c_sh c) a = true -> f <= a -> cur c t <= a \/ P a.

Lemma Q_weaken (P P' : nat -> Prop) f c t :
  (forall a, P a -> P' a) -> Qinv P f c t -> Qinv P' f c t.
Proof. intros H Q Hc a A1 A2 A3. destruct (Q Hc a A1 A2 A3); auto. Qed.

Lemma cur_le_len c t : XInv c -> cur c t <= len (c_sh c).
Proof.
  intros (_ & _ & _ & Hthr). unfold cur. destruct (nth_error (c_thr c) t) as [th|] eqn:Hn; [|lia].
  destruct (Hthr _ _ Hn) as [(A & B & _) _].
  destruct (it_has (t_ts th)) eqn:Eh; [apply A; reflexivity|rewrite B by reflexivity; lia].
Qed.

Lemma Q_step P f c t t' :
  XInv c -> Qinv P f c t -> (t' = t -> op_of c t <> Some IterNew) ->
  Qinv (fun a => P a \/ (t' = t /\ next_returns c t a)) f (step_cfg jdk c t') t.
Proof.
  intros HX Q Hno Hc' a Ha' Hl' Hf.
  pose proof HX as (HC & _). destruct (CInv_step c t' HC) as [_ Hle].
  assert (Hlive : inr (c_sh c) a -> live (c_sh c) a = true).
  { intros Ha. destruct (live (c_sh c) a) eqn:El; [reflexivity|].
    rewrite (le_dead _ _ Hle a Ha El) in Hl'. discriminate. }
  destruct (cur_step' c t t' HX Hno) as [E|(-> & E0 & Hr & Es & Hfw)].
  - rewrite E in *. destruct (Nat.le_gt_cases a (len (c_sh c))) as [L|G].
    + assert (Ha : inr (c_sh c) a) by (unfold inr in *; lia).
      destruct (Q Hc' a Ha (Hlive Ha) Hf); auto.
    + left. pose proof (cur_le_len c t HX). lia.
  - rewrite Es in Ha', Hl'. destruct (Q E0 a Ha' Hl' Hf) as [L|HP]; [|auto].
    destruct (Nat.eq_dec (cur c t) a) as [Ea|Na].
    + right. right. rewrite <- Ea. auto.
    + left. destruct (Hfw Hc') as [_ Hd].
      destruct (Nat.le_gt_cases (cur (step_cfg jdk c t) t) a) as [L'|G]; [exact L'|].
      rewrite Hd in Hl' by lia. discriminate.
Qed.

Lemma trav_gen : forall sched c0 P f t,
  XInv c0 -> Qinv P f c0 t ->
  forall k ck tk, nth_error (steps_of jdk c0 sched) k = Some (ck, tk) ->
  (forall m cm, m < k -> nth_error (steps_of jdk c0 sched) m = Some (cm, t) -> op_of cm t <> Some IterNew) ->
  Qinv (fun a => P a \/ exists m cm, m < k /\ nth_error (steps_of jdk c0 sched) m = Some (cm, t) /\
                                     next_returns cm t a) f ck t.
Proof.
  induction sched as [|t0 s IH]; intros c0 P f t HX Q k ck tk Hk Hno.
  - destruct k; discriminate.
  - cbn [steps_of] in *. destruct (step_thread jdk c0 t0) as [[c' e]|] eqn:E.
    + destruct k as [|k].
      * injection Hk as <- <-. eapply Q_weaken; [|exact Q]. auto.
      * cbn [nth_error] in Hk.
        assert (Hc' : step_cfg jdk c0 t0 = c') by (apply (step_cfg_some jdk _ _ _ _ E)).
        assert (HX' : XInv c') by (rewrite <- Hc'; apply XInv_step; exact HX).
        assert (Q' : Qinv (fun a => P a \/ (t0 = t /\ next_returns c0 t a)) f c' t).
        { rewrite <- Hc'. apply Q_step; auto. intros ->. apply (Hno 0 c0); [lia|reflexivity]. }
        pose proof (IH c' _ f t HX' Q' k ck tk Hk) as R.
        eapply Q_weaken; [|apply R].
        -- intros a [[HP|[-> Hr]]|(m & cm & Hm & Hnm & Hr)].
           ++ left; exact HP.
           ++ right. exists 0, c0. split; [lia|]. split; [reflexivity|exact Hr].
           ++ right. exists (S m), cm. split; [lia|]. split; [exact Hnm|exact Hr].
        -- intros m cm Hm Hnm. apply (Hno (S m) cm); [lia|exact Hnm].
    + apply (IH c0 P f t HX Q k ck tk Hk Hno).
Qed.

(** traversal completeness: take a traversal started by an IterNew of thread t
    completing at step i0, and a later Next call of t completing at step j (no
    other IterNew of t in between).  Every node that is live when that Next
    returns is either at or behind the new cursor (still to come), or was
    returned by one of the Next calls of this traversal. *)
Theorem jdk_traversal_complete :
  forall progs sched t i0 j c0 cj th0 thj l0 lj fr0 frj r0 rj ts0 tsj s0 sj a,
  let steps := steps_of jdk (jdk_init progs) sched in
  nth_error steps i0 = Some (c0, t) -> nth_error steps j = Some (cj, t) -> i0 < j ->
  nth_error (c_thr c0) t = Some th0 -> view jdk th0 = Some (IterNew, l0, fr0) ->
  qstep l0 (c_sh c0) = Done r0 ts0 s0 ->
  nth_error (c_thr cj) t = Some thj -> view jdk thj = Some (ItNext, lj, frj) ->
  qstep lj (c_sh cj) = Done rj tsj sj -> it_node (t_ts thj) <> 0 ->
  (forall k ck, i0 < k -> k < j -> nth_error steps k = Some (ck, t) -> op_of ck t <> Some IterNew) ->
  inr (c_sh cj) a -> live (c_sh cj) a = true ->
  (it_node tsj <> 0 /\ it_node tsj <= a) \/
  exists m cm, i0 < m /\ m <= j /\ nth_error steps m = Some (cm, t) /\ next_returns cm t a.
Proof.
  intros progs sched t i0 j c0 cj th0 thj l0 lj fr0 frj r0 rj ts0 tsj s0 sj a steps
         Hi Hj Hij Hn0 Hv0 Hq0 Hnj Hvj Hqj H0j Hno Ha Hl.
  destruct (steps_of_split' jdk _ _ _ _ _ Hi) as (s1 & s2 & E1 & _ & E3 & _).
  destruct (steps_of_reach jdk _ _ _ _ _ Hj) as [s1j E1j].
  assert (HX0 : XInv c0) by (rewrite E1; apply XInv_final).
  set (c' := step_cfg jdk c0 t) in *.
  assert (HX' : XInv c') by (apply XInv_step; exact HX0).
  assert (Hc's : c' = Config s0 (upd (c_thr c0) t (Thread (rest_prog th0 fr0) ts0 None false))).
  { unfold c'. rewrite (step_descr c0 t th0 IterNew l0 fr0 Hn0 Hv0), Hq0. reflexivity. }
  assert (Hcur' : cur c' t = it_node ts0).
  { rewrite Hc's. unfold cur. simpl. rewrite nth_error_upd, Nat.eqb_refl, Hn0. reflexivity. }
  assert (Hj' : nth_error (steps_of jdk c' s2) (j - S i0) = Some (cj, t)).
  { rewrite <- E3, nth_error_skipn. replace (S i0 + (j - S i0)) with j by lia. exact Hj. }
  assert (Hno' : forall m cm, m < j - S i0 -> nth_error (steps_of jdk c' s2) m = Some (cm, t) ->
                              op_of cm t <> Some IterNew).
  { intros m cm Hm Hnm. apply (Hno (S i0 + m) cm); try lia.
    fold steps in E3. rewrite <- nth_error_skipn, E3. exact Hnm. }
  assert (Hcj : cur cj t = it_node (t_ts thj)) by (unfold cur; rewrite Hnj; reflexivity).
  (* the first cursor is not nil, and everything before it is dead *)
  pose proof (cur_steps s2 c' t (j - S i0) cj t HX' Hj' Hno') as Hcle.
  rewrite Hcur', Hcj in Hcle.
  assert (Hf0 : it_node ts0 <> 0).
  { intros Z. rewrite Z in Hcle. destruct Hcle as [Hc|[Hc _]]; [congruence|contradiction]. }
  destruct (call_done_gen c0 t th0 IterNew l0 fr0 r0 ts0 s0 HX0 Hn0 Hv0 Hq0) as [[_ (Hitd & _ & Hdb)] _].
  pose proof (itd_has_node _ _ Hitd Hf0) as Hh0. specialize (Hdb Hh0).
  destruct (steps_of_reach jdk _ _ _ _ _ Hj') as [s3 E4].
  assert (Hle : sh_le s0 (c_sh cj)).
  { rewrite E4. replace s0 with (c_sh c') by (rewrite Hc's; reflexivity). apply run_le. apply HX'. }
  assert (Hfa : it_node ts0 <= a).
  { destruct (Nat.le_gt_cases (it_node ts0) a) as [L|G]; [exact L|]. exfalso.
    destruct Hitd as (T1 & _). destruct (T1 Hh0) as (_ & T2 & _).
    assert (Ha0 : inr s0 a) by (unfold inr in *; lia).
    rewrite (le_dead _ _ Hle a Ha0) in Hl; [discriminate|]. apply Hdb; [apply Ha|exact G]. }
  assert (Q0 : Qinv (fun _ => False) (it_node ts0) c' t).
  { intros _ b _ _ Hb. left. rewrite Hcur'. exact Hb. }
  pose proof (trav_gen s2 c' _ _ t HX' Q0 (j - S i0) cj t Hj' Hno') as Q.
  rewrite <- Hcj in H0j.
  destruct (Q H0j a Ha Hl Hfa) as [L|[[]|(m & cm & Hm & Hnm & Hr)]].
  - rewrite Hcj in L, H0j. destruct (Nat.eq_dec (it_node (t_ts thj)) a) as [Ea|Na].
    + right. exists j, cj. split; [lia|]. split; [lia|]. split; [exact Hj|].
      exists thj, lj, frj, rj, tsj, sj. rewrite <- Ea. auto.
    + left. pose proof (jdk_next_complete progs s1j t thj lj frj rj tsj sj a) as Cp.
      rewrite <- E1j in Cp. apply Cp; auto; try lia. apply Ha.
  - right. exists (S i0 + m), cm. split; [lia|]. split; [lia|]. split; [|exact Hr].
    fold steps in E3. rewrite <- nth_error_skipn, E3. exact Hnm.
Qed.

Print Assumptions jdk_traversal_complete.

(** ** I5: iterator operations never fail, never block, always terminate *)

Corollary jdk_iter_never_fails : forall progs sched th,
  In th (c_thr (final jdk (jdk_init progs) sched)) -> t_dead th = false.
Proof. intros progs sched. apply (proj2 (jdk_invariant progs sched)). Qed.

Corollary jdk_iter_never_blocks : forall ts o s, qstep (qstart ts o) s <> Blocked.
Proof. intros. apply jdk_never_blocks. Qed.

(** whatever the other threads are doing (they are frozen), the current or
    next call of thread [t] - HasNext, Next, Remove, IterNew included - returns
    within a number of steps of [t] linear in the number of nodes *)
Corollary jdk_iter_terminates : forall progs sched t th,
  let c := final jdk (jdk_init progs) sched in
  nth_error (c_thr c) t = Some th -> 0 < work_left th ->
  exists n th', n <= 8 * (length (q_nodes (c_sh c)) + 4) /\
     nth_error (c_thr (solo c t n)) t = Some th' /\ work_left th' < work_left th.
Proof. exact jdk_solo_terminates. Qed.
