(** Hand-written step machine for queue/mutexLinkedQueue.go.

    Lock / RLock / Unlock / RUnlock are the logged (sync) accesses; the
    container/list accesses between them are plain accesses ([m_silent]):
    a reader performs one read step, a writer a read step followed by a
    separate write step (a non-atomic read-modify-write of the list), so the
    theorems quantify over interleavings in which other goroutines run
    between the lock operation, the read and the write - mutual exclusion of
    writers is what the proofs need.  sync.RWMutex is
    modelled as {writer flag, reader count}; Lock waits for both to be clear,
    RLock for the writer flag (Go's writer preference only removes
    behaviours).  Size is int32(l.Len()): modelled without the wrap beyond
    2^31 elements (not reachable in memory). *)
From Coq Require Import List Arith Bool NArith.
From Garr Require Import Conc.Conc Queue.JdkModel.
Import ListNotations.

Record rw := RW { rw_writer : bool; rw_readers : nat }.
Record mshared := MS { ms_lock : rw; ms_items : list nat }.

Inductive mpc :=
| MInv (o : qop)
| MLock (o : qop)        (* acquire (write lock for Offer/Poll, read lock otherwise) *)
| MRead (o : qop)                     (* plain read of the list inside the critical section *)
| MWrite (o : qop) (snap : list nat)  (* writers: plain write computed from what was read *)
| MUnlock (w : bool) (r : qret).

Definition is_writer_op (o : qop) : bool :=
  match o with Offer _ | Poll => true | _ => false end.

Definition mout := outcome mshared unit mpc qret.

Definition mstep (l : mpc) (s : mshared) : mout :=
  let lk := ms_lock s in
  match l with
  | MInv (Offer 0) => Done RUnit tt s
  | MInv (Offer v) => Next (MLock (Offer v)) s
  | MInv Poll => Next (MLock Poll) s
  | MInv Peek => Next (MLock Peek) s
  | MInv IsEmpty => Next (MLock IsEmpty) s
  | MInv Size => Next (MLock Size) s
  | MInv _ => Done RUnit tt s          (* Iterator(): not supported, returns nil *)
  | MLock o =>
      if is_writer_op o then
        if rw_writer lk || negb (Nat.eqb (rw_readers lk) 0) then Blocked
        else Next (MRead o) (MS (RW true 0) (ms_items s))
      else
        if rw_writer lk then Blocked
        else Next (MRead o) (MS (RW false (S (rw_readers lk))) (ms_items s))
  | MRead o =>
      match o with
      | Offer _ | Poll => Next (MWrite o (ms_items s)) s
      | Peek => Next (MUnlock false (RVal (hd 0 (ms_items s)))) s
      | Size => Next (MUnlock false (RSize (N.of_nat (length (ms_items s))))) s
      | IsEmpty => Next (MUnlock false (RBool (Nat.eqb (length (ms_items s)) 0))) s
      | _ => Fault
      end
  | MWrite o snap =>
      match o with
      | Offer v => Next (MUnlock true RUnit) (MS lk (snap ++ [v]))
      | Poll =>
          match snap with
          | [] => Next (MUnlock true (RVal 0)) (MS lk [])
          | x :: r => Next (MUnlock true (RVal x)) (MS lk r)
          end
      | _ => Fault
      end
  | MUnlock w r =>
      if w then Done r tt (MS (RW false (rw_readers lk)) (ms_items s))
      else Done r tt (MS (RW (rw_writer lk) (pred (rw_readers lk))) (ms_items s))
  end.

Definition msilent (l : mpc) : bool := match l with MRead _ | MWrite _ _ => true | _ => false end.

Definition mutexq : machine mshared unit mpc qop qret :=
  Machine (fun _ o => MInv o) mstep msilent.

Definition minit : mshared := MS (RW false 0) [].
