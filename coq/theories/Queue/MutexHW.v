(** Instance of the generic theorem [lin_ok_hw]: every history of the mutex
    queue is linearizable in the sense of Herlihy & Wing. *)
From Coq Require Import List Arith Bool NArith Lia.
From Garr Require Import Conc.Conc Conc.Lin Conc.LinHW Queue.MutexModel Queue.MutexProofs.
Import ListNotations.

Lemma qret_eqb_eq a b : qret_eqb a b = true -> a = b.
Proof.
  destruct a, b; simpl; intros H; try discriminate.
  - reflexivity.
  - apply Nat.eqb_eq in H. congruence.
  - apply Bool.eqb_prop in H. congruence.
  - apply N.eqb_eq in H. congruence.
Qed.

Theorem mutex_queue_hw_linearizable progs sched :
  hw_linearizable fifo_spec [] (trace mutexq (init _ minit tt progs) sched).
Proof.
  eapply lin_ok_hw; [exact qret_eqb_eq|]. apply mutex_queue_linearizable.
Qed.

Print Assumptions mutex_queue_hw_linearizable.
