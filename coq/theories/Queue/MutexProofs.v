(** C19 (queue half) and the mutex part of C01: the mutex queue model is
    linearizable, at explicit points, as a FIFO queue with Size and IsEmpty,
    for every client program and every interleaving - including interleavings
    that separate a writer's plain read of the list from its plain write. *)
From Coq Require Import List Arith Bool NArith Lia.
From Garr Require Import Conc.Conc Conc.Lin Queue.JdkModel Queue.MutexModel.
Import ListNotations.

Definition qret_eqb (a b : qret) : bool :=
  match a, b with
  | RUnit, RUnit => true
  | RVal x, RVal y => Nat.eqb x y
  | RBool x, RBool y => Bool.eqb x y
  | RSize x, RSize y => N.eqb x y
  | _, _ => false
  end.

Lemma qret_eqb_refl r : qret_eqb r r = true.
Proof.
  destruct r; simpl; auto using Nat.eqb_refl, N.eqb_refl. destruct b; reflexivity.
Qed.

(** the sequential FIFO queue (no iterators on this queue: Iterator() returns nil) *)
Definition fifo_spec (a : list nat) (o : qop) : list nat * qret :=
  match o with
  | Offer O => (a, RUnit)
  | Offer v => (a ++ [v], RUnit)
  | Poll => match a with [] => ([], RVal 0) | x :: r => (r, RVal x) end
  | Peek => (a, RVal (hd 0 a))
  | IsEmpty => (a, RBool (Nat.eqb (length a) 0))
  | Size => (a, RSize (N.of_nat (length a)))
  | _ => (a, RUnit)
  end.

(** linearization points: a reader's plain read; a writer's plain write;
    calls that do not touch the queue take effect at their invocation *)
Definition mutex_lp (o : qop) (l : mpc) (s : mshared) : bool :=
  match l with
  | MInv (Offer (S _)) | MInv Poll | MInv Peek | MInv IsEmpty | MInv Size => false
  | MInv _ => true
  | MLock _ => false
  | MRead o' => negb (is_writer_op o')
  | MWrite _ _ => true
  | MUnlock _ _ => false
  end.

Definition lockable (o : qop) : Prop :=
  match o with Offer (S _) | Poll | Peek | IsEmpty | Size => True | _ => False end.

Definition in_w (l : mpc) : bool :=
  match l with
  | MRead o => is_writer_op o
  | MWrite _ _ => true
  | MUnlock true _ => true
  | _ => false
  end.

Definition cur_in_w (th : thread unit mpc qop) : bool :=
  match t_cur th with Some (_, l) => in_w l | None => false end.

Notation mcfg := (config mshared unit mpc qop).
Notation mg := (gstate qret (list nat)).

Definition tok (th : thread unit mpc qop) (sh : mshared) (pend : option qret) : Prop :=
  t_dead th = false /\
  match t_cur th with
  | None => pend = None
  | Some (o, MInv o') => o = o' /\ pend = None
  | Some (o, MLock o') => o = o' /\ lockable o /\ pend = None
  | Some (o, MRead o') => o = o' /\ lockable o /\ pend = None
  | Some (o, MWrite o' snap) =>
      o = o' /\ lockable o /\ is_writer_op o = true /\ snap = ms_items sh /\ pend = None
  | Some (o, MUnlock w r) => pend = Some r
  end.

Record Inv (c : mcfg) (g : mg) : Prop := {
  inv_abs : g_abs g = ms_items (c_sh c);
  inv_len : length (g_pend g) = length (c_thr c);
  inv_thr : forall t th, nth_error (c_thr c) t = Some th -> tok th (c_sh c) (pend_of g t);
  inv_uniq : forall t1 t2 th1 th2,
      nth_error (c_thr c) t1 = Some th1 -> nth_error (c_thr c) t2 = Some th2 ->
      cur_in_w th1 = true -> cur_in_w th2 = true -> t1 = t2;
  inv_free : rw_writer (ms_lock (c_sh c)) = false ->
             forall t th, nth_error (c_thr c) t = Some th -> cur_in_w th = false
}.

Arguments inv_abs {c g}. Arguments inv_len {c g}. Arguments inv_thr {c g}.
Arguments inv_uniq {c g}. Arguments inv_free {c g}.

Lemma pend_of_upd_same {R} (l : list (option R)) t x :
  t < length l -> nth t (upd l t x) None = x.
Proof.
  intros H. rewrite nth_upd, Nat.eqb_refl.
  destruct (Nat.ltb_spec t (length l)); [reflexivity|lia].
Qed.

Lemma nth_error_lt {A} (l : list A) t x : nth_error l t = Some x -> t < length l.
Proof. intros H. apply nth_error_Some. congruence. Qed.

(** the invariant is established by every initial configuration *)
Lemma Inv_init progs :
  Inv (init mpc minit tt progs) (ginit qret [] (length progs)).
Proof.
  constructor; simpl.
  - reflexivity.
  - rewrite repeat_length, map_length. reflexivity.
  - intros t th H. apply nth_error_In in H. apply in_map_iff in H.
    destruct H as [p [<- _]]. unfold tok, pend_of; simpl. split; [reflexivity|].
    destruct (Nat.ltb_spec t (length progs)).
    + rewrite nth_repeat. reflexivity.
    + rewrite nth_overflow; [reflexivity|]. rewrite repeat_length. assumption.
  - intros t1 t2 th1 th2 H1 _ Hw _. apply nth_error_In in H1. apply in_map_iff in H1.
    destruct H1 as [p [<- _]]. discriminate.
  - intros _ t th H. apply nth_error_In in H. apply in_map_iff in H.
    destruct H as [p [<- _]]. reflexivity.
Qed.

(** [tok] of another thread survives any change of the list made by a thread
    that is inside the writers' critical section *)
Lemma tok_frame th sh sh' p :
  tok th sh p ->
  (ms_items sh' = ms_items sh \/ cur_in_w th = false) ->
  tok th sh' p.
Proof.
  unfold tok, cur_in_w. intros [Hd H] Hfr. split; [exact Hd|].
  destruct (t_cur th) as [[o l]|]; [|exact H].
  destruct l; try exact H.
  destruct H as (? & ? & ? & ? & ?). destruct Hfr as [E|E]; [|discriminate E].
  rewrite E. repeat split; assumption.
Qed.

(** the generic preservation argument: thread [t] moves from [th] to [th'] *)
Lemma Inv_update c g t th th' sh' g' :
  Inv c g -> nth_error (c_thr c) t = Some th ->
  length (g_pend g') = length (g_pend g) ->
  (forall t', t' <> t -> pend_of g' t' = pend_of g t') ->
  g_abs g' = ms_items sh' ->
  tok th' sh' (pend_of g' t) ->
  (ms_items sh' = ms_items (c_sh c) \/ cur_in_w th = true) ->
  (cur_in_w th' = true -> cur_in_w th = true \/ rw_writer (ms_lock (c_sh c)) = false) ->
  (rw_writer (ms_lock sh') = false ->
     cur_in_w th' = false /\ (rw_writer (ms_lock (c_sh c)) = false \/ cur_in_w th = true)) ->
  Inv (Config sh' (upd (c_thr c) t th')) g'.
Proof.
  intros HI Hn Hlen Hoth Habs Htok Hitems Hin Hfree.
  assert (Hnth : forall t', nth_error (upd (c_thr c) t th') t' =
                            if Nat.eqb t t' then Some th' else nth_error (c_thr c) t').
  { intros t'. rewrite nth_error_upd, Hn. reflexivity. }
  constructor; simpl.
  - exact Habs.
  - rewrite Hlen, upd_length. apply (inv_len HI).
  - intros t' th0 H0. rewrite Hnth in H0.
    destruct (Nat.eqb_spec t t') as [<-|Hne].
    + injection H0 as <-. exact Htok.
    + rewrite Hoth by congruence.
      apply tok_frame with (sh := c_sh c); [apply (inv_thr HI); exact H0|].
      destruct Hitems as [E|E]; [left; exact E|right].
      destruct (cur_in_w th0) eqn:E0; [|reflexivity].
      exfalso. apply Hne. eapply (inv_uniq HI); eauto.
  - intros t1 t2 th1 th2 H1 H2 W1 W2. rewrite Hnth in H1, H2.
    destruct (Nat.eqb_spec t t1) as [<-|N1]; destruct (Nat.eqb_spec t t2) as [<-|N2].
    + reflexivity.
    + injection H1 as <-. destruct (Hin W1) as [W|F].
      * eapply (inv_uniq HI); eauto.
      * rewrite (inv_free HI F _ _ H2) in W2. discriminate.
    + injection H2 as <-. destruct (Hin W2) as [W|F].
      * eapply (inv_uniq HI); eauto.
      * rewrite (inv_free HI F _ _ H1) in W1. discriminate.
    + eapply (inv_uniq HI); eauto.
  - intros F t' th0 H0. rewrite Hnth in H0. destruct (Hfree F) as [F1 F2].
    destruct (Nat.eqb_spec t t') as [<-|Hne].
    + injection H0 as <-. exact F1.
    + destruct F2 as [F2|W].
      * eapply (inv_free HI); eauto.
      * destruct (cur_in_w th0) eqn:E0; [|reflexivity].
        exfalso. apply Hne. eapply (inv_uniq HI); eauto.
Qed.

Ltac norm :=
  repeat first
    [ rewrite do_ret_length | rewrite do_lp_length | rewrite abs_do_lp | rewrite ok_do_lp
    | rewrite pend_do_ret_same by (rewrite ?do_lp_length; assumption)
    | rewrite pend_do_lp_same by assumption
    | rewrite pend_do_ret_other by assumption | rewrite pend_do_lp_other by assumption ].

Lemma Inv_step c g t :
  Inv c g -> g_ok g = true ->
  Inv (step_cfg mutexq c t) (gstep mutexq qret_eqb fifo_spec mutex_lp c g t) /\
  g_ok (gstep mutexq qret_eqb fifo_spec mutex_lp c g t) = true.
Proof.
  intros HI Hok.
  destruct (nth_error (c_thr c) t) as [th|] eqn:Hn.
  2:{ unfold step_cfg, step_thread, gstep. rewrite Hn. split; assumption. }
  destruct (inv_thr HI _ _ Hn) as [Hdead Htok].
  assert (Hltp : t < length (g_pend g)). { rewrite (inv_len HI). eapply nth_error_lt; eauto. }
  pose proof (inv_abs HI) as Habs.
  unfold step_cfg, step_thread, gstep. rewrite Hn. unfold view. rewrite Hdead.
  destruct (t_cur th) as [[o l]|] eqn:Hcur.
  2:{ destruct (t_prog th) as [|o rest] eqn:Hprog.
      - split; assumption.
      - assert (W0 : cur_in_w th = false) by (unfold cur_in_w; rewrite Hcur; reflexivity).
        destruct o as [[|v]| | | | | | | |]; simpl;
        (split;
         [ eapply Inv_update with (c := c) (th := th);
           [ exact HI | exact Hn
           | norm; reflexivity
           | intros; norm; reflexivity
           | norm; simpl; try exact Habs
           | unfold tok; simpl; norm; simpl; auto
           | left; reflexivity
           | unfold cur_in_w; simpl; try discriminate
           | unfold cur_in_w; simpl; intros F; split; [reflexivity|left; exact F] ]
         | norm; simpl; rewrite ?Hok, ?Htok; simpl; norm; simpl; rewrite ?Htok; reflexivity ]).
  }
  assert (Wfree : rw_writer (ms_lock (c_sh c)) = false -> cur_in_w th = false)
    by (intros F; eapply (inv_free HI); eauto).
  unfold cur_in_w in Wfree; rewrite Hcur in Wfree; simpl in Wfree.
  destruct l as [o'|o'|o'|o' snap|w r]; simpl in Htok.
  - (* MInv stored *)
    destruct Htok as [-> Hp].
    assert (W0 : cur_in_w th = false) by (unfold cur_in_w; rewrite Hcur; reflexivity).
    destruct o' as [[|v]| | | | | | | |]; simpl;
        (split;
         [ eapply Inv_update with (c := c) (th := th);
           [ exact HI | exact Hn
           | norm; reflexivity
           | intros; norm; reflexivity
           | norm; simpl; try exact Habs
           | unfold tok; simpl; norm; simpl; auto
           | left; reflexivity
           | unfold cur_in_w; simpl; try discriminate
           | unfold cur_in_w; simpl; intros F; split; [reflexivity|left; exact F] ]
         | norm; simpl; rewrite ?Hok, ?Hp; simpl; norm; simpl; rewrite ?Hp; reflexivity ]).
  - (* MLock *)
    destruct Htok as (-> & Hl & Hp).
    assert (Hblk : Inv match @None (mcfg * list (event qop qret)) with Some (c', _) => c' | None => c end g /\ g_ok g = true)
      by (split; assumption).
    destruct (ms_lock (c_sh c)) as [wr rd] eqn:Hlk.
    assert (Hacq : forall th' lk', wr = false -> rw_writer lk' = is_writer_op o' ->
              th' = {| t_prog := rest_prog th false; t_ts := t_ts th; t_cur := Some (o', MRead o'); t_dead := false |} ->
              Inv {| c_sh := MS lk' (ms_items (c_sh c)); c_thr := upd (c_thr c) t th' |} g /\ g_ok g = true).
    { intros th' lk' Hwr Hlk' ->. split; [|exact Hok].
      eapply Inv_update with (c := c) (th := th);
        [ exact HI | exact Hn | reflexivity | reflexivity | exact Habs
        | unfold tok; simpl; auto
        | left; reflexivity
        | intros _; right; rewrite Hlk; exact Hwr
        | simpl; unfold cur_in_w; simpl; intros F; split; [congruence|left; rewrite Hlk; exact Hwr] ]. }
    destruct o' as [[|v]| | | | | | | |]; simpl in Hl; try contradiction; simpl; rewrite Hlk; simpl;
      destruct wr; simpl; try exact Hblk;
      try (destruct (Nat.eqb rd 0); simpl; try exact Hblk);
      (eapply Hacq; [reflexivity|reflexivity|reflexivity]).
  - (* MRead *)
    destruct Htok as (-> & Hl & Hp).
    destruct o' as [[|v]| | | | | | | |]; simpl in Hl; try contradiction; simpl in *.
    + (* Offer: writer, read the list *)
      split; [|exact Hok].
      eapply Inv_update with (c := c) (th := th);
        [ exact HI | exact Hn | reflexivity | reflexivity | destruct c as [[lk it] thr]; exact Habs
        | unfold tok; simpl; destruct c as [[lk it] thr]; simpl; repeat split; auto
        | left; destruct c as [[lk it] thr]; reflexivity
        | intros _; left; unfold cur_in_w; rewrite Hcur; reflexivity
        | destruct c as [[lk it] thr]; simpl in *; intros F; specialize (Wfree F); discriminate ].
    + (* Poll *)
      split; [|exact Hok].
      eapply Inv_update with (c := c) (th := th);
        [ exact HI | exact Hn | reflexivity | reflexivity | destruct c as [[lk it] thr]; exact Habs
        | unfold tok; simpl; destruct c as [[lk it] thr]; simpl; repeat split; auto
        | left; destruct c as [[lk it] thr]; reflexivity
        | intros _; left; unfold cur_in_w; rewrite Hcur; reflexivity
        | destruct c as [[lk it] thr]; simpl in *; intros F; specialize (Wfree F); discriminate ].
    + (* Peek: linearizes here *)
      split; [| norm; rewrite Hok, Hp; reflexivity].
      eapply Inv_update with (c := c) (th := th);
        [ exact HI | exact Hn | norm; reflexivity | intros; norm; reflexivity
        | norm; simpl; destruct c as [[lk it] thr]; exact Habs
        | unfold tok; simpl; norm; simpl; rewrite Habs; repeat split; auto
        | left; destruct c as [[lk it] thr]; reflexivity
        | unfold cur_in_w; simpl; discriminate
        | destruct c as [[lk it] thr]; simpl; unfold cur_in_w; simpl; intros F; split; [reflexivity|left; exact F] ].
    + (* IsEmpty *)
      split; [| norm; rewrite Hok, Hp; reflexivity].
      eapply Inv_update with (c := c) (th := th);
        [ exact HI | exact Hn | norm; reflexivity | intros; norm; reflexivity
        | norm; simpl; destruct c as [[lk it] thr]; exact Habs
        | unfold tok; simpl; norm; simpl; rewrite Habs; repeat split; auto
        | left; destruct c as [[lk it] thr]; reflexivity
        | unfold cur_in_w; simpl; discriminate
        | destruct c as [[lk it] thr]; simpl; unfold cur_in_w; simpl; intros F; split; [reflexivity|left; exact F] ].
    + (* Size *)
      split; [| norm; rewrite Hok, Hp; reflexivity].
      eapply Inv_update with (c := c) (th := th);
        [ exact HI | exact Hn | norm; reflexivity | intros; norm; reflexivity
        | norm; simpl; destruct c as [[lk it] thr]; exact Habs
        | unfold tok; simpl; norm; simpl; rewrite Habs; repeat split; auto
        | left; destruct c as [[lk it] thr]; reflexivity
        | unfold cur_in_w; simpl; discriminate
        | destruct c as [[lk it] thr]; simpl; unfold cur_in_w; simpl; intros F; split; [reflexivity|left; exact F] ].
  - (* MWrite: the writers' linearization point *)
    destruct Htok as (-> & Hl & Hw & -> & Hp).
    assert (Win : cur_in_w th = true) by (unfold cur_in_w; rewrite Hcur; reflexivity).
    destruct o' as [[|v]| | | | | | | |]; simpl in Hl, Hw; try contradiction; try discriminate; simpl in *.
    + (* Offer (S v) *)
      split; [| norm; rewrite Hok, Hp; reflexivity].
      eapply Inv_update with (c := c) (th := th);
        [ exact HI | exact Hn | norm; reflexivity | intros; norm; reflexivity
        | norm; simpl; rewrite Habs; reflexivity
        | unfold tok; simpl; norm; simpl; repeat split; auto
        | right; exact Win
        | intros _; left; exact Win
        | simpl; intros F; specialize (Wfree F); discriminate ].
    + (* Poll *)
      destruct (ms_items (c_sh c)) as [|x r] eqn:Hit; simpl.
      * split; [| norm; rewrite Hok, Hp; reflexivity].
        eapply Inv_update with (c := c) (th := th);
          [ exact HI | exact Hn | norm; reflexivity | intros; norm; reflexivity
          | norm; simpl; rewrite Habs; reflexivity
          | unfold tok; simpl; norm; simpl; rewrite Habs; repeat split; auto
          | right; exact Win
          | intros _; left; exact Win
          | simpl; intros F; specialize (Wfree F); discriminate ].
      * split; [| norm; rewrite Hok, Hp; reflexivity].
        eapply Inv_update with (c := c) (th := th);
          [ exact HI | exact Hn | norm; reflexivity | intros; norm; reflexivity
          | norm; simpl; rewrite Habs; reflexivity
          | unfold tok; simpl; norm; simpl; rewrite Habs; repeat split; auto
          | right; exact Win
          | intros _; left; exact Win
          | simpl; intros F; specialize (Wfree F); discriminate ].
  - (* MUnlock: the return *)
    destruct w; simpl.
    + split; [| norm; rewrite Hok, Htok, qret_eqb_refl; reflexivity].
      eapply Inv_update with (c := c) (th := th);
        [ exact HI | exact Hn | norm; reflexivity | intros; norm; reflexivity
        | simpl; exact Habs
        | unfold tok; simpl; norm; auto
        | left; reflexivity
        | unfold cur_in_w; simpl; discriminate
        | simpl; intros _; split; [reflexivity|right; unfold cur_in_w; rewrite Hcur; reflexivity] ].
    + split; [| norm; rewrite Hok, Htok, qret_eqb_refl; reflexivity].
      eapply Inv_update with (c := c) (th := th);
        [ exact HI | exact Hn | norm; reflexivity | intros; norm; reflexivity
        | simpl; exact Habs
        | unfold tok; simpl; norm; auto
        | left; reflexivity
        | unfold cur_in_w; simpl; discriminate
        | simpl; intros F; split; [reflexivity|left; exact F] ].
Qed.

(** C19 (queue) / C01 (mutex queue): every history of the mutex queue is
    linearizable as a FIFO queue with Size and IsEmpty, at the marked points *)
Theorem mutex_queue_linearizable progs sched :
  lin_ok mutexq qret_eqb fifo_spec mutex_lp minit tt [] progs sched = true.
Proof.
  unfold lin_ok.
  apply (lin_by_invariant mutexq qret_eqb fifo_spec mutex_lp Inv).
  - apply Inv_init.
  - reflexivity.
  - intros c g t HI Hok. apply Inv_step; assumption.
Qed.
