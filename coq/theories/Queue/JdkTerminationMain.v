(** Total termination of the lock-free JDK queue model [jdk], part 2:
    the potential function on configurations, its strict decrease on EVERY
    step of EVERY thread, and the theorems

      (A) [jdk_total_termination]  no schedule takes more than [bound progs] steps;
      (B) [jdk_fair_all_return]    a schedule with [bound progs] occurrences of
                                   every thread id leaves every thread finished;
      (C) [jdk_frozen_others_finish] the same with one thread frozen forever.

    All operations of the API (Offer, Poll, Peek, IsEmpty, Size, iterator
    construction, HasNext, Next, Remove), all client programs, all schedules. *)
From Coq Require Import List Arith Bool NArith Lia.
From Garr Require Import Conc.Conc Queue.JdkModel Queue.JdkInv Queue.JdkProgress
  Breaker.ConcBase Queue.JdkTermination.
Import ListNotations.

(** ** Sums over lists *)

Fixpoint tsum {A} (f : A -> nat) (l : list A) : nat :=
  match l with
  | [] => 0
  | a :: r => f a + tsum f r
  end.

Lemma tsum_upd {A} (f : A -> nat) l i a a' :
  nth_error l i = Some a -> tsum f (upd l i a') + f a = tsum f l + f a'.
Proof.
  revert i. induction l as [|b l IH]; intros i H.
  - destruct i; discriminate.
  - destruct i as [|i]; simpl in *.
    + injection H as ->. lia.
    + specialize (IH i H). lia.
Qed.

Lemma tsum_ge {A} (f : A -> nat) l i a : nth_error l i = Some a -> f a <= tsum f l.
Proof.
  revert i. induction l as [|b l IH]; intros i H.
  - destruct i; discriminate.
  - destruct i as [|i]; simpl in *.
    + injection H as ->. lia.
    + specialize (IH i H). lia.
Qed.

Lemma tsum_le {A} (f g : A -> nat) l :
  (forall x, In x l -> f x <= g x) -> tsum f l <= tsum g l.
Proof.
  induction l as [|b l IH]; intros H; simpl; [lia|].
  pose proof (H b (or_introl eq_refl)). assert (tsum f l <= tsum g l) by (apply IH; intros; apply H; right; assumption).
  lia.
Qed.

Lemma tsum_ext {A} (f g : A -> nat) l :
  (forall x, In x l -> f x = g x) -> tsum f l = tsum g l.
Proof.
  induction l as [|b l IH]; intros H; simpl; [reflexivity|].
  rewrite (H b (or_introl eq_refl)), IH; [reflexivity|]. intros; apply H; right; assumption.
Qed.

Lemma tsum_plus_const {A} (f : A -> nat) k l :
  tsum (fun x => f x + k) l = tsum f l + length l * k.
Proof. induction l as [|b l IH]; simpl; [reflexivity|]. rewrite IH. lia. Qed.

Lemma tsum_times_const {A} (f : A -> nat) k l :
  tsum (fun x => f x * k) l = tsum f l * k.
Proof. induction l as [|b l IH]; simpl; [reflexivity|]. rewrite IH. lia. Qed.

Lemma tsum_map {A B} (g : A -> B) (f : B -> nat) l : tsum f (map g l) = tsum (fun x => f (g x)) l.
Proof. induction l as [|b l IH]; simpl; [reflexivity|]. rewrite IH. reflexivity. Qed.

(** ** The potential function *)

Fixpoint n_offers (p : list qop) : nat :=
  match p with
  | [] => 0
  | o :: r => is_offer o + n_offers r
  end.

(** offers of a thread that have not linked their node yet *)
Definition thr_pend (th : qthread) : nat :=
  n_offers (t_prog th) +
  match t_cur th with Some (_, l) => pend_pc (l_pc l) | None => 0 end.

(** [BB N]: the solo bound when at most [N] nodes exist *)
Definition BB (N : nat) : nat := 4 * N + 12.

Definition thr_P (N : nat) (th : qthread) : nat := length (t_prog th) * (BB N + 1).

(** own steps a thread can still take if nobody else makes an effective step *)
Definition thr_tau (N : nat) (s : qshared) (th : qthread) : nat :=
  thr_P N th +
  match t_cur th with Some (_, l) => 1 + mu s (l_pc l) | None => 0 end.

(** effective changes still possible *)
Definition EE (N : nat) (c : qcfg) : nat :=
  Esh N (c_sh c) + tsum thr_pend (c_thr c).

(** weight of one effective change: it may reset the call in progress of every thread *)
Definition WW (N T : nat) : nat := T * (BB N + 1) + 1.

Definition Phi (N : nat) (c : qcfg) : nat :=
  WW N (length (c_thr c)) * EE N c + tsum (thr_tau N (c_sh c)) (c_thr c).

Record TInv (N : nat) (c : qcfg) : Prop := {
  ti_c : CInv c;
  ti_2 : forall t th o l, nth_error (c_thr c) t = Some th -> t_cur th = Some (o, l) ->
           pc_ok2 (c_sh c) (l_pc l);
  ti_N : len (c_sh c) + tsum thr_pend (c_thr c) <= N
}.

Lemma thr_tau_le N s th : len s <= N -> thr_tau N s th <= thr_P N th + (BB N + 1).
Proof.
  intros H. unfold thr_tau. destruct (t_cur th) as [[o l]|]; [|lia].
  pose proof (mu_bound s (l_pc l)). unfold BB. lia.
Qed.

Lemma thr_tau_mu_eq N s s' th : mu_eq s s' -> thr_tau N s' th = thr_tau N s th.
Proof.
  intros He. unfold thr_tau. destruct (t_cur th) as [[o l]|]; [|reflexivity].
  rewrite (mu_eq_mu s s' _ He). reflexivity.
Qed.

(** thread [t] moves from [th] to [th'] and the shared state from [c_sh c] to [s'] *)
Lemma Phi_update N (c : qcfg) t th th' s' :
  nth_error (c_thr c) t = Some th ->
  len s' <= N ->
  length (t_prog th') <= length (t_prog th) ->
  ((mu_eq (c_sh c) s' /\ thr_pend th' <= thr_pend th /\ thr_tau N s' th' < thr_tau N (c_sh c) th) \/
   Esh N s' + thr_pend th' < Esh N (c_sh c) + thr_pend th) ->
  Phi N (Config s' (upd (c_thr c) t th')) < Phi N c.
Proof.
  intros Hn Hlen Hprog Hcase. unfold Phi, EE. cbn [c_sh c_thr]. rewrite upd_length.
  set (W := WW N (length (c_thr c))).
  pose proof (tsum_upd thr_pend _ _ _ th' Hn) as Hp.
  destruct Hcase as [(He & Hpe & Htau)|Heff].
  - (* nothing the other threads' measures depend on has changed *)
    pose proof (tsum_upd (thr_tau N (c_sh c)) _ _ _ th' Hn) as Ht.
    rewrite (Esh_mu_eq N _ _ He).
    rewrite (tsum_ext (thr_tau N s') (thr_tau N (c_sh c))) by (intros x _; apply thr_tau_mu_eq; exact He).
    rewrite (thr_tau_mu_eq N _ _ th' He) in Htau.
    assert (H1 : tsum thr_pend (upd (c_thr c) t th') <= tsum thr_pend (c_thr c)) by lia.
    assert (H3 : W * (Esh N (c_sh c) + tsum thr_pend (upd (c_thr c) t th')) <=
                 W * (Esh N (c_sh c) + tsum thr_pend (c_thr c)))
      by (apply Nat.mul_le_mono_l; lia).
    lia.
  - (* an effective change: every call in progress may have to start over *)
    set (P1 := tsum thr_pend (upd (c_thr c) t th')) in *.
    set (P0 := tsum thr_pend (c_thr c)) in *.
    assert (H1 : Esh N s' + P1 + 1 <= Esh N (c_sh c) + P0) by lia.
    assert (H2 : W * (Esh N s' + P1) + W <= W * (Esh N (c_sh c) + P0)).
    { replace (W * (Esh N s' + P1) + W) with (W * (Esh N s' + P1 + 1)) by lia.
      apply Nat.mul_le_mono_l. exact H1. }
    assert (H3 : tsum (thr_tau N s') (upd (c_thr c) t th') <=
                 tsum (thr_P N) (upd (c_thr c) t th') + length (c_thr c) * (BB N + 1)).
    { rewrite <- (upd_length (c_thr c) t th'), <- tsum_plus_const.
      apply tsum_le. intros x _. apply thr_tau_le. exact Hlen. }
    pose proof (tsum_upd (thr_P N) _ _ _ th' Hn) as Hq.
    assert (H4 : thr_P N th' <= thr_P N th) by (unfold thr_P; apply Nat.mul_le_mono_r; exact Hprog).
    assert (H5 : tsum (thr_P N) (c_thr c) <= tsum (thr_tau N (c_sh c)) (c_thr c)).
    { apply tsum_le. intros x _. unfold thr_tau. lia. }
    unfold W, WW in *. lia.
Qed.

(** what a live thread steps from, in terms of the potential's ingredients *)
Lemma view_facts (th : qthread) o l fresh :
  view jdk th = Some (o, l, fresh) ->
  thr_pend th = n_offers (rest_prog th fresh) + pend_pc (l_pc l) /\
  length (t_prog th) = length (rest_prog th fresh) + (if fresh then 1 else 0) /\
  (if fresh then t_cur th = None /\ l_pc l = Inv o else t_cur th = Some (o, l)).
Proof.
  unfold view, thr_pend, rest_prog. destruct (t_dead th); [discriminate|].
  destruct (t_cur th) as [[o' l']|].
  - intros E. injection E as <- <- <-. repeat split; lia.
  - destruct (t_prog th) as [|o' r]; [discriminate|].
    intros E. injection E as <- <- <-. simpl. repeat split; lia.
Qed.

Lemma TInv_Phi_step N c t c' e :
  TInv N c -> step_thread jdk c t = Some (c', e) -> TInv N c' /\ Phi N c' < Phi N c.
Proof.
  intros [HC H2 HN] Hs.
  pose proof (CInv_step c t HC) as [HC' Hle].
  rewrite (step_cfg_some _ _ _ _ _ Hs) in HC', Hle.
  pose proof HC as [HI Hthr].
  unfold step_thread in Hs.
  destruct (nth_error (c_thr c) t) as [th|] eqn:Hn; [|discriminate].
  destruct (view jdk th) as [[[o l] fresh]|] eqn:Hv; [|discriminate].
  destruct (view_ok _ _ _ _ _ (Hthr _ _ Hn) Hv) as [Hpc Hit].
  destruct (view_facts _ _ _ _ Hv) as (Fp & Fl & Fc).
  assert (Hpc2 : pc_ok2 (c_sh c) (l_pc l)).
  { destruct fresh.
    - destruct Fc as [_ ->]. exact I.
    - eapply H2; eauto. }
  pose proof (tsum_ge thr_pend _ _ _ Hn) as Hge.
  assert (HNl : len (c_sh c) + pend_pc (l_pc l) <= N) by lia.
  pose proof (qstep_ok l (c_sh c) HI Hpc Hit) as Hout.
  pose proof (qstep_dec l (c_sh c) HI Hpc) as Hdec.
  pose proof (qstep_eff N l (c_sh c) HI Hpc Hpc2 HNl) as Heff.
  pose proof (qstep_ok2 l (c_sh c) HI Hpc2) as Hok2.
  change (m_step jdk l (c_sh c)) with (qstep l (c_sh c)) in Hs.
  assert (Hmu : mu (c_sh c) (l_pc l) <= BB N).
  { pose proof (mu_bound (c_sh c) (l_pc l)). unfold BB. lia. }
  destruct (qstep l (c_sh c)) as [l' s'|r ts' s'| |]; simpl in Hout, Hdec, Heff, Hok2;
    try contradiction; try discriminate.
  - (* Next *)
    injection Hs as <- _. cbn [c_sh c_thr] in *.
    set (th' := Thread (rest_prog th fresh) (t_ts th) (Some (o, l')) false) in *.
    destruct Heff as [Hlen Heff].
    assert (Fp' : thr_pend th' = n_offers (rest_prog th fresh) + pend_pc (l_pc l')) by reflexivity.
    pose proof (tsum_upd thr_pend _ _ _ th' Hn) as Hp.
    assert (HN' : len s' + tsum thr_pend (upd (c_thr c) t th') <= N) by lia.
    split.
    + constructor; cbn [c_sh c_thr]; [exact HC'| |exact HN'].
      intros t0 th0 o0 l0. rewrite nth_error_upd, Hn.
      destruct (Nat.eqb_spec t t0) as [<-|Hne].
      * intros E1 E2. injection E1 as <-. simpl in E2. injection E2 as <- <-. exact Hok2.
      * intros E1 E2. eapply pc_ok2_le; [apply (le_len _ _ Hle)|]. eapply H2; eauto.
    + apply Phi_update with (th := th); auto; try lia.
      * cbn [t_prog th']. lia.
      * destruct Heff as [[He Hpp]|Heff]; [left|right].
        -- split; [exact He|]. split; [lia|].
           unfold thr_tau, thr_P. cbn [t_prog t_cur th']. rewrite Fl.
           destruct fresh.
           ++ destruct Fc as [-> Fc]. rewrite Fc in Hdec, Hmu. lia.
           ++ rewrite Fc. lia.
        -- rewrite Fp, Fp'. lia.
  - (* Done *)
    injection Hs as <- _. cbn [c_sh c_thr] in *.
    set (th' := Thread (rest_prog th fresh) ts' None false) in *.
    destruct Heff as [Hlen Heff].
    assert (Fp' : thr_pend th' = n_offers (rest_prog th fresh)) by (unfold thr_pend; simpl; lia).
    pose proof (tsum_upd thr_pend _ _ _ th' Hn) as Hp.
    assert (HN' : len s' + tsum thr_pend (upd (c_thr c) t th') <= N) by lia.
    split.
    + constructor; cbn [c_sh c_thr]; [exact HC'| |exact HN'].
      intros t0 th0 o0 l0. rewrite nth_error_upd, Hn.
      destruct (Nat.eqb_spec t t0) as [<-|Hne].
      * intros E1 E2. injection E1 as <-. simpl in E2. discriminate.
      * intros E1 E2. eapply pc_ok2_le; [apply (le_len _ _ Hle)|]. eapply H2; eauto.
    + apply Phi_update with (th := th); auto; try lia.
      * cbn [t_prog th']. lia.
      * destruct Heff as [He|Heff]; [left|right].
        -- split; [exact He|]. split; [lia|].
           unfold thr_tau, thr_P. cbn [t_prog t_cur th']. rewrite Fl.
           destruct fresh.
           ++ destruct Fc as [-> Fc]. lia.
           ++ rewrite Fc. lia.
        -- rewrite Fp, Fp'. lia.
Qed.

(** every step taken costs at least one unit of potential *)
Lemma steps_Phi N : forall sched c,
  TInv N c ->
  TInv N (final jdk c sched) /\
  length (steps_of jdk c sched) + Phi N (final jdk c sched) <= Phi N c.
Proof.
  induction sched as [|t r IH]; intros c HT.
  - simpl. rewrite final_nil. split; [exact HT|lia].
  - rewrite final_cons. cbn [steps_of]. unfold step_cfg.
    destruct (step_thread jdk c t) as [[c' e]|] eqn:Hs.
    + destruct (TInv_Phi_step N c t c' e HT Hs) as [HT' Hlt].
      destruct (IH c' HT') as [HT'' Hle]. split; [exact HT''|]. simpl. lia.
    + apply IH. exact HT.
Qed.

(** ** The initial configuration and the explicit bound *)

Definition n_off (progs : list (list qop)) : nat := tsum n_offers progs.
Definition n_ops (progs : list (list qop)) : nat := tsum (@length qop) progs.

(** nodes that can ever exist: the dummy + one per Offer *)
Definition nodes_max (progs : list (list qop)) : nat := 1 + n_off progs.

(** [bound progs]: with T threads, n operations of which k are Offers, N = k+1:
      (T*(4N+13)+1) * (2*(N-1) + k)  +  n*(4N+13)
        =  (T*(4k+17)+1) * 3k  +  n*(4k+17)
    - at most 3k effective changes (k links, k head moves, k tail moves), each
    of which may make every thread restart its call in progress (4N+13 own
    steps at most), plus the solo cost of the n calls. *)
Definition bound (progs : list (list qop)) : nat :=
  let N := nodes_max progs in
  WW N (length progs) * ((N - 1) + (N - 1) + n_off progs)
  + n_ops progs * (BB N + 1).

Lemma TInv_init progs : TInv (nodes_max progs) (jdk_init progs).
Proof.
  constructor.
  - apply CInv_init.
  - unfold jdk_init, init. cbn [c_thr]. intros t th o l Hn Hc.
    apply nth_error_In in Hn. apply in_map_iff in Hn. destruct Hn as [p [<- _]].
    discriminate.
  - unfold jdk_init, init, nodes_max, n_off. cbn [c_sh c_thr]. rewrite tsum_map.
    unfold thr_pend, mk_thread. cbn [t_prog t_cur].
    rewrite (tsum_ext _ n_offers); [unfold len; simpl; lia|]. intros x _. lia.
Qed.

Lemma Phi_init progs : Phi (nodes_max progs) (jdk_init progs) = bound progs.
Proof.
  unfold Phi, EE, bound, jdk_init, init. cbn [c_sh c_thr]. rewrite map_length.
  set (N := nodes_max progs). rewrite !tsum_map.
  assert (E1 : tsum (fun x => thr_pend (mk_thread qlocal qiter0 x)) progs = n_off progs).
  { unfold n_off. apply tsum_ext. intros x _. unfold thr_pend, mk_thread. simpl. lia. }
  assert (E2 : tsum (fun x => thr_tau N qinit (mk_thread qlocal qiter0 x)) progs = n_ops progs * (BB N + 1)).
  { unfold n_ops. rewrite <- tsum_times_const. apply tsum_ext. intros x _.
    unfold thr_tau, thr_P, mk_thread. simpl. lia. }
  rewrite E1, E2.
  assert (E3 : Esh N qinit = (N - 1) + (N - 1)).
  { unfold Esh, qinit. simpl. lia. }
  rewrite E3. reflexivity.
Qed.

(** ** (A) no infinite execution: every schedule takes at most [bound progs] steps *)

Theorem jdk_total_termination : forall (progs : list (list qop)) (sched : list nat),
  length (steps_of jdk (jdk_init progs) sched) <= bound progs.
Proof.
  intros progs sched.
  destruct (steps_Phi (nodes_max progs) sched _ (TInv_init progs)) as [_ H].
  rewrite Phi_init in H. lia.
Qed.

Print Assumptions jdk_total_termination.

(** the explicit polynomial *)
Lemma bound_formula progs :
  let T := length progs in let k := n_off progs in let n := n_ops progs in
  bound progs = (T * (4 * k + 17) + 1) * (3 * k) + n * (4 * k + 17).
Proof.
  intros T k n. unfold bound, nodes_max, WW, BB. fold T k n.
  replace (1 + k - 1) with k by lia.
  replace (4 * (1 + k) + 12 + 1) with (4 * k + 17) by lia.
  replace (k + k + k) with (3 * k) by lia. reflexivity.
Qed.

(** the same from any reachable configuration: the steps already taken and
    the steps still to come share the one budget *)
Theorem jdk_total_termination_from : forall (progs : list (list qop)) (s1 s2 : list nat),
  length (steps_of jdk (jdk_init progs) s1) +
  length (steps_of jdk (final jdk (jdk_init progs) s1) s2) <= bound progs.
Proof.
  intros progs s1 s2.
  destruct (steps_Phi (nodes_max progs) s1 _ (TInv_init progs)) as [HT H1].
  destruct (steps_Phi (nodes_max progs) s2 _ HT) as [_ H2].
  rewrite Phi_init in H1. lia.
Qed.
