(** Total termination of the lock-free JDK queue model [jdk], part 1:
    the "effective change" measure of the shared state and the one-step lemma.

    The solo measure [mu s pc] of JdkProgress (own steps a call can still take
    when it runs alone) depends on the shared state [s] only through the
    number of nodes, the head, the tail, and which node is the last one
    ([mu_eq]).  Hence every step of every operation either

      - leaves all that untouched: then the solo measure of every OTHER thread
        is unchanged, and that of the stepping thread strictly decreases
        (JdkProgress.qstep_dec).  This covers all reads, all failed CASes, and
        also the successful item CAS / Remove (kill a node), updateHead's
        self-link and the iterator's unlink CAS; or

      - is EFFECTIVE and strictly decreases the natural number
        [Esh N s + pending offers]:
          a successful link CAS of Offer consumes one pending offer,
          a successful head CAS / tail CAS moves the pointer strictly forward
          (node addresses only grow).

    [N] is any bound on the number of nodes that will ever exist
    (nodes now + offers that have not linked their node yet). *)
From Coq Require Import List Arith Bool NArith Lia.
From Garr Require Import Conc.Conc Queue.JdkModel Queue.JdkInv Queue.JdkProgress.
Import ListNotations.

(** ** What the solo measure sees of the shared state *)

Record mu_eq (s s' : qshared) : Prop := {
  me_len : len s' = len s;
  me_head : q_head s' = q_head s;
  me_tail : q_tail s' = q_tail s;
  me_nil : forall p, Nat.eqb (nxt s' p) 0 = Nat.eqb (nxt s p) 0
}.

Lemma mu_eq_refl s : mu_eq s s.
Proof. constructor; reflexivity. Qed.

Lemma mu_eq_mu s s' c : mu_eq s s' -> mu s' c = mu s c.
Proof.
  intros [Hl Hh Ht Hn].
  destruct c; cbn [mu]; try reflexivity;
    try (match goal with k : cont |- _ => destruct k end);
    unfold mON, mONb, MB, D, ph; rewrite ?Hl, ?Hh, ?Ht, ?Hn; reflexivity.
Qed.

(** rewriting one node without changing whether its next pointer is nil *)
Lemma mu_eq_setn s b v l x :
  inr s b -> Nat.eqb x 0 = Nat.eqb (nxt s b) 0 -> mu_eq s (setn s b (Node v l x)).
Proof.
  intros Hb Hx. constructor.
  - apply len_setn.
  - apply head_setn.
  - apply tail_setn.
  - intros p. unfold nxt. rewrite nd_setn by assumption.
    destruct (Nat.eqb_spec p b) as [->|_]; [exact Hx|reflexivity].
Qed.

(** ** The measure of the shared state: room left for the head and the tail *)

Definition Esh (N : nat) (s : qshared) : nat := (N - q_head s) + (N - q_tail s).

Lemma Esh_mu_eq N s s' : mu_eq s s' -> Esh N s' = Esh N s.
Proof. intros [_ Hh Ht _]. unfold Esh. rewrite Hh, Ht. reflexivity. Qed.

(** ** Pending offers: calls of Offer that have not linked their node yet *)

Definition is_offer (o : qop) : nat := match o with Offer _ => 1 | _ => 0 end.

Definition pend_pc (c : pc) : nat :=
  match c with
  | Inv o => is_offer o
  | OTail _ | ONext _ _ _ | OCasNext _ _ _ | OReTailOff _ _ _ | OHead _ _ | OReTailHop _ _ _ _ => 1
  | _ => 0
  end.

(** ** Extra register facts (the remembered tail of Offer) *)

Definition pc_ok2 (s : qshared) (c : pc) : Prop :=
  match c with
  | ONext _ t _ | OCasNext _ t _ | OReTailOff _ t _ | OHead _ t | OReTailHop _ t _ _ => t <= len s
  | OCasTail t n => t < n
  | _ => True
  end.

Lemma pc_ok2_le s s' c : len s <= len s' -> pc_ok2 s c -> pc_ok2 s' c.
Proof. intros H. destruct c; simpl; auto; lia. Qed.

Definition ok2_out (out : qout) : Prop :=
  match out with
  | Next l' s' => pc_ok2 s' (l_pc l')
  | _ => True
  end.

Lemma ok2_finish it k s : ok2_out (finish it k s).
Proof. destruct k; exact I. Qed.

Lemma ok2_update_head it h x k s : ok2_out (update_head it h x k s).
Proof. unfold update_head. destruct (Nat.eqb h x); [apply ok2_finish|exact I]. Qed.

Lemma ok2_scan_end it k h p f v s : ok2_out (scan_end it k h p f v s).
Proof. destruct k; unfold scan_end; apply ok2_update_head. Qed.

Lemma ok2_nloop it pred p v s : ok2_out (nloop it pred p v s).
Proof. destruct p; exact I. Qed.

Lemma ok2_after_succ it pred p q v s : ok2_out (after_succ it pred p q v s).
Proof. destruct q; unfold after_succ; [apply ok2_nloop|exact I]. Qed.

Lemma qstep_ok2 l s :
  QInv s -> pc_ok2 s (l_pc l) -> ok2_out (qstep l s).
Proof.
  intros HI H2. destruct l as [c it]. simpl in H2.
  pose proof (qi_tail _ HI) as Htl. unfold inr in Htl.
  destruct c; unfold qstep; cbn [l_pc l_it]; try destruct o; cbn [l_pc l_it];
    repeat match goal with
           | |- context [getn s ?a] => destruct (getn s a) as [np|]
           | |- ok2_out (if ?b then _ else _) => destruct b
           | |- ok2_out (match ?x with _ => _ end) => destruct x
           end;
    auto using ok2_finish, ok2_update_head, ok2_scan_end, ok2_nloop, ok2_after_succ;
    simpl in *; unfold len in *; try exact I; try lia.
Qed.

(** ** The one-step lemma *)

(** [ppc] = pending-offer count of the pc stepped from *)
Definition eff_out (N : nat) (s : qshared) (ppc : nat) (out : qout) : Prop :=
  match out with
  | Next l' s' =>
      len s' + pend_pc (l_pc l') <= len s + ppc /\
      ((mu_eq s s' /\ pend_pc (l_pc l') <= ppc) \/
       Esh N s' + pend_pc (l_pc l') < Esh N s + ppc)
  | Done _ _ s' =>
      len s' <= len s + ppc /\
      (mu_eq s s' \/ Esh N s' < Esh N s + ppc)
  | _ => True
  end.

(** steps that do not touch what [mu] sees *)
Lemma eff_goto N s s' ppc it c :
  mu_eq s s' -> pend_pc c <= ppc -> eff_out N s ppc (goto it c s').
Proof.
  intros He H. simpl. rewrite (me_len _ _ He). split; [lia|]. left. split; [exact He|exact H].
Qed.

Lemma eff_done N s s' ppc it r : mu_eq s s' -> eff_out N s ppc (done it r s').
Proof. intros He. simpl. rewrite (me_len _ _ He). split; [lia|]. left. exact He. Qed.

Lemma eff_finish N s s' ppc it k : mu_eq s s' -> eff_out N s ppc (finish it k s').
Proof. intros He. destruct k; [apply eff_done|apply eff_goto; simpl; try lia]; exact He. Qed.

Lemma eff_update_head N s ppc it h x k : eff_out N s ppc (update_head it h x k s).
Proof.
  unfold update_head.
  destruct (Nat.eqb h x); [apply eff_finish|apply eff_goto; simpl; try lia]; apply mu_eq_refl.
Qed.

Lemma eff_scan_end N s ppc it k h p f v : eff_out N s ppc (scan_end it k h p f v s).
Proof. destruct k; unfold scan_end; apply eff_update_head. Qed.

Lemma eff_nloop N s s' ppc it pred p v : mu_eq s s' -> eff_out N s ppc (nloop it pred p v s').
Proof. intros He. destruct p; [apply eff_done|apply eff_goto; simpl; try lia]; exact He. Qed.

Lemma eff_after_succ N s ppc it pred p q v : eff_out N s ppc (after_succ it pred p q v s).
Proof.
  destruct q; unfold after_succ; [apply eff_nloop|apply eff_goto; simpl; try lia]; apply mu_eq_refl.
Qed.

(** effective steps that keep the number of nodes and involve no pending offer *)
Lemma eff_goto' N s s' it c :
  len s' = len s -> pend_pc c = 0 -> Esh N s' < Esh N s -> eff_out N s 0 (goto it c s').
Proof. intros H1 H2 H3. simpl. rewrite H2. split; [lia|]. right. lia. Qed.

Lemma eff_done' N s s' it r :
  len s' = len s -> Esh N s' < Esh N s -> eff_out N s 0 (done it r s').
Proof. intros H1 H3. simpl. split; [lia|]. right. lia. Qed.

Ltac same := first [apply eff_goto; [apply mu_eq_refl|simpl; lia] | apply eff_done; apply mu_eq_refl].

Lemma qstep_eff N l s :
  QInv s -> pc_ok s (l_pc l) -> pc_ok2 s (l_pc l) ->
  len s + pend_pc (l_pc l) <= N ->
  eff_out N s (pend_pc (l_pc l)) (qstep l s).
Proof.
  intros HI Hpc H2 HN. destruct l as [c it]. simpl in Hpc, H2, HN.
  pose proof (qi_head _ HI) as Hhd. pose proof (qi_tail _ HI) as Htl.
  unfold inr in Hhd, Htl.
  destruct c; unfold qstep; cbn [l_pc l_it pend_pc]; cbn [pend_pc] in HN.
  - (* Inv *)
    destruct o; cbn [l_pc l_it is_offer]; try same.
    + destruct (Nat.eqb v 0); same.
    + destruct (it_node it); same.
    + destruct (it_last it); same.
  - (* OTail *) same.
  - (* ONext *)
    rewrite (getn_inr s p Hpc).
    destruct (Nat.eqb (n_next (nd s p)) 0); [same|].
    destruct (Nat.eqb p (n_next (nd s p))); [same|].
    destruct (negb (Nat.eqb p t)); same.
  - (* OCasNext: the link CAS *)
    rewrite (getn_inr s p Hpc). fold (nxt s p).
    destruct (Nat.eqb_spec (nxt s p) 0) as [E0|N0]; [|same].
    set (s1 := setn s p (Node (n_val (nd s p)) (n_live (nd s p)) (S (length (q_nodes s))))).
    set (s2 := QS (q_nodes s1 ++ [Node v true 0]) (q_head s1) (q_tail s1)).
    assert (Hl1 : len s1 = len s) by apply len_setn.
    assert (Hl2 : len s2 = S (len s)).
    { change s2 with (app1 s1 (Node v true 0)). rewrite len_app1. lia. }
    assert (HE : Esh N s2 = Esh N s).
    { unfold Esh, s2. cbn [q_head q_tail]. unfold s1. rewrite head_setn, tail_setn. reflexivity. }
    destruct (Nat.eqb p t).
    + simpl. fold s1. fold s2. split; [lia|]. right. lia.
    + simpl. fold s1. fold s2. split; [lia|]. right. lia.
  - (* OCasTail: the tail CAS *)
    destruct (Nat.eqb_spec (q_tail s) t) as [Et|Nt]; [|same].
    apply eff_done'; [reflexivity|]. unfold Esh. cbn [q_head q_tail q_nodes].
    simpl in Hpc, H2. unfold inr in Hpc. lia.
  - (* OReTailOff *)
    destruct (Nat.eqb t (q_tail s)); same.
  - (* OHead *) same.
  - (* OReTailHop *)
    destruct (Nat.eqb t (q_tail s)); same.
  - (* PHead *) same.
  - (* PItem *)
    destruct Hpc as (A & B & C & Dd).
    assert (Hp : inr s p) by (unfold inr; lia).
    rewrite (getn_inr s p Hp). destruct (n_live (nd s p)); same.
  - (* PCasItem: killing a node is invisible to [mu] *)
    destruct Hpc as (A & B & C & Dd).
    assert (Hp : inr s p) by (unfold inr; lia).
    rewrite (getn_inr s p Hp).
    destruct (n_live (nd s p)); [|same].
    assert (He : mu_eq s (setn s p (Node (n_val (nd s p)) false (n_next (nd s p)))))
      by (apply mu_eq_setn; [exact Hp|reflexivity]).
    destruct (Nat.eqb p h); [apply eff_done|apply eff_goto; [|simpl; lia]]; exact He.
  - (* PNextAfter *)
    destruct Hpc as (A & B & C & Dd).
    assert (Hp : inr s p) by (unfold inr; lia).
    rewrite (getn_inr s p Hp). apply eff_update_head.
  - (* PNext *)
    destruct Hpc as (A & B & C & Dd).
    assert (Hp : inr s p) by (unfold inr; lia).
    rewrite (getn_inr s p Hp).
    destruct (Nat.eqb (n_next (nd s p)) 0); [apply eff_update_head|].
    destruct (Nat.eqb p (n_next (nd s p))); same.
  - (* UCasHead: the head CAS *)
    destruct Hpc as (A & B & C & Dd & E).
    destruct (Nat.eqb_spec (q_head s) h) as [Eh|Nh]; [|apply eff_finish; apply mu_eq_refl].
    apply eff_goto'; [reflexivity|reflexivity|].
    unfold Esh. cbn [q_head q_tail q_nodes]. lia.
  - (* USetNext: the self-link is invisible to [mu] *)
    destruct Hpc as (A & B & C).
    assert (Hh : inr s h) by (unfold inr in *; lia).
    rewrite (getn_inr s h Hh).
    apply eff_finish. apply mu_eq_setn; [exact Hh|].
    fold (nxt s h).
    destruct (Nat.eqb_spec h 0) as [|_]; [lia|].
    destruct (Nat.eqb_spec (nxt s h) 0) as [E0|_]; [|reflexivity].
    apply (qi_last _ HI h Hh) in E0. lia.
  - (* SHead *) same.
  - (* SItem *)
    destruct Hpc as (A & B & C & Dd).
    assert (Hp : inr s p) by (unfold inr; lia).
    rewrite (getn_inr s p Hp).
    destruct (n_live (nd s p)); [apply eff_scan_end|same].
  - (* SNext *)
    destruct Hpc as (A & B & C & Dd).
    assert (Hp : inr s p) by (unfold inr; lia).
    rewrite (getn_inr s p Hp).
    destruct (Nat.eqb (n_next (nd s p)) 0); [apply eff_scan_end|].
    destruct (Nat.eqb p (n_next (nd s p))); same.
  - (* ZItem *)
    rewrite (getn_inr s p Hpc). destruct (n_live (nd s p)); [|same].
    destruct (N.eqb (N.succ cnt) max_int32); same.
  - (* ZNext *)
    rewrite (getn_inr s p Hpc).
    destruct (Nat.eqb p (n_next (nd s p))); [same|].
    destruct (Nat.eqb (n_next (nd s p)) 0); same.
  - (* NSucc1 *)
    rewrite (getn_inr s pred Hpc).
    destruct (Nat.eqb pred (n_next (nd s pred))); [same|apply eff_nloop; apply mu_eq_refl].
  - (* NHead1 *) apply eff_nloop; apply mu_eq_refl.
  - (* NItem *)
    destruct Hpc as (A & B & C).
    assert (Hp : inr s p) by (unfold inr; lia).
    rewrite (getn_inr s p Hp).
    destruct (n_live (nd s p)); same.
  - (* NSucc2 *)
    destruct Hpc as (A & B & C & Dd).
    assert (Hp : inr s p) by (unfold inr; lia).
    rewrite (getn_inr s p Hp).
    destruct (Nat.eqb p (n_next (nd s p))); [same|apply eff_after_succ].
  - (* NHead2 *) apply eff_after_succ.
  - (* NCas: the unlink CAS is invisible to [mu] *)
    destruct Hpc as (A & B & C & Dd & E).
    assert (Hp : inr s pred) by (unfold inr; lia).
    rewrite (getn_inr s pred Hp). fold (nxt s pred).
    destruct (Nat.eqb_spec (nxt s pred) p) as [E1|N1]; apply eff_nloop; [|apply mu_eq_refl].
    apply mu_eq_setn; [exact Hp|]. rewrite E1.
    destruct (Nat.eqb_spec q 0) as [|_]; [lia|]. destruct (Nat.eqb_spec p 0) as [|_]; [lia|].
    reflexivity.
  - (* RSet: killing a node is invisible to [mu] *)
    rewrite (getn_inr s l Hpc).
    apply eff_done. apply mu_eq_setn; [exact Hpc|reflexivity].
Qed.
