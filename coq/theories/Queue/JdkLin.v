(** Linearizability of the lock-free JDK queue model [jdk] as a FIFO queue
    (Offer / Poll / Peek / IsEmpty), at explicit linearization points, for
    every client program over these operations and every interleaving. *)
From Coq Require Import List Arith Bool NArith Lia.
From Garr Require Import Conc.Conc Conc.Lin Queue.JdkModel Queue.JdkInv.
From Garr Require Queue.MutexProofs.
Import ListNotations.

Notation qret_eqb := MutexProofs.qret_eqb.
Notation fifo_spec := MutexProofs.fifo_spec.

(** ** The abstraction function: values of the live nodes in address order *)

Definition absl (l : list node) : list nat := map n_val (filter n_live l).
Definition absq (s : qshared) : list nat := absl (q_nodes s).

Lemma absl_cons x l :
  absl (x :: l) = if n_live x then n_val x :: absl l else absl l.
Proof. unfold absl; simpl. destruct (n_live x); reflexivity. Qed.

Lemma absl_upd_same l i x y :
  nth_error l i = Some x -> n_val y = n_val x -> n_live y = n_live x ->
  absl (upd l i y) = absl l.
Proof.
  revert i; induction l as [|a l IH]; intros i Hn Hv Hl; [reflexivity|].
  destruct i as [|i]; simpl in *.
  - injection Hn as ->. rewrite !absl_cons, Hv, Hl. reflexivity.
  - rewrite !absl_cons, IH by assumption. reflexivity.
Qed.

Lemma absl_kill l i x y :
  nth_error l i = Some x -> n_live x = true -> n_live y = false ->
  (forall j z, j < i -> nth_error l j = Some z -> n_live z = false) ->
  absl l = n_val x :: absl (upd l i y).
Proof.
  revert i; induction l as [|a l IH]; intros i Hn Hx Hy Hd; [destruct i; discriminate|].
  destruct i as [|i]; simpl in *.
  - injection Hn as ->. rewrite !absl_cons, Hx, Hy. reflexivity.
  - assert (Ha : n_live a = false) by (apply (Hd 0 a); [lia|reflexivity]).
    rewrite !absl_cons, Ha. apply IH; auto.
    intros j z Hj Hz. apply (Hd (S j) z); [lia|exact Hz].
Qed.

Lemma absl_dead l :
  (forall j z, nth_error l j = Some z -> n_live z = false) -> absl l = [].
Proof.
  induction l as [|a l IH]; intros Hd; [reflexivity|].
  rewrite absl_cons, (Hd 0 a) by reflexivity. apply IH.
  intros j z Hz. apply (Hd (S j) z). exact Hz.
Qed.

Lemma absl_app l x :
  absl (l ++ [x]) = absl l ++ (if n_live x then [n_val x] else []).
Proof.
  unfold absl. rewrite filter_app, map_app. simpl. destruct (n_live x); reflexivity.
Qed.

Lemma nd_nth s j z : nth_error (q_nodes s) j = Some z -> nd s (S j) = z.
Proof. intros H. unfold nd, getn. rewrite H. reflexivity. Qed.

Lemma nth_nd s p : inr s p -> exists i, p = S i /\ nth_error (q_nodes s) i = Some (nd s p).
Proof.
  intros Hp. pose proof (getn_inr s p Hp) as H. destruct p as [|i]; [destruct Hp; lia|].
  exists i. split; [reflexivity|exact H].
Qed.

Lemma absq_setnext s p x :
  inr s p -> absq (setn s p (Node (n_val (nd s p)) (n_live (nd s p)) x)) = absq s.
Proof.
  intros Hp. destruct (nth_nd s p Hp) as (i & -> & Hi). unfold absq, setn; simpl.
  eapply absl_upd_same; eauto.
Qed.

Lemma absq_kill s p :
  inr s p -> live s p = true -> db s p ->
  absq s = val s p :: absq (setn s p (Node (n_val (nd s p)) false (n_next (nd s p)))).
Proof.
  intros Hp Hl Hd. destruct (nth_nd s p Hp) as (i & -> & Hi). unfold absq, setn; simpl.
  eapply absl_kill; eauto.
  intros j z Hj Hz. rewrite <- (nd_nth s j z Hz). apply Hd; lia.
Qed.

Lemma absq_dead s : db s (S (len s)) -> absq s = [].
Proof.
  intros Hd. unfold absq. apply absl_dead. intros j z Hz.
  rewrite <- (nd_nth s j z Hz). apply Hd; [lia|].
  assert (j < length (q_nodes s)) by (apply nth_error_Some; congruence). unfold len. lia.
Qed.

Lemma absq_append s p v :
  inr s p ->
  let s1 := setn s p (Node (n_val (nd s p)) (n_live (nd s p)) (S (length (q_nodes s)))) in
  absq (QS (q_nodes s1 ++ [Node v true 0]) (q_head s1) (q_tail s1)) = absq s ++ [v].
Proof.
  intros Hp s1. unfold absq at 1. simpl q_nodes. rewrite absl_app. simpl.
  fold (absq s1). unfold s1. rewrite absq_setnext by assumption. reflexivity.
Qed.

(** ** Linearization points and the per-thread ghost assertion *)

Definition fifo_op (o : qop) : bool :=
  match o with Offer _ | Poll | Peek | IsEmpty => true | _ => false end.
Definition fifo_only (progs : list (list qop)) : Prop :=
  forall p o, In p progs -> In o p -> fifo_op o = true.

(* linearization points: the step about to be taken from local state l in shared state s *)
Definition jdk_lp (o : qop) (l : qlocal) (s : qshared) : bool :=
  match l_pc l with
  | Inv (Offer O) => true                                   (* Offer(nil) is a no-op *)
  | OCasNext _ _ p => match getn s p with Some np => Nat.eqb (n_next np) 0 | None => false end   (* successful link CAS *)
  | PCasItem _ p => match getn s p with Some np => n_live np | None => false end                 (* successful item CAS *)
  | PNext _ p => match getn s p with Some np => Nat.eqb (n_next np) 0 | None => false end       (* Poll -> nil: saw the dead last node *)
  | SItem _ _ p => match getn s p with Some np => n_live np | None => false end                  (* Peek -> v, IsEmpty -> false *)
  | SNext _ _ p => match getn s p with Some np => Nat.eqb (n_next np) 0 | None => false end     (* Peek -> nil, IsEmpty -> true *)
  | _ => false
  end.

(** relation between the operation being executed, the program counter and
    the result recorded by the ghost run ([None] before the linearization point) *)
Definition pend_ok (o : qop) (c : pc) (pend : option qret) : Prop :=
  match c with
  | Inv o' => o = o' /\ pend = None
  | OTail v | ONext v _ _ | OCasNext v _ _ | OReTailOff v _ _ | OHead v _ | OReTailHop v _ _ _ =>
      o = Offer v /\ v <> 0 /\ pend = None
  | OCasTail _ _ => pend = Some RUnit
  | PHead | PItem _ _ | PCasItem _ _ | PNext _ _ => o = Poll /\ pend = None
  | PNextAfter _ _ v => pend = Some (RVal v)
  | UCasHead _ _ (KRet r) | USetNext _ (KRet r) => pend = Some r
  | SHead k | SItem k _ _ | SNext k _ _ =>
      ((k = SKPeek /\ o = Peek) \/ (k = SKEmpty /\ o = IsEmpty)) /\ pend = None
  | _ => False
  end.

Definition lin_out (o : qop) (a' : list nat) (pend' : option qret) (out : qout) : Prop :=
  match out with
  | Next l' s' => absq s' = a' /\ pend_ok o (l_pc l') pend'
  | Done r _ s' => absq s' = a' /\ pend' = Some r
  | Blocked => True
  | Fault => True
  end.

Lemma lin_goto o a' pend' it c s' :
  absq s' = a' -> pend_ok o c pend' -> lin_out o a' pend' (goto it c s').
Proof. intros H1 H2. simpl. split; assumption. Qed.

Lemma lin_done o a' it r s' : absq s' = a' -> lin_out o a' (Some r) (done it r s').
Proof. intros H1. simpl. split; [assumption|reflexivity]. Qed.

Lemma lin_update_head o a' it h x r s :
  absq s = a' -> lin_out o a' (Some r) (update_head it h x (KRet r) s).
Proof.
  intros H. unfold update_head. destruct (Nat.eqb h x).
  - apply lin_done; assumption.
  - apply lin_goto; [assumption|reflexivity].
Qed.

Lemma qstep_lin o l s pend :
  QInv s -> pc_ok s (l_pc l) -> fifo_op o = true -> pend_ok o (l_pc l) pend ->
  (jdk_lp o l s = true -> pend = None) /\
  lin_out o (if jdk_lp o l s then fst (fifo_spec (absq s) o) else absq s)
            (if jdk_lp o l s then Some (snd (fifo_spec (absq s) o)) else pend)
            (qstep l s).
Proof.
  intros HI Hpc Hf Hp. destruct l as [c it]. simpl in Hpc, Hp.
  destruct c; unfold jdk_lp, qstep; cbn [l_pc l_it]; simpl in Hp; try contradiction.
  - (* Inv *)
    destruct Hp as [<- ->].
    destruct o as [[|v]| | | | | | | |]; try discriminate Hf; cbn [Nat.eqb]; cbv iota.
    + split; [reflexivity|]. apply lin_done. reflexivity.
    + split; [discriminate|]. apply lin_goto; [reflexivity|]. simpl. auto.
    + split; [discriminate|]. apply lin_goto; [reflexivity|]. simpl. auto.
    + split; [discriminate|]. apply lin_goto; [reflexivity|]. simpl. auto.
    + split; [discriminate|]. apply lin_goto; [reflexivity|]. simpl. auto.
  - (* OTail *)
    split; [discriminate|]. apply lin_goto; [reflexivity|exact Hp].
  - (* ONext *)
    split; [discriminate|]. rewrite (getn_inr s p Hpc).
    destruct (Nat.eqb (n_next (nd s p)) 0); [apply lin_goto; [reflexivity|exact Hp]|].
    destruct (Nat.eqb p (n_next (nd s p))); [apply lin_goto; [reflexivity|exact Hp]|].
    destruct (negb (Nat.eqb p t)); apply lin_goto; try reflexivity; exact Hp.
  - (* OCasNext *)
    destruct Hp as (-> & Hv & ->). rewrite (getn_inr s p Hpc).
    destruct (Nat.eqb (n_next (nd s p)) 0).
    + split; [reflexivity|].
      destruct v as [|v]; [congruence|]. cbn [fifo_spec MutexProofs.fifo_spec fst snd].
      destruct (Nat.eqb p t).
      * apply lin_done. apply absq_append. exact Hpc.
      * apply lin_goto; [|reflexivity]. apply absq_append. exact Hpc.
    + split; [discriminate|]. apply lin_goto; [reflexivity|]. simpl. auto.
  - (* OCasTail *)
    split; [discriminate|]. rewrite Hp. apply lin_done.
    destruct (Nat.eqb (q_tail s) t); reflexivity.
  - (* OReTailOff *)
    split; [discriminate|].
    destruct (Nat.eqb t (q_tail s)); apply lin_goto; try reflexivity; exact Hp.
  - (* OHead *)
    split; [discriminate|]. apply lin_goto; [reflexivity|exact Hp].
  - (* OReTailHop *)
    split; [discriminate|].
    destruct (Nat.eqb t (q_tail s)); apply lin_goto; try reflexivity; exact Hp.
  - (* PHead *)
    split; [discriminate|]. apply lin_goto; [reflexivity|exact Hp].
  - (* PItem *)
    destruct Hpc as (A & B & C & D).
    assert (Hin : inr s p) by (unfold inr; lia).
    split; [discriminate|]. rewrite (getn_inr s p Hin).
    destruct (n_live (nd s p)); apply lin_goto; try reflexivity; exact Hp.
  - (* PCasItem *)
    destruct Hpc as (A & B & C & D). destruct Hp as [-> ->].
    assert (Hin : inr s p) by (unfold inr; lia).
    rewrite (getn_inr s p Hin).
    destruct (n_live (nd s p)) eqn:El.
    + split; [reflexivity|].
      rewrite (absq_kill s p Hin El D). cbn [fifo_spec MutexProofs.fifo_spec fst snd].
      destruct (Nat.eqb p h).
      * apply lin_done. reflexivity.
      * apply lin_goto; reflexivity.
    + split; [discriminate|]. apply lin_goto; [reflexivity|]. simpl. auto.
  - (* PNextAfter *)
    destruct Hpc as (A & B & C & D).
    assert (Hin : inr s p) by (unfold inr; lia).
    split; [discriminate|]. rewrite (getn_inr s p Hin). rewrite Hp.
    apply lin_update_head. reflexivity.
  - (* PNext *)
    destruct Hpc as (A & B & C & D). destruct Hp as [-> ->].
    assert (Hin : inr s p) by (unfold inr; lia).
    rewrite (getn_inr s p Hin). fold (nxt s p).
    destruct (Nat.eqb_spec (nxt s p) 0) as [E0|N0].
    + split; [reflexivity|].
      assert (Hpl : p = len s) by (apply (qi_last _ HI); assumption).
      rewrite absq_dead by (rewrite <- Hpl; exact D).
      cbn [fifo_spec MutexProofs.fifo_spec fst snd].
      apply lin_update_head. apply absq_dead. rewrite <- Hpl; exact D.
    + split; [discriminate|].
      destruct (Nat.eqb p (nxt s p)); apply lin_goto; try reflexivity; simpl; auto.
  - (* UCasHead *)
    destruct k as [r|]; [|contradiction]. split; [discriminate|]. rewrite Hp.
    destruct (Nat.eqb (q_head s) h).
    + apply lin_goto; reflexivity.
    + apply lin_done. reflexivity.
  - (* USetNext *)
    destruct k as [r|]; [|contradiction]. split; [discriminate|]. rewrite Hp.
    destruct Hpc as (A & B & C).
    assert (Hin : inr s h) by (pose proof (qi_head _ HI); unfold inr in *; lia).
    rewrite (getn_inr s h Hin). apply lin_done. apply absq_setnext. exact Hin.
  - (* SHead *)
    split; [discriminate|]. apply lin_goto; [reflexivity|exact Hp].
  - (* SItem *)
    destruct Hpc as (A & B & C & D). destruct Hp as [Hk ->].
    assert (Hin : inr s p) by (unfold inr; lia).
    rewrite (getn_inr s p Hin).
    destruct (n_live (nd s p)) eqn:El.
    + split; [reflexivity|].
      pose proof (absq_kill s p Hin El D) as He. rewrite He.
      destruct Hk as [[-> ->]|[-> ->]]; unfold scan_end; cbn [fifo_spec MutexProofs.fifo_spec fst snd hd length Nat.eqb negb];
        apply lin_update_head; exact He.
    + split; [discriminate|]. apply lin_goto; [reflexivity|]. simpl. auto.
  - (* SNext *)
    destruct Hpc as (A & B & C & D). destruct Hp as [Hk ->].
    assert (Hin : inr s p) by (unfold inr; lia).
    rewrite (getn_inr s p Hin). fold (nxt s p).
    destruct (Nat.eqb_spec (nxt s p) 0) as [E0|N0].
    + split; [reflexivity|].
      assert (Hpl : p = len s) by (apply (qi_last _ HI); assumption).
      assert (He : absq s = []) by (apply absq_dead; rewrite <- Hpl; exact D).
      rewrite He.
      destruct Hk as [[-> ->]|[-> ->]]; unfold scan_end; cbn [fifo_spec MutexProofs.fifo_spec fst snd hd length Nat.eqb negb];
        apply lin_update_head; exact He.
    + split; [discriminate|].
      destruct (Nat.eqb p (nxt s p)); apply lin_goto; try reflexivity; simpl; auto.
Qed.

(** ** The simulation invariant between configurations and the ghost run *)

Notation jg := (gstate qret (list nat)).
Notation jgstep := (gstep jdk qret_eqb fifo_spec jdk_lp).

Definition thr_lin (th : qthread) (pend : option qret) : Prop :=
  (forall o, In o (t_prog th) -> fifo_op o = true) /\
  match t_cur th with
  | None => pend = None
  | Some (o, l) => fifo_op o = true /\ pend_ok o (l_pc l) pend
  end.

Record LInv (c : qcfg) (g : jg) : Prop := {
  li_c : CInv c;
  li_abs : g_abs g = absq (c_sh c);
  li_len : length (g_pend g) = length (c_thr c);
  li_thr : forall t th, nth_error (c_thr c) t = Some th -> thr_lin th (pend_of g t)
}.

Lemma view_lin th pend o l fresh :
  thr_lin th pend -> view jdk th = Some (o, l, fresh) ->
  fifo_op o = true /\ pend_ok o (l_pc l) pend /\
  (forall o', In o' (rest_prog th fresh) -> fifo_op o' = true).
Proof.
  intros [Hp Hc]. unfold view. destruct (t_dead th); [discriminate|].
  destruct (t_cur th) as [[o' l']|].
  - intros E. injection E as <- <- <-. destruct Hc as [A B]. repeat split; auto.
  - destruct (t_prog th) as [|o' r] eqn:Ep; [discriminate|].
    intros E. injection E as <- <- <-. simpl. rewrite Ep. simpl.
    split; [apply Hp; left; reflexivity|]. split; [split; [reflexivity|exact Hc]|].
    intros o'' Hin. apply Hp. right. exact Hin.
Qed.

Lemma nth_error_lt {A} (l : list A) t x : nth_error l t = Some x -> t < length l.
Proof. intros H. apply nth_error_Some. congruence. Qed.

Ltac norm :=
  repeat first
    [ rewrite do_ret_length | rewrite do_lp_length | rewrite abs_do_lp | rewrite ok_do_lp
    | rewrite pend_do_ret_same by (rewrite ?do_lp_length; assumption)
    | rewrite pend_do_lp_same by assumption
    | rewrite pend_do_ret_other by assumption | rewrite pend_do_lp_other by assumption ].

(** what the step of thread [t] does to the abstract state, to [g_ok] and to
    thread [t]'s own assertion *)
Lemma LInv_step_main c g t :
  LInv c g -> g_ok g = true ->
  g_abs (jgstep c g t) = absq (c_sh (step_cfg jdk c t)) /\
  g_ok (jgstep c g t) = true /\
  (forall th', nth_error (c_thr (step_cfg jdk c t)) t = Some th' ->
               thr_lin th' (pend_of (jgstep c g t) t)).
Proof.
  intros HL Hok. pose proof (li_c _ _ HL) as [HI Hthr]. pose proof (li_abs _ _ HL) as Habs.
  unfold step_cfg, step_thread, gstep.
  destruct (nth_error (c_thr c) t) as [th|] eqn:Hn.
  2:{ split; [exact Habs|]. split; [exact Hok|]. intros th' E. rewrite Hn in E. discriminate. }
  pose proof (li_thr _ _ HL _ _ Hn) as Hlin.
  assert (Hltp : t < length (g_pend g)). { rewrite (li_len _ _ HL). eapply nth_error_lt; eauto. }
  destruct (view jdk th) as [[[o l] fresh]|] eqn:Hv.
  2:{ split; [exact Habs|]. split; [exact Hok|]. intros th' E. rewrite Hn in E.
      injection E as <-. exact Hlin. }
  destruct (view_ok _ _ _ _ _ (Hthr _ _ Hn) Hv) as [Hpc Hit].
  destruct (view_lin _ _ _ _ _ Hlin Hv) as (Hf & Hp & Hrest).
  pose proof (qstep_ok l (c_sh c) HI Hpc Hit) as Hout.
  destruct (qstep_lin o l (c_sh c) (pend_of g t) HI Hpc Hf Hp) as [Hnone Hlo].
  change (m_step jdk l (c_sh c)) with (qstep l (c_sh c)).
  destruct (qstep l (c_sh c)) as [l' s'|r ts' s'| |]; simpl in Hout; try contradiction.
  - (* Next *)
    destruct Hlo as [Ha Hp']. simpl c_sh. simpl c_thr.
    destruct (jdk_lp o l (c_sh c)) eqn:Elp.
    + specialize (Hnone eq_refl). split; [norm; rewrite Habs; symmetry; exact Ha|].
      split; [norm; rewrite Hok, Hnone; reflexivity|].
      intros th' E. rewrite nth_error_upd, Nat.eqb_refl, Hn in E. injection E as <-.
      split; [exact Hrest|]. simpl. split; [exact Hf|]. norm. rewrite Habs. exact Hp'.
    + split; [rewrite Habs; symmetry; exact Ha|]. split; [exact Hok|].
      intros th' E. rewrite nth_error_upd, Nat.eqb_refl, Hn in E. injection E as <-.
      split; [exact Hrest|]. simpl. split; [exact Hf|exact Hp'].
  - (* Done *)
    destruct Hlo as [Ha Hp']. simpl c_sh. simpl c_thr.
    destruct (jdk_lp o l (c_sh c)) eqn:Elp.
    + specialize (Hnone eq_refl). split; [simpl; norm; rewrite Habs; symmetry; exact Ha|].
      split.
      * unfold do_ret. simpl. norm. rewrite Hok, Hnone. simpl.
        rewrite Habs. injection Hp' as ->. apply MutexProofs.qret_eqb_refl.
      * intros th' E. rewrite nth_error_upd, Nat.eqb_refl, Hn in E. injection E as <-.
        split; [exact Hrest|]. simpl. norm. reflexivity.
    + split; [simpl; rewrite Habs; symmetry; exact Ha|].
      split.
      * unfold do_ret. simpl. rewrite Hok, Hp'. simpl. apply MutexProofs.qret_eqb_refl.
      * intros th' E. rewrite nth_error_upd, Nat.eqb_refl, Hn in E. injection E as <-.
        split; [exact Hrest|]. simpl. norm. reflexivity.
Qed.

Lemma LInv_step c g t :
  LInv c g -> g_ok g = true ->
  LInv (step_cfg jdk c t) (jgstep c g t) /\ g_ok (jgstep c g t) = true.
Proof.
  intros HL Hok. destruct (LInv_step_main c g t HL Hok) as (Ha & Hk & Ht).
  split; [|exact Hk]. constructor.
  - apply CInv_step. apply (li_c _ _ HL).
  - exact Ha.
  - rewrite gstep_pend_length, step_cfg_length. apply (li_len _ _ HL).
  - intros t' th' E. destruct (Nat.eq_dec t' t) as [->|Hne].
    + apply Ht. exact E.
    + rewrite step_cfg_other in E by assumption.
      rewrite gstep_pend_other by assumption. apply (li_thr _ _ HL _ _ E).
Qed.

Lemma LInv_init progs :
  fifo_only progs -> LInv (jdk_init progs) (ginit qret [] (length progs)).
Proof.
  intros Hf. constructor.
  - apply CInv_init.
  - reflexivity.
  - simpl. rewrite repeat_length, map_length. reflexivity.
  - simpl. intros t th H. pose proof H as H'.
    apply nth_error_In in H. apply in_map_iff in H. destruct H as [p [<- Hin]].
    split; simpl.
    + intros o Ho. eapply Hf; eauto.
    + unfold pend_of; simpl. destruct (Nat.ltb_spec t (length progs)).
      * rewrite nth_repeat. reflexivity.
      * rewrite nth_overflow; [reflexivity|]. rewrite repeat_length. assumption.
Qed.

(** GOAL B: every history of the lock-free queue over Offer/Poll/Peek/IsEmpty
    is linearizable as a FIFO queue at the marked points. *)
Theorem jdk_linearizable_fifo : forall progs sched, fifo_only progs ->
  lin_ok jdk qret_eqb fifo_spec jdk_lp qinit qiter0 [] progs sched = true.
Proof.
  intros progs sched Hf. unfold lin_ok.
  apply (lin_by_invariant jdk qret_eqb fifo_spec jdk_lp LInv).
  - apply LInv_init. exact Hf.
  - reflexivity.
  - intros c g t HL Hok. apply LInv_step; assumption.
Qed.

Print Assumptions jdk_linearizable_fifo.
