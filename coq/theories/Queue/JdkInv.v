(** Structural invariants of the lock-free JDK queue model [jdk]
    (all programs, including iterators and Size; all schedules):
    the node list is a well-formed "lagging" Michael-Scott list and no
    thread ever dereferences nil. *)
From Coq Require Import List Arith Bool NArith Lia.
From Garr Require Import Conc.Conc Queue.JdkModel.
Import ListNotations.

(** ** Total accessors *)

Definition dnode : node := Node 0 false 0.
Definition len (s : qshared) : nat := length (q_nodes s).
Definition nd (s : qshared) (a : nat) : node :=
  match getn s a with Some n => n | None => dnode end.
Definition live (s : qshared) (a : nat) : bool := n_live (nd s a).
Definition nxt (s : qshared) (a : nat) : nat := n_next (nd s a).
Definition val (s : qshared) (a : nat) : nat := n_val (nd s a).
Definition inr (s : qshared) (a : nat) : Prop := 1 <= a /\ a <= len s.

(** all nodes at addresses [1 .. p-1] are dead *)
Definition db (s : qshared) (p : nat) : Prop :=
  forall a, 1 <= a -> a < p -> live s a = false.

Lemma getn_inr s a : inr s a -> getn s a = Some (nd s a).
Proof.
  unfold inr, len, nd, getn. destruct a as [|a]; [lia|]. intros H.
  destruct (nth_error (q_nodes s) a) eqn:E; [reflexivity|].
  apply nth_error_None in E. lia.
Qed.

Lemma getn_Some s a n : getn s a = Some n -> inr s a /\ nd s a = n.
Proof.
  unfold inr, len, nd. intros H. rewrite H. split; [|reflexivity].
  unfold getn in H. destruct a as [|a]; [discriminate|].
  assert (a < length (q_nodes s)) by (apply nth_error_Some; congruence). lia.
Qed.

Lemma nd_out s a : ~ inr s a -> nd s a = dnode.
Proof.
  unfold inr, len, nd, getn. intros H. destruct a as [|a]; [reflexivity|].
  destruct (nth_error (q_nodes s) a) eqn:E; [|reflexivity].
  exfalso. apply H. assert (a < length (q_nodes s)) by (apply nth_error_Some; congruence). lia.
Qed.

Lemma live_out s a : ~ inr s a -> live s a = false.
Proof. intros H. unfold live. rewrite nd_out by assumption. reflexivity. Qed.

Lemma nxt_out s a : ~ inr s a -> nxt s a = 0.
Proof. intros H. unfold nxt. rewrite nd_out by assumption. reflexivity. Qed.

(** ** Effect of the shared-state updates on the accessors *)

Lemma len_setn s b n : len (setn s b n) = len s.
Proof. unfold len, setn. destruct b; simpl; [reflexivity|apply upd_length]. Qed.

Lemma head_setn s b n : q_head (setn s b n) = q_head s.
Proof. destruct b; reflexivity. Qed.

Lemma tail_setn s b n : q_tail (setn s b n) = q_tail s.
Proof. destruct b; reflexivity. Qed.

Lemma nd_setn s b n a :
  inr s b -> nd (setn s b n) a = if Nat.eqb a b then n else nd s a.
Proof.
  unfold inr, len. intros [H1 H2]. destruct b as [|b]; [lia|].
  unfold nd, setn, getn. destruct a as [|a]; simpl; [reflexivity|].
  rewrite nth_error_upd.
  destruct (Nat.eqb_spec a b) as [->|Hne].
  - rewrite Nat.eqb_refl.
    destruct (nth_error (q_nodes s) b) eqn:E; [reflexivity|].
    apply nth_error_None in E. lia.
  - destruct (Nat.eqb_spec b a) as [->|_]; [congruence|reflexivity].
Qed.

Definition app1 (s : qshared) (x : node) : qshared :=
  QS (q_nodes s ++ [x]) (q_head s) (q_tail s).

Lemma len_app1 s x : len (app1 s x) = S (len s).
Proof. unfold len, app1; simpl. rewrite app_length. simpl. lia. Qed.

Lemma nd_app1 s x a :
  nd (app1 s x) a = if Nat.eqb a (S (len s)) then x else nd s a.
Proof.
  unfold nd, app1, getn, len. destruct a as [|a]; simpl; [reflexivity|].
  destruct (Nat.eqb_spec a (length (q_nodes s))) as [->|Hne].
  - rewrite nth_error_app2 by lia. rewrite Nat.sub_diag. reflexivity.
  - destruct (Nat.ltb_spec a (length (q_nodes s))) as [Hlt|Hge].
    + rewrite nth_error_app1 by assumption. reflexivity.
    + assert (E1 : nth_error (q_nodes s ++ [x]) a = None).
      { apply nth_error_None. rewrite app_length. simpl. lia. }
      assert (E2 : nth_error (q_nodes s) a = None) by (apply nth_error_None; lia).
      rewrite E1, E2. reflexivity.
Qed.

(** ** The structural invariant of the shared state *)

Record QInv (s : qshared) : Prop := {
  qi_ne : 1 <= len s;                                      (* N0 *)
  qi_head : inr s (q_head s);
  qi_tail : inr s (q_tail s);
  qi_next : forall a, inr s a ->                           (* N1 *)
      nxt s a = 0 \/ nxt s a = a \/ (a < nxt s a /\ nxt s a <= len s);
  qi_last : forall a, inr s a -> (nxt s a = 0 <-> a = len s);  (* N1: exactly the last node has no successor *)
  qi_dead : db s (q_head s);                               (* N3 *)
  qi_self : forall a, inr s a -> nxt s a = a -> a < q_head s;  (* N4 *)
  qi_skip : forall a c, inr s a -> a < c -> c < nxt s a -> live s c = false  (* N5 *)
}.

(** what every step guarantees to the other threads *)
Record sh_le (s s' : qshared) : Prop := {
  le_len : len s <= len s';
  le_head : q_head s <= q_head s';
  le_dead : forall a, inr s a -> live s a = false -> live s' a = false;
  le_val : forall a, inr s a -> val s' a = val s a
}.

Lemma sh_le_refl s : sh_le s s.
Proof. constructor; auto. Qed.

Lemma sh_le_trans s1 s2 s3 : sh_le s1 s2 -> sh_le s2 s3 -> sh_le s1 s3.
Proof.
  intros [A1 A2 A3 A4] [B1 B2 B3 B4]. constructor; try lia.
  - intros a Ha Hd. apply B3; [unfold inr in *; lia|]. apply A3; assumption.
  - intros a Ha. rewrite B4, A4; [reflexivity|exact Ha|unfold inr in *; lia].
Qed.

Lemma inr_le s s' a : sh_le s s' -> inr s a -> inr s' a.
Proof. intros [H _ _ _]. unfold inr. lia. Qed.

Lemma db_le s s' p : sh_le s s' -> p <= S (len s) -> db s p -> db s' p.
Proof.
  intros H Hp Hd a Ha1 Ha2. apply (le_dead _ _ H); [unfold inr; lia|]. apply Hd; assumption.
Qed.

(** ** Preservation of [QInv] by each kind of update *)

(** updates that keep all links and only kill items *)
Lemma QInv_mono s s' :
  QInv s -> len s' = len s -> q_head s' = q_head s -> q_tail s' = q_tail s ->
  (forall a, nxt s' a = nxt s a) ->
  (forall a, live s a = false -> live s' a = false) ->
  (forall a, val s' a = val s a) ->
  QInv s' /\ sh_le s s'.
Proof.
  intros HI Hl Hh Ht Hn Hd Hvl. split.
  - constructor; unfold inr, db in *; rewrite ?Hl, ?Hh, ?Ht.
    + apply (qi_ne _ HI).
    + apply (qi_head _ HI).
    + apply (qi_tail _ HI).
    + intros a Ha. rewrite Hn. apply (qi_next _ HI). exact Ha.
    + intros a Ha. rewrite Hn. apply (qi_last _ HI). exact Ha.
    + intros a H1 H2. apply Hd. apply (qi_dead _ HI); assumption.
    + intros a Ha. rewrite Hn. apply (qi_self _ HI). exact Ha.
    + intros a c Ha H1. rewrite Hn. intros H2. apply Hd. apply (qi_skip _ HI a c); assumption.
  - constructor; try lia; [intros a _; apply Hd|intros a _; apply Hvl].
Qed.

Lemma QInv_kill s p :
  QInv s -> inr s p ->
  let s' := setn s p (Node (n_val (nd s p)) false (n_next (nd s p))) in
  QInv s' /\ sh_le s s'.
Proof.
  intros HI Hp s'. apply QInv_mono; try assumption; unfold s'.
  - apply len_setn.
  - apply head_setn.
  - apply tail_setn.
  - intros a. unfold nxt. rewrite nd_setn by assumption.
    destruct (Nat.eqb_spec a p) as [->|_]; reflexivity.
  - intros a. unfold live. rewrite nd_setn by assumption.
    destruct (Nat.eqb_spec a p) as [->|_]; auto.
  - intros a. unfold val. rewrite nd_setn by assumption.
    destruct (Nat.eqb_spec a p) as [->|_]; reflexivity.
Qed.

(** updates of one link: self-link of a node behind the head, or a shortcut
    over dead nodes *)
Lemma QInv_setnext s b x :
  QInv s -> 1 <= b -> b < len s ->
  ((x = b /\ b < q_head s) \/
   (b < x /\ x <= len s /\ forall c, b < c -> c < x -> live s c = false)) ->
  let s' := setn s b (Node (n_val (nd s b)) (n_live (nd s b)) x) in
  QInv s' /\ sh_le s s'.
Proof.
  intros HI Hb1 Hb2 Hx s'.
  assert (Hb : inr s b) by (unfold inr; lia).
  assert (Hl : len s' = len s) by apply len_setn.
  assert (Hh : q_head s' = q_head s) by apply head_setn.
  assert (Ht : q_tail s' = q_tail s) by apply tail_setn.
  assert (Hlv : forall a, live s' a = live s a).
  { intros a. unfold live, s'. rewrite nd_setn by assumption.
    destruct (Nat.eqb_spec a b) as [->|_]; reflexivity. }
  assert (Hn : forall a, nxt s' a = if Nat.eqb a b then x else nxt s a).
  { intros a. unfold nxt, s'. rewrite nd_setn by assumption.
    destruct (Nat.eqb_spec a b) as [->|_]; reflexivity. }
  assert (Hvl : forall a, val s' a = val s a).
  { intros a. unfold val, s'. rewrite nd_setn by assumption.
    destruct (Nat.eqb_spec a b) as [->|_]; reflexivity. }
  split.
  - constructor; unfold inr, db in *; rewrite ?Hl, ?Hh, ?Ht.
    + apply (qi_ne _ HI).
    + apply (qi_head _ HI).
    + apply (qi_tail _ HI).
    + intros a Ha. rewrite Hn. destruct (Nat.eqb_spec a b) as [->|_].
      * destruct Hx as [[-> _]|(H1 & H2 & _)]; [right; left; reflexivity|right; right; lia].
      * apply (qi_next _ HI). exact Ha.
    + intros a Ha. rewrite Hn. destruct (Nat.eqb_spec a b) as [->|_].
      * split; intros H; [|lia]. destruct Hx as [[-> _]|(H1 & _)]; lia.
      * apply (qi_last _ HI). exact Ha.
    + intros a H1 H2. rewrite Hlv. apply (qi_dead _ HI); assumption.
    + intros a Ha. rewrite Hn. destruct (Nat.eqb_spec a b) as [->|_].
      * intros ->. destruct Hx as [[_ H]|(H & _)]; [exact H|lia].
      * apply (qi_self _ HI). exact Ha.
    + intros a c Ha H1. rewrite Hn, Hlv. destruct (Nat.eqb_spec a b) as [->|_].
      * intros H2. destruct Hx as [[-> _]|(_ & _ & H)]; [lia|apply H; assumption].
      * apply (qi_skip _ HI a c); assumption.
  - constructor; try lia; [intros a _; rewrite Hlv; auto|intros a _; apply Hvl].
Qed.

(** the link CAS of Offer: the new node is appended behind the last one *)
Lemma QInv_append s p v :
  QInv s -> inr s p -> nxt s p = 0 ->
  let s1 := setn s p (Node (n_val (nd s p)) (n_live (nd s p)) (S (length (q_nodes s)))) in
  let s2 := QS (q_nodes s1 ++ [Node v true 0]) (q_head s1) (q_tail s1) in
  QInv s2 /\ sh_le s s2 /\ len s2 = S (len s).
Proof.
  intros HI Hp Hnp s1 s2.
  assert (Hpl : p = len s) by (apply (qi_last _ HI); assumption).
  change s2 with (app1 s1 (Node v true 0)).
  assert (Hl1 : len s1 = len s) by apply len_setn.
  assert (Hl : len (app1 s1 (Node v true 0)) = S (len s)) by (rewrite len_app1, Hl1; reflexivity).
  assert (Hh : q_head (app1 s1 (Node v true 0)) = q_head s) by (simpl; apply head_setn).
  assert (Ht : q_tail (app1 s1 (Node v true 0)) = q_tail s) by (simpl; apply tail_setn).
  assert (Hnd : forall a, nd (app1 s1 (Node v true 0)) a =
                          if Nat.eqb a (S (len s)) then Node v true 0
                          else if Nat.eqb a p then Node (n_val (nd s p)) (n_live (nd s p)) (S (len s))
                          else nd s a).
  { intros a. rewrite nd_app1, Hl1. destruct (Nat.eqb a (S (len s))); [reflexivity|].
    unfold s1. rewrite nd_setn by assumption. reflexivity. }
  assert (Hlv : forall a, a <> S (len s) -> live (app1 s1 (Node v true 0)) a = live s a).
  { intros a Ha. unfold live. rewrite Hnd.
    destruct (Nat.eqb_spec a (S (len s))) as [->|_]; [congruence|].
    destruct (Nat.eqb_spec a p) as [->|_]; reflexivity. }
  assert (Hn : forall a, nxt (app1 s1 (Node v true 0)) a =
                         if Nat.eqb a (S (len s)) then 0
                         else if Nat.eqb a p then S (len s) else nxt s a).
  { intros a. unfold nxt. rewrite Hnd.
    destruct (Nat.eqb a (S (len s))); [reflexivity|]. destruct (Nat.eqb a p); reflexivity. }
  pose proof (qi_head _ HI) as Hhd. pose proof (qi_tail _ HI) as Htl.
  split; [|split; [|exact Hl]].
  - constructor; unfold inr, db in *; rewrite ?Hl, ?Hh, ?Ht; try lia.
    + intros a Ha. rewrite Hn.
      destruct (Nat.eqb_spec a (S (len s))) as [->|N1]; [left; reflexivity|].
      destruct (Nat.eqb_spec a p) as [->|N2]; [right; right; lia|].
      destruct (qi_next _ HI a) as [H|[H|H]]; unfold inr; try lia.
    + intros a Ha. rewrite Hn.
      destruct (Nat.eqb_spec a (S (len s))) as [->|N1]; [tauto|].
      destruct (Nat.eqb_spec a p) as [->|N2]; [lia|].
      pose proof (qi_last _ HI a) as H. unfold inr in H. lia.
    + intros a H1 H2. rewrite Hlv by lia. apply (qi_dead _ HI); assumption.
    + intros a Ha. rewrite Hn.
      destruct (Nat.eqb_spec a (S (len s))) as [->|N1]; [lia|].
      destruct (Nat.eqb_spec a p) as [->|N2]; [lia|].
      apply (qi_self _ HI). unfold inr; lia.
    + intros a c Ha H1. rewrite Hn.
      destruct (Nat.eqb_spec a (S (len s))) as [->|N1]; [lia|].
      destruct (Nat.eqb_spec a p) as [->|N2]; [lia|].
      intros H2.
      assert (Hin : inr s a) by (unfold inr; lia).
      destruct (qi_next _ HI a Hin) as [H|[H|H]]; try lia.
      rewrite Hlv by lia. apply (qi_skip _ HI a c); assumption.
  - constructor; try lia.
    + intros a Ha Hd. rewrite Hlv; [exact Hd|unfold inr in Ha; lia].
    + intros a Ha. unfold val. rewrite Hnd.
      destruct (Nat.eqb_spec a (S (len s))) as [->|_]; [unfold inr in Ha; lia|].
      destruct (Nat.eqb_spec a p) as [->|_]; reflexivity.
Qed.

Lemma nd_sethead s x t a : nd (QS (q_nodes s) x t) a = nd s a.
Proof. unfold nd, getn; destruct a; reflexivity. Qed.

Lemma QInv_sethead s x :
  QInv s -> q_head s < x -> x <= len s -> db s x ->
  let s' := QS (q_nodes s) x (q_tail s) in
  QInv s' /\ sh_le s s'.
Proof.
  intros HI H1 H2 Hd s'.
  assert (Hlv : forall a, live s' a = live s a) by (intros a; unfold live, s'; rewrite nd_sethead; reflexivity).
  assert (Hn : forall a, nxt s' a = nxt s a) by (intros a; unfold nxt, s'; rewrite nd_sethead; reflexivity).
  assert (Hl : len s' = len s) by reflexivity.
  pose proof (qi_head _ HI) as Hhd.
  split.
  - constructor; unfold inr, db in *; rewrite ?Hl; simpl q_head; simpl q_tail; try lia.
    + apply (qi_tail _ HI).
    + intros a Ha. rewrite Hn. apply (qi_next _ HI). exact Ha.
    + intros a Ha. rewrite Hn. apply (qi_last _ HI). exact Ha.
    + intros a A1 A2. rewrite Hlv. apply Hd; assumption.
    + intros a Ha. rewrite Hn. intros E. pose proof (qi_self _ HI a Ha E). lia.
    + intros a c Ha A1. rewrite Hn, Hlv. apply (qi_skip _ HI a c); assumption.
  - constructor; simpl; try lia; [intros a _; rewrite Hlv; auto|].
    intros a _. unfold val, s'. rewrite nd_sethead. reflexivity.
Qed.

Lemma QInv_settail s n :
  QInv s -> inr s n ->
  let s' := QS (q_nodes s) (q_head s) n in
  QInv s' /\ sh_le s s'.
Proof.
  intros HI Hn' s'.
  assert (Hlv : forall a, live s' a = live s a) by (intros a; unfold live, s'; rewrite nd_sethead; reflexivity).
  assert (Hn : forall a, nxt s' a = nxt s a) by (intros a; unfold nxt, s'; rewrite nd_sethead; reflexivity).
  assert (Hl : len s' = len s) by reflexivity.
  split.
  - constructor; unfold inr, db in *; rewrite ?Hl; simpl q_head; simpl q_tail.
    + apply (qi_ne _ HI).
    + apply (qi_head _ HI).
    + exact Hn'.
    + intros a Ha. rewrite Hn. apply (qi_next _ HI). exact Ha.
    + intros a Ha. rewrite Hn. apply (qi_last _ HI). exact Ha.
    + intros a A1 A2. rewrite Hlv. apply (qi_dead _ HI); assumption.
    + intros a Ha. rewrite Hn. apply (qi_self _ HI). exact Ha.
    + intros a c Ha A1. rewrite Hn, Hlv. apply (qi_skip _ HI a c); assumption.
  - constructor; simpl; try lia; [intros a _; rewrite Hlv; auto|].
    intros a _. unfold val, s'. rewrite nd_sethead. reflexivity.
Qed.

(** ** Per-thread assertions on the registers held in the program counter *)

Definition k_ok (s : qshared) (k : cont) : Prop :=
  match k with KRet _ => True | KSize p => inr s p end.

Definition pc_ok (s : qshared) (c : pc) : Prop :=
  match c with
  | Inv _ | OTail _ | OReTailOff _ _ _ | OHead _ _ | PHead | SHead _ => True
  | ONext _ _ p | OCasNext _ _ p => inr s p
  | OCasTail _ n => inr s n
  | OReTailHop _ _ _ q => inr s q
  | PItem h p | PCasItem h p => 1 <= h /\ h <= p /\ p <= len s /\ db s p
  | PNextAfter h p _ => 1 <= h /\ h < p /\ p <= len s /\ db s (S p)
  | PNext h p => 1 <= h /\ h <= p /\ p <= len s /\ db s (S p)
  | UCasHead h x k => 1 <= h /\ h < x /\ x <= len s /\ db s x /\ k_ok s k
  | USetNext h k => 1 <= h /\ h < q_head s /\ k_ok s k
  | SItem _ h p => 1 <= h /\ h <= p /\ p <= len s /\ db s p
  | SNext _ h p => 1 <= h /\ h <= p /\ p <= len s /\ db s (S p)
  | ZItem p _ | ZNext p _ => inr s p
  | NSucc1 pred => inr s pred
  | NHead1 pred => 1 <= pred /\ pred < q_head s
  | NItem pred p => 1 <= pred /\ pred < p /\ p <= len s
  | NSucc2 pred p _ => 1 <= pred /\ pred < p /\ p <= len s /\ live s p = false
  | NHead2 pred p _ => 1 <= pred /\ pred < p /\ p < q_head s
  | NCas pred p q _ =>
      1 <= pred /\ pred < p /\ p < q /\ q <= len s /\
      (forall c, p <= c -> c < q -> live s c = false)
  | RSet l => inr s l
  end.

(** the iterator object owned by a thread only holds nil or valid addresses *)
Definition it_ok (s : qshared) (it : qiter) : Prop :=
  (it_node it = 0 \/ inr s (it_node it)) /\ (it_last it = 0 \/ inr s (it_last it)).

Lemma k_ok_le s s' k : sh_le s s' -> k_ok s k -> k_ok s' k.
Proof. intros H. destruct k; simpl; [auto|apply inr_le; assumption]. Qed.

Lemma it_ok_le s s' it : sh_le s s' -> it_ok s it -> it_ok s' it.
Proof.
  intros H [[A|A] [B|B]]; split; auto; right; eapply inr_le; eauto.
Qed.

Lemma pc_ok_le s s' c : sh_le s s' -> pc_ok s c -> pc_ok s' c.
Proof.
  intros H. pose proof (le_len _ _ H) as Hl. pose proof (le_head _ _ H) as Hh.
  destruct c; simpl; auto; try (apply inr_le; assumption).
  - intros (A & B & C & D). repeat split; try lia. apply (db_le s); auto; lia.
  - intros (A & B & C & D). repeat split; try lia. apply (db_le s); auto; lia.
  - intros (A & B & C & D). repeat split; try lia. apply (db_le s); auto; lia.
  - intros (A & B & C & D). repeat split; try lia. apply (db_le s); auto; lia.
  - intros (A & B & C & D & E). repeat split; try lia.
    + apply (db_le s); auto; lia.
    + eapply k_ok_le; eauto.
  - intros (A & B & C). repeat split; try lia. eapply k_ok_le; eauto.
  - intros (A & B & C & D). repeat split; try lia. apply (db_le s); auto; lia.
  - intros (A & B & C & D). repeat split; try lia. apply (db_le s); auto; lia.
  - intros (A & B). split; lia.
  - intros (A & B & C). repeat split; lia.
  - intros (A & B & C & D). repeat split; try lia. apply (le_dead _ _ H); [unfold inr; lia|exact D].
  - intros (A & B & C). repeat split; lia.
  - intros (A & B & C & D & E). repeat split; try lia.
    intros c Hc1 Hc2. apply (le_dead _ _ H); [unfold inr; lia|]. apply E; assumption.
Qed.

(** ** One step of one thread *)

Definition out_ok (s : qshared) (o : qout) : Prop :=
  match o with
  | Next l' s' => QInv s' /\ sh_le s s' /\ pc_ok s' (l_pc l') /\ it_ok s' (l_it l')
  | Done _ ts s' => QInv s' /\ sh_le s s' /\ it_ok s' ts
  | Blocked => False
  | Fault => False
  end.

Lemma ok_goto' s s' it c :
  QInv s' -> sh_le s s' -> pc_ok s' c -> it_ok s it -> out_ok s (goto it c s').
Proof.
  intros HI Hle Hpc Hit. simpl. split; [exact HI|split; [exact Hle|split; [exact Hpc|]]].
  eapply it_ok_le; eauto.
Qed.

Lemma ok_goto s it c : QInv s -> pc_ok s c -> it_ok s it -> out_ok s (goto it c s).
Proof. intros HI Hpc Hit. apply ok_goto'; auto using sh_le_refl. Qed.

Lemma ok_done' s s' it r :
  QInv s' -> sh_le s s' -> it_ok s' it -> out_ok s (done it r s').
Proof. intros HI Hle Hit. simpl. split; [exact HI|split; [exact Hle|exact Hit]]. Qed.

Lemma ok_done s it r : QInv s -> it_ok s it -> out_ok s (done it r s).
Proof. intros HI Hit. apply ok_done'; auto using sh_le_refl. Qed.

Lemma ok_finish' s s' it k :
  QInv s' -> sh_le s s' -> k_ok s' k -> it_ok s it -> out_ok s (finish it k s').
Proof.
  intros HI Hle Hk Hit. destruct k; simpl finish.
  - apply ok_done'; auto. eapply it_ok_le; eauto.
  - apply ok_goto'; auto.
Qed.

Lemma ok_update_head s it h x k :
  QInv s -> 1 <= h -> h <= x -> x <= len s -> db s x -> k_ok s k -> it_ok s it ->
  out_ok s (update_head it h x k s).
Proof.
  intros HI H1 H2 H3 Hd Hk Hit. unfold update_head.
  destruct (Nat.eqb_spec h x) as [->|Hne].
  - apply ok_finish'; auto using sh_le_refl.
  - apply ok_goto; auto. simpl. repeat split; auto; lia.
Qed.

Lemma ok_nloop s it pred p v :
  QInv s -> 1 <= pred -> (p = 0 \/ (pred < p /\ p <= len s)) -> it_ok s it ->
  out_ok s (nloop it pred p v s).
Proof.
  intros HI H1 Hp Hit. unfold nloop. destruct p as [|p].
  - apply ok_done; auto. destruct Hit as [_ B]. split; simpl; auto.
  - apply ok_goto; auto. simpl. lia.
Qed.

Lemma ok_after_succ s it pred p q v :
  QInv s -> 1 <= pred -> pred < p ->
  (q = 0 \/ (p < q /\ q <= len s /\ forall c, p <= c -> c < q -> live s c = false)) ->
  it_ok s it -> out_ok s (after_succ it pred p q v s).
Proof.
  intros HI H1 H2 Hq Hit. unfold after_succ. destruct q as [|q].
  - apply ok_nloop; auto.
  - apply ok_goto; auto. simpl. destruct Hq as [Hq|(A & B & C)]; [discriminate|].
    repeat split; auto; lia.
Qed.

(** hopping over a dead node keeps "everything before the cursor is dead" *)
Lemma db_hop s p :
  QInv s -> inr s p -> db s (S p) -> p < nxt s p -> db s (nxt s p).
Proof.
  intros HI Hp Hd Hlt a A1 A2.
  destruct (Nat.lt_ge_cases a (S p)) as [L|G].
  - apply Hd; assumption.
  - apply (qi_skip _ HI p a); auto.
Qed.

Lemma db_S s p : db s p -> live s p = false -> db s (S p).
Proof.
  intros Hd Hp a A1 A2. destruct (Nat.eq_dec a p) as [->|N]; [exact Hp|]. apply Hd; lia.
Qed.

Lemma db_live_S s p : db s (S p) -> 1 <= p -> live s p = false.
Proof. intros H Hp. apply H; lia. Qed.

Lemma nxt_fwd s p :
  QInv s -> inr s p -> nxt s p <> 0 -> p <> nxt s p -> p < nxt s p /\ nxt s p <= len s.
Proof.
  intros HI Hp H0 H1. destruct (qi_next _ HI p Hp) as [H|[H|H]]; [congruence|congruence|exact H].
Qed.

Lemma qstep_ok l s :
  QInv s -> pc_ok s (l_pc l) -> it_ok s (l_it l) -> out_ok s (qstep l s).
Proof.
  intros HI Hpc Hit. destruct l as [c it]. simpl in Hpc, Hit.
  pose proof (qi_head _ HI) as Hhd. pose proof (qi_tail _ HI) as Htl.
  pose proof (qi_dead _ HI) as Hdd.
  destruct c; unfold qstep; cbn [l_pc l_it].
  - (* Inv *)
    destruct o; cbn [l_pc l_it].
    + destruct (Nat.eqb v 0); [apply ok_done|apply ok_goto]; simpl; auto.
    + apply ok_goto; simpl; auto.
    + apply ok_goto; simpl; auto.
    + apply ok_goto; simpl; auto.
    + apply ok_goto; simpl; auto.
    + apply ok_goto; simpl; auto. split; left; reflexivity.
    + apply ok_done; auto.
    + destruct (it_node it) as [|n] eqn:E.
      * apply ok_done; auto.
      * assert (Hn : inr s (S n)) by (destruct Hit as [[Hn|Hn] _]; [congruence|rewrite E in Hn; exact Hn]).
        apply ok_goto; simpl; auto. split; simpl; right; rewrite ?E; exact Hn.
    + destruct (it_last it) as [|n] eqn:E.
      * apply ok_done; auto.
      * assert (Hl : inr s (S n)) by (destruct Hit as [_ [Hl|Hl]]; [congruence|rewrite E in Hl; exact Hl]).
        apply ok_goto; simpl; auto.
  - (* OTail *) apply ok_goto; simpl; auto.
  - (* ONext *)
    rewrite (getn_inr s p Hpc). fold (nxt s p).
    destruct (Nat.eqb_spec (nxt s p) 0) as [E0|N0]; [apply ok_goto; simpl; auto|].
    destruct (Nat.eqb_spec p (nxt s p)) as [E1|N1]; [apply ok_goto; simpl; auto|].
    destruct (nxt_fwd s p HI Hpc N0 N1) as [A B].
    destruct (negb (Nat.eqb p t)); apply ok_goto; simpl; auto; unfold inr; lia.
  - (* OCasNext *)
    rewrite (getn_inr s p Hpc). fold (nxt s p).
    destruct (Nat.eqb_spec (nxt s p) 0) as [E0|N0]; [|apply ok_goto; simpl; auto].
    destruct (QInv_append s p v HI Hpc E0) as (HI' & Hle & Hlen).
    destruct (Nat.eqb p t).
    + apply ok_done'; auto. eapply it_ok_le; eauto.
    + apply ok_goto'; auto. simpl. unfold inr. rewrite Hlen. unfold len. lia.
  - (* OCasTail *)
    destruct (Nat.eqb (q_tail s) t).
    + destruct (QInv_settail s n HI Hpc) as [HI' Hle].
      apply ok_done'; auto.
    + apply ok_done; auto.
  - (* OReTailOff *)
    destruct (Nat.eqb t (q_tail s)); apply ok_goto; simpl; auto.
  - (* OHead *) apply ok_goto; simpl; auto.
  - (* OReTailHop *)
    destruct (Nat.eqb t (q_tail s)); apply ok_goto; simpl; auto.
  - (* PHead *)
    apply ok_goto; simpl; auto. unfold inr in Hhd. repeat split; auto; lia.
  - (* PItem *)
    destruct Hpc as (A & B & C & D).
    assert (Hp : inr s p) by (unfold inr; lia).
    rewrite (getn_inr s p Hp). fold (live s p).
    destruct (live s p) eqn:El; apply ok_goto; simpl; auto.
    repeat split; auto. apply db_S; assumption.
  - (* PCasItem *)
    destruct Hpc as (A & B & C & D).
    assert (Hp : inr s p) by (unfold inr; lia).
    rewrite (getn_inr s p Hp). fold (live s p).
    destruct (live s p) eqn:El.
    + destruct (QInv_kill s p HI Hp) as [HI' Hle].
      destruct (Nat.eqb_spec p h) as [E|N].
      * apply ok_done'; auto. eapply it_ok_le; eauto.
      * apply ok_goto'; auto. simpl. rewrite len_setn.
        repeat split; auto; try lia.
        apply db_S; [apply (db_le s); auto; lia|].
        unfold live. rewrite nd_setn, Nat.eqb_refl by assumption. reflexivity.
    + apply ok_goto; simpl; auto. repeat split; auto. apply db_S; assumption.
  - (* PNextAfter *)
    destruct Hpc as (A & B & C & D).
    assert (Hp : inr s p) by (unfold inr; lia).
    rewrite (getn_inr s p Hp). fold (nxt s p).
    destruct (Nat.eqb_spec (nxt s p) 0) as [E0|N0].
    + apply ok_update_head; simpl; auto; try lia. intros a A1 A2. apply D; lia.
    + destruct (Nat.eq_dec p (nxt s p)) as [E1|N1].
      * rewrite <- E1. apply ok_update_head; simpl; auto; try lia. intros a A1 A2. apply D; lia.
      * destruct (nxt_fwd s p HI Hp N0 N1) as [F G].
        apply ok_update_head; simpl; auto; try lia. apply db_hop; auto.
  - (* PNext *)
    destruct Hpc as (A & B & C & D).
    assert (Hp : inr s p) by (unfold inr; lia).
    rewrite (getn_inr s p Hp). fold (nxt s p).
    destruct (Nat.eqb_spec (nxt s p) 0) as [E0|N0].
    + apply ok_update_head; simpl; auto; try lia. intros a A1 A2. apply D; lia.
    + destruct (Nat.eqb_spec p (nxt s p)) as [E1|N1]; [apply ok_goto; simpl; auto|].
      destruct (nxt_fwd s p HI Hp N0 N1) as [F G].
      apply ok_goto; simpl; auto. repeat split; auto; try lia. apply db_hop; auto.
  - (* UCasHead *)
    destruct Hpc as (A & B & C & D & E).
    destruct (Nat.eqb_spec (q_head s) h) as [Eh|Nh].
    + destruct (QInv_sethead s x HI) as [HI' Hle]; auto; try lia.
      apply ok_goto'; auto. simpl. repeat split; auto; try lia.
    + apply ok_finish'; auto using sh_le_refl.
  - (* USetNext *)
    destruct Hpc as (A & B & C).
    assert (Hh : inr s h) by (unfold inr in *; lia).
    rewrite (getn_inr s h Hh).
    destruct (QInv_setnext s h h HI) as [HI' Hle]; auto; [unfold inr in *; lia|].
    apply ok_finish'; auto. eapply k_ok_le; eauto.
  - (* SHead *)
    apply ok_goto; simpl; auto. unfold inr in Hhd. repeat split; auto; lia.
  - (* SItem *)
    destruct Hpc as (A & B & C & D).
    assert (Hp : inr s p) by (unfold inr; lia).
    rewrite (getn_inr s p Hp). fold (live s p).
    destruct (live s p) eqn:El.
    + destruct k; unfold scan_end; cbv iota; apply ok_update_head; simpl; auto.
      split; simpl; auto.
    + apply ok_goto; simpl; auto. repeat split; auto. apply db_S; assumption.
  - (* SNext *)
    destruct Hpc as (A & B & C & D).
    assert (Hp : inr s p) by (unfold inr; lia).
    rewrite (getn_inr s p Hp). fold (nxt s p).
    destruct (Nat.eqb_spec (nxt s p) 0) as [E0|N0].
    + assert (Dp : db s p) by (intros a A1 A2; apply D; lia).
      destruct k; unfold scan_end; cbv iota; apply ok_update_head; simpl; auto.
    + destruct (Nat.eqb_spec p (nxt s p)) as [E1|N1]; [apply ok_goto; simpl; auto|].
      destruct (nxt_fwd s p HI Hp N0 N1) as [F G].
      apply ok_goto; simpl; auto. repeat split; auto; try lia. apply db_hop; auto.
  - (* ZItem *)
    rewrite (getn_inr s p Hpc).
    destruct (n_live (nd s p)).
    + destruct (N.eqb (N.succ cnt) max_int32); [apply ok_done|apply ok_goto]; simpl; auto.
    + apply ok_goto; simpl; auto.
  - (* ZNext *)
    rewrite (getn_inr s p Hpc). fold (nxt s p).
    destruct (Nat.eqb_spec p (nxt s p)) as [E1|N1]; [apply ok_goto; simpl; auto|].
    destruct (Nat.eqb_spec (nxt s p) 0) as [E0|N0]; [apply ok_done; auto|].
    destruct (nxt_fwd s p HI Hpc N0 N1) as [F G].
    apply ok_goto; simpl; auto. unfold inr; lia.
  - (* NSucc1 *)
    rewrite (getn_inr s pred Hpc). fold (nxt s pred).
    destruct (Nat.eqb_spec pred (nxt s pred)) as [E1|N1].
    + apply ok_goto; simpl; auto. split; [apply Hpc|]. apply (qi_self _ HI); auto.
    + apply ok_nloop; auto; [apply Hpc|].
      destruct (Nat.eq_dec (nxt s pred) 0) as [E0|N0]; [left; exact E0|right].
      apply nxt_fwd; auto.
  - (* NHead1 *)
    destruct Hpc as [A B]. apply ok_nloop; auto. right. unfold inr in Hhd. lia.
  - (* NItem *)
    destruct Hpc as (A & B & C).
    assert (Hp : inr s p) by (unfold inr; lia).
    rewrite (getn_inr s p Hp). fold (live s p).
    destruct (live s p) eqn:El.
    + apply ok_done; auto. destruct Hit as [_ Hl]. split; simpl; auto.
    + apply ok_goto; simpl; auto.
  - (* NSucc2 *)
    destruct Hpc as (A & B & C & D).
    assert (Hp : inr s p) by (unfold inr; lia).
    rewrite (getn_inr s p Hp). fold (nxt s p).
    destruct (Nat.eqb_spec p (nxt s p)) as [E1|N1].
    + apply ok_goto; simpl; auto. repeat split; auto. apply (qi_self _ HI); auto.
    + apply ok_after_succ; auto.
      destruct (Nat.eq_dec (nxt s p) 0) as [E0|N0]; [left; exact E0|right].
      destruct (nxt_fwd s p HI Hp N0 N1) as [F G]. repeat split; auto.
      intros c C1 C2. destruct (Nat.eq_dec c p) as [->|Nc]; [exact D|].
      apply (qi_skip _ HI p c); auto; lia.
  - (* NHead2 *)
    destruct Hpc as (A & B & C).
    apply ok_after_succ; auto. right. unfold inr in Hhd. repeat split; try lia.
    intros c C1 C2. apply Hdd; lia.
  - (* NCas *)
    destruct Hpc as (A & B & C & D & E).
    assert (Hp : inr s pred) by (unfold inr; lia).
    rewrite (getn_inr s pred Hp). fold (nxt s pred).
    destruct (Nat.eqb_spec (nxt s pred) p) as [E1|N1].
    + destruct (QInv_setnext s pred q HI) as [HI' Hle]; auto; try lia.
      { right. repeat split; try lia. intros c C1 C2.
        destruct (Nat.lt_ge_cases c p) as [L|G]; [|apply E; assumption].
        apply (qi_skip _ HI pred c); auto. lia. }
      unfold nloop. destruct q as [|q]; [lia|].
      apply ok_goto'; auto. simpl. rewrite len_setn. lia.
    + apply ok_nloop; auto. right; lia.
  - (* RSet *)
    rewrite (getn_inr s l Hpc).
    destruct (QInv_kill s l HI Hpc) as [HI' Hle].
    apply ok_done'; auto. destruct Hit as [Hn _]. split; simpl; auto.
    destruct Hn as [Hn|Hn]; [left; exact Hn|right; eapply inr_le; eauto].
Qed.

(** ** Lifting to configurations *)

Notation qcfg := (config qshared qiter qlocal qop).
Notation qthread := (thread qiter qlocal qop).

Definition thr_ok (s : qshared) (th : qthread) : Prop :=
  t_dead th = false /\ it_ok s (t_ts th) /\
  match t_cur th with
  | None => True
  | Some (_, l) => pc_ok s (l_pc l) /\ it_ok s (l_it l)
  end.

Definition CInv (c : qcfg) : Prop :=
  QInv (c_sh c) /\ forall t th, nth_error (c_thr c) t = Some th -> thr_ok (c_sh c) th.

Lemma thr_ok_le s s' th : sh_le s s' -> thr_ok s th -> thr_ok s' th.
Proof.
  intros H (A & B & C). split; [exact A|]. split; [eapply it_ok_le; eauto|].
  destruct (t_cur th) as [[o l]|]; [|exact I].
  destruct C as [C1 C2]. split; [eapply pc_ok_le; eauto|eapply it_ok_le; eauto].
Qed.

(** the local state a live thread steps from satisfies the assertions *)
Lemma view_ok s th o l fresh :
  thr_ok s th -> view jdk th = Some (o, l, fresh) -> pc_ok s (l_pc l) /\ it_ok s (l_it l).
Proof.
  intros (A & B & C). unfold view. rewrite A.
  destruct (t_cur th) as [[o' l']|].
  - intros E. injection E as <- <- <-. exact C.
  - destruct (t_prog th) as [|o' r]; [discriminate|].
    intros E. injection E as <- <- <-. simpl. split; [exact I|exact B].
Qed.

Lemma CInv_upd (c : qcfg) t th th' s' :
  CInv c -> nth_error (c_thr c) t = Some th -> QInv s' -> sh_le (c_sh c) s' ->
  thr_ok s' th' -> CInv (Config s' (upd (c_thr c) t th')).
Proof.
  intros [HI Hthr] Hn HI' Hle Hth'. split; [exact HI'|]. simpl.
  intros t' th0. rewrite nth_error_upd, Hn.
  destruct (Nat.eqb_spec t t') as [<-|Hne].
  - intros E. injection E as <-. exact Hth'.
  - intros E. eapply thr_ok_le; eauto.
Qed.

Lemma CInv_step c t :
  CInv c -> CInv (step_cfg jdk c t) /\ sh_le (c_sh c) (c_sh (step_cfg jdk c t)).
Proof.
  intros HC. pose proof HC as [HI Hthr].
  unfold step_cfg, step_thread.
  destruct (nth_error (c_thr c) t) as [th|] eqn:Hn; [|split; [exact HC|apply sh_le_refl]].
  destruct (view jdk th) as [[[o l] fresh]|] eqn:Hv; [|split; [exact HC|apply sh_le_refl]].
  destruct (view_ok _ _ _ _ _ (Hthr _ _ Hn) Hv) as [Hpc Hit].
  pose proof (qstep_ok l (c_sh c) HI Hpc Hit) as Hout.
  destruct (Hthr _ _ Hn) as (_ & Hts & _).
  change (m_step jdk l (c_sh c)) with (qstep l (c_sh c)).
  destruct (qstep l (c_sh c)) as [l' s'|r ts' s'| |]; simpl in Hout; try contradiction.
  - destruct Hout as (HI' & Hle & Hpc' & Hit'). split; [|exact Hle].
    eapply CInv_upd; eauto. split; [reflexivity|]. simpl. split; [eapply it_ok_le; eauto|].
    split; assumption.
  - destruct Hout as (HI' & Hle & Hit'). split; [|exact Hle].
    eapply CInv_upd; eauto. split; [reflexivity|]. simpl. split; [exact Hit'|exact I].
Qed.

Lemma QInv_init : QInv qinit.
Proof.
  constructor; unfold inr, db, len, qinit; simpl; try lia.
  - intros a Ha. assert (a = 1) by lia. subst. left. reflexivity.
  - intros a Ha. assert (a = 1) by lia. subst. unfold nxt; simpl. tauto.
  - intros a Ha. assert (a = 1) by lia. subst. unfold nxt; simpl. lia.
  - intros a c Ha. assert (a = 1) by lia. subst. unfold nxt; simpl. lia.
Qed.

Lemma CInv_init progs : CInv (jdk_init progs).
Proof.
  split; [apply QInv_init|]. simpl. intros t th H.
  apply nth_error_In in H. apply in_map_iff in H. destruct H as [p [<- _]].
  split; [reflexivity|]. simpl. split; [|exact I]. split; left; reflexivity.
Qed.

Lemma CInv_final progs sched : CInv (final jdk (jdk_init progs) sched).
Proof.
  apply (invariant_run jdk CInv).
  - apply CInv_init.
  - intros c t c' e HC Hs. pose proof (CInv_step c t HC) as [H _].
    unfold step_cfg in H. rewrite Hs in H. exact H.
Qed.

(** GOAL A: the structural invariant holds in every reachable configuration,
    and no thread ever faults (no nil dereference). *)
Theorem jdk_invariant : forall (progs : list (list qop)) (sched : list nat),
  QInv (c_sh (final jdk (jdk_init progs) sched)) /\
  (forall th, In th (c_thr (final jdk (jdk_init progs) sched)) -> t_dead th = false).
Proof.
  intros progs sched. destruct (CInv_final progs sched) as [HI Hthr]. split; [exact HI|].
  intros th Hin. apply In_nth_error in Hin. destruct Hin as [t Ht].
  exact (proj1 (Hthr _ _ Ht)).
Qed.

Print Assumptions jdk_invariant.

(** Monotonicity along every run from a configuration satisfying the
    invariant: the node list only grows, the head never moves backwards, dead
    items stay dead, node values never change. *)
Lemma CInv_run c sched :
  CInv c -> CInv (final jdk c sched) /\ sh_le (c_sh c) (c_sh (final jdk c sched)).
Proof.
  revert c. induction sched as [|t r IH]; intros c HC.
  - split; [exact HC|apply sh_le_refl].
  - rewrite final_cons. destruct (CInv_step c t HC) as [HC' Hle].
    destruct (IH _ HC') as [HC'' Hle']. split; [exact HC''|]. eapply sh_le_trans; eauto.
Qed.

Theorem jdk_monotone : forall progs sched1 sched2,
  sh_le (c_sh (final jdk (jdk_init progs) sched1))
        (c_sh (final jdk (jdk_init progs) (sched1 ++ sched2))).
Proof.
  intros progs sched1 sched2. rewrite final_app.
  apply CInv_run. apply CInv_final.
Qed.

Print Assumptions jdk_monotone.
