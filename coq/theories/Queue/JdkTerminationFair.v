(** Total termination of the lock-free JDK queue model [jdk], part 3:
    consequences of the potential function for fair schedules.

      [jdk_thread_finishes]       a thread that is scheduled [bound progs] times
                                  has finished its whole program (whatever the
                                  other threads do or do not do);
      (B) [jdk_fair_all_return]   every thread scheduled [bound progs] times =>
                                  every thread finished, every call returned;
      (C) [jdk_frozen_others_finish], [jdk_frozen_midway]
                                  one thread frozen forever at any atomic step:
                                  all the others still finish;
      [jdk_round_robin_finishes]  every schedule can be extended (by round-robin
                                  rounds) to one after which everybody has finished;
      [jdk_finished_all_returned] "finished" means: the calls returned, in program
                                  order, are exactly the thread's program. *)
From Coq Require Import List Arith Bool NArith Lia.
From Garr Require Import Conc.Conc Queue.JdkModel Queue.JdkInv Queue.JdkProgress
  Breaker.ConcBase Queue.JdkTermination Queue.JdkTerminationMain.
Import ListNotations.

(** ** Finished threads *)

Definition idle (th : qthread) : bool :=
  match t_prog th, t_cur th with
  | [], None => true
  | _, _ => false
  end.

Lemma idle_true th : idle th = true <-> t_prog th = [] /\ t_cur th = None.
Proof.
  unfold idle. destruct (t_prog th); destruct (t_cur th); split; intros H;
    try discriminate; try (destruct H; discriminate); auto.
Qed.

Lemma final_length (c : qcfg) sched : length (c_thr (final jdk c sched)) = length (c_thr c).
Proof.
  revert c. induction sched as [|t r IH]; intros c; [reflexivity|].
  rewrite final_cons, IH. apply step_cfg_length.
Qed.

(** a finished thread never moves again *)
Lemma idle_step (c : qcfg) u t th :
  nth_error (c_thr c) t = Some th -> idle th = true ->
  nth_error (c_thr (step_cfg jdk c u)) t = Some th.
Proof.
  intros Hn Hi. destruct (Nat.eq_dec t u) as [->|Hne].
  - unfold step_cfg, step_thread. rewrite Hn.
    apply idle_true in Hi. destruct Hi as [Hp Hc].
    unfold view. rewrite Hc, Hp. destruct (t_dead th); exact Hn.
  - rewrite step_cfg_other by assumption. exact Hn.
Qed.

Lemma idle_final (c : qcfg) sched t th :
  nth_error (c_thr c) t = Some th -> idle th = true ->
  nth_error (c_thr (final jdk c sched)) t = Some th.
Proof.
  revert c. induction sched as [|u r IH]; intros c Hn Hi; [exact Hn|].
  rewrite final_cons. apply IH; [|exact Hi]. apply idle_step; assumption.
Qed.

(** an unfinished thread can always step (no operation ever waits) *)
Lemma unfinished_enabled N (c : qcfg) t th :
  TInv N c -> nth_error (c_thr c) t = Some th -> idle th = false ->
  exists c' e, step_thread jdk c t = Some (c', e).
Proof.
  intros [[HI Hthr] _ _] Hn Hi. destruct (Hthr _ _ Hn) as (Hd & _).
  unfold step_thread. rewrite Hn. unfold view. rewrite Hd.
  assert (Hv : exists o l fresh,
             match t_cur th with
             | Some (o, l) => Some (o, l, false)
             | None => match t_prog th with
                       | [] => None
                       | o :: _ => Some (o, m_start jdk (t_ts th) o, true)
                       end
             end = Some (o, l, fresh)).
  { unfold idle in Hi. destruct (t_cur th) as [[o l]|]; [eauto|].
    destruct (t_prog th) as [|o r]; [discriminate|eauto]. }
  destruct Hv as (o & l & fresh & ->).
  change (m_step jdk l (c_sh c)) with (qstep l (c_sh c)).
  pose proof (jdk_never_blocks l (c_sh c)) as Hnb.
  destruct (qstep l (c_sh c)); try contradiction; eauto.
Qed.

(** an unfinished thread holds at least one unit of potential *)
Lemma unfinished_Phi N (c : qcfg) t th :
  nth_error (c_thr c) t = Some th -> idle th = false -> 1 <= Phi N c.
Proof.
  intros Hn Hi. unfold Phi.
  pose proof (tsum_ge (thr_tau N (c_sh c)) _ _ _ Hn) as H.
  assert (1 <= thr_tau N (c_sh c) th); [|lia].
  unfold thr_tau, thr_P, idle in *.
  destruct (t_cur th) as [[o l]|]; [lia|].
  destruct (t_prog th) as [|o r]; [discriminate|]. simpl. lia.
Qed.

(** every schedule entry naming a thread that is still unfinished at the end
    is a step actually taken, and costs one unit of potential *)
Lemma occ_Phi N : forall sched (c : qcfg) t th,
  TInv N c ->
  nth_error (c_thr (final jdk c sched)) t = Some th -> idle th = false ->
  count_occ Nat.eq_dec sched t + Phi N (final jdk c sched) <= Phi N c.
Proof.
  induction sched as [|u r IH]; intros c t th HT Hn Hi.
  - simpl. rewrite final_nil. lia.
  - rewrite final_cons in *. unfold step_cfg in *.
    destruct (step_thread jdk c u) as [[c' e]|] eqn:Hs.
    + destruct (TInv_Phi_step N c u c' e HT Hs) as [HT' Hlt].
      pose proof (IH c' t th HT' Hn Hi) as H.
      cbn [count_occ]. destruct (Nat.eq_dec u t); lia.
    + pose proof (IH c t th HT Hn Hi) as H.
      cbn [count_occ]. destruct (Nat.eq_dec u t) as [->|Hne]; [exfalso|lia].
      destruct (nth_error (c_thr c) t) as [th0|] eqn:Hn0.
      * destruct (idle th0) eqn:Hi0.
        -- pose proof (idle_final c r t th0 Hn0 Hi0) as Hf. congruence.
        -- destruct (unfinished_enabled N c t th0 HT Hn0 Hi0) as (c' & e & Hs'). congruence.
      * apply nth_error_None in Hn0.
        assert (t < length (c_thr (final jdk c r))) by (apply nth_error_Some; congruence).
        rewrite final_length in *. lia.
Qed.

Definition finished (th : qthread) : Prop :=
  t_prog th = [] /\ t_cur th = None /\ t_dead th = false.

(** ** A thread that is scheduled [bound progs] times finishes its program *)

Theorem jdk_thread_finishes : forall (progs : list (list qop)) (sched : list nat) t th,
  bound progs <= count_occ Nat.eq_dec sched t ->
  nth_error (c_thr (final jdk (jdk_init progs) sched)) t = Some th ->
  finished th.
Proof.
  intros progs sched t th Hocc Hn.
  pose proof (TInv_init progs) as HT.
  destruct (steps_Phi (nodes_max progs) sched _ HT) as [HT' _].
  destruct (idle th) eqn:Hi.
  - apply idle_true in Hi. destruct Hi as [Hp Hc]. split; [exact Hp|]. split; [exact Hc|].
    destruct HT' as [[_ Hthr] _ _]. destruct (Hthr _ _ Hn) as (Hd & _). exact Hd.
  - exfalso.
    pose proof (occ_Phi (nodes_max progs) sched _ t th HT Hn Hi) as H.
    pose proof (unfinished_Phi (nodes_max progs) _ t th Hn Hi) as H1.
    rewrite Phi_init in H. lia.
Qed.

(** ** (B) under every fair schedule every operation returns *)

Theorem jdk_fair_all_return : forall (progs : list (list qop)) (sched : list nat),
  (forall t, t < length progs -> bound progs <= count_occ Nat.eq_dec sched t) ->
  forall t th, nth_error (c_thr (final jdk (jdk_init progs) sched)) t = Some th ->
    t_prog th = [] /\ t_cur th = None /\ t_dead th = false.
Proof.
  intros progs sched Hfair t th Hn.
  apply (jdk_thread_finishes progs sched t th); [|exact Hn].
  apply Hfair.
  assert (H : t < length (c_thr (final jdk (jdk_init progs) sched))) by (apply nth_error_Some; congruence).
  rewrite final_length in H. unfold jdk_init, init in H. cbn [c_thr] in H.
  rewrite map_length in H. exact H.
Qed.

(** ** (C) one thread frozen forever: all the others still finish *)

Theorem jdk_frozen_others_finish : forall (progs : list (list qop)) (f : nat) (sched : list nat),
  (forall t, t < length progs -> t <> f -> bound progs <= count_occ Nat.eq_dec sched t) ->
  forall t th, t <> f ->
    nth_error (c_thr (final jdk (jdk_init progs) sched)) t = Some th ->
    t_prog th = [] /\ t_cur th = None /\ t_dead th = false.
Proof.
  intros progs f sched Hfair t th Hne Hn.
  apply (jdk_thread_finishes progs sched t th); [|exact Hn].
  apply Hfair; [|exact Hne].
  assert (H : t < length (c_thr (final jdk (jdk_init progs) sched))) by (apply nth_error_Some; congruence).
  rewrite final_length in H. unfold jdk_init, init in H. cbn [c_thr] in H.
  rewrite map_length in H. exact H.
Qed.

Lemma frozen_untouched (c : qcfg) sched f :
  ~ In f sched -> nth_error (c_thr (final jdk c sched)) f = nth_error (c_thr c) f.
Proof.
  revert c. induction sched as [|u r IH]; intros c Hnin; [reflexivity|].
  rewrite final_cons, IH.
  - apply step_cfg_other. intros ->. apply Hnin. left. reflexivity.
  - intros H. apply Hnin. right. exact H.
Qed.

Lemma count_occ_app_ge (s1 s2 : list nat) t :
  count_occ Nat.eq_dec s2 t <= count_occ Nat.eq_dec (s1 ++ s2) t.
Proof. rewrite count_occ_app. lia. Qed.

(** the thread [f] is suspended after an arbitrary prefix [s1] - at any atomic
    step inside any call - and never scheduled again: it stays exactly where
    it was, and every other thread that gets [bound progs] turns finishes. *)
Theorem jdk_frozen_midway : forall (progs : list (list qop)) (f : nat) (s1 s2 : list nat),
  ~ In f s2 ->
  (forall t, t < length progs -> t <> f -> bound progs <= count_occ Nat.eq_dec s2 t) ->
  let c := final jdk (jdk_init progs) (s1 ++ s2) in
  nth_error (c_thr c) f = nth_error (c_thr (final jdk (jdk_init progs) s1)) f /\
  forall t th, t <> f -> nth_error (c_thr c) t = Some th ->
    t_prog th = [] /\ t_cur th = None /\ t_dead th = false.
Proof.
  intros progs f s1 s2 Hnin Hfair c. split.
  - unfold c. rewrite final_app. apply frozen_untouched. exact Hnin.
  - apply jdk_frozen_others_finish. intros t Ht Hne.
    apply (Nat.le_trans _ (count_occ Nat.eq_dec s2 t)); [apply Hfair; assumption|apply count_occ_app_ge].
Qed.

(** ** Every schedule can be extended to a complete one *)

Fixpoint rounds (T k : nat) : list nat :=
  match k with
  | O => []
  | S k' => seq 0 T ++ rounds T k'
  end.

Lemma count_occ_seq a n t : a <= t < a + n -> 1 <= count_occ Nat.eq_dec (seq a n) t.
Proof.
  intros H. assert (Hin : In t (seq a n)) by (apply in_seq; exact H).
  apply (count_occ_In Nat.eq_dec) in Hin. lia.
Qed.

Lemma count_occ_rounds T k t : t < T -> k <= count_occ Nat.eq_dec (rounds T k) t.
Proof.
  intros Ht. induction k as [|k IH]; simpl; [lia|].
  rewrite count_occ_app. pose proof (count_occ_seq 0 T t). lia.
Qed.

Theorem jdk_round_robin_finishes : forall (progs : list (list qop)) (sched : list nat),
  let c := final jdk (jdk_init progs) (sched ++ rounds (length progs) (bound progs)) in
  forall t th, nth_error (c_thr c) t = Some th ->
    t_prog th = [] /\ t_cur th = None /\ t_dead th = false.
Proof.
  intros progs sched c. apply jdk_fair_all_return.
  intros t Ht.
  apply (Nat.le_trans _ (count_occ Nat.eq_dec (rounds (length progs) (bound progs)) t));
    [apply count_occ_rounds; exact Ht|apply count_occ_app_ge].
Qed.

(** ** "Finished" = every call of the program has returned, in program order *)

Fixpoint ret_ops (t : nat) (evs : list (event qop qret)) : list qop :=
  match evs with
  | [] => []
  | ERet u o _ :: r => if Nat.eqb u t then o :: ret_ops t r else ret_ops t r
  | _ :: r => ret_ops t r
  end.

Lemma ret_ops_app t e1 e2 : ret_ops t (e1 ++ e2) = ret_ops t e1 ++ ret_ops t e2.
Proof.
  induction e1 as [|x e1 IH]; [reflexivity|]. destruct x as [u o|u o r|u o]; simpl; auto.
  destruct (Nat.eqb u t); simpl; rewrite IH; reflexivity.
Qed.

(** calls of a thread that have not returned yet *)
Definition todo (th : qthread) : list qop :=
  match t_cur th with Some (o, _) => [o] | None => [] end ++ t_prog th.

Definition todo_at (c : qcfg) (t : nat) : list qop :=
  match nth_error (c_thr c) t with Some th => todo th | None => [] end.

Lemma todo_step (c : qcfg) u t :
  CInv c -> ret_ops t (step_evs jdk c u) ++ todo_at (step_cfg jdk c u) t = todo_at c t.
Proof.
  intros [HI Hthr]. unfold step_evs, step_cfg, step_thread.
  destruct (nth_error (c_thr c) u) as [th|] eqn:Hn; [|reflexivity].
  destruct (view jdk th) as [[[o l] fresh]|] eqn:Hv; [|reflexivity].
  destruct (view_ok _ _ _ _ _ (Hthr _ _ Hn) Hv) as [Hpc Hit].
  pose proof (qstep_ok l (c_sh c) HI Hpc Hit) as Hout.
  change (m_step jdk l (c_sh c)) with (qstep l (c_sh c)).
  assert (Htodo : todo th = o :: rest_prog th fresh).
  { unfold view in Hv. destruct (t_dead th); [discriminate|]. unfold todo, rest_prog.
    destruct (t_cur th) as [[o' l']|].
    - injection Hv as <- <- <-. reflexivity.
    - destruct (t_prog th) as [|o' r]; [discriminate|]. injection Hv as <- <- <-. reflexivity. }
  assert (Hinv : ret_ops t (if fresh then [EInv u o] else []) = []) by (destruct fresh; reflexivity).
  destruct (qstep l (c_sh c)) as [l' s'|r ts' s'| |]; simpl in Hout; try contradiction.
  - rewrite Hinv. unfold todo_at. cbn [c_thr]. rewrite nth_error_upd, Hn.
    destruct (Nat.eqb_spec u t) as [->|Hne]; [|reflexivity].
    rewrite Hn, Htodo. reflexivity.
  - rewrite ret_ops_app, Hinv. unfold todo_at. cbn [c_thr]. rewrite nth_error_upd, Hn.
    simpl. destruct (Nat.eqb_spec u t) as [->|Hne]; [|reflexivity].
    rewrite Hn, Htodo. reflexivity.
Qed.

Lemma todo_run : forall sched (c : qcfg) t,
  CInv c -> ret_ops t (trace jdk c sched) ++ todo_at (final jdk c sched) t = todo_at c t.
Proof.
  induction sched as [|u r IH]; intros c t HC; [reflexivity|].
  rewrite trace_cons, final_cons, ret_ops_app, <- app_assoc.
  rewrite IH by (apply CInv_step; exact HC). apply todo_step. exact HC.
Qed.

(** the calls returned by thread [t] so far, followed by its call in progress
    and the calls it has not started yet, are exactly its program *)
Theorem jdk_returns_prefix : forall (progs : list (list qop)) (sched : list nat) t p,
  nth_error progs t = Some p ->
  ret_ops t (trace jdk (jdk_init progs) sched) ++ todo_at (final jdk (jdk_init progs) sched) t = p.
Proof.
  intros progs sched t p Hp. rewrite todo_run by apply CInv_init.
  unfold todo_at, jdk_init, init. cbn [c_thr]. rewrite nth_error_map, Hp. reflexivity.
Qed.

(** hence: once thread [t] has been scheduled [bound progs] times, every
    operation of its program has returned (and nothing else has) *)
Theorem jdk_finished_all_returned : forall (progs : list (list qop)) (sched : list nat) t p,
  nth_error progs t = Some p ->
  bound progs <= count_occ Nat.eq_dec sched t ->
  ret_ops t (trace jdk (jdk_init progs) sched) = p.
Proof.
  intros progs sched t p Hp Hocc.
  pose proof (jdk_returns_prefix progs sched t p Hp) as H.
  unfold todo_at in H.
  destruct (nth_error (c_thr (final jdk (jdk_init progs) sched)) t) as [th|] eqn:Hn.
  - destruct (jdk_thread_finishes progs sched t th Hocc Hn) as (H1 & H2 & _).
    unfold todo in H. rewrite H1, H2 in H. simpl in H. rewrite app_nil_r in H. exact H.
  - rewrite app_nil_r in H. exact H.
Qed.

(** ** Infinite schedules *)

(** an infinite schedule is a function [sigma : nat -> nat]; its prefixes are
    ordinary schedules *)
Definition prefix (sigma : nat -> nat) (n : nat) : list nat := map sigma (seq 0 n).

(** thread [t] is scheduled again and again *)
Definition inf_often (sigma : nat -> nat) (t : nat) : Prop :=
  forall n, exists m, n <= m /\ sigma m = t.

Lemma prefix_S sigma n : prefix sigma (S n) = prefix sigma n ++ [sigma n].
Proof. unfold prefix. rewrite seq_S, map_app. reflexivity. Qed.

Lemma prefix_add sigma n m : exists r, prefix sigma (n + m) = prefix sigma n ++ r.
Proof. unfold prefix. rewrite seq_app, map_app. eauto. Qed.

Lemma prefix_occ_mono sigma n n' t :
  n <= n' -> count_occ Nat.eq_dec (prefix sigma n) t <= count_occ Nat.eq_dec (prefix sigma n') t.
Proof.
  intros H. destruct (prefix_add sigma n (n' - n)) as [r Hr].
  replace (n + (n' - n)) with n' in Hr by lia. rewrite Hr, count_occ_app. lia.
Qed.

Lemma occ_unbounded sigma t :
  inf_often sigma t -> forall k, exists n, k <= count_occ Nat.eq_dec (prefix sigma n) t.
Proof.
  intros Hinf. induction k as [|k [n Hn]].
  - exists 0. lia.
  - destruct (Hinf n) as (m & Hm & Hs). exists (S m).
    rewrite prefix_S, count_occ_app. pose proof (prefix_occ_mono sigma n m t Hm).
    simpl. destruct (Nat.eq_dec (sigma m) t); [lia|contradiction].
Qed.

(** a thread that is scheduled infinitely often finishes its whole program
    after finitely many entries of the schedule and stays finished - whatever
    happens to the other threads (frozen for ever at any atomic step, starved,
    scheduled unfairly) *)
Theorem jdk_inf_often_finishes : forall (progs : list (list qop)) (sigma : nat -> nat) t,
  inf_often sigma t ->
  exists n, forall n' th, n <= n' ->
    nth_error (c_thr (final jdk (jdk_init progs) (prefix sigma n'))) t = Some th ->
    t_prog th = [] /\ t_cur th = None /\ t_dead th = false.
Proof.
  intros progs sigma t Hinf.
  destruct (occ_unbounded sigma t Hinf (bound progs)) as [n Hn].
  exists n. intros n' th Hle Hnth.
  apply (jdk_thread_finishes progs (prefix sigma n') t th); [|exact Hnth].
  pose proof (prefix_occ_mono sigma n n' t Hle). lia.
Qed.

(** under every fair infinite schedule every thread finishes: there is a point
    after which every thread has returned from all the calls of its program *)
Theorem jdk_fair_infinite : forall (progs : list (list qop)) (sigma : nat -> nat),
  (forall t, t < length progs -> inf_often sigma t) ->
  exists n, forall n' t th, n <= n' ->
    nth_error (c_thr (final jdk (jdk_init progs) (prefix sigma n'))) t = Some th ->
    t_prog th = [] /\ t_cur th = None /\ t_dead th = false.
Proof.
  intros progs sigma Hfair.
  assert (H : forall T, T <= length progs -> exists n, forall t, t < T ->
               bound progs <= count_occ Nat.eq_dec (prefix sigma n) t).
  { induction T as [|T IH]; intros HT.
    - exists 0. intros t Ht. lia.
    - destruct IH as [n1 H1]; [lia|].
      destruct (occ_unbounded sigma T (Hfair T HT) (bound progs)) as [n2 H2].
      exists (Nat.max n1 n2). intros t Ht.
      destruct (Nat.eq_dec t T) as [->|Hne].
      + pose proof (prefix_occ_mono sigma n2 (Nat.max n1 n2) T). lia.
      + pose proof (prefix_occ_mono sigma n1 (Nat.max n1 n2) t). specialize (H1 t). lia. }
  destruct (H (length progs) (le_n _)) as [n Hn].
  exists n. intros n' t th Hle Hnth.
  apply (jdk_fair_all_return progs (prefix sigma n')) with (t := t); [|exact Hnth].
  intros t0 Ht0. pose proof (prefix_occ_mono sigma n n' t0 Hle). specialize (Hn t0 Ht0). lia.
Qed.

(** the same with thread [f] frozen for ever from some point on *)
Theorem jdk_fair_infinite_frozen : forall (progs : list (list qop)) (sigma : nat -> nat) (f : nat),
  (forall t, t < length progs -> t <> f -> inf_often sigma t) ->
  forall t, t <> f ->
  exists n, forall n' th, n <= n' ->
    nth_error (c_thr (final jdk (jdk_init progs) (prefix sigma n'))) t = Some th ->
    t_prog th = [] /\ t_cur th = None /\ t_dead th = false.
Proof.
  intros progs sigma f Hfair t Hne.
  destruct (Nat.lt_ge_cases t (length progs)) as [Hlt|Hge].
  - apply jdk_inf_often_finishes. apply Hfair; assumption.
  - exists 0. intros n' th _ Hnth. exfalso.
    assert (H : t < length (c_thr (final jdk (jdk_init progs) (prefix sigma n')))) by (apply nth_error_Some; congruence).
    rewrite final_length in H. unfold jdk_init, init in H. cbn [c_thr] in H.
    rewrite map_length in H. lia.
Qed.

Print Assumptions jdk_thread_finishes.
Print Assumptions jdk_fair_all_return.
Print Assumptions jdk_frozen_others_finish.
Print Assumptions jdk_frozen_midway.
Print Assumptions jdk_round_robin_finishes.
Print Assumptions jdk_finished_all_returned.
Print Assumptions jdk_inf_often_finishes.
Print Assumptions jdk_fair_infinite.
Print Assumptions jdk_fair_infinite_frozen.
