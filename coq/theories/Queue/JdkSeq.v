(** Sequential behaviour of the lock-free JDK queue model [jdk]:
    a thread running alone behaves like a plain FIFO list with a weakly
    consistent iterator ([sq]), from the initial queue (2a) and from every
    quiescent reachable state (2b). *)
From Coq Require Import List Arith Bool NArith Lia.
From Garr Require Import Conc.Conc Conc.Lin Queue.JdkModel Queue.JdkInv Queue.JdkLin Queue.JdkProgress.
From Garr Require Queue.MutexProofs Adder.AdderSpec.
Import ListNotations.

(** ** Big-step executions of one call by a thread running alone *)

Inductive exec : qlocal -> qshared -> qret -> qiter -> qshared -> Prop :=
| ex_done l s r ts s' : qstep l s = Done r ts s' -> exec l s r ts s'
| ex_next l s l' s1 r ts s' :
    qstep l s = Next l' s1 -> exec l' s1 r ts s' -> exec l s r ts s'.

(** every call terminates when run alone (from the measure of JdkProgress) *)
Lemma exec_total_gen k : forall l s,
  QInv s -> pc_ok s (l_pc l) -> it_ok s (l_it l) -> mu s (l_pc l) <= k ->
  exists r ts s', exec l s r ts s'.
Proof.
  induction k as [|k IH]; intros l s HI Hpc Hit Hk;
    pose proof (qstep_ok l s HI Hpc Hit) as Hout;
    pose proof (qstep_dec l s HI Hpc) as Hdec;
    destruct (qstep l s) as [l' s1|r ts s'| |] eqn:E; simpl in Hout, Hdec; try contradiction;
    try lia; try (exists r, ts, s'; apply ex_done; exact E).
  destruct Hout as (HI' & _ & Hpc' & Hit').
  destruct (IH l' s1 HI' Hpc' Hit') as (r & ts & s' & Hex); [lia|].
  exists r, ts, s'. eapply ex_next; eauto.
Qed.

Lemma exec_total l s :
  QInv s -> pc_ok s (l_pc l) -> it_ok s (l_it l) -> exists r ts s', exec l s r ts s'.
Proof. intros. eapply exec_total_gen; eauto. Qed.

Lemma exec_ok l s r ts s' :
  exec l s r ts s' -> QInv s -> pc_ok s (l_pc l) -> it_ok s (l_it l) ->
  QInv s' /\ sh_le s s' /\ it_ok s' ts.
Proof.
  induction 1 as [l s r ts s' E|l s l' s1 r ts s' E Hex IH]; intros HI Hpc Hit;
    pose proof (qstep_ok l s HI Hpc Hit) as Hout; rewrite E in Hout; simpl in Hout.
  - exact Hout.
  - destruct Hout as (HI' & Hle & Hpc' & Hit').
    destruct (IH HI' Hpc' Hit') as (A & B & C). split; [exact A|]. split; [|exact C].
    eapply sh_le_trans; eauto.
Qed.

(** ** Runs of a configuration with a single thread *)

Notation cfg1 s th := (Config s [th] : qcfg).

Definition rets (e : list (event qop qret)) : list qret :=
  flat_map (fun x => match x with ERet _ _ r => [r] | _ => [] end) e.

Lemma rets_app e1 e2 : rets (e1 ++ e2) = rets e1 ++ rets e2.
Proof. unfold rets. apply flat_map_app. Qed.

Lemma run_app (c : qcfg) a b :
  run jdk c (a ++ b) =
  let '(c1, e1) := run jdk c a in let '(c2, e2) := run jdk c1 b in (c2, e1 ++ e2).
Proof.
  revert c; induction a as [|t a IH]; intros c; simpl.
  - destruct (run jdk c b); reflexivity.
  - rewrite IH. destruct (run jdk (step_cfg jdk c t) a) as [c1 e1].
    destruct (run jdk c1 b) as [c2 e2]. rewrite app_assoc. reflexivity.
Qed.

Lemma run_idle s ts m :
  run jdk (cfg1 s (Thread [] ts None false)) (repeat 0 m) = (cfg1 s (Thread [] ts None false), []).
Proof.
  induction m as [|m IH]; [reflexivity|]. simpl repeat. cbn [run].
  unfold step_cfg, step_evs, step_thread. simpl. rewrite IH. reflexivity.
Qed.

Lemma run_exec_cur l s r ts' s' :
  exec l s r ts' s' -> forall o prog ts,
  exists n, run jdk (cfg1 s (Thread prog ts (Some (o, l)) false)) (repeat 0 n) =
            (cfg1 s' (Thread prog ts' None false), [ERet 0 o r]).
Proof.
  induction 1 as [l s r ts' s' E|l s l' s1 r ts' s' E Hex IH]; intros o prog ts.
  - exists 1. simpl repeat. cbn [run]. unfold step_cfg, step_evs, step_thread. simpl.
    rewrite E. reflexivity.
  - destruct (IH o prog ts) as [n Hn]. exists (S n). simpl repeat. cbn [run].
    unfold step_cfg, step_evs, step_thread. simpl. rewrite E. simpl.
    unfold rest_prog. rewrite Hn. reflexivity.
Qed.

Lemma run_exec_fresh ts o s r ts' s' prog :
  exec (qstart ts o) s r ts' s' ->
  exists n, run jdk (cfg1 s (Thread (o :: prog) ts None false)) (repeat 0 n) =
            (cfg1 s' (Thread prog ts' None false), [EInv 0 o; ERet 0 o r]).
Proof.
  intros Hex. inversion Hex as [l s0 r0 ts0 s0' E|l s0 l' s1 r0 ts0 s0' E Hex']; subst.
  - exists 1. simpl repeat. cbn [run]. unfold step_cfg, step_evs, step_thread. simpl.
    rewrite E. reflexivity.
  - destruct (run_exec_cur _ _ _ _ _ Hex' o prog ts) as [n Hn]. exists (S n).
    simpl repeat. cbn [run]. unfold step_cfg, step_evs, step_thread. simpl. rewrite E. simpl.
    rewrite Hn. reflexivity.
Qed.

(** sequential composition: if every call refines one step of a specification
    [spec] under a relation [Rel] (indexed by the remaining program), then the
    values returned by the thread are those of the specification *)
Section SeqRun.
Variable A : Type.
Variable spec : A -> qop -> A * qret.
Variable Rel : list qop -> qshared -> qiter -> A -> Prop.

Fixpoint spec_run (a : A) (ops : list qop) : A * list qret :=
  match ops with
  | [] => (a, [])
  | o :: rest => let '(a1, r) := spec a o in let '(a2, rs) := spec_run a1 rest in (a2, r :: rs)
  end.

Hypothesis Hop : forall o rest s ts a, Rel (o :: rest) s ts a ->
  exists r ts' s', exec (qstart ts o) s r ts' s' /\ r = snd (spec a o) /\ Rel rest s' ts' (fst (spec a o)).

Lemma seq_run : forall ops s ts a, Rel ops s ts a ->
  exists n, forall m, n <= m ->
    rets (trace jdk (cfg1 s (mk_thread qlocal ts ops)) (repeat 0 m)) = snd (spec_run a ops).
Proof.
  induction ops as [|o rest IH]; intros s ts a HR.
  - exists 0. intros m _. unfold trace, mk_thread. rewrite run_idle. reflexivity.
  - destruct (Hop _ _ _ _ _ HR) as (r & ts' & s' & Hex & Hr & HR').
    destruct (run_exec_fresh ts o s r ts' s' rest Hex) as [n1 Hn1].
    destruct (IH s' ts' _ HR') as [n2 Hn2].
    exists (n1 + n2). intros m Hm.
    replace m with (n1 + (m - n1)) by lia. rewrite repeat_app.
    unfold trace, mk_thread in *. rewrite run_app, Hn1.
    specialize (Hn2 (m - n1)). 
    destruct (run jdk (cfg1 s' (Thread rest ts' None false)) (repeat 0 (m - n1))) as [c2 e2].
    simpl. simpl in Hn2. rewrite Hn2 by lia.
    destruct (spec a o) as [a1 r1]. simpl in *. subst r1.
    destruct (spec_run a1 rest). reflexivity.
Qed.
End SeqRun.

(** ** (2a) The reference object: a FIFO list with a weakly consistent iterator *)

Record sq := SQ { sq_cells : list (nat * bool);          (* every value ever offered, in order, with "still queued" *)
                  sq_cursor : option nat; sq_val : nat;   (* iterator: index of the next cell + its captured value *)
                  sq_last : option nat }.                 (* index last returned by Next *)

Fixpoint flf (cells : list (nat * bool)) (from i : nat) : option (nat * nat) :=
  match cells with
  | [] => None
  | (v, b) :: r => if b && (from <=? i) then Some (i, v) else flf r from (S i)
  end.
(** index and value of the first live cell at index >= from *)
Definition first_live_from (cells : list (nat * bool)) (from : nat) : option (nat * nat) :=
  flf cells from 0.

Definition kill (cells : list (nat * bool)) (i : nat) : list (nat * bool) :=
  match nth_error cells i with
  | Some (v, _) => upd cells i (v, false)
  | None => cells
  end.

Definition sq_step (q : sq) (o : qop) : sq * qret :=
  let cells := sq_cells q in
  match o with
  | Offer 0 => (q, RUnit)
  | Offer v => (SQ (cells ++ [(v, true)]) (sq_cursor q) (sq_val q) (sq_last q), RUnit)
  | Poll => match first_live_from cells 0 with
            | Some (i, v) => (SQ (kill cells i) (sq_cursor q) (sq_val q) (sq_last q), RVal v)
            | None => (q, RVal 0)
            end
  | Peek => (q, RVal match first_live_from cells 0 with Some (_, v) => v | None => 0 end)
  | IsEmpty => (q, RBool match first_live_from cells 0 with Some _ => false | None => true end)
  | Size => (q, RSize (N.of_nat (length (filter snd cells))))
  | IterNew => match first_live_from cells 0 with
               | Some (i, v) => (SQ cells (Some i) v None, RUnit)
               | None => (SQ cells None 0 None, RUnit)
               end
  | HasNext => (q, RBool match sq_cursor q with Some _ => true | None => false end)
  | ItNext => match sq_cursor q with
              | Some c =>
                  match first_live_from cells (S c) with
                  | Some (i, v) => (SQ cells (Some i) v (Some c), RVal (sq_val q))
                  | None => (SQ cells None 0 (Some c), RVal (sq_val q))
                  end
              | None => (q, RVal 0)
              end
  | Remove => match sq_last q with
              | Some c => (SQ (kill cells c) (sq_cursor q) (sq_val q) None, RUnit)
              | None => (q, RUnit)
              end
  end.

Definition sq_run : sq -> list qop -> sq * list qret := spec_run sq sq_step.

(** *** list lemmas *)

Lemma flf_found : forall cells from i0 j v,
  nth_error cells j = Some (v, true) -> from <= i0 + j ->
  (forall j' v', j' < j -> from <= i0 + j' -> nth_error cells j' <> Some (v', true)) ->
  flf cells from i0 = Some (i0 + j, v).
Proof.
  induction cells as [|[v0 b0] r IH]; intros from i0 j v Hn Hf Hd.
  - destruct j; discriminate.
  - destruct j as [|j]; simpl in *.
    + injection Hn as -> ->. rewrite Nat.add_0_r in *.
      destruct (Nat.leb_spec from i0); [reflexivity|lia].
    + destruct (b0 && (from <=? i0)) eqn:E.
      * apply andb_true_iff in E. destruct E as [-> E]. apply Nat.leb_le in E.
        exfalso. apply (Hd 0 v0); [lia|lia|reflexivity].
      * replace (i0 + S j) with (S i0 + j) by lia. apply IH; [exact Hn|lia|].
        intros j' v' A B. apply (Hd (S j') v'); lia.
Qed.

Lemma flf_none : forall cells from i0,
  (forall j v', from <= i0 + j -> nth_error cells j <> Some (v', true)) ->
  flf cells from i0 = None.
Proof.
  induction cells as [|[v0 b0] r IH]; intros from i0 Hd; [reflexivity|]. simpl.
  destruct (b0 && (from <=? i0)) eqn:E.
  - apply andb_true_iff in E. destruct E as [-> E]. apply Nat.leb_le in E.
    exfalso. apply (Hd 0 v0); [lia|reflexivity].
  - apply IH. intros j v' A. apply (Hd (S j) v'). lia.
Qed.

Lemma map_upd {A B} (f : A -> B) l i y : map f (upd l i y) = upd (map f l) i (f y).
Proof.
  revert i; induction l as [|a l IH]; intros [|i]; simpl; try reflexivity. rewrite IH. reflexivity.
Qed.

Lemma upd_same {A} (l : list A) i x : nth_error l i = Some x -> upd l i x = l.
Proof.
  revert i; induction l as [|a l IH]; intros [|i] H; simpl in *; try discriminate.
  - injection H as ->. reflexivity.
  - rewrite IH by assumption. reflexivity.
Qed.

(** number of live cells at index >= i *)
Definition lc (l : list (nat * bool)) (i : nat) : nat := length (filter snd (skipn i l)).

Lemma lc_step : forall l i v b, nth_error l i = Some (v, b) ->
  lc l i = (if b then 1 else 0) + lc l (S i).
Proof.
  unfold lc. induction l as [|x l IH]; intros i v b H; [destruct i; discriminate|].
  destruct i as [|i]; simpl in *.
  - injection H as ->. simpl. destruct b; reflexivity.
  - apply (IH i v b). exact H.
Qed.

Lemma lc_end l i : length l <= i -> lc l i = 0.
Proof. intros H. unfold lc. rewrite skipn_all2 by assumption. reflexivity. Qed.

Lemma lc_skip l : forall j i, i <= j ->
  (forall k v, i <= k -> k < j -> nth_error l k <> Some (v, true)) -> lc l i = lc l j.
Proof.
  induction j as [|j IH]; intros i Hij Hd.
  - assert (i = 0) by lia. subst. reflexivity.
  - destruct (Nat.eq_dec i (S j)) as [->|Hne]; [reflexivity|].
    rewrite (IH i) by (try lia; intros k v A B; apply Hd; lia).
    destruct (nth_error l j) as [[v b]|] eqn:E.
    + rewrite (lc_step l j v b E). destruct b; [|reflexivity].
      exfalso. apply (Hd j v); [lia|lia|exact E].
    + apply nth_error_None in E. rewrite !lc_end by lia. reflexivity.
Qed.

(** *** the cells of the model *)

Definition cellof (n : node) : nat * bool := (n_val n, n_live n).
Definition cellsq (s : qshared) : list (nat * bool) := map cellof (q_nodes s).

Lemma cellsq_length s : length (cellsq s) = len s.
Proof. unfold cellsq, len. apply map_length. Qed.

Lemma cellsq_nth s a : inr s a -> nth_error (cellsq s) (pred a) = Some (val s a, live s a).
Proof.
  intros Ha. pose proof (getn_inr s a Ha) as H. destruct a as [|i]; [destruct Ha; lia|].
  simpl in *. unfold cellsq. rewrite nth_error_map, H. reflexivity.
Qed.

Lemma cellsq_nth_inv s i v b :
  nth_error (cellsq s) i = Some (v, b) -> inr s (S i) /\ v = val s (S i) /\ b = live s (S i).
Proof.
  intros H. assert (Hl : i < length (cellsq s)) by (apply nth_error_Some; congruence).
  rewrite cellsq_length in Hl. assert (Hi : inr s (S i)) by (unfold inr; lia).
  pose proof (cellsq_nth s (S i) Hi) as H2. simpl in H2. rewrite H2 in H.
  injection H as <- <-. auto.
Qed.

Lemma cellsq_setnext s p x :
  inr s p -> cellsq (setn s p (Node (n_val (nd s p)) (n_live (nd s p)) x)) = cellsq s.
Proof.
  intros Hp. destruct (nth_nd s p Hp) as (i & -> & Hi). unfold cellsq, setn; simpl.
  rewrite map_upd. apply upd_same. rewrite nth_error_map, Hi. reflexivity.
Qed.

Lemma cellsq_kill s p :
  inr s p ->
  cellsq (setn s p (Node (n_val (nd s p)) false (n_next (nd s p)))) =
  upd (cellsq s) (pred p) (val s p, false).
Proof.
  intros Hp. destruct (nth_nd s p Hp) as (i & -> & Hi). unfold cellsq, setn; simpl.
  rewrite map_upd. reflexivity.
Qed.

Lemma cellsq_append s p v :
  inr s p ->
  let s1 := setn s p (Node (n_val (nd s p)) (n_live (nd s p)) (S (length (q_nodes s)))) in
  cellsq (QS (q_nodes s1 ++ [Node v true 0]) (q_head s1) (q_tail s1)) = cellsq s ++ [(v, true)].
Proof.
  intros Hp s1. unfold cellsq at 1. simpl q_nodes. rewrite map_app. simpl.
  fold (cellsq s1). unfold s1. rewrite cellsq_setnext by assumption. reflexivity.
Qed.

(** *** the simulation relation between quiescent single-thread states and [sq]:
    address 1 is the dummy node, address a >= 2 is cell a-2 *)

Definition Csh (s : qshared) (q : sq) : Prop :=
  QInv s /\ cellsq s = (0, false) :: sq_cells q.

Definition cur_rel (a : nat) (c : option nat) : Prop :=
  match c with Some i => a = i + 2 | None => a = 0 end.

Definition Itr (s : qshared) (it : qiter) (q : sq) : Prop :=
  cur_rel (it_node it) (sq_cursor q) /\ it_node it <= len s /\
  it_has it = negb (Nat.eqb (it_node it) 0) /\
  (it_node it <> 0 -> it_val it = sq_val q) /\
  cur_rel (it_last it) (sq_last q) /\ it_last it <= len s.

Definition R (s : qshared) (it : qiter) (q : sq) : Prop := Csh s q /\ Itr s it q.

Lemma cells_nth s d cells a :
  cellsq s = d :: cells -> 2 <= a -> a <= len s ->
  nth_error cells (a - 2) = Some (val s a, live s a).
Proof.
  intros Hc H1 H2. assert (Ha : inr s a) by (unfold inr; lia).
  pose proof (cellsq_nth s a Ha) as H. rewrite Hc in H.
  replace (pred a) with (S (a - 2)) in H by lia. exact H.
Qed.

Lemma cells_nth_inv s d cells j v b :
  cellsq s = d :: cells -> nth_error cells j = Some (v, b) ->
  j + 2 <= len s /\ v = val s (j + 2) /\ b = live s (j + 2).
Proof.
  intros Hc H. assert (H' : nth_error (cellsq s) (S j) = Some (v, b)) by (rewrite Hc; exact H).
  apply cellsq_nth_inv in H'. replace (j + 2) with (S (S j)) by lia.
  destruct H' as ([A B] & C & E). auto.
Qed.

Lemma cells_len s d cells : cellsq s = d :: cells -> len s = S (length cells).
Proof. intros Hc. rewrite <- cellsq_length, Hc. reflexivity. Qed.

Lemma live1 s cells : cellsq s = (0, false) :: cells -> live s 1 = false.
Proof.
  intros Hc. assert (Ha : inr s 1) by (unfold inr; rewrite (cells_len _ _ _ Hc); lia).
  pose proof (cellsq_nth s 1 Ha) as H. rewrite Hc in H. simpl in H. congruence.
Qed.

Lemma fl_found s cells from p :
  cellsq s = (0, false) :: cells -> p <= len s -> live s p = true -> from + 2 <= p ->
  (forall a, from + 2 <= a -> a < p -> live s a = false) ->
  first_live_from cells from = Some (p - 2, val s p).
Proof.
  intros Hc Hp Hl Hf Hd. unfold first_live_from.
  pose proof (cells_nth s _ cells p Hc) as Hn. rewrite Hl in Hn.
  apply (flf_found cells from 0 (p - 2) (val s p)); [apply Hn; lia|lia|].
  intros j' v' A B E. destruct (cells_nth_inv _ _ _ _ _ _ Hc E) as (_ & _ & F).
  rewrite Hd in F by lia. discriminate.
Qed.

Lemma fl_none s cells from :
  cellsq s = (0, false) :: cells ->
  (forall a, from + 2 <= a -> a <= len s -> live s a = false) ->
  first_live_from cells from = None.
Proof.
  intros Hc Hd. unfold first_live_from. apply flf_none. intros j v' A E.
  destruct (cells_nth_inv _ _ _ _ _ _ Hc E) as (B & _ & F). rewrite Hd in F by lia. discriminate.
Qed.

Lemma lcz_step s p :
  inr s p -> lc (cellsq s) (pred p) = (if live s p then 1 else 0) + lc (cellsq s) p.
Proof.
  intros Hp. rewrite (lc_step _ _ _ _ (cellsq_nth s p Hp)).
  destruct Hp. replace (S (pred p)) with p by lia. reflexivity.
Qed.

Lemma lcz_hop s p q :
  p < q -> (forall a, p < a -> a < q -> live s a = false) ->
  lc (cellsq s) p = lc (cellsq s) (pred q).
Proof.
  intros Hpq Hd. apply lc_skip; [lia|]. intros k v A B E.
  apply cellsq_nth_inv in E. destruct E as (_ & _ & F). rewrite Hd in F by lia. discriminate.
Qed.

Lemma lcz_start s p :
  1 <= p -> db s p -> lc (cellsq s) 0 = lc (cellsq s) (pred p).
Proof.
  intros Hp Hd. apply lc_skip; [lia|]. intros k v A B E.
  apply cellsq_nth_inv in E. destruct E as (_ & _ & F). rewrite Hd in F by lia. discriminate.
Qed.

Lemma lcz_total s cells :
  cellsq s = (0, false) :: cells -> lc (cellsq s) 0 = length (filter snd cells).
Proof. intros Hc. unfold lc. simpl skipn. rewrite Hc. reflexivity. Qed.

Lemma R_frame s s' it q :
  R s it q -> QInv s' -> cellsq s' = cellsq s -> R s' it q.
Proof.
  intros [[_ Hc] Hi] HI' E.
  assert (Hl : len s' = len s) by (rewrite <- !cellsq_length, E; reflexivity).
  split; [split; [exact HI'|rewrite E; exact Hc]|].
  unfold Itr in *. rewrite Hl. exact Hi.
Qed.

(** *** assertions of a call of [o] started in a state related to [q] *)

Definition postA (q : sq) (o : qop) (r : qret) (it : qiter) (s : qshared) : Prop :=
  r = snd (sq_step q o) /\ R s it (fst (sq_step q o)).

Definition scan_kind (o : qop) (k : skind) : Prop :=
  match k, o with
  | SKPeek, Peek | SKEmpty, IsEmpty | SKSize, Size | SKIter, IterNew => True
  | _, _ => False
  end.

Definition scan_it (k : skind) (it : qiter) (s : qshared) (q : sq) : Prop :=
  match k with SKIter => it = qiter0 | _ => Itr s it q end.

Definition dead_in (s : qshared) (a b : nat) : Prop :=
  forall x, a <= x -> x < b -> live s x = false.

(** the iterator registers during Iterator.Next from node [pred] *)
Definition nit (pred : nat) (it : qiter) (q : sq) : Prop :=
  2 <= pred /\ sq_cursor q = Some (pred - 2) /\ it_val it = sq_val q /\ it_last it = pred.

Definition seqA (q : sq) (o : qop) (c : pc) (it : qiter) (s : qshared) : Prop :=
  match c with
  | Inv o' => o' = o /\ R s it q
  | OTail v | ONext v _ _ | OCasNext v _ _ | OReTailOff v _ _ | OHead v _ | OReTailHop v _ _ _ =>
      o = Offer v /\ v <> 0 /\ R s it q
  | OCasTail _ _ => postA q o RUnit it s
  | PHead => o = Poll /\ R s it q
  | PItem _ p | PCasItem _ p | PNext _ p => o = Poll /\ R s it q /\ q_head s <= p
  | PNextAfter _ _ v => postA q o (RVal v) it s
  | UCasHead _ _ (KRet r) | USetNext _ (KRet r) => postA q o r it s
  | UCasHead _ x (KSize p) => o = Size /\ R s it q /\ q_head s <= p /\ x <= p /\ db s p
  | USetNext _ (KSize p) => o = Size /\ R s it q /\ q_head s <= p /\ db s p
  | SHead k => scan_kind o k /\ Csh s q /\ scan_it k it s q
  | SItem k _ p | SNext k _ p => scan_kind o k /\ Csh s q /\ scan_it k it s q /\ q_head s <= p
  | ZItem p cnt =>
      o = Size /\ R s it q /\ q_head s <= p /\
      (cnt + N.of_nat (lc (cellsq s) (pred p)) = N.of_nat (lc (cellsq s) 0))%N
  | ZNext p cnt =>
      o = Size /\ R s it q /\ q_head s <= p /\
      (cnt + N.of_nat (lc (cellsq s) p) = N.of_nat (lc (cellsq s) 0))%N
  | NSucc1 pred | NHead1 pred => o = ItNext /\ Csh s q /\ nit pred it q
  | NItem pred p => o = ItNext /\ Csh s q /\ nit pred it q /\ dead_in s (S pred) p
  | NSucc2 pred p _ | NHead2 pred p _ =>
      o = ItNext /\ Csh s q /\ nit pred it q /\ dead_in s (S pred) (S p)
  | NCas pred _ q' _ => o = ItNext /\ Csh s q /\ nit pred it q /\ dead_in s (S pred) q'
  | RSet l => o = Remove /\ R s it q /\ l = it_last it /\ l <> 0
  end.

Definition seq_out (q : sq) (o : qop) (out : qout) : Prop :=
  match out with
  | Next l' s' => QInv s' -> seqA q o (l_pc l') (l_it l') s'
  | Done r ts s' => QInv s' -> postA q o r ts s'
  | Blocked => True
  | Fault => True
  end.

Lemma so_goto q o it c s' : (QInv s' -> seqA q o c it s') -> seq_out q o (goto it c s').
Proof. intros H. exact H. Qed.

Lemma so_done q o it r s' : (QInv s' -> postA q o r it s') -> seq_out q o (done it r s').
Proof. intros H. exact H. Qed.

Lemma so_update_head_ret q o it h x r s :
  postA q o r it s -> seq_out q o (update_head it h x (KRet r) s).
Proof.
  intros H. unfold update_head. destruct (Nat.eqb h x); simpl; intros _; exact H.
Qed.

Lemma postA_frame q o r it s s' :
  postA q o r it s -> QInv s' -> cellsq s' = cellsq s -> postA q o r it s'.
Proof. intros [A B] HI E. split; [exact A|]. eapply R_frame; eauto. Qed.

Lemma Itr_mono s s' it q q' :
  Itr s it q -> len s <= len s' ->
  sq_cursor q' = sq_cursor q -> sq_val q' = sq_val q -> sq_last q' = sq_last q ->
  Itr s' it q'.
Proof.
  unfold Itr. intros (A & B & C & D & E & F) Hl -> -> ->. repeat split; auto; lia.
Qed.

Lemma Csh_cells s q q' : Csh s q -> sq_cells q' = sq_cells q -> Csh s q'.
Proof. intros [A B] E. split; [exact A|]. rewrite E. exact B. Qed.

Lemma Csh_kill s s' q a c v l :
  Csh s q -> QInv s' -> 2 <= a -> a <= len s ->
  cellsq s' = upd (cellsq s) (pred a) (val s a, false) ->
  Csh s' (SQ (kill (sq_cells q) (a - 2)) c v l).
Proof.
  intros [_ Hc] HI' A1 A2 E. split; [exact HI'|]. simpl.
  rewrite E, Hc. replace (pred a) with (S (a - 2)) by lia. simpl.
  unfold kill. rewrite (cells_nth s _ _ a Hc A1 A2). reflexivity.
Qed.

Lemma len_kill_eq s s' a x : cellsq s' = upd (cellsq s) a x -> len s' = len s.
Proof. intros E. rewrite <- !cellsq_length, E. apply upd_length. Qed.

Lemma R_append s s2 it q x :
  R s it q -> QInv s2 -> cellsq s2 = cellsq s ++ [x] ->
  R s2 it (SQ (sq_cells q ++ [x]) (sq_cursor q) (sq_val q) (sq_last q)).
Proof.
  intros [[_ Hc] Hi] HI2 E. split.
  - split; [exact HI2|]. simpl. rewrite E, Hc. reflexivity.
  - eapply Itr_mono; eauto. rewrite <- !cellsq_length, E, app_length. lia.
Qed.

Lemma live_setnext s b x a :
  inr s b -> live (setn s b (Node (n_val (nd s b)) (n_live (nd s b)) x)) a = live s a.
Proof.
  intros Hb. unfold live. rewrite nd_setn by assumption.
  destruct (Nat.eqb_spec a b) as [->|_]; reflexivity.
Qed.

Lemma filter_len {A} (f : A -> bool) l : length (filter f l) <= length l.
Proof. induction l as [|a l IH]; simpl; [lia|]. destruct (f a); simpl; lia. Qed.

Lemma cur_rel_0 c : cur_rel 0 c -> c = None.
Proof. destruct c; simpl; [lia|reflexivity]. Qed.

Lemma cur_rel_S n c : cur_rel (S n) c -> c = Some (S n - 2) /\ 2 <= S n.
Proof. destruct c; simpl; [|discriminate]. intros H. split; [f_equal; lia|lia]. Qed.

Ltac ssplit := repeat match goal with |- _ /\ _ => split end.

(** one step of a call started in a state related to [q] *)
Lemma seq_step q o l s :
  (N.of_nat (length (filter snd (sq_cells q))) < max_int32)%N ->
  QInv s -> pc_ok s (l_pc l) -> seqA q o (l_pc l) (l_it l) s -> seq_out q o (qstep l s).
Proof.
  intros Hb HI Hpc HA. destruct l as [c it]. cbn [l_pc l_it] in *.
  pose proof (qi_head _ HI) as Hhd. unfold inr in Hhd.
  destruct c; unfold qstep; cbn [l_pc l_it]; cbn [seqA] in HA; cbn [pc_ok] in Hpc.
  - (* Inv *)
    destruct HA as [-> HR]. pose proof HR as [HC Hi].
    pose proof Hi as (I1 & I2 & I3 & I4 & I5 & I6).
    destruct o as [[|v]| | | | | | | |]; cbn [Nat.eqb]; cbv iota.
    + apply so_done. intros _. split; [reflexivity|exact HR].
    + apply so_goto. intros _. simpl. auto.
    + apply so_goto. intros _. simpl. auto.
    + apply so_goto. intros _. simpl. ssplit; auto.
    + apply so_goto. intros _. simpl. ssplit; auto.
    + apply so_goto. intros _. simpl. ssplit; auto.
    + apply so_goto. intros _. simpl. ssplit; auto.
    + apply so_done. intros _. split; [|exact HR]. simpl. f_equal. rewrite I3.
      destruct (sq_cursor q) as [i|]; simpl in I1; rewrite I1; [|reflexivity].
      replace (i + 2) with (S (S i)) by lia. reflexivity.
    + destruct (it_node it) as [|n] eqn:En.
      * apply so_done. intros _. apply cur_rel_0 in I1.
        unfold postA. cbn [sq_step]. rewrite I1. split; [reflexivity|exact HR].
      * apply so_goto. intros _. apply cur_rel_S in I1. destruct I1 as [I1 I1'].
        simpl. split; [reflexivity|]. split; [exact HC|]. unfold nit. simpl.
        ssplit; auto.
    + destruct (it_last it) as [|n] eqn:En.
      * apply so_done. intros _. apply cur_rel_0 in I5.
        unfold postA. cbn [sq_step]. rewrite I5. split; [reflexivity|exact HR].
      * apply so_goto. intros _. simpl. ssplit; auto.
  - (* OTail *) apply so_goto. intros _. exact HA.
  - (* ONext *)
    rewrite (getn_inr s p Hpc).
    destruct (Nat.eqb (n_next (nd s p)) 0); [apply so_goto; intros _; exact HA|].
    destruct (Nat.eqb p (n_next (nd s p))); [apply so_goto; intros _; exact HA|].
    destruct (negb (Nat.eqb p t)); apply so_goto; intros _; exact HA.
  - (* OCasNext *)
    destruct HA as (-> & Hv & HR). rewrite (getn_inr s p Hpc).
    destruct (Nat.eqb (n_next (nd s p)) 0); [|apply so_goto; intros _; simpl; auto].
    destruct v as [|v]; [congruence|].
    assert (HP : forall s2, s2 = (let s1 := setn s p (Node (n_val (nd s p)) (n_live (nd s p)) (S (length (q_nodes s)))) in
                   QS (q_nodes s1 ++ [Node (S v) true 0]) (q_head s1) (q_tail s1)) ->
                 QInv s2 -> postA q (Offer (S v)) RUnit it s2).
    { intros s2 -> HI2. split; [reflexivity|]. cbn [sq_step fst].
      apply (R_append s); auto. apply (cellsq_append s p (S v)). exact Hpc. }
    destruct (Nat.eqb p t); [apply so_done|apply so_goto]; intros HI2; apply HP; auto.
  - (* OCasTail *)
    apply so_done. intros HI'. destruct (Nat.eqb (q_tail s) t); [|exact HA].
    eapply postA_frame; eauto.
  - (* OReTailOff *)
    destruct (Nat.eqb t (q_tail s)); apply so_goto; intros _; exact HA.
  - (* OHead *) apply so_goto; intros _; exact HA.
  - (* OReTailHop *)
    destruct (Nat.eqb t (q_tail s)); apply so_goto; intros _; exact HA.
  - (* PHead *)
    destruct HA as [-> HR]. apply so_goto. intros _. simpl. auto.
  - (* PItem *)
    destruct Hpc as (A & B & C & Dd).
    assert (Hp : inr s p) by (unfold inr; lia).
    rewrite (getn_inr s p Hp). destruct (n_live (nd s p)); apply so_goto; intros _; exact HA.
  - (* PCasItem *)
    destruct Hpc as (A & B & C & Dd). destruct HA as (-> & HR & Hh).
    assert (Hp : inr s p) by (unfold inr; lia).
    rewrite (getn_inr s p Hp). fold (live s p). fold (val s p).
    destruct (live s p) eqn:El; [|apply so_goto; intros _; simpl; auto].
    pose proof HR as [[_ Hc] Hi].
    assert (Hp2 : 2 <= p).
    { pose proof (live1 s _ Hc). destruct (Nat.eq_dec p 1) as [->|]; [congruence|lia]. }
    assert (Hfl : first_live_from (sq_cells q) 0 = Some (p - 2, val s p)).
    { apply (fl_found s); auto. intros a A1 A2. apply Dd; lia. }
    assert (HP : forall s', s' = setn s p (Node (n_val (nd s p)) false (n_next (nd s p))) ->
                 QInv s' -> postA q Poll (RVal (val s p)) it s').
    { intros s' -> HI'. unfold postA. cbn [sq_step]. rewrite Hfl. cbn [fst snd].
      split; [reflexivity|]. pose proof (cellsq_kill s p Hp) as Ek. split.
      - eapply Csh_kill; eauto. apply HR.
      - eapply Itr_mono; eauto. rewrite (len_kill_eq _ _ _ _ Ek). lia. }
    destruct (Nat.eqb p h); [apply so_done|apply so_goto]; intros HI'; apply HP; auto.
  - (* PNextAfter *)
    destruct Hpc as (A & B & C & Dd).
    assert (Hp : inr s p) by (unfold inr; lia).
    rewrite (getn_inr s p Hp). apply so_update_head_ret. exact HA.
  - (* PNext *)
    destruct Hpc as (A & B & C & Dd). destruct HA as (-> & HR & Hh).
    assert (Hp : inr s p) by (unfold inr; lia).
    rewrite (getn_inr s p Hp). fold (nxt s p).
    destruct (Nat.eqb_spec (nxt s p) 0) as [E0|N0].
    + assert (Hpl : p = len s) by (apply (qi_last _ HI); assumption).
      pose proof HR as [[_ Hc] Hi].
      assert (Hfl : first_live_from (sq_cells q) 0 = None).
      { apply (fl_none s); auto. intros a A1 A2. apply Dd; lia. }
      apply so_update_head_ret. unfold postA. cbn [sq_step]. rewrite Hfl. split; [reflexivity|exact HR].
    + destruct (Nat.eqb_spec p (nxt s p)) as [E1|N1].
      * pose proof (qi_self _ HI p Hp (eq_sym E1)). lia.
      * destruct (nxt_fwd s p HI Hp N0 N1) as [F G]. apply so_goto. intros _. simpl.
        ssplit; auto. lia.
  - (* UCasHead *)
    destruct Hpc as (A & B & C & Dd & E). destruct k as [r|p].
    + destruct (Nat.eqb (q_head s) h).
      * apply so_goto. intros HI'. simpl. eapply postA_frame; eauto.
      * cbn [finish]. apply so_done. intros _. exact HA.
    + destruct HA as (-> & HR & H1 & H2 & H3).
      destruct (Nat.eqb (q_head s) h).
      * apply so_goto. intros HI'. simpl. ssplit; auto. eapply R_frame; eauto.
      * cbn [finish]. apply so_goto. intros _. simpl. ssplit; auto.
        rewrite <- (lcz_start s p) by (auto; lia). reflexivity.
  - (* USetNext *)
    destruct Hpc as (A & B & C).
    assert (Hh : inr s h) by (unfold inr in *; lia).
    rewrite (getn_inr s h Hh). destruct k as [r|p].
    + cbn [finish]. apply so_done. intros HI'. eapply postA_frame; eauto. apply cellsq_setnext. exact Hh.
    + destruct HA as (-> & HR & H1 & H3).
      cbn [finish]. apply so_goto. intros HI'. simpl. rewrite head_setn.
      pose proof (cellsq_setnext s h h Hh) as Ec. rewrite Ec.
      ssplit; auto.
      * eapply R_frame; eauto.
      * rewrite <- (lcz_start s p) by (auto; lia). reflexivity.
  - (* SHead *)
    apply so_goto. intros _. simpl. destruct HA as (K & HC & Hs). ssplit; auto.
  - (* SItem *)
    destruct Hpc as (A & B & C & Dd). destruct HA as (K & HC & Hs & Hh).
    assert (Hp : inr s p) by (unfold inr; lia).
    rewrite (getn_inr s p Hp). fold (live s p). fold (val s p).
    destruct (live s p) eqn:El; [|apply so_goto; intros _; simpl; auto].
    pose proof HC as [_ Hc].
    assert (Hp2 : 2 <= p).
    { pose proof (live1 s _ Hc). destruct (Nat.eq_dec p 1) as [->|]; [congruence|lia]. }
    assert (Hfl : first_live_from (sq_cells q) 0 = Some (p - 2, val s p)).
    { apply (fl_found s); auto. intros a A1 A2. apply Dd; lia. }
    destruct k; destruct o; try contradiction; unfold scan_end; cbv iota; simpl in Hs.
    * apply so_update_head_ret. unfold postA. cbn [sq_step]. rewrite Hfl.
      split; [reflexivity|split; assumption].
    * apply so_update_head_ret. unfold postA. cbn [sq_step]. rewrite Hfl.
      split; [reflexivity|split; assumption].
    * unfold update_head. destruct (Nat.eqb h p).
      -- apply so_goto. intros _. simpl. ssplit; auto; [split; assumption|].
         rewrite <- (lcz_start s p) by (auto; lia). reflexivity.
      -- apply so_goto. intros _. simpl. ssplit; auto. split; assumption.
    * apply so_update_head_ret. unfold postA. cbn [sq_step]. rewrite Hfl. cbn [fst snd].
      split; [reflexivity|]. split; [eapply Csh_cells; eauto|].
      unfold Itr. simpl. ssplit; auto; try lia.
      destruct p; [lia|reflexivity].
  - (* SNext *)
    destruct Hpc as (A & B & C & Dd). destruct HA as (K & HC & Hs & Hh).
    assert (Hp : inr s p) by (unfold inr; lia).
    rewrite (getn_inr s p Hp). fold (nxt s p).
    destruct (Nat.eqb_spec (nxt s p) 0) as [E0|N0].
    + assert (Hpl : p = len s) by (apply (qi_last _ HI); assumption).
      pose proof HC as [_ Hc].
      assert (Hfl : first_live_from (sq_cells q) 0 = None).
      { apply (fl_none s); auto. intros a A1 A2. apply Dd; lia. }
      destruct k; destruct o; try contradiction; unfold scan_end; cbv iota; simpl in Hs.
      * apply so_update_head_ret. unfold postA. cbn [sq_step]. rewrite Hfl.
        split; [reflexivity|split; assumption].
      * apply so_update_head_ret. unfold postA. cbn [sq_step]. rewrite Hfl.
        split; [reflexivity|split; assumption].
      * apply so_update_head_ret. unfold postA. cbn [sq_step fst snd].
        split; [|split; assumption].
        rewrite <- (lcz_total s _ Hc), (lcz_start s (S p)) by (auto; lia).
        simpl pred. rewrite lc_end by (rewrite cellsq_length; lia). reflexivity.
      * apply so_update_head_ret. unfold postA. cbn [sq_step]. rewrite Hfl. cbn [fst snd].
        split; [reflexivity|]. split; [eapply Csh_cells; eauto|].
        subst it. unfold Itr. simpl. ssplit; auto; lia.
    + destruct (Nat.eqb_spec p (nxt s p)) as [E1|N1].
      * pose proof (qi_self _ HI p Hp (eq_sym E1)). lia.
      * destruct (nxt_fwd s p HI Hp N0 N1) as [F G]. apply so_goto. intros _. simpl.
        ssplit; auto. lia.
  - (* ZItem *)
    destruct HA as (-> & HR & Hh & Hcnt). pose proof HR as [[_ Hc] _].
    rewrite (getn_inr s p Hpc). fold (live s p).
    pose proof (lcz_step s p Hpc) as Hst.
    pose proof (lcz_total s _ Hc) as Htot.
    pose proof (filter_len snd (sq_cells q)) as Hfl.
    destruct (live s p) eqn:El.
    + destruct (N.eqb_spec (N.succ cnt) max_int32) as [Em|Nm]; [exfalso; lia|].
      apply so_goto. intros _. simpl. ssplit; auto. lia.
    + apply so_goto. intros _. simpl. ssplit; auto. lia.
  - (* ZNext *)
    destruct HA as (-> & HR & Hh & Hcnt). pose proof HR as [[_ Hc] _].
    rewrite (getn_inr s p Hpc). fold (nxt s p).
    destruct (Nat.eqb_spec p (nxt s p)) as [E1|N1].
    + pose proof (qi_self _ HI p Hpc (eq_sym E1)). lia.
    + destruct (Nat.eqb_spec (nxt s p) 0) as [E0|N0].
      * assert (Hpl : p = len s) by (apply (qi_last _ HI); assumption).
        apply so_done. intros _. split; [|exact HR]. cbn [sq_step snd]. f_equal.
        rewrite <- (lcz_total s _ Hc). rewrite lc_end in Hcnt by (rewrite cellsq_length; lia). lia.
      * destruct (nxt_fwd s p HI Hpc N0 N1) as [F G]. apply so_goto. intros _. simpl.
        ssplit; auto; [lia|].
        rewrite <- (lcz_hop s p (nxt s p)); auto.
        intros a A1 A2. apply (qi_skip _ HI p a); auto.
  - (* NSucc1 *)
    destruct HA as (-> & HC & Hn). pose proof HC as [_ Hc].
    pose proof Hn as (N1 & N2 & N3 & N4).
    rewrite (getn_inr s pred Hpc). fold (nxt s pred).
    destruct (Nat.eqb_spec pred (nxt s pred)) as [E1|Ne1].
    + apply so_goto. intros _. simpl. ssplit; auto.
    + unfold nloop. destruct (nxt s pred) as [|n] eqn:En.
      * assert (Hpl : pred = len s) by (apply (qi_last _ HI); assumption).
        apply so_done. intros _. unfold postA. cbn [sq_step]. rewrite N2.
        rewrite (fl_none s _ (S (pred - 2)) Hc) by (intros a A1 A2; lia).
        cbn [fst snd]. split; [rewrite N3; reflexivity|].
        split; [eapply Csh_cells; eauto|].
        unfold Itr. simpl. rewrite N4. ssplit; auto; try lia; try apply Hpc.
      * assert (N0 : nxt s pred <> 0) by lia. rewrite <- En in *.
        destruct (nxt_fwd s pred HI Hpc N0 Ne1) as [F G].
        apply so_goto. intros _. simpl. ssplit; auto.
        intros a A1 A2. apply (qi_skip _ HI pred a); auto.
  - (* NHead1 *)
    destruct HA as (-> & HC & Hn). destruct Hpc as [A B].
    unfold nloop. destruct (q_head s) as [|n] eqn:En; [lia|].
    apply so_goto. intros _. simpl. ssplit; auto; try apply Hn.
    intros a A1 A2. apply (qi_dead _ HI); lia.
  - (* NItem *)
    destruct HA as (-> & HC & Hn & Hd). pose proof HC as [_ Hc].
    pose proof Hn as (N1 & N2 & N3 & N4). destruct Hpc as (A & B & C).
    assert (Hp : inr s p) by (unfold inr; lia).
    rewrite (getn_inr s p Hp). fold (live s p). fold (val s p).
    destruct (live s p) eqn:El.
    + apply so_done. intros _. unfold postA. cbn [sq_step]. rewrite N2.
      rewrite (fl_found s _ (S (pred - 2)) p Hc) by (auto; try lia; intros a A1 A2; apply Hd; lia).
      cbn [fst snd]. split; [rewrite N3; reflexivity|].
      split; [eapply Csh_cells; eauto|].
      unfold Itr. simpl. rewrite N4. ssplit; auto; try lia.
      destruct p; [lia|reflexivity].
    + apply so_goto. intros _. simpl. ssplit; auto.
      intros a A1 A2. destruct (Nat.eq_dec a p) as [->|]; [exact El|apply Hd; lia].
  - (* NSucc2 *)
    destruct HA as (-> & HC & Hn & Hd). pose proof HC as [_ Hc].
    destruct Hpc as (A & B & C & Dp).
    assert (Hp : inr s p) by (unfold inr; lia).
    rewrite (getn_inr s p Hp). fold (nxt s p).
    destruct (Nat.eqb_spec p (nxt s p)) as [E1|Ne1].
    + apply so_goto. intros _. simpl. ssplit; auto; apply Hn.
    + unfold after_succ. destruct (nxt s p) as [|n] eqn:En.
      * assert (Hpl : p = len s) by (apply (qi_last _ HI); assumption).
        pose proof Hn as (N1 & N2 & N3 & N4).
        unfold nloop. apply so_done. intros _. unfold postA. cbn [sq_step]. rewrite N2.
        rewrite (fl_none s _ (S (pred - 2)) Hc) by (intros a A1 A2; apply Hd; lia).
        cbn [fst snd]. split; [rewrite N3; reflexivity|].
        split; [eapply Csh_cells; eauto|].
        unfold Itr. simpl. rewrite N4. ssplit; auto; try lia.
      * assert (N0 : nxt s p <> 0) by lia. rewrite <- En in *.
        destruct (nxt_fwd s p HI Hp N0 Ne1) as [F G].
        apply so_goto. intros _. simpl. ssplit; auto; try apply Hn.
        intros a A1 A2. destruct (Nat.lt_ge_cases a (S p)) as [L|Ge]; [apply Hd; lia|].
        apply (qi_skip _ HI p a); auto.
  - (* NHead2 *)
    destruct HA as (-> & HC & Hn & Hd). destruct Hpc as (A & B & C).
    unfold after_succ. destruct (q_head s) as [|n] eqn:En; [lia|].
    apply so_goto. intros _. simpl. ssplit; auto; try apply Hn.
    intros a A1 A2. apply (qi_dead _ HI); lia.
  - (* NCas *)
    destruct HA as (-> & HC & Hn & Hd). destruct Hpc as (A & B & C & Dq & E).
    assert (Hp : inr s pred) by (unfold inr; lia).
    rewrite (getn_inr s pred Hp).
    unfold nloop. destruct q0 as [|n]; [lia|].
    apply so_goto. intros HI'. simpl.
    destruct (Nat.eqb (n_next (nd s pred)) p).
    + ssplit; auto; try apply Hn.
      * split; [exact HI'|]. rewrite cellsq_setnext by assumption. apply HC.
      * intros a A1 A2. rewrite live_setnext by assumption. apply Hd; assumption.
    + ssplit; auto; try apply Hn.
  - (* RSet *)
    destruct HA as (-> & HR & Hl & Hl0). pose proof HR as [HC Hi].
    destruct Hi as (I1 & I2 & I3 & I4 & I5 & I6).
    rewrite (getn_inr s l Hpc). apply so_done. intros HI'.
    destruct l as [|n]; [congruence|]. rewrite <- Hl in I5.
    apply cur_rel_S in I5. destruct I5 as [I5 I5'].
    unfold postA. cbn [sq_step]. rewrite I5. cbn [fst snd]. split; [reflexivity|].
    pose proof (cellsq_kill s (S n) Hpc) as Ek. split.
    + eapply Csh_kill; eauto. apply Hpc.
    + unfold Itr. rewrite len_setn. simpl. ssplit; auto. lia.
Qed.

(** a whole call *)
Lemma seq_exec q o :
  (N.of_nat (length (filter snd (sq_cells q))) < max_int32)%N ->
  forall l s r ts s', exec l s r ts s' ->
  QInv s -> pc_ok s (l_pc l) -> it_ok s (l_it l) -> seqA q o (l_pc l) (l_it l) s ->
  postA q o r ts s'.
Proof.
  intros Hb. induction 1 as [l s r ts s' E|l s l' s1 r ts s' E Hex IH]; intros HI Hpc Hit HA;
    pose proof (qstep_ok l s HI Hpc Hit) as Hout;
    pose proof (seq_step q o l s Hb HI Hpc HA) as Hso;
    rewrite E in Hout, Hso; simpl in Hout, Hso.
  - apply Hso. apply Hout.
  - destruct Hout as (HI' & _ & Hpc' & Hit'). apply IH; auto.
Qed.

Lemma Itr_it_ok s it q : Itr s it q -> it_ok s it.
Proof.
  intros (A & B & _ & _ & C & D). split.
  - destruct (sq_cursor q); simpl in A; [right; unfold inr; lia|left; exact A].
  - destruct (sq_last q); simpl in C; [right; unfold inr; lia|left; exact C].
Qed.

Lemma seq_op q o s ts :
  (N.of_nat (length (filter snd (sq_cells q))) < max_int32)%N -> R s ts q ->
  exists r ts' s', exec (qstart ts o) s r ts' s' /\
    r = snd (sq_step q o) /\ R s' ts' (fst (sq_step q o)).
Proof.
  intros Hb HR. pose proof HR as [[HI _] Hi].
  assert (Hit : it_ok s ts) by (eapply Itr_it_ok; eauto).
  destruct (exec_total (qstart ts o) s HI I Hit) as (r & ts' & s' & Hex).
  exists r, ts', s'. split; [exact Hex|].
  apply (seq_exec q o Hb _ _ _ _ _ Hex HI I Hit). simpl. auto.
Qed.

Lemma kill_length cells i : length (kill cells i) = length cells.
Proof. unfold kill. destruct (nth_error cells i) as [[v b]|]; [apply upd_length|reflexivity]. Qed.

Lemma sq_step_cells q o :
  length (sq_cells (fst (sq_step q o))) <= S (length (sq_cells q)).
Proof.
  destruct o as [[|v]| | | | | | | |]; simpl; try lia.
  - rewrite app_length. simpl. lia.
  - destruct (first_live_from (sq_cells q) 0) as [[i v]|]; simpl; rewrite ?kill_length; lia.
  - destruct (first_live_from (sq_cells q) 0) as [[i v]|]; simpl; lia.
  - destruct (sq_cursor q) as [c|]; simpl; [|lia].
    destruct (first_live_from (sq_cells q) (S c)) as [[i v]|]; simpl; lia.
  - destruct (sq_last q) as [c|]; simpl; rewrite ?kill_length; lia.
Qed.

Lemma R_init : R qinit qiter0 (SQ [] None 0 None).
Proof.
  split; [split; [apply QInv_init|reflexivity]|].
  unfold Itr; simpl. repeat split; auto; lia.
Qed.

(** (2a) one thread running any program from the initial queue returns
    exactly what the reference list returns *)
Theorem jdk_sequential_refines_list : forall ops,
  (N.of_nat (length ops) < max_int32)%N ->
  exists n, forall m, n <= m ->
    rets (trace jdk (jdk_init [ops]) (repeat 0 m)) = snd (sq_run (SQ [] None 0 None) ops).
Proof.
  intros ops Hb.
  apply (seq_run sq sq_step
           (fun ops s ts q => R s ts q /\
              (N.of_nat (length (sq_cells q) + length ops) < max_int32)%N)).
  - intros o rest s ts a [HR Hlen].
    pose proof (filter_len snd (sq_cells a)) as Hfl. simpl length in Hlen.
    destruct (seq_op a o s ts) as (r & ts' & s' & Hex & Hr & HR'); [lia|exact HR|].
    exists r, ts', s'. split; [exact Hex|]. split; [exact Hr|]. split; [exact HR'|].
    pose proof (sq_step_cells a o). lia.
  - split; [apply R_init|]. simpl. exact Hb.
Qed.

Print Assumptions jdk_sequential_refines_list.

(** ** (2b) agreement with the abstract queue at quiescence, after ANY concurrent phase *)

Notation solo_returns := (AdderSpec.solo_returns jdk).

Lemma exec_solo_returns ts o s r ts' s' :
  exec (qstart ts o) s r ts' s' -> solo_returns ts s o r.
Proof.
  intros Hex. destruct (run_exec_fresh ts o s r ts' s' [] Hex) as [n Hn].
  exists n. unfold trace, mk_thread. rewrite Hn. simpl. auto.
Qed.

(** the shared state of every reachable configuration still starts with the dead dummy node *)
Lemma reach_dummy progs sched :
  let s := c_sh (final jdk (jdk_init progs) sched) in
  QInv s /\ cellsq s = (0, false) :: tl (cellsq s).
Proof.
  intros s. destruct (CInv_final progs sched) as [HI _]. fold s in HI. split; [exact HI|].
  pose proof (jdk_monotone progs [] sched) as Hle. simpl in Hle. fold s in Hle.
  assert (H1 : inr qinit 1) by (unfold inr, len; simpl; lia).
  pose proof (le_dead _ _ Hle 1 H1 eq_refl) as Hd.
  pose proof (le_val _ _ Hle 1 H1) as Hv. change (val qinit 1) with 0 in Hv.
  assert (H1' : inr s 1) by (eapply inr_le; eauto).
  pose proof (cellsq_nth s 1 H1') as Hn. simpl in Hn. rewrite Hd, Hv in Hn.
  destruct (cellsq s) as [|x r]; [discriminate|]. simpl in Hn. injection Hn as ->. reflexivity.
Qed.

Lemma absq_cells s cells :
  cellsq s = (0, false) :: cells -> absq s = map fst (filter snd cells).
Proof.
  intros Hc. unfold absq, absl.
  assert (E : forall l, map n_val (filter n_live l) = map fst (filter snd (map cellof l))).
  { induction l as [|a l IH]; [reflexivity|]. simpl. destruct (n_live a); simpl; rewrite IH; reflexivity. }
  rewrite E. fold (cellsq s). rewrite Hc. reflexivity.
Qed.

(** Size at quiescence returns the number of queued elements (below MaxInt32) *)
Theorem jdk_quiescent_size : forall progs sched,
  let s := c_sh (final jdk (jdk_init progs) sched) in
  (N.of_nat (length (absq s)) < max_int32)%N ->
  solo_returns qiter0 s Size (RSize (N.of_nat (length (absq s)))).
Proof.
  intros progs sched s Hb. destruct (reach_dummy progs sched) as [HI Hc]. fold s in HI, Hc.
  pose proof (absq_cells s _ Hc) as Ha.
  set (q := SQ (tl (cellsq s)) None 0 None).
  assert (HR : R s qiter0 q).
  { split; [split; [exact HI|exact Hc]|]. unfold Itr; simpl. repeat split; auto; lia. }
  destruct (seq_op q Size s qiter0) as (r & ts' & s' & Hex & Hr & _); [|exact HR|].
  { simpl. rewrite Ha, map_length in Hb. exact Hb. }
  simpl in Hr. subst r. rewrite Ha, map_length. eapply exec_solo_returns; eauto.
Qed.

Print Assumptions jdk_quiescent_size.

(** *** Offer / Poll / Peek / IsEmpty run alone from any state satisfying the
    invariant behave as the sequential FIFO queue on [absq] *)

Lemma exec_lin o : fifo_op o = true ->
  forall l s r ts s', exec l s r ts s' -> forall pend,
  QInv s -> pc_ok s (l_pc l) -> it_ok s (l_it l) -> pend_ok o (l_pc l) pend ->
  (pend = None -> r = snd (fifo_spec (absq s) o) /\ absq s' = fst (fifo_spec (absq s) o)) /\
  (forall r0, pend = Some r0 -> r = r0 /\ absq s' = absq s).
Proof.
  intros Hf. induction 1 as [l s r ts s' E|l s l' s1 r ts s' E Hex IH]; intros pend HI Hpc Hit Hp;
    pose proof (qstep_ok l s HI Hpc Hit) as Hout;
    destruct (qstep_lin o l s pend HI Hpc Hf Hp) as [Hnone Hlo];
    rewrite E in Hout, Hlo; simpl in Hout, Hlo; destruct Hlo as [Ha Hp'].
  - destruct (jdk_lp o l s).
    + specialize (Hnone eq_refl). subst pend. injection Hp' as <-. split; [auto|discriminate].
    + split.
      * intros ->. discriminate.
      * intros r0 ->. injection Hp' as <-. auto.
  - destruct Hout as (HI' & _ & Hpc' & Hit').
    destruct (jdk_lp o l s).
    + specialize (Hnone eq_refl). subst pend.
      destruct (IH _ HI' Hpc' Hit' Hp') as [_ H2]. destruct (H2 _ eq_refl) as [-> Hs'].
      split; [|discriminate]. intros _. split; [reflexivity|]. rewrite Hs'. exact Ha.
    + destruct (IH _ HI' Hpc' Hit' Hp') as [H1 H2]. rewrite Ha in H1, H2. split; assumption.
Qed.

Lemma fifo_exec o s ts :
  fifo_op o = true -> QInv s -> it_ok s ts ->
  exists r ts' s', exec (qstart ts o) s r ts' s' /\
    r = snd (fifo_spec (absq s) o) /\ absq s' = fst (fifo_spec (absq s) o) /\
    QInv s' /\ it_ok s' ts'.
Proof.
  intros Hf HI Hit.
  destruct (exec_total (qstart ts o) s HI I Hit) as (r & ts' & s' & Hex).
  exists r, ts', s'. split; [exact Hex|].
  destruct (exec_lin o Hf _ _ _ _ _ Hex None HI I Hit) as [H1 _]; [simpl; auto|].
  destruct (H1 eq_refl) as [Hr Ha].
  destruct (exec_ok _ _ _ _ _ Hex HI I Hit) as (HI' & _ & Hit'). auto.
Qed.

Lemma it_ok_0 s : it_ok s qiter0.
Proof. split; left; reflexivity. Qed.

(** a fresh thread running alone any FIFO operation in the shared state of a
    reachable configuration returns what the sequential queue on [absq] returns *)
Theorem jdk_quiescent_fifo_op : forall progs sched o,
  let s := c_sh (final jdk (jdk_init progs) sched) in
  fifo_op o = true -> solo_returns qiter0 s o (snd (fifo_spec (absq s) o)).
Proof.
  intros progs sched o s Hf. destruct (CInv_final progs sched) as [HI _]. fold s in HI.
  destruct (fifo_exec o s qiter0 Hf HI (it_ok_0 s)) as (r & ts' & s' & Hex & -> & _).
  eapply exec_solo_returns; eauto.
Qed.

(** ... and any program of FIFO operations run alone from there returns the
    values of the sequential queue started at [absq] *)
Theorem jdk_quiescent_fifo : forall progs sched ops,
  let s := c_sh (final jdk (jdk_init progs) sched) in
  (forall o, In o ops -> fifo_op o = true) ->
  exists n, forall m, n <= m ->
    rets (trace jdk (cfg1 s (mk_thread qlocal qiter0 ops)) (repeat 0 m)) =
    snd (spec_run (list nat) fifo_spec (absq s) ops).
Proof.
  intros progs sched ops s Hf. destruct (CInv_final progs sched) as [HI _]. fold s in HI.
  apply (seq_run (list nat) fifo_spec
           (fun ops s ts a => QInv s /\ it_ok s ts /\ absq s = a /\
                              forall o, In o ops -> fifo_op o = true)).
  - intros o rest s0 ts a (HI0 & Hit0 & <- & Hf0).
    destruct (fifo_exec o s0 ts (Hf0 o (or_introl eq_refl)) HI0 Hit0)
      as (r & ts' & s' & Hex & Hr & Ha & HI' & Hit').
    exists r, ts', s'. split; [exact Hex|]. split; [exact Hr|].
    split; [exact HI'|]. split; [exact Hit'|]. split; [exact Ha|].
    intros o' Ho'. apply Hf0. right. exact Ho'.
  - split; [exact HI|]. split; [apply it_ok_0|]. split; [reflexivity|exact Hf].
Qed.

Lemma drain_spec a :
  snd (spec_run (list nat) fifo_spec a (repeat Poll (S (length a)))) = map RVal a ++ [RVal 0].
Proof.
  induction a as [|x a IH]; [reflexivity|].
  change (repeat Poll (S (length (x :: a)))) with (Poll :: repeat Poll (S (length a))).
  cbn [spec_run MutexProofs.fifo_spec].
  destruct (spec_run (list nat) fifo_spec a (repeat Poll (S (length a)))) as [a2 rs].
  simpl in *. rewrite IH. reflexivity.
Qed.

(** a full drain returns the abstract queue in order, then nil *)
Theorem jdk_quiescent_drain : forall progs sched,
  let s := c_sh (final jdk (jdk_init progs) sched) in
  exists n, forall m, n <= m ->
    rets (trace jdk (cfg1 s (mk_thread qlocal qiter0 (repeat Poll (S (length (absq s)))))) (repeat 0 m)) =
    map RVal (absq s) ++ [RVal 0].
Proof.
  intros progs sched s.
  destruct (jdk_quiescent_fifo progs sched (repeat Poll (S (length (absq s))))) as [n Hn].
  - intros o Ho. apply repeat_spec in Ho. subst o. reflexivity.
  - exists n. intros m Hm. fold s in Hn. rewrite (Hn m Hm). apply drain_spec.
Qed.

Print Assumptions jdk_quiescent_fifo_op.
Print Assumptions jdk_quiescent_drain.
