(** Generic interleaving semantics for the hand-written step machines.

    A component model is a [machine]: every API operation is a small program
    whose steps each perform exactly ONE access to shared memory (a
    sync/atomic call, a lock operation, or - when [m_silent] says so - a
    plain load/store) followed by thread-private computation.  A
    configuration holds the shared state and any number of threads, each
    with the list of operations it still has to call.  [run] executes an
    arbitrary schedule (a list of thread ids); a schedule entry naming a
    finished, blocked or non-existent thread is a no-op, so EVERY list is a
    schedule and theorems simply quantify over all of them.

    The same executable [run]/[replay] is extracted to OCaml and driven with
    the schedules the real Go code was executed under (correspondence). *)
From Coq Require Import List Arith Bool Lia.
Import ListNotations.

Set Implicit Arguments.

Section Conc.
Variables shared tstate local op ret : Type.

Inductive outcome :=
| Next (l : local) (s : shared)
| Done (r : ret) (ts : tstate) (s : shared)
| Blocked
| Fault.

Record machine := Machine {
  m_start : tstate -> op -> local;      (* local state at the invocation *)
  m_step : local -> shared -> outcome;  (* one shared access + private code *)
  m_silent : local -> bool              (* next access is a plain (non-sync) one *)
}.

Record thread := Thread {
  t_prog : list op;                 (* operations still to be invoked *)
  t_ts : tstate;                    (* thread-owned objects (e.g. its iterator) *)
  t_cur : option (op * local);      (* the call in progress *)
  t_dead : bool                     (* faulted *)
}.

Record config := Config { c_sh : shared; c_thr : list thread }.

Inductive event :=
| EInv (t : nat) (o : op)
| ERet (t : nat) (o : op) (r : ret)
| EFault (t : nat) (o : op).

Fixpoint upd {A} (l : list A) (i : nat) (x : A) : list A :=
  match l, i with
  | [], _ => []
  | _ :: r, O => x :: r
  | a :: r, S j => a :: upd r j x
  end.

Variable M : machine.

(** the (operation, local state) thread [th] will step from, and whether
    that step is the invocation of a new call *)
Definition view (th : thread) : option (op * local * bool) :=
  if t_dead th then None else
  match t_cur th with
  | Some (o, l) => Some (o, l, false)
  | None => match t_prog th with
            | o :: _ => Some (o, m_start M (t_ts th) o, true)
            | [] => None
            end
  end.

Definition rest_prog (th : thread) (fresh : bool) : list op :=
  if fresh then tl (t_prog th) else t_prog th.

Definition step_thread (c : config) (t : nat) : option (config * list event) :=
  match nth_error (c_thr c) t with
  | None => None
  | Some th =>
    match view th with
    | None => None
    | Some (o, l, fresh) =>
      let inv := if fresh then [EInv t o] else [] in
      let pr := rest_prog th fresh in
      match m_step M l (c_sh c) with
      | Next l' s' =>
          Some (Config s' (upd (c_thr c) t (Thread pr (t_ts th) (Some (o, l')) false)), inv)
      | Done r ts' s' =>
          Some (Config s' (upd (c_thr c) t (Thread pr ts' None false)), inv ++ [ERet t o r])
      | Blocked => None
      | Fault =>
          Some (Config (c_sh c) (upd (c_thr c) t (Thread pr (t_ts th) None true)), inv ++ [EFault t o])
      end
    end
  end.

Definition step_cfg (c : config) (t : nat) : config :=
  match step_thread c t with Some (c', _) => c' | None => c end.

Definition step_evs (c : config) (t : nat) : list event :=
  match step_thread c t with Some (_, e) => e | None => [] end.

Fixpoint run (c : config) (sched : list nat) : config * list event :=
  match sched with
  | [] => (c, [])
  | t :: s => let '(c', e') := run (step_cfg c t) s in (c', step_evs c t ++ e')
  end.

Definition final (c : config) (sched : list nat) : config := fst (run c sched).
Definition trace (c : config) (sched : list nat) : list event := snd (run c sched).

Definition mk_thread (ts0 : tstate) (p : list op) : thread := Thread p ts0 None false.
Definition init (s0 : shared) (ts0 : tstate) (progs : list (list op)) : config :=
  Config s0 (map (mk_thread ts0) progs).

Definition reachable (c0 c : config) : Prop := exists sched, final c0 sched = c.

(** Replay of an implementation schedule: an entry [t] is one logged (sync)
    access of thread [t]; the plain accesses that follow it in program order
    are executed right behind it, as in the controlled Go run. *)
Fixpoint drain (fuel : nat) (c : config) (t : nat) : config * list event :=
  match fuel with
  | O => (c, [])
  | S f =>
    match nth_error (c_thr c) t with
    | Some th =>
      match view th with
      | Some (_, l, false) =>
          if m_silent M l then
            match step_thread c t with
            | Some (c', e) => let '(c'', e') := drain f c' t in (c'', e ++ e')
            | None => (c, [])
            end
          else (c, [])
      | _ => (c, [])
      end
    | None => (c, [])
    end
  end.

(** [None]: the schedule asked for a step the model cannot take (blocked,
    finished, or pending plain access) - a correspondence mismatch. *)
Definition replay_step (fuel : nat) (c : config) (t : nat) : option (config * list event) :=
  match step_thread c t with
  | Some (c', e) => let '(c'', e') := drain fuel c' t in Some (c'', e ++ e')
  | None => None
  end.

Fixpoint replay (fuel : nat) (c : config) (sched : list nat) : option (config * list event) :=
  match sched with
  | [] => Some (c, [])
  | t :: s =>
    match replay_step fuel c t with
    | Some (c', e) =>
      match replay fuel c' s with
      | Some (c'', e') => Some (c'', e ++ e')
      | None => None
      end
    | None => None
    end
  end.

(** ** Generic facts *)

Lemma nth_error_upd {A} (l : list A) i j x :
  nth_error (upd l i x) j =
  if Nat.eqb i j then (match nth_error l i with Some _ => Some x | None => None end)
  else nth_error l j.
Proof.
  revert i j; induction l as [|a l IH]; intros i j; simpl.
  - destruct (Nat.eqb i j); destruct i, j; reflexivity.
  - destruct i, j; simpl; try reflexivity. apply IH.
Qed.

Lemma upd_length {A} (l : list A) i x : length (upd l i x) = length l.
Proof. revert i; induction l as [|a l IH]; intros [|i]; simpl; auto. Qed.

Lemma final_nil c : final c [] = c.
Proof. reflexivity. Qed.

Lemma final_cons c t s : final c (t :: s) = final (step_cfg c t) s.
Proof. unfold final; simpl. destruct (run (step_cfg c t) s); reflexivity. Qed.

Lemma final_app c s1 s2 : final c (s1 ++ s2) = final (final c s1) s2.
Proof.
  revert c; induction s1 as [|t s1 IH]; intros c; simpl.
  - reflexivity.
  - rewrite !final_cons. apply IH.
Qed.

Lemma trace_cons c t s : trace c (t :: s) = step_evs c t ++ trace (step_cfg c t) s.
Proof. unfold trace; simpl. destruct (run (step_cfg c t) s); reflexivity. Qed.

(** invariants: preserved by every step => hold in every reachable configuration *)
Lemma invariant_run (P : config -> Prop) c0 :
  P c0 ->
  (forall c t c' e, P c -> step_thread c t = Some (c', e) -> P c') ->
  forall sched, P (final c0 sched).
Proof.
  intros H0 Hstep sched; revert c0 H0.
  induction sched as [|t s IH]; intros c0 H0.
  - exact H0.
  - rewrite final_cons. apply IH. unfold step_cfg.
    destruct (step_thread c0 t) as [[c' e]|] eqn:E; [eapply Hstep; eauto | exact H0].
Qed.

Lemma reachable_refl c : reachable c c.
Proof. exists []; reflexivity. Qed.

Lemma reachable_step c0 c t : reachable c0 c -> reachable c0 (step_cfg c t).
Proof.
  intros [s Hs]. exists (s ++ [t]). rewrite final_app, Hs. reflexivity.
Qed.

Lemma nth_upd {A} (l : list A) i j x d :
  nth j (upd l i x) d = if Nat.eqb i j then (if Nat.ltb i (length l) then x else d) else nth j l d.
Proof.
  revert i j; induction l as [|a l IH]; intros i j; simpl.
  - destruct (Nat.eqb i j); destruct i, j; reflexivity.
  - destruct i, j; simpl; try reflexivity. rewrite IH.
    destruct (Nat.eqb i j); [|reflexivity].
    change (S i <? S (length l)) with (i <? length l). reflexivity.
Qed.

(** a step of thread [t] leaves every other thread untouched *)
Lemma step_cfg_other c t t' :
  t' <> t -> nth_error (c_thr (step_cfg c t)) t' = nth_error (c_thr c) t'.
Proof.
  intros Hne. unfold step_cfg, step_thread.
  destruct (nth_error (c_thr c) t) as [th|] eqn:Hn; [|reflexivity].
  destruct (view th) as [[[o l] fresh]|]; [|reflexivity].
  destruct (m_step M l (c_sh c)); simpl; try reflexivity;
    rewrite nth_error_upd; destruct (Nat.eqb t t') eqn:E; try reflexivity;
    apply Nat.eqb_eq in E; congruence.
Qed.

Lemma step_cfg_length c t : length (c_thr (step_cfg c t)) = length (c_thr c).
Proof.
  unfold step_cfg, step_thread.
  destruct (nth_error (c_thr c) t) as [th|]; [|reflexivity].
  destruct (view th) as [[[o l] fresh]|]; [|reflexivity].
  destruct (m_step M l (c_sh c)); simpl; try reflexivity; apply upd_length.
Qed.

End Conc.

Arguments Next {shared tstate local ret}.
Arguments Done {shared tstate local ret}.
Arguments Blocked {shared tstate local ret}.
Arguments Fault {shared tstate local ret}.
Arguments EInv {op ret}.
Arguments ERet {op ret}.
Arguments EFault {op ret}.
