(** Linearizability at fixed points, as an executable check over executions.

    [lp o l s = true] marks the step a call of [o] is about to take from local
    state [l] in shared state [s] as THE instant at which the call takes
    effect.  The ghost run applies the sequential specification [aspec] at
    every marked step (recording the abstract result for that thread) and, at
    every return, compares the value actually returned with the recorded one.
    [g_ok] stays true iff
      - every call that returns had exactly one marked step, which is one of
        its own steps and therefore lies between its invocation and return,
      - no call is marked twice, and no thread faults,
      - the values returned are exactly those of the sequential object run in
        the order of the marked steps.
    A theorem [forall progs sched, g_ok (...) = true] is therefore
    linearizability (with explicit linearization points) for every client
    program and every interleaving. *)
From Coq Require Import List Arith Bool Lia.
From Garr Require Import Conc.Conc.
Import ListNotations.

Set Implicit Arguments.

Section Lin.
Variables shared tstate local op ret astate : Type.
Variable M : machine shared tstate local op ret.
Variable ret_eqb : ret -> ret -> bool.
Variable aspec : astate -> op -> astate * ret.
Variable lp : op -> local -> shared -> bool.

Record gstate := GState { g_abs : astate; g_pend : list (option ret); g_ok : bool }.

Definition pend_of (g : gstate) (t : nat) : option ret := nth t (g_pend g) None.

Definition do_lp (g : gstate) (t : nat) (o : op) : gstate :=
  let '(a', r) := aspec (g_abs g) o in
  GState a' (upd (g_pend g) t (Some r))
         (g_ok g && match pend_of g t with None => true | Some _ => false end).

Definition do_ret (g : gstate) (t : nat) (r : ret) : gstate :=
  GState (g_abs g) (upd (g_pend g) t None)
         (g_ok g && match pend_of g t with Some r' => ret_eqb r r' | None => false end).

Definition gstep (c : config shared tstate local op) (g : gstate) (t : nat) : gstate :=
  match nth_error (c_thr c) t with
  | None => g
  | Some th =>
    match view M th with
    | None => g
    | Some (o, l, _) =>
      match m_step M l (c_sh c) with
      | Blocked => g
      | Fault => GState (g_abs g) (g_pend g) false
      | Next _ _ => if lp o l (c_sh c) then do_lp g t o else g
      | Done r _ _ => do_ret (if lp o l (c_sh c) then do_lp g t o else g) t r
      end
    end
  end.

Fixpoint grun (c : config shared tstate local op) (g : gstate) (sched : list nat)
  : config shared tstate local op * gstate :=
  match sched with
  | [] => (c, g)
  | t :: s => grun (step_cfg M c t) (gstep c g t) s
  end.

Definition ginit (a0 : astate) (n : nat) : gstate := GState a0 (repeat None n) true.

(** linearizable (at the points [lp]) for this client program and schedule *)
Definition lin_ok (s0 : shared) (ts0 : tstate) (a0 : astate)
           (progs : list (list op)) (sched : list nat) : bool :=
  g_ok (snd (grun (init local s0 ts0 progs) (ginit a0 (length progs)) sched)).

Lemma pend_do_lp_other g t o t' : t' <> t -> pend_of (do_lp g t o) t' = pend_of g t'.
Proof.
  intros Hne. unfold do_lp, pend_of. destruct (aspec (g_abs g) o). simpl.
  rewrite nth_upd. destruct (Nat.eqb t t') eqn:E; [apply Nat.eqb_eq in E; congruence|reflexivity].
Qed.

Lemma pend_do_ret_other g t r t' : t' <> t -> pend_of (do_ret g t r) t' = pend_of g t'.
Proof.
  intros Hne. unfold do_ret, pend_of. simpl.
  rewrite nth_upd. destruct (Nat.eqb t t') eqn:E; [apply Nat.eqb_eq in E; congruence|reflexivity].
Qed.

Lemma gstep_pend_other c g t t' : t' <> t -> pend_of (gstep c g t) t' = pend_of g t'.
Proof.
  intros Hne. unfold gstep.
  destruct (nth_error (c_thr c) t) as [th|]; [|reflexivity].
  destruct (view M th) as [[[o l] fresh]|]; [|reflexivity].
  destruct (m_step M l (c_sh c)); try reflexivity.
  - destruct (lp o l (c_sh c)); [apply pend_do_lp_other; assumption|reflexivity].
  - rewrite pend_do_ret_other by assumption.
    destruct (lp o l (c_sh c)); [apply pend_do_lp_other; assumption|reflexivity].
Qed.

Lemma pend_do_lp_same g t o :
  t < length (g_pend g) -> pend_of (do_lp g t o) t = Some (snd (aspec (g_abs g) o)).
Proof.
  intros H. unfold do_lp, pend_of. destruct (aspec (g_abs g) o) as [a r]. simpl.
  rewrite nth_upd, Nat.eqb_refl. destruct (Nat.ltb_spec t (length (g_pend g))); [reflexivity|lia].
Qed.

Lemma abs_do_lp g t o : g_abs (do_lp g t o) = fst (aspec (g_abs g) o).
Proof. unfold do_lp. destruct (aspec (g_abs g) o). reflexivity. Qed.

Lemma ok_do_lp g t o :
  g_ok (do_lp g t o) = g_ok g && match pend_of g t with None => true | Some _ => false end.
Proof. unfold do_lp. destruct (aspec (g_abs g) o). reflexivity. Qed.

Lemma pend_do_ret_same g t r : t < length (g_pend g) -> pend_of (do_ret g t r) t = None.
Proof.
  intros H. unfold do_ret, pend_of. simpl.
  rewrite nth_upd, Nat.eqb_refl. destruct (Nat.ltb_spec t (length (g_pend g))); [reflexivity|lia].
Qed.

Lemma do_ret_length g t r : length (g_pend (do_ret g t r)) = length (g_pend g).
Proof. unfold do_ret; simpl. apply upd_length. Qed.

Lemma do_lp_length g t o : length (g_pend (do_lp g t o)) = length (g_pend g).
Proof. unfold do_lp. destruct (aspec (g_abs g) o). simpl. apply upd_length. Qed.

Lemma gstep_pend_length c g t : length (g_pend (gstep c g t)) = length (g_pend g).
Proof.
  unfold gstep.
  destruct (nth_error (c_thr c) t) as [th|]; [|reflexivity].
  destruct (view M th) as [[[o l] fresh]|]; [|reflexivity].
  destruct (m_step M l (c_sh c)); try reflexivity.
  - destruct (lp o l (c_sh c)); [apply do_lp_length|reflexivity].
  - unfold do_ret; simpl. rewrite upd_length.
    destruct (lp o l (c_sh c)); [apply do_lp_length|reflexivity].
Qed.

Lemma grun_fst c g sched : fst (grun c g sched) = final M c sched.
Proof.
  revert c g; induction sched as [|t s IH]; intros c g; simpl.
  - reflexivity.
  - rewrite final_cons. apply IH.
Qed.

(** proof principle: a simulation invariant between concrete configuration and
    ghost state that keeps [g_ok] true *)
Lemma lin_by_invariant (I : config shared tstate local op -> gstate -> Prop) c0 g0 :
  I c0 g0 -> g_ok g0 = true ->
  (forall c g t, I c g -> g_ok g = true ->
      I (step_cfg M c t) (gstep c g t) /\ g_ok (gstep c g t) = true) ->
  forall sched, g_ok (snd (grun c0 g0 sched)) = true /\
                I (fst (grun c0 g0 sched)) (snd (grun c0 g0 sched)).
Proof.
  intros HI Hok Hstep sched; revert c0 g0 HI Hok.
  induction sched as [|t s IH]; intros c0 g0 HI Hok; simpl.
  - split; assumption.
  - destruct (Hstep c0 g0 t HI Hok) as [HI' Hok']. apply IH; assumption.
Qed.

End Lin.
