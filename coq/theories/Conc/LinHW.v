(** The executable linearizability check of [Lin.v] implies linearizability in
    the classical sense of Herlihy & Wing (TOPLAS 1990), proved once and for
    all, generically in the machine [M], the sequential specification [aspec]
    and the marking [lp] of linearization points.

    Herlihy & Wing: a (well-formed) history H is linearizable iff it can be
    extended, by appending responses to some of its pending invocations, to a
    history H' such that complete(H') (= H' without the invocations that are
    still pending) is equivalent to a legal sequential history S whose order
    contains the real-time order of H ("if the response of call a occurs in H
    before the invocation of call b, then a is before b in S").

    Formalisation used here, for a trace [e : list event]:
      - [calls_of e]  the completed calls of [e]: every [ERet t o r] at
        position j is matched with the open invocation [EInv t _] of the same
        thread, at position i; it yields [Call t o r i j];
      - [open_of e t] the invocation of thread [t] that is still pending at
        the end of [e] (position and operation), if any;
      - [well_formed e] every thread alternates invocations and matching
        responses (H&W only consider such histories);
      - the sequential history S is a list [w] of calls; it consists of the
        completed calls and of [extras]: calls made from pending invocations
        of [e] (at most one per thread, hence at most one per pending
        invocation), whose response is placed at a position [>= length e],
        i.e. is one of the responses appended to H to obtain H'.  The pending
        invocations not used in [extras] are the ones dropped by complete();
      - [legal a0 w]: running the sequential object from [a0] through the
        operations of [w], in this order, yields exactly the returned values;
      - [rt_order w]: no call of [w] is placed before a call that precedes it
        in real time.  (An extra never precedes anything, but it can be
        preceded: this constrains the place of the extras too, as in H&W.)

    Main theorem [lin_ok_hw]:
      lin_ok M ret_eqb aspec lp s0 ts0 a0 progs sched = true ->
      hw_linearizable a0 (trace M (init local s0 ts0 progs) sched). *)
From Coq Require Import List Arith Bool Lia Permutation.
From Garr Require Import Conc.Conc Conc.Lin.
Import ListNotations.

Set Implicit Arguments.

Section LinHW.
Variables shared tstate local op ret astate : Type.
Variable M : machine shared tstate local op ret.
Variable ret_eqb : ret -> ret -> bool.
Variable aspec : astate -> op -> astate * ret.
Variable lp : op -> local -> shared -> bool.
Hypothesis ret_eqb_eq : forall a b, ret_eqb a b = true -> a = b.

(** * Histories, calls, Herlihy-Wing linearizability *)

(** a call: thread, operation, returned value, positions (in the trace) of its
    invocation event and of its response event *)
Record call := Call { k_thread : nat; k_op : op; k_ret : ret; k_inv : nat; k_res : nat }.

Definition setf {A} (f : nat -> A) (t : nat) (v : A) : nat -> A :=
  fun t' => if Nat.eqb t t' then v else f t'.

(** state of the left-to-right scan of a trace: number of events read, the
    open (pending) invocation of every thread, the completed calls so far (in
    the order of their responses), well-formedness of what was read *)
Record scan := Scan {
  s_n : nat;
  s_open : nat -> option (nat * op);
  s_done : list call;
  s_wf : Prop
}.

Definition scan_ev (sg : scan) (ev : event op ret) : scan :=
  match ev with
  | EInv t o =>
      Scan (S (s_n sg)) (setf (s_open sg) t (Some (s_n sg, o))) (s_done sg)
           (s_wf sg /\ s_open sg t = None)
  | ERet t o r =>
      Scan (S (s_n sg)) (setf (s_open sg) t None)
           (match s_open sg t with
            | Some (i, _) => s_done sg ++ [Call t o r i (s_n sg)]
            | None => s_done sg
            end)
           (s_wf sg /\ exists i, s_open sg t = Some (i, o))
  | EFault t o =>
      Scan (S (s_n sg)) (setf (s_open sg) t None) (s_done sg)
           (s_wf sg /\ exists i, s_open sg t = Some (i, o))
  end.

Definition scan0 : scan := Scan 0 (fun _ => None) [] True.
Definition scan_of (e : list (event op ret)) : scan := fold_left scan_ev e scan0.

(** the completed calls of [e] *)
Definition calls_of (e : list (event op ret)) : list call := s_done (scan_of e).
(** the pending invocation of thread [t] at the end of [e] *)
Definition open_of (e : list (event op ret)) (t : nat) : option (nat * op) := s_open (scan_of e) t.
(** per-thread alternation: an invocation only when the thread has no open
    call, a response (or fault) only for the open call, with the same operation *)
Definition well_formed (e : list (event op ret)) : Prop := s_wf (scan_of e).

(** real-time order: the response of [a] occurs before the invocation of [b] *)
Definition precedes (a b : call) : Prop := k_res a < k_inv b.

(** [l] is a legal sequential history of the object started in state [a] *)
Fixpoint legal (a : astate) (l : list call) : Prop :=
  match l with
  | [] => True
  | k :: r => snd (aspec a (k_op k)) = k_ret k /\ legal (fst (aspec a (k_op k))) r
  end.

(** the order of [w] extends the real-time order *)
Definition rt_order (w : list call) : Prop :=
  forall i j ki kj, i < j -> nth_error w i = Some ki -> nth_error w j = Some kj ->
    ~ precedes kj ki.

Definition hw_linearizable (a0 : astate) (e : list (event op ret)) : Prop :=
  well_formed e /\
  exists (w extras : list call),
    (* w = the completed calls, each exactly once, plus the extras *)
    Permutation w (calls_of e ++ extras) /\
    (* an extra is a pending invocation of e (same thread, operation and
       position) completed by a response appended behind e *)
    (forall x, In x extras ->
       open_of e (k_thread x) = Some (k_inv x, k_op x) /\ length e <= k_res x) /\
    (* at most one extra per thread, i.e. per pending invocation *)
    NoDup (map k_thread extras) /\
    legal a0 w /\
    rt_order w.

(** * List lemmas *)

Fixpoint run_spec (a : astate) (l : list call) : astate :=
  match l with
  | [] => a
  | k :: r => run_spec (fst (aspec a (k_op k))) r
  end.

Lemma legal_snoc a l x :
  legal a l -> snd (aspec (run_spec a l) (k_op x)) = k_ret x -> legal a (l ++ [x]).
Proof.
  revert a; induction l as [|k l IH]; intros a Hl Hx; simpl in *.
  - split; [exact Hx|exact I].
  - destruct Hl as [Hk Hl]. split; [exact Hk|]. apply IH; assumption.
Qed.

Lemma run_spec_snoc a l x :
  run_spec a (l ++ [x]) = fst (aspec (run_spec a l) (k_op x)).
Proof. revert a; induction l as [|k l IH]; intros a; simpl; [reflexivity|apply IH]. Qed.

(** [ord a b]: the invocation of [a] lies before the response of [b] *)
Definition ord (a b : call) : Prop := k_inv a < k_res b.

Lemma FOP_snoc (l : list call) x :
  ForallOrdPairs ord l -> (forall y, In y l -> ord y x) -> ForallOrdPairs ord (l ++ [x]).
Proof.
  induction l as [|a l IH]; intros Hl Hx; simpl.
  - constructor; constructor.
  - inversion Hl as [|a' l' Ha Hl']; subst. constructor.
    + apply Forall_app; split; [exact Ha|]. constructor; [|constructor].
      apply Hx; left; reflexivity.
    + apply IH; [exact Hl'|]. intros y Hy; apply Hx; right; exact Hy.
Qed.

Lemma FOP_rt_order (w : list call) : ForallOrdPairs ord w -> rt_order w.
Proof.
  intros H; induction H as [|a l Ha Hl IH]; intros i j ki kj Hij Hi Hj.
  - destruct i; discriminate.
  - destruct j as [|j]; [lia|]. simpl in Hj. destruct i as [|i]; simpl in Hi.
    + injection Hi as <-. apply nth_error_In in Hj.
      rewrite Forall_forall in Ha. specialize (Ha _ Hj). unfold ord, precedes in *. lia.
    + apply (IH i j ki kj); [lia|assumption|assumption].
Qed.

(** [rel k k']: same call, response moved to a later position *)
Definition rel (k k' : call) : Prop :=
  k_thread k = k_thread k' /\ k_op k = k_op k' /\ k_ret k = k_ret k' /\
  k_inv k = k_inv k' /\ k_res k <= k_res k'.

Lemma rel_refl k : rel k k.
Proof. unfold rel; repeat split; lia. Qed.

Lemma Forall2_rel_refl l : Forall2 rel l l.
Proof. induction l; constructor; [apply rel_refl|assumption]. Qed.

Lemma Forall2_rel_replace l1 l2 x x' :
  rel x x' -> Forall2 rel (l1 ++ x :: l2) (l1 ++ x' :: l2).
Proof.
  intros H. apply Forall2_app; [apply Forall2_rel_refl|].
  constructor; [exact H|apply Forall2_rel_refl].
Qed.

Lemma legal_rel l l' : Forall2 rel l l' -> forall a, legal a l -> legal a l'.
Proof.
  induction 1 as [|k k' l l' Hk Hl IH]; intros a Hleg; simpl in *; [exact I|].
  destruct Hk as (_ & Ho & Hr & _). rewrite <- Ho, <- Hr.
  destruct Hleg as [H1 H2]. split; [exact H1|apply IH; exact H2].
Qed.

Lemma run_spec_rel l l' : Forall2 rel l l' -> forall a, run_spec a l = run_spec a l'.
Proof.
  induction 1 as [|k k' l l' Hk Hl IH]; intros a; simpl; [reflexivity|].
  destruct Hk as (_ & Ho & _). rewrite <- Ho. apply IH.
Qed.

Lemma Forall_ord_rel a a' l l' :
  rel a a' -> Forall2 rel l l' -> Forall (ord a) l -> Forall (ord a') l'.
Proof.
  intros Ha H; induction H as [|k k' l l' Hk Hl IH]; intros HF; constructor;
    inversion HF as [|k0 l0 H1 H2]; subst.
  - unfold ord, rel in *. lia.
  - apply IH; exact H2.
Qed.

Lemma FOP_rel l l' : Forall2 rel l l' -> ForallOrdPairs ord l -> ForallOrdPairs ord l'.
Proof.
  induction 1 as [|k k' l l' Hk Hl IH]; intros HF; [constructor|].
  inversion HF as [|k0 l0 H1 H2]; subst. constructor.
  - eapply Forall_ord_rel; eassumption.
  - apply IH; exact H2.
Qed.

(** moving the responses of all the calls of [P] to position [n] *)
Definition bump (n : nat) (k : call) : call :=
  Call (k_thread k) (k_op k) (k_ret k) (k_inv k) n.

Lemma bump_all n (P : list call) :
  (forall x, In x P -> k_res x <= n) ->
  forall L D, Permutation L (D ++ P) ->
  exists L', Forall2 rel L L' /\ Permutation L' (D ++ map (bump n) P).
Proof.
  induction P as [|x P IH]; intros HP L D Hperm.
  - exists L. split; [apply Forall2_rel_refl|exact Hperm].
  - assert (Hin : In x L).
    { eapply Permutation_in; [apply Permutation_sym; exact Hperm|].
      apply in_or_app; right; left; reflexivity. }
    apply in_split in Hin. destruct Hin as (L1 & L2 & ->).
    apply Permutation_app_inv in Hperm.
    destruct (IH (fun y Hy => HP y (or_intror Hy)) _ _ Hperm) as (L' & HF & HP').
    apply Forall2_app_inv_l in HF. destruct HF as (L1' & L2' & HF1 & HF2 & ->).
    exists (L1' ++ bump n x :: L2'). split.
    + apply Forall2_app; [exact HF1|]. constructor; [|exact HF2].
      unfold rel, bump; simpl. repeat split. apply HP; left; reflexivity.
    + simpl. apply Permutation_sym. eapply Permutation_trans.
      * apply Permutation_sym. apply Permutation_middle.
      * eapply Permutation_trans; [|apply Permutation_middle].
        constructor. apply Permutation_sym. exact HP'.
Qed.

(** * The monitor invariant *)

Section Monitor.
Variable a0 : astate.

(** [sg]: scan state of the trace emitted so far; [L]: the calls whose
    linearization point has occurred, in the order of these points (a call
    that has not returned yet carries a provisional response position);
    [P]: those calls of [L] that have not returned yet *)
Record MInv (g : gstate ret astate) (sg : scan) (L P : list call) : Prop := {
  I_wf : s_wf sg;
  I_open : forall t i o, s_open sg t = Some (i, o) -> i < s_n sg;
  I_perm : Permutation L (s_done sg ++ P);
  I_P : forall x, In x P ->
          s_open sg (k_thread x) = Some (k_inv x, k_op x) /\
          pend_of g (k_thread x) = Some (k_ret x);
  I_Pnd : NoDup (map k_thread P);
  I_pend : forall t r, pend_of g t = Some r -> exists x, In x P /\ k_thread x = t;
  I_legal : legal a0 L;
  I_abs : g_abs g = run_spec a0 L;
  I_ord : ForallOrdPairs ord L;
  I_res : forall x, In x L -> k_inv x < s_n sg /\ k_res x <= s_n sg
}.

Lemma setf_same {A} (f : nat -> A) t v : setf f t v t = v.
Proof. unfold setf. rewrite Nat.eqb_refl. reflexivity. Qed.

Lemma setf_other {A} (f : nat -> A) t v t' : t' <> t -> setf f t v t' = f t'.
Proof.
  intros H. unfold setf. destruct (Nat.eqb t t') eqn:E; [|reflexivity].
  apply Nat.eqb_eq in E. congruence.
Qed.

(** an invocation event *)
Lemma mon_inv g sg L P t o :
  MInv g sg L P -> s_open sg t = None -> MInv g (scan_ev sg (EInv t o)) L P.
Proof.
  intros H Hopen.
  destruct H as [I_wf0 I_open0 I_perm0 I_P0 I_Pnd0 I_pend0 I_legal0 I_abs0 I_ord0 I_res0].
  constructor; simpl; try assumption.
  - split; assumption.
  - intros t' i o' Ho. unfold setf in Ho. destruct (Nat.eqb t t').
    + injection Ho as <- <-. lia.
    + apply I_open0 in Ho. lia.
  - intros x Hx. destruct (I_P0 x Hx) as [H1 H2]. split; [|exact H2].
    rewrite setf_other; [exact H1|]. intros E. rewrite E in H1. congruence.
  - intros x Hx. destruct (I_res0 x Hx). lia.
Qed.

(** a linearization point of the open call of thread [t] *)
Lemma mon_lp g sg L P t i o :
  MInv g sg L P -> s_open sg t = Some (i, o) -> t < length (g_pend g) ->
  g_ok (do_lp aspec g t o) = true ->
  exists L' P', MInv (do_lp aspec g t o) sg L' P'.
Proof.
  intros H Hopen Hlen Hok. rewrite ok_do_lp in Hok. apply andb_prop in Hok.
  destruct Hok as [_ Hnone]. destruct (pend_of g t) as [r0|] eqn:Hpend; [discriminate|].
  clear Hnone. destruct H as [I_wf0 I_open0 I_perm0 I_P0 I_Pnd0 I_pend0 I_legal0 I_abs0 I_ord0 I_res0].
  set (x := Call t o (snd (aspec (g_abs g) o)) i (s_n sg)).
  assert (Hnot : forall y, In y P -> k_thread y <> t).
  { intros y Hy E. destruct (I_P0 y Hy) as [_ H2]. rewrite E in H2. congruence. }
  exists (L ++ [x]), (P ++ [x]). constructor.
  - assumption.
  - assumption.
  - rewrite app_assoc. apply Permutation_app_tail. assumption.
  - intros y Hy. apply in_app_or in Hy. destruct Hy as [Hy|[<-|[]]].
    + destruct (I_P0 y Hy) as [H1 H2]. split; [exact H1|].
      rewrite pend_do_lp_other; [exact H2|]. apply Hnot; exact Hy.
    + simpl. split; [exact Hopen|]. apply pend_do_lp_same. exact Hlen.
  - rewrite map_app. simpl. apply NoDup_rev in I_Pnd0.
    rewrite <- (rev_involutive (map k_thread P ++ [t])). apply NoDup_rev.
    rewrite rev_app_distr. simpl. constructor; [|exact I_Pnd0].
    intros Hin. apply in_rev in Hin. apply in_map_iff in Hin.
    destruct Hin as (y & Hy1 & Hy2). exact (Hnot y Hy2 Hy1).
  - intros t' r Hp. destruct (Nat.eq_dec t' t) as [->|Hne].
    + exists x. split; [apply in_or_app; right; left; reflexivity|reflexivity].
    + rewrite pend_do_lp_other in Hp by exact Hne.
      destruct (I_pend0 t' r Hp) as (y & Hy & Ht). exists y. split; [|exact Ht].
      apply in_or_app; left; exact Hy.
  - apply legal_snoc; [assumption|]. simpl. rewrite <- I_abs0. reflexivity.
  - rewrite abs_do_lp, run_spec_snoc. simpl. rewrite <- I_abs0. reflexivity.
  - apply FOP_snoc; [assumption|]. intros y Hy. unfold ord; simpl.
    destruct (I_res0 y Hy). lia.
  - intros y Hy. apply in_app_or in Hy. destruct Hy as [Hy|[<-|[]]].
    + apply I_res0; exact Hy.
    + simpl. apply I_open0 in Hopen. lia.
Qed.

(** an optional linearization point *)
Lemma mon_lp_opt (b : bool) g sg L P t i o :
  MInv g sg L P -> s_open sg t = Some (i, o) -> t < length (g_pend g) ->
  g_ok (if b then do_lp aspec g t o else g) = true ->
  exists L' P', MInv (if b then do_lp aspec g t o else g) sg L' P'.
Proof.
  destruct b; [apply mon_lp|]. intros H _ _ _. exists L, P. exact H.
Qed.

(** the response of the open call of thread [t] *)
Lemma mon_ret g sg L P t i o r :
  MInv g sg L P -> s_open sg t = Some (i, o) -> t < length (g_pend g) ->
  g_ok (do_ret ret_eqb g t r) = true ->
  exists L' P', MInv (do_ret ret_eqb g t r) (scan_ev sg (ERet t o r)) L' P'.
Proof.
  intros H Hopen Hlen Hok. simpl in Hok. apply andb_prop in Hok.
  destruct Hok as [_ Hr]. destruct (pend_of g t) as [r0|] eqn:Hpend; [|discriminate].
  apply ret_eqb_eq in Hr. subst r0. destruct H as [I_wf0 I_open0 I_perm0 I_P0 I_Pnd0 I_pend0 I_legal0 I_abs0 I_ord0 I_res0].
  destruct (I_pend0 t r Hpend) as (x & HxP & Hxt).
  destruct (I_P0 x HxP) as [Hx1 Hx2]. rewrite Hxt in Hx1, Hx2.
  rewrite Hopen in Hx1. injection Hx1 as Hxi Hxo. rewrite Hpend in Hx2. injection Hx2 as Hxr.
  set (x' := Call t o r i (s_n sg)).
  assert (HxL : In x L).
  { eapply Permutation_in; [apply Permutation_sym; exact I_perm0|].
    apply in_or_app; right; exact HxP. }
  destruct (I_res0 x HxL) as [Hxinv Hxres].
  assert (Hrel : rel x x').
  { unfold rel, x'; simpl. repeat split; congruence || lia. }
  apply in_split in HxP. destruct HxP as (P1 & P2 & ->).
  apply in_split in HxL. destruct HxL as (L1 & L2 & ->).
  assert (Hnot : forall y, In y (P1 ++ P2) -> k_thread y <> t).
  { intros y Hy E. rewrite map_app in I_Pnd0. simpl in I_Pnd0.
    apply NoDup_remove_2 in I_Pnd0. apply I_Pnd0. rewrite Hxt, <- E, <- map_app.
    apply in_map. exact Hy. }
  assert (HF : Forall2 rel (L1 ++ x :: L2) (L1 ++ x' :: L2))
    by (apply Forall2_rel_replace; exact Hrel).
  exists (L1 ++ x' :: L2), (P1 ++ P2). constructor; simpl.
  - split; [assumption|]. exists i. exact Hopen.
  - intros t' i' o' Ho. unfold setf in Ho. destruct (Nat.eqb t t'); [discriminate|].
    apply I_open0 in Ho. lia.
  - rewrite Hopen. fold x'. rewrite app_assoc in I_perm0.
    apply Permutation_app_inv in I_perm0.
    apply Permutation_sym. eapply Permutation_trans; [|apply Permutation_middle].
    rewrite <- app_assoc. simpl. eapply Permutation_trans.
    + apply Permutation_sym. apply Permutation_middle.
    + constructor. rewrite app_assoc. apply Permutation_sym. exact I_perm0.
  - intros y Hy. assert (HyP : In y (P1 ++ x :: P2)).
    { apply in_app_or in Hy. apply in_or_app. destruct Hy as [Hy|Hy]; [left|right; right]; exact Hy. }
    destruct (I_P0 y HyP) as [H1 H2]. specialize (Hnot y Hy). split.
    + rewrite setf_other; assumption.
    + rewrite pend_do_ret_other; assumption.
  - rewrite map_app in *. simpl in I_Pnd0. eapply NoDup_remove_1. exact I_Pnd0.
  - intros t' r' Hp. destruct (Nat.eq_dec t' t) as [->|Hne].
    + rewrite pend_do_ret_same in Hp by exact Hlen. discriminate.
    + rewrite pend_do_ret_other in Hp by exact Hne.
      destruct (I_pend0 t' r' Hp) as (y & Hy & Ht). exists y. split; [|exact Ht].
      apply in_app_or in Hy. apply in_or_app. destruct Hy as [Hy|[Hy|Hy]]; [left; exact Hy| |right; exact Hy].
      subst y. congruence.
  - eapply legal_rel; eassumption.
  - rewrite I_abs0. apply run_spec_rel. exact HF.
  - eapply FOP_rel; eassumption.
  - intros y Hy. apply in_app_or in Hy. destruct Hy as [Hy|[<-|Hy]].
    + destruct (I_res0 y) as [Ha Hb]; [apply in_or_app; left; exact Hy|]. lia.
    + simpl. lia.
    + destruct (I_res0 y) as [Ha Hb]; [apply in_or_app; right; right; exact Hy|]. lia.
Qed.

End Monitor.

(** * Link with the machine *)

(** thread [t] has an open invocation in the emitted trace iff it has a call
    in progress (of the same operation); no thread is dead *)
Definition thr_ok (sg : scan) (t : nat) (th : thread tstate local op) : Prop :=
  t_dead th = false /\
  match t_cur th with
  | Some (o, _) => exists i, s_open sg t = Some (i, o)
  | None => s_open sg t = None
  end.

Definition CInv (c : config shared tstate local op) (g : gstate ret astate) (sg : scan) : Prop :=
  length (g_pend g) = length (c_thr c) /\
  forall t th, nth_error (c_thr c) t = Some th -> thr_ok sg t th.

Lemma cinv_upd c g sg t s' th' g' sg' :
  CInv c g sg ->
  length (g_pend g') = length (g_pend g) ->
  (forall t', t' <> t -> s_open sg' t' = s_open sg t') ->
  thr_ok sg' t th' ->
  CInv (Config s' (upd (c_thr c) t th')) g' sg'.
Proof.
  intros [Hlen Hthr] Hlen' Hother Hnew. split; simpl.
  - rewrite upd_length. congruence.
  - intros t' th Hn. rewrite nth_error_upd in Hn. destruct (Nat.eqb t t') eqn:E.
    + apply Nat.eqb_eq in E. subst t'.
      destruct (nth_error (c_thr c) t); [|discriminate]. injection Hn as <-. exact Hnew.
    + apply Nat.eqb_neq in E. specialize (Hthr t' th Hn). unfold thr_ok in *.
      rewrite Hother by congruence. exact Hthr.
Qed.

Notation gstep' := (gstep M ret_eqb aspec lp).
Notation grun' := (grun M ret_eqb aspec lp).

Lemma do_ret_ok_inv (g : gstate ret astate) t r :
  g_ok (do_ret ret_eqb g t r) = true -> g_ok g = true.
Proof. simpl. intros H. apply andb_prop in H. apply H. Qed.

(** the part of a step that follows the invocation event (if any): thread [t]
    has the open call [o] and steps from local state [l]; [sg0] is the scan
    state before the invocation event *)
Lemma step_body a0 c g sg0 sg L P t th i o (l : local) (pr : list op) :
  CInv c g sg0 ->
  (forall t', t' <> t -> s_open sg t' = s_open sg0 t') ->
  MInv a0 g sg L P ->
  nth_error (c_thr c) t = Some th ->
  s_open sg t = Some (i, o) ->
  forall g' c' evs,
  match m_step M l (c_sh c) with
  | Next l' s' =>
      g' = (if lp o l (c_sh c) then do_lp aspec g t o else g) /\
      c' = Config s' (upd (c_thr c) t (Thread pr (t_ts th) (Some (o, l')) false)) /\
      evs = []
  | Done r ts' s' =>
      g' = do_ret ret_eqb (if lp o l (c_sh c) then do_lp aspec g t o else g) t r /\
      c' = Config s' (upd (c_thr c) t (Thread pr ts' None false)) /\
      evs = [ERet t o r]
  | Blocked => False
  | Fault => g' = GState (g_abs g) (g_pend g) false
  end ->
  g_ok g' = true ->
  exists L' P', CInv c' g' (fold_left scan_ev evs sg) /\ MInv a0 g' (fold_left scan_ev evs sg) L' P'.
Proof.
  intros HC Hagree HM Hn Hopen g' c' evs Hstep Hok.
  assert (Hlt : t < length (g_pend g)).
  { destruct HC as [Hlen _]. rewrite Hlen. apply nth_error_Some. congruence. }
  destruct (m_step M l (c_sh c)) as [l' s'|r ts' s'| |].
  - destruct Hstep as (-> & -> & ->). simpl.
    destruct (mon_lp_opt (lp o l (c_sh c)) HM Hopen Hlt Hok) as (L' & P' & HM').
    exists L', P'. split; [|exact HM'].
    eapply cinv_upd; [exact HC| |exact Hagree|].
    + destruct (lp o l (c_sh c)); [apply do_lp_length|reflexivity].
    + split; [reflexivity|]. simpl. exists i. exact Hopen.
  - destruct Hstep as (-> & -> & ->). simpl.
    pose proof (do_ret_ok_inv _ _ _ Hok) as Hok1.
    destruct (mon_lp_opt (lp o l (c_sh c)) HM Hopen Hlt Hok1) as (L1 & P1 & HM1).
    assert (Hlen1 : length (g_pend (if lp o l (c_sh c) then do_lp aspec g t o else g))
                    = length (g_pend g))
      by (destruct (lp o l (c_sh c)); [apply do_lp_length|reflexivity]).
    assert (Hlt1 : t < length (g_pend (if lp o l (c_sh c) then do_lp aspec g t o else g)))
      by (rewrite Hlen1; exact Hlt).
    destruct (mon_ret r HM1 Hopen Hlt1 Hok) as (L' & P' & HM').
    exists L', P'. split; [|exact HM'].
    eapply cinv_upd; [exact HC| | |].
    + rewrite do_ret_length. exact Hlen1.
    + intros t' Hne. simpl. rewrite setf_other by exact Hne. apply Hagree. exact Hne.
    + split; [reflexivity|]. simpl. apply setf_same.
  - destruct Hstep.
  - subst g'. discriminate.
Qed.

Lemma step_inv a0 c g sg L P t :
  CInv c g sg -> MInv a0 g sg L P ->
  g_ok (gstep' c g t) = true ->
  exists L' P',
    CInv (step_cfg M c t) (gstep' c g t) (fold_left scan_ev (step_evs M c t) sg) /\
    MInv a0 (gstep' c g t) (fold_left scan_ev (step_evs M c t) sg) L' P'.
Proof.
  intros HC HM Hok.
  unfold step_cfg, step_evs, step_thread, gstep in *.
  destruct (nth_error (c_thr c) t) as [th|] eqn:Hn; [|exists L, P; split; assumption].
  destruct (proj2 HC t th Hn) as [Hdead Hcur].
  unfold view, rest_prog in *. rewrite Hdead in *.
  destruct (t_cur th) as [[o l]|] eqn:Ecur.
  - (* a call in progress *)
    destruct Hcur as [i Hopen].
    destruct (m_step M l (c_sh c)) as [l' s'|r ts' s'| |] eqn:Em.
    + eapply (step_body l (t_prog th) HC (fun t' _ => eq_refl) HM Hn Hopen);
        [rewrite Em|exact Hok].
      repeat split; reflexivity.
    + eapply (step_body l (t_prog th) HC (fun t' _ => eq_refl) HM Hn Hopen);
        [rewrite Em|exact Hok].
      repeat split; reflexivity.
    + exists L, P; split; assumption.
    + discriminate.
  - (* a new invocation *)
    destruct (t_prog th) as [|o pr] eqn:Eprog; [exists L, P; split; assumption|].
    simpl tl.
    set (l := m_start M (t_ts th) o) in *.
    pose proof (mon_inv t o HM Hcur) as HM1.
    assert (Hagree : forall t', t' <> t ->
              s_open (scan_ev sg (EInv t o)) t' = s_open sg t')
      by (intros t' Hne; simpl; apply setf_other; exact Hne).
    assert (Hopen : s_open (scan_ev sg (EInv t o)) t = Some (s_n sg, o))
      by (simpl; apply setf_same).
    destruct (m_step M l (c_sh c)) as [l' s'|r ts' s'| |] eqn:Em.
    + change (fold_left scan_ev ([EInv t o]) sg)
        with (fold_left scan_ev [] (scan_ev sg (EInv t o))).
      eapply (step_body l pr HC Hagree HM1 Hn Hopen); [rewrite Em|exact Hok].
      repeat split; reflexivity.
    + change (fold_left scan_ev ([EInv t o] ++ [ERet t o r]) sg)
        with (fold_left scan_ev [ERet t o r] (scan_ev sg (EInv t o))).
      eapply (step_body l pr HC Hagree HM1 Hn Hopen); [rewrite Em|exact Hok].
      repeat split; reflexivity.
    + exists L, P; split; assumption.
    + discriminate.
Qed.

(** [g_ok] never comes back to [true] *)
Lemma gstep_ok_false c (g : gstate ret astate) t :
  g_ok g = false -> g_ok (gstep' c g t) = false.
Proof.
  intros H. unfold gstep.
  destruct (nth_error (c_thr c) t) as [th|]; [|exact H].
  destruct (view M th) as [[[o l] fresh]|]; [|exact H].
  destruct (m_step M l (c_sh c)); try exact H; try reflexivity.
  - destruct (lp o l (c_sh c)); [|exact H]. rewrite ok_do_lp, H. reflexivity.
  - simpl. destruct (lp o l (c_sh c)); [rewrite ok_do_lp|]; rewrite H; reflexivity.
Qed.

Lemma grun_ok_false sched c (g : gstate ret astate) :
  g_ok g = false -> g_ok (snd (grun' c g sched)) = false.
Proof.
  revert c g; induction sched as [|t s IH]; intros c g H; simpl; [exact H|].
  apply IH. apply gstep_ok_false. exact H.
Qed.

Lemma run_inv a0 sched c g sg L P :
  CInv c g sg -> MInv a0 g sg L P ->
  g_ok (snd (grun' c g sched)) = true ->
  exists L' P', MInv a0 (snd (grun' c g sched)) (fold_left scan_ev (trace M c sched) sg) L' P'.
Proof.
  revert c g sg L P; induction sched as [|t s IH]; intros c g sg L P HC HM Hok.
  - exists L, P. exact HM.
  - simpl in Hok. rewrite trace_cons, fold_left_app. simpl grun.
    assert (Hok1 : g_ok (gstep' c g t) = true).
    { destruct (g_ok (gstep' c g t)) eqn:E; [reflexivity|].
      rewrite (grun_ok_false s _ _ E) in Hok. discriminate. }
    destruct (step_inv t HC HM Hok1) as (L1 & P1 & HC1 & HM1).
    exact (IH _ _ _ _ _ HC1 HM1 Hok).
Qed.

Lemma scan_n e sg : s_n (fold_left scan_ev e sg) = s_n sg + length e.
Proof.
  revert sg; induction e as [|ev e IH]; intros sg; simpl; [lia|].
  rewrite IH. destruct ev; simpl; lia.
Qed.

(** * Main theorem *)

Theorem lin_ok_hw s0 ts0 a0 progs sched :
  lin_ok M ret_eqb aspec lp s0 ts0 a0 progs sched = true ->
  hw_linearizable a0 (trace M (init local s0 ts0 progs) sched).
Proof.
  unfold lin_ok. intros Hok.
  set (c0 := init local s0 ts0 progs) in *.
  set (g0 := ginit ret a0 (length progs)) in *.
  assert (HC : CInv c0 g0 scan0).
  { split.
    - simpl. rewrite repeat_length, map_length. reflexivity.
    - intros t th Hn. simpl in Hn. apply nth_error_In in Hn. apply in_map_iff in Hn.
      destruct Hn as (p & <- & _). split; reflexivity. }
  assert (HM : MInv a0 g0 scan0 [] []).
  { constructor; simpl; try (intros; contradiction || discriminate).
    - exact I.
    - constructor.
    - constructor.
    - intros t r Hp. unfold pend_of in Hp. simpl in Hp.
      assert (Hin : nth t (repeat (@None ret) (length progs)) None = None).
      { destruct (nth_in_or_default t (repeat (@None ret) (length progs)) None) as [Hin|Hd];
          [apply repeat_spec in Hin; exact Hin|exact Hd]. }
      congruence.
    - exact I.
    - reflexivity.
    - constructor. }
  destruct (run_inv sched HC HM Hok) as (L & P & HF).
  set (e := trace M c0 sched) in *. fold (scan_of e) in HF.
  destruct HF as [Hwf Hopen Hperm HP Hnd Hpend Hleg Habs Hord Hres].
  assert (Hn : s_n (scan_of e) = length e) by (unfold scan_of; rewrite scan_n; reflexivity).
  split; [exact Hwf|].
  assert (HPres : forall x, In x P -> k_res x <= length e).
  { intros x Hx. rewrite <- Hn. apply Hres.
    eapply Permutation_in; [apply Permutation_sym; exact Hperm|].
    apply in_or_app; right; exact Hx. }
  destruct (bump_all P HPres _ Hperm) as (w & HF & Hw).
  exists w, (map (bump (length e)) P). split; [exact Hw|]. split; [|split; [|split]].
  - intros x Hx. apply in_map_iff in Hx. destruct Hx as (y & <- & Hy). simpl.
    split; [|lia]. apply HP. exact Hy.
  - rewrite map_map. simpl. exact Hnd.
  - eapply legal_rel; eassumption.
  - apply FOP_rt_order. eapply FOP_rel; eassumption.
Qed.

(** * What [calls_of], [open_of] and [well_formed] compute

    A declarative reading of the scan, for well-formed traces: a completed
    call [k] is an [EInv] event at position [k_inv k] and an [ERet] event at
    position [k_res k] of the same thread and operation, with no event of this
    thread in between; every [ERet] event gives a completed call; the open
    invocation of a thread is its last event. *)

Definition ev_thread (ev : event op ret) : nat :=
  match ev with EInv t _ => t | ERet t _ _ => t | EFault t _ => t end.

Lemma scan_of_snoc e ev : scan_of (e ++ [ev]) = scan_ev (scan_of e) ev.
Proof. unfold scan_of. rewrite fold_left_app. reflexivity. Qed.

Lemma nth_error_snoc {A} (e : list A) x m y :
  nth_error (e ++ [x]) m = Some y ->
  (m < length e /\ nth_error e m = Some y) \/ (m = length e /\ y = x).
Proof.
  intros H. destruct (Nat.lt_ge_cases m (length e)) as [Hlt|Hge].
  - left. rewrite nth_error_app1 in H by exact Hlt. split; assumption.
  - right. rewrite nth_error_app2 in H by exact Hge.
    destruct (m - length e) as [|d] eqn:E.
    + simpl in H. injection H as <-. split; [lia|reflexivity].
    + simpl in H. destruct d; discriminate.
Qed.

Lemma nth_error_snoc_l {A} (e : list A) x m y :
  nth_error e m = Some y -> nth_error (e ++ [x]) m = Some y.
Proof.
  intros H. rewrite nth_error_app1; [exact H|]. apply nth_error_Some. congruence.
Qed.

Lemma nth_error_snoc_last {A} (e : list A) x : nth_error (e ++ [x]) (length e) = Some x.
Proof. rewrite nth_error_app2 by lia. rewrite Nat.sub_diag. reflexivity. Qed.

Definition open_spec (e : list (event op ret)) : Prop :=
  forall t i o, open_of e t = Some (i, o) ->
    nth_error e i = Some (EInv t o) /\
    forall m ev, i < m -> nth_error e m = Some ev -> ev_thread ev <> t.

Definition call_spec (e : list (event op ret)) (k : call) : Prop :=
  k_inv k < k_res k /\
  nth_error e (k_inv k) = Some (EInv (k_thread k) (k_op k)) /\
  nth_error e (k_res k) = Some (ERet (k_thread k) (k_op k) (k_ret k)) /\
  forall m ev, k_inv k < m < k_res k -> nth_error e m = Some ev -> ev_thread ev <> k_thread k.

Definition calls_complete (e : list (event op ret)) : Prop :=
  forall j t o r, nth_error e j = Some (ERet t o r) -> exists i, In (Call t o r i j) (calls_of e).

Lemma open_spec_snoc_other e ev t' :
  open_spec e -> ev_thread ev <> t' ->
  forall i o, open_of e t' = Some (i, o) ->
    nth_error (e ++ [ev]) i = Some (EInv t' o) /\
    forall m ev', i < m -> nth_error (e ++ [ev]) m = Some ev' -> ev_thread ev' <> t'.
Proof.
  intros Ho Hne i o Hopen. destruct (Ho t' i o Hopen) as [H1 H2]. split.
  - apply nth_error_snoc_l. exact H1.
  - intros m ev' Hm Hnth. apply nth_error_snoc in Hnth.
    destruct Hnth as [[_ Hnth]|[_ ->]]; [eapply H2; eassumption|exact Hne].
Qed.

Lemma call_spec_snoc e ev k : call_spec e k -> call_spec (e ++ [ev]) k.
Proof.
  intros (H1 & H2 & H3 & H4). split; [exact H1|]. split; [|split].
  - apply nth_error_snoc_l; exact H2.
  - apply nth_error_snoc_l; exact H3.
  - intros m ev' Hm Hnth. apply nth_error_snoc in Hnth.
    destruct Hnth as [[_ Hnth]|[-> _]]; [eapply H4; eassumption|].
    assert (k_res k < length e) by (apply nth_error_Some; congruence). lia.
Qed.

Theorem scan_spec e :
  well_formed e ->
  s_n (scan_of e) = length e /\ open_spec e /\
  (forall k, In k (calls_of e) -> call_spec e k) /\ calls_complete e.
Proof.
  induction e as [|ev e IH] using rev_ind; intros Hwf.
  - split; [reflexivity|]. split; [|split].
    + intros t i o H. discriminate.
    + intros k [].
    + intros j t o r H. destruct j; discriminate.
  - unfold well_formed, open_spec, calls_complete, calls_of, open_of in *.
    rewrite scan_of_snoc in *. rewrite app_length, Nat.add_1_r.
    assert (Hwf0 : s_wf (scan_of e)) by (destruct ev; simpl in Hwf; apply Hwf).
    destruct (IH Hwf0) as (Hn & Hopen & Hcalls & Hcomp). clear IH.
    split; [destruct ev; simpl; rewrite Hn; reflexivity|].
    destruct ev as [t o|t o r|t o]; simpl in Hwf |- *.
    + (* EInv *)
      split; [|split].
      * intros t' i o' H. unfold setf in H. destruct (Nat.eqb t t') eqn:E.
        -- apply Nat.eqb_eq in E. subst t'. injection H as <- <-. rewrite Hn. split.
           ++ apply nth_error_snoc_last.
           ++ intros m ev' Hm Hnth. apply nth_error_snoc in Hnth. lia.
        -- apply Nat.eqb_neq in E. apply open_spec_snoc_other; assumption.
      * intros k Hk. apply call_spec_snoc. apply Hcalls. exact Hk.
      * intros j t' o' r' Hnth. apply nth_error_snoc in Hnth.
        destruct Hnth as [[_ Hnth]|[_ Heq]]; [|discriminate]. eapply Hcomp; exact Hnth.
    + (* ERet *)
      destruct Hwf as [_ [i Hi]]. rewrite Hi.
      destruct (Hopen t i o Hi) as [Hi1 Hi2].
      assert (Hilt : i < length e) by (apply nth_error_Some; congruence).
      split; [|split].
      * intros t' i' o' H. unfold setf in H. destruct (Nat.eqb t t') eqn:E; [discriminate|].
        apply Nat.eqb_neq in E. apply open_spec_snoc_other; assumption.
      * intros k Hk. apply in_app_or in Hk. destruct Hk as [Hk|[<-|[]]].
        -- apply call_spec_snoc. apply Hcalls. exact Hk.
        -- unfold call_spec; simpl. rewrite Hn. split; [exact Hilt|]. split; [|split].
           ++ apply nth_error_snoc_l. exact Hi1.
           ++ apply nth_error_snoc_last.
           ++ intros m ev' Hm Hnth. apply nth_error_snoc in Hnth.
              destruct Hnth as [[_ Hnth]|[-> _]]; [|lia]. eapply Hi2; [|exact Hnth]. lia.
      * intros j t' o' r' Hnth. apply nth_error_snoc in Hnth.
        destruct Hnth as [[_ Hnth]|[-> Heq]].
        -- destruct (Hcomp _ _ _ _ Hnth) as [i' Hi']. exists i'.
           apply in_or_app; left; exact Hi'.
        -- injection Heq as -> -> ->. exists i. rewrite Hn.
           apply in_or_app; right; left; reflexivity.
    + (* EFault *)
      split; [|split].
      * intros t' i' o' H. unfold setf in H. destruct (Nat.eqb t t') eqn:E; [discriminate|].
        apply Nat.eqb_neq in E. apply open_spec_snoc_other; assumption.
      * intros k Hk. apply call_spec_snoc. apply Hcalls. exact Hk.
      * intros j t' o' r' Hnth. apply nth_error_snoc in Hnth.
        destruct Hnth as [[_ Hnth]|[_ Heq]]; [|discriminate]. eapply Hcomp; exact Hnth.
Qed.

(** * The witness in "occurs before" form *)

Lemma hw_linearizable_before a0 e :
  hw_linearizable a0 e ->
  exists w,
    legal a0 w /\
    (forall k, In k (calls_of e) -> In k w) /\
    (forall a b, In a (calls_of e) -> In b (calls_of e) -> precedes a b ->
       exists i j, i < j /\ nth_error w i = Some a /\ nth_error w j = Some b).
Proof.
  intros (Hwf & w & extras & Hperm & _ & _ & Hleg & Hord).
  assert (Hin : forall k, In k (calls_of e) -> In k w).
  { intros k Hk. eapply Permutation_in; [apply Permutation_sym; exact Hperm|].
    apply in_or_app; left; exact Hk. }
  exists w. split; [exact Hleg|]. split; [exact Hin|].
  intros a b Ha Hb Hab.
  destruct (In_nth_error _ _ (Hin a Ha)) as [i Hi].
  destruct (In_nth_error _ _ (Hin b Hb)) as [j Hj].
  exists i, j. split; [|split; assumption].
  destruct (scan_spec e Hwf) as (_ & _ & Hcalls & _).
  destruct (Hcalls a Ha) as (Ha1 & _). destruct (Hcalls b Hb) as (Hb1 & _).
  unfold precedes in Hab.
  destruct (Nat.lt_total i j) as [Hlt|[Heq|Hgt]]; [exact Hlt| |].
  - subst j. rewrite Hi in Hj. injection Hj as <-. lia.
  - exfalso. exact (Hord j i b a Hgt Hj Hi Hab).
Qed.

End LinHW.

Print Assumptions lin_ok_hw.
Print Assumptions scan_spec.
Print Assumptions hw_linearizable_before.

(** * Sanity checks of the definition on a read/write register

    operations: [Some v] = write v (returns 0), [None] = read (returns the
    current value); initial value 0. *)
Module RegisterExamples.

Definition rspec (a : nat) (o : option nat) : nat * nat :=
  match o with Some v => (v, 0) | None => (a, a) end.

(** sequential history: write 1 returns, then a read returns the old value 0:
    NOT linearizable *)
Definition stale : list (event (option nat) nat) :=
  [EInv 0 (Some 1); ERet 0 (Some 1) 0; EInv 1 None; ERet 1 None 0].

Example stale_not_linearizable : ~ hw_linearizable rspec 0 stale.
Proof.
  intros (_ & w & extras & Hperm & Hex & _ & Hleg & Hord).
  destruct extras as [|x extras].
  - vm_compute in Hperm. apply Permutation_sym in Hperm.
    apply Permutation_length_2_inv in Hperm. destruct Hperm as [-> | ->].
    + simpl in Hleg. destruct Hleg as (_ & Hr & _). discriminate.
    + apply (Hord 0 1 _ _ (Nat.lt_0_succ 0) eq_refl eq_refl). vm_compute. lia.
  - destruct (Hex x (or_introl eq_refl)) as [Ho _]. revert Ho.
    unfold open_of, stale. simpl. unfold setf.
    destruct (Nat.eqb 1 (k_thread x)); [discriminate|].
    destruct (Nat.eqb 0 (k_thread x)); discriminate.
Qed.

(** the same read overlapping the write: linearizable (read first) *)
Definition overlap : list (event (option nat) nat) :=
  [EInv 0 (Some 1); EInv 1 None; ERet 0 (Some 1) 0; ERet 1 None 0].

Example overlap_linearizable : hw_linearizable rspec 0 overlap.
Proof.
  split.
  - vm_compute. repeat split; eexists; reflexivity.
  - exists [Call 1 None 0 1 3; Call 0 (Some 1) 0 0 2], []. split; [|split; [|split; [|split]]].
    + vm_compute. apply perm_swap.
    + intros x [].
    + constructor.
    + simpl. repeat split.
    + intros [|[|i]] [|[|j]] ki kj Hij Hi Hj; simpl in Hi, Hj; try lia;
        try (destruct i; discriminate); try (destruct j; discriminate).
      injection Hi as <-. injection Hj as <-. unfold precedes; simpl. lia.
Qed.

(** a read returns 1 while the write of 1 is still pending: linearizable, and
    only thanks to the pending write taken as an extra (its effect is visible) *)
Definition pending_write : list (event (option nat) nat) :=
  [EInv 0 (Some 1); EInv 1 None; ERet 1 None 1].

Example pending_write_linearizable : hw_linearizable rspec 0 pending_write.
Proof.
  split.
  - vm_compute. repeat split; eexists; reflexivity.
  - exists [Call 0 (Some 1) 0 0 3; Call 1 None 1 1 2], [Call 0 (Some 1) 0 0 3].
    split; [|split; [|split; [|split]]].
    + vm_compute. apply perm_swap.
    + intros x [<-|[]]. split; [reflexivity|simpl; lia].
    + repeat constructor. intros [].
    + simpl. repeat split.
    + intros [|[|i]] [|[|j]] ki kj Hij Hi Hj; simpl in Hi, Hj; try lia;
        try (destruct i; discriminate); try (destruct j; discriminate).
      injection Hi as <-. injection Hj as <-. unfold precedes; simpl. lia.
Qed.

Example pending_write_needs_extra :
  ~ (exists w, Permutation w (calls_of pending_write) /\ legal rspec 0 w).
Proof.
  intros (w & Hperm & Hleg). vm_compute in Hperm. apply Permutation_sym in Hperm.
  apply Permutation_length_1_inv in Hperm. subst w. simpl in Hleg.
  destruct Hleg as [Hr _]. discriminate.
Qed.

End RegisterExamples.
