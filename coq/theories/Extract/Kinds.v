(** What kind of shared access each model step is.  The controlled runs log,
    for every access of the real code, which operation it was (atomic load /
    store / CAS / add, Lock / RLock / Unlock / RUnlock, channel send / receive /
    close / select, wait-group, timer, context operations, and for package
    cbreaker the queue / adder method called); the replayer compares that with
    the kind of the model step it executes for that access.  0 = unspecified
    (harness steps), never compared.  The codes are those of shim/vsched. *)
From Coq Require Import List Arith ZArith.
From Garr Require Import Conc.Conc Queue.JdkModel Queue.MutexModel Adder.StripedModel Adder.SimpleModel
  Breaker.BreakerModel Pool.PoolModel.

Definition kLoad := 1. Definition kStore := 2. Definition kCas := 3. Definition kAdd := 4.
Definition kLock := 10. Definition kUnlock := 11. Definition kRLock := 12. Definition kRUnlock := 13.
Definition kSend := 20. Definition kRecv := 21. Definition kClose := 22. Definition kSelect := 23.
Definition kWgAdd := 30. Definition kWgWait := 31.
Definition kCancel := 41.
Definition kTimerNew := 50. Definition kTimerStop := 51. Definition kTimerReset := 52.
Definition kInvoke := 90. Definition kTick := 92.
Definition kqOffer := 101. Definition kqIterator := 106. Definition kqHasNext := 107.
Definition kqNext := 108. Definition kqRemove := 109.
Definition kaAdd := 111. Definition kaSum := 114.

(** queue/jdkLinkedQueue.go + node.go *)
Definition jdk_kind (l : qlocal) : nat :=
  match l_pc l with
  | Inv _ => kInvoke
  | OTail _ | ONext _ _ _ | OReTailOff _ _ _ | OHead _ _ | OReTailHop _ _ _ _ => kLoad
  | OCasNext _ _ _ | OCasTail _ _ => kCas
  | PHead | PItem _ _ | PNextAfter _ _ _ | PNext _ _ => kLoad
  | PCasItem _ _ => kCas
  | UCasHead _ _ _ => kCas
  | USetNext _ _ => kStore
  | SHead _ | SItem _ _ _ | SNext _ _ _ => kLoad
  | ZItem _ _ | ZNext _ _ => kLoad
  | NSucc1 _ | NHead1 _ | NItem _ _ | NSucc2 _ _ _ | NHead2 _ _ _ => kLoad
  | NCas _ _ _ _ => kCas
  | RSet _ => kStore
  end.

(** queue/mutexLinkedQueue.go *)
Definition mutexq_kind (l : mpc) : nat :=
  match l with
  | MInv _ => kInvoke
  | MLock o => if is_writer_op o then kLock else kRLock
  | MRead _ | MWrite _ _ => 0
  | MUnlock w _ => if w then kUnlock else kRUnlock
  end.

(** adder/striped64.go + jdkAdder.go (and the F64 pair) *)
Definition striped_kind (l : apc) : nat :=
  match l with
  | AInv _ => kInvoke
  | AddLoadTab _ | AddLoadBase _ | AddSlot _ _ _ | AddCellLoad _ _ _ => kLoad
  | AddCasBase _ _ | AddCellCas _ _ _ _ => kCas
  | L1 _ | L2 _ _ | L3 _ _ | L4 _ _ | L6 _ _ | L7 _ _ _ _ | L10 _ _ _ | L12 _ _ | L13 _ _ | L15 _ _ => kLoad
  | L3f _ _ => kStore
  | L5 _ _ | L11 _ _ _ _ | L14 _ _ => kCas
  | L8 _ _ _ _ | L9 _ _ | L16 _ _ | L17 _ => kStore
  | Lcopy _ _ _ => 0
  | C1 _ | C2 _ | C4 _ => kLoad
  | C3 _ => kCas
  | C4f _ _ _ | C5 _ _ _ | C6 _ _ => kStore
  | B1 _ => kLoad
  | B2 _ _ => kCas
  | S1 _ | S2 _ _ | S3 _ _ _ _ | S4 _ _ _ _ _ => kLoad
  | T1 _ _ | T3 _ _ _ _ | T4 _ _ _ => kStore
  | T2 _ => kLoad
  end.

(** adder/randomCellAdder.go *)
Definition rc_kind (l : rpc) : nat :=
  match l with
  | RInv _ => kInvoke
  | RAdd _ _ => kAdd
  | RSumL _ _ | RSRLoad _ _ => kLoad
  | RResetL _ | RSRStore _ _ | RStoreL _ _ => kStore
  end.

(** adder/atomicAdder.go, atomicF64Adder.go *)
Definition atomic_kind (l : tpc) : nat :=
  match l with
  | TInv _ => kInvoke
  | TAdd _ => kAdd
  | TLoad _ | TSum | TSRLoad => kLoad
  | TCas _ _ => kCas
  | TStore _ _ => kStore
  end.

(** adder/mutexAdder.go *)
Definition mutexadd_kind (l : xpc) : nat :=
  match l with
  | SimpleModel.XInv _ => kInvoke
  | SimpleModel.XLock o => if x_writer o then kLock else kRLock
  | SimpleModel.XRead _ | SimpleModel.XWrite _ _ => 0
  | SimpleModel.XUnlock w _ => if w then kUnlock else kRUnlock
  end.

(** circuit-breaker: nonBlockingCircuitBreaker.go + slidingWindowCounter.go *)
Definition breaker_kind (l : bpc) : nat :=
  match l with
  | BInv _ => kInvoke
  | CRLoad | OSLoad | OFLoad => kLoad
  | CRTick _ | CRTick2 _ | OSTick1 _ | OSTick2 _ _ | OFTick _ _ => kTick
  | CRCas _ _ | OSCas _ _ | OFCas _ _ _ => kCas
  | OSSnap _ _ => kStore
  | WTick _ _ _ => kTick
  | WCur _ _ _ _ => kLoad
  | WAddInst _ _ _ _ | WAddCur _ _ _ | WAddNext _ _ _ _ _ _ => kaAdd
  | WOfferInst _ _ _ | WOfferOld _ _ _ _ | WOfferNext _ _ _ => kqOffer
  | WCasCur _ _ _ _ _ => kCas
  | WIter _ _ _ => kqIterator
  | WHasNext _ _ _ _ _ _ => kqHasNext
  | WNext _ _ _ _ _ _ => kqNext
  | WRemove _ _ _ _ _ _ => kqRemove
  | WSumS _ _ _ _ _ _ _ | WSumF _ _ _ _ _ _ _ => kaSum
  | WSnapStore _ _ _ _ => kStore
  | WSnapLoad _ => kLoad
  end.

(** worker-pool/pool.go *)
Definition pool_kind (l : ppc) : nat :=
  match l with
  | PInv (Slot _) => 0      (* the first access of a goroutine the pool started: receive (fixed worker) or NewTimer (expanded) *)
  | PInv _ => kInvoke
  | SubRLock _ _ | StRLock => kRLock
  | SubRUnlock _ | StRUnlock => kRUnlock
  | SubClosedFut _ _ | SubFut _ _ _ | XDrainSend _ | EFut _ _ => kSend
  | SubTrySel _ | SubPush _ | SubTryDoSel _ | XSelect _ => kSelect
  | SubAddExp _ | SubSubExp _ | XExitDec => kAdd
  | SubWgAdd _ | StWgAdd | WDone | XExitDone => kWgAdd
  | XCas1 | XCas0 | XCas1b | StCas => kCas
  | XCancel => kCancel
  | XLock => kLock
  | XClose => kClose
  | XUnlock => kUnlock
  | XWait => kWgWait
  | XDrainRecv | WRecv | XDrainTimer _ _ => kRecv
  | XNewTimer => kTimerNew
  | XStopTimer _ _ => kTimerStop
  | XReset _ => kTimerReset
  | CCancel _ | GOpen _ | FFire _ | RRecv _ | RPoll _ | RNoTask
  | HBegun _ | HArmed _ | HTask _ | HExpanded _
  | EBegin _ _ | EGate _ _ | EEnd _ _ => 0
  end.
