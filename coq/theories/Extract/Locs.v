(** Which shared object the access of a model step touches: the replayer checks that two accesses of a run touch the
    same object in the implementation (same address) exactly when they touch the same location in the model.
    Tags: 1 base, 2 cellsBusy, 3 the published table pointer, 4 slot (array id, index), 5 the value of cell c;
    0 = not compared (invocations, silent steps).
    Lock-free queue: 1 the head pointer, 2 the tail pointer, 3 the next field of node n, 4 the item field of node n. *)
From Coq Require Import List Arith Bool ZArith.
From Garr Require Import Conc.Conc Adder.StripedModel Queue.JdkModel Breaker.BreakerModel.
Import ListNotations.

Definition loc := (nat * (nat * nat))%type.
Definition l_none : loc := (0, (0, 0)).
Definition l_base : loc := (1, (0, 0)).
Definition l_busy : loc := (2, (0, 0)).
Definition l_table : loc := (3, (0, 0)).
Definition l_slot (arr i : nat) : loc := (4, (arr, i)).
Definition l_cell (c : nat) : loc := (5, (c, 0)).

Definition striped_loc (l : apc) : loc :=
  match l with
  | AInv _ => l_none
  | AddLoadTab _ => l_table
  | AddLoadBase _ => l_base
  | AddCasBase _ _ => l_base
  | AddSlot _ tab probe => l_slot (fst tab) (Z.to_nat probe)
  | AddCellLoad _ _ c => l_cell c
  | AddCellCas _ _ c _ => l_cell c
  | L1 _ => l_table
  | L2 st tab => l_slot (fst tab) (slot_of (r_index st) tab)
  | L3 _ _ => l_busy
  | L3f _ r => l_cell r
  | L4 _ _ => l_busy
  | L5 _ _ => l_busy
  | L6 _ _ => l_table
  | L7 _ _ rs j => l_slot (fst rs) j
  | L8 _ _ rs j => l_slot (fst rs) j
  | L9 _ _ => l_busy
  | L10 _ _ c => l_cell c
  | L11 _ _ c _ => l_cell c
  | L12 _ _ => l_table
  | L13 _ _ => l_busy
  | L14 _ _ => l_busy
  | L15 _ _ => l_table
  | Lcopy _ _ _ => l_none
  | L16 _ _ => l_table
  | L17 _ => l_busy
  | C1 _ => l_busy
  | C2 _ => l_table
  | C3 _ => l_busy
  | C4 _ => l_table
  | C4f _ _ r => l_cell r
  | C5 st arr _ => l_slot arr (Z.to_nat (Z.land (r_index st) 1))
  | C6 _ _ => l_table
  | B1 _ => l_base
  | B2 _ _ => l_base
  | S1 _ => l_base
  | S2 _ _ => l_table
  | S3 _ _ tab i => l_slot (fst tab) i
  | S4 _ _ _ _ c => l_cell c
  | T1 _ _ => l_base
  | T2 _ => l_table
  | T3 arr _ i _ => l_slot arr i
  | T4 _ _ _ => l_table
  end.

Definition q_head_loc : loc := (1, (0, 0)).
Definition q_tail_loc : loc := (2, (0, 0)).
Definition q_next (n : nat) : loc := (3, (n, 0)).
Definition q_item (n : nat) : loc := (4, (n, 0)).

Definition jdk_loc (l : pc) : loc :=
  match l with
  | Inv _ => l_none
  | OTail _ => q_tail_loc
  | ONext _ _ p => q_next p
  | OCasNext _ _ p => q_next p
  | OCasTail _ _ => q_tail_loc
  | OReTailOff _ _ _ => q_tail_loc
  | OHead _ _ => q_head_loc
  | OReTailHop _ _ _ _ => q_tail_loc
  | PHead => q_head_loc
  | PItem _ p => q_item p
  | PCasItem _ p => q_item p
  | PNextAfter _ p _ => q_next p
  | PNext _ p => q_next p
  | UCasHead _ _ _ => q_head_loc
  | USetNext h _ => q_next h
  | SHead _ => q_head_loc
  | SItem _ _ p => q_item p
  | SNext _ _ p => q_next p
  | ZItem p _ => q_item p
  | ZNext p _ => q_next p
  | NSucc1 pred => q_next pred
  | NHead1 _ => q_head_loc
  | NItem _ p => q_item p
  | NSucc2 _ p _ => q_next p
  | NHead2 _ _ _ => q_head_loc
  | NCas pred _ _ _ => q_next pred
  | RSet l => q_item l
  end.

(* Breaker: 1 the breaker's state pointer, 2 the current-bucket pointer of window w, 3 the snapshot of window w
   (ticker readings, listener callbacks and the queue / adder operations inside package cbreaker are not compared) *)
Definition breaker_loc (l : bpc) : loc :=
  match l with
  | CRLoad | OSLoad | OFLoad => (1, (0, 0))
  | CRCas _ _ | OSCas _ _ | OFCas _ _ _ => (1, (0, 0))
  | WCur w _ _ _ => (2, (w, 0))
  | WCasCur w _ _ _ _ => (2, (w, 0))
  | WSnapStore w _ _ _ => (3, (w, 0))
  | WSnapLoad w => (3, (w, 0))
  | _ => l_none
  end.
