(** Extraction of the Tier-2 executable models (run from build/ocaml). *)
From Coq Require Extraction.
From Coq Require Import ExtrOcamlBasic.
From Garr Require Import Pure.F64 Pure.Retry Pure.Config Pure.Spec Pure.Builder.
Extraction Blacklist List String Int Bool Nat.
Extraction "pure_model.ml"
  of_bits to_bits validate exceeds failure_rate
  new_fixed new_expo new_random new_jitter new_limit next_delay with_jitter build
  parse_int parse_spec build_spec sat_mul next_incl_zero next_random wrap64
  binit bstep brun.
