(** Extraction of the concurrent step machines and the schedule replayer. *)
From Coq Require Extraction.
From Coq Require Import ExtrOcamlBasic.
From Garr Require Import Conc.Conc Queue.JdkModel Queue.MutexModel Adder.StripedModel Adder.SimpleModel Pure.F64 Pure.Config Breaker.BreakerModel Pool.PoolModel Pool.PoolOptions Extract.Kinds Extract.Locs.
Extraction Blacklist List String Int Bool Nat.
Extraction "conc_model.ml"
  replay replay_step step_thread init
  jdk qinit qiter0 mutexq minit
  jdk_adder jdk_f64_adder ainit rc_adder rinit atomic_adder atomic_f64_adder mutex_adder xinit
  breaker binit winit of_bits
  pool pinit upd_choices norm_workers norm_limit
  view jdk_kind mutexq_kind striped_kind rc_kind atomic_kind mutexadd_kind breaker_kind pool_kind striped_loc jdk_loc breaker_loc.
