(** Extraction of the concurrent step machines and the schedule replayer. *)
From Coq Require Extraction.
From Coq Require Import ExtrOcamlBasic.
From Garr Require Import Conc.Conc Queue.JdkModel Queue.MutexModel.
Extraction Blacklist List String Int Bool Nat.
Extraction "conc_model.ml"
  replay replay_step step_thread init
  jdk qinit iter0 mutexq minit.
