(** C05 for WHOLE layer stacks: whatever the builder layers over a base policy
    (any nesting of jitter and limit wrappers), for every attempt number and
    every outcome of the random source, the call returns; the result is the
    stop value -1 exactly when one of the limit layers of the stack has been
    reached, and otherwise a delay in [0, MaxInt64] - no overflow, no stop
    turned into a retry, no retry turned into a stop by a jitter layer. *)
From Coq Require Import ZArith Bool List Lia Floats.SpecFloat.
From Garr Require Import Pure.F64 Pure.Retry Pure.RetryProofs Pure.RetryFloat.
Import ListNotations.
Local Open Scope Z_scope.

(** what [NewJitterAddingBackoff] guarantees about the rates of every jitter layer *)
Fixpoint rates_ok (b : backoff) : Prop :=
  match b with
  | Jitter lo hi b' =>
      valid64 lo /\ valid64 hi /\ rate_ok lo /\ rate_ok hi /\ fleb lo hi = true /\ rates_ok b'
  | Limit _ b' => rates_ok b'
  | _ => True
  end.

(** some limit layer of the stack has been reached at attempt [n] *)
Fixpoint limit_hit (b : backoff) (n : Z) : bool :=
  match b with
  | Limit l b' => (l <=? n) || limit_hit b' n
  | Jitter _ _ b' => limit_hit b' n
  | _ => false
  end.

Theorem stack_envelope p b n rnd :
  wf b -> rates_ok b -> words rnd -> valid64 p ->
  (fltb fone p = true \/ F64.is_nan p = true) ->
  exists d rnd', next_delay p b n rnd = Some (d, rnd') /\ words rnd' /\
    (if limit_hit b n then d = -1 else 0 <= d <= max_int64).
Proof.
  intros Hwf Hr Hw Vp Hp. revert rnd Hw.
  induction b as [d|i mx m|mn mx bound|lo hi b IH|l b IH]; intros rnd Hw.
  - exists d, rnd. cbn [wf limit_hit] in *. auto.
  - cbn [wf] in Hwf. destruct Hwf as [Hi Hmx].
    destruct (next_delay p (Expo i mx m) n rnd) as [[d r]|] eqn:E.
    + pose proof (expo_ge_initial _ _ _ _ _ _ _ _ Hi Hmx Vp Hp E) as Hd.
      rewrite expo_delay in E. inversion E; subst r.
      exists d, rnd. cbn [limit_hit]. repeat split; try assumption; lia.
    + rewrite expo_delay in E; discriminate.
  - destruct (random_delay p mn mx bound n rnd Hw Hwf) as (d & rnd' & E & Hd & Hw').
    cbn [wf] in Hwf. exists d, rnd'. cbn [limit_hit]. repeat split; try assumption; lia.
  - cbn [wf] in Hwf. cbn [rates_ok] in Hr. destruct Hr as (Vlo & Vhi & Rlo & Rhi & Hle & Hr).
    destruct (IH Hwf Hr rnd Hw) as (d0 & rnd1 & E & Hw1 & Hd0).
    cbn [limit_hit].
    destruct (Z_le_gt_dec d0 0) as [Hle0|Hgt0].
    + exists d0, rnd1. split; [apply jitter_passthrough; assumption|]. split; assumption.
    + destruct (limit_hit b n); [lia|].
      destruct (jitter_band_full p lo hi b n rnd d0 rnd1 Hw1 Vlo Vhi Rlo Rhi Hle E) as
          (d & rnd2 & E2 & Hband & Hmin & Hmax & Hw2); [lia|].
      exists d, rnd2. repeat split; try assumption; lia.
  - cbn [wf] in Hwf. destruct Hwf as [Hl Hwf]. cbn [rates_ok] in Hr.
    rewrite limit_delay. cbn [limit_hit].
    destruct (l <=? n) eqn:El; cbn [orb].
    + exists (-1), rnd. repeat split; assumption.
    + exact (IH Hwf Hr rnd Hw).
Qed.

(** corollary: the result is negative exactly when a limit layer was reached *)
Corollary stack_stop_iff p b n rnd d rnd' :
  wf b -> rates_ok b -> words rnd -> valid64 p ->
  (fltb fone p = true \/ F64.is_nan p = true) ->
  next_delay p b n rnd = Some (d, rnd') ->
  (d < 0 <-> limit_hit b n = true) /\ -1 <= d <= max_int64.
Proof.
  intros Hwf Hr Hw Vp Hp E.
  destruct (stack_envelope p b n rnd Hwf Hr Hw Vp Hp) as (d1 & r1 & E1 & _ & Hd).
  rewrite E in E1. inversion E1; subst d1 r1.
  destruct (limit_hit b n);
    (split; [split; intro; try lia; try reflexivity; try discriminate | consts; lia]).
Qed.

(** whatever the builder accepts satisfies the hypotheses: layers applied by
    [build] to a well-formed base whose jitter rates are valid floats *)
Definition layer_valid (l : layer) : Prop :=
  match l with LJitter lo hi => valid64 lo /\ valid64 hi | LLimit _ => True end.

Lemma build_rates_ok b ls b' :
  rates_ok b -> Forall layer_valid ls -> build b ls = Some b' -> rates_ok b'.
Proof.
  revert b; induction ls as [|l ls IH]; intros b Hb Hv; cbn [build]; intros E;
    [inversion E; subst; exact Hb|].
  inversion Hv as [|? ? Hl Hls]; subst.
  destruct (apply_layer b l) as [b1|] eqn:E1; [|discriminate].
  apply (IH b1); [|exact Hls|exact E].
  destruct l as [k|lo hi]; cbn in E1.
  - unfold new_limit in E1. destruct (k <=? 0); [discriminate|]. inversion E1; subst. exact Hb.
  - destruct Hl as [Vlo Vhi].
    destruct (new_jitter_rates b lo hi b1 Vlo Vhi E1) as (-> & Rlo & Rhi & Hle).
    cbn [rates_ok]. exact (conj Vlo (conj Vhi (conj Rlo (conj Rhi (conj Hle Hb))))).
Qed.

(** end to end: a base accepted by one of the three base constructors (int64
    arguments), any list of layers accepted by the builder's [build] *)
Definition ctor_base (b : backoff) : Prop :=
  (exists d, d <= max_int64 /\ new_fixed d = Some b) \/
  (exists mn mx, mx <= max_int64 /\ new_random mn mx = Some b) \/
  (exists i mx m, mx <= max_int64 /\ new_expo i mx m = Some b).

Lemma ctor_base_ok b : ctor_base b -> wf b /\ rates_ok b.
Proof.
  intros [(d & Hd & E)|[(mn & mx & Hm & E)|(i & mx & m & Hm & E)]].
  - split; [eapply new_fixed_wf; eassumption|].
    unfold new_fixed in E. destruct (0 <=? d); inversion E; exact I.
  - split; [eapply new_random_wf; eassumption|].
    unfold new_random in E. destruct (mn <? 0); [discriminate|].
    destruct (mx <? mn); inversion E; exact I.
  - split; [eapply new_expo_wf; eassumption|].
    unfold new_expo in E. destruct (negb _); [discriminate|].
    destruct (i <? 0); [discriminate|]. destruct (mx <? i); inversion E; exact I.
Qed.

Theorem built_envelope b ls b' p n rnd :
  ctor_base b -> Forall layer_valid ls -> build b ls = Some b' ->
  words rnd -> valid64 p -> (fltb fone p = true \/ F64.is_nan p = true) ->
  exists d rnd', next_delay p b' n rnd = Some (d, rnd') /\ words rnd' /\
    (if limit_hit b' n then d = -1 else 0 <= d <= max_int64).
Proof.
  intros Hb Hv E Hw Vp Hp. destruct (ctor_base_ok b Hb) as [Hwf Hr].
  apply stack_envelope; try assumption.
  - eapply build_wf; eassumption.
  - eapply build_rates_ok; eassumption.
Qed.

(** non-vacuity: a three-layer stack over a random base meets the hypotheses *)
Example stack_example :
  let half := of_bits 4602678819172646912 in
  let b := Limit 5 (Jitter (fopp half) half (Limit 9 (Random 10 20 10))) in
  wf b /\ limit_hit b 4 = false /\ limit_hit b 5 = true /\
  next_delay fone b 5 [1; 2; 3; 4] = Some (-1, [1; 2; 3; 4]).
Proof. vm_compute. repeat split; try lia; try discriminate; reflexivity. Qed.
