(** C18: the specification-string parser is total (no slicing/indexing can
    go out of range), accepts exactly the documented grammar, and yields
    exactly the value the direct constructor returns. *)
From Coq Require Import ZArith Bool List Lia Floats.SpecFloat.
From Garr Require Import Pure.F64 Pure.Retry Pure.Spec.
Import ListNotations.
Local Open Scope Z_scope.

(** strings.Index *)
Lemma index_of_spec c s i :
  index_of c s = Some i ->
  (i < length s)%nat /\ nth_error s i = Some c /\ ~ In c (firstn i s).
Proof.
  revert i; induction s as [|x r IH]; intros i; cbn [index_of]; [discriminate|].
  destruct (Z.eqb_spec x c) as [->|Hne].
  - intros E; inversion E; subst. cbn. repeat split; auto; lia.
  - destruct (index_of c r) as [j|] eqn:Ej; cbn [option_map]; [|discriminate].
    intros E; inversion E; subst. destruct (IH j eq_refl) as (Hl & Hn & Hf).
    cbn. repeat split; [lia | assumption |]. intros [H|H]; [congruence | exact (Hf H)].
Qed.

Lemma index_of_none c s : index_of c s = None -> ~ In c s.
Proof.
  induction s as [|x r IH]; cbn [index_of]; [intros _ []|].
  destruct (Z.eqb_spec x c); [discriminate|].
  destruct (index_of c r); cbn; [discriminate|]. intros _ [H|H]; [congruence | exact (IH eq_refl H)].
Qed.

(** strings.Split: joining the fields with the separator gives the string
    back, no field contains the separator, there is at least one field *)
Fixpoint join (c : Z) (fs : list (list Z)) : list Z :=
  match fs with
  | [] => []
  | [f] => f
  | f :: fs' => f ++ c :: join c fs'
  end.

Lemma split_on_nonempty c s : split_on c s <> [].
Proof.
  destruct s as [|x r]; cbn [split_on]; [discriminate|].
  destruct (x =? c); [discriminate|]. destruct (split_on c r); discriminate.
Qed.

Lemma split_on_join c s : join c (split_on c s) = s.
Proof.
  induction s as [|x r IH]; cbn [split_on]; [reflexivity|].
  destruct (Z.eqb_spec x c) as [->|Hne].
  - pose proof (split_on_nonempty c r). destruct (split_on c r) as [|f fs] eqn:E; [congruence|].
    cbn [join app]. cbn [join] in IH. rewrite IH. reflexivity.
  - pose proof (split_on_nonempty c r). destruct (split_on c r) as [|f fs] eqn:E; [congruence|].
    destruct fs; cbn [join app] in *; rewrite IH; reflexivity.
Qed.

Lemma split_on_no_sep c s : Forall (fun f => ~ In c f) (split_on c s).
Proof.
  induction s as [|x r IH]; cbn [split_on]; [repeat constructor; intros []|].
  destruct (Z.eqb_spec x c) as [->|Hne].
  - constructor; [intros [] | exact IH].
  - destruct (split_on c r) as [|f fs]; [repeat constructor; intros [H|[]]; congruence|].
    inversion IH; subst. constructor; [|assumption]. intros [H|H]; [congruence | auto].
Qed.

(** strconv.ParseInt(s, 10, 64): optional sign, at least one decimal digit,
    nothing else, value inside int64 *)
Definition dec_value (ds : list Z) : Z := fold_left (fun a c => a * 10 + (c - 48)) ds 0.

Lemma digits_value_spec ds : forall acc v,
  digits_value acc ds = Some v <->
  forallb is_digit ds = true /\ v = fold_left (fun a c => a * 10 + (c - 48)) ds acc.
Proof.
  induction ds as [|c r IH]; intros acc v; cbn [digits_value forallb fold_left].
  - split; [intros E; inversion E; auto | intros [_ ->]; reflexivity].
  - destruct (is_digit c); cbn [andb]; [apply IH|]. split; [discriminate | intros [H _]; discriminate].
Qed.

Inductive int_syntax : list Z -> Z -> Prop :=
| IS_plain ds : ds <> [] -> forallb is_digit ds = true -> int_syntax ds (dec_value ds)
| IS_plus ds : ds <> [] -> forallb is_digit ds = true -> int_syntax (43 :: ds) (dec_value ds)
| IS_minus ds : ds <> [] -> forallb is_digit ds = true -> int_syntax (45 :: ds) (- dec_value ds).

Theorem parse_int_iff s z :
  parse_int s = Some z <-> int_syntax s z /\ in_int64 z = true.
Proof.
  unfold parse_int. destruct s as [|c r].
  - split; [discriminate | intros [H _]; inversion H; congruence].
  - destruct (Z.eqb_spec c 43) as [->|N43]; [|destruct (Z.eqb_spec c 45) as [->|N45]].
    + destruct r as [|d r']; [split; [discriminate | intros [H _]; inversion H; subst; cbn in *; congruence]|].
      destruct (digits_value 0 (d :: r')) as [v|] eqn:E.
      * apply digits_value_spec in E as [Hd ->]. fold (dec_value (d :: r')).
        destruct (in_int64 (dec_value (d :: r'))) eqn:Hr; split.
        -- intros X; inversion X; subst. split; [constructor; [discriminate | assumption] | assumption].
        -- intros [H _]. inversion H; subst; try reflexivity. cbn in H1. discriminate.
        -- discriminate.
        -- intros [H Hz]. inversion H; subst; [cbn in H1; discriminate | congruence].
      * split; [discriminate|]. intros [H _]. inversion H; subst.
        -- cbn in H1; discriminate.
        -- assert (X : digits_value 0 (d :: r') = Some (dec_value (d :: r'))) by (apply digits_value_spec; auto). congruence.
    + destruct r as [|d r']; [split; [discriminate | intros [H _]; inversion H; subst; cbn in *; congruence]|].
      destruct (digits_value 0 (d :: r')) as [v|] eqn:E.
      * apply digits_value_spec in E as [Hd ->]. fold (dec_value (d :: r')).
        destruct (in_int64 (- dec_value (d :: r'))) eqn:Hr; split.
        -- intros X; inversion X; subst. split; [constructor; [discriminate | assumption] | assumption].
        -- intros [H _]. inversion H; subst; try reflexivity. cbn in H1. discriminate.
        -- discriminate.
        -- intros [H Hz]. inversion H; subst; [cbn in H1; discriminate | congruence].
      * split; [discriminate|]. intros [H _]. inversion H; subst.
        -- cbn in H1; discriminate.
        -- assert (X : digits_value 0 (d :: r') = Some (dec_value (d :: r'))) by (apply digits_value_spec; auto). congruence.
    + destruct (digits_value 0 (c :: r)) as [v|] eqn:E.
      * apply digits_value_spec in E as [Hd ->]. fold (dec_value (c :: r)).
        destruct (in_int64 (dec_value (c :: r))) eqn:Hr; split.
        -- intros X; inversion X; subst. split; [constructor; [discriminate | assumption] | assumption].
        -- intros [H _]. inversion H; subst; try reflexivity; congruence.
        -- discriminate.
        -- intros [H Hz]. inversion H; subst; congruence.
      * split; [discriminate|]. intros [H _]. inversion H; subst; try congruence.
        assert (X : digits_value 0 (c :: r) = Some (dec_value (c :: r))) by (apply digits_value_spec; auto). congruence.
Qed.

Lemma bytes_eqb_eq a b : bytes_eqb a b = true <-> a = b.
Proof.
  unfold bytes_eqb. revert b; induction a as [|x a IH]; intros [|y b]; cbn; try (split; [discriminate | congruence]); [tauto|].
  rewrite andb_true_iff in *. specialize (IH b). cbn in IH. rewrite andb_true_iff in IH.
  rewrite andb_true_iff, Z.eqb_eq, Nat.eqb_eq. split.
  - intros (Hl & Hx & Hf). f_equal; [assumption|]. apply IH. rewrite Nat.eqb_eq. auto.
  - intros E; inversion E; subst. assert (b = b) as Hb by reflexivity. apply IH in Hb as [Hl Hf].
    rewrite Nat.eqb_eq in Hl. auto.
Qed.

Section Parser.
  Variable pf : list Z -> option f64.

  (** totality: no input makes the parser slice or index out of range *)
  Theorem parse_spec_total s : parse_spec pf s <> Panic.
  Proof.
    unfold parse_spec. destruct (index_of 61 s) as [i|] eqn:Ei; [|discriminate].
    destruct (index_of_spec _ _ _ Ei) as (Hl & _ & _).
    unfold slice_to, slice_from.
    destruct (Nat.leb_spec i (length s)); [|lia].
    destruct (Nat.leb_spec (S i) (length s)); [|lia].
    destruct (bytes_eqb _ key_exponential).
    { unfold parse_exponential. destruct (Nat.eqb_spec (length (split_on 58 (skipn (S i) s))) 3) as [E3|]; cbn [negb]; [|discriminate].
      destruct (split_on 58 (skipn (S i) s)) as [|f0 [|f1 [|f2 [|? ?]]]]; cbn in E3; try lia.
      cbn [nth_field nth_error]. destruct (int_field f0 200); [|discriminate]. destruct (int_field f1 10000); [|discriminate].
      destruct (if is_empty f2 then Some two else pf f2); [|discriminate]. unfold of_opt. destruct (new_expo _ _ _); discriminate. }
    destruct (bytes_eqb _ key_fixed).
    { unfold parse_fixed. destruct (int_field _ 200); [|discriminate]. unfold of_opt. destruct (new_fixed _); discriminate. }
    destruct (bytes_eqb _ key_random); [|discriminate].
    unfold parse_random. destruct (Nat.eqb_spec (length (split_on 58 (skipn (S i) s))) 2) as [E2|]; cbn [negb]; [|discriminate].
    destruct (split_on 58 (skipn (S i) s)) as [|f0 [|f1 [|? ?]]]; cbn in E2; try lia.
    cbn [nth_field nth_error]. destruct (int_field f0 0); [|discriminate]. destruct (int_field f1 10000); [|discriminate].
    unfold of_opt. destruct (new_random _ _); discriminate.
  Qed.

  Theorem build_spec_total s ls : build_spec pf s ls <> Panic.
  Proof.
    unfold build_spec. destruct (is_empty s); [discriminate|].
    pose proof (parse_spec_total s). destruct (parse_spec pf s); try congruence.
    unfold of_opt. destruct (build b ls); discriminate.
  Qed.

  (** the accepted language and the value produced: a successful parse is
      key=values with the key one of the three policy names, the ':'-separated
      fields each empty (documented default) or a decimal int64 / a float the
      float parser accepts, and the result is exactly what the direct
      constructor returns for those numbers *)
  Inductive spec_ok : list Z -> backoff -> Prop :=
  | SO_fixed v d b :
      int_field v 200 = Some d -> new_fixed d = Some b ->
      spec_ok (key_fixed ++ 61 :: v) b
  | SO_random v f0 f1 mn mx b :
      split_on 58 v = [f0; f1] ->
      int_field f0 0 = Some mn -> int_field f1 10000 = Some mx -> new_random mn mx = Some b ->
      spec_ok (key_random ++ 61 :: v) b
  | SO_expo v f0 f1 f2 i mx m b :
      split_on 58 v = [f0; f1; f2] ->
      int_field f0 200 = Some i -> int_field f1 10000 = Some mx ->
      (if is_empty f2 then Some two else pf f2) = Some m ->
      new_expo i mx m = Some b ->
      spec_ok (key_exponential ++ 61 :: v) b.

  Lemma split_at_index s i :
    index_of 61 s = Some i -> s = firstn i s ++ 61 :: skipn (S i) s.
  Proof.
    intros E. destruct (index_of_spec _ _ _ E) as (Hl & Hn & _).
    rewrite <- (firstn_skipn i s) at 1. f_equal.
    clear E. revert i Hl Hn; induction s as [|x r IH]; intros [|i] Hl Hn; cbn in *; try lia; try congruence.
    apply IH; [lia | assumption].
  Qed.

  Lemma index_of_key key v :
    ~ In 61 key -> index_of 61 (key ++ 61 :: v) = Some (length key).
  Proof.
    induction key as [|x k IH]; cbn; intros H; [reflexivity|].
    destruct (Z.eqb_spec x 61); [exfalso; apply H; left; assumption|].
    rewrite IH; [reflexivity | intros X; apply H; right; assumption].
  Qed.

  Lemma firstn_key (key v : list Z) : firstn (length key) (key ++ 61 :: v) = key.
  Proof. rewrite firstn_app, Nat.sub_diag, firstn_O, firstn_all, app_nil_r. reflexivity. Qed.

  Lemma skipn_key (key v : list Z) : skipn (S (length key)) (key ++ 61 :: v) = v.
  Proof. induction key as [|x k IH]; [reflexivity | exact IH]. Qed.

  Lemma parse_spec_key key v :
    ~ In 61 key ->
    parse_spec pf (key ++ 61 :: v) =
      if bytes_eqb key key_exponential then parse_exponential pf v
      else if bytes_eqb key key_fixed then parse_fixed v
      else if bytes_eqb key key_random then parse_random v
      else Err.
  Proof.
    intros Hk. unfold parse_spec. rewrite index_of_key by assumption.
    unfold slice_to, slice_from. rewrite app_length. cbn [length].
    destruct (Nat.leb_spec (length key) (length key + S (length v))); [|lia].
    destruct (Nat.leb_spec (S (length key)) (length key + S (length v))); [|lia].
    rewrite firstn_key, skipn_key. reflexivity.
  Qed.

  Lemma fixed_ne_expo : bytes_eqb key_fixed key_exponential = false. Proof. reflexivity. Qed.
  Lemma fixed_eq_fixed : bytes_eqb key_fixed key_fixed = true. Proof. reflexivity. Qed.
  Lemma random_ne_expo : bytes_eqb key_random key_exponential = false. Proof. reflexivity. Qed.
  Lemma random_ne_fixed : bytes_eqb key_random key_fixed = false. Proof. reflexivity. Qed.
  Lemma random_eq_random : bytes_eqb key_random key_random = true. Proof. reflexivity. Qed.
  Lemma expo_eq_expo : bytes_eqb key_exponential key_exponential = true. Proof. reflexivity. Qed.

  Theorem parse_spec_accept_iff s b : parse_spec pf s = Ok b <-> spec_ok s b.
  Proof.
    split.
    - unfold parse_spec. destruct (index_of 61 s) as [i|] eqn:Ei; [|discriminate].
      pose proof (split_at_index s i Ei) as Hs.
      destruct (index_of_spec _ _ _ Ei) as (Hl & _ & _).
      unfold slice_to, slice_from.
      destruct (Nat.leb_spec i (length s)); [|lia].
      destruct (Nat.leb_spec (S i) (length s)); [|lia].
      set (v := skipn (S i) s) in *. set (key := firstn i s) in *.
      destruct (bytes_eqb key key_exponential) eqn:K1.
      { apply bytes_eqb_eq in K1. rewrite Hs, K1. unfold parse_exponential.
        destruct (Nat.eqb_spec (length (split_on 58 v)) 3) as [E3|]; cbn [negb]; [|discriminate].
        destruct (split_on 58 v) as [|f0 [|f1 [|f2 [|? ?]]]] eqn:Esp; cbn in E3; try lia.
        cbn [nth_field nth_error]. destruct (int_field f0 200) as [i0|] eqn:E0; [|discriminate].
        destruct (int_field f1 10000) as [mx|] eqn:E1; [|discriminate].
        destruct (if is_empty f2 then Some two else pf f2) as [m|] eqn:E2; [|discriminate].
        unfold of_opt. destruct (new_expo i0 mx m) as [b'|] eqn:E4; [|discriminate].
        intros X; inversion X; subst b'. eapply SO_expo; eassumption. }
      destruct (bytes_eqb key key_fixed) eqn:K2.
      { apply bytes_eqb_eq in K2. rewrite Hs, K2. unfold parse_fixed.
        destruct (int_field v 200) as [d|] eqn:E0; [|discriminate].
        unfold of_opt. destruct (new_fixed d) as [b'|] eqn:E4; [|discriminate].
        intros X; inversion X; subst b'. eapply SO_fixed; eassumption. }
      destruct (bytes_eqb key key_random) eqn:K3; [|discriminate].
      apply bytes_eqb_eq in K3. rewrite Hs, K3. unfold parse_random.
      destruct (Nat.eqb_spec (length (split_on 58 v)) 2) as [E3|]; cbn [negb]; [|discriminate].
      destruct (split_on 58 v) as [|f0 [|f1 [|? ?]]] eqn:Esp; cbn in E3; try lia.
      cbn [nth_field nth_error]. destruct (int_field f0 0) as [mn|] eqn:E0; [|discriminate].
      destruct (int_field f1 10000) as [mx|] eqn:E1; [|discriminate].
      unfold of_opt. destruct (new_random mn mx) as [b'|] eqn:E4; [|discriminate].
      intros X; inversion X; subst b'. eapply SO_random; eassumption.
    - intros H. inversion H; subst; clear H.
      + rewrite parse_spec_key by (cbn; intuition discriminate).
        rewrite fixed_ne_expo, fixed_eq_fixed. unfold parse_fixed.
        match goal with H1 : int_field _ _ = Some _, H2 : new_fixed _ = Some _ |- _ => rewrite H1, H2 end. reflexivity.
      + rewrite parse_spec_key by (cbn; intuition discriminate).
        rewrite random_ne_expo, random_ne_fixed, random_eq_random. unfold parse_random.
        match goal with H0 : split_on _ _ = _ |- _ => rewrite H0 end.
        cbn [length Nat.eqb negb nth_field nth_error].
        repeat match goal with H1 : int_field _ _ = Some _ |- _ => rewrite H1; clear H1 end.
        match goal with H2 : new_random _ _ = Some _ |- _ => rewrite H2 end. reflexivity.
      + rewrite parse_spec_key by (cbn; intuition discriminate).
        rewrite expo_eq_expo. unfold parse_exponential.
        match goal with H0 : split_on _ _ = _ |- _ => rewrite H0 end.
        cbn [length Nat.eqb negb nth_field nth_error].
        repeat match goal with H1 : int_field _ _ = Some _ |- _ => rewrite H1; clear H1 end.
        match goal with H2 : (if _ then _ else _) = Some _ |- _ => rewrite H2 end.
        match goal with H2 : new_expo _ _ _ = Some _ |- _ => rewrite H2 end. reflexivity.
  Qed.

  (** everything that is not accepted is an error (never a panic, never a silent default) *)
  Corollary parse_spec_reject s : (forall b, ~ spec_ok s b) -> parse_spec pf s = Err.
  Proof.
    intros H. destruct (parse_spec pf s) as [b| |] eqn:E; [|reflexivity|].
    - exfalso. apply (H b). apply parse_spec_accept_iff. exact E.
    - exfalso. exact (parse_spec_total s E).
  Qed.
End Parser.

(** Non-vacuity *)
Example ex_fixed : parse_spec (fun _ => None) (key_fixed ++ [61; 49; 50; 51]) = Ok (Fixed 123).
Proof. reflexivity. Qed.
Example ex_defaults : parse_spec (fun _ => None) (key_exponential ++ [61; 58; 58]) = Ok (Expo 200 10000 (of_Z 2)).
Proof. reflexivity. Qed.
Example ex_reject : parse_spec (fun _ => None) (key_random ++ [61; 49]) = Err.
Proof. reflexivity. Qed.
Example ex_parse_int_max : parse_int [57;50;50;51;51;55;50;48;51;54;56;53;52;55;55;53;56;48;56] = None.
Proof. reflexivity. Qed.
