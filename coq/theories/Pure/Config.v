(** circuit-breaker/circuitBreakerConfig.go: Validate, and the trip rule of
    nonBlockingCircuitBreaker.go (checkIfExceedingFailureThreshold). *)
From Coq Require Import ZArith Bool Floats.SpecFloat.
From Garr Require Import Pure.F64.
Local Open Scope Z_scope.

Record cb_config := {
  thr : f64;          (* failureRateThreshold *)
  minreq : Z;         (* minimumRequestThreshold *)
  trial : Z;          (* trialRequestInterval (ns) *)
  openw : Z;          (* circuitOpenWindow *)
  window : Z;         (* counterSlidingWindow *)
  interval : Z        (* counterUpdateInterval *)
}.

(* true = accepted (nil error) *)
Definition validate (c : cb_config) : bool :=
  if negb (fltb fzero (thr c) && fleb (thr c) fone) then false
  else if trial c <=? 0 then false
  else if openw c <=? 0 then false
  else if window c <=? 0 then false
  else if interval c <=? 0 then false
  else if window c <=? interval c then false
  else true.

(* EventCount.FailureRate and the trip test *)
Definition failure_rate (s f : Z) : f64 :=
  let total := wrap64 (s + f) in
  if total =? 0 then fmone else fdiv (of_Z f) (of_Z total).

Definition exceeds (c : cb_config) (s f : Z) : bool :=
  let total := wrap64 (s + f) in
  (0 <? total) && (minreq c <=? total) && fltb (thr c) (failure_rate s f).
