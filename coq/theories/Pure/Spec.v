(** retry/backoff.go: parseFromSpec and the builder, over byte strings
    (bytes as Z in 0..255).  Slicing and indexing are checked explicitly so
    that [Panic] is a real possibility of the model; [strconv.ParseFloat] is an
    oracle [pf]; [strconv.ParseInt(s,10,64)] is modelled exactly. *)
From Coq Require Import ZArith Bool List Floats.SpecFloat.
From Garr Require Import Pure.F64 Pure.Retry.
Import ListNotations.
Local Open Scope Z_scope.

Notation bytes := (list Z) (only parsing).

Inductive outcome := Ok (b : backoff) | Err | Panic.

(* strings.Index(s, "=") *)
Fixpoint index_of (c : Z) (s : bytes) : option nat :=
  match s with
  | [] => None
  | x :: r => if x =? c then Some O else option_map S (index_of c r)
  end.

(* checked slicing s[:i] and s[i:]: None = out of range = run-time panic *)
Definition slice_to (s : bytes) (i : nat) : option bytes :=
  if Nat.leb i (length s) then Some (firstn i s) else None.
Definition slice_from (s : bytes) (i : nat) : option bytes :=
  if Nat.leb i (length s) then Some (skipn i s) else None.

(* strings.Split(s, ":") — always at least one field *)
Fixpoint split_on (c : Z) (s : bytes) : list bytes :=
  match s with
  | [] => [[]]
  | x :: r =>
      if x =? c then [] :: split_on c r
      else match split_on c r with
           | f :: fs => (x :: f) :: fs
           | [] => [[x]]
           end
  end.

Definition is_digit (c : Z) : bool := (48 <=? c) && (c <=? 57).

Fixpoint digits_value (acc : Z) (s : bytes) : option Z :=
  match s with
  | [] => Some acc
  | c :: r => if is_digit c then digits_value (acc * 10 + (c - 48)) r else None
  end.

(* strconv.ParseInt(s, 10, 64): None = any error (syntax or range) *)
Definition parse_int (s : bytes) : option Z :=
  match s with
  | [] => None
  | c :: r =>
      let '(neg, ds) := if c =? 43 then (false, r) else if c =? 45 then (true, r) else (false, s) in
      match ds with
      | [] => None
      | _ => match digits_value 0 ds with
             | None => None
             | Some v => let v' := if neg then - v else v in
                         if in_int64 v' then Some v' else None
             end
      end
  end.

Definition key_fixed : bytes := [102;105;120;101;100].
Definition key_random : bytes := [114;97;110;100;111;109].
Definition key_exponential : bytes := [101;120;112;111;110;101;110;116;105;97;108].

Definition bytes_eqb (a b : bytes) : bool :=
  (Nat.eqb (length a) (length b)) && forallb (fun p => fst p =? snd p) (combine a b).

Definition of_opt (o : option backoff) : outcome :=
  match o with Some b => Ok b | None => Err end.

Definition is_empty (s : bytes) : bool := match s with [] => true | _ => false end.

(* field s default: "" -> default, else ParseInt *)
Definition int_field (s : bytes) (dflt : Z) : option Z :=
  if is_empty s then Some dflt else parse_int s.

Definition nth_field (fs : list bytes) (i : nat) : option bytes := nth_error fs i.

Section WithParseFloat.
  Variable pf : bytes -> option f64.

  Definition parse_fixed (v : bytes) : outcome :=
    match int_field v 200 with
    | None => Err
    | Some d => of_opt (new_fixed d)
    end.

  Definition parse_random (v : bytes) : outcome :=
    let fs := split_on 58 v in
    if negb (Nat.eqb (length fs) 2) then Err
    else match nth_field fs 0, nth_field fs 1 with
         | Some f0, Some f1 =>
             match int_field f0 0 with
             | None => Err
             | Some mn => match int_field f1 10000 with
                          | None => Err
                          | Some mx => of_opt (new_random mn mx)
                          end
             end
         | _, _ => Panic
         end.

  Definition two : f64 := of_Z 2.

  Definition parse_exponential (v : bytes) : outcome :=
    let fs := split_on 58 v in
    if negb (Nat.eqb (length fs) 3) then Err
    else match nth_field fs 0, nth_field fs 1, nth_field fs 2 with
         | Some f0, Some f1, Some f2 =>
             match int_field f0 200 with
             | None => Err
             | Some i => match int_field f1 10000 with
                         | None => Err
                         | Some mx =>
                             match (if is_empty f2 then Some two else pf f2) with
                             | None => Err
                             | Some m => of_opt (new_expo i mx m)
                             end
                         end
             end
         | _, _, _ => Panic
         end.

  Definition parse_spec (s : bytes) : outcome :=
    match index_of 61 s with
    | None => Err
    | Some i =>
        match slice_to s i, slice_from s (S i) with
        | Some key, Some values =>
            if bytes_eqb key key_exponential then parse_exponential values
            else if bytes_eqb key key_fixed then parse_fixed values
            else if bytes_eqb key key_random then parse_random values
            else Err
        | _, _ => Panic
        end
    end.

  (* BackoffBuilder.Build with a spec string (no explicit base) *)
  Definition build_spec (s : bytes) (ls : list layer) : outcome :=
    if is_empty s then Err
    else match parse_spec s with
         | Ok b => of_opt (build b ls)
         | o => o
         end.
End WithParseFloat.
