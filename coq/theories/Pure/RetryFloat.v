(** C05, float part: the saturated float products of package retry are ordered
    int64 values.  The executable model ([sat_mul], [fadd], [fmul], [of_Z] of
    F64.v / Retry.v, all on the standard library's [spec_float]) is related to
    real numbers through Flocq's [binary_float 53 1024] and [B2R]. *)
From Coq Require Import ZArith Bool Reals Lia Lra List Floats.SpecFloat.
From Flocq Require Import Core IEEE754.BinarySingleNaN.
From Garr Require Import Pure.F64 Pure.Retry Pure.RetryProofs Pure.ConfigProofs.
Import ListNotations.
Local Open Scope Z_scope.

Local Instance Hprec : Prec_gt_0 53 := eq_refl.
Local Instance Hemax : Prec_lt_emax 53 1024 := eq_refl.

Local Notation fexp64 := (SpecFloat.fexp 53 1024).
Local Notation rnd := (round radix2 fexp64 ZnearestE).
Local Instance fexp64_valid : Valid_exp fexp64 := fexp_correct 53 1024 Hprec.
Local Instance fexp64_mono : Monotone_exp fexp64 := fexp_monotone 53 1024.

(** a [spec_float] is a genuine binary64 datum (canonical mantissa/exponent);
    every value of Go's float64 is, and so is every [of_bits b] *)
Definition valid64 (x : f64) : Prop := valid_binary 53 1024 x = true.

(** ** the model's operations are Flocq's (round to nearest even) *)

Lemma round_nearest_even_equiv s m l :
  round_nearest_even m l = choice_mode mode_NE s m l.
Proof.
  destruct l as [|c]; [reflexivity|].
  destruct c; [|reflexivity..].
  simpl. unfold Round.cond_incr. destruct (Z.even m); reflexivity.
Qed.

Lemma binary_round_aux_equiv sx mx ex lx :
  SpecFloat.binary_round_aux 53 1024 sx mx ex lx
  = binary_round_aux 53 1024 mode_NE sx mx ex lx.
Proof.
  unfold SpecFloat.binary_round_aux, binary_round_aux.
  destruct (shr_fexp 53 1024 mx ex lx) as [mrs' e']; simpl.
  now rewrite (round_nearest_even_equiv sx).
Qed.

Lemma binary_round_equiv s m e :
  SpecFloat.binary_round 53 1024 s m e = binary_round 53 1024 mode_NE s m e.
Proof.
  unfold SpecFloat.binary_round, binary_round, shl_align_fexp.
  destruct (shl_align m e (fexp64 (Z.pos (digits2_pos m) + e))) as [mz ez].
  apply binary_round_aux_equiv.
Qed.

Lemma binary_normalize_equiv m e szero :
  SpecFloat.binary_normalize 53 1024 m e szero
  = B2SF (binary_normalize 53 1024 Hprec Hemax mode_NE m e szero).
Proof.
  destruct m as [|p|p].
  - reflexivity.
  - simpl; rewrite B2SF_SF2B; apply binary_round_equiv.
  - simpl; rewrite B2SF_SF2B; apply binary_round_equiv.
Qed.

Lemma fmul_B (x y : b64) : fmul (B2SF x) (B2SF y) = B2SF (Bmult mode_NE x y).
Proof.
  destruct x as [sx|sx| |sx mx ex Hx], y as [sy|sy| |sy my ey Hy]; try reflexivity.
  simpl. rewrite B2SF_SF2B. apply binary_round_aux_equiv.
Qed.

Lemma fadd_B (x y : b64) : fadd (B2SF x) (B2SF y) = B2SF (Bplus mode_NE x y).
Proof.
  destruct x as [sx|sx| |sx mx ex Hx], y as [sy|sy| |sy my ey Hy];
    try reflexivity; try (simpl; destruct (Bool.eqb _ _); reflexivity).
  apply binary_normalize_equiv.
Qed.

Definition b_of_Z (i : Z) : b64 := binary_normalize 53 1024 Hprec Hemax mode_NE i 0 false.

Lemma of_Z_B i : of_Z i = B2SF (b_of_Z i).
Proof. apply binary_normalize_equiv. Qed.

(** ** real-number side *)

Lemma rnd_le x y : (x <= y)%R -> (rnd x <= rnd y)%R.
Proof. intros H. apply round_le; auto with typeclass_instances. Qed.

Lemma rnd_0 : rnd 0 = 0%R.
Proof. apply round_0; auto with typeclass_instances. Qed.

Lemma fmt_bpow e : -1074 <= e -> generic_format radix2 fexp64 (bpow radix2 e).
Proof.
  intros He. apply generic_format_bpow. unfold SpecFloat.fexp, SpecFloat.emin. lia.
Qed.

Lemma rnd_bpow e : -1074 <= e -> rnd (bpow radix2 e) = bpow radix2 e.
Proof. intros He. apply round_generic; [auto with typeclass_instances | apply fmt_bpow, He]. Qed.

Lemma rnd_1 : rnd 1 = 1%R.
Proof. change 1%R with (bpow radix2 0). apply rnd_bpow. lia. Qed.

Lemma rnd_2 : rnd 2 = 2%R.
Proof. change 2%R with (bpow radix2 1). apply rnd_bpow. lia. Qed.

Lemma rnd_nonneg x : (0 <= x)%R -> (0 <= rnd x)%R.
Proof. intros H. rewrite <- rnd_0. apply rnd_le, H. Qed.

Lemma IZR_two63 : IZR (2 ^ 63) = bpow radix2 63.
Proof. apply (IZR_Zpower radix2). lia. Qed.

Lemma bpow_63_1024 : (bpow radix2 63 < bpow radix2 1024)%R.
Proof. apply bpow_lt. lia. Qed.

Lemma bpow_64_1024 : (bpow radix2 64 < bpow radix2 1024)%R.
Proof. apply bpow_lt. lia. Qed.

(** float64(i) for 0 <= i <= 2^63 *)
Lemma rnd_IZR_range i : 0 <= i <= 2 ^ 63 -> (0 <= rnd (IZR i) <= bpow radix2 63)%R.
Proof.
  intros Hi. split.
  - apply rnd_nonneg. apply IZR_le. lia.
  - rewrite <- (rnd_bpow 63) by lia. apply rnd_le. rewrite <- IZR_two63. apply IZR_le. lia.
Qed.

Lemma b_of_Z_correct i : 0 <= i <= 2 ^ 63 ->
  B2R (b_of_Z i) = rnd (IZR i) /\ is_finite (b_of_Z i) = true /\ Bsign (b_of_Z i) = false.
Proof.
  intros Hi. unfold b_of_Z.
  pose proof (binary_normalize_correct 53 1024 Hprec Hemax mode_NE i 0 false) as H.
  cbv zeta in H.
  assert (E : F2R (Float radix2 i 0) = IZR i) by (unfold F2R; simpl; ring).
  rewrite E in H. simpl round_mode in H.
  pose proof (rnd_IZR_range i Hi) as Hr.
  rewrite Rlt_bool_true in H.
  2: { rewrite Rabs_pos_eq by apply Hr. pose proof bpow_63_1024. lra. }
  destruct H as (H1 & H2 & H3). repeat split; try assumption.
  rewrite H3. destruct (Rcompare_spec (IZR i) 0) as [Hlt|Heq|Hgt]; try reflexivity.
  apply lt_IZR in Hlt. lia.
Qed.

(** truncation and int64 conversion of a non-negative finite float *)
Lemma Bsign_nonneg (T : b64) : is_finite T = true -> (0 < B2R T)%R -> Bsign T = false.
Proof.
  destruct T as [s|s| |s m e H]; cbn [is_finite B2R Bsign]; intros Hf Hp; try discriminate; try lra.
  destruct s; [|reflexivity]. exfalso. cbn [cond_Zopp Z.opp] in Hp.
  assert (F2R (Float radix2 (Z.neg m) e) < 0)%R by (apply F2R_lt_0; reflexivity). lra.
Qed.

Lemma trunc_B (T : b64) : is_finite T = true -> (0 <= B2R T)%R ->
  trunc (B2SF T) = Some (Zfloor (B2R T)).
Proof.
  destruct T as [s|s| |s m e H]; cbn [is_finite B2R B2SF trunc]; intros Hf Hp; try discriminate.
  - now rewrite (Zfloor_IZR 0).
  - destruct s; cbn [cond_Zopp Z.opp] in *.
    + exfalso. assert (F2R (Float radix2 (Z.neg m) e) < 0)%R by (apply F2R_lt_0; reflexivity). lra.
    + f_equal. unfold F2R; simpl Fnum; simpl Fexp.
      destruct (Z.leb_spec 0 e) as [He|He].
      * rewrite <- (IZR_Zpower radix2) by assumption. rewrite <- mult_IZR.
        now rewrite Zfloor_IZR.
      * replace e with (- (- e)) at 2 by lia. rewrite bpow_opp.
        rewrite <- (IZR_Zpower radix2) by lia.
        change (IZR (Z.pos m) * / IZR (radix2 ^ (- e)))%R with (IZR (Z.pos m) / IZR (radix2 ^ (- e)))%R.
        rewrite Zfloor_div; [reflexivity|].
        apply Z.pow_nonzero; simpl; lia.
Qed.

Lemma Zfloor_range x : (0 <= x < bpow radix2 63)%R -> 0 <= Zfloor x <= max_int64.
Proof.
  intros [H0 H1]. split.
  - rewrite <- (Zfloor_IZR 0). apply Zfloor_le, H0.
  - assert (Zfloor x < 2 ^ 63); [|unfold max_int64; lia].
    apply lt_IZR. rewrite IZR_two63. pose proof (Zfloor_lb x). lra.
Qed.

Lemma to_int64_B (T : b64) : is_finite T = true -> (0 <= B2R T < bpow radix2 63)%R ->
  to_int64 (B2SF T) = Zfloor (B2R T).
Proof.
  intros Hf Hr. unfold to_int64. rewrite trunc_B by (assumption || apply Hr).
  pose proof (Zfloor_range _ Hr) as Hz. unfold in_int64.
  destruct (Z.leb_spec min_int64 (Zfloor (B2R T))); [|unfold min_int64 in *; lia].
  destruct (Z.leb_spec (Zfloor (B2R T)) max_int64); [reflexivity | lia].
Qed.

(** saturating conversion of a real: int64(x) if x < 2^63, MaxInt64 otherwise *)
Definition satR (x : R) : Z := if Rlt_bool x (bpow radix2 63) then Zfloor x else max_int64.

Lemma satR_le_max x : (0 <= x)%R -> satR x <= max_int64.
Proof.
  intros H0. unfold satR. destruct (Rlt_bool_spec x (bpow radix2 63)); [|lia].
  apply Zfloor_range. split; assumption.
Qed.

Lemma satR_nonneg x : (0 <= x)%R -> 0 <= satR x.
Proof.
  intros H0. unfold satR. destruct (Rlt_bool_spec x (bpow radix2 63)).
  - apply Zfloor_range. split; assumption.
  - unfold max_int64; lia.
Qed.

Lemma satR_mono x y : (0 <= x <= y)%R -> satR x <= satR y.
Proof.
  intros [H0 H]. unfold satR.
  destruct (Rlt_bool_spec x (bpow radix2 63)) as [Hx|Hx], (Rlt_bool_spec y (bpow radix2 63)) as [Hy|Hy].
  - apply Zfloor_le, H.
  - apply Zfloor_range. split; assumption.
  - lra.
  - lia.
Qed.

(** ** saturatedMultiply, characterised on the reals *)

Definition b_two63 : b64 := b_of_Z (2 ^ 63).

Lemma ftwo63_B : ftwo63 = B2SF b_two63.
Proof. apply of_Z_B. Qed.

Lemma b_two63_correct : B2R b_two63 = bpow radix2 63 /\ is_finite b_two63 = true.
Proof.
  destruct (b_of_Z_correct (2 ^ 63)) as (H1 & H2 & _); [lia|].
  split; [|exact H2]. unfold b_two63. rewrite H1, IZR_two63. apply rnd_bpow. lia.
Qed.

Lemma sat_mul_le_max l r : sat_mul l r <= max_int64.
Proof.
  unfold sat_mul. destruct (fltb _ _); [|lia].
  unfold to_int64. destruct (trunc _) as [z|]; [|unfold min_int64, max_int64; lia].
  unfold in_int64. destruct (Z.leb_spec min_int64 z); cbn [andb]; [|unfold min_int64, max_int64; lia].
  destruct (Z.leb_spec z max_int64); [lia | unfold min_int64, max_int64; lia].
Qed.

Theorem sat_mul_spec i (P : b64) :
  0 <= i <= 2 ^ 63 -> is_finite P = true -> (0 <= B2R P)%R ->
  sat_mul i (B2SF P) = satR (rnd (rnd (IZR i) * B2R P)).
Proof.
  intros Hi Hf Hp. unfold sat_mul. rewrite of_Z_B, fmul_B.
  destruct (b_of_Z_correct i Hi) as (HI & HIf & HIs).
  pose proof (rnd_IZR_range i Hi) as HIr.
  pose proof (Bmult_correct 53 1024 Hprec Hemax mode_NE (b_of_Z i) P) as H.
  simpl round_mode in H. rewrite HI in H.
  set (x := rnd (rnd (IZR i) * B2R P)) in *.
  assert (Hx : (0 <= x)%R) by (apply rnd_nonneg, Rmult_le_pos; [apply HIr | exact Hp]).
  rewrite Rabs_pos_eq in H by exact Hx.
  destruct (Rlt_bool_spec x (bpow radix2 1024)) as [Hlt|Hge].
  - destruct H as (HT & HTf & _). rewrite HIf, Hf in HTf. cbn [andb] in HTf.
    rewrite ftwo63_B, fltb_R by (exact HTf || apply b_two63_correct).
    rewrite (proj1 b_two63_correct), HT. unfold satR.
    destruct (Rlt_bool_spec x (bpow radix2 63)) as [H63|H63]; [|reflexivity].
    rewrite to_int64_B; rewrite ?HT; auto.
  - assert (HPpos : (0 < B2R P)%R).
    { destruct Hp as [Hp|Hp]; [exact Hp|]. exfalso.
      unfold x in Hge. rewrite <- Hp, Rmult_0_r, rnd_0 in Hge.
      pose proof (bpow_gt_0 radix2 1024). lra. }
    rewrite H, HIs, (Bsign_nonneg P Hf HPpos).
    change (fltb (binary_overflow 53 1024 mode_NE (xorb false false)) ftwo63) with false.
    unfold satR. rewrite Rlt_bool_false; [reflexivity|].
    pose proof bpow_63_1024. lra.
Qed.

(** ** GOAL 1: the jitter band *)

(** rates as accepted by the jitter constructor: finite floats in [-1, 1] *)
Definition rate_ok (x : f64) : Prop := fleb fmone x = true /\ fleb x fone = true.

Lemma valid_B (x : f64) : valid64 x -> exists X : b64, x = B2SF X.
Proof. intros H. exists (SF2B x H). symmetry. apply B2SF_SF2B. Qed.

Lemma rate_B (X : b64) : rate_ok (B2SF X) -> is_finite X = true /\ (-1 <= B2R X <= 1)%R.
Proof.
  intros [H1 H2]. apply rate_interval_iff. rewrite H1, H2. reflexivity.
Qed.

(** 1 + x for a rate x: a finite float in [0, 2], the rounding of the exact sum *)
Lemma one_plus_B (X : b64) : is_finite X = true -> (-1 <= B2R X <= 1)%R ->
  fadd fone (B2SF X) = B2SF (Bplus mode_NE b_one X) /\
  is_finite (Bplus mode_NE b_one X) = true /\
  B2R (Bplus mode_NE b_one X) = rnd (1 + B2R X) /\
  (0 <= rnd (1 + B2R X) <= 2)%R.
Proof.
  intros Hf Hr.
  assert (Hb : (0 <= rnd (1 + B2R X) <= 2)%R).
  { split; [apply rnd_nonneg; lra|]. rewrite <- rnd_2. apply rnd_le. lra. }
  split; [rewrite fone_b; apply fadd_B|].
  pose proof (Bplus_correct 53 1024 Hprec Hemax mode_NE b_one X b_one_fin Hf) as H.
  simpl round_mode in H. rewrite b_one_R in H.
  rewrite Rlt_bool_true in H.
  - destruct H as (H1 & H2 & _). repeat split; try assumption; apply Hb.
  - rewrite Rabs_pos_eq by apply Hb.
    assert (2 < bpow radix2 1024)%R; [|lra].
    change 2%R with (bpow radix2 1). apply bpow_lt. lia.
Qed.

Theorem sat_mul_jitter_ordered : forall (tmp : Z) (lo hi : f64),
  0 < tmp <= max_int64 -> valid64 lo -> valid64 hi ->
  rate_ok lo -> rate_ok hi -> fleb lo hi = true ->
  0 <= sat_mul tmp (fadd fone lo) <= sat_mul tmp (fadd fone hi) /\
  sat_mul tmp (fadd fone hi) <= max_int64.
Proof.
  intros tmp lo hi Ht Vlo Vhi Rlo Rhi Hle.
  destruct (valid_B lo Vlo) as [Lo ->]. destruct (valid_B hi Vhi) as [Hi ->].
  destruct (rate_B Lo Rlo) as [Flo Blo]. destruct (rate_B Hi Rhi) as [Fhi Bhi].
  rewrite fleb_R in Hle by assumption.
  destruct (Rle_bool_spec (B2R Lo) (B2R Hi)) as [Hle'|]; [clear Hle|discriminate].
  destruct (one_plus_B Lo Flo Blo) as (-> & F1 & E1 & B1).
  destruct (one_plus_B Hi Fhi Bhi) as (-> & F2 & E2 & B2).
  assert (Ht' : 0 <= tmp <= 2 ^ 63) by (unfold max_int64 in Ht; lia).
  pose proof (rnd_IZR_range tmp Ht') as HI.
  rewrite !sat_mul_spec by (rewrite ?E1, ?E2; assumption || apply B1 || apply B2).
  rewrite E1, E2.
  assert (H12 : (rnd (1 + B2R Lo) <= rnd (1 + B2R Hi))%R) by (apply rnd_le; lra).
  assert (Hx : (0 <= rnd (rnd (IZR tmp) * rnd (1 + B2R Lo)))%R).
  { apply rnd_nonneg, Rmult_le_pos; [apply HI | apply B1]. }
  assert (Hxy : (rnd (rnd (IZR tmp) * rnd (1 + B2R Lo)) <= rnd (rnd (IZR tmp) * rnd (1 + B2R Hi)))%R).
  { apply rnd_le, Rmult_le_compat_l; [apply HI | exact H12]. }
  repeat split.
  - apply satR_nonneg, Hx.
  - apply satR_mono. split; assumption.
  - apply satR_le_max. lra.
Qed.

(** the jitter constructor accepts exactly such rates *)
Lemma new_jitter_rates b lo hi j : valid64 lo -> valid64 hi ->
  new_jitter b lo hi = Some j ->
  j = Jitter lo hi b /\ rate_ok lo /\ rate_ok hi /\ fleb lo hi = true.
Proof.
  intros Vlo Vhi. unfold new_jitter, rate_ok.
  destruct (fleb fmone lo) eqn:A1; cbn [andb negb]; [|discriminate].
  destruct (fleb lo fone) eqn:A2; cbn [andb negb]; [|discriminate].
  destruct (fleb fmone hi) eqn:A3; cbn [andb negb]; [|discriminate].
  destruct (fleb hi fone) eqn:A4; cbn [andb negb]; [|discriminate].
  destruct (fltb hi lo) eqn:A5; [discriminate|].
  intros E; inversion E; subst j; clear E. repeat split; try reflexivity.
  destruct (valid_B lo Vlo) as [Lo ->]. destruct (valid_B hi Vhi) as [Hi ->].
  destruct (rate_B Lo (conj A1 A2)) as [Flo _]. destruct (rate_B Hi (conj A3 A4)) as [Fhi _].
  rewrite fltb_R in A5 by assumption. rewrite fleb_R by assumption.
  destruct (Rlt_bool_spec (B2R Hi) (B2R Lo)); [discriminate|]. apply Rle_bool_true. assumption.
Qed.

(** the band theorem of RetryProofs.v without its float hypothesis *)
Theorem jitter_band_full : forall p lo hi b n rnd0 tmp rnd1,
  words rnd1 -> valid64 lo -> valid64 hi -> rate_ok lo -> rate_ok hi -> fleb lo hi = true ->
  next_delay p b n rnd0 = Some (tmp, rnd1) -> 0 < tmp <= max_int64 ->
  let minj := sat_mul tmp (fadd fone lo) in
  let maxj := sat_mul tmp (fadd fone hi) in
  exists d rnd2, next_delay p (Jitter lo hi b) n rnd0 = Some (d, rnd2) /\
    minj <= d <= maxj /\ 0 <= minj /\ maxj <= max_int64 /\ words rnd2.
Proof.
  intros p lo hi b n rnd0 tmp rnd1 Hw Vlo Vhi Rlo Rhi Hle E Ht minj maxj.
  destruct (sat_mul_jitter_ordered tmp lo hi Ht Vlo Vhi Rlo Rhi Hle) as ([H0 H1] & H2).
  fold minj maxj in H0, H1, H2.
  destruct (jitter_band p lo hi b n rnd0 tmp rnd1 Hw E (proj1 Ht) (conj H0 H1) H2)
    as (d & rnd2 & E2 & Hd & Hw2).
  exists d, rnd2. repeat split; try assumption; apply Hd.
Qed.

Print Assumptions sat_mul_jitter_ordered.
Print Assumptions jitter_band_full.

(** ** GOAL 2: the exponential policy *)

(** FINDING.  [float64(i)] rounds; for i > 2^53 it may round DOWN, and a
    multiplication by exactly 1.0 does not make up for it: saturatedMultiply
    can return less than its integer argument. *)
Example sat_mul_one_below_arg :
  fleb fone fone = true /\ sat_mul (2 ^ 53 + 1) fone = 2 ^ 53.
Proof. vm_compute. split; reflexivity. Qed.

Example sat_mul_one_below_arg_512 :
  sat_mul (2 ^ 62 + 512) fone = 2 ^ 62.
Proof. vm_compute. reflexivity. Qed.

(** hence the literal statement "forall p >= 1, i <= sat_mul i p" is false *)
Example sat_mul_ge_initial_false_for_one :
  ~ (forall (i : Z) (p : f64), 0 <= i <= max_int64 ->
       (fleb fone p = true \/ F64.is_nan p = true) -> i <= sat_mul i p).
Proof.
  intros H. specialize (H (2 ^ 53 + 1) fone).
  assert (E : sat_mul (2 ^ 53 + 1) fone = 2 ^ 53) by (vm_compute; reflexivity).
  rewrite E in H. vm_compute in H. apply H; [split; discriminate | left; reflexivity | reflexivity].
Qed.

(** with the oracle value 1.0 for math.Pow the exponential policy answers
    less than its initial delay (attempt 2, initial = 2^53+1, max = MaxInt64) *)
Example expo_below_initial :
  next_delay fone (Expo (2 ^ 53 + 1) max_int64 (of_bits 4611686018427387904 (* 2.0 *))) 2 []
  = Some (2 ^ 53, []).
Proof. vm_compute. reflexivity. Qed.

(** the hypotheses are about genuine binary64 data: on non-canonical
    [spec_float] triples the executable comparison is meaningless
    (2^-51 written as mantissa 1 "is >= 1"), so validity is required below *)
Example invalid_float_breaks_order :
  let p := S754_finite false 1 (-51) in
  fleb fone p = true /\ valid_binary 53 1024 p = false /\ sat_mul 1000 p = 0.
Proof. vm_compute. repeat split; reflexivity. Qed.

Example invalid_rate_breaks_band :
  let lo := S754_finite false (2 ^ 100) (-53) in
  rate_ok lo /\ rate_ok fone /\ fleb lo fone = true /\ valid_binary 53 1024 lo = false /\
  sat_mul 10 (fadd fone fone) < sat_mul 10 (fadd fone lo).
Proof. vm_compute. repeat split; reflexivity. Qed.

Lemma fmt_B (X : b64) : generic_format radix2 fexp64 (B2R X).
Proof. apply (generic_format_B2R 53 1024). Qed.

Lemma satR_ge_Z i x : i <= max_int64 -> (IZR i <= x)%R -> i <= satR x.
Proof.
  intros Hi Hx. unfold satR. destruct (Rlt_bool_spec x (bpow radix2 63)); [|exact Hi].
  rewrite <- (Zfloor_IZR i). apply Zfloor_le, Hx.
Qed.

Lemma ulp_one : ulp radix2 fexp64 1 = bpow radix2 (-52).
Proof. change 1%R with (bpow radix2 0). rewrite ulp_bpow. reflexivity. Qed.

(** a float above 1 is at least 1 + 2^-52 *)
Lemma above_one_succ (P : b64) : (1 < B2R P)%R -> (1 + bpow radix2 (-52) <= B2R P)%R.
Proof.
  intros H. rewrite <- ulp_one. rewrite <- succ_eq_pos by lra.
  apply succ_le_lt; try assumption; try apply fmt_B; auto with typeclass_instances.
  change 1%R with (bpow radix2 0). apply fmt_bpow. lia.
Qed.

(** the heart of GOAL 2: float64(i) * p, rounded, is at least i when p > 1 *)
Lemma round_trip_above (i : Z) (P : b64) : 0 <= i -> (1 < B2R P)%R ->
  (IZR i <= rnd (rnd (IZR i) * B2R P))%R.
Proof.
  intros Hi HP.
  destruct (Z.eq_dec i 0) as [->|Hne].
  { rewrite rnd_0, Rmult_0_l, rnd_0. lra. }
  set (I := rnd (IZR i)).
  assert (HI1 : (1 <= I)%R).
  { unfold I. rewrite <- rnd_1. apply rnd_le. apply (IZR_le 1). lia. }
  assert (FI : generic_format radix2 fexp64 I).
  { apply generic_format_round; auto with typeclass_instances. }
  pose proof (above_one_succ P HP) as HP'.
  assert (Hulp : (ulp radix2 fexp64 I <= I * bpow radix2 (-52))%R).
  { pose proof (ulp_FLT_le radix2 (-1074) 53 I) as H.
    rewrite Rabs_pos_eq in H by lra.
    apply H. apply Rle_trans with (2 := HI1).
    change 1%R with (bpow radix2 0). apply bpow_le. lia. }
  pose proof (ulp_ge_0 radix2 fexp64 I) as Hu0.
  assert (Hs : (succ radix2 fexp64 I <= rnd (I * B2R P))%R).
  { apply round_ge_generic; auto with typeclass_instances.
    - apply generic_format_succ; auto with typeclass_instances.
    - rewrite succ_eq_pos by lra.
      apply Rle_trans with (I * (1 + bpow radix2 (-52)))%R; [lra|].
      apply Rmult_le_compat_l; lra. }
  rewrite succ_eq_pos in Hs by lra.
  pose proof (error_le_half_ulp_round radix2 fexp64 (fun x => negb (Z.even x)) (IZR i)) as He.
  fold I in He.
  assert (IZR i - I <= / 2 * ulp radix2 fexp64 I)%R.
  { apply Rle_trans with (2 := He). rewrite Rabs_minus_sym. apply Rle_abs. }
  lra.
Qed.

(** NaN and +Inf as the second factor saturate *)
Lemma sat_mul_nan i : sat_mul i S754_nan = max_int64.
Proof.
  unfold sat_mul. rewrite of_Z_B.
  destruct (b_of_Z i) as [s|s| |s m e H]; reflexivity.
Qed.

Lemma sat_mul_inf i : 0 <= i <= 2 ^ 63 -> sat_mul i (S754_infinity false) = max_int64.
Proof.
  intros Hi. unfold sat_mul. rewrite of_Z_B.
  destruct (b_of_Z_correct i Hi) as (_ & Hf & Hs).
  destruct (b_of_Z i) as [s|s| |s m e H]; cbn [Bsign is_finite] in Hf, Hs; try discriminate; subst s; reflexivity.
Qed.

(** 1 <= p, where +infinity counts as a number above 1 *)
Lemma ge_one_cases (P : b64) : fleb fone (B2SF P) = true ->
  (is_finite P = true /\ (1 <= B2R P)%R) \/ P = B754_infinity false.
Proof.
  intros H. destruct (is_finite P) eqn:Hf.
  - left. split; [reflexivity|].
    rewrite fone_b, fleb_R in H by (assumption || reflexivity). rewrite b_one_R in H.
    destruct (Rle_bool_spec 1 (B2R P)); [assumption | discriminate].
  - assert (Hn : ~ real P) by (unfold real; congruence).
    destruct (not_real_cases P Hn) as [-> | [-> | ->]]; try discriminate H.
    right; reflexivity.
Qed.

Lemma fleb_cases (P Q : b64) : is_finite P = true -> fleb (B2SF P) (B2SF Q) = true ->
  (is_finite Q = true /\ (B2R P <= B2R Q)%R) \/ Q = B754_infinity false.
Proof.
  intros HP H. destruct (is_finite Q) eqn:Hf.
  - left. split; [reflexivity|].
    rewrite fleb_R in H by assumption.
    destruct (Rle_bool_spec (B2R P) (B2R Q)); [assumption | discriminate].
  - assert (Hn : ~ real Q) by (unfold real; congruence).
    destruct (not_real_cases Q Hn) as [-> | [-> | ->]].
    + destruct P as [s|s| |s m e Hb]; try discriminate HP; discriminate H.
    + right; reflexivity.
    + destruct P as [s|s| |s m e Hb]; try discriminate HP; discriminate H.
Qed.

Lemma fleb_inf_l (Q : b64) : fleb (S754_infinity false) (B2SF Q) = true -> Q = B754_infinity false.
Proof.
  destruct Q as [s|s| |s m e Hb]; intros H; try discriminate H.
  destruct s; [discriminate H | reflexivity].
Qed.

(** exponential never below initial: the saturated product of [i] by a float
    ABOVE 1 (or +Inf, or NaN) is at least [i] *)
Theorem sat_mul_ge_initial : forall (i : Z) (p : f64),
  0 <= i <= max_int64 -> valid64 p ->
  (fltb fone p = true \/ F64.is_nan p = true) ->
  i <= sat_mul i p.
Proof.
  intros i p Hi Vp Hp.
  assert (Hi' : 0 <= i <= 2 ^ 63) by (unfold max_int64 in Hi; lia).
  destruct (valid_B p Vp) as [P ->].
  destruct Hp as [Hp|Hp].
  - apply above_one_iff in Hp. destruct Hp as [[Hf H1] | ->].
    + rewrite sat_mul_spec by (assumption || lra).
      apply satR_ge_Z; [apply Hi|]. apply round_trip_above; [apply Hi | exact H1].
    + cbn [B2SF]. rewrite sat_mul_inf by exact Hi'. apply Hi.
  - destruct P as [s|s| |s m e Hb]; try discriminate Hp.
    cbn [B2SF]. rewrite sat_mul_nan. apply Hi.
Qed.

(** exact integers: for i <= 2^53 the conversion is exact and p >= 1 suffices *)
Lemma fmt_small_Z i : 0 <= i <= 2 ^ 53 -> generic_format radix2 fexp64 (IZR i).
Proof.
  intros Hi. destruct (Z.eq_dec i (2 ^ 53)) as [->|Hne].
  - rewrite (IZR_Zpower radix2) by lia. apply fmt_bpow. lia.
  - change fexp64 with (FLT_exp (-1074) 53). apply generic_format_FLT.
    exists (Float radix2 i 0).
    + unfold F2R; simpl; ring.
    + simpl. rewrite Z.abs_eq by lia. lia.
    + simpl. lia.
Qed.

Theorem sat_mul_ge_initial_exact : forall (i : Z) (p : f64),
  0 <= i <= 2 ^ 53 -> valid64 p ->
  (fleb fone p = true \/ F64.is_nan p = true) ->
  i <= sat_mul i p.
Proof.
  intros i p Hi Vp Hp.
  assert (Hi' : 0 <= i <= 2 ^ 63) by lia.
  assert (Hm : i <= max_int64) by (unfold max_int64; lia).
  destruct (valid_B p Vp) as [P ->].
  destruct Hp as [Hp|Hp].
  - apply ge_one_cases in Hp. destruct Hp as [[Hf H1] | ->].
    + rewrite sat_mul_spec by (assumption || lra).
      apply satR_ge_Z; [exact Hm|].
      rewrite (round_generic radix2 fexp64 ZnearestE (IZR i)) by (apply fmt_small_Z, Hi).
      apply round_ge_generic; auto with typeclass_instances; [apply fmt_small_Z, Hi|].
      rewrite <- (Rmult_1_r (IZR i)) at 1. apply Rmult_le_compat_l; [apply IZR_le; lia | exact H1].
    + cbn [B2SF]. rewrite sat_mul_inf by exact Hi'. exact Hm.
  - destruct P as [s|s| |s m e Hb]; try discriminate Hp.
    cbn [B2SF]. rewrite sat_mul_nan. exact Hm.
Qed.

(** never decreasing, given a monotone Pow oracle *)
Theorem sat_mul_mono_pow : forall (i : Z) (p q : f64),
  0 <= i <= max_int64 -> valid64 p -> valid64 q ->
  fleb fone p = true -> fleb p q = true ->
  sat_mul i p <= sat_mul i q.
Proof.
  intros i p q Hi Vp Vq H1 Hpq.
  assert (Hi' : 0 <= i <= 2 ^ 63) by (unfold max_int64 in Hi; lia).
  destruct (valid_B p Vp) as [P ->]. destruct (valid_B q Vq) as [Q ->].
  destruct (ge_one_cases P H1) as [[Pf P1] | ->].
  - destruct (fleb_cases P Q Pf Hpq) as [[Qf PQ] | ->].
    + rewrite !sat_mul_spec by (assumption || lra).
      pose proof (rnd_IZR_range i Hi') as HI.
      apply satR_mono. split.
      * apply rnd_nonneg, Rmult_le_pos; [apply HI | lra].
      * apply rnd_le, Rmult_le_compat_l; [apply HI | exact PQ].
    + cbn [B2SF]. rewrite sat_mul_inf by exact Hi'. apply sat_mul_le_max.
  - cbn [B2SF] in Hpq. apply fleb_inf_l in Hpq. subst Q. cbn [B2SF]. lia.
Qed.

(** consequences for the policy itself ([p], [q] the Pow oracle values) *)
Theorem expo_ge_initial : forall p i mx m n rnd0 d rnd1,
  0 <= i <= mx -> mx <= max_int64 -> valid64 p ->
  (fltb fone p = true \/ F64.is_nan p = true) ->
  next_delay p (Expo i mx m) n rnd0 = Some (d, rnd1) -> i <= d <= mx.
Proof.
  intros p i mx m n rnd0 d rnd1 Hi Hmx Vp Hp E.
  rewrite expo_delay in E. inversion E; subst; clear E.
  assert (i <= sat_mul i p) by (apply sat_mul_ge_initial; [lia | assumption..]).
  destruct (n =? 1); lia.
Qed.

Theorem expo_monotone : forall p q i mx m n rnd0 d1 d2 r1 r2,
  0 <= i <= mx -> mx <= max_int64 -> valid64 p -> valid64 q ->
  fltb fone p = true -> fleb p q = true -> 1 <= n ->
  next_delay p (Expo i mx m) n rnd0 = Some (d1, r1) ->
  next_delay q (Expo i mx m) (n + 1) rnd0 = Some (d2, r2) -> d1 <= d2.
Proof.
  intros p q i mx m n rnd0 d1 d2 r1 r2 Hi Hmx Vp Vq Hp Hpq Hn E1 E2.
  rewrite expo_delay in E1, E2. inversion E1; subst; clear E1. inversion E2; subst; clear E2.
  assert (H1p : fleb fone p = true).
  { destruct (valid_B p Vp) as [P ->]. apply above_one_iff in Hp.
    destruct Hp as [[Hf H1] | ->]; [|reflexivity].
    rewrite fone_b, fleb_R by (assumption || reflexivity). rewrite b_one_R.
    apply Rle_bool_true. lra. }
  assert (Hq : fltb fone q = true \/ F64.is_nan q = true).
  { left. destruct (valid_B p Vp) as [P ->]. destruct (valid_B q Vq) as [Q ->].
    apply above_one_iff. apply above_one_iff in Hp.
    destruct Hp as [[Pf P1] | ->].
    - destruct (fleb_cases P Q Pf Hpq) as [[Qf PQ] | ->]; [left; split; [exact Qf | lra] | right; reflexivity].
    - right. apply fleb_inf_l, Hpq. }
  assert (i <= sat_mul i q) by (apply sat_mul_ge_initial; [lia | assumption..]).
  assert (sat_mul i p <= sat_mul i q) by (apply sat_mul_mono_pow; [lia | assumption..]).
  destruct (Z.eqb_spec (n + 1) 1); [lia|].
  destruct (n =? 1); lia.
Qed.

Print Assumptions sat_mul_ge_initial.
Print Assumptions sat_mul_ge_initial_exact.
Print Assumptions sat_mul_mono_pow.
Print Assumptions expo_ge_initial.
Print Assumptions expo_monotone.

(** ** validity is no restriction: every bit pattern decodes to a valid float,
    and the model's operations return valid floats *)
Lemma of_bits_valid b : valid64 (of_bits b).
Proof.
  unfold of_bits, valid64.
  set (s := Z.testbit b 63). set (e := Z.land (Z.shiftr b 52) 2047).
  set (m := Z.land b (2 ^ 52 - 1)).
  assert (He : 0 <= e < 2048).
  { unfold e. change 2047 with (Z.ones 11). rewrite Z.land_ones by lia. apply Z.mod_pos_bound. lia. }
  assert (Hm : 0 <= m < 2 ^ 52).
  { unfold m. change (2 ^ 52 - 1) with (Z.ones 52). rewrite Z.land_ones by lia. apply Z.mod_pos_bound. lia. }
  destruct (Z.eqb_spec e 0) as [E0|E0].
  - destruct m as [|p|p]; try reflexivity.
    cbn [valid_binary]. unfold bounded, canonical_mantissa. apply andb_true_intro. split; [|reflexivity].
    apply Zeq_is_eq_bool. rewrite Zpos_digits2_pos.
    assert (Zdigits radix2 (Z.pos p) <= 52) by (apply Zdigits_le_Zpower; simpl Z.abs; apply Hm).
    unfold SpecFloat.fexp, SpecFloat.emin. lia.
  - destruct (Z.eqb_spec e 2047) as [E1|E1].
    + destruct (m =? 0); reflexivity.
    + destruct (m + 2 ^ 52) as [|p|p] eqn:Ep; try reflexivity.
      cbn [valid_binary]. unfold bounded, canonical_mantissa. apply andb_true_intro. split.
      * apply Zeq_is_eq_bool. rewrite Zpos_digits2_pos.
        assert (Zdigits radix2 (Z.pos p) <= 53) by (apply Zdigits_le_Zpower; simpl Z.abs; change (radix2 ^ 53) with (2 ^ 52 + 2 ^ 52); lia).
        assert (52 < Zdigits radix2 (Z.pos p)) by (apply Zdigits_gt_Zpower; simpl Z.abs; change (radix2 ^ 52) with (2 ^ 52); lia).
        unfold SpecFloat.fexp, SpecFloat.emin. lia.
      * apply Zle_imp_le_bool. lia.
Qed.

Lemma B2SF_valid (X : b64) : valid64 (B2SF X).
Proof. apply valid_binary_B2SF. Qed.

Lemma of_Z_valid i : valid64 (of_Z i).
Proof. rewrite of_Z_B. apply B2SF_valid. Qed.

Lemma fmul_valid x y : valid64 x -> valid64 y -> valid64 (fmul x y).
Proof.
  intros Vx Vy. destruct (valid_B x Vx) as [X ->]. destruct (valid_B y Vy) as [Y ->].
  rewrite fmul_B. apply B2SF_valid.
Qed.

Lemma fadd_valid x y : valid64 x -> valid64 y -> valid64 (fadd x y).
Proof.
  intros Vx Vy. destruct (valid_B x Vx) as [X ->]. destruct (valid_B y Vy) as [Y ->].
  rewrite fadd_B. apply B2SF_valid.
Qed.

Print Assumptions of_bits_valid.
