(** C05: integer-level facts about the backoff policies (no floats here).
    All statements are over the executable model of Retry.v. *)
From Coq Require Import ZArith Bool List Lia Floats.SpecFloat.
From Garr Require Import Pure.F64 Pure.Retry.
Import ListNotations.
Local Open Scope Z_scope.

Definition word (w : Z) : Prop := 0 <= w < 2 ^ 32.
Definition words (rnd : list Z) : Prop := Forall word rnd.

Ltac consts :=
  unfold word, max_int64, min_int64 in *;
  change (2 ^ 63) with 9223372036854775808 in *;
  change (2 ^ 64) with 18446744073709551616 in *;
  change (2 ^ 32) with 4294967296 in *.

Lemma wrap64_id z : min_int64 <= z <= max_int64 -> wrap64 z = z.
Proof.
  unfold wrap64; intros H. consts.
  rewrite Z.mod_small by lia. lia.
Qed.

Lemma take2_words rnd a b r : words rnd -> take2 rnd = (a, b, r) -> word a /\ word b /\ words r.
Proof.
  unfold words, word; intros H.
  destruct rnd as [|x [|y t]]; cbn; intros E; inversion E; subst; clear E.
  - repeat split; try lia; constructor.
  - inversion H; subst. repeat split; try lia; constructor.
  - inversion H as [|? ? Hx Ht]; subst. inversion Ht; subst. repeat split; try lia; assumption.
Qed.

Lemma land_le_r x m : 0 <= m -> Z.land x m <= m.
Proof.
  intros Hm. apply (Z.ldiff_le (Z.land x m) m Hm).
  apply Z.bits_inj'. intros n Hn.
  rewrite Z.ldiff_spec, Z.land_spec, Z.bits_0.
  destruct (Z.testbit x n), (Z.testbit m n); reflexivity.
Qed.

(** randomInt64 is a non-negative int64 *)
Lemma random_int64_range a b : word a -> word b -> 0 <= random_int64 a b <= max_int64.
Proof.
  unfold random_int64, word; intros Ha Hb.
  set (x := Z.land (Z.shiftl a 32) max_int64).
  assert (Hx : 0 <= x <= max_int64).
  { unfold x. split.
    - apply Z.land_nonneg. right. consts; lia.
    - destruct (Z.eq_dec (Z.land (Z.shiftl a 32) max_int64) 0) as [->|Hn]; [consts; lia|].
      assert (0 <= Z.land (Z.shiftl a 32) max_int64) by (apply Z.land_nonneg; right; consts; lia).
      assert (Z.log2 (Z.land (Z.shiftl a 32) max_int64) <= Z.log2 max_int64).
      { etransitivity; [apply Z.log2_land|]; [apply Z.shiftl_nonneg; lia | consts; lia|].
        apply Z.le_min_r. }
      change (Z.log2 max_int64) with 62 in *.
      assert (Z.land (Z.shiftl a 32) max_int64 < 2 ^ 63).
      { apply Z.log2_lt_pow2; lia. }
      consts; lia. }
  split.
  - apply Z.lor_nonneg; lia.
  - destruct (Z.eq_dec (Z.lor x b) 0) as [->|Hn]; [consts; lia|].
    assert (0 <= Z.lor x b) by (apply Z.lor_nonneg; lia).
    assert (Z.log2 (Z.lor x b) < 63).
    { rewrite Z.log2_lor by lia.
      apply Z.max_lub_lt.
      - destruct (Z.eq_dec x 0) as [->|]; [cbn; lia|]. apply Z.log2_lt_pow2; consts; lia.
      - destruct (Z.eq_dec b 0) as [->|]; [cbn; lia|]. apply Z.log2_lt_pow2; lia. }
    assert (Z.lor x b < 2 ^ 63) by (apply Z.log2_lt_pow2; lia).
    consts; lia.
Qed.

(** nextRandomInt64IncludingZero: for a positive bound the rejection loop
    never rejects (the first iteration returns), and the result is in [0, bound) *)
Lemma incl_zero_loop_first fuel u bound mask rnd :
  0 <= u -> 0 < bound <= max_int64 -> mask = bound - 1 ->
  incl_zero_loop (S fuel) u bound mask rnd = Some (Z.rem u bound, rnd).
Proof.
  intros Hu Hb ->. cbn [incl_zero_loop].
  assert (Hr : 0 <= Z.rem u bound < bound) by (apply Z.rem_bound_pos; lia).
  rewrite wrap64_id by (consts; lia).
  destruct (Z.ltb_spec u (Z.rem u bound - (bound - 1))); [lia | reflexivity].
Qed.

Lemma next_incl_zero_range bound rnd :
  words rnd -> 0 < bound <= max_int64 ->
  exists r rnd', next_incl_zero bound rnd = Some (r, rnd') /\ 0 <= r < bound /\ words rnd'.
Proof.
  intros Hw Hb. unfold next_incl_zero.
  destruct (Z.leb_spec bound 0); [lia|].
  rewrite wrap64_id by (consts; lia).
  destruct (take2 rnd) as [[a b] rnd'] eqn:E.
  destruct (take2_words _ _ _ _ Hw E) as (Ha & Hb' & Hw').
  pose proof (random_int64_range a b Ha Hb') as Hr.
  destruct (Z.eqb_spec (Z.land bound (bound - 1)) 0).
  - exists (Z.land (random_int64 a b) (bound - 1)), rnd'. split; [reflexivity|]. split; [|assumption].
    split.
    + apply Z.land_nonneg; lia.
    + pose proof (land_le_r (random_int64 a b) (bound - 1)). lia.
  - unfold loop_fuel. rewrite incl_zero_loop_first; try lia.
    + exists (Z.rem (Z.shiftr (random_int64 a b) 1) bound), rnd'. split; [reflexivity|]. split; [|assumption].
      apply Z.rem_bound_pos; [apply Z.shiftr_nonneg|]; lia.
    + apply Z.shiftr_nonneg; lia.
Qed.

(** nextRandomInt64: a value in [1, max(1, bound-1)] for a positive bound *)
Lemma next_random_range bound rnd :
  words rnd -> 0 < bound <= max_int64 ->
  exists r rnd', next_random bound rnd = Some (r, rnd') /\ 1 <= r <= Z.max 1 (bound - 1) /\ words rnd'.
Proof.
  intros Hw Hb. unfold next_random.
  destruct (Z.leb_spec bound 0); [lia|].
  rewrite wrap64_id by (consts; lia).
  destruct (Z.eq_dec bound 1) as [->|Hne].
  - cbn. exists 1, rnd. repeat split; try lia; assumption.
  - destruct (next_incl_zero_range (bound - 1) rnd Hw) as (r & rnd' & E & Hr & Hw'); [consts; lia|].
    rewrite E. exists (wrap64 (r + 1)), rnd'. rewrite wrap64_id by (consts; lia).
    repeat split; try lia; assumption.
Qed.

(** well-formedness: what the constructors guarantee (all fields are int64) *)
Fixpoint wf (b : backoff) : Prop :=
  match b with
  | Fixed d => 0 <= d <= max_int64
  | Expo i mx _ => 0 <= i <= mx /\ mx <= max_int64
  | Random mn mx bound => 0 <= mn <= mx /\ mx <= max_int64 /\ bound = mx - mn
  | Jitter _ _ b' => wf b'
  | Limit l b' => 0 < l /\ wf b'
  end.

(** fixed *)
Lemma fixed_delay p d n rnd : next_delay p (Fixed d) n rnd = Some (d, rnd).
Proof. reflexivity. Qed.

(** random: a value in [min, max] *)
Lemma random_delay p mn mx bound n rnd :
  words rnd -> wf (Random mn mx bound) ->
  exists d rnd', next_delay p (Random mn mx bound) n rnd = Some (d, rnd') /\ mn <= d <= mx /\ words rnd'.
Proof.
  intros Hw (Hm & Hx & ->). cbn [next_delay].
  destruct (Z.eqb_spec mn mx) as [->|Hne]; cbn [negb].
  - exists mx, rnd. repeat split; try lia; assumption.
  - destruct (next_random_range (mx - mn) rnd Hw) as (r & rnd' & E & Hr & Hw'); [consts; lia|].
    rewrite E. exists (wrap64 (r + mn)), rnd'. rewrite wrap64_id by (consts; lia).
    repeat split; try lia; assumption.
Qed.

(** limit: negative exactly from attempt [l] on, otherwise the wrapped delay *)
Lemma limit_delay p l b n rnd :
  next_delay p (Limit l b) n rnd = if l <=? n then Some (-1, rnd) else next_delay p b n rnd.
Proof. reflexivity. Qed.

(** jitter passes a non-positive delay (in particular a negative "stop") through unchanged *)
Lemma jitter_passthrough p lo hi b n rnd tmp rnd1 :
  next_delay p b n rnd = Some (tmp, rnd1) -> tmp <= 0 ->
  next_delay p (Jitter lo hi b) n rnd = Some (tmp, rnd1).
Proof.
  intros E H. cbn [next_delay]. rewrite E.
  destruct (Z.leb_spec tmp 0); [reflexivity | lia].
Qed.

(** jitter band, given that the two saturated products are ordered int64 values
    (that they are is a float fact, proved in RetryFloat.v) *)
Lemma jitter_band p lo hi b n rnd tmp rnd1 :
  words rnd1 ->
  next_delay p b n rnd = Some (tmp, rnd1) -> 0 < tmp ->
  let minj := sat_mul tmp (fadd fone lo) in
  let maxj := sat_mul tmp (fadd fone hi) in
  0 <= minj <= maxj -> maxj <= max_int64 ->
  exists d rnd2, next_delay p (Jitter lo hi b) n rnd = Some (d, rnd2) /\ minj <= d <= maxj /\ words rnd2.
Proof.
  intros Hw E Hpos minj maxj Hord Hmax. cbn [next_delay]. rewrite E.
  destruct (Z.leb_spec tmp 0); [lia|].
  fold minj maxj.
  rewrite (wrap64_id (maxj - minj)) by (consts; lia).
  destruct (Z.ltb_spec (maxj - minj) max_int64) as [Hlt|Hge].
  - rewrite (wrap64_id (maxj - minj + 1)) by (consts; lia).
    destruct (next_incl_zero_range (maxj - minj + 1) rnd1 Hw) as (r & rnd2 & E2 & Hr & Hw2); [consts; lia|].
    rewrite E2. rewrite wrap64_id by (consts; lia).
    destruct (Z.ltb_spec (minj + r) 0); [lia|].
    exists (minj + r), rnd2. repeat split; try lia; assumption.
  - destruct (take2 rnd1) as [[a b0] rnd2] eqn:E2.
    destruct (take2_words _ _ _ _ Hw E2) as (Ha & Hb & Hw2).
    pose proof (random_int64_range a b0 Ha Hb) as Hr.
    destruct (Z.ltb_spec (random_int64 a b0) 0); [lia|].
    exists (random_int64 a b0), rnd2. repeat split; try lia; try assumption.
Qed.

(** "a stop never becomes a retry": whatever the layers, if the wrapped policy
    answers a negative delay, so does the wrapper *)
Lemma jitter_keeps_stop p lo hi b n rnd tmp rnd1 :
  next_delay p b n rnd = Some (tmp, rnd1) -> tmp < 0 ->
  next_delay p (Jitter lo hi b) n rnd = Some (tmp, rnd1).
Proof. intros; apply jitter_passthrough; [assumption | lia]. Qed.

Lemma limit_keeps_stop p l b n rnd tmp rnd1 :
  next_delay p b n rnd = Some (tmp, rnd1) -> tmp < 0 ->
  exists d rnd2, next_delay p (Limit l b) n rnd = Some (d, rnd2) /\ d < 0.
Proof.
  intros E H. rewrite limit_delay. destruct (l <=? n).
  - exists (-1), rnd. split; [reflexivity | lia].
  - exists tmp, rnd1. split; assumption.
Qed.

(** the builder applies layers in insertion order, as a left fold, and fails at the first invalid layer *)
Lemma build_app b ls1 ls2 :
  build b (ls1 ++ ls2) = match build b ls1 with Some b' => build b' ls2 | None => None end.
Proof.
  revert b; induction ls1 as [|l ls IH]; intros b; cbn [build app]; [reflexivity|].
  destruct (apply_layer b l); [apply IH | reflexivity].
Qed.

Lemma build_snoc b ls l :
  build b (ls ++ [l]) = match build b ls with Some b' => apply_layer b' l | None => None end.
Proof.
  rewrite build_app. destruct (build b ls) as [b'|]; [|reflexivity].
  cbn. destruct (apply_layer b' l); reflexivity.
Qed.

(** constructors produce well-formed policies (for int64 arguments) *)
Lemma new_fixed_wf d b : d <= max_int64 -> new_fixed d = Some b -> wf b.
Proof. unfold new_fixed; destruct (Z.leb_spec 0 d); intros Hd E; inversion E; subst; cbn [wf]; lia. Qed.
Lemma new_random_wf mn mx b : mx <= max_int64 -> new_random mn mx = Some b -> wf b.
Proof.
  unfold new_random. destruct (Z.ltb_spec mn 0); [discriminate|].
  destruct (Z.ltb_spec mx mn); [discriminate|]. intros Hd E; inversion E; subst; cbn [wf].
  rewrite wrap64_id by (consts; lia). lia.
Qed.
Lemma new_expo_wf i mx m b : mx <= max_int64 -> new_expo i mx m = Some b -> wf b.
Proof.
  unfold new_expo. destruct (negb (fltb fone m)); [discriminate|].
  destruct (Z.ltb_spec i 0); [discriminate|]. destruct (Z.ltb_spec mx i); [discriminate|].
  intros Hd E; inversion E; subst; cbn [wf]. lia.
Qed.
Lemma new_limit_wf b l b' : wf b -> new_limit b l = Some b' -> wf b'.
Proof. unfold new_limit; destruct (Z.leb_spec l 0); intros Hd E; inversion E; subst; cbn [wf]; split; [lia | assumption]. Qed.
Lemma new_jitter_wf b lo hi b' : wf b -> new_jitter b lo hi = Some b' -> wf b'.
Proof.
  unfold new_jitter. destruct (negb _); [discriminate|]. destruct (negb _); [discriminate|].
  destruct (fltb hi lo); [discriminate|]. intros Hd E; inversion E; subst; exact Hd.
Qed.
Lemma build_wf b ls b' : wf b -> build b ls = Some b' -> wf b'.
Proof.
  revert b; induction ls as [|l ls IH]; intros b Hb; cbn [build]; intros E; [inversion E; subst; exact Hb|].
  destruct (apply_layer b l) as [b1|] eqn:E1; [|discriminate].
  apply (IH b1); [|exact E].
  destruct l; cbn in E1; [eapply new_limit_wf | eapply new_jitter_wf]; eassumption.
Qed.

(** Non-vacuity: concrete evaluations of the model *)
Example ex_random : next_delay fzero (Random 5 9 4) 1 [7; 123456] = Some (8, []).
Proof. vm_compute. reflexivity. Qed.
Example ex_limit : next_delay fzero (Limit 3 (Fixed 10)) 3 [] = Some (-1, []).
Proof. reflexivity. Qed.
Example ex_jitter : exists d r, next_delay fzero (Jitter (of_bits 13826050856027422720) (of_bits 4602678819172646912) (Fixed 1000)) 1 [1; 2] = Some (d, r) /\ 500 <= d <= 1500.
Proof. vm_compute. eexists _, _. split; [reflexivity|]. split; discriminate. Qed.

(** exponential: initial at attempt 1, afterwards the saturated product clamped to the maximum *)
Lemma expo_delay p i mx m n rnd :
  next_delay p (Expo i mx m) n rnd = Some (if n =? 1 then i else Z.min mx (sat_mul i p), rnd).
Proof.
  cbn [next_delay]. destruct (n =? 1); [reflexivity|].
  destruct (Z.ltb_spec mx (sat_mul i p)); f_equal; f_equal; lia.
Qed.

Lemma expo_le_max p i mx m n rnd d rnd' :
  i <= mx -> next_delay p (Expo i mx m) n rnd = Some (d, rnd') -> d <= mx.
Proof. rewrite expo_delay. intros H E; inversion E; subst. destruct (n =? 1); lia. Qed.
