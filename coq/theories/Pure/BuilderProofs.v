(** The builder machine (Pure/Builder.v): whatever calls were made before, a
    Build returns what the calls made so far determine - the last explicitly
    given base, else the LAST specification, with the layers in the order they
    were added.  In particular building twice gives the same result, a changed
    specification is honoured (and an invalid one refused), and the remembered
    base never shows. *)
From Coq Require Import ZArith Bool List Lia.
From Garr Require Import Pure.F64 Pure.Retry Pure.Spec Pure.SpecProofs Pure.Builder.
Import ListNotations.
Local Open Scope Z_scope.

Section WithParseFloat.
  Variable pf : list Z -> option f64.

  (* generalised accessors: the effect of a suffix of calls on what has been accumulated *)
  Lemma last_base_app ops1 ops2 acc :
    last_base (ops1 ++ ops2) acc = last_base ops2 (last_base ops1 acc).
  Proof.
    revert acc; induction ops1 as [|o r IH]; intros acc; cbn; [reflexivity|].
    destruct o as [s|[b|]|l|]; apply IH.
  Qed.
  Lemma last_spec_app ops1 ops2 acc :
    last_spec (ops1 ++ ops2) acc = last_spec ops2 (last_spec ops1 acc).
  Proof.
    revert acc; induction ops1 as [|o r IH]; intros acc; cbn; [reflexivity|].
    destruct o as [s|b|l|]; apply IH.
  Qed.
  Lemma layers_of_app ops1 ops2 : layers_of (ops1 ++ ops2) = layers_of ops1 ++ layers_of ops2.
  Proof.
    induction ops1 as [|o r IH]; cbn; [reflexivity|].
    destruct o as [s|b|l|]; cbn; rewrite IH; reflexivity.
  Qed.

  (** the invariant tying the machine state to the calls made so far *)
  Definition binv (ops : list bop) (st : bstate) : Prop :=
    bs_spec st = last_spec ops [] /\
    bs_layers st = layers_of ops /\
    match bs_base st with
    | Some (b, None) => last_base ops None = Some b
    | Some (b, Some sp) => last_base ops None = None /\ parse_spec pf sp = Ok b /\ is_empty sp = false
    | None => last_base ops None = None
    end.

  Lemma binv_init : binv [] binit.
  Proof. repeat split. Qed.

  Lemma binv_step ops st o :
    binv ops st -> binv (ops ++ [o]) (fst (bstep pf st o)).
  Proof.
    intros (Hs & Hl & Hb). unfold binv.
    rewrite last_spec_app, last_base_app, layers_of_app.
    assert (Hl0 : bs_layers st = layers_of ops ++ []) by (rewrite app_nil_r; exact Hl).
    destruct o as [s|[b|]|l|]; cbn [bstep fst last_spec last_base layers_of bs_spec bs_base bs_layers].
    - split; [reflexivity|]. split; [exact Hl0|exact Hb].
    - split; [exact Hs|]. split; [exact Hl0|reflexivity].
    - split; [exact Hs|]. split; [exact Hl0|exact Hb].
    - split; [exact Hs|]. split; [rewrite Hl; reflexivity|exact Hb].
    - destruct (load_base st) as [b|] eqn:E.
      + cbn [fst bs_spec bs_layers bs_base]. split; [exact Hs|]. split; [exact Hl0|exact Hb].
      + destruct (is_empty (bs_spec st)) eqn:Ee.
        * cbn [fst bs_spec bs_layers bs_base]. split; [exact Hs|]. split; [exact Hl0|exact Hb].
        * destruct (parse_spec pf (bs_spec st)) as [b| |] eqn:Ep; cbn [fst bs_spec bs_layers bs_base].
          -- split; [exact Hs|]. split; [exact Hl0|].
             unfold load_base in E.
             destruct (bs_base st) as [[b0 [sp|]]|].
             ++ destruct Hb as (Hb & _). split; [exact Hb|]. split; [exact Ep|exact Ee].
             ++ discriminate.
             ++ split; [exact Hb|]. split; [exact Ep|exact Ee].
          -- split; [exact Hs|]. split; [exact Hl0|exact Hb].
          -- split; [exact Hs|]. split; [exact Hl0|exact Hb].
  Qed.

  Lemma binv_run : forall ops2 ops1 st, binv ops1 st -> binv (ops1 ++ ops2) (fst (brun pf st ops2)).
  Proof.
    induction ops2 as [|o r IH]; intros ops1 st H; cbn.
    - rewrite app_nil_r; exact H.
    - destruct (bstep pf st o) as [st1 out] eqn:E1. destruct (brun pf st1 r) as [st2 outs] eqn:E2. cbn.
      pose proof (binv_step ops1 st o H) as H1. rewrite E1 in H1. cbn in H1.
      specialize (IH (ops1 ++ [o]) st1 H1). rewrite E2 in IH. cbn in IH.
      rewrite <- app_assoc in IH. exact IH.
  Qed.

  (** a Build in a state that satisfies the invariant returns [build_of_calls] *)
  Lemma build_correct ops st :
    binv ops st -> snd (bstep pf st DoBuild) = Some (build_of_calls pf ops).
  Proof.
    intros (Hs & Hl & Hb). unfold build_of_calls, build_spec. cbn [bstep].
    unfold load_base.
    destruct (bs_base st) as [[b [sp|]]|].
    - destruct Hb as (Hn & Hp & He). rewrite Hn.
      destruct (bytes_eqb sp (bs_spec st)) eqn:Eq.
      + apply bytes_eqb_eq in Eq. subst sp. cbn. rewrite <- Hs, He, Hp, Hl. reflexivity.
      + rewrite <- Hs. destruct (is_empty (bs_spec st)); [reflexivity|].
        destruct (parse_spec pf (bs_spec st)); cbn; rewrite ?Hl; reflexivity.
    - rewrite Hb. cbn. rewrite Hl. reflexivity.
    - rewrite Hb, <- Hs. destruct (is_empty (bs_spec st)); [reflexivity|].
      destruct (parse_spec pf (bs_spec st)); cbn; rewrite ?Hl; reflexivity.
  Qed.

  (** MAIN THEOREM: after ANY sequence of calls, Build returns what the calls determine *)
  Theorem builder_build_of_calls : forall ops,
    snd (bstep pf (fst (brun pf binit ops)) DoBuild) = Some (build_of_calls pf ops).
  Proof.
    intros ops. apply build_correct. exact (binv_run ops [] binit binv_init).
  Qed.

  (** Build does not change what later Builds return: idempotence *)
  Lemma calls_with_build ops : build_of_calls pf (ops ++ [DoBuild]) = build_of_calls pf ops.
  Proof.
    unfold build_of_calls. rewrite last_base_app, last_spec_app, layers_of_app. cbn. rewrite app_nil_r. reflexivity.
  Qed.
  Theorem builder_rebuild_same : forall ops,
    snd (bstep pf (fst (brun pf binit (ops ++ [DoBuild]))) DoBuild) =
    snd (bstep pf (fst (brun pf binit ops)) DoBuild).
  Proof. intros ops. rewrite !builder_build_of_calls. rewrite calls_with_build. reflexivity. Qed.

  (** a specification given after a Build is honoured: without an explicit base, the result is
      [build_spec] of the LAST specification *)
  Theorem builder_last_spec_wins : forall ops s,
    last_base ops None = None ->
    snd (bstep pf (fst (brun pf binit (ops ++ [SetSpec s]))) DoBuild) =
    Some (build_spec pf s (layers_of ops)).
  Proof.
    intros ops s H. rewrite builder_build_of_calls. unfold build_of_calls.
    rewrite last_base_app, last_spec_app, layers_of_app. cbn. rewrite H, app_nil_r. reflexivity.
  Qed.

  (** the builder never panics if the parser does not *)
  Theorem builder_total : forall ops,
    (forall s ls, build_spec pf s ls <> Panic) ->
    snd (bstep pf (fst (brun pf binit ops)) DoBuild) <> Some Panic.
  Proof.
    intros ops H. rewrite builder_build_of_calls. unfold build_of_calls.
    destruct (last_base ops None) as [b|].
    - destruct (build b (layers_of ops)); cbn; discriminate.
    - intros E. inversion E as [E']. exact (H _ _ E').
  Qed.
End WithParseFloat.
