(** Hand-written executable model of package retry (backoff policies).
    Integers are Z with Go's int64 wrap-around written out ([wrap64]);
    float64 is [spec_float]; the random source is an explicit stream of
    32-bit words; [math.Pow] is an oracle value supplied by the caller. *)
From Coq Require Import ZArith Bool List Floats.SpecFloat.
From Garr Require Import Pure.F64.
Import ListNotations.
Local Open Scope Z_scope.

(** retry/utils.go *)

(* randomInt64: two fastrand.Uint32 words *)
Definition random_int64 (a b : Z) : Z :=
  Z.lor (Z.land (Z.shiftl a 32) max_int64) b.

Definition take2 (rnd : list Z) : Z * Z * list Z :=
  match rnd with
  | a :: b :: r => (a, b, r)
  | [a] => (a, 0, [])
  | [] => (0, 0, [])
  end.

(* saturatedMultiply *)
Definition sat_mul (l : Z) (r : f64) : Z :=
  let t := fmul (of_Z l) r in
  if fltb t ftwo63 then to_int64 t else max_int64.

(* the rejection loop of nextRandomInt64IncludingZero, on fuel *)
Fixpoint incl_zero_loop (fuel : nat) (u bound mask : Z) (rnd : list Z) : option (Z * list Z) :=
  match fuel with
  | O => None
  | S fuel' =>
      let result := Z.rem u bound in
      if u <? wrap64 (result - mask) then
        let '(a, b, rnd') := take2 rnd in
        incl_zero_loop fuel' (Z.shiftr (random_int64 a b) 1) bound mask rnd'
      else Some (result, rnd)
  end.

Definition loop_fuel : nat := 64.

(* nextRandomInt64IncludingZero; None = loop fuel exhausted (never happens, see proofs) *)
Definition next_incl_zero (bound : Z) (rnd : list Z) : option (Z * list Z) :=
  if bound <=? 0 then Some (bound, rnd)
  else
    let mask := wrap64 (bound - 1) in
    let '(a, b, rnd') := take2 rnd in
    let result := random_int64 a b in
    if Z.land bound mask =? 0 then Some (Z.land result mask, rnd')
    else incl_zero_loop loop_fuel (Z.shiftr result 1) bound mask rnd'.

(* nextRandomInt64 *)
Definition next_random (bound : Z) (rnd : list Z) : option (Z * list Z) :=
  if bound <=? 0 then Some (bound, rnd)
  else match next_incl_zero (wrap64 (bound - 1)) rnd with
       | Some (r, rnd') => Some (wrap64 (r + 1), rnd')
       | None => None
       end.

(** the backoff policies *)
Inductive backoff :=
| Fixed (d : Z)
| Expo (i mx : Z) (m : f64)
| Random (mn mx bound : Z)
| Jitter (lo hi : f64) (b : backoff)
| Limit (l : Z) (b : backoff).

(* constructors: None = rejected with an error *)
Definition new_fixed (d : Z) : option backoff :=
  if 0 <=? d then Some (Fixed d) else None.

Definition new_expo (i mx : Z) (m : f64) : option backoff :=
  if negb (fltb fone m) then None
  else if i <? 0 then None
  else if mx <? i then None
  else Some (Expo i mx m).

Definition new_random (mn mx : Z) : option backoff :=
  if mn <? 0 then None
  else if mx <? mn then None
  else Some (Random mn mx (wrap64 (mx - mn))).

Definition new_jitter (b : backoff) (lo hi : f64) : option backoff :=
  if negb (fleb fmone lo && fleb lo fone) then None
  else if negb (fleb fmone hi && fleb hi fone) then None
  else if fltb hi lo then None
  else Some (Jitter lo hi b).

Definition new_limit (b : backoff) (l : Z) : option backoff :=
  if l <=? 0 then None else Some (Limit l b).

(** NextDelayMillis.  [p] is the oracle value of math.Pow(multiplier, n-1)
    for the (unique) exponential base, if any.  Result None = fuel exhausted. *)
Fixpoint next_delay (p : f64) (b : backoff) (n : Z) (rnd : list Z) : option (Z * list Z) :=
  match b with
  | Fixed d => Some (d, rnd)
  | Expo i mx _ =>
      if n =? 1 then Some (i, rnd)
      else let d := sat_mul i p in
           Some (if mx <? d then mx else d, rnd)
  | Random mn mx bound =>
      if negb (mn =? mx) then
        match next_random bound rnd with
        | Some (r, rnd') => Some (wrap64 (r + mn), rnd')
        | None => None
        end
      else Some (mn, rnd)
  | Jitter lo hi b' =>
      match next_delay p b' n rnd with
      | None => None
      | Some (tmp, rnd1) =>
          if tmp <=? 0 then Some (tmp, rnd1)
          else
            let minj := sat_mul tmp (fadd fone lo) in
            let maxj := sat_mul tmp (fadd fone hi) in
            let width := wrap64 (maxj - minj) in
            let res :=
              if width <? max_int64 then
                match next_incl_zero (wrap64 (width + 1)) rnd1 with
                | Some (r, rnd2) => Some (wrap64 (minj + r), rnd2)
                | None => None
                end
              else let '(a, b0, rnd2) := take2 rnd1 in Some (random_int64 a b0, rnd2) in
            match res with
            | Some (d, rnd2) => Some (if d <? 0 then 0 else d, rnd2)
            | None => None
            end
      end
  | Limit l b' =>
      if l <=? n then Some (-1, rnd) else next_delay p b' n rnd
  end.

(** builder layers, applied in insertion order *)
Inductive layer := LLimit (l : Z) | LJitter (lo hi : f64).

Definition with_jitter (r : f64) : layer := LJitter (fopp r) r.

Definition apply_layer (b : backoff) (l : layer) : option backoff :=
  match l with
  | LLimit n => new_limit b n
  | LJitter lo hi => new_jitter b lo hi
  end.

Fixpoint build (b : backoff) (ls : list layer) : option backoff :=
  match ls with
  | [] => Some b
  | l :: ls' => match apply_layer b l with
                | Some b' => build b' ls'
                | None => None
                end
  end.
