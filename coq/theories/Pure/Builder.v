(** retry/backoff.go: the BackoffBuilder as a state machine over CALL SEQUENCES
    (BaseBackoffSpec, BaseBackoff, WithLimit, WithJitter, WithJitterBound,
    Build, in any order, Build any number of times).  The builder remembers a
    base backoff: either one given explicitly (it then takes precedence over
    any specification) or the one parsed from the specification by an earlier
    Build, together with the specification it was parsed from - it is used
    again only while the specification is still the same. *)
From Coq Require Import ZArith Bool List.
From Garr Require Import Pure.F64 Pure.Retry Pure.Spec.
Import ListNotations.
Local Open Scope Z_scope.

Record bstate := BS {
  bs_spec : list Z;                               (* the specification string (bytes) *)
  bs_base : option (backoff * option (list Z));   (* remembered base; Some sp = parsed from sp *)
  bs_layers : list layer                          (* in the order they were added *)
}.

Definition binit : bstate := BS [] None [].

Inductive bop :=
| SetSpec (s : list Z)               (* BaseBackoffSpec(s) *)
| SetBase (b : option backoff)       (* BaseBackoff(b); None = a nil Backoff, which is ignored *)
| AddLayer (l : layer)               (* WithLimit / WithJitter / WithJitterBound *)
| DoBuild.                           (* Build() *)

Section WithParseFloat.
  Variable pf : list Z -> option f64.

  (* loadBase() *)
  Definition load_base (st : bstate) : option backoff :=
    match bs_base st with
    | Some (b, None) => Some b
    | Some (b, Some sp) => if bytes_eqb sp (bs_spec st) then Some b else None
    | None => None
    end.

  (* one call; Build returns Some outcome *)
  Definition bstep (st : bstate) (o : bop) : bstate * option outcome :=
    match o with
    | SetSpec s => (BS s (bs_base st) (bs_layers st), None)
    | SetBase None => (st, None)
    | SetBase (Some b) => (BS (bs_spec st) (Some (b, None)) (bs_layers st), None)
    | AddLayer l => (BS (bs_spec st) (bs_base st) (bs_layers st ++ [l]), None)
    | DoBuild =>
        match load_base st with
        | Some b => (st, Some (of_opt (build b (bs_layers st))))
        | None =>
            if is_empty (bs_spec st) then (st, Some Err)
            else match parse_spec pf (bs_spec st) with
                 | Ok b => (BS (bs_spec st) (Some (b, Some (bs_spec st))) (bs_layers st),
                            Some (of_opt (build b (bs_layers st))))
                 | o' => (st, Some o')
                 end
        end
    end.

  (* a whole call sequence: the outcomes of its Builds, in order *)
  Fixpoint brun (st : bstate) (ops : list bop) : bstate * list outcome :=
    match ops with
    | [] => (st, [])
    | o :: r =>
        let '(st1, out) := bstep st o in
        let '(st2, outs) := brun st1 r in
        (st2, match out with Some x => x :: outs | None => outs end)
    end.

  (** what a Build SHOULD return, as a function of the calls made so far: the last
      explicitly given (non-nil) base if any, else the last specification; the layers in
      the order they were added *)
  Fixpoint last_base (ops : list bop) (acc : option backoff) : option backoff :=
    match ops with
    | [] => acc
    | SetBase (Some b) :: r => last_base r (Some b)
    | _ :: r => last_base r acc
    end.
  Fixpoint last_spec (ops : list bop) (acc : list Z) : list Z :=
    match ops with
    | [] => acc
    | SetSpec s :: r => last_spec r s
    | _ :: r => last_spec r acc
    end.
  Fixpoint layers_of (ops : list bop) : list layer :=
    match ops with
    | [] => []
    | AddLayer l :: r => l :: layers_of r
    | _ :: r => layers_of r
    end.
  Definition build_of_calls (ops : list bop) : outcome :=
    match last_base ops None with
    | Some b => of_opt (build b (layers_of ops))
    | None => build_spec pf (last_spec ops []) (layers_of ops)
    end.
End WithParseFloat.
