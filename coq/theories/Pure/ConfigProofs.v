(** C20: constructors accept exactly their documented domain.
    Float parameters are read as real numbers through Flocq's [B2R]; the model
    functions themselves ([validate], [new_*]) are the axiom-free executable
    ones of Config.v / Retry.v applied to [B2SF x]. *)
From Coq Require Import ZArith Bool Reals Lia Lra Floats.SpecFloat.
From Flocq Require Import Core IEEE754.BinarySingleNaN.
From Garr Require Import Pure.F64 Pure.Retry Pure.Config.
Local Open Scope Z_scope.

Notation b64 := (binary_float 53 1024).

Definition b_zero : b64 := B754_zero false.
Definition b_one : b64 := @Bone 53 1024 (eq_refl Lt) (eq_refl Lt).
Definition b_mone : b64 := Bopp b_one.

Lemma fone_b : fone = B2SF b_one. Proof. reflexivity. Qed.
Lemma fmone_b : fmone = B2SF b_mone. Proof. reflexivity. Qed.
Lemma fzero_b : fzero = B2SF b_zero. Proof. reflexivity. Qed.
Lemma b_one_R : B2R b_one = 1%R. Proof. apply Bone_correct. Qed.
Lemma b_mone_R : B2R b_mone = (-1)%R.
Proof. unfold b_mone. rewrite B2R_Bopp, b_one_R. reflexivity. Qed.
Lemma b_one_fin : is_finite b_one = true. Proof. reflexivity. Qed.
Lemma b_mone_fin : is_finite b_mone = true. Proof. reflexivity. Qed.

(** a float denotes a real number: it is neither NaN nor an infinity *)
Definition real (x : b64) : Prop := is_finite x = true.

Lemma fltb_R (x y : b64) : real x -> real y ->
  fltb (B2SF x) (B2SF y) = Rlt_bool (B2R x) (B2R y).
Proof. intros; apply (Bltb_correct 53 1024); assumption. Qed.

Lemma fleb_R (x y : b64) : real x -> real y ->
  fleb (B2SF x) (B2SF y) = Rle_bool (B2R x) (B2R y).
Proof. intros; apply (Bleb_correct 53 1024); assumption. Qed.

(** comparisons with a NaN or an infinity, by cases *)
Lemma not_real_cases (x : b64) : ~ real x ->
  x = B754_nan \/ x = B754_infinity false \/ x = B754_infinity true.
Proof. unfold real; destruct x as [s|s| |s m e H]; simpl; intros Hn;
  try (exfalso; apply Hn; reflexivity); auto; destruct s; auto. Qed.

(** 0 < x <= 1 *)
Lemma unit_interval_iff (x : b64) :
  fltb fzero (B2SF x) && fleb (B2SF x) fone = true <-> real x /\ (0 < B2R x <= 1)%R.
Proof.
  destruct (is_finite x) eqn:Hf.
  - rewrite fzero_b, fone_b, fltb_R, fleb_R by (assumption || reflexivity).
    rewrite b_one_R. change (B2R b_zero) with 0%R.
    rewrite andb_true_iff.
    destruct (Rlt_bool_spec 0 (B2R x)), (Rle_bool_spec (B2R x) 1); unfold real;
      split; intros; intuition (try discriminate; try lra).
  - assert (Hn : ~ real x) by (unfold real; congruence).
    destruct (not_real_cases x Hn) as [-> | [-> | ->]]; cbn;
      split; intros H; try discriminate; destruct H as [H _]; discriminate.
Qed.

(** -1 <= x <= 1 *)
Lemma rate_interval_iff (x : b64) :
  fleb fmone (B2SF x) && fleb (B2SF x) fone = true <-> real x /\ (-1 <= B2R x <= 1)%R.
Proof.
  destruct (is_finite x) eqn:Hf.
  - rewrite fmone_b, fone_b, !fleb_R by (assumption || reflexivity).
    rewrite b_one_R, b_mone_R, andb_true_iff.
    destruct (Rle_bool_spec (-1) (B2R x)), (Rle_bool_spec (B2R x) 1); unfold real;
      split; intros; intuition (try discriminate; try lra).
  - assert (Hn : ~ real x) by (unfold real; congruence).
    destruct (not_real_cases x Hn) as [-> | [-> | ->]]; cbn;
      split; intros H; try discriminate; destruct H as [H _]; discriminate.
Qed.

(** 1 < m, where +infinity counts as a number above 1 (the constructor's
    message says "expected: > 1.0" and Go's comparison accepts +Inf) *)
Lemma above_one_iff (m : b64) :
  fltb fone (B2SF m) = true <-> (real m /\ (1 < B2R m)%R) \/ m = B754_infinity false.
Proof.
  destruct (is_finite m) eqn:Hf.
  - rewrite fone_b, fltb_R by (assumption || reflexivity). rewrite b_one_R.
    destruct (Rlt_bool_spec 1 (B2R m)) as [Hlt | Hge]; split; intros H'.
    + left; split; assumption.
    + reflexivity.
    + discriminate.
    + destruct H' as [[_ H'] | H']; [lra | subst m; discriminate].
  - assert (Hn : ~ real m) by (unfold real; congruence).
    destruct (not_real_cases m Hn) as [-> | [-> | ->]]; cbn; split; intros H;
      try discriminate; try (right; reflexivity); try reflexivity;
      destruct H as [[H _] | H]; discriminate.
Qed.

Theorem breaker_config_iff (x : b64) (mr tr ow w iv : Z) :
  validate {| thr := B2SF x; minreq := mr; trial := tr; openw := ow; window := w; interval := iv |} = true
  <-> (real x /\ (0 < B2R x <= 1)%R) /\ 0 < tr /\ 0 < ow /\ 0 < w /\ 0 < iv /\ iv < w.
Proof.
  unfold validate; cbn [thr minreq trial openw window interval].
  rewrite <- unit_interval_iff.
  destruct (fltb fzero (B2SF x) && fleb (B2SF x) fone); cbn [negb].
  2: { split; [discriminate | intros [H _]; discriminate]. }
  destruct (Z.leb_spec tr 0); [split; [discriminate | lia] |].
  destruct (Z.leb_spec ow 0); [split; [discriminate | lia] |].
  destruct (Z.leb_spec w 0); [split; [discriminate | lia] |].
  destruct (Z.leb_spec iv 0); [split; [discriminate | lia] |].
  destruct (Z.leb_spec w iv); [split; [discriminate | lia] |].
  split; intros; auto. repeat split; auto; lia.
Qed.

Theorem expo_ctor_iff (i mx : Z) (m : b64) :
  new_expo i mx (B2SF m) <> None
  <-> ((real m /\ (1 < B2R m)%R) \/ m = B754_infinity false) /\ 0 <= i <= mx.
Proof.
  unfold new_expo. rewrite <- above_one_iff.
  destruct (fltb fone (B2SF m)); cbn [negb].
  2: { split; [congruence | intros [H _]; discriminate]. }
  destruct (Z.ltb_spec i 0); [split; [congruence | lia] |].
  destruct (Z.ltb_spec mx i); [split; [congruence | lia] |].
  split; [intros; split; [reflexivity | lia] | congruence].
Qed.

Theorem fixed_ctor_iff (d : Z) : new_fixed d <> None <-> 0 <= d.
Proof. unfold new_fixed. destruct (Z.leb_spec 0 d); split; try congruence; lia. Qed.

Theorem random_ctor_iff (mn mx : Z) : new_random mn mx <> None <-> 0 <= mn <= mx.
Proof.
  unfold new_random.
  destruct (Z.ltb_spec mn 0); [split; [congruence | lia] |].
  destruct (Z.ltb_spec mx mn); [split; [congruence | lia] |].
  split; [lia | congruence].
Qed.

Theorem limit_ctor_iff (b : backoff) (l : Z) : new_limit b l <> None <-> 0 < l.
Proof. unfold new_limit. destruct (Z.leb_spec l 0); split; try congruence; lia. Qed.

Theorem jitter_ctor_iff (b : backoff) (lo hi : b64) :
  new_jitter b (B2SF lo) (B2SF hi) <> None
  <-> real lo /\ real hi /\ (-1 <= B2R lo <= B2R hi)%R /\ (B2R hi <= 1)%R.
Proof.
  unfold new_jitter.
  pose proof (rate_interval_iff lo) as Hlo. pose proof (rate_interval_iff hi) as Hhi.
  destruct (fleb fmone (B2SF lo) && fleb (B2SF lo) fone); cbn [negb].
  2: { split; [congruence | intros (Hr & _ & H & H')].
       assert (real lo /\ (-1 <= B2R lo <= 1)%R) as Hx by (split; [assumption | lra]).
       apply Hlo in Hx; discriminate. }
  destruct (fleb fmone (B2SF hi) && fleb (B2SF hi) fone); cbn [negb].
  2: { split; [congruence | intros (_ & Hr & H & H')].
       assert (real hi /\ (-1 <= B2R hi <= 1)%R) as Hx by (split; [assumption | lra]).
       apply Hhi in Hx; discriminate. }
  destruct (proj1 Hlo eq_refl) as [Rlo Blo]. destruct (proj1 Hhi eq_refl) as [Rhi Bhi].
  rewrite fltb_R by assumption.
  destruct (Rlt_bool_spec (B2R hi) (B2R lo)) as [Hlt | Hge]; split.
  - intros H; exfalso; apply H; reflexivity.
  - intros (_ & _ & [_ H1] & _). lra.
  - intros _. repeat split; try assumption; lra.
  - congruence.
Qed.

(** Non-vacuity: concrete accepted and rejected inputs. *)
Example breaker_default_accepted :
  validate {| thr := of_bits 4605380978949069210 (* 0.8 *); minreq := 10; trial := 3000000000;
              openw := 10000000000; window := 20000000000; interval := 1000000000 |} = true.
Proof. reflexivity. Qed.
Example breaker_nan_rejected :
  validate {| thr := S754_nan; minreq := 10; trial := 1; openw := 1; window := 2; interval := 1 |} = false.
Proof. reflexivity. Qed.
Example expo_nan_rejected : new_expo 1 10 S754_nan = None.
Proof. reflexivity. Qed.
Example expo_inf_accepted : new_expo 1 10 (S754_infinity false) <> None.
Proof. discriminate. Qed.
