(** binary64 as the standard library's executable [spec_float] (no axioms).
    Everything here computes with [vm_compute] and extracts to OCaml. *)
From Coq Require Import ZArith Bool Floats.SpecFloat Lia.
Local Open Scope Z_scope.

Notation f64 := spec_float (only parsing).

Definition prec : Z := 53.
Definition emax : Z := 1024.

Definition fmul (x y : f64) : f64 := SFmul prec emax x y.
Definition fadd (x y : f64) : f64 := SFadd prec emax x y.
Definition fdiv (x y : f64) : f64 := SFdiv prec emax x y.
Definition fltb (x y : f64) : bool := SFltb x y.
Definition fleb (x y : f64) : bool := SFleb x y.
Definition fopp (x : f64) : f64 := SFopp x.

(** Go's [float64(i)] for an integer [i]: round to nearest even. *)
Definition of_Z (i : Z) : f64 := binary_normalize prec emax i 0 false.

Definition fzero : f64 := S754_zero false.
Definition fone : f64 := of_Z 1.
Definition fmone : f64 := of_Z (-1).
Definition ftwo63 : f64 := of_Z (2 ^ 63).

(** decode an IEEE-754 binary64 bit pattern (0 <= b < 2^64) *)
Definition of_bits (b : Z) : f64 :=
  let s := Z.testbit b 63 in
  let e := Z.land (Z.shiftr b 52) 2047 in
  let m := Z.land b (2 ^ 52 - 1) in
  if e =? 0 then
    match m with
    | Zpos p => S754_finite s p (-1074)
    | _ => S754_zero s
    end
  else if e =? 2047 then
    if m =? 0 then S754_infinity s else S754_nan
  else
    match m + 2 ^ 52 with
    | Zpos p => S754_finite s p (e - 1075)
    | _ => S754_nan
    end.

(** truncation toward zero of a finite float, as an unbounded integer;
    [None] for NaN and infinities *)
Definition trunc (x : f64) : option Z :=
  match x with
  | S754_zero _ => Some 0
  | S754_finite s m e =>
      let a := if 0 <=? e then Z.pos m * 2 ^ e else Z.pos m / 2 ^ (- e) in
      Some (if s then - a else a)
  | _ => None
  end.

Definition min_int64 : Z := - 2 ^ 63.
Definition max_int64 : Z := 2 ^ 63 - 1.
Definition in_int64 (z : Z) : bool := (min_int64 <=? z) && (z <=? max_int64).
Definition wrap64 (z : Z) : Z := (z + 2 ^ 63) mod 2 ^ 64 - 2 ^ 63.

(** Go's [int64(f)].  The language leaves the result implementation-defined
    when the value is out of range; amd64 (cvttsd2si) yields MinInt64, and so
    does this model.  Theorems never rely on that branch: they prove
    [conv_in_range] wherever the code converts. *)
Definition conv_in_range (x : f64) : bool :=
  match trunc x with Some z => in_int64 z | None => false end.

Definition to_int64 (x : f64) : Z :=
  match trunc x with
  | Some z => if in_int64 z then z else min_int64
  | None => min_int64
  end.

(** encode to the IEEE-754 bit pattern (canonical quiet NaN); meant for
    canonical (valid) floats, which is all the operations above produce *)
Definition to_bits (x : f64) : Z :=
  let sb (s : bool) := if s then 2 ^ 63 else 0 in
  match x with
  | S754_zero s => sb s
  | S754_infinity s => sb s + 2047 * 2 ^ 52
  | S754_nan => 2047 * 2 ^ 52 + 2 ^ 51
  | S754_finite s m e =>
      if (e =? -1074) && (Z.pos m <? 2 ^ 52) then sb s + Z.pos m
      else sb s + (e + 1075) * 2 ^ 52 + (Z.pos m - 2 ^ 52)
  end.

Definition is_nan (x : f64) : bool := match x with S754_nan => true | _ => false end.
