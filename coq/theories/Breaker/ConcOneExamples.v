(** Non-vacuity of ConcOne / ConcReport: a concrete run on a TRIPPED breaker
    with a frozen ticker.  Thread 0 trips the breaker (CLOSED -> OPEN, state
    object 2, deadline 18).  The ticker then stands at 20: threads 1, 2, 3 call
    CanRequest concurrently, all three load state object 2, all three see the
    deadline expired, all three allocate a HALF_OPEN successor, and race for the
    CAS: thread 3 wins, threads 1 and 2 are rejected.  Thread 4 then calls
    CanRequest twice: at tick 20 (before the successor's deadline 30) it is
    rejected, at tick 30 it is admitted as the next trial. *)
From Coq Require Import List Arith Bool ZArith Lia.
From Garr Require Import Conc.Conc Pure.F64 Pure.Config Breaker.BreakerModel
  Breaker.ConcBase Breaker.ConcInv Breaker.ConcHist Breaker.ConcExamples Breaker.ConcOne
  Breaker.ConcReport.
Import ListNotations.
Local Open Scope Z_scope.

Definition yticks : list Z := [0; 0; 1; 7; 8] ++ repeat 20 7 ++ [30; 31].
Definition yprogs : list (list bop) :=
  [[OnFailure; OnFailure]; [CanRequest]; [CanRequest]; [CanRequest]; [CanRequest; CanRequest]].
Definition ysched : list nat :=
  (repeat 0 40 ++ [1; 2; 3] ++ [1; 2; 3] ++ [1; 2; 3] ++ [1; 2; 3] ++ [3; 1; 2] ++ repeat 4 3 ++ repeat 4 5)%nat.
Notation yM := (breaker xcfg 2).
Notation yc0 := (bcfg0 2 yticks yprogs).
Notation yL := (steps_of yM yc0 ysched).
Definition ycfg_at (k : nat) : bconfig := match nth_error yL k with Some (c, _) => c | None => yc0 end.

(* what every step from position 21 on is: (thread, operation, program counter, state pointer) *)
Example y_steps :
  map (fun x => (snd x, match stepper yM (fst x) (snd x) with Some (o, l, _) => Some (o, l) | None => None end,
                 b_cur (c_sh (fst x)))) (skipn 21 yL) =
  [(1, Some (CanRequest, BInv CanRequest), 2); (2, Some (CanRequest, BInv CanRequest), 2);
   (3, Some (CanRequest, BInv CanRequest), 2);
   (1, Some (CanRequest, CRLoad), 2); (2, Some (CanRequest, CRLoad), 2); (3, Some (CanRequest, CRLoad), 2);
   (1, Some (CanRequest, CRTick 2), 2); (2, Some (CanRequest, CRTick 2), 2); (3, Some (CanRequest, CRTick 2), 2);
   (1, Some (CanRequest, CRTick2 2), 2); (2, Some (CanRequest, CRTick2 2), 2); (3, Some (CanRequest, CRTick2 2), 2);
   (3, Some (CanRequest, CRCas 2 5), 2); (1, Some (CanRequest, CRCas 2 3), 5); (2, Some (CanRequest, CRCas 2 4), 5);
   (4, Some (CanRequest, BInv CanRequest), 5); (4, Some (CanRequest, CRLoad), 5); (4, Some (CanRequest, CRTick 5), 5);
   (4, Some (CanRequest, BInv CanRequest), 5); (4, Some (CanRequest, CRLoad), 5); (4, Some (CanRequest, CRTick 5), 5);
   (4, Some (CanRequest, CRTick2 5), 5); (4, Some (CanRequest, CRCas 5 6), 5)]%nat.
Proof. vm_compute. reflexivity. Qed.

(* exactly one of the three concurrent callers is admitted *)
Example y_returns :
  filter (fun e => match e with ERet _ CanRequest _ => true | _ => false end) (trace yM yc0 ysched) =
  [ERet 3%nat CanRequest (BB true); ERet 1%nat CanRequest (BB false); ERet 2%nat CanRequest (BB false);
   ERet 4%nat CanRequest (BB false); ERet 4%nat CanRequest (BB true)].
Proof. vm_compute. reflexivity. Qed.

Example y_final :
  let s := c_sh (final yM yc0 ysched) in
  (b_cur s, b_states s) =
  (6%nat, [BState KClosed 1 0 0; BState KOpen 0 18 10; BState KHalfOpen 0 30 10; BState KHalfOpen 0 30 10;
           BState KHalfOpen 0 30 10; BState KHalfOpen 0 41 10]).
Proof. vm_compute. reflexivity. Qed.

(** the hypotheses of [exactly_one_trial] hold from position 21 on *)
Lemma cr_region_check cfg nl ticks progs sched p :
  forallb (fun x => match stepper (breaker cfg nl) (fst x) (snd x) with
                    | Some (CanRequest, _, _) => true | _ => false end)
          (skipn p (steps_of (breaker cfg nl) (bcfg0 nl ticks progs) sched)) = true ->
  cr_region cfg nl ticks progs sched p.
Proof.
  intros H m cm tm Hm Hn.
  rewrite forallb_forall in H.
  assert (Hin : In (cm, tm) (skipn p (steps_of (breaker cfg nl) (bcfg0 nl ticks progs) sched))).
  { apply nth_error_In with (n := (m - p)%nat). rewrite nth_error_skipn.
    replace (p + (m - p))%nat with m by lia. exact Hn. }
  specialize (H _ Hin). simpl in H. unfold at_pc.
  destruct (stepper (breaker cfg nl) cm tm) as [[[o l] fresh]|]; [|discriminate].
  destruct o; try discriminate. eauto.
Qed.

Example y_region : cr_region xcfg 2 yticks yprogs ysched 21.
Proof. apply cr_region_check. vm_compute. reflexivity. Qed.

Example y_pos k t : nth_error yL k = Some (ycfg_at k, t) <-> option_map snd (nth_error yL k) = Some t.
Proof.
  unfold ycfg_at. destruct (nth_error yL k) as [[c t']|]; simpl; split; congruence.
Qed.

(* (B) instantiated: thread 2's CAS attempt at position 35 exists, so there is exactly one winner *)
Example y_exactly_one :
  exists kw cw tw nw,
    (21 <= kw <= 35)%nat /\ nth_error yL kw = Some (cw, tw) /\
    at_pc xcfg 2 cw tw CanRequest (CRCas 2 nw) /\
    cas_succeeds cw tw 2 /\ ret_at xcfg 2 cw tw = Some (BB true) /\
    forall k' ck' t' o' n',
      nth_error yL k' = Some (ck', t') -> at_pc xcfg 2 ck' t' o' (CRCas 2 n') -> k' <> kw ->
      (kw < k')%nat /\ ret_at xcfg 2 ck' t' = Some (BB false).
Proof.
  apply (exactly_one_trial xcfg 2 yticks yprogs ysched 21 (ycfg_at 21) 1%nat 2%nat)
    with (k := 35%nat) (ck := ycfg_at 35) (t := 2%nat) (o := CanRequest) (n := 4%nat).
  - apply (proj2 (y_pos 21 1%nat)). vm_compute. reflexivity.
  - vm_compute. reflexivity.
  - exact y_region.
  - apply (proj2 (y_pos 35 2%nat)). vm_compute. reflexivity.
  - exists false. vm_compute. reflexivity.
Qed.

(* (A) instantiated: thread 1, rejected at position 34, lost the race to another thread *)
Example y_rejected_replaced :
  exists i i1 i2 st tk t2, cr_call xcfg 2 yticks yprogs ysched 1 2 3 i i1 i2 34 st tk t2 /\
  exists j cj t', (i < j < 34)%nat /\ nth_error yL j = Some (cj, t') /\ t' <> 1%nat /\
    cas_succeeds cj t' 2 /\ (2 < b_cur (c_sh (ycfg_at 34)))%nat.
Proof.
  apply (rejected_after_expiry_implies_replaced xcfg 2 yticks yprogs ysched 34 (ycfg_at 34) 1 CanRequest 2 3).
  - apply (proj2 (y_pos 34 1%nat)). vm_compute. reflexivity.
  - exists false. vm_compute. reflexivity.
  - vm_compute. reflexivity.
Qed.

(** a report race on the HALF_OPEN state: OnSuccess and OnFailure both load state 3,
    the success report wins and closes the circuit, the failure report does nothing *)
Definition zticks : list Z := [0; 0; 1; 7; 8; 20; 21; 22; 23; 24; 25; 26].
Definition zprogs : list (list bop) := [[OnFailure; OnFailure]; [CanRequest]; [OnSuccess]; [OnFailure]].
Definition zsched : list nat :=
  (repeat 0 40 ++ repeat 1 5 ++ [2; 3; 2; 3] ++ [2; 2; 2; 3] ++ [2] ++ [3])%nat.
Notation zc0 := (bcfg0 2 zticks zprogs).
Notation zL := (steps_of yM zc0 zsched).

Example z_steps :
  map (fun x => (snd x, match stepper yM (fst x) (snd x) with Some (o, l, _) => Some l | None => None end,
                 b_cur (c_sh (fst x)))) (skipn 26 zL) =
  [(2, Some (BInv OnSuccess), 3); (3, Some (BInv OnFailure), 3); (2, Some OSLoad, 3); (3, Some OFLoad, 3);
   (2, Some (OSTick1 3), 3); (2, Some (OSSnap 3 3), 3); (2, Some (OSTick2 3 2), 3); (3, Some (OFTick 3 None), 3);
   (2, Some (OSCas 3 4), 3); (3, Some (OFCas 3 5 None), 4)]%nat.
Proof. vm_compute. reflexivity. Qed.

Example z_final :
  let s := c_sh (final yM zc0 zsched) in
  (b_cur s, map st_kind (b_states s)) = (4%nat, [KClosed; KOpen; KHalfOpen; KClosed; KOpen]).
Proof. vm_compute. reflexivity. Qed.

(* (C) instantiated: thread 4's second call (position 43) is admitted after the winner
   (position 33) installed state 5: it is a call that read a tick past the deadline of the
   state object (>= 5) it loaded *)
Example y_next_trial :
  exists cs' n' j j1 j2 st' tk' t2',
    cr_call xcfg 2 yticks yprogs ysched 4 cs' n' j j1 j2 43 st' tk' t2' /\
    cas_succeeds (ycfg_at 43) 4 cs' /\ (5 <= cs')%nat /\ st_timeout st' <= tk'.
Proof.
  assert (H33 : nth_error yL 33 = Some (ycfg_at 33, 3%nat)) by (apply (proj2 (y_pos _ _)); vm_compute; reflexivity).
  assert (Hat : at_pc xcfg 2 (ycfg_at 33) 3 CanRequest (CRCas 2 5)) by (exists false; vm_compute; reflexivity).
  destruct (cr_call_of_cas xcfg 2 yticks yprogs ysched 33 _ _ _ _ _ H33 Hat)
    as (_ & i & i1 & i2 & st & tk & t2 & Hcall).
  assert (Hc : cas_succeeds (ycfg_at 33) 3 2).
  { apply (cas_succeeds_at xcfg 2). exists CanRequest, (CRCas 2 5), 5%nat.
    split; [exact Hat|]. split; vm_compute; reflexivity. }
  assert (H21 : nth_error yL 21 = Some (ycfg_at 21, 1%nat)) by (apply (proj2 (y_pos _ _)); vm_compute; reflexivity).
  assert (H43 : nth_error yL 43 = Some (ycfg_at 43, 4%nat)) by (apply (proj2 (y_pos _ _)); vm_compute; reflexivity).
  assert (Hret : ret_at xcfg 2 (ycfg_at 43) 4 = Some (BB true)) by (vm_compute; reflexivity).
  destruct (others_rejected_until_trial_elapses xcfg 2 yticks yprogs ysched 21 _ _ H21 y_region
              3 2 5 i i1 i2 33 st tk t2 _ ltac:(lia) Hcall H33 Hc 43 _ _ ltac:(lia) H43 Hret)
    as (cs' & n' & j & j1 & j2 & st' & tk' & t2' & Hcall' & Hc' & Hle & Hto & _).
  exists cs', n', j, j1, j2, st', tk', t2'. auto.
Qed.

(* (D) instantiated: the failure report (thread 3, position 35) completes its CAS attempt on
   state 3: exactly one CAS on state 3 succeeded (the success report's), and thread 3's step
   changes nothing *)
Example z_one_transition :
  exists j cj tj, (j <= 35)%nat /\ nth_error zL j = Some (cj, tj) /\ cas_succeeds cj tj 3 /\
    (forall j' cj' tj', nth_error zL j' = Some (cj', tj') -> cas_succeeds cj' tj' 3 -> j' = j).
Proof.
  destruct (nth_error zL 35) as [[c35 t35]|] eqn:E; [|vm_compute in E; discriminate].
  assert (Et : t35 = 3%nat).
  { assert (H : option_map snd (nth_error zL 35) = Some 3%nat) by (vm_compute; reflexivity).
    rewrite E in H. simpl in H. congruence. }
  subst t35.
  assert (Hat : at_pc xcfg 2 c35 3 OnFailure (OFCas 3 5 None)).
  { exists false.
    assert (H : option_map (fun x => stepper yM (fst x) (snd x)) (nth_error zL 35) =
                Some (Some (OnFailure, OFCas 3 5 None, false))) by (vm_compute; reflexivity).
    rewrite E in H. simpl in H. congruence. }
  destruct (reports_exactly_one_transition xcfg 2 zticks zprogs zsched 35 c35 3 OnFailure _ 3 5 E Hat
              (or_intror eq_refl)) as (j & cj & tj & H1 & H2 & H3 & H4 & _).
  exists j, cj, tj. auto.
Qed.
