(** The documented circuit-breaker machine, written as a plain sequential
    function from the README / the armeria semantics, independently of the
    step machine in BreakerModel.v.  Inputs: the calls and the ticker
    readings they consume; outputs: admission decisions and the listener log.

    CLOSED keeps a sliding window: the current bucket plus the reservoir of
    closed and instant buckets.  A report at tick t
      - older than the current bucket  -> its own instant bucket, no count;
      - inside the current interval     -> counted in the current bucket;
      - otherwise rolls the bucket: the old bucket is archived, everything
        older than t - window is dropped, the rest is summed (the rolling
        event itself not included) and that count is reported.
    A failure report that rolls opens the circuit iff
        0 < total /\ minimum <= total /\ threshold < failures/total (binary64).
    OPEN / HALF_OPEN carry a deadline: CanRequest at a reading >= deadline
    admits the caller and enters HALF_OPEN for the trial interval, otherwise
    rejects.  HALF_OPEN + success -> CLOSED with a brand-new window;
    HALF_OPEN + failure -> OPEN for a full window; everything else is a no-op.
    Every transition is announced to every listener (state change, then a
    zero count), every rejection too, every non-tripping roll as a count. *)
From Coq Require Import List Arith Bool ZArith.
From Garr Require Import Pure.F64 Pure.Config Breaker.BreakerModel.
Import ListNotations.
Local Open Scope Z_scope.

Record rbucket := RB { rb_ts : Z; rb_s : Z; rb_f : Z }.

Inductive rstate :=
| RClosed (cur : rbucket) (res : list rbucket)
| ROpen (deadline dur : Z)
| RHalfOpen (deadline dur : Z).

Record ref := Ref { r_st : rstate; r_ticks : list Z; r_log : list (nat * levent) }.

Section Ref.
Variable cfg : cb_config.
Variable nlisteners : nat.

Definition rtick (r : ref) : Z * ref :=
  match r_ticks r with
  | [] => (0, r)
  | t :: rest => (t, Ref (r_st r) rest (r_log r))
  end.

Definition rlog (r : ref) (l : list (nat * levent)) : ref :=
  Ref (r_st r) (r_ticks r) (r_log r ++ l).
Definition rset (r : ref) (s : rstate) : ref := Ref s (r_ticks r) (r_log r).

Definition every (f : nat -> list (nat * levent)) : list (nat * levent) :=
  flat_map f (seq 0 nlisteners).
Definition say_state (k : kind) := every (fun i => [(i, LStateChanged k); (i, LCountUpdated 0 0)]).
Definition say_count (s f : Z) := every (fun i => [(i, LCountUpdated s f)]).
Definition say_rejected := every (fun i => [(i, LRejected)]).

Definition bump (b : rbucket) (succ : bool) : rbucket :=
  if succ then RB (rb_ts b) (wrap64 (rb_s b + 1)) (rb_f b)
  else RB (rb_ts b) (rb_s b) (wrap64 (rb_f b + 1)).

Definition keep (t : Z) (b : rbucket) : bool := negb (rb_ts b <? wrap64 (t - window cfg)).

Definition sum_s (l : list rbucket) : Z := fold_left (fun a b => wrap64 (a + rb_s b)) l 0.
Definition sum_f (l : list rbucket) : Z := fold_left (fun a b => wrap64 (a + rb_f b)) l 0.

(** a report in CLOSED at tick t: new window contents and the count, if the bucket rolled *)
Definition report (cur : rbucket) (res : list rbucket) (succ : bool) (t : Z)
  : rbucket * list rbucket * option (Z * Z) :=
  if t <? rb_ts cur then (cur, res ++ [bump (RB t 0 0) succ], None)
  else if t <? wrap64 (rb_ts cur + interval cfg) then (bump cur succ, res, None)
  else
    let res' := filter (keep t) (res ++ [cur]) in
    (bump (RB t 0 0) succ, res', Some (sum_s res', sum_f res')).

Definition ref_step (r : ref) (o : bop) : ref * bret :=
  match o, r_st r with
  | CanRequest, RClosed _ _ => (r, BB true)
  | CanRequest, ROpen d dur | CanRequest, RHalfOpen d dur =>
      if 0 <? dur then
        let '(t, r1) := rtick r in
        if d <=? t then
          let '(t2, r2) := rtick r1 in
          (rlog (rset r2 (RHalfOpen (wrap64 (t2 + trial cfg)) (trial cfg))) (say_state KHalfOpen), BB true)
        else (rlog r1 say_rejected, BB false)
      else (rlog r say_rejected, BB false)
  | OnSuccess, RClosed cur res =>
      let '(t, r1) := rtick r in
      let '(cur', res', cnt) := report cur res true t in
      let r2 := rset r1 (RClosed cur' res') in
      (match cnt with Some (s, f) => rlog r2 (say_count s f) | None => r2 end, BU)
  | OnSuccess, RHalfOpen _ _ =>
      let '(t1, r1) := rtick r in
      let '(_, r2) := rtick r1 in
      (rlog (rset r2 (RClosed (RB t1 0 0) [])) (say_state KClosed), BU)
  | OnSuccess, ROpen _ _ => (r, BU)
  | OnFailure, RClosed cur res =>
      let '(t, r1) := rtick r in
      let '(cur', res', cnt) := report cur res false t in
      let r2 := rset r1 (RClosed cur' res') in
      match cnt with
      | None => (r2, BU)
      | Some (s, f) =>
          if exceeds cfg s f then
            let '(t2, r3) := rtick r2 in
            (rlog (rset r3 (ROpen (wrap64 (t2 + openw cfg)) (openw cfg))) (say_state KOpen), BU)
          else (rlog r2 (say_count s f), BU)
      end
  | OnFailure, RHalfOpen _ _ =>
      let '(t, r1) := rtick r in
      (rlog (rset r1 (ROpen (wrap64 (t + openw cfg)) (openw cfg))) (say_state KOpen), BU)
  | OnFailure, ROpen _ _ => (r, BU)
  | _, _ => (r, BU)      (* the direct window operations are not breaker calls *)
  end.

Fixpoint ref_run (r : ref) (ops : list bop) : ref * list bret :=
  match ops with
  | [] => (r, [])
  | o :: rest =>
      let '(r1, x) := ref_step r o in
      let '(r2, xs) := ref_run r1 rest in
      (r2, x :: xs)
  end.

(** a new breaker: the constructor reads the ticker twice and announces CLOSED *)
Definition ref_init (ticks : list Z) : ref :=
  let r0 := Ref (ROpen 0 0) ticks [] in
  let '(t1, r1) := rtick r0 in
  let '(_, r2) := rtick r1 in
  rlog (rset r2 (RClosed (RB t1 0 0) [])) (say_state KClosed).

Definition breaker_op (o : bop) : bool :=
  match o with CanRequest | OnSuccess | OnFailure => true | _ => false end.

End Ref.
