(** Concurrent safety of the circuit breaker, part 3 (T3b), the invariant:
    the window created on the HALF_OPEN -> CLOSED path stays private, empty and
    zeroed until the CAS that publishes it. *)
From Coq Require Import List Arith Bool ZArith Lia.
From Garr Require Import Conc.Conc Pure.F64 Pure.Config Breaker.BreakerModel
  Breaker.ConcBase Breaker.ConcInv Breaker.ConcWin Breaker.ConcFreshStep.
Import ListNotations.

(** *** facts that do not distinguish [idle] from [BInv o] *)
Lemma same_fn {X} (f : bpc -> X) l0 l :
  same l0 l -> (forall o, f (BInv o) = f idle) -> f l0 = f l.
Proof. intros [->|[-> [o ->]]] H; [reflexivity|symmetry; apply H]. Qed.

Lemma cnt_map_fcnt {A} (f : A -> nat) l w : cnt (map f l) w = fcnt (fun a => [f a]) l w.
Proof.
  induction l as [|a l IH]; [reflexivity|]. simpl map. rewrite fcnt_cons. simpl. rewrite IH. lia.
Qed.

Lemma cnt_map_unique {A} (f : A -> nat) l i j a b w :
  cnt (map f l) w <= 1 -> nth1 l i = Some a -> nth1 l j = Some b -> f a = w -> f b = w -> i = j.
Proof.
  intros Hc Hi Hj Ha Hb. destruct (Nat.eq_dec i j) as [E|Hne]; [exact E|exfalso].
  rewrite cnt_map_fcnt in Hc.
  pose proof (fcnt_ge21 (fun a => [f a]) _ _ _ _ _ w Hi Hj Hne) as G. simpl in G.
  rewrite Ha, Hb in G. unfold eqn in G. rewrite Nat.eqb_refl in G. lia.
Qed.

Lemma cnt_map_ge {A} (f : A -> nat) l i a : nth1 l i = Some a -> 1 <= cnt (map f l) (f a).
Proof.
  intros Hi. rewrite cnt_map_fcnt. pose proof (fcnt_ge1 (fun a => [f a]) _ _ _ (f a) Hi) as G.
  simpl in G. unfold eqn in G. rewrite Nat.eqb_refl in G. lia.
Qed.

Section Inv3.
Variable cfg : cb_config.
Variable nl : nat.

Definition all (P : bpc -> Prop) (ps : list bpc) : Prop :=
  forall t l, nth_error ps t = Some l -> P l.

Definition G5 (s : bshared) (ps : list bpc) : Prop :=
  forall n, eqn (b_cur s) n + fcnt casn ps n <= 1 /\
            (1 <= eqn (b_cur s) n + fcnt casn ps n -> 1 <= n <= length (b_states s)).

Definition G3 (s : bshared) (ps : list bpc) : Prop :=
  forall w, 1 <= w ->
    cnt (map st_win (b_states s)) w + fcnt tick2w ps w <= 1 /\
    (1 <= cnt (map st_win (b_states s)) w + fcnt tick2w ps w -> 1 <= w <= length (b_wins s)).

Definition F (s : bshared) (ps : list bpc) : Prop :=
  forall t1 t2 l1 l2, t1 <> t2 -> nth_error ps t1 = Some l1 -> nth_error ps t2 = Some l2 ->
    noclash s l1 l2.

Record Inv3 (s : bshared) (ps : list bpc) : Prop := {
  i_1 : Inv1 cfg s ps;
  i_4 : Inv4 s ps;
  i_0 : 1 <= length (b_wins s);
  i_5 : G5 s ps;
  i_3 : G3 s ps;
  i_f : all (Pf s) ps;
  i_v : all (Pv s) ps;
  i_F : F s ps
}.

Lemma all_upd (P P' : bpc -> Prop) ps t l0 l' :
  nth_error ps t = Some l0 -> all P ps ->
  (forall t1 l1, t1 <> t -> nth_error ps t1 = Some l1 -> P l1 -> P' l1) -> P' l' ->
  all P' (upd ps t l').
Proof.
  intros Hn Ha Hoth Hl' t1 l1 H1. rewrite nth_error_upd, Hn in H1.
  destruct (Nat.eqb_spec t t1) as [<-|Hne].
  - injection H1 as <-. exact Hl'.
  - apply (Hoth t1); [congruence|exact H1|apply (Ha t1); exact H1].
Qed.

(* a private window and its bucket survive a step of another thread *)
Lemma fresh_kept s ps s' t l0 t1 l1 w :
  Inv4 s ps -> nth_error ps t = Some l0 -> nth_error ps t1 = Some l1 -> t1 <> t ->
  noclash s l1 l0 ->
  (forall w x, nth1 (b_wins s) w = Some x -> wreg l0 <> Some w -> nth1 (b_wins s') w = Some x) ->
  (forall b x, nth1 (b_buckets s) b = Some x -> ~ In b (held l0) -> addcur l0 <> Some b ->
               nth1 (b_buckets s') b = Some x) ->
  fw s l1 = Some w -> (forall b, held l1 <> [b]) -> fresh_win s w ->
  fresh_win s' w /\ nth1 (b_wins s') w = nth1 (b_wins s) w.
Proof.
  intros H4 Hn Hn1 Hne [NC1 NC2] FRw FRb Hfw Hnh (Hw2 & b & Hwin & ts & Hbk).
  assert (Hwin' : nth1 (b_wins s') w = Some (Window b [] (0%Z, 0%Z))).
  { apply FRw; [exact Hwin|]. apply NC1. exact Hfw. }
  split; [|congruence]. split; [exact Hw2|]. exists b. split; [exact Hwin'|].
  exists ts. apply FRb; [exact Hbk| |].
  - intros Hin. apply (I4_held_fresh _ _ H4 t l0 b w _ Hn Hin Hwin). left. reflexivity.
  - apply NC2. unfold fb. rewrite Hfw, Hwin.
    destruct l1; simpl in *; try reflexivity. exfalso. eapply Hnh. reflexivity.
Qed.

(* the private window / bucket of another thread is untouched by a step of thread t *)
Lemma other_frame s ps s' t l0 t1 l1 :
  Inv4 s ps -> F s ps -> sext s s' ->
  nth_error ps t = Some l0 -> nth_error ps t1 = Some l1 -> t1 <> t ->
  (forall w x, nth1 (b_wins s) w = Some x -> wreg l0 <> Some w -> nth1 (b_wins s') w = Some x) ->
  (forall b x, nth1 (b_buckets s) b = Some x -> ~ In b (held l0) -> addcur l0 <> Some b ->
               nth1 (b_buckets s') b = Some x) ->
  P1 cfg s l1 -> Pf s l1 ->
  fw s' l1 = fw s l1 /\ fb s' l1 = fb s l1 /\ Pf s' l1.
Proof.
  intros H4 HF Hext Hn Hn1 Hne FRw FRb HP1 HPf.
  pose proof (HF t1 t l1 l0 Hne Hn1 Hn) as NC.
  pose proof (fun w => fresh_kept s ps s' t l0 t1 l1 w H4 Hn Hn1 Hne NC FRw FRb) as FK.
  destruct l1; try (split; [reflexivity|split; [reflexivity|exact I]]).
  - (* OSSnap cs b *)
    split; [reflexivity|split; [reflexivity|]]. simpl in *. destruct HPf as [ts Hb]. exists ts.
    apply FRb; [exact Hb| |].
    + intros Hin. apply Hne. apply (I4_held_distinct _ _ H4 t1 t (OSSnap cs b) l0 b Hn1 Hn); [left; reflexivity|exact Hin].
    + apply (proj2 NC). reflexivity.
  - (* OSTick2 cs w *)
    destruct (FK w eq_refl) as [K1 K2]; [intros b; discriminate|exact HPf|].
    split; [reflexivity|]. split; [|exact K1]. unfold fb; simpl. rewrite K2. reflexivity.
  - (* OSCas cs new *)
    simpl in HP1, HPf. destruct HP1 as (_ & w & ts & Hst). destruct HPf as (w' & ts' & Hst' & Hfr).
    rewrite Hst in Hst'. injection Hst' as <- <-.
    pose proof (sext_nth _ _ Hext _ _ Hst) as Hst2.
    assert (Hfw : fw s (OSCas cs new) = Some w) by (simpl; rewrite Hst; reflexivity).
    assert (Hh : forall b : nat, held (OSCas cs new) <> [b]) by (intros b; discriminate).
    destruct (FK w Hfw Hh Hfr) as [K1 K2].
    unfold fb; simpl. rewrite Hst, Hst2. simpl. rewrite K2.
    split; [reflexivity|split; [reflexivity|]]. exists w, ts. split; [first [assumption|reflexivity]|exact K1].
Qed.


Lemma fw_fresh s l w : Pf s l -> fw s l = Some w -> fresh_win s w.
Proof.
  destruct l; simpl; try discriminate.
  - intros H [= <-]. exact H.
  - intros (w' & ts & Hst & Hfr). rewrite Hst. intros [= <-]. exact Hfr.
Qed.

Lemma fb_inv s l b :
  fb s l = Some b ->
  (exists cs, l = OSSnap cs b) \/
  (exists w x, fw s l = Some w /\ nth1 (b_wins s) w = Some x /\ w_cur x = b).
Proof.
  destruct l; simpl; try discriminate.
  - intros [= <-]. left. eauto.
  - destruct (nth1 (b_wins s) w) as [x|] eqn:Hx; [|discriminate].
    intros [= <-]. right. eauto.
  - destruct (nth1 (b_states s) new) as [st|]; [|discriminate].
    destruct (nth1 (b_wins s) (st_win st)) as [x|] eqn:Hx; [|discriminate].
    intros [= <-]. right. eauto.
Qed.

Lemma Inv3_step s ps t l0 l l' s' :
  Inv3 s ps -> nth_error ps t = Some l0 -> same l0 l -> pstep cfg nl l s = Some (l', s') ->
  Inv3 s' (upd ps t l').
Proof.
  intros [H1 H4 H0 H5 H3 Hf Hv HF] Hn Hsame Hp.
  assert (Ewreg : wreg l0 = wreg l) by (apply same_fn; [exact Hsame|reflexivity]).
  assert (Eheld : held l0 = held l) by (apply same_fn; [exact Hsame|reflexivity]).
  assert (Eaddcur : addcur l0 = addcur l) by (apply same_fn; [exact Hsame|reflexivity]).
  assert (Ecasn : casn l0 = casn l) by (apply same_fn; [exact Hsame|reflexivity]).
  assert (Etick : tick2w l0 = tick2w l) by (apply same_fn; [exact Hsame|reflexivity]).
  assert (Efw : fw s l0 = fw s l) by (apply (same_fn (fw s)); [exact Hsame|reflexivity]).
  assert (Efb : fb s l0 = fb s l) by (apply (same_fn (fb s)); [exact Hsame|reflexivity]).
  assert (HPf : Pf s l).
  { rewrite <- (same_fn (Pf s) _ _ Hsame (fun _ => eq_refl)). apply (Hf t). exact Hn. }
  assert (HPv : Pv s l).
  { unfold Pv. rewrite <- Ewreg, <- Eaddcur. apply (Hv t). exact Hn. }
  pose proof H1 as (HG1 & HG2 & HFa).
  assert (HP1 : P1 cfg s l) by (eapply P1_same; [exact Hsame|eapply Forall_nth_error; eauto]).
  destruct (step1 cfg nl _ _ _ _ HG1 HG2 HP1 Hp) as (Hext & _ & _ & _ & _ & _).
  destruct (step_frame cfg nl _ _ _ _ Hp) as (FRw & FRb & Lw & Lb).
  rewrite <- Ewreg in FRw. rewrite <- Eheld, <- Eaddcur in FRb.
  destruct (Inv1_step cfg nl _ _ _ _ _ _ _ H1 Hn Hsame Hp) as (H1' & _ & _).
  pose proof (Inv4_step cfg nl _ _ _ _ _ _ _ H4 Hn Hsame Hp) as H4'.
  assert (OTH : forall t1 l1, t1 <> t -> nth_error ps t1 = Some l1 ->
            fw s' l1 = fw s l1 /\ fb s' l1 = fb s l1 /\ Pf s' l1).
  { intros t1 l1 Hne Hn1. apply (other_frame s ps s' t l0 t1 l1); auto.
    - eapply Forall_nth_error; eauto.
    - apply (Hf t1). exact Hn1. }
  constructor.
  - exact H1'.
  - exact H4'.
  - lia.
  - (* G5 *)
    destruct (step5 cfg nl _ _ _ _ Hp) as [Hlen Hc]. intros n.
    apply (res_preserved (fun _ => True) (fun n => eqn (b_cur s) n + fcnt casn ps n)
             (fun n => eqn (b_cur s') n + fcnt casn (upd ps t l') n)
             (length (b_states s)) (length (b_states s'))); auto.
    intros x _. specialize (Hc x). pose proof (fcnt_upd casn ps t l0 l' x Hn) as E.
    rewrite Ecasn in E. lia.
  - (* G3 *)
    destruct (step3 cfg nl _ _ _ _ Hp) as [Hlen Hc]. intros w Hw.
    apply (res_preserved (fun w => 1 <= w) (fun w => cnt (map st_win (b_states s)) w + fcnt tick2w ps w)
             (fun w => cnt (map st_win (b_states s')) w + fcnt tick2w (upd ps t l') w)
             (length (b_wins s)) (length (b_wins s'))); auto.
    intros x Hx. specialize (Hc x Hx). pose proof (fcnt_upd tick2w ps t l0 l' x Hn) as E.
    rewrite Etick in E. lia.
  - (* Pf *)
    eapply all_upd; [exact Hn|exact Hf| |].
    + intros t1 l1 Hne Hn1 _. apply (OTH t1 l1 Hne Hn1).
    + eapply Pf_step; eauto.
  - (* Pv *)
    eapply all_upd; [exact Hn|exact Hv| |].
    + intros t1 l1 Hne Hn1 [V1 V2]. split.
      * intros w Hw. specialize (V1 w Hw). lia.
      * intros b Hb. specialize (V2 b Hb). lia.
    + split.
      * intros w Hw. destruct (wreg_step cfg nl _ _ _ _ _ Hp Hw) as [Hw0|[[_ ->]|[_ (st & Hst & <-)]]].
        -- destruct HPv as [A _]. specialize (A _ Hw0). lia.
        -- lia.
        -- destruct (Nat.eq_dec (st_win st) 0) as [E|E]; [lia|].
           destruct (H3 (st_win st)) as [_ V]; [lia|].
           pose proof (cnt_map_ge st_win _ _ _ Hst) as G. lia.
      * intros b Hb. destruct (addcur_step cfg nl _ _ _ _ _ Hp Hb) as (w & x & Hw & Hx & <-).
        pose proof (I4_win_valid _ _ H4 w x (w_cur x) Hx (or_introl eq_refl)) as G. lia.
  - (* F *)
    intros t1 t2 l1 l2 Hne Hn1 Hn2. rewrite nth_error_upd, Hn in Hn1, Hn2.
    destruct (Nat.eqb_spec t t1) as [<-|N1]; destruct (Nat.eqb_spec t t2) as [<-|N2].
    + congruence.
    + (* the mover owns the private window *)
      injection Hn1 as <-.
      destruct (HF t t2 l0 l2 N2 Hn Hn2) as [NC1 NC2]. rewrite Efw in NC1. rewrite Efb in NC2.
      destruct (Hv t2 l2 Hn2) as [V1 V2].
      split.
      * intros w Hw Hw2. destruct (fw_step cfg nl _ _ _ _ _ Hp Hw) as [Hw0| ->].
        -- exact (NC1 _ Hw0 Hw2).
        -- specialize (V1 _ Hw2). lia.
      * intros b Hb Hb2. destruct (fb_step cfg nl _ _ _ _ _ Hp Hb) as [Hb0| ->].
        -- exact (NC2 _ Hb0 Hb2).
        -- specialize (V2 _ Hb2). lia.
    + (* the mover enters the sliding-window code *)
      injection Hn2 as <-.
      assert (N1' : t1 <> t) by congruence.
      destruct (OTH t1 l1 N1' Hn1) as (E1 & E2 & _).
      destruct (HF t1 t l1 l0 N1' Hn1 Hn) as [NC1 NC2]. rewrite Ewreg in NC1. rewrite Eaddcur in NC2.
      split.
      * intros w Hw Hw2. rewrite E1 in Hw.
        destruct (fw_fresh s l1 w (Hf t1 l1 Hn1) Hw) as (Hw2' & _).
        destruct (wreg_step cfg nl _ _ _ _ _ Hp Hw2) as [Hw0|[[_ ->]|[_ (st & Hst & Est)]]].
        -- exact (NC1 _ Hw Hw0).
        -- lia.
        -- destruct (H3 w) as [C _]; [lia|].
           pose proof (cnt_map_ge st_win _ _ _ Hst) as G1. rewrite Est in G1.
           destruct l1; simpl in Hw; try discriminate Hw.
           ++ injection Hw as ->.
              pose proof (fcnt_ge tick2w ps t1 _ w Hn1) as G2. simpl in G2.
              unfold eqn in G2. rewrite Nat.eqb_refl in G2. lia.
           ++ destruct (nth1 (b_states s) new) as [stn|] eqn:Hstn; [|discriminate Hw].
              injection Hw as Ew.
              assert (En : new = b_cur s).
              { apply (cnt_map_unique st_win (b_states s) new (b_cur s) stn st w); auto. lia. }
              destruct (H5 new) as [C5 _].
              assert (G : 1 <= fcnt casn ps new).
              { eapply Nat.le_trans; [|apply (fcnt_ge casn ps t1 _ new Hn1)].
                simpl. unfold eqn. rewrite Nat.eqb_refl. lia. }
              unfold eqn in C5. rewrite <- En, Nat.eqb_refl in C5. lia.
      * intros b Hb Hb2. rewrite E2 in Hb.
        destruct (addcur_step cfg nl _ _ _ _ _ Hp Hb2) as (w' & x & Hw' & Hx & Ecur).
        destruct (fb_inv _ _ _ Hb) as [[cs ->]|(w & x1 & Hfw & Hx1 & Ecur1)].
        -- apply (I4_held_fresh _ _ H4 t1 _ b w' x Hn1 (or_introl eq_refl) Hx). left. exact Ecur.
        -- assert (w' = w).
           { apply (I4_win_disj _ _ H4 w' w x x1 b Hx Hx1); left; assumption. }
           subst w'. exact (NC1 _ Hfw Hw').
    + (* two bystanders *)
      assert (N1' : t1 <> t) by congruence.
      destruct (OTH t1 l1 N1' Hn1) as (E1 & E2 & _).
      destruct (HF t1 t2 l1 l2 Hne Hn1 Hn2) as [NC1 NC2].
      split; intros x Hx; [rewrite E1 in Hx; exact (NC1 _ Hx)|rewrite E2 in Hx; exact (NC2 _ Hx)].
Qed.


Lemma fcnt_idle {A} (f : bpc -> list nat) (progs : list A) x :
  f idle = [] -> fcnt f (map (fun _ => idle) progs) x = 0.
Proof.
  intros Hf. induction progs as [|p r IH]; [reflexivity|]. simpl map. rewrite fcnt_cons, IH, Hf. reflexivity.
Qed.

Lemma nth_idle {A} (progs : list A) t l : nth_error (map (fun _ => idle) progs) t = Some l -> l = idle.
Proof.
  intros H. apply nth_error_In in H. apply in_map_iff in H. destruct H as [? [<- _]]. reflexivity.
Qed.

Lemma Inv3_init ticks (progs : list (list bop)) : Inv3 (binit nl ticks) (map (fun _ => idle) progs).
Proof.
  constructor.
  - apply Inv1_init.
  - apply Inv4_init.
  - unfold binit, take_tick. destruct ticks as [|t1 [|t2 r]]; simpl; lia.
  - intros n. rewrite fcnt_idle by reflexivity.
    unfold binit, take_tick. destruct ticks as [|t1 [|t2 r]]; simpl; eqn_lia.
  - intros w Hw. rewrite fcnt_idle by reflexivity.
    unfold binit, take_tick. destruct ticks as [|t1 [|t2 r]]; simpl; eqn_lia.
  - intros t l H. rewrite (nth_idle _ _ _ H). exact I.
  - intros t l H. rewrite (nth_idle _ _ _ H). split; intros x Hx; discriminate Hx.
  - intros t1 t2 l1 l2 _ H1 _. rewrite (nth_idle _ _ _ H1). split; intros x Hx; discriminate Hx.
Qed.

Notation M := (breaker cfg nl).

Lemma Inv3_reach ticks progs sched :
  let c := final M (bcfg0 nl ticks progs) sched in Inv3 (c_sh c) (pcs c).
Proof.
  apply (abs_invariant cfg nl Inv3).
  - apply Inv3_init.
  - intros s ps t l0 l l' s' HI Hn Hs Hp. eapply Inv3_step; eauto.
Qed.

(** *** T3b: the CLOSED state object a thread is about to install with [OSCas cs n]
    wraps a window that exists, has an empty reservoir, a zero snapshot and a
    zeroed current bucket, belongs to no other state object, is not the state the
    pointer designates, and is referenced by no thread running window code *)
Theorem oscas_fresh_window : forall ticks progs sched th o cs n,
  let c := final M (bcfg0 nl ticks progs) sched in
  In th (c_thr c) -> t_cur th = Some (o, OSCas cs n) ->
  exists w ts x bk,
    nth1 (b_states (c_sh c)) n = Some (BState KClosed w ts 0) /\
    nth1 (b_wins (c_sh c)) w = Some x /\ w_cells x = [] /\ w_snap x = (0%Z, 0%Z) /\
    nth1 (b_buckets (c_sh c)) (w_cur x) = Some bk /\ bk_s bk = 0%Z /\ bk_f bk = 0%Z /\
    (forall i st, nth1 (b_states (c_sh c)) i = Some st -> st_win st = w -> i = n) /\
    b_cur (c_sh c) <> n /\
    (forall th2 o2 l2, In th2 (c_thr c) -> t_cur th2 = Some (o2, l2) ->
       wreg l2 <> Some w /\ addcur l2 <> Some (w_cur x) /\ ~ In (w_cur x) (held l2)).
Proof.
  intros ticks progs sched th o cs n c Hin Hcur.
  destruct (Inv3_reach ticks progs sched) as [H1 H4 H0 H5 H3 Hf Hv HF]. fold c in H1, H4, H0, H5, H3, Hf, Hv, HF.
  destruct (In_nth_error _ _ Hin) as [t Ht].
  pose proof (pcs_nth _ _ _ _ _ Ht Hcur) as Hn.
  pose proof (Hf t _ Hn) as HP. simpl in HP.
  destruct HP as (w & ts & Hst & Hw2 & b & Hwin & tsb & Hbk).
  exists w, ts, (Window b [] (0%Z, 0%Z)), (Bucket tsb 0 0). simpl.
  assert (Hfw : fw (c_sh c) (OSCas cs n) = Some w) by (simpl; rewrite Hst; reflexivity).
  assert (Hfb : fb (c_sh c) (OSCas cs n) = Some b) by (unfold fb; rewrite Hfw, Hwin; reflexivity).
  assert (G : 1 <= fcnt casn (pcs c) n).
  { eapply Nat.le_trans; [|apply (fcnt_ge casn (pcs c) t _ n Hn)].
    simpl. unfold eqn. rewrite Nat.eqb_refl. lia. }
  split; [exact Hst|]. split; [exact Hwin|]. split; [reflexivity|]. split; [reflexivity|].
  split; [exact Hbk|]. split; [reflexivity|]. split; [reflexivity|].
  split; [|split].
  - intros i st Hi Ew. destruct (H3 w) as [C _]; [lia|].
    apply (cnt_map_unique st_win (b_states (c_sh c)) i n st (BState KClosed w ts 0) w); auto. lia.
  - intros E. destruct (H5 n) as [C5 _]. unfold eqn in C5. rewrite E, Nat.eqb_refl in C5. lia.
  - intros th2 o2 l2 Hin2 Hcur2.
    destruct (In_nth_error _ _ Hin2) as [t2 Ht2].
    pose proof (pcs_nth _ _ _ _ _ Ht2 Hcur2) as Hn2.
    split; [|split].
    + destruct (Nat.eq_dec t t2) as [<-|Hne].
      * rewrite Hn in Hn2. injection Hn2 as <-. discriminate.
      * apply (proj1 (HF t t2 _ _ Hne Hn Hn2)). exact Hfw.
    + destruct (Nat.eq_dec t t2) as [<-|Hne].
      * rewrite Hn in Hn2. injection Hn2 as <-. discriminate.
      * apply (proj2 (HF t t2 _ _ Hne Hn Hn2)). exact Hfb.
    + intros Hh. apply (I4_held_fresh _ _ H4 t2 _ b w _ Hn2 Hh Hwin). left. reflexivity.
Qed.


(** the adds never fault: the bucket a thread is about to increment exists *)
Theorem add_bucket_exists : forall ticks progs sched th o l b,
  let c := final M (bcfg0 nl ticks progs) sched in
  In th (c_thr c) -> t_cur th = Some (o, l) ->
  (match l with
   | WAddInst _ _ _ b' | WAddCur _ _ b' | WAddNext _ _ _ _ b' _ => b' = b
   | _ => False end) ->
  exists bk, nth1 (b_buckets (c_sh c)) b = Some bk.
Proof.
  intros ticks progs sched th o l b c Hin Hcur Hl.
  destruct (Inv3_reach ticks progs sched) as [_ H4 _ _ _ _ Hv _]. fold c in H4, Hv.
  destruct (In_nth_error _ _ Hin) as [t Ht].
  pose proof (pcs_nth _ _ _ _ _ Ht Hcur) as Hn.
  assert (Hb : 1 <= b <= length (b_buckets (c_sh c))).
  { destruct l; try contradiction; subst.
    - apply (I4_held_valid _ _ H4 t _ b Hn). left. reflexivity.
    - apply (proj2 (Hv t _ Hn)). reflexivity.
    - apply (I4_held_valid _ _ H4 t _ b Hn). left. reflexivity. }
  destruct b as [|j]; [lia|]. unfold nth1.
  destruct (nth_error (b_buckets (c_sh c)) j) as [bk|] eqn:E; [eauto|].
  apply nth_error_None in E. lia.
Qed.

End Inv3.

Print Assumptions oscas_fresh_window.
Print Assumptions add_bucket_exists.
