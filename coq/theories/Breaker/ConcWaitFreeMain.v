(** Wait-freedom of the circuit breaker, part 3: the theorems.

    [cbound progs = 12 + 4 * n_rep progs], [n_rep progs] = the number of report
    operations (OnSuccess / OnFailure / WSuccess / WFailure) in the client
    programs.

    (B) [breaker_call_bound]: on the log of ANY execution, a call of [o] by
        thread [t] invoked at position [a] has taken, up to any position [b]
        before which it has not returned (its return position included), at
        most [obound o (n_rep progs) <= cbound progs] steps of its own -
        however many steps the other threads take in between.
    (C) [breaker_total_termination]: no schedule takes more than
        [n_ops progs * cbound progs] steps; [breaker_thread_steps]: thread [t]
        with program [p] takes at most [length p * cbound progs] steps.

    The proof: [WF], the invariant of part 1 together with the accounting
    "cells of all reservoirs + offers still to come <= n_rep progs"; then the
    rank of part 2 along the log (B), and as a potential (C). *)
From Coq Require Import List Arith Bool ZArith Lia.
From Garr Require Import Conc.Conc Pure.F64 Pure.Config Breaker.BreakerModel
  Breaker.ConcBase Breaker.ConcInv Breaker.ConcWin Breaker.ConcGhost
  Breaker.ConcOwn Breaker.ConcHist Breaker.ConcWaitFreeInv Breaker.ConcWaitFreeRank.
Import ListNotations.

(** ** the explicit bound *)
Definition n_reports (p : list bop) : nat := wsum is_report p.
Definition n_rep (progs : list (list bop)) : nat := wsum n_reports progs.
Definition n_ops (progs : list (list bop)) : nat := wsum (@length bop) progs.

Definition cbound (progs : list (list bop)) : nat := 12 + 4 * n_rep progs.

(** ** own steps of a thread between two log positions (both included) *)
Definition own_steps {C : Type} (L : list (C * nat)) (t a b : nat) : nat :=
  length (filter (fun x => Nat.eqb (snd x) t) (firstn (S b - a) (skipn a L))).

Lemma firstn_S_nth {A} (l : list A) n x :
  nth_error l n = Some x -> firstn (S n) l = firstn n l ++ [x].
Proof.
  revert l. induction n as [|n IH]; intros [|a l] H; simpl in *; try discriminate.
  - injection H as ->. reflexivity.
  - rewrite (IH l H). reflexivity.
Qed.

Lemma own_steps_one {C : Type} (L : list (C * nat)) t a c :
  nth_error L a = Some (c, t) -> own_steps L t a a = 1.
Proof.
  intros H. unfold own_steps. replace (S a - a) with 1 by lia.
  destruct (skipn a L) as [|x r] eqn:E.
  - pose proof (nth_error_skipn L a 0) as H0. rewrite E, Nat.add_0_r, H in H0. discriminate.
  - pose proof (nth_error_skipn L a 0) as H0. rewrite E, Nat.add_0_r, H in H0. simpl in H0.
    injection H0 as ->. simpl. rewrite Nat.eqb_refl. reflexivity.
Qed.

Lemma own_steps_S {C : Type} (L : list (C * nat)) t a b c u :
  a <= b -> nth_error L (S b) = Some (c, u) ->
  own_steps L t a (S b) = own_steps L t a b + (if Nat.eqb u t then 1 else 0).
Proof.
  intros Hab H. unfold own_steps. replace (S (S b) - a) with (S (S b - a)) by lia.
  rewrite (firstn_S_nth _ _ (c, u)).
  - rewrite filter_app, app_length. simpl. destruct (Nat.eqb u t); reflexivity.
  - rewrite nth_error_skipn. replace (a + (S b - a)) with (S b) by lia. exact H.
Qed.

Section Main.
Variable cfg : cb_config.
Variable nl : nat.
Notation M := (breaker cfg nl).

(** ** the accounting invariant on configurations *)
Definition thr_credit (th : bthread) : nat :=
  n_reports (t_prog th) + match t_cur th with Some (_, l) => credit l | None => 0 end.

Definition WF (R : nat) (c : bconfig) : Prop :=
  Alive cfg c /\ tc (c_sh c) + wsum thr_credit (c_thr c) <= R.

Lemma view_facts (th : bthread) o l fresh :
  view M th = Some (o, l, fresh) ->
  thr_credit th = n_reports (rest_prog th fresh) + credit l /\
  length (t_prog th) = length (rest_prog th fresh) + (if fresh then 1 else 0) /\
  (if fresh then t_cur th = None /\ l = BInv o else t_cur th = Some (o, l)).
Proof.
  unfold view, thr_credit, rest_prog. destruct (t_dead th); [discriminate|].
  destruct (t_cur th) as [[o' l']|].
  - intros E. injection E as <- <- <-. repeat split; lia.
  - destruct (t_prog th) as [|o' r]; [discriminate|].
    intros E. injection E as <- <- <-. simpl. unfold n_reports. simpl. repeat split; lia.
Qed.

(** what a step does, in the vocabulary of the invariants *)
Lemma step_shape c t c' e :
  Alive cfg c -> step_thread M c t = Some (c', e) ->
  exists th o l fresh,
    nth_error (c_thr c) t = Some th /\ view M th = Some (o, l, fresh) /\ Pb (c_sh c) l /\
    ((exists l' s', bstep cfg nl l (c_sh c) = Next l' s' /\ pstep cfg nl l (c_sh c) = Some (l', s') /\
        c' = Config s' (upd (c_thr c) t (Thread (rest_prog th fresh) (t_ts th) (Some (o, l')) false))) \/
     (exists r s', bstep cfg nl l (c_sh c) = Done r tt s' /\ pstep cfg nl l (c_sh c) = Some (idle, s') /\
        c' = Config s' (upd (c_thr c) t (Thread (rest_prog th fresh) tt None false)))).
Proof.
  intros [HI Hd] Hs.
  destruct (stepper_step _ _ _ _ _ Hs) as (th & o & l & fresh & Hn & Hv & _ & Hcase).
  exists th, o, l, fresh. split; [exact Hn|]. split; [exact Hv|].
  pose proof (NFI_cfg_no_fault _ _ _ _ _ _ _ _ HI Hn Hv) as Hnf.
  split.
  { destruct (view_same _ _ _ _ _ _ Hv) as [Hsame _].
    destruct HI as (_ & _ & _ & _ & _ & HB).
    eapply Pb_same; [exact Hsame|]. eapply Forall_nth_error; [exact HB|].
    unfold pcs. rewrite nth_error_map, Hn. reflexivity. }
  change (m_step M l (c_sh c)) with (bstep cfg nl l (c_sh c)) in Hcase.
  destruct Hcase as [(l' & s' & Hb & ->)|[(r & u & s' & Hb & ->)|(Hf & _)]]; [| |contradiction].
  - left. exists l', s'. split; [exact Hb|]. split; [unfold pstep; rewrite Hb; reflexivity|reflexivity].
  - right. destruct u. exists r, s'. split; [exact Hb|]. split; [unfold pstep; rewrite Hb; reflexivity|reflexivity].
Qed.

Lemma WF_step R c t c' e : WF R c -> step_thread M c t = Some (c', e) -> WF R c'.
Proof.
  intros [HA Hc] Hs. split; [eapply Alive_step; eauto|].
  destruct (step_shape _ _ _ _ HA Hs) as (th & o & l & fresh & Hn & Hv & _ & Hcase).
  destruct (view_facts _ _ _ _ Hv) as (Fc & _ & _).
  destruct Hcase as [(l' & s' & _ & Hp & ->)|(r & s' & _ & Hp & ->)];
    cbn [c_sh c_thr]; destruct (step_tc _ _ _ _ _ _ Hp) as [_ Ht].
  - pose proof (wsum_upd thr_credit _ _ _
      (Thread (rest_prog th fresh) (t_ts th) (Some (o, l')) false) Hn) as Hu.
    assert (Ex : thr_credit (Thread (rest_prog th fresh) (t_ts th) (Some (o, l')) false) =
                 n_reports (rest_prog th fresh) + credit l') by reflexivity.
    lia.
  - pose proof (wsum_upd thr_credit _ _ _ (Thread (rest_prog th fresh) tt (@None (bop * bpc)) false) Hn) as Hu.
    assert (Ex : thr_credit (Thread (rest_prog th fresh) tt (@None (bop * bpc)) false) =
                 n_reports (rest_prog th fresh) + 0) by reflexivity.
    simpl credit in Ht. lia.
Qed.

Lemma WF_final R c sched : WF R c -> WF R (final M c sched).
Proof.
  intros H. apply (invariant_run M (WF R)); [exact H|].
  intros c1 t c' e. apply WF_step.
Qed.

Lemma tc_binit ticks : tc (binit nl ticks) = 0.
Proof. unfold binit, take_tick. destruct ticks as [|t1 [|t2 r]]; reflexivity. Qed.

Lemma WF_init ticks progs : WF (n_rep progs) (bcfg0 nl ticks progs).
Proof.
  split; [apply Alive_init|].
  unfold bcfg0, init. cbn [c_sh c_thr]. rewrite tc_binit, wsum_map. unfold n_rep.
  rewrite (wsum_ext _ n_reports); [lia|]. intros p _. unfold thr_credit, mk_thread. simpl. lia.
Qed.

Lemma WF_reach ticks progs sched : WF (n_rep progs) (final M (bcfg0 nl ticks progs) sched).
Proof. apply WF_final, WF_init. Qed.

(** the reservoirs never hold more cells than there are report operations *)
Theorem reservoir_cells_bounded : forall ticks progs sched,
  tc (c_sh (final M (bcfg0 nl ticks progs) sched)) <= n_rep progs.
Proof. intros ticks progs sched. destruct (WF_reach ticks progs sched) as [_ H]. lia. Qed.

(** ** configuration-level steps *)
Lemma step_cfg_next c t o l fresh l' s' :
  stepper M c t = Some (o, l, fresh) -> bstep cfg nl l (c_sh c) = Next l' s' ->
  exists th', nth_error (c_thr (step_cfg M c t)) t = Some th' /\ t_cur th' = Some (o, l') /\
              c_sh (step_cfg M c t) = s'.
Proof.
  unfold stepper, step_cfg, step_thread. destruct (nth_error (c_thr c) t) as [th|] eqn:Hn; [|discriminate].
  intros -> Hb. change (m_step M l (c_sh c)) with (bstep cfg nl l (c_sh c)). rewrite Hb. simpl.
  eexists. rewrite nth_error_upd, Nat.eqb_refl, Hn. split; [reflexivity|]. split; reflexivity.
Qed.

(** ** (B) every call returns within a bound on its own steps *)
Section Log.
Variables (ticks : list Z) (progs : list (list bop)) (sched : list nat).
Notation L := (steps_of M (bcfg0 nl ticks progs) sched).
Notation R := (n_rep progs).

Lemma log_WF k ck t : nth_error L k = Some (ck, t) -> WF R ck.
Proof. intros H. destruct (steps_of_reach _ _ _ _ _ _ H) as [s1 ->]. apply WF_reach. Qed.

Lemma log_succ_WF k ck t : nth_error L k = Some (ck, t) -> WF R (step_cfg M ck t).
Proof.
  intros H. pose proof (log_WF _ _ _ H) as HW.
  destruct (steps_of_enabled _ _ _ _ _ _ H) as (c' & e & Hs).
  rewrite (step_cfg_some _ _ _ _ _ Hs). eapply WF_step; eauto.
Qed.

(* the call of [o] that thread [t] invokes at position [a] *)
Definition invoked_at (a t : nat) (o : bop) : Prop :=
  exists ca, nth_error L a = Some (ca, t) /\ stepper M ca t = Some (o, BInv o, true).

(* thread [t] does not return at any of its positions in [a, b] *)
Definition no_return (t a b : nat) : Prop :=
  forall k ck, a <= k <= b -> nth_error L k = Some (ck, t) -> ret_at cfg nl ck t = None.

(* as long as the call has not returned: after position [b] the thread stands at a program
   counter of [o] whose rank bounds the own steps taken so far *)
Lemma call_rank : forall d a b t o,
  b = a + d -> invoked_at a t o -> no_return t a b ->
  forall cb tb, nth_error L b = Some (cb, tb) ->
  exists th l, nth_error (c_thr (step_cfg M cb tb)) t = Some th /\ t_cur th = Some (o, l) /\
    opk o l = true /\ own_steps L t a b <= rank (c_sh (step_cfg M cb tb)) l.
Proof.
  induction d as [|d IH]; intros a b t o Hb (ca & Ha & Hst) Hnr cb tb Hcb.
  - (* the invocation step *)
    rewrite Nat.add_0_r in Hb. subst b. rewrite Ha in Hcb. injection Hcb as <- <-.
    destruct (inv_step cfg nl o (c_sh ca)) as [l' Hs].
    destruct (step_cfg_next _ _ _ _ _ _ _ Hst Hs) as (th' & Hn' & Hc' & Hsh).
    exists th', l'. split; [exact Hn'|]. split; [exact Hc'|]. split.
    + eapply opk_next; [apply opk_inv|exact Hs].
    + rewrite (own_steps_one _ _ _ _ Ha), Hsh.
      pose proof (rank_step cfg nl (BInv o) (c_sh ca) l' (c_sh ca) I Hs) as Hr. simpl in Hr. lia.
  - (* one more position *)
    assert (Hb0 : exists cb0 tb0, nth_error L (a + d) = Some (cb0, tb0)).
    { destruct (nth_error L (a + d)) as [[cb0 tb0]|] eqn:E; [eauto|exfalso].
      apply nth_error_None in E.
      assert (b < length L) by (apply nth_error_Some; congruence). lia. }
    destruct Hb0 as (cb0 & tb0 & Hcb0).
    assert (Hnr0 : no_return t a (a + d)).
    { intros k ck Hk Hn. apply (Hnr k ck); [lia|exact Hn]. }
    destruct (IH a (a + d) t o eq_refl (ex_intro _ ca (conj Ha Hst)) Hnr0 cb0 tb0 Hcb0)
      as (th & l & Hth & Hcur & Hop & Hown).
    assert (Hbs : b = S (a + d)) by lia. rewrite Hbs in Hcb.
    pose proof (steps_of_succ _ _ _ _ _ _ _ _ Hcb0 Hcb) as Ecb. rewrite <- Ecb in Hth, Hown.
    rewrite Hbs. rewrite (own_steps_S _ t a (a + d) cb tb ltac:(lia) Hcb).
    destruct (log_WF _ _ _ Hcb) as [[HI Hdead] _].
    destruct (steps_of_enabled _ _ _ _ _ _ Hcb) as (c' & e & Hstep).
    destruct (Nat.eqb_spec tb t) as [->|Hne].
    + (* the thread's own step: it does not return *)
      assert (Hstp : stepper M cb t = Some (o, l, false)).
      { eapply stepper_stored; [exact Hth| |exact Hcur]. eapply Hdead; eauto. }
      pose proof (Hnr b cb ltac:(lia) ltac:(rewrite Hbs; exact Hcb)) as Hret.
      unfold ret_at in Hret. rewrite Hstp in Hret.
      assert (Hv : view M th = Some (o, l, false)).
      { unfold stepper in Hstp. rewrite Hth in Hstp. exact Hstp. }
      pose proof (NFI_cfg_no_fault _ _ _ _ _ _ _ _ HI Hth Hv) as Hnf.
      pose proof (breaker_never_blocks cfg nl l (c_sh cb)) as Hnb.
      destruct (bstep cfg nl l (c_sh cb)) as [l' s'|r u s'| |] eqn:Hs; try contradiction; try discriminate.
      destruct (step_cfg_next _ _ _ _ _ _ _ Hstp Hs) as (th' & Hn' & Hc' & Hsh).
      exists th', l'. split; [exact Hn'|]. split; [exact Hc'|]. split; [eapply opk_next; eauto|].
      rewrite Hsh.
      assert (HB : Pb (c_sh cb) l).
      { destruct HI as (_ & _ & _ & _ & _ & HB). eapply Forall_nth_error; [exact HB|].
        eapply pcs_nth; eauto. }
      pose proof (rank_step cfg nl _ _ _ _ HB Hs). lia.
    + (* a step of another thread: the rank does not go down *)
      exists th, l. split; [rewrite step_cfg_other by congruence; exact Hth|].
      split; [exact Hcur|]. split; [exact Hop|].
      rewrite (step_cfg_some _ _ _ _ _ Hstep).
      destruct (step_abs _ _ _ _ _ _ Hstep) as (l0 & l1 & l1' & _ & _ & Hp & _).
      pose proof (rank_mono cfg nl _ _ _ _ l Hp). lia.
Qed.

(** (B) the call bound, per operation and uniformly *)
Theorem breaker_call_bound_op : forall a b t o,
  invoked_at a t o -> a <= b -> b < length L ->
  (forall k ck, a <= k < b -> nth_error L k = Some (ck, t) -> ret_at cfg nl ck t = None) ->
  own_steps L t a b <= obound o (n_rep progs).
Proof.
  intros a b t o Hinv Hab Hlen Hnr.
  destruct (Nat.eq_dec a b) as [<-|Hne].
  - destruct Hinv as (ca & Ha & _). rewrite (own_steps_one _ _ _ _ Ha). destruct o; simpl; lia.
  - destruct b as [|b0]; [lia|].
    assert (Hb0 : exists cb0 tb0, nth_error L b0 = Some (cb0, tb0)).
    { destruct (nth_error L b0) as [[cb0 tb0]|] eqn:E; [eauto|]. apply nth_error_None in E. lia. }
    destruct Hb0 as (cb0 & tb0 & Hcb0).
    assert (Hb : exists cb tb, nth_error L (S b0) = Some (cb, tb)).
    { destruct (nth_error L (S b0)) as [[cb tb]|] eqn:E; [eauto|]. apply nth_error_None in E. lia. }
    destruct Hb as (cb & tb & Hcb).
    assert (Hnr0 : no_return t a b0) by (intros k ck Hk Hn; apply (Hnr k ck); [lia|exact Hn]).
    destruct (call_rank (b0 - a) a b0 t o ltac:(lia) Hinv Hnr0 cb0 tb0 Hcb0)
      as (th & l & Hth & Hcur & Hop & Hown).
    rewrite <- (steps_of_succ _ _ _ _ _ _ _ _ Hcb0 Hcb) in Hth, Hown.
    rewrite (own_steps_S _ t a b0 cb tb ltac:(lia) Hcb).
    destruct (log_WF _ _ _ Hcb) as [[HI _] Hc].
    assert (HB : Pb (c_sh cb) l).
    { destruct HI as (_ & _ & _ & _ & _ & HB). eapply Forall_nth_error; [exact HB|]. eapply pcs_nth; eauto. }
    pose proof (rank_obound (c_sh cb) o l HB Hop) as Hr.
    pose proof (obound_mono o (tc (c_sh cb)) (n_rep progs) ltac:(lia)).
    destruct (Nat.eqb tb t); lia.
Qed.

Theorem breaker_call_bound : forall a b t o,
  invoked_at a t o -> a <= b -> b < length L ->
  (forall k ck, a <= k < b -> nth_error L k = Some (ck, t) -> ret_at cfg nl ck t = None) ->
  own_steps L t a b <= cbound progs.
Proof.
  intros a b t o Hinv Hab Hlen Hnr.
  pose proof (breaker_call_bound_op a b t o Hinv Hab Hlen Hnr).
  pose proof (obound_le o (n_rep progs)). unfold cbound. lia.
Qed.

(* ... in particular for a call that returns at [b] ... *)
Corollary breaker_returned_call_bound : forall a b t o cb r,
  invoked_at a t o -> a <= b -> nth_error L b = Some (cb, t) -> ret_at cfg nl cb t = Some r ->
  (forall k ck, a <= k < b -> nth_error L k = Some (ck, t) -> ret_at cfg nl ck t = None) ->
  own_steps L t a b <= obound o (n_rep progs) /\ obound o (n_rep progs) <= cbound progs.
Proof.
  intros a b t o cb r Hinv Hab Hb _ Hnr. split.
  - apply breaker_call_bound_op; auto. apply nth_error_Some. congruence.
  - apply obound_le.
Qed.

(* ... and for a call that has not returned by the end of the log *)
Corollary breaker_pending_call_bound : forall a t o,
  invoked_at a t o ->
  (forall k ck, a <= k -> nth_error L k = Some (ck, t) -> ret_at cfg nl ck t = None) ->
  own_steps L t a (length L - 1) <= obound o (n_rep progs) /\ obound o (n_rep progs) <= cbound progs.
Proof.
  intros a t o Hinv Hnr. split; [|apply obound_le].
  assert (a < length L) by (destruct Hinv as (ca & Ha & _); apply nth_error_Some; congruence).
  apply breaker_call_bound_op; auto; try lia.
  intros k ck Hk. apply Hnr. lia.
Qed.

(* positively: by the time thread [t] has taken more than [obound o _] steps since the
   invocation, the call HAS returned (at an identified position of the log) *)
Lemma return_dec t a : forall b,
  (exists k ck r, a <= k < b /\ nth_error L k = Some (ck, t) /\ ret_at cfg nl ck t = Some r) \/
  (forall k ck, a <= k < b -> nth_error L k = Some (ck, t) -> ret_at cfg nl ck t = None).
Proof.
  induction b as [|b [(k & ck & r & Hk & Hn & Hr)|IH]].
  - right. intros k ck Hk. lia.
  - left. exists k, ck, r. split; [lia|]. split; assumption.
  - destruct (nth_error L b) as [[cb tb]|] eqn:Eb.
    + destruct (Nat.eq_dec tb t) as [->|Hne].
      * destruct (ret_at cfg nl cb t) as [r|] eqn:Er.
        -- destruct (Nat.le_gt_cases a b) as [Hab|Hab].
           ++ left. exists b, cb, r. split; [lia|]. split; assumption.
           ++ right. intros k ck Hk. lia.
        -- right. intros k ck Hk Hn. destruct (Nat.eq_dec k b) as [->|Hkb].
           ++ rewrite Eb in Hn. injection Hn as <-. exact Er.
           ++ apply (IH k ck); [lia|exact Hn].
      * right. intros k ck Hk Hn. destruct (Nat.eq_dec k b) as [->|Hkb].
        -- rewrite Eb in Hn. injection Hn as _ E. congruence.
        -- apply (IH k ck); [lia|exact Hn].
    + right. intros k ck Hk Hn. destruct (Nat.eq_dec k b) as [->|Hkb].
      * rewrite Eb in Hn. discriminate.
      * apply (IH k ck); [lia|exact Hn].
Qed.

Theorem breaker_call_returns : forall a b t o,
  invoked_at a t o -> a <= b -> b < length L ->
  obound o (n_rep progs) < own_steps L t a b ->
  exists k ck r, a <= k < b /\ nth_error L k = Some (ck, t) /\ ret_at cfg nl ck t = Some r.
Proof.
  intros a b t o Hinv Hab Hlen Hgt.
  destruct (return_dec t a b) as [H|H]; [exact H|exfalso].
  pose proof (breaker_call_bound_op a b t o Hinv Hab Hlen H). lia.
Qed.

End Log.

(** ** (C) total termination: the potential *)
Definition thr_phi (B : nat) (s : bshared) (th : bthread) : nat :=
  length (t_prog th) * B + match t_cur th with Some (_, l) => B - rank s l | None => 0 end.

Definition Phi (B : nat) (c : bconfig) : nat := wsum (thr_phi B (c_sh c)) (c_thr c).

Lemma wsum_upd_lt {A} (f g : A -> nat) l i a a' :
  nth_error l i = Some a -> (forall x, f x <= g x) -> f a' + 1 <= g a ->
  wsum f (upd l i a') + 1 <= wsum g l.
Proof.
  intros Hn Hle Hlt.
  pose proof (wsum_upd f l i a a' Hn) as Hu.
  pose proof (wsum_upd g l i a a Hn) as Hg. rewrite (upd_same _ _ _ Hn) in Hg.
  assert (Hrest : wsum f (upd l i a') - f a' <= wsum g l - g a).
  { clear Hlt Hu Hg. revert i Hn. induction l as [|b l IH]; intros i Hn; [destruct i; discriminate|].
    destruct i as [|i]; simpl in *.
    - injection Hn as ->. assert (wsum f l <= wsum g l) by (apply wsum_le; intros; apply Hle). lia.
    - specialize (IH i Hn). pose proof (Hle b).
      pose proof (wsum_ge g l i a Hn).
      pose proof (wsum_upd f l i a a' Hn). lia. }
  pose proof (wsum_ge g l i a Hn). lia.
Qed.

(* one step of thread [t]: its own potential goes down, nobody else's goes up *)
Lemma step_phi R c t c' e :
  WF R c -> step_thread M c t = Some (c', e) ->
  let B := 12 + 4 * R in
  exists th th', nth_error (c_thr c) t = Some th /\ c_thr c' = upd (c_thr c) t th' /\
    thr_phi B (c_sh c') th' + 1 <= thr_phi B (c_sh c) th /\
    forall x, thr_phi B (c_sh c') x <= thr_phi B (c_sh c) x.
Proof.
  intros [HA Hc] Hs B.
  destruct (step_shape _ _ _ _ HA Hs) as (th & o & l & fresh & Hn & Hv & HB & Hcase).
  destruct (view_facts _ _ _ _ Hv) as (_ & Fl & Fc).
  assert (Hrk : rank (c_sh c) l + 1 <= B).
  { pose proof (rank_bound (c_sh c) l HB). unfold B. lia. }
  assert (Hoth : forall l1 l1' s', pstep cfg nl l1 (c_sh c) = Some (l1', s') ->
            forall x, thr_phi B s' x <= thr_phi B (c_sh c) x).
  { intros l1 l1' s' Hp x. unfold thr_phi. destruct (t_cur x) as [[ox lx]|]; [|lia].
    pose proof (rank_mono cfg nl _ _ _ _ lx Hp). lia. }
  destruct Hcase as [(l' & s' & Hb & Hp & ->)|(r & s' & Hb & Hp & ->)]; cbn [c_sh c_thr].
  - eexists th, _. split; [exact Hn|]. split; [reflexivity|]. split; [|eapply Hoth; eauto].
    pose proof (rank_step cfg nl _ _ _ _ HB Hb) as Hr.
    unfold thr_phi. cbn [t_prog t_cur]. rewrite Fl. destruct fresh.
    + destruct Fc as [-> ->]. simpl in Hr. lia.
    + rewrite Fc. lia.
  - eexists th, _. split; [exact Hn|]. split; [reflexivity|]. split; [|eapply Hoth; eauto].
    unfold thr_phi. cbn [t_prog t_cur]. rewrite Fl. destruct fresh.
    + destruct Fc as [-> ->]. lia.
    + rewrite Fc. lia.
Qed.

Lemma Phi_step R c t c' e :
  WF R c -> step_thread M c t = Some (c', e) -> Phi (12 + 4 * R) c' + 1 <= Phi (12 + 4 * R) c.
Proof.
  intros HW Hs. destruct (step_phi _ _ _ _ _ HW Hs) as (th & th' & Hn & Hthr & Hlt & Hle).
  unfold Phi. rewrite Hthr. eapply wsum_upd_lt; eauto.
Qed.

(* every step taken costs at least one unit of potential *)
Lemma steps_Phi R : forall sched c,
  WF R c -> length (steps_of M c sched) + Phi (12 + 4 * R) (final M c sched) <= Phi (12 + 4 * R) c.
Proof.
  induction sched as [|t r IH]; intros c HW.
  - simpl. rewrite final_nil. lia.
  - rewrite final_cons. cbn [steps_of]. unfold step_cfg.
    destruct (step_thread M c t) as [[c' e]|] eqn:Hs.
    + pose proof (Phi_step _ _ _ _ _ HW Hs). pose proof (IH c' (WF_step _ _ _ _ _ HW Hs)). cbn [length]. lia.
    + apply IH. exact HW.
Qed.

Lemma Phi_init ticks progs : Phi (cbound progs) (bcfg0 nl ticks progs) = n_ops progs * cbound progs.
Proof.
  unfold Phi, bcfg0, init, n_ops. cbn [c_sh c_thr]. rewrite wsum_map, <- wsum_times_const.
  apply wsum_ext. intros p _. unfold thr_phi, mk_thread. simpl. lia.
Qed.

Theorem breaker_total_termination : forall ticks progs sched,
  length (steps_of M (bcfg0 nl ticks progs) sched) <= n_ops progs * cbound progs.
Proof.
  intros ticks progs sched.
  pose proof (steps_Phi (n_rep progs) sched _ (WF_init ticks progs)) as H.
  fold (cbound progs) in H. rewrite Phi_init in H. lia.
Qed.

(* the steps already taken and the steps still to come share the one budget *)
Theorem breaker_total_termination_from : forall ticks progs s1 s2,
  length (steps_of M (bcfg0 nl ticks progs) s1) +
  length (steps_of M (final M (bcfg0 nl ticks progs) s1) s2) <= n_ops progs * cbound progs.
Proof.
  intros ticks progs s1 s2.
  pose proof (steps_Phi (n_rep progs) s1 _ (WF_init ticks progs)) as H1.
  pose proof (steps_Phi (n_rep progs) s2 _ (WF_reach ticks progs s1)) as H2.
  fold (cbound progs) in H1, H2. rewrite Phi_init in H1. lia.
Qed.

(** ** per thread: thread [t] takes at most [length p * cbound progs] steps *)
Definition phi_at (B : nat) (c : bconfig) (t : nat) : nat :=
  match nth_error (c_thr c) t with Some th => thr_phi B (c_sh c) th | None => 0 end.

Lemma phi_at_step R c u c' e t :
  WF R c -> step_thread M c u = Some (c', e) ->
  phi_at (12 + 4 * R) c' t + (if Nat.eqb u t then 1 else 0) <= phi_at (12 + 4 * R) c t.
Proof.
  intros HW Hs. destruct (step_phi _ _ _ _ _ HW Hs) as (th & th' & Hn & Hthr & Hlt & Hle).
  unfold phi_at. rewrite Hthr, nth_error_upd, Hn.
  destruct (Nat.eqb_spec u t) as [->|Hne].
  - rewrite Hn. lia.
  - destruct (nth_error (c_thr c) t) as [x|]; [|lia]. specialize (Hle x). lia.
Qed.

Definition steps_by {C : Type} (L : list (C * nat)) (t : nat) : nat :=
  length (filter (fun x => Nat.eqb (snd x) t) L).

Lemma thread_steps_phi R t : forall sched c,
  WF R c ->
  steps_by (steps_of M c sched) t + phi_at (12 + 4 * R) (final M c sched) t <= phi_at (12 + 4 * R) c t.
Proof.
  induction sched as [|u r IH]; intros c HW.
  - simpl. rewrite final_nil. unfold steps_by. simpl. lia.
  - rewrite final_cons. cbn [steps_of]. unfold step_cfg.
    destruct (step_thread M c u) as [[c' e]|] eqn:Hs.
    + pose proof (phi_at_step _ _ _ _ _ t HW Hs). pose proof (IH c' (WF_step _ _ _ _ _ HW Hs)).
      unfold steps_by in *. cbn [filter snd]. destruct (Nat.eqb u t); cbn [length]; lia.
    + apply IH. exact HW.
Qed.

Theorem breaker_thread_steps : forall ticks progs sched t p,
  nth_error progs t = Some p ->
  steps_by (steps_of M (bcfg0 nl ticks progs) sched) t <= length p * cbound progs.
Proof.
  intros ticks progs sched t p Hp.
  pose proof (thread_steps_phi (n_rep progs) t sched _ (WF_init ticks progs)) as H.
  fold (cbound progs) in H.
  assert (E : phi_at (cbound progs) (bcfg0 nl ticks progs) t = length p * cbound progs).
  { unfold phi_at, bcfg0, init. cbn [c_thr]. rewrite nth_error_map, Hp. simpl.
    unfold thr_phi, mk_thread. simpl. lia. }
  lia.
Qed.

End Main.

Print Assumptions breaker_call_bound_op.
Print Assumptions breaker_call_bound.
Print Assumptions breaker_call_returns.
Print Assumptions breaker_total_termination.
Print Assumptions breaker_thread_steps.
Print Assumptions reservoir_cells_bounded.
