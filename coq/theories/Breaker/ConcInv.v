(** Concurrent safety of the circuit breaker, part 1: the state pointer.

    T1  the state pointer only moves forward, every state object is replaced
        at most once (no ABA);
    T2  who can be admitted;
    T3a open / half-open state objects carry no counter. *)
From Coq Require Import List Arith Bool ZArith Lia.
From Garr Require Import Conc.Conc Pure.F64 Pure.Config Breaker.BreakerModel Breaker.ConcBase.
Import ListNotations.

Section Inv1.
Variable cfg : cb_config.
Variable nl : nat.

Definition cs_ok (s : bshared) (cs : nat) : Prop := cs <= length (b_states s).
Definition open_ok (s : bshared) (cs : nat) : Prop :=
  exists st, nth1 (b_states s) cs = Some st /\ st_kind st <> KClosed /\ (0 < st_dur st)%Z.
Definition k_ok (s : bshared) (k : wk) : Prop :=
  match k with WKFailure cs => cs_ok s cs | _ => True end.

(* what a thread at pc [l] knows about the (append-only) list of state objects *)
Definition P1 (s : bshared) (l : bpc) : Prop :=
  match l with
  | CRTick cs | CRTick2 cs => open_ok s cs
  | CRCas cs n =>
      open_ok s cs /\ cs < n /\
      exists t2, nth1 (b_states s) n = Some (BState KHalfOpen 0 (wrap64 (t2 + trial cfg)) (trial cfg))
  | OSTick1 cs | OSSnap cs _ | OSTick2 cs _ => cs_ok s cs
  | OSCas cs n => cs < n /\ exists w ts, nth1 (b_states s) n = Some (BState KClosed w ts 0)
  | OFTick cs _ => cs_ok s cs
  | OFCas cs n _ => cs < n /\ exists ts, nth1 (b_states s) n = Some (BState KOpen 0 ts (openw cfg))
  | WTick _ _ k | WCur _ _ k _ | WAddInst _ _ k _ | WOfferInst _ k _ | WAddCur _ k _
  | WAddNext _ _ k _ _ _ | WCasCur _ k _ _ _ | WOfferOld _ k _ _ | WOfferNext _ k _
  | WIter _ k _ | WHasNext _ k _ _ _ _ | WNext _ k _ _ _ _ | WRemove _ k _ _ _ _
  | WSumS _ k _ _ _ _ _ | WSumF _ k _ _ _ _ _ | WSnapStore _ k _ _ => k_ok s k
  | _ => True
  end.

Definition cas_of (l : bpc) : option (nat * nat) :=
  match l with CRCas cs n | OSCas cs n | OFCas cs n _ => Some (cs, n) | _ => None end.

Definition G1 (s : bshared) : Prop := b_cur s <= length (b_states s).
Definition G2 (s : bshared) : Prop :=
  forall i st, nth1 (b_states s) i = Some st -> st_kind st <> KClosed -> st_win st = 0.

Definition sext (s s' : bshared) : Prop := exists l, b_states s' = b_states s ++ l.

Lemma sext_refl s : sext s s.
Proof. exists []. rewrite app_nil_r. reflexivity. Qed.

Lemma sext_nth s s' : sext s s' -> forall i st, nth1 (b_states s) i = Some st -> nth1 (b_states s') i = Some st.
Proof. intros [l ->] i st. apply nth1_app. Qed.

Lemma sext_len s s' : sext s s' -> length (b_states s) <= length (b_states s').
Proof. intros [l ->]. rewrite app_length. lia. Qed.

Lemma P1_mono s s' l : sext s s' -> P1 s l -> P1 s' l.
Proof.
  intros He. pose proof (sext_len _ _ He) as Hl. pose proof (sext_nth _ _ He) as Hn.
  assert (Hk : forall k, k_ok s k -> k_ok s' k) by (intros [| |]; simpl; unfold cs_ok; auto; lia).
  assert (Ho : forall cs, open_ok s cs -> open_ok s' cs).
  { intros cs (st & H1 & H2). exists st. auto. }
  destruct l; simpl; unfold cs_ok; auto; try lia.
  - intros (H1 & H2 & t2 & H3). eauto 6.
  - intros (H1 & w & ts & H3). eauto 6.
  - intros (H1 & ts & H3). eauto 6.
Qed.

Ltac t_sext :=
  unfold sext; simpl;
  first [ exists []; rewrite app_nil_r; reflexivity | eexists; reflexivity ].

Ltac t_G2 HG2 :=
  unfold G2 in *; simpl;
  let i := fresh "i" in let st := fresh "st" in let Hi := fresh "Hi" in let Hk := fresh "Hk" in
  intros i st Hi Hk;
  first [ eapply HG2; eassumption
        | apply nth1_app_inv in Hi; destruct Hi as [Hi|[_ ->]];
          [ eapply HG2; eassumption | simpl; first [reflexivity | exfalso; apply Hk; reflexivity] ] ].

Ltac t_P1 :=
  simpl; unfold open_ok, cs_ok, k_ok in *; simpl;
  repeat match goal with
  | |- True => exact I
  | |- _ /\ _ => split
  | |- _ <= _ => rewrite ?app_length; simpl; lia
  | |- _ < _ => rewrite ?app_length; simpl; lia
  | |- exists st, nth1 _ _ = Some st /\ st_kind st <> KClosed /\ _ =>
      eexists; split; [first [eassumption | apply nth1_app; eassumption] | split; [congruence | assumption]]
  | |- exists _, nth1 (_ ++ [_]) (S (length _)) = Some _ =>
      first [ eexists; apply nth1_new | exists 0%Z; apply nth1_new ]
  | |- exists _ _, nth1 (_ ++ [_]) (S (length _)) = Some _ => eexists _, _; apply nth1_new
  | |- match ?k with _ => _ end => destruct k; simpl in *
  | |- cs_ok _ _ => unfold cs_ok in *; simpl
  end.

Lemma step1 l s l' s' :
  G1 s -> G2 s -> P1 s l -> pstep cfg nl l s = Some (l', s') ->
  sext s s' /\ G1 s' /\ G2 s' /\ P1 s' l' /\ b_cur s <= b_cur s' /\
  (forall cs n, cas_of l = Some (cs, n) -> b_cur s = cs -> b_cur s' = n).
Proof.
  intros HG1 HG2 HP H.
  destruct l; unfold_step H; repeat break1 H; try discriminate H;
  injection H as <- <-; eqb_clean; simpl in HP; unfold open_ok, cs_ok in HP; destr_hyps; dedup;
  repeat match goal with Hn : nth1 _ _ = Some _ |- _ => pose proof (nth1_le _ _ _ Hn); revert Hn end; intros;
  (split; [t_sext|]); (split; [unfold G1 in *; simpl; rewrite ?app_length; simpl; lia|]);
  (split; [t_G2 HG2|]); (split; [|split; [simpl; lia|simpl; intros ? ? [=]; intros; subst; auto; try congruence]]);
  solve [t_P1].
Qed.

(** *** the invariant *)
Definition Inv1 (s : bshared) (ps : list bpc) : Prop := G1 s /\ G2 s /\ Forall (P1 s) ps.

Lemma P1_same s l0 l : same l0 l -> P1 s l0 -> P1 s l.
Proof. intros [->|[_ [o ->]]] H; [exact H|exact I]. Qed.

Lemma Inv1_step s ps t l0 l l' s' :
  Inv1 s ps -> nth_error ps t = Some l0 -> same l0 l -> pstep cfg nl l s = Some (l', s') ->
  Inv1 s' (upd ps t l') /\ b_cur s <= b_cur s' /\
  (forall cs n, cas_of l = Some (cs, n) -> b_cur s = cs -> b_cur s' = n).
Proof.
  intros (HG1 & HG2 & HF) Hn Hsame Hp.
  assert (HP : P1 s l) by (eapply P1_same; [exact Hsame|eapply Forall_nth_error; eauto]).
  destruct (step1 _ _ _ _ HG1 HG2 HP Hp) as (He & HG1' & HG2' & HP' & Hmono & Hcas).
  split; [|split; assumption].
  split; [exact HG1'|split; [exact HG2'|]].
  apply Forall_upd; [|exact HP'].
  eapply Forall_impl; [|exact HF]. intros a Ha. eapply P1_mono; eauto.
Qed.

Lemma Inv1_init ticks (progs : list (list bop)) :
  Inv1 (binit nl ticks) (map (fun _ => idle) progs).
Proof.
  unfold Inv1, G1, G2, binit, take_tick; simpl.
  destruct ticks as [|t1 [|t2 r]]; simpl;
    (split; [lia|split; [|apply Forall_forall; intros x Hx; apply in_map_iff in Hx; destruct Hx as [? [<- _]]; exact I]]);
    intros [|[|i]] st Hi Hk; try discriminate Hi; try (destruct i; discriminate Hi);
    unfold nth1 in Hi; simpl in Hi; injection Hi as <-; exfalso; apply Hk; reflexivity.
Qed.

Notation M := (breaker cfg nl).

Lemma Inv1_reach ticks progs sched :
  let c := final M (bcfg0 nl ticks progs) sched in Inv1 (c_sh c) (pcs c).
Proof.
  apply (abs_invariant cfg nl Inv1).
  - apply Inv1_init.
  - intros s ps t l0 l l' s' HI Hn Hs Hp. eapply Inv1_step; eauto.
Qed.

Lemma Inv1_step_cfg c t c' e :
  Inv1 (c_sh c) (pcs c) -> step_thread M c t = Some (c', e) ->
  Inv1 (c_sh c') (pcs c') /\ b_cur (c_sh c) <= b_cur (c_sh c').
Proof.
  intros HI Hs. destruct (step_abs _ _ _ _ _ _ Hs) as (l0 & l & l' & Hn & Hsame & Hp & Hpcs).
  rewrite Hpcs. destruct (Inv1_step _ _ _ _ _ _ _ HI Hn Hsame Hp) as (H1 & H2 & _). auto.
Qed.

(* along any further schedule the invariant persists and the pointer never moves back *)
Lemma Inv1_final c sched :
  Inv1 (c_sh c) (pcs c) ->
  Inv1 (c_sh (final M c sched)) (pcs (final M c sched)) /\
  b_cur (c_sh c) <= b_cur (c_sh (final M c sched)).
Proof.
  revert c. induction sched as [|t s IH]; intros c HI.
  - simpl. auto.
  - rewrite final_cons. unfold step_cfg.
    destruct (step_thread M c t) as [[c' e]|] eqn:E.
    + destruct (Inv1_step_cfg _ _ _ _ HI E) as [HI' Hle].
      destruct (IH _ HI') as [HI'' Hle']. split; [exact HI''|lia].
    + apply IH. exact HI.
Qed.

(** *** T1 *)
Theorem state_pointer_monotone : forall ticks progs sched c t c' e,
  c = final M (bcfg0 nl ticks progs) sched ->
  step_thread M c t = Some (c', e) -> (b_cur (c_sh c) <= b_cur (c_sh c'))%nat.
Proof.
  intros ticks progs sched c t c' e -> Hs.
  eapply Inv1_step_cfg; [apply Inv1_reach|exact Hs].
Qed.

(* a successful CAS strictly advances the pointer *)
Lemma cas_step c t cs c' e :
  Inv1 (c_sh c) (pcs c) -> cas_succeeds c t cs -> step_thread M c t = Some (c', e) ->
  Inv1 (c_sh c') (pcs c') /\ cs < b_cur (c_sh c').
Proof.
  intros HI (th & o & lc & Hth & Hdead & Hcur & Hlc & Hcs) Hs.
  destruct (step_abs _ _ _ _ _ _ Hs) as (l0 & l & l' & Hn & Hsame & Hp & Hpcs).
  rewrite (pcs_nth _ _ _ _ _ Hth Hcur) in Hn. injection Hn as <-.
  assert (l = lc).
  { destruct Hsame as [E|[E _]]; [auto|]. subst lc. contradiction. }
  subst l.
  destruct HI as (HG1 & HG2 & HF).
  assert (HP : P1 (c_sh c) lc) by (eapply Forall_nth_error; [exact HF|eapply pcs_nth; eauto]).
  destruct (Inv1_step _ _ t _ _ _ _ (conj HG1 (conj HG2 HF)) (pcs_nth _ _ _ _ _ Hth Hcur) (or_introl eq_refl) Hp) as (HI' & _ & Hcas).
  rewrite Hpcs. split; [exact HI'|].
  destruct lc; try contradiction; simpl in Hlc, HP; subst cs0;
    rewrite (Hcas _ _ eq_refl Hcs); tauto.
Qed.

Theorem one_transition_per_state : forall ticks progs sched i j ci ti cj tj cs,
  let L := steps_of M (bcfg0 nl ticks progs) sched in
  nth_error L i = Some (ci, ti) -> nth_error L j = Some (cj, tj) ->
  cas_succeeds ci ti cs -> cas_succeeds cj tj cs -> i = j.
Proof.
  intros ticks progs sched.
  assert (Hlt : forall i j ci ti cj tj cs,
    nth_error (steps_of M (bcfg0 nl ticks progs) sched) i = Some (ci, ti) ->
    nth_error (steps_of M (bcfg0 nl ticks progs) sched) j = Some (cj, tj) ->
    cas_succeeds ci ti cs -> cas_succeeds cj tj cs -> ~ i < j).
  { intros i j ci ti cj tj cs Hi Hj Ci Cj Hlt.
    destruct (steps_of_later _ _ _ _ _ _ _ _ _ Hi Hj Hlt) as (s1 & ci' & e & s3 & E1 & E2 & E3).
    assert (HI : Inv1 (c_sh ci) (pcs ci)) by (rewrite E1; apply Inv1_reach).
    destruct (cas_step _ _ _ _ _ HI Ci E2) as [HI' Hgt].
    destruct (Inv1_final _ s3 HI') as [_ Hle]. rewrite <- E3 in Hle.
    destruct Cj as (_ & _ & _ & _ & _ & _ & _ & Hcur). lia. }
  intros i j ci ti cj tj cs L Hi Hj Ci Cj.
  destruct (Nat.lt_trichotomy i j) as [H|[H|H]]; [|exact H|].
  - exfalso. eapply Hlt; [exact Hi|exact Hj|exact Ci|exact Cj|exact H].
  - exfalso. eapply Hlt; [exact Hj|exact Hi|exact Cj|exact Ci|exact H].
Qed.

(** *** T2 *)
Theorem admission_sources : forall l s s',
  bstep cfg nl l s = Done (BB true) tt s' ->
  (l = CRLoad /\ exists st, nth1 (b_states s) (b_cur s) = Some st /\ st_kind st = KClosed /\ s' = s) \/
  (exists cs n, l = CRCas cs n /\ b_cur s = cs /\ b_cur s' = n).
Proof.
  intros l s s' H.
  destruct l; unfold bstep in H; unfold reject, deliver in H;
    unfold goto, fin, take_tick, new_state, new_bucket, new_window,
      notify_state, notify_count, notify_rejected, with_log, set_cur, set_win, set_bucket,
      bucket_add, offer in H; simpl in H; repeat break1 H; try discriminate H.
  - left. split; [reflexivity|]. injection H as <-. eauto.
  - right. injection H as <-. eqb_clean. eauto.
Qed.

Theorem trial_cas_invariant : forall ticks progs sched th o cs n,
  In th (c_thr (final M (bcfg0 nl ticks progs) sched)) ->
  t_cur th = Some (o, CRCas cs n) ->
  let s := c_sh (final M (bcfg0 nl ticks progs) sched) in
  (exists st, nth1 (b_states s) cs = Some st /\ st_kind st <> KClosed /\ (0 < st_dur st)%Z) /\
  (exists t2, nth1 (b_states s) n = Some (BState KHalfOpen 0 (wrap64 (t2 + trial cfg)) (trial cfg))).
Proof.
  intros ticks progs sched th o cs n Hin Hcur s.
  destruct (Inv1_reach ticks progs sched) as (_ & _ & HF).
  rewrite Forall_forall in HF. specialize (HF _ (pcs_In _ _ _ _ Hin Hcur)).
  simpl in HF. destruct HF as (H1 & _ & H2). split; assumption.
Qed.

(** *** T3a *)
Theorem nonclosed_no_counter : forall ticks progs sched i st,
  nth1 (b_states (c_sh (final M (bcfg0 nl ticks progs) sched))) i = Some st ->
  st_kind st <> KClosed -> st_win st = 0%nat.
Proof.
  intros ticks progs sched i st. destruct (Inv1_reach ticks progs sched) as (_ & HG2 & _). apply HG2.
Qed.

End Inv1.

(** *** easy single-step facts *)
Lemma each_single nl (f : nat -> nat * levent) :
  each nl (fun i => [f i]) = map f (seq 0 nl).
Proof.
  unfold each. induction (seq 0 nl) as [|a l IH]; simpl; [reflexivity|]. rewrite IH. reflexivity.
Qed.

(* a caller that reads the ticker before the deadline is rejected; exactly one
   [LRejected] per listener is logged and nothing else changes *)
Lemma fail_fast cfg nl cs s st t r :
  nth1 (b_states s) cs = Some st -> b_ticks s = t :: r -> (t < st_timeout st)%Z ->
  exists s', bstep cfg nl (CRTick cs) s = Done (BB false) tt s' /\
    b_log s' = b_log s ++ each nl (fun i => [(i, LRejected)]) /\
    each nl (fun i => [(i, LRejected)]) = map (fun i => (i, LRejected)) (seq 0 nl) /\
    b_states s' = b_states s /\ b_cur s' = b_cur s /\ b_wins s' = b_wins s /\
    b_buckets s' = b_buckets s /\ b_ticks s' = r.
Proof.
  intros Hst Ht Hlt. unfold bstep. rewrite Hst. unfold take_tick. rewrite Ht.
  destruct (Z.leb_spec (st_timeout st) t) as [Hle|_]; [lia|].
  eexists. split; [reflexivity|]. simpl. split; [reflexivity|].
  split; [apply (each_single nl (fun i => (i, LRejected)))|]. repeat split; reflexivity.
Qed.

Lemma closed_admits cfg nl s st :
  nth1 (b_states s) (b_cur s) = Some st -> st_kind st = KClosed ->
  bstep cfg nl CRLoad s = Done (BB true) tt s.
Proof. intros H1 H2. unfold bstep. rewrite H1, H2. reflexivity. Qed.

(* reports made while the circuit is OPEN change nothing *)
Lemma open_report_noop cfg nl s st :
  nth1 (b_states s) (b_cur s) = Some st -> st_kind st = KOpen ->
  bstep cfg nl OSLoad s = Done BU tt s /\ bstep cfg nl OFLoad s = Done BU tt s.
Proof. intros H1 H2. unfold bstep. rewrite H1, H2. split; reflexivity. Qed.

Print Assumptions state_pointer_monotone.
Print Assumptions one_transition_per_state.
Print Assumptions admission_sources.
Print Assumptions trial_cas_invariant.
Print Assumptions nonclosed_no_counter.
Print Assumptions fail_fast.
