(** Non-vacuity and tightness of the wait-freedom theorems: concrete 3-thread
    runs with bucket rolls.

    Programs: thread 0 = [OnSuccess; OnSuccess], thread 1 = [OnSuccess;
    CanRequest], thread 2 = [OnFailure; OnFailure]: 6 operations, 5 reports,
    [cbound = 12 + 4 * 5 = 32].

    Run [zsched]: the three first reports read tick 6 and race to roll the
    bucket (thread 0 wins the CAS and trims, threads 1 and 2 offer their own
    bucket), while thread 0 traverses the reservoir the other two APPEND to it
    (its traversal visits the cells they add: 22 own steps); thread 0 rolls
    again at tick 20; thread 2's last OnFailure rolls at tick 30, traverses all
    5 cells, finds the failure rate above the threshold and trips the breaker:
    exactly 32 = [cbound] own steps - the bound of [breaker_call_bound] is
    attained.

    Run [zsched2]: thread 0 is frozen for ever in the middle of its traversal;
    threads 1 and 2 nevertheless return from all their calls.

    Run on [zticks3]: the ticker jumps past the window, the traversals take the
    [WRemove] path (3 steps per expired cell). *)
From Coq Require Import List Arith Bool ZArith Lia.
From Garr Require Import Conc.Conc Pure.F64 Pure.Config Breaker.BreakerModel
  Breaker.ConcBase Breaker.ConcInv Breaker.ConcHist Breaker.ConcWaitFreeInv Breaker.ConcWaitFreeRank
  Breaker.ConcWaitFreeMain Breaker.ConcWaitFreeFair Breaker.ConcExamples Breaker.ConcOneExamples.
Import ListNotations.
Local Open Scope Z_scope.

(** ** measuring the calls of a log: (thread, operation, own steps of the call) for every
    call that returns, in the order of the returns *)
Section Scan.
Variable cfg : cb_config.
Variable nl : nat.

Fixpoint call_steps (L : list (bconfig * nat)) (cnt : list nat) : list (nat * bop * nat) :=
  match L with
  | [] => []
  | (c, t) :: r =>
    match stepper (breaker cfg nl) c t with
    | Some (o, l, fresh) =>
        let n := if (fresh : bool) then 1%nat else S (nth t cnt 0%nat) in
        let cnt' := upd cnt t n in
        match bstep cfg nl l (c_sh c) with
        | Done _ _ _ => (t, o, n) :: call_steps r cnt'
        | _ => call_steps r cnt'
        end
    | None => call_steps r cnt
    end
  end.
End Scan.

Definition zcfg : cb_config :=
  {| thr := of_bits 4593671619917905920 (* 0.125 *); minreq := 1; trial := 10; openw := 10;
     window := 100; interval := 5 |}.

Definition zticks : list Z := [0; 0; 6; 6; 6; 20; 30; 31].
Definition zprogs : list (list bop) :=
  [[OnSuccess; OnSuccess]; [OnSuccess; CanRequest]; [OnFailure; OnFailure]].
Definition zsched : list nat :=
  (flat_map (fun _ => [0; 1; 2]) (seq 0 7) ++ repeat 0 41 ++ repeat 1 2 ++ repeat 2 32 ++ [0; 1; 2; 3])%nat.
Notation zM := (breaker zcfg 2).
Notation zc0 := (bcfg0 2 zticks zprogs).
Notation zL := (steps_of zM zc0 zsched).
Definition zcfg_at (k : nat) : bconfig := match nth_error zL k with Some (c, _) => c | None => zc0 end.

Example z_numbers : (n_rep zprogs, n_ops zprogs, cbound zprogs) = (5, 6, 32)%nat.
Proof. vm_compute. reflexivity. Qed.

(* 100 schedule entries, 96 steps taken (the last four entries are no-ops) *)
Example z_lengths : (length zsched, length zL) = (100, 96)%nat.
Proof. vm_compute. reflexivity. Qed.

(* every call of the run, with the number of its own steps *)
Example z_calls :
  call_steps zcfg 2 zL [0; 0; 0]%nat =
  [(1, OnSuccess, 7); (2, OnFailure, 7); (0, OnSuccess, 22); (0, OnSuccess, 26);
   (1, CanRequest, 2); (2, OnFailure, 32)]%nat.
Proof. vm_compute. reflexivity. Qed.

(* each within the bound of its operation, the last one exactly at [cbound] *)
Example z_calls_bounded :
  forallb (fun x => match x with (_, o, n) => Nat.leb n (obound o (n_rep zprogs)) end)
          (call_steps zcfg 2 zL [0; 0; 0]%nat) = true.
Proof. vm_compute. reflexivity. Qed.

Example z_trace :
  trace zM zc0 zsched =
  [EInv 0 OnSuccess; EInv 1 OnSuccess; EInv 2 OnFailure; ERet 1 OnSuccess BU; ERet 2 OnFailure BU;
   ERet 0 OnSuccess BU; EInv 0 OnSuccess; ERet 0 OnSuccess BU; EInv 1 CanRequest;
   ERet 1 CanRequest (BB true); EInv 2 OnFailure; ERet 2 OnFailure BU]%nat.
Proof. vm_compute. reflexivity. Qed.

(* the breaker has tripped; five cells in the reservoir = five report operations *)
Example z_final :
  let s := c_sh (final zM zc0 zsched) in
  (b_cur s, map st_kind (b_states s), map w_cells (b_wins s), tc s) =
  (2%nat, [KClosed; KOpen], [[(1, true); (3, true); (4, true); (2, true); (5, true)]]%nat, 5%nat).
Proof. vm_compute. reflexivity. Qed.

Example z_all_finished :
  map (fun th => (t_prog th, t_cur th, t_dead th)) (c_thr (final zM zc0 zsched)) =
  [([], None, false); ([], None, false); ([], None, false)].
Proof. vm_compute. reflexivity. Qed.

(** the theorem instantiated on thread 2's last call: invoked at position 64, returns at 95 *)
Example z_invoked : invoked_at zcfg 2 zticks zprogs zsched 64 2 OnFailure.
Proof. exists (zcfg_at 64). split; vm_compute; reflexivity. Qed.

Example z_returns : nth_error zL 95 = Some (zcfg_at 95, 2%nat) /\ ret_at zcfg 2 (zcfg_at 95) 2 = Some BU.
Proof. split; vm_compute; reflexivity. Qed.

Example z_tight : own_steps zL 2 64 95 = cbound zprogs.
Proof. vm_compute. reflexivity. Qed.

Example z_call_bound : (own_steps zL 2 64 95 <= cbound zprogs)%nat.
Proof.
  apply (breaker_call_bound zcfg 2 zticks zprogs zsched 64 95 2 OnFailure z_invoked); [lia| |].
  - vm_compute. lia.
  - intros k ck Hk Hn.
    assert (Hall : forallb (fun k => match ret_at zcfg 2 (zcfg_at k) 2 with None => true | Some _ => false end)
                           (seq 64 31) = true) by (vm_compute; reflexivity).
    assert (E : ret_at zcfg 2 (zcfg_at k) 2 = None).
    { rewrite forallb_forall in Hall. specialize (Hall k). 
      destruct (ret_at zcfg 2 (zcfg_at k) 2); [|reflexivity].
      assert (Hin : In k (seq 64 31)) by (apply in_seq; lia). specialize (Hall Hin). discriminate Hall. }
    unfold zcfg_at in E. rewrite Hn in E. exact E.
Qed.

(* total termination: 96 steps taken, the budget is 6 * 32 = 192 *)
Example z_total : (length zL <= n_ops zprogs * cbound zprogs)%nat.
Proof. apply breaker_total_termination. Qed.

(** ** thread 0 frozen for ever in the middle of its traversal *)
Definition zsched2 : list nat :=
  (flat_map (fun _ => [0; 1; 2]) (seq 0 7) ++ repeat 0 5 ++ repeat 1 2 ++ repeat 2 40 ++ repeat 1 3)%nat.

Example z2_calls :
  call_steps zcfg 2 (steps_of zM zc0 zsched2) [0; 0; 0]%nat =
  [(1, OnSuccess, 7); (2, OnFailure, 7); (1, CanRequest, 2); (2, OnFailure, 28)]%nat.
Proof. vm_compute. reflexivity. Qed.

Example z2_final :
  map (fun th => (t_prog th, t_cur th, t_dead th)) (c_thr (final zM zc0 zsched2)) =
  [([OnSuccess],
    Some (OnSuccess, WHasNext 1 WKSuccess 6 (It (Some 1%nat) 3 (Some 0%nat)) 0 0), false);
   ([], None, false); ([], None, false)].
Proof. vm_compute. reflexivity. Qed.

(* threads 1 and 2 scheduled 2 * 32 times each (thread 0 never again): the theorem applies *)
Definition zsched2' : list nat := (zsched2 ++ repeat 1 64 ++ repeat 2 64)%nat.

Example z2_frozen : forall t th, t <> 0%nat ->
  nth_error (c_thr (final zM zc0 zsched2')) t = Some th ->
  t_prog th = [] /\ t_cur th = None /\ t_dead th = false.
Proof.
  intros t th Hne Hn.
  apply (breaker_frozen_others_finish zcfg 2 zticks zprogs 0%nat zsched2') with (t := t);
    [|exact Hne|exact Hn].
  intros t0 p Hp Hne0.
  destruct t0 as [|[|[|t0]]]; [contradiction| | |destruct t0; discriminate Hp];
    injection Hp as <-; vm_compute; lia.
Qed.

(** ** the ticker jumps past the window: expired cells are removed (3 steps each) *)
Definition zticks3 : list Z := [0; 0; 6; 6; 6; 150; 160; 161].

Example z3_calls :
  call_steps zcfg 2 (steps_of zM (bcfg0 2 zticks3 zprogs) zsched) [0; 0; 0]%nat =
  [(1, OnSuccess, 7); (2, OnFailure, 7); (0, OnSuccess, 22); (0, OnSuccess, 22);
   (1, CanRequest, 2); (2, OnFailure, 14)]%nat.
Proof. vm_compute. reflexivity. Qed.

Example z3_final :
  map w_cells (b_wins (c_sh (final zM (bcfg0 2 zticks3 zprogs) zsched))) =
  [[(1, false); (3, false); (4, false); (2, false); (5, true)]]%nat.
Proof. vm_compute. reflexivity. Qed.

(** ** (D) three concurrent CanRequest callers racing for the trial (the run of
    ConcOneExamples): each of them returns after exactly 5 own steps - winner
    and losers alike; the bound 5 of [C03_can_request_5_steps] is attained *)
Example y_calls :
  call_steps xcfg 2 (skipn 21 yL) [0; 0; 0; 0; 0]%nat =
  [(3, CanRequest, 5); (1, CanRequest, 5); (2, CanRequest, 5); (4, CanRequest, 3); (4, CanRequest, 5)]%nat.
Proof. vm_compute. reflexivity. Qed.
