(** C10, upper bound during concurrency ([count_upper_bound]).

    For ANY number of concurrent threads, any programs, any ticker stream and
    any interleaving: when a thread is about to store and return the count
    (sc, fc) computed by trimAndSum (program counter [WSnapStore]) in a report
    whose ticker reading was t, then
        0 <= sc <= number of success add steps executed so far whose target
                   bucket has timestamp >= t - window   (cut-off of trimAndSum)
    and likewise for failures: nothing is invented, nothing is counted twice,
    nothing older than the window is counted.  Counts stay below 2^63 because
    the programs contain fewer than 2^62 operations ([adds_le_ops]).

    Main theorems: [count_upper_bound] (at the pc that stores/delivers the count),
    [count_upper_bound_window] (sharper: only adds on the buckets archived in the window being
    rolled), [returned_count_upper_bound] (at the ERet event of WSuccess/WFailure),
    [partial_sum_upper_bound] (during the loop), [snapshot_upper_bound] (Count()),
    [recent_adds_spec] / [tick_read_snoc] (the ghost readings spelled out on the log).

    The proof is an invariant over (ghost log, shared state, program counters):
      - K1: every bucket counter equals the number of add steps of that kind
            the log contains for that bucket (no wrap-around);
      - K2: every add step of the log targets an allocated bucket whose
            timestamp is the one recorded in the log (timestamps are immutable);
      - Inv4 (ConcWin): bucket ids of a window are pairwise distinct;
      - Linv: a thread inside trimAndSum at tick t has accumulated at most the
            logged adds on the KEPT buckets among the reservoir cells its
            iterator has already passed (a prefix of the append-only cell list). *)
From Coq Require Import List Arith Bool ZArith Lia.
From Garr Require Import Conc.Conc Pure.F64 Pure.Config Breaker.BreakerModel
  Breaker.ConcBase Breaker.ConcWin Breaker.ConcGhost.
Import ListNotations.

Lemma wrap64_small z : (0 <= z < 2 ^ 63)%Z -> wrap64 z = z.
Proof.
  intros H. unfold wrap64. rewrite Z.mod_small; [ring|].
  change (2 ^ 64)%Z with (2 ^ 63 + 2 ^ 63)%Z. lia.
Qed.

(** * Readings of the ghost log *)

(* the ticker reading of the last window report thread [tid] started *)
Fixpoint last_tick (tid : nat) (A : list (nat * aev)) : option Z :=
  match A with
  | [] => None
  | (u, e) :: r =>
      match last_tick tid r with
      | Some t => Some t
      | None => if Nat.eqb u tid then match e with ATick t => Some t | _ => None end else None
      end
  end.

Lemma last_tick_app tid A B :
  last_tick tid (A ++ B) = match last_tick tid B with Some t => Some t | None => last_tick tid A end.
Proof.
  induction A as [|[u e] A IH]; simpl.
  - destruct (last_tick tid B); reflexivity.
  - rewrite IH. destruct (last_tick tid B); reflexivity.
Qed.

Lemma last_tick_other tid A u evs :
  u <> tid -> last_tick tid (A ++ map (pair u) evs) = last_tick tid A.
Proof.
  intros Hne. rewrite last_tick_app.
  assert (E : last_tick tid (map (pair u) evs) = None).
  { induction evs as [|e r IH]; simpl; [reflexivity|]. rewrite IH.
    destruct (Nat.eqb_spec u tid); [contradiction|reflexivity]. }
  rewrite E. reflexivity.
Qed.

Lemma last_tick_notick tid A u evs :
  (forall t, ~ In (ATick t) evs) -> last_tick tid (A ++ map (pair u) evs) = last_tick tid A.
Proof.
  intros Hno. rewrite last_tick_app.
  assert (E : last_tick tid (map (pair u) evs) = None).
  { induction evs as [|e r IH]; simpl; [reflexivity|]. rewrite IH by (intros t Hin; apply (Hno t); right; exact Hin).
    destruct (Nat.eqb u tid); [|reflexivity]. destruct e as [t|]; [|reflexivity].
    exfalso. apply (Hno t). left. reflexivity. }
  rewrite E. reflexivity.
Qed.

Lemma last_tick_tick tid A t : last_tick tid (A ++ [(tid, ATick t)]) = Some t.
Proof. rewrite last_tick_app. simpl. rewrite Nat.eqb_refl. reflexivity. Qed.

(* generic counting of add entries: outcome [succ], timestamp test [Q], bucket test [P] *)
Definition gadd (succ : bool) (Q : Z -> bool) (P : nat -> bool) (e : nat * aev) : bool :=
  match snd e with
  | AAdd sc b ts => Bool.eqb sc succ && Q ts && P b
  | ATick _ => false
  end.
Definition cntG (succ : bool) (Q : Z -> bool) (P : nat -> bool) (A : list (nat * aev)) : nat :=
  length (filter (gadd succ Q P) A).

Definition anyb (b : nat) : bool := true.
Definition anyts (ts : Z) : bool := true.

(* adds of outcome [succ] on bucket [b] *)
Definition cntT (succ : bool) (b : nat) (A : list (nat * aev)) : nat := cntG succ anyts (Nat.eqb b) A.

Lemma filter_len_mono {X} (f g : X -> bool) l :
  (forall x, In x l -> f x = true -> g x = true) -> length (filter f l) <= length (filter g l).
Proof.
  induction l as [|a l IH]; intros H; simpl; [lia|].
  assert (IH' : length (filter f l) <= length (filter g l)) by (apply IH; intros x Hx; apply H; right; exact Hx).
  destruct (f a) eqn:Ef.
  - rewrite (H a (or_introl eq_refl) Ef). simpl. lia.
  - destruct (g a); simpl; lia.
Qed.

Lemma filter_len_or {X} (f g : X -> bool) l :
  (forall x, In x l -> f x = true -> g x = true -> False) ->
  length (filter (fun x => f x || g x) l) = length (filter f l) + length (filter g l).
Proof.
  induction l as [|a l IH]; intros H; simpl; [reflexivity|].
  assert (IH' := IH (fun x Hx => H x (or_intror Hx))).
  destruct (f a) eqn:Ef, (g a) eqn:Eg; simpl; try lia.
  exfalso. exact (H a (or_introl eq_refl) Ef Eg).
Qed.

Lemma filter_len_pos {X} (f : X -> bool) l : 1 <= length (filter f l) -> exists x, In x l /\ f x = true.
Proof.
  induction l as [|a l IH]; simpl; [lia|]. destruct (f a) eqn:Ef.
  - intros _. exists a. auto.
  - intros H. destruct (IH H) as (x & Hx & Hfx). exists x. auto.
Qed.

Lemma cntG_app succ Q P A B : cntG succ Q P (A ++ B) = cntG succ Q P A + cntG succ Q P B.
Proof. unfold cntG. rewrite filter_app, app_length. reflexivity. Qed.

Lemma cntG_mono succ Q P Q' P' A :
  (forall e, In e A -> gadd succ Q P e = true -> gadd succ Q' P' e = true) ->
  cntG succ Q P A <= cntG succ Q' P' A.
Proof. apply filter_len_mono. Qed.

Lemma cntG_le_nadd succ Q P A : cntG succ Q P A <= nadd A.
Proof.
  apply filter_len_mono. intros [u e] _. unfold gadd, isadd. simpl. destruct e; [discriminate|reflexivity].
Qed.

Lemma cntG_noadd succ Q P u evs :
  (forall sc b ts, ~ In (AAdd sc b ts) evs) -> cntG succ Q P (map (pair u) evs) = 0.
Proof.
  intros Hno. unfold cntG.
  destruct (length (filter (gadd succ Q P) (map (pair u) evs))) eqn:E; [reflexivity|exfalso].
  destruct (filter_len_pos (gadd succ Q P) (map (pair u) evs)) as ([u' e] & Hin & Hg); [lia|].
  apply in_map_iff in Hin. destruct Hin as (e0 & [= <- <-] & Hin).
  unfold gadd in Hg. simpl in Hg. destruct e0 as [t|sc b ts]; [discriminate|]. exact (Hno _ _ _ Hin).
Qed.

Definition memb (b : nat) (l : list nat) : bool := existsb (Nat.eqb b) l.

Lemma memb_In b l : memb b l = true <-> In b l.
Proof.
  unfold memb. rewrite existsb_exists. split.
  - intros (x & Hx & E). apply Nat.eqb_eq in E. subst. exact Hx.
  - intros H. exists b. split; [exact H | apply Nat.eqb_refl].
Qed.

Lemma In_firstn {X} (b : X) n l : In b (firstn n l) <-> exists j, j < n /\ nth_error l j = Some b.
Proof.
  revert l; induction n as [|n IH]; intros l.
  - simpl. split; [tauto | intros (j & Hj & _); lia].
  - destruct l as [|a l]; simpl.
    + split; [tauto | intros (j & _ & Hj); destruct j; discriminate].
    + rewrite IH. split.
      * intros [->|(j & Hj & Hn)]; [exists 0; split; [lia|reflexivity] | exists (S j); split; [lia|exact Hn]].
      * intros ([|j] & Hj & Hn); simpl in Hn; [left; congruence | right; exists j; split; [lia|exact Hn]].
Qed.

Section Upper.
Variable cfg : cb_config.
Variable nl : nat.
Notation M := (breaker cfg nl).

(* trimAndSum(t) removes the buckets with timestamp < cut t and sums the others *)
Definition cut (t : Z) : Z := wrap64 (t - window cfg).
Definition recent (t : Z) (ts : Z) : bool := (cut t <=? ts)%Z.

(** * The invariant *)

Definition K1 (A : list (nat * aev)) (s : bshared) : Prop :=
  forall b bk, nth1 (b_buckets s) b = Some bk ->
    bk_s bk = Z.of_nat (cntT true b A) /\ bk_f bk = Z.of_nat (cntT false b A).

Definition K2 (A : list (nat * aev)) (s : bshared) : Prop :=
  forall e sc b ts, In e A -> snd e = AAdd sc b ts ->
    exists bk, nth1 (b_buckets s) b = Some bk /\ bk_ts bk = ts.

Definition nowrap (A : list (nat * aev)) : Prop := (Z.of_nat (nadd A) < 2 ^ 63)%Z.

Definition ids (x : swindow) : list nat := map fst (w_cells x).
Definition lim (i : it) (l : list nat) : nat :=
  match i_cursor i with Some c => c | None => length l end.
Definition itok (i : it) (l : list nat) : Prop :=
  match i_cursor i with Some c => nth_error l c = Some (i_val i) | None => True end.

(* logged adds of outcome [succ] on kept buckets among the first [n] reservoir cells *)
Definition cntW (succ : bool) (t : Z) (n : nat) (l : list nat) (A : list (nat * aev)) : nat :=
  cntG succ (recent t) (fun b => memb b (firstn n l)) A.

Definition bnd (A : list (nat * aev)) (t : Z) (ns nf : nat) (l : list nat) (sc fc : Z) : Prop :=
  (0 <= sc <= Z.of_nat (cntW true t ns l A))%Z /\ (0 <= fc <= Z.of_nat (cntW false t nf l A))%Z.

Definition kept (s : bshared) (t : Z) (b : nat) : Prop :=
  exists bk, nth1 (b_buckets s) b = Some bk /\ (cut t <= bk_ts bk)%Z.

Definition Linv (A : list (nat * aev)) (s : bshared) (tid : nat) (l : bpc) : Prop :=
  match l with
  | WCur _ _ _ t | WAddNext _ _ _ _ _ t | WCasCur _ _ _ _ t | WOfferOld _ _ _ t | WIter _ _ t =>
      last_tick tid A = Some t
  | WHasNext w _ t i sc fc | WNext w _ t i sc fc | WRemove w _ t i sc fc =>
      last_tick tid A = Some t /\
      exists x, nth1 (b_wins s) w = Some x /\ itok i (ids x) /\
                bnd A t (lim i (ids x)) (lim i (ids x)) (ids x) sc fc
  | WSumS w _ t i sc fc b =>
      last_tick tid A = Some t /\
      exists x c, nth1 (b_wins s) w = Some x /\ itok i (ids x) /\
                  nth_error (ids x) c = Some b /\ c < lim i (ids x) /\ kept s t b /\
                  bnd A t c c (ids x) sc fc
  | WSumF w _ t i sc fc b =>
      last_tick tid A = Some t /\
      exists x c, nth1 (b_wins s) w = Some x /\ itok i (ids x) /\
                  nth_error (ids x) c = Some b /\ c < lim i (ids x) /\ kept s t b /\
                  bnd A t (S c) c (ids x) sc fc
  | WSnapStore w _ sc fc =>
      exists t x, last_tick tid A = Some t /\ nth1 (b_wins s) w = Some x /\
                  bnd A t (length (ids x)) (length (ids x)) (ids x) sc fc
  | _ => True
  end.

(* every snapshot is a count some roll computed: at most the adds logged so far *)
Definition KS (A : list (nat * aev)) (s : bshared) : Prop :=
  forall w x, nth1 (b_wins s) w = Some x ->
    (0 <= fst (w_snap x) <= Z.of_nat (cntG true anyts anyb A))%Z /\
    (0 <= snd (w_snap x) <= Z.of_nat (cntG false anyts anyb A))%Z.

Definition J (A : list (nat * aev)) (s : bshared) (ps : list bpc) : Prop :=
  K1 A s /\ K2 A s /\ Inv4 s ps /\ (forall tid l, nth_error ps tid = Some l -> Linv A s tid l) /\ KS A s.

Definition JJ (A : list (nat * aev)) (s : bshared) (ps : list bpc) : Prop := nowrap A -> J A s ps.

(** * K1, K2 *)

Lemma cntT_pos succ b A : 1 <= cntT succ b A -> exists e ts, In e A /\ snd e = AAdd succ b ts.
Proof.
  intros H. destruct (filter_len_pos _ _ H) as ([u e] & Hin & Hg).
  unfold gadd in Hg. simpl in Hg. destruct e as [t|sc b' ts]; [discriminate|].
  apply andb_prop in Hg. destruct Hg as [Hg Hb]. apply andb_prop in Hg. destruct Hg as [Hsc _].
  apply Nat.eqb_eq in Hb. apply eqb_prop in Hsc. subst. exists (u, AAdd succ b' ts), ts. auto.
Qed.

Lemma cntT_single succ b u sc b0 ts :
  cntT succ b [(u, AAdd sc b0 ts)] = if Bool.eqb sc succ && Nat.eqb b b0 then 1 else 0.
Proof. unfold cntT, cntG, gadd. simpl. rewrite andb_true_r. destruct (Bool.eqb sc succ && Nat.eqb b b0); reflexivity. Qed.

Lemma K_step A s l l' s' u :
  K1 A s -> K2 A s -> pstep cfg nl l s = Some (l', s') ->
  nowrap (A ++ map (pair u) (aev_of l s)) ->
  K1 (A ++ map (pair u) (aev_of l s)) s' /\ K2 (A ++ map (pair u) (aev_of l s)) s'.
Proof.
  intros H1 H2 Hp Hnw.
  destruct (step_buckets _ _ _ _ _ _ Hp) as [[E Hno]|[(ts0 & E & Hno)|(sc & b0 & bk0 & Hb0 & Ha & E)]].
  - (* buckets unchanged *)
    split.
    + intros b bk Hb. rewrite E in Hb. unfold cntT. rewrite !cntG_app, !(cntG_noadd _ _ _ _ _ Hno), !Nat.add_0_r.
      apply H1. exact Hb.
    + intros e sc b ts Hin He. rewrite E. apply in_app_or in Hin. destruct Hin as [Hin|Hin]; [eapply H2; eauto|].
      apply in_map_iff in Hin. destruct Hin as (e0 & <- & Hin). simpl in He. subst e0. destruct (Hno _ _ _ Hin).
  - (* a fresh zero bucket *)
    split.
    + intros b bk Hb. rewrite E in Hb. unfold cntT. rewrite !cntG_app, !(cntG_noadd _ _ _ _ _ Hno), !Nat.add_0_r.
      destruct (nth1_app_inv _ _ _ _ Hb) as [Hb'|[-> ->]]; [apply H1; exact Hb'|].
      assert (Hz : forall succ, cntT succ (S (length (b_buckets s))) A = 0).
      { intros succ. destruct (cntT succ (S (length (b_buckets s))) A) eqn:Ec; [reflexivity|exfalso].
        destruct (cntT_pos succ (S (length (b_buckets s))) A) as (e & ts & Hin & He); [lia|].
        destruct (H2 _ _ _ _ Hin He) as (bk & Hbk & _). apply nth1_le in Hbk. lia. }
      fold (cntT true (S (length (b_buckets s))) A). fold (cntT false (S (length (b_buckets s))) A).
      rewrite !Hz. split; reflexivity.
    + intros e sc b ts Hin He. rewrite E. apply in_app_or in Hin. destruct Hin as [Hin|Hin].
      * destruct (H2 _ _ _ _ Hin He) as (bk & Hbk & Hts). exists bk. split; [apply nth1_app; exact Hbk | exact Hts].
      * apply in_map_iff in Hin. destruct Hin as (e0 & <- & Hin). simpl in He. subst e0. destruct (Hno _ _ _ Hin).
  - (* an add *)
    rewrite Ha in *. cbn [map] in *.
    split.
    + intros b bk Hb. rewrite E, nth1_upd1 in Hb. unfold cntT. rewrite !cntG_app.
      fold (cntT true b A). fold (cntT false b A).
      fold (cntT true b [(u, AAdd sc b0 (bk_ts bk0))]). fold (cntT false b [(u, AAdd sc b0 (bk_ts bk0))]).
      rewrite !cntT_single.
      destruct (Nat.eqb_spec b0 b) as [->|Hne].
      * rewrite Hb0 in Hb. injection Hb as <-. rewrite Nat.eqb_refl, !andb_true_r.
        destruct (H1 _ _ Hb0) as [Es Ef].
        assert (Hle : forall succ, (Z.of_nat (cntT succ b A) + 1 <= Z.of_nat (nadd (A ++ [(u, AAdd sc b (bk_ts bk0))])))%Z).
        { intros succ. rewrite nadd_app. pose proof (cntG_le_nadd succ anyts (Nat.eqb b) A) as Hc.
          unfold cntT. unfold nadd at 2. simpl. lia. }
        unfold nowrap in Hnw.
        destruct sc; simpl.
        -- rewrite Es, Ef. rewrite wrap64_small by (specialize (Hle true); lia). split; lia.
        -- rewrite Es, Ef. rewrite wrap64_small by (specialize (Hle false); lia). split; lia.
      * replace (Nat.eqb b b0) with false by (symmetry; apply Nat.eqb_neq; congruence).
        rewrite !andb_false_r, !Nat.add_0_r. apply H1. exact Hb.
    + intros e sc' b ts Hin He. rewrite E, nth1_upd1. apply in_app_or in Hin. destruct Hin as [Hin|Hin].
      * destruct (H2 _ _ _ _ Hin He) as (bk & Hbk & Hts).
        destruct (Nat.eqb_spec b0 b) as [->|Hne].
        -- rewrite Hb0. rewrite Hbk in Hb0. injection Hb0 as <-. eexists; split; [reflexivity|].
           destruct sc; simpl; exact Hts.
        -- exists bk. auto.
      * destruct Hin as [<-|[]]. simpl in He. injection He as <- <- <-.
        rewrite Nat.eqb_refl, Hb0. eexists; split; [reflexivity|]. destruct sc; reflexivity.
Qed.

(** * Stability of [Linv] under steps of the environment *)

Lemma itok_ext i l extra : itok i l -> itok i (l ++ extra).
Proof.
  unfold itok. destruct (i_cursor i) as [c|]; [|auto]. intros H.
  rewrite nth_error_app1; [exact H|]. apply nth_error_Some. congruence.
Qed.

Lemma lim_ext i l extra : lim i l <= lim i (l ++ extra).
Proof. unfold lim. destruct (i_cursor i); [lia|]. rewrite app_length. lia. Qed.

Lemma cntW_mono succ t n n' l extra A B :
  n <= n' -> cntW succ t n l A <= cntW succ t n' (l ++ extra) (A ++ B).
Proof.
  intros Hn. unfold cntW. rewrite cntG_app.
  assert (cntG succ (recent t) (fun b => memb b (firstn n l)) A <=
          cntG succ (recent t) (fun b => memb b (firstn n' (l ++ extra))) A); [|lia].
  apply cntG_mono. intros [u e] _. unfold gadd. simpl. destruct e as [|sc b ts]; [auto|].
  intros H. apply andb_prop in H. destruct H as [H Hm]. rewrite H. simpl.
  apply memb_In. apply memb_In in Hm. apply In_firstn in Hm. destruct Hm as (j & Hj & Hnth).
  apply In_firstn. exists j. split; [lia|]. rewrite nth_error_app1; [exact Hnth|].
  apply nth_error_Some. congruence.
Qed.

Lemma cntW_mono0 succ t n n' l A : n <= n' -> cntW succ t n l A <= cntW succ t n' l A.
Proof.
  intros Hn. pose proof (cntW_mono succ t n n' l [] A [] Hn) as H. rewrite !app_nil_r in H. exact H.
Qed.

Lemma cntW_any succ t n l A : cntW succ t n l A <= cntG succ (recent t) anyb A.
Proof.
  apply cntG_mono. intros [u e] _. unfold gadd. simpl. destruct e as [|sc b ts]; [auto|].
  intros H. apply andb_prop in H. destruct H as [H _]. rewrite H. reflexivity.
Qed.

Lemma bnd_mono A B t ns nf ns' nf' l extra sc fc :
  ns <= ns' -> nf <= nf' -> bnd A t ns nf l sc fc -> bnd (A ++ B) t ns' nf' (l ++ extra) sc fc.
Proof.
  intros H1 H2 [Hs Hf]. unfold bnd.
  pose proof (cntW_mono true t ns ns' l extra A B H1). pose proof (cntW_mono false t nf nf' l extra A B H2).
  split; lia.
Qed.

Lemma Linv_ext A B s s' tid l :
  last_tick tid (A ++ B) = last_tick tid A ->
  (forall w x, nth1 (b_wins s) w = Some x ->
     exists x' extra, nth1 (b_wins s') w = Some x' /\ ids x' = ids x ++ extra) ->
  (forall b bk, nth1 (b_buckets s) b = Some bk ->
     exists bk', nth1 (b_buckets s') b = Some bk' /\ bk_ts bk' = bk_ts bk) ->
  Linv A s tid l -> Linv (A ++ B) s' tid l.
Proof.
  intros Hlt Hw Hb.
  assert (Hkept : forall t b, kept s t b -> kept s' t b).
  { intros t b (bk & Hbk & Hts). destruct (Hb _ _ Hbk) as (bk' & Hbk' & E). exists bk'. split; [exact Hbk'|lia]. }
  destruct l; simpl; try exact (fun H => H); rewrite ?Hlt; try exact (fun H => H).
  - (* WHasNext *)
    intros (Ht & x & Hx & Hi & Hbd). split; [exact Ht|].
    destruct (Hw _ _ Hx) as (x' & extra & Hx' & E). exists x'. rewrite E.
    split; [exact Hx'|]. split; [apply itok_ext; exact Hi|].
    eapply bnd_mono; [apply lim_ext | apply lim_ext | exact Hbd].
  - (* WNext *)
    intros (Ht & x & Hx & Hi & Hbd). split; [exact Ht|].
    destruct (Hw _ _ Hx) as (x' & extra & Hx' & E). exists x'. rewrite E.
    split; [exact Hx'|]. split; [apply itok_ext; exact Hi|].
    eapply bnd_mono; [apply lim_ext | apply lim_ext | exact Hbd].
  - (* WRemove *)
    intros (Ht & x & Hx & Hi & Hbd). split; [exact Ht|].
    destruct (Hw _ _ Hx) as (x' & extra & Hx' & E). exists x'. rewrite E.
    split; [exact Hx'|]. split; [apply itok_ext; exact Hi|].
    eapply bnd_mono; [apply lim_ext | apply lim_ext | exact Hbd].
  - (* WSumS *)
    intros (Ht & x & c & Hx & Hi & Hc & Hlim & Hk & Hbd). split; [exact Ht|].
    destruct (Hw _ _ Hx) as (x' & extra & Hx' & E). exists x', c. rewrite E.
    split; [exact Hx'|]. split; [apply itok_ext; exact Hi|].
    split; [rewrite nth_error_app1; [exact Hc | apply nth_error_Some; congruence]|].
    split; [pose proof (lim_ext i (ids x) extra); lia|]. split; [apply Hkept; exact Hk|].
    eapply bnd_mono; [apply Nat.le_refl | apply Nat.le_refl | exact Hbd].
  - (* WSumF *)
    intros (Ht & x & c & Hx & Hi & Hc & Hlim & Hk & Hbd). split; [exact Ht|].
    destruct (Hw _ _ Hx) as (x' & extra & Hx' & E). exists x', c. rewrite E.
    split; [exact Hx'|]. split; [apply itok_ext; exact Hi|].
    split; [rewrite nth_error_app1; [exact Hc | apply nth_error_Some; congruence]|].
    split; [pose proof (lim_ext i (ids x) extra); lia|]. split; [apply Hkept; exact Hk|].
    eapply bnd_mono; [apply Nat.le_refl | apply Nat.le_refl | exact Hbd].
  - (* WSnapStore *)
    intros (t & x & Ht & Hx & Hbd). destruct (Hw _ _ Hx) as (x' & extra & Hx' & E).
    exists t, x'. rewrite E. split; [exact Ht|]. split; [exact Hx'|].
    eapply bnd_mono; [| |exact Hbd]; rewrite app_length; lia.
Qed.

(** * The stepping thread *)

Lemma first_live_spec cells : forall from idx c b,
  first_live cells from idx = Some (c, b) ->
  from <= c /\ idx <= c /\ nth_error cells (c - idx) = Some (b, true).
Proof.
  induction cells as [|[b0 lv] r IH]; intros from idx c b H; simpl in H; [discriminate|].
  destruct (lv && Nat.leb from idx) eqn:E.
  - injection H as <- <-. apply andb_prop in E. destruct E as [-> E]. apply Nat.leb_le in E.
    rewrite Nat.sub_diag. simpl. auto.
  - destruct (IH _ _ _ _ H) as (H1 & H2 & H3). split; [exact H1|]. split; [lia|].
    replace (c - idx) with (S (c - S idx)) by lia. exact H3.
Qed.

Lemma iter_at_itok cells from last : itok (iter_at cells from last) (map fst cells).
Proof.
  unfold iter_at, itok. destruct (first_live cells from 0) as [[c b]|] eqn:E; simpl; [|exact I].
  destruct (first_live_spec _ _ _ _ _ E) as (_ & _ & H). rewrite Nat.sub_0_r in H.
  rewrite nth_error_map, H. reflexivity.
Qed.

Lemma iter_at_lim cells from last :
  from <= length cells -> from <= lim (iter_at cells from last) (map fst cells).
Proof.
  intros Hle. unfold iter_at, lim. destruct (first_live cells from 0) as [[c b]|] eqn:E; simpl.
  - destruct (first_live_spec _ _ _ _ _ E) as (H & _). exact H.
  - rewrite map_length. exact Hle.
Qed.

Lemma bnd_mono0 A t ns nf ns' nf' l sc fc :
  ns <= ns' -> nf <= nf' -> bnd A t ns nf l sc fc -> bnd A t ns' nf' l sc fc.
Proof.
  intros H1 H2 H. pose proof (bnd_mono A [] t ns nf ns' nf' l [] sc fc H1 H2 H) as H'.
  rewrite !app_nil_r in H'. exact H'.
Qed.

Lemma firstn_S_nth {X} (l : list X) c b : nth_error l c = Some b -> firstn (S c) l = firstn c l ++ [b].
Proof.
  revert c; induction l as [|a l IH]; intros [|c] H; simpl in *; try discriminate.
  - injection H as ->. reflexivity.
  - rewrite <- IH by exact H. reflexivity.
Qed.

Lemma gadd_or succ Q P R e :
  gadd succ Q (fun b => P b || R b) e = gadd succ Q P e || gadd succ Q R e.
Proof.
  unfold gadd. destruct (snd e) as [|sc b ts]; [reflexivity|].
  destruct (Bool.eqb sc succ && Q ts), (P b), (R b); reflexivity.
Qed.

(* visiting the kept bucket at cell [c] adds exactly its counter to the logged adds
   on the kept buckets among the first [c] cells *)
Lemma sum_step A s x t c b bk succ :
  K1 A s -> K2 A s -> NoDup (ids x) -> nth_error (ids x) c = Some b -> kept s t b ->
  nth1 (b_buckets s) b = Some bk ->
  Z.of_nat (cntW succ t (S c) (ids x) A) =
  (Z.of_nat (cntW succ t c (ids x) A) + (if succ then bk_s bk else bk_f bk))%Z.
Proof.
  intros H1 H2 Hnd Hc (bk' & Hbk' & Hts) Hbk. rewrite Hbk in Hbk'. injection Hbk' as <-.
  assert (Ev : (if succ then bk_s bk else bk_f bk) = Z.of_nat (cntT succ b A)).
  { destruct (H1 _ _ Hbk) as [Es Ef]. destruct succ; assumption. }
  rewrite Ev, <- Nat2Z.inj_add. f_equal.
  unfold cntW, cntT, cntG. rewrite (firstn_S_nth _ _ _ Hc).
  rewrite (filter_ext (gadd succ (recent t) (fun b' => memb b' (firstn c (ids x) ++ [b])))
                      (fun e => gadd succ (recent t) (fun b' => memb b' (firstn c (ids x))) e ||
                                gadd succ (recent t) (fun b' => Nat.eqb b' b) e)).
  2:{ intros e. rewrite <- gadd_or. unfold gadd. destruct (snd e) as [|sc b' ts]; [reflexivity|].
      f_equal. unfold memb. rewrite existsb_app. simpl. rewrite orb_false_r. reflexivity. }
  rewrite filter_len_or.
  - f_equal. f_equal. apply filter_ext_in. intros [u e] Hin. unfold gadd. simpl.
    destruct e as [|sc b' ts]; [reflexivity|].
    destruct (Nat.eqb_spec b' b) as [->|Hne].
    + rewrite Nat.eqb_refl. destruct (H2 _ _ _ _ Hin eq_refl) as (bk2 & Hbk2 & Hts2).
      rewrite Hbk in Hbk2. injection Hbk2 as <-.
      unfold recent, anyts. replace (cut t <=? ts)%Z with true; [reflexivity|].
      symmetry. apply Z.leb_le. lia.
    + replace (Nat.eqb b b') with false by (symmetry; apply Nat.eqb_neq; congruence).
      rewrite !andb_false_r. reflexivity.
  - intros [u e] _ Hp Hq. unfold gadd in Hp, Hq. simpl in Hp, Hq. destruct e as [|sc b' ts]; [discriminate|].
    apply andb_prop in Hp. destruct Hp as [_ Hp]. apply andb_prop in Hq. destruct Hq as [_ Hq].
    apply Nat.eqb_eq in Hq. subst b'. apply memb_In, In_firstn in Hp. destruct Hp as (j & Hj & Hnth).
    assert (j = c); [|lia].
    apply (proj1 (NoDup_nth_error (ids x)) Hnd); [apply nth_error_Some; congruence | congruence].
Qed.

Lemma Linv_own A s ps tid l l' s' :
  J A s ps -> Linv A s tid l -> pstep cfg nl l s = Some (l', s') ->
  nowrap (A ++ map (pair tid) (aev_of l s)) ->
  Linv (A ++ map (pair tid) (aev_of l s)) s' tid l'.
Proof.
  intros (H1 & H2 & H4 & _ & _) HL Hp Hnw.
  destruct l; unfold_step Hp; repeat break1 Hp; try discriminate Hp;
  injection Hp as <- <-; try exact I; cbn [aev_of] in *; rewrite ?app_nil_r in *.
  - (* WTick, empty ticker *) cbn [Linv map]. rewrite Heql. apply last_tick_tick.
  - (* WTick *) cbn [Linv map]. rewrite Heql. apply last_tick_tick.
  - (* WCur -> WAddNext *) exact HL.
  - (* WAddNext -> WCasCur *)
    cbn [Linv] in *. rewrite last_tick_notick; [exact HL|].
    intros t0 Hin. destruct (nth1 (b_buckets s) nb); simpl in Hin; intuition discriminate.
  - cbn [Linv] in *. rewrite last_tick_notick; [exact HL|].
    intros t0 Hin. destruct (nth1 (b_buckets s) nb); simpl in Hin; intuition discriminate.
  - (* WCasCur -> WOfferOld *) exact HL.
  - (* WOfferOld -> WIter *) exact HL.
  - (* WIter -> WHasNext *)
    cbn [Linv] in *. split; [exact HL|]. exists s0. split; [assumption|].
    split; [apply iter_at_itok|]. unfold bnd. split; lia.
  - (* WHasNext -> WNext *) exact HL.
  - (* WHasNext -> WSnapStore *)
    cbn [Linv] in *. destruct HL as (Ht & x & Hx & Hi & Hbd). exists t, x. split; [exact Ht|].
    split; [exact Hx|]. unfold lim in Hbd. rewrite Heqo in Hbd. exact Hbd.
  - (* WNext -> WRemove *)
    cbn [Linv] in *. destruct HL as (Ht & x & Hx & Hi & Hbd). dedup. split; [exact Ht|].
    exists x. split; [assumption|]. split; [apply iter_at_itok|].
    unfold itok in Hi. rewrite Heqo0 in Hi.
    assert (Hn : S n <= length (w_cells x)).
    { assert (n < length (ids x)) by (apply nth_error_Some; congruence). unfold ids in *. rewrite map_length in *. lia. }
    pose proof (iter_at_lim (w_cells x) (S n) (Some n) Hn) as Hl. fold (ids x) in Hl.
    unfold lim at 1 2 in Hbd. rewrite Heqo0 in Hbd.
    eapply bnd_mono0; [| |exact Hbd]; lia.
  - (* WNext -> WSumS *)
    cbn [Linv] in *. destruct HL as (Ht & x & Hx & Hi & Hbd). dedup. split; [exact Ht|].
    unfold itok in Hi. rewrite Heqo0 in Hi.
    assert (Hn : S n <= length (w_cells x)).
    { assert (n < length (ids x)) by (apply nth_error_Some; congruence). unfold ids in *. rewrite map_length in *. lia. }
    pose proof (iter_at_lim (w_cells x) (S n) (Some n) Hn) as Hl. fold (ids x) in Hl.
    unfold lim at 1 2 in Hbd. rewrite Heqo0 in Hbd.
    exists x, n. split; [assumption|]. split; [apply iter_at_itok|]. split; [exact Hi|].
    split; [lia|]. split; [|exact Hbd].
    eexists. split; [eassumption|]. eqb_clean. unfold cut. assumption.
  - (* WNext, exhausted *) exact HL.
  - (* WRemove, kill *)
    cbn [Linv] in *. destruct HL as (Ht & x & Hx & Hi & Hbd). dedup. split; [exact Ht|].
    eexists. cbn [b_wins]. split; [rewrite nth1_upd1, Nat.eqb_refl, Hx; reflexivity|].
    unfold ids. cbn [w_cells]. rewrite map_fst_kill. split; [exact Hi | exact Hbd].
  - (* WRemove, nothing to kill *)
    cbn [Linv] in *. destruct HL as (Ht & x & Hx & Hi & Hbd). dedup. split; [exact Ht|].
    eexists. cbn [b_wins]. split; [rewrite nth1_upd1, Nat.eqb_refl, Hx; reflexivity|].
    unfold ids. cbn [w_cells]. split; [exact Hi | exact Hbd].
  - (* WSumS -> WSumF *)
    cbn [Linv] in *. destruct HL as (Ht & x & c & Hx & Hi & Hc & Hlim & Hk & Hs & Hf). split; [exact Ht|].
    exists x, c. repeat (split; [assumption|]).
    assert (Hnd : NoDup (ids x)).
    { pose proof (I4_win_nodup _ _ H4 _ _ Hx) as Hn. inversion Hn; assumption. }
    pose proof (sum_step A s x t c b b0 true H1 H2 Hnd Hc Hk Heqo) as E. cbv iota in E.
    pose proof (cntG_le_nadd true (recent t) (fun b' => memb b' (firstn (S c) (ids x))) A) as Hle.
    fold (cntW true t (S c) (ids x) A) in Hle. unfold nowrap in Hnw.
    destruct (H1 _ _ Heqo) as [Es _].
    rewrite wrap64_small by lia. split; [lia | exact Hf].
  - (* WSumF -> WHasNext *)
    cbn [Linv] in *. destruct HL as (Ht & x & c & Hx & Hi & Hc & Hlim & Hk & Hs & Hf). split; [exact Ht|].
    exists x. repeat (split; [assumption|]).
    assert (Hnd : NoDup (ids x)).
    { pose proof (I4_win_nodup _ _ H4 _ _ Hx) as Hn. inversion Hn; assumption. }
    pose proof (sum_step A s x t c b b0 false H1 H2 Hnd Hc Hk Heqo) as E. cbv iota in E.
    pose proof (cntG_le_nadd false (recent t) (fun b' => memb b' (firstn (S c) (ids x))) A) as Hle.
    fold (cntW false t (S c) (ids x) A) in Hle. unfold nowrap in Hnw.
    destruct (H1 _ _ Heqo) as [_ Ef].
    rewrite wrap64_small by lia.
    apply (bnd_mono0 A t (S c) (S c)); [lia | lia |]. split; [exact Hs | lia].
Qed.

(** * Preservation and initialisation *)

Lemma Linv_same A s tid l0 l : same l0 l -> Linv A s tid l0 -> Linv A s tid l.
Proof. intros [->|[-> [o ->]]] H; [exact H | exact I]. Qed.

Lemma cntG_anyts succ t A : cntG succ (recent t) anyb A <= cntG succ anyts anyb A.
Proof.
  apply cntG_mono. intros [u e] _. unfold gadd. simpl. destruct e as [|sc b ts]; [auto|].
  unfold anyts, anyb. rewrite !andb_true_r. intros H. apply andb_prop in H. tauto.
Qed.

Lemma JJ_step A s ps t l0 l l' s' :
  JJ A s ps -> nth_error ps t = Some l0 -> same l0 l -> pstep cfg nl l s = Some (l', s') ->
  JJ (A ++ map (pair t) (aev_of l s)) s' (upd ps t l').
Proof.
  intros HJJ Hn Hsame Hp Hnw.
  assert (Hnw0 : nowrap A).
  { unfold nowrap in *. rewrite nadd_app in Hnw. lia. }
  pose proof (HJJ Hnw0) as HJ. destruct HJ as (H1 & H2 & H4 & HL & HS).
  destruct (K_step _ _ _ _ _ t H1 H2 Hp Hnw) as [H1' H2'].
  assert (HLt : Linv A s t l) by (eapply Linv_same; [exact Hsame | apply HL; exact Hn]).
  split; [exact H1'|]. split; [exact H2'|]. split; [eapply Inv4_step; eauto|]. split.
  - intros tid l1 Hnth. rewrite nth_error_upd in Hnth.
    destruct (Nat.eqb_spec t tid) as [->|Hne].
    + rewrite Hn in Hnth. injection Hnth as <-.
      eapply Linv_own; [exact (HJJ Hnw0) | exact HLt | exact Hp | exact Hnw].
    + apply Linv_ext with (s := s).
      * apply last_tick_other. exact Hne.
      * intros w x Hx. exact (step_wins _ _ _ _ _ _ Hp _ _ Hx).
      * intros b bk Hb. exact (step_bucket_ts _ _ _ _ _ _ Hp _ _ Hb).
      * apply HL. exact Hnth.
  - intros w x' Hx'. rewrite !cntG_app.
    destruct (step_snap _ _ _ _ _ _ Hp _ _ Hx') as [(x & Hx & E)|[E|(w0 & k & sc & fc & -> & E)]]; rewrite E.
    + destruct (HS _ _ Hx) as [Hs Hf]. split; lia.
    + cbn [fst snd]. split; lia.
    + cbn [Linv] in HLt. destruct HLt as (t0 & x0 & _ & _ & Hs & Hf). cbn [fst snd].
      pose proof (cntG_anyts true t0 A). pose proof (cntG_anyts false t0 A).
      pose proof (cntW_any true t0 (length (ids x0)) (ids x0) A).
      pose proof (cntW_any false t0 (length (ids x0)) (ids x0) A). split; lia.
Qed.

Lemma nth_idle_eq {X} (progs : list X) t l : nth_error (map (fun _ => idle) progs) t = Some l -> l = idle.
Proof.
  revert t; induction progs as [|p r IH]; intros [|t] H; simpl in H; try discriminate; [congruence | eauto].
Qed.

Lemma JJ_init ticks (progs : list (list bop)) : JJ [] (binit nl ticks) (map (fun _ => idle) progs).
Proof.
  intros _. split; [|split; [|split; [|split]]].
  - intros b bk Hb. unfold binit, take_tick in Hb.
    destruct ticks as [|t1 [|t2 r]]; simpl in Hb; destruct b as [|[|b]]; try discriminate Hb;
      try (destruct b; discriminate Hb); injection Hb as <-; split; reflexivity.
  - intros e sc b ts [].
  - apply Inv4_init.
  - intros tid l Hnth. apply nth_idle_eq in Hnth. subst l. exact I.
  - intros w x Hx. unfold binit, take_tick in Hx.
    destruct ticks as [|t1 [|t2 r]]; simpl in Hx; destruct w as [|[|w]]; try discriminate Hx;
      try (destruct w; discriminate Hx); injection Hx as <-; simpl; split; lia.
Qed.

Theorem JJ_reach ticks progs sched :
  let c := final M (bcfg0 nl ticks progs) sched in
  JJ (alog (steps_of M (bcfg0 nl ticks progs) sched)) (c_sh c) (pcs c).
Proof.
  apply (log_invariant cfg nl JJ).
  - apply JJ_init.
  - intros A s ps t l0 l l' s' HI Hn Hs Hp. eapply JJ_step; eauto.
Qed.

Lemma J_reach ticks progs sched :
  (Z.of_nat (length (concat progs)) < 2 ^ 62)%Z ->
  let c := final M (bcfg0 nl ticks progs) sched in
  J (alog (steps_of M (bcfg0 nl ticks progs) sched)) (c_sh c) (pcs c).
Proof.
  intros Hlen. apply JJ_reach. unfold nowrap.
  pose proof (adds_le_ops cfg nl ticks progs sched). lia.
Qed.

(** * The theorem *)

(* number of add steps with outcome [succ] in the execution log [L] whose target
   bucket has a timestamp inside the window of a roll that read tick [t]:
   timestamp >= t - window (wrapped like the Go code) *)
Definition recent_adds (succ : bool) (t : Z) (L : list (bconfig * nat)) : nat :=
  cntG succ (recent t) anyb (alog L).

(* the same, restricted to the buckets [idl] *)
Definition recent_adds_on (succ : bool) (t : Z) (idl : list nat) (L : list (bconfig * nat)) : nat :=
  cntG succ (recent t) (fun b => memb b idl) (alog L).

Lemma recent_adds_on_le succ t idl L : recent_adds_on succ t idl L <= recent_adds succ t L.
Proof.
  apply cntG_mono. intros [u e] _. unfold gadd. simpl. destruct e as [|sc b ts]; [auto|].
  intros H. apply andb_prop in H. destruct H as [H _]. rewrite H. reflexivity.
Qed.

(* the tick read by the last [WTick] step of thread [tid] in the log [L] *)
Definition tick_read (tid : nat) (L : list (bconfig * nat)) : option Z := last_tick tid (alog L).

(** the count a roll on window [w] is about to store and deliver is bounded by the recent adds
    on the buckets archived in THAT window's reservoir (its cells, in the configuration the
    step starts from): events of other windows, or of buckets not (yet) archived, are never
    counted *)
Theorem count_upper_bound_window : forall ticks progs sched j cj tid w k sc fc,
  (Z.of_nat (length (concat progs)) < 2 ^ 62)%Z ->
  let log := steps_of M (bcfg0 nl ticks progs) sched in
  nth_error log j = Some (cj, tid) ->
  nth_error (pcs cj) tid = Some (WSnapStore w k sc fc) ->
  exists t x, tick_read tid (firstn j log) = Some t /\ nth1 (b_wins (c_sh cj)) w = Some x /\
    (0 <= sc <= Z.of_nat (recent_adds_on true t (map fst (w_cells x)) (firstn j log)))%Z /\
    (0 <= fc <= Z.of_nat (recent_adds_on false t (map fst (w_cells x)) (firstn j log)))%Z.
Proof.
  intros ticks progs sched j cj tid w k sc fc Hlen log Hj Hpc.
  destruct (steps_of_prefix M _ _ _ _ _ Hj) as (s1 & Hpre & Hc).
  fold log in Hpre. rewrite Hpre.
  pose proof (J_reach ticks progs s1 Hlen) as HJ. cbv zeta in HJ. rewrite <- Hc in HJ.
  destruct HJ as (_ & _ & _ & HL & _). pose proof (HL _ _ Hpc) as H. cbn [Linv] in H.
  destruct H as (t & x & Ht & Hx & Hs & Hf). exists t, x. split; [exact Ht|]. split; [exact Hx|].
  unfold cntW in Hs, Hf. rewrite firstn_all in Hs, Hf. exact (conj Hs Hf).
Qed.

Theorem count_upper_bound : forall ticks progs sched j cj tid w k sc fc,
  (Z.of_nat (length (concat progs)) < 2 ^ 62)%Z ->
  let log := steps_of M (bcfg0 nl ticks progs) sched in
  nth_error log j = Some (cj, tid) ->
  nth_error (pcs cj) tid = Some (WSnapStore w k sc fc) ->
  exists t, tick_read tid (firstn j log) = Some t /\
    (0 <= sc <= Z.of_nat (recent_adds true t (firstn j log)))%Z /\
    (0 <= fc <= Z.of_nat (recent_adds false t (firstn j log)))%Z.
Proof.
  intros ticks progs sched j cj tid w k sc fc Hlen log Hj Hpc.
  destruct (steps_of_prefix M _ _ _ _ _ Hj) as (s1 & Hpre & Hc).
  fold log in Hpre. rewrite Hpre.
  pose proof (J_reach ticks progs s1 Hlen) as HJ. cbv zeta in HJ. rewrite <- Hc in HJ.
  destruct HJ as (_ & _ & _ & HL & _). pose proof (HL _ _ Hpc) as H. cbn [Linv] in H.
  destruct H as (t & x & Ht & _ & Hs & Hf). exists t. split; [exact Ht|].
  pose proof (cntW_any true t (length (ids x)) (ids x) (alog (steps_of M (bcfg0 nl ticks progs) s1))).
  pose proof (cntW_any false t (length (ids x)) (ids x) (alog (steps_of M (bcfg0 nl ticks progs) s1))).
  unfold recent_adds. split; lia.
Qed.

(** the same bound while the sum is being accumulated, with the tick in the program
    counter: the partial sums of trimAndSum(t) never exceed the logged recent adds *)
Theorem partial_sum_upper_bound : forall ticks progs sched j cj tid w k t i sc fc,
  (Z.of_nat (length (concat progs)) < 2 ^ 62)%Z ->
  let log := steps_of M (bcfg0 nl ticks progs) sched in
  nth_error log j = Some (cj, tid) ->
  nth_error (pcs cj) tid = Some (WHasNext w k t i sc fc) ->
  tick_read tid (firstn j log) = Some t /\
  (0 <= sc <= Z.of_nat (recent_adds true t (firstn j log)))%Z /\
  (0 <= fc <= Z.of_nat (recent_adds false t (firstn j log)))%Z.
Proof.
  intros ticks progs sched j cj tid w k t i sc fc Hlen log Hj Hpc.
  destruct (steps_of_prefix M _ _ _ _ _ Hj) as (s1 & Hpre & Hc).
  fold log in Hpre. rewrite Hpre.
  pose proof (J_reach ticks progs s1 Hlen) as HJ. cbv zeta in HJ. rewrite <- Hc in HJ.
  destruct HJ as (_ & _ & _ & HL & _). pose proof (HL _ _ Hpc) as H. cbn [Linv] in H.
  destruct H as (Ht & x & Hx & Hi & Hs & Hf). split; [exact Ht|].
  pose proof (cntW_any true t (lim i (ids x)) (ids x) (alog (steps_of M (bcfg0 nl ticks progs) s1))).
  pose proof (cntW_any false t (lim i (ids x)) (ids x) (alog (steps_of M (bcfg0 nl ticks progs) s1))).
  unfold recent_adds. split; lia.
Qed.

(** * The readings spelled out on the execution log *)

(* the bucket an add step targets *)
Definition add_target (l : bpc) : option (bool * nat) :=
  match l with
  | WAddInst _ sc _ b | WAddCur sc _ b | WAddNext _ sc _ _ b _ => Some (sc, b)
  | _ => None
  end.

(* log entry [x] is an add step of outcome [succ] on a bucket whose timestamp (in the
   configuration the step starts from) is >= t - window *)
Definition is_recent_add (succ : bool) (t : Z) (x : bconfig * nat) : bool :=
  match nth_error (pcs (fst x)) (snd x) with
  | Some l =>
      match add_target l with
      | Some (sc, b) =>
          match nth1 (b_buckets (c_sh (fst x))) b with
          | Some bk => Bool.eqb sc succ && (wrap64 (t - window cfg) <=? bk_ts bk)%Z
          | None => false
          end
      | None => false
      end
  | None => false
  end.

Lemma recent_adds_spec succ t L : recent_adds succ t L = length (filter (is_recent_add succ t) L).
Proof.
  unfold recent_adds. induction L as [|x L IH]; [reflexivity|].
  change (alog (x :: L)) with (aentry x ++ alog L). rewrite cntG_app, IH. cbn [filter].
  assert (E : cntG succ (recent t) anyb (aentry x) = if is_recent_add succ t x then 1 else 0).
  { unfold aentry, is_recent_add. destruct (nth_error (pcs (fst x)) (snd x)) as [l|]; [|reflexivity].
    destruct l; try reflexivity; cbn [aev_of add_target];
      destruct (nth1 (b_buckets (c_sh (fst x))) _) as [bk|]; try reflexivity;
      unfold cntG, gadd, recent, cut, anyb; cbn; rewrite andb_true_r;
      match goal with |- context [if ?c then _ else _] => destruct c end; reflexivity. }
  rewrite E. destruct (is_recent_add succ t x); cbn [length]; lia.
Qed.

Lemma tick_read_snoc tid L c u :
  tick_read tid (L ++ [(c, u)]) =
  match nth_error (pcs c) u with
  | Some (WTick _ _ _) => if Nat.eqb u tid then Some (hd 0%Z (b_ticks (c_sh c))) else tick_read tid L
  | _ => tick_read tid L
  end.
Proof.
  unfold tick_read. rewrite alog_app, last_tick_app.
  change (alog [(c, u)]) with (aentry (c, u) ++ []). rewrite app_nil_r. unfold aentry. cbn [fst snd].
  destruct (nth_error (pcs c) u) as [l|]; [|reflexivity].
  destruct l; try reflexivity; cbn [aev_of map last_tick].
  - destruct (Nat.eqb u tid); reflexivity.
  - destruct (nth1 (b_buckets (c_sh c)) b); cbn; [destruct (Nat.eqb u tid)|]; reflexivity.
  - destruct (nth1 (b_buckets (c_sh c)) b); cbn; [destruct (Nat.eqb u tid)|]; reflexivity.
  - destruct (nth1 (b_buckets (c_sh c)) nb); cbn; [destruct (Nat.eqb u tid)|]; reflexivity.
Qed.

(** * Count(): the snapshot never exceeds the adds executed so far *)
Definition total_adds (succ : bool) (L : list (bconfig * nat)) : nat := cntG succ anyts anyb (alog L).

Lemma total_adds_spec succ L :
  total_adds succ L =
  length (filter (fun x => match nth_error (pcs (fst x)) (snd x) with
                           | Some l => match add_target l with
                                       | Some (sc, b) => match nth1 (b_buckets (c_sh (fst x))) b with
                                                         | Some _ => Bool.eqb sc succ
                                                         | None => false
                                                         end
                                       | None => false
                                       end
                           | None => false
                           end) L).
Proof.
  unfold total_adds. induction L as [|x L IH]; [reflexivity|].
  change (alog (x :: L)) with (aentry x ++ alog L). rewrite cntG_app, IH. cbn [filter].
  unfold aentry. destruct (nth_error (pcs (fst x)) (snd x)) as [l|]; [|reflexivity].
  destruct l; try reflexivity; cbn [aev_of add_target];
    destruct (nth1 (b_buckets (c_sh (fst x))) _) as [bk|]; try reflexivity;
    unfold cntG, gadd, anyts, anyb; cbn; rewrite !andb_true_r;
    match goal with |- context [if ?c then _ else _] => destruct c end; reflexivity.
Qed.

Theorem snapshot_upper_bound : forall ticks progs sched w x,
  (Z.of_nat (length (concat progs)) < 2 ^ 62)%Z ->
  let log := steps_of M (bcfg0 nl ticks progs) sched in
  nth1 (b_wins (c_sh (final M (bcfg0 nl ticks progs) sched))) w = Some x ->
  (0 <= fst (w_snap x) <= Z.of_nat (total_adds true log))%Z /\
  (0 <= snd (w_snap x) <= Z.of_nat (total_adds false log))%Z.
Proof.
  intros ticks progs sched w x Hlen log Hx.
  pose proof (J_reach ticks progs sched Hlen) as HJ. cbv zeta in HJ.
  destruct HJ as (_ & _ & _ & _ & HS). exact (HS _ _ Hx).
Qed.

(** * The bound on the value a report RETURNS *)

(* the program counter of a call belongs to the operation being executed *)
Definition opc (o : bop) (l : bpc) : Prop :=
  match l with
  | BInv o' => o' = o
  | WSnapLoad _ => o = WCount
  | _ => True
  end.

Lemma opc_step o l s l' s' : opc o l -> bstep cfg nl l s = Next l' s' -> opc o l'.
Proof.
  intros Ho H.
  destruct l; unfold bstep in H; unfold reject, deliver in H;
  unfold goto, fin, take_tick, new_state, new_bucket, new_window,
    notify_state, notify_count, notify_rejected, with_log, set_cur, set_win, set_bucket,
    bucket_add, offer in H; simpl in H; repeat break1 H; try discriminate H;
  injection H as <- <-; try exact I. simpl in Ho. simpl. congruence.
Qed.

Lemma nth_error_upd_eq {X} (l : list X) i x y : nth_error l i = Some x -> nth_error (upd l i y) i = Some y.
Proof. intros H. rewrite nth_error_upd, Nat.eqb_refl, H. reflexivity. Qed.

Lemma opc_reach ticks progs sched th o l :
  In th (c_thr (final M (bcfg0 nl ticks progs) sched)) -> t_cur th = Some (o, l) -> opc o l.
Proof.
  revert th o l.
  apply (invariant_run M (fun c => forall th o l, In th (c_thr c) -> t_cur th = Some (o, l) -> opc o l)).
  - intros th o l Hin Hcur. unfold bcfg0, init in Hin. cbn [c_thr] in Hin.
    apply in_map_iff in Hin. destruct Hin as (p & <- & _). discriminate Hcur.
  - intros c t c' e HI Hs th o l Hin Hcur.
    apply In_nth_error in Hin. destruct Hin as [t' Hn'].
    destruct (Nat.eq_dec t' t) as [->|Hne].
    2:{ pose proof (@step_cfg_other _ _ _ _ _ M c t t' Hne) as E. rewrite (step_cfg_some _ _ _ _ _ Hs) in E.
        rewrite E in Hn'. eapply HI; [eapply nth_error_In; exact Hn' | exact Hcur]. }
    unfold step_thread in Hs. destruct (nth_error (c_thr c) t) as [th0|] eqn:Hn; [|discriminate].
    assert (Hv : forall o0 l0 fr, view M th0 = Some (o0, l0, fr) -> opc o0 l0).
    { unfold view. destruct (t_dead th0); [discriminate|]. destruct (t_cur th0) as [[o1 l1]|] eqn:Hc.
      - intros o0 l0 fr [= <- <- <-]. eapply HI; [eapply nth_error_In; exact Hn | exact Hc].
      - destruct (t_prog th0) as [|o1 r]; [discriminate|]. intros o0 l0 fr [= <- <- <-]. reflexivity. }
    destruct (view M th0) as [[[o0 l0] fr]|] eqn:Hview; [|discriminate].
    specialize (Hv _ _ _ eq_refl).
    change (m_step M l0 (c_sh c)) with (bstep cfg nl l0 (c_sh c)) in Hs.
    destruct (bstep cfg nl l0 (c_sh c)) as [l1 s1|r u s1| |] eqn:Hb; try discriminate Hs;
      injection Hs as <- _; cbn [c_thr] in Hn'; rewrite (nth_error_upd_eq _ _ _ _ Hn) in Hn';
      injection Hn' as <-; cbn [t_cur] in Hcur; try discriminate Hcur.
    injection Hcur as <- <-. eapply opc_step; eauto.
Qed.

(* the only steps that return a count *)
Lemma count_return_pc l s sc fc s' :
  bstep cfg nl l s = Done (BCount (Some (sc, fc))) tt s' ->
  (exists w, l = WSnapStore w WKDirect sc fc) \/ (exists w, l = WSnapLoad w).
Proof.
  intros H.
  destruct l; unfold bstep in H; unfold reject, deliver in H;
  unfold goto, fin, take_tick, new_state, new_bucket, new_window,
    notify_state, notify_count, notify_rejected, with_log, set_cur, set_win, set_bucket,
    bucket_add, offer in H; simpl in H; repeat break1 H; try discriminate H.
  - left. injection H as <- <- _. eexists; reflexivity.
  - right. eexists; reflexivity.
Qed.

(** whenever OnSuccess / OnFailure of the window returns a count (sc, fc) - the thread rolled
    the bucket after reading tick t - sc (fc) is at most the number of success (failure) add
    steps executed before the return on buckets with timestamp >= t - window *)
Theorem returned_count_upper_bound : forall ticks progs sched j cj tid cj' ej o sc fc,
  (Z.of_nat (length (concat progs)) < 2 ^ 62)%Z ->
  let log := steps_of M (bcfg0 nl ticks progs) sched in
  nth_error log j = Some (cj, tid) ->
  step_thread M cj tid = Some (cj', ej) ->
  In (ERet tid o (BCount (Some (sc, fc)))) ej -> o <> WCount ->
  exists t, tick_read tid (firstn j log) = Some t /\
    (0 <= sc <= Z.of_nat (recent_adds true t (firstn j log)))%Z /\
    (0 <= fc <= Z.of_nat (recent_adds false t (firstn j log)))%Z.
Proof.
  intros ticks progs sched j cj tid cj' ej o sc fc Hlen log Hj Hs Hret Ho.
  destruct (steps_of_reach M _ _ _ _ _ Hj) as [s1 Hc1].
  assert (Hpc : exists w k, nth_error (pcs cj) tid = Some (WSnapStore w k sc fc)).
  { unfold step_thread in Hs. destruct (nth_error (c_thr cj) tid) as [th|] eqn:Hn; [|discriminate].
    assert (Hopc : forall o0 l0, t_cur th = Some (o0, l0) -> opc o0 l0).
    { intros o0 l0 Hc. subst cj. eapply opc_reach; [eapply nth_error_In; exact Hn | exact Hc]. }
    unfold view in Hs. destruct (t_dead th); [discriminate|].
    destruct (t_cur th) as [[o1 l1]|] eqn:Hcur.
    - change (m_step M l1 (c_sh cj)) with (bstep cfg nl l1 (c_sh cj)) in Hs.
      destruct (bstep cfg nl l1 (c_sh cj)) as [l2 s2|r u s2| |] eqn:Hb; try discriminate Hs;
        injection Hs as _ <-; cbn in Hret.
      + destruct Hret.
      + destruct Hret as [E|[]]. injection E as Eo Er. subst o1 r. destruct u.
        destruct (count_return_pc _ _ _ _ _ Hb) as [[w ->]|[w ->]].
        * exists w, WKDirect. eapply pcs_nth; eauto.
        * specialize (Hopc _ _ eq_refl). simpl in Hopc. contradiction.
      + destruct Hret as [E|[]]. discriminate E.
    - destruct (t_prog th) as [|o1 r]; [discriminate|].
      change (m_start M (t_ts th) o1) with (BInv o1) in Hs.
      change (m_step M (BInv o1) (c_sh cj)) with (bstep cfg nl (BInv o1) (c_sh cj)) in Hs.
      destruct o1; cbn in Hs; injection Hs as _ <-; cbn in Hret; destruct Hret as [E|[]]; discriminate E. }
  destruct Hpc as (w & k & Hpc).
  exact (count_upper_bound ticks progs sched j cj tid w k sc fc Hlen Hj Hpc).
Qed.

End Upper.

Print Assumptions snapshot_upper_bound.
Print Assumptions returned_count_upper_bound.

Print Assumptions count_upper_bound.
Print Assumptions count_upper_bound_window.
Print Assumptions partial_sum_upper_bound.
