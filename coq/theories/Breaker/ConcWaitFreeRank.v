(** Wait-freedom of the circuit breaker, part 2: the rank of a program counter.

    No operation of the breaker has a retry loop; the only loop is the
    traversal of the reservoir by trimAndSum, and the iterator's cursor only
    moves forward.  [rank s l] is the number of own steps a call has taken AT
    MOST when it stands at program counter [l] in shared state [s]:

      - [rank_step]  every step of the call raises its rank by at least one;
      - [rank_mono]  steps of OTHER threads never lower it (the reservoirs are
                     append-only: [kill] marks a cell, it does not remove it);
      - [rank_bound] it is bounded by [11 + 4 * tc s], [tc s] = the number of
                     cells of all reservoirs, and, per operation, by
                     [obound o (tc s) - 1];
      - [step_tc]    [tc] only grows, and only by an offer: at most one per
                     report operation ([credit]).

    So a call of [o] returns within [obound o (tc s)] own steps. *)
From Coq Require Import List Arith Bool ZArith Lia.
From Garr Require Import Conc.Conc Pure.F64 Pure.Config Breaker.BreakerModel
  Breaker.ConcBase Breaker.ConcInv Breaker.ConcWin Breaker.ConcFreshStep Breaker.ConcGhost
  Breaker.ConcOwn Breaker.ConcHist Breaker.ConcWaitFreeInv.
Import ListNotations.

(** ** sums over lists *)
Fixpoint wsum {A} (f : A -> nat) (l : list A) : nat :=
  match l with
  | [] => 0
  | a :: r => f a + wsum f r
  end.

Lemma wsum_upd {A} (f : A -> nat) l i a a' :
  nth_error l i = Some a -> wsum f (upd l i a') + f a = wsum f l + f a'.
Proof.
  revert i. induction l as [|b l IH]; intros i H.
  - destruct i; discriminate.
  - destruct i as [|i]; simpl in *.
    + injection H as ->. lia.
    + specialize (IH i H). lia.
Qed.

Lemma wsum_upd1 {A} (f : A -> nat) l i a a' :
  nth1 l i = Some a -> wsum f (upd1 l i a') + f a = wsum f l + f a'.
Proof. destruct i as [|i]; unfold nth1, upd1; [discriminate|]. apply wsum_upd. Qed.

Lemma wsum_ge {A} (f : A -> nat) l i a : nth_error l i = Some a -> f a <= wsum f l.
Proof.
  revert i. induction l as [|b l IH]; intros i H.
  - destruct i; discriminate.
  - destruct i as [|i]; simpl in *.
    + injection H as ->. lia.
    + specialize (IH i H). lia.
Qed.

Lemma wsum_snoc {A} (f : A -> nat) l a : wsum f (l ++ [a]) = wsum f l + f a.
Proof. induction l as [|b l IH]; simpl; [lia|]. rewrite IH. lia. Qed.

Lemma wsum_ext {A} (f g : A -> nat) l : (forall x, In x l -> f x = g x) -> wsum f l = wsum g l.
Proof.
  induction l as [|b l IH]; intros H; simpl; [reflexivity|].
  rewrite (H b (or_introl eq_refl)), IH; [reflexivity|]. intros; apply H; right; assumption.
Qed.

Lemma wsum_le {A} (f g : A -> nat) l : (forall x, In x l -> f x <= g x) -> wsum f l <= wsum g l.
Proof.
  induction l as [|b l IH]; intros H; simpl; [lia|].
  pose proof (H b (or_introl eq_refl)).
  assert (wsum f l <= wsum g l) by (apply IH; intros; apply H; right; assumption). lia.
Qed.

Lemma wsum_map {A B} (g : A -> B) (f : B -> nat) l : wsum f (map g l) = wsum (fun x => f (g x)) l.
Proof. induction l as [|b l IH]; simpl; [reflexivity|]. rewrite IH. reflexivity. Qed.

Lemma wsum_times_const {A} (f : A -> nat) k l : wsum (fun x => f x * k) l = wsum f l * k.
Proof. induction l as [|b l IH]; simpl; [reflexivity|]. rewrite IH. lia. Qed.

(** ** the size of the reservoirs *)
Definition ncells (x : swindow) : nat := length (w_cells x).

(* total number of cells, live or dead, of all reservoirs *)
Definition tc (s : bshared) : nat := wsum ncells (b_wins s).

(* number of cells of the reservoir of window [w] *)
Definition wlen (s : bshared) (w : nat) : nat :=
  match nth1 (b_wins s) w with Some x => ncells x | None => 0 end.

Lemma wlen_le_tc s w : wlen s w <= tc s.
Proof.
  unfold wlen, tc. destruct (nth1 (b_wins s) w) as [x|] eqn:E; [|lia].
  destruct w as [|j]; [discriminate E|]. eapply wsum_ge. exact E.
Qed.

(** ** the offer a call can still make *)
Definition is_report (o : bop) : nat :=
  match o with OnSuccess | OnFailure | WSuccess | WFailure => 1 | _ => 0 end.

Definition credit (l : bpc) : nat :=
  match l with
  | BInv o => is_report o
  | OSLoad | OFLoad | WTick _ _ _ | WCur _ _ _ _ | WAddInst _ _ _ _ | WOfferInst _ _ _
  | WAddNext _ _ _ _ _ _ | WCasCur _ _ _ _ _ | WOfferOld _ _ _ _ | WOfferNext _ _ _ => 1
  | _ => 0
  end.

(** ** the rank *)
Definition kb (k : wk) : nat := match k with WKDirect => 0 | _ => 1 end.

(* position of the iterator: its cursor, or the end of the reservoir *)
Definition cpos (s : bshared) (w : nat) (i : it) : nat :=
  match i_cursor i with Some c => c | None => wlen s w end.

Definition rank (s : bshared) (l : bpc) : nat :=
  match l with
  | BInv _ => 0
  | CRLoad => 1 | CRTick _ => 2 | CRTick2 _ => 3 | CRCas _ _ => 4
  | OSLoad => 1 | OSTick1 _ => 2 | OSSnap _ _ => 3 | OSTick2 _ _ => 4 | OSCas _ _ => 5
  | OFLoad => 1
  | OFTick _ _ => 10 + 4 * tc s
  | OFCas _ _ _ => 11 + 4 * tc s
  | WTick _ _ k => 1 + kb k
  | WCur _ _ k _ => 2 + kb k
  | WAddInst _ _ k _ => 3 + kb k
  | WOfferInst _ k _ => 4 + kb k
  | WAddCur _ k _ => 3 + kb k
  | WAddNext _ _ k _ _ _ => 3 + kb k
  | WCasCur _ k _ _ _ => 4 + kb k
  | WOfferOld _ k _ _ => 5 + kb k
  | WOfferNext _ k _ => 5 + kb k
  | WIter _ k _ => 6 + kb k
  | WHasNext w k _ i _ _ => 7 + kb k + 4 * cpos s w i
  | WNext w k _ i _ _ =>
      match i_cursor i with
      | Some c => 8 + kb k + 4 * c
      | None => 6 + kb k + 4 * wlen s w
      end
  | WRemove w k _ i _ _ => 5 + kb k + 4 * cpos s w i
  | WSumS w k _ i _ _ _ => 5 + kb k + 4 * cpos s w i
  | WSumF w k _ i _ _ _ => 6 + kb k + 4 * cpos s w i
  | WSnapStore w k _ _ => 8 + kb k + 4 * wlen s w
  | WSnapLoad _ => 1
  end.

(** ** which program counters belong to which operation *)
Definition wk_of (l : bpc) : option wk :=
  match l with
  | WTick _ _ k | WCur _ _ k _ | WAddInst _ _ k _ | WOfferInst _ k _ | WAddCur _ k _
  | WAddNext _ _ k _ _ _ | WCasCur _ k _ _ _ | WOfferOld _ k _ _ | WOfferNext _ k _
  | WIter _ k _ | WHasNext _ k _ _ _ _ | WNext _ k _ _ _ _ | WRemove _ k _ _ _ _
  | WSumS _ k _ _ _ _ _ | WSumF _ k _ _ _ _ _ | WSnapStore _ k _ _ => Some k
  | _ => None
  end.

Definition bop_eqb (a b : bop) : bool :=
  match a, b with
  | CanRequest, CanRequest | OnSuccess, OnSuccess | OnFailure, OnFailure
  | WSuccess, WSuccess | WFailure, WFailure | WCount, WCount => true
  | _, _ => false
  end.

Definition opk (o : bop) (l : bpc) : bool :=
  match l with
  | BInv o' => bop_eqb o o'
  | _ =>
    match o with
    | CanRequest => match l with CRLoad | CRTick _ | CRTick2 _ | CRCas _ _ => true | _ => false end
    | OnSuccess =>
        match l with
        | OSLoad | OSTick1 _ | OSSnap _ _ | OSTick2 _ _ | OSCas _ _ => true
        | _ => match wk_of l with Some WKSuccess => true | _ => false end
        end
    | OnFailure =>
        match l with
        | OFLoad | OFTick _ _ | OFCas _ _ _ => true
        | _ => match wk_of l with Some (WKFailure _) => true | _ => false end
        end
    | WSuccess | WFailure => match wk_of l with Some WKDirect => true | _ => false end
    | WCount => match l with WSnapLoad _ => true | _ => false end
    end
  end.

(* own steps within which a call of [o] returns when the reservoirs hold [n] cells *)
Definition obound (o : bop) (n : nat) : nat :=
  match o with
  | CanRequest => 5
  | OnSuccess => 10 + 4 * n
  | OnFailure => 12 + 4 * n
  | WSuccess | WFailure => 9 + 4 * n
  | WCount => 2
  end.

Lemma obound_le o n : obound o n <= 12 + 4 * n.
Proof. destruct o; simpl; lia. Qed.

Lemma obound_mono o n m : n <= m -> obound o n <= obound o m.
Proof. destruct o; simpl; lia. Qed.

Arguments tc : simpl never.
Arguments wlen : simpl never.
Arguments cpos : simpl never.

Section Rank.
Variable cfg : cb_config.
Variable nl : nat.

(** *** [tc]: only offers add cells, one per report *)
Ltac t_tc :=
  unfold tc; simpl;
  repeat match goal with
  | H : nth1 ?l ?w = Some ?x |- context [wsum ncells (upd1 ?l ?w ?x')] =>
      let E := fresh "E" in
      pose proof (wsum_upd1 ncells l w x x' H) as E;
      generalize dependent (wsum ncells (upd1 l w x')); intros
  end;
  rewrite ?wsum_snoc; unfold ncells in *; simpl in *;
  rewrite ?app_length, ?kill_length in *; simpl in *; try lia.

Lemma step_tc l s l' s' :
  pstep cfg nl l s = Some (l', s') -> tc s <= tc s' /\ tc s' + credit l' <= tc s + credit l.
Proof.
  intros H.
  destruct l; unfold_step H; repeat break1 H; try discriminate H;
  injection H as <- <-; eqb_clean; subst; simpl credit;
  try match goal with o : bop |- _ => destruct o; simpl end;
  solve [t_tc].
Qed.

Lemma wlen_step l s l' s' w : pstep cfg nl l s = Some (l', s') -> wlen s w <= wlen s' w.
Proof.
  intros Hp. unfold wlen. destruct (nth1 (b_wins s) w) as [x|] eqn:E; [|lia].
  destruct (step_wins _ _ _ _ _ _ Hp _ _ E) as (x' & extra & -> & Hm).
  unfold ncells. rewrite <- (map_length fst (w_cells x')), Hm, app_length, map_length. lia.
Qed.

(** *** steps of other threads never lower the rank *)
Lemma cpos_le s s' w i : wlen s w <= wlen s' w -> cpos s w i <= cpos s' w i.
Proof. unfold cpos. destruct (i_cursor i); lia. Qed.

Lemma rank_le s s' l :
  tc s <= tc s' -> (forall w, wlen s w <= wlen s' w) -> rank s l <= rank s' l.
Proof.
  intros Ht Hw.
  destruct l; simpl; try lia;
    try (pose proof (cpos_le s s' w i (Hw w)); lia).
  - destruct (i_cursor i); [lia|]. specialize (Hw w). lia.
  - specialize (Hw w). lia.
Qed.

Lemma rank_mono l1 s l1' s' l : pstep cfg nl l1 s = Some (l1', s') -> rank s l <= rank s' l.
Proof.
  intros Hp. apply rank_le.
  - apply (step_tc _ _ _ _ Hp).
  - intros w. eapply wlen_step. exact Hp.
Qed.

(** *** the iterator only moves forward *)
Lemma it_ok_lt s w i c : it_ok s w i -> i_cursor i = Some c -> c < wlen s w.
Proof.
  intros Hi Hc. destruct (Hi c Hc) as (x & Hx & Hn). unfold wlen. rewrite Hx. unfold ncells.
  rewrite <- (map_length fst). apply nth_error_Some. congruence.
Qed.

Lemma cpos_iter_ge s s' w x c last :
  nth1 (b_wins s) w = Some x -> c < wlen s w -> wlen s w <= wlen s' w ->
  S c <= cpos s' w (iter_at (w_cells x) (S c) last).
Proof.
  intros Hx Hc Hle. unfold cpos.
  destruct (i_cursor (iter_at (w_cells x) (S c) last)) as [idx|] eqn:E.
  - destruct (iter_at_spec _ _ _ _ E) as [H _]. exact H.
  - lia.
Qed.

Lemma cpos_le_wlen s w i : it_ok s w i -> cpos s w i <= wlen s w.
Proof.
  intros Hi. unfold cpos. destruct (i_cursor i) as [c|] eqn:E; [|lia].
  pose proof (it_ok_lt _ _ _ _ Hi E). lia.
Qed.

(** *** every step of a call raises its rank *)
Ltac fin_rank HB :=
  try match goal with
  | Hc : i_cursor ?i = Some ?c, Hx : nth1 (b_wins ?s) ?w = Some ?x
    |- context [iter_at (w_cells ?x) (S ?c) ?last] =>
      let Hlt := fresh "Hlt" in
      pose proof (it_ok_lt _ _ _ _ HB Hc) as Hlt;
      match goal with Hwl : wlen s w <= wlen ?s' w |- _ =>
        pose proof (cpos_iter_ge s s' w x c last Hx Hlt Hwl)
      end
  end;
  unfold cpos in *; cbn [i_cursor] in *;
  repeat match goal with E : i_cursor ?i = _ |- _ => rewrite E in * end;
  repeat match goal with
  | |- context [match ?x with Some _ => _ | None => _ end] => destruct x
  | H : context [match ?x with Some _ => _ | None => _ end] |- _ => destruct x
  end; lia.

Lemma rank_step l s l' s' :
  Pb s l -> bstep cfg nl l s = Next l' s' -> rank s l + 1 <= rank s' l'.
Proof.
  intros HB H.
  assert (Hp : pstep cfg nl l s = Some (l', s')) by (unfold pstep; rewrite H; reflexivity).
  pose proof (proj1 (step_tc _ _ _ _ Hp)) as Htc.
  pose proof (fun w => wlen_step _ _ _ _ w Hp) as Hwl.
  pose proof (fun w => wlen_le_tc s' w) as Hwt.
  clear Hp.
  destruct l; unfold_bstep H; repeat break1 H; try discriminate H;
  injection H as <- Es; cbn [rank kb]; simpl in HB;
  try (specialize (Hwl w); specialize (Hwt w));
  try lia; fin_rank HB.
Qed.

(** *** the rank is bounded *)
Lemma rank_obound s o l : Pb s l -> opk o l = true -> rank s l + 1 <= obound o (tc s).
Proof.
  intros HB Ho.
  destruct l; simpl in HB;
    try (pose proof (wlen_le_tc s w));
    try match goal with i : it |- _ =>
      first [ pose proof (cpos_le_wlen s w i HB) | pose proof (cpos_le_wlen s w i (proj1 HB)) ] end;
    destruct o; simpl in Ho; try discriminate Ho;
    try match goal with o0 : bop |- _ => destruct o0; try discriminate Ho end;
    try match goal with k : wk |- _ => destruct k; try discriminate Ho end;
    cbn [rank kb obound]; try lia.
  all: destruct (i_cursor i) as [c|] eqn:Ec; [pose proof (it_ok_lt _ _ _ _ HB Ec)|]; lia.
Qed.

Lemma opk_inv o : opk o (BInv o) = true.
Proof. destruct o; reflexivity. Qed.

Lemma opk_some l : exists o, opk o l = true.
Proof.
  destruct l; try (exists o; apply opk_inv);
    try (exists CanRequest; reflexivity); try (exists OnSuccess; reflexivity);
    try (exists OnFailure; reflexivity); try (exists WCount; reflexivity);
    try (destruct k; [exists OnSuccess|exists OnFailure|exists WSuccess]; reflexivity).
Qed.

Lemma rank_bound s l : Pb s l -> rank s l + 1 <= 12 + 4 * tc s.
Proof.
  intros HB. destruct (opk_some l) as [o Ho].
  pose proof (rank_obound s o l HB Ho). pose proof (obound_le o (tc s)). lia.
Qed.

(** *** a call stays within the program counters of its operation *)
Lemma opk_next o l s l' s' : opk o l = true -> bstep cfg nl l s = Next l' s' -> opk o l' = true.
Proof.
  intros Ho H.
  destruct l; unfold_bstep H; repeat break1 H; try discriminate H;
  injection H as <- _;
  destruct o; simpl in Ho; try discriminate Ho;
  try match goal with o0 : bop |- _ => destruct o0; try discriminate Ho end;
  try match goal with k : wk |- _ => destruct k; try discriminate Ho end;
  reflexivity.
Qed.

(* the first step of a call: from [BInv o], always [Next] *)
Lemma inv_step o s : exists l', bstep cfg nl (BInv o) s = Next l' s.
Proof. destruct o; eexists; reflexivity. Qed.

End Rank.
