(** Wait-freedom of the circuit breaker, part 1: no step is ever disabled and
    no reachable step faults.

    - [breaker_never_blocks]: [bstep] never answers [Blocked] - for every
      program counter and every shared state (no lock, no wait, no retry).
    - [NFI], the register-validity invariant of the whole machine: the state
      pointer designates an allocated state object, the state register of a
      caller checking a deadline is allocated ([P1] of ConcInv), every window
      register designates an allocated window ([Gw]/[Pw] of ConcOwn), every
      bucket in a window or held by a thread is allocated ([Inv4] of ConcWin),
      and - new here, [Pb] - the bucket register of [WAddCur]/[WSumS]/[WSumF]
      is allocated and the iterator of a trimming call points at a cell of
      its window's reservoir that still carries the bucket id it read.
    - [NFI_no_fault]: under [NFI] no step of any thread answers [Fault];
    - [breaker_no_fault]: in every reachable configuration no thread is dead. *)
From Coq Require Import List Arith Bool ZArith Lia.
From Garr Require Import Conc.Conc Pure.F64 Pure.Config Breaker.BreakerModel
  Breaker.ConcBase Breaker.ConcInv Breaker.ConcWin Breaker.ConcFreshStep Breaker.ConcGhost
  Breaker.ConcOwn Breaker.ConcHist.
Import ListNotations.

(** ** (A1) no step is ever disabled *)
Theorem breaker_never_blocks : forall cfg nl (l : bpc) (s : bshared), bstep cfg nl l s <> Blocked.
Proof.
  intros cfg nl l s H.
  destruct l; unfold bstep in H; unfold reject, deliver in H;
    unfold goto, fin, take_tick, new_state, new_bucket, new_window in H; simpl in H;
    repeat break1 H; discriminate H.
Qed.

(** ** the reservoir iterator *)
Lemma first_live_spec cells : forall from idx0 idx b,
  first_live cells from idx0 = Some (idx, b) ->
  from <= idx /\ idx0 <= idx /\ nth_error cells (idx - idx0) = Some (b, true).
Proof.
  induction cells as [|[b0 live] r IH]; intros from idx0 idx b H; simpl in H; [discriminate|].
  destruct (live && Nat.leb from idx0) eqn:E.
  - injection H as <- <-. apply andb_true_iff in E. destruct E as [-> E]. apply Nat.leb_le in E.
    rewrite Nat.sub_diag. simpl. auto.
  - destruct (IH _ _ _ _ H) as (H1 & H2 & H3). split; [exact H1|]. split; [lia|].
    replace (idx - idx0) with (S (idx - S idx0)) by lia. exact H3.
Qed.

Lemma iter_at_spec cells from last c :
  i_cursor (iter_at cells from last) = Some c ->
  from <= c /\ nth_error cells c = Some (i_val (iter_at cells from last), true).
Proof.
  unfold iter_at. destruct (first_live cells from 0) as [[idx b]|] eqn:E; simpl; [|discriminate].
  intros [= <-]. destruct (first_live_spec _ _ _ _ _ E) as (H1 & _ & H3).
  rewrite Nat.sub_0_r in H3. auto.
Qed.

Lemma kill_length cells c : length (kill cells c) = length cells.
Proof. unfold kill. destruct (nth_error cells c) as [[b live]|]; [apply upd_length|reflexivity]. Qed.

(** ** the bucket / iterator registers *)
Definition bvalid (s : bshared) (b : nat) : Prop := 1 <= b <= length (b_buckets s).

(* the cursor designates a cell of window [w] carrying the bucket id the iterator read *)
Definition it_ok (s : bshared) (w : nat) (i : it) : Prop :=
  forall c, i_cursor i = Some c ->
    exists x, nth1 (b_wins s) w = Some x /\ nth_error (map fst (w_cells x)) c = Some (i_val i).

Definition Pb (s : bshared) (l : bpc) : Prop :=
  match l with
  | WAddCur _ _ b => bvalid s b
  | WHasNext w _ _ i _ _ | WNext w _ _ i _ _ | WRemove w _ _ i _ _ => it_ok s w i
  | WSumS w _ _ i _ _ b | WSumF w _ _ i _ _ b => it_ok s w i /\ bvalid s b
  | _ => True
  end.

Definition NFI (cfg : cb_config) (s : bshared) (ps : list bpc) : Prop :=
  Inv1 cfg s ps /\ 1 <= b_cur s /\ Gw s /\ Forall (Pw s) ps /\ Inv4 s ps /\ Forall (Pb s) ps.

Lemma nth1_some_iff {A} (l : list A) i : nth1 l i <> None <-> 1 <= i <= length l.
Proof.
  destruct i as [|j]; unfold nth1; [split; [congruence|lia]|].
  rewrite nth_error_Some. lia.
Qed.

Lemma nth_error_map_fst {A B} (l : list (A * B)) c a :
  nth_error (map fst l) c = Some a -> exists b, nth_error l c = Some (a, b).
Proof.
  rewrite nth_error_map. destruct (nth_error l c) as [[a' b']|]; simpl; [|discriminate].
  intros [= <-]. eauto.
Qed.

Section NoFault.
Variable cfg : cb_config.
Variable nl : nat.
Notation M := (breaker cfg nl).

Lemma bvalid_step l s l' s' b : pstep cfg nl l s = Some (l', s') -> bvalid s b -> bvalid s' b.
Proof.
  intros Hp Hb. destruct (step4 _ _ _ _ _ _ Hp) as [Hlen _]. unfold bvalid in *. lia.
Qed.

Lemma it_ok_step l s l' s' w i : pstep cfg nl l s = Some (l', s') -> it_ok s w i -> it_ok s' w i.
Proof.
  intros Hp Hi c Hc. destruct (Hi c Hc) as (x & Hx & Hn).
  destruct (step_wins _ _ _ _ _ _ Hp _ _ Hx) as (x' & extra & Hx' & E).
  exists x'. split; [exact Hx'|]. rewrite E. rewrite nth_error_app1; [exact Hn|].
  apply nth_error_Some. congruence.
Qed.

Lemma Pb_mono l s l' s' l1 : pstep cfg nl l s = Some (l', s') -> Pb s l1 -> Pb s' l1.
Proof.
  intros Hp H. destruct l1; simpl in *; auto;
    solve [ eapply bvalid_step; eassumption | eapply it_ok_step; eassumption
          | destruct H as [H1 H2]; split; [eapply it_ok_step; eassumption|eapply bvalid_step; eassumption] ].
Qed.

Lemma Pb_same s l0 l : same l0 l -> Pb s l0 -> Pb s l.
Proof. intros [->|[_ [o ->]]] H; [exact H|exact I]. Qed.

(* the bucket an iterator designates is allocated *)
Lemma it_val_valid s ps w i c :
  Inv4 s ps -> it_ok s w i -> i_cursor i = Some c -> bvalid s (i_val i).
Proof.
  intros H4 Hi Hc. destruct (Hi c Hc) as (x & Hx & Hn).
  eapply I4_win_valid; [exact H4|exact Hx|]. unfold wb. right. eapply nth_error_In. exact Hn.
Qed.

Lemma it_ok_iter_at s w x from last :
  nth1 (b_wins s) w = Some x -> it_ok s w (iter_at (w_cells x) from last).
Proof.
  intros Hx c Hc. exists x. split; [exact Hx|].
  destruct (iter_at_spec _ _ _ _ Hc) as [_ Hn]. rewrite nth_error_map, Hn. reflexivity.
Qed.

(** *** one step establishes [Pb] for the new program counter *)
Lemma stepb ps l s l' s' :
  Inv4 s ps -> Pw s l -> Pb s l -> pstep cfg nl l s = Some (l', s') -> Pb s' l'.
Proof.
  intros H4 HP HB Hp.
  pose proof (fun b => bvalid_step _ _ _ _ b Hp) as Hbv.
  pose proof (fun w i => it_ok_step _ _ _ _ w i Hp) as Hiv.
  destruct l; try (unfold_step Hp; repeat break1 Hp; try discriminate Hp;
    injection Hp as <- <-; simpl in *; exact I).
  - (* WCur *)
    revert Hbv Hiv. unfold_step Hp; repeat break1 Hp; try discriminate Hp;
    injection Hp as <- <-; intros Hbv Hiv; simpl in *; try exact I.
    apply Hbv. eapply I4_win_valid; [exact H4|eassumption|]. unfold wb. left. reflexivity.
  - (* WIter *)
    unfold_step Hp; repeat break1 Hp; try discriminate Hp; injection Hp as <- <-; simpl; try exact I.
    apply it_ok_iter_at. assumption.
  - (* WHasNext *)
    unfold_step Hp; repeat break1 Hp; try discriminate Hp; injection Hp as <- <-; simpl in *;
      first [exact HB | exact I].
  - (* WNext *)
    revert Hbv Hiv. unfold_step Hp; repeat break1 Hp; try discriminate Hp;
    injection Hp as <- <-; intros Hbv Hiv; simpl in *; try exact HB; try exact I.
    + apply it_ok_iter_at. assumption.
    + split; [apply it_ok_iter_at; assumption|].
      eapply it_val_valid; eauto.
  - (* WRemove *)
    revert Hbv Hiv. unfold_step Hp; repeat break1 Hp; try discriminate Hp;
    injection Hp as <- <-; intros Hbv Hiv; simpl in *; try exact I;
    intros c Hc; exact (Hiv _ _ HB c Hc).
  - (* WSumS *)
    unfold_step Hp; repeat break1 Hp; try discriminate Hp; injection Hp as <- <-; simpl in *; first [exact I | exact HB].
  - (* WSumF *)
    unfold_step Hp; repeat break1 Hp; try discriminate Hp; injection Hp as <- <-; simpl in *; first [exact I | tauto].
Qed.

(** *** preservation of [NFI] *)
Lemma NFI_step s ps t l0 l l' s' :
  NFI cfg s ps -> nth_error ps t = Some l0 -> same l0 l -> pstep cfg nl l s = Some (l', s') ->
  NFI cfg s' (upd ps t l').
Proof.
  intros (H1 & Hc & HG & HW & H4 & HB) Hn Hsame Hp.
  assert (HPl : Pw s l) by (eapply Pw_same; [exact Hsame | eapply Forall_nth_error; eauto]).
  assert (HBl : Pb s l) by (eapply Pb_same; [exact Hsame | eapply Forall_nth_error; eauto]).
  destruct (Inv1_step _ _ _ _ _ _ _ _ _ H1 Hn Hsame Hp) as (H1' & Hle & _).
  destruct (stepw _ _ _ _ _ _ HG HPl Hp) as [HG' HP'].
  split; [exact H1'|]. split; [lia|]. split; [exact HG'|]. split; [|split].
  - apply Forall_upd; [|exact HP']. eapply Forall_impl; [|exact HW]. intros a Ha. eapply Pw_mono; eauto.
  - eapply Inv4_step; eauto.
  - apply Forall_upd; [|eapply stepb; eauto]. eapply Forall_impl; [|exact HB]. intros a Ha. eapply Pb_mono; eauto.
Qed.

Lemma NFI_init ticks (progs : list (list bop)) : NFI cfg (binit nl ticks) (map (fun _ => idle) progs).
Proof.
  destruct (OwnInv_init nl ticks progs) as (HG & HW & H4 & _).
  split; [apply Inv1_init|]. split; [|split; [exact HG|split; [exact HW|split; [exact H4|]]]].
  - unfold binit, take_tick. destruct ticks as [|t1 [|t2 r]]; simpl; lia.
  - apply Forall_forall. intros l Hin. apply in_map_iff in Hin. destruct Hin as (p & <- & _). exact I.
Qed.

Lemma NFI_reach ticks progs sched :
  let c := final M (bcfg0 nl ticks progs) sched in NFI cfg (c_sh c) (pcs c).
Proof.
  apply (abs_invariant cfg nl (NFI cfg)).
  - apply NFI_init.
  - intros s ps t l0 l l' s' HI Hn Hs Hp. eapply NFI_step; eauto.
Qed.

(** ** (A2) under the invariant no step faults *)
Lemma NFI_no_fault s ps t l0 l :
  NFI cfg s ps -> nth_error ps t = Some l0 -> same l0 l -> bstep cfg nl l s <> Fault.
Proof.
  intros (H1 & Hc & HG & HW & H4 & HB) Hn Hsame.
  assert (HPl : Pw s l) by (eapply Pw_same; [exact Hsame | eapply Forall_nth_error; eauto]).
  assert (HBl : Pb s l) by (eapply Pb_same; [exact Hsame | eapply Forall_nth_error; eauto]).
  destruct H1 as (HG1 & _ & HF1).
  assert (HP1 : P1 cfg s l) by (eapply P1_same; [exact Hsame | eapply Forall_nth_error; eauto]).
  assert (Hheld : forall b, In b (held l) -> nth1 (b_buckets s) b <> None).
  { intros b Hb. apply nth1_some_iff. eapply I4_held_valid; [exact H4|exact Hn|].
    rewrite (held_same _ _ Hsame). exact Hb. }
  assert (Hcur : nth1 (b_states s) (b_cur s) <> None) by (apply nth1_some_iff; unfold G1 in HG1; lia).
  assert (Hwv : forall w x b, nth1 (b_wins s) w = Some x -> b = w_cur x -> nth1 (b_buckets s) b <> None).
  { intros w x b Hx ->. apply nth1_some_iff. eapply I4_win_valid; [exact H4|exact Hx|]. left. reflexivity. }
  intros H.
  destruct l; unfold bstep in H; unfold reject, deliver in H;
    unfold goto, fin, take_tick, new_state, new_bucket, new_window, bucket_add, offer in H; simpl in H;
    repeat break1 H; try discriminate H; simpl in HPl, HBl, HP1, Hheld;
    try (apply Hcur; first [assumption | reflexivity]);
    try (eapply HPl; [reflexivity|eassumption]);
    try (eapply Hheld; [left; reflexivity|eassumption]).
  - (* CRTick *) destruct HP1 as (st & E & _). congruence.
  - (* WCur *) eapply Hwv; eauto.
  - (* WAddCur *) apply nth1_some_iff in HBl. contradiction.
  - (* WNext *)
    match goal with E : i_cursor i = Some ?c |- _ =>
      pose proof (it_val_valid _ _ _ _ _ H4 HBl E) as Hv end.
    apply nth1_some_iff in Hv. contradiction.
  - (* WSumS *) destruct HBl as [_ Hv]. apply nth1_some_iff in Hv. contradiction.
  - (* WSumF *) destruct HBl as [_ Hv]. apply nth1_some_iff in Hv. contradiction.
Qed.

(** *** what a live thread steps from, abstractly *)
Lemma view_same (th : bthread) o l fresh :
  view M th = Some (o, l, fresh) -> same (pc_of th) l /\ t_dead th = false.
Proof.
  unfold view, pc_of. destruct (t_dead th); [discriminate|].
  destruct (t_cur th) as [[o' l']|].
  - intros [= <- <- <-]. split; [left; reflexivity|reflexivity].
  - destruct (t_prog th) as [|o' r]; [discriminate|]. intros [= <- <- <-].
    split; [right; split; [reflexivity|eexists; reflexivity]|reflexivity].
Qed.

Lemma NFI_cfg_no_fault c t th o l fresh :
  NFI cfg (c_sh c) (pcs c) -> nth_error (c_thr c) t = Some th -> view M th = Some (o, l, fresh) ->
  bstep cfg nl l (c_sh c) <> Fault.
Proof.
  intros HI Hn Hv. destruct (view_same _ _ _ _ Hv) as [Hsame _].
  eapply NFI_no_fault; [exact HI| |exact Hsame].
  unfold pcs. rewrite nth_error_map, Hn. reflexivity.
Qed.

(** ** configurations: the invariant, and nobody is dead *)
Definition Alive (c : bconfig) : Prop :=
  NFI cfg (c_sh c) (pcs c) /\ forall t th, nth_error (c_thr c) t = Some th -> t_dead th = false.

Lemma Alive_step c t c' e : Alive c -> step_thread M c t = Some (c', e) -> Alive c'.
Proof.
  intros [HI Hd] Hs. split.
  - destruct (step_abs _ _ _ _ _ _ Hs) as (l0 & l & l' & Hn & Hsame & Hp & Hpcs).
    rewrite Hpcs. eapply NFI_step; eauto.
  - destruct (stepper_step _ _ _ _ _ Hs) as (th & o & l & fresh & Hn & Hv & _ & Hcase).
    pose proof (NFI_cfg_no_fault _ _ _ _ _ _ HI Hn Hv) as Hnf.
    change (m_step M l (c_sh c)) with (bstep cfg nl l (c_sh c)) in Hcase.
    destruct Hcase as [(l' & s' & _ & ->)|[(r & u & s' & _ & ->)|(Hf & _)]]; [| |contradiction];
      intros t0 th0; simpl; rewrite nth_error_upd, Hn;
      (destruct (Nat.eqb_spec t t0) as [<-|Hne]; [intros [= <-]; reflexivity|apply Hd]).
Qed.

Lemma Alive_init ticks progs : Alive (bcfg0 nl ticks progs).
Proof.
  split.
  - unfold bcfg0, init, pcs; simpl. rewrite map_map. apply NFI_init.
  - intros t th Hn. unfold bcfg0, init in Hn. simpl in Hn. apply nth_error_In in Hn.
    apply in_map_iff in Hn. destruct Hn as (p & <- & _). reflexivity.
Qed.

Lemma Alive_final c sched : Alive c -> Alive (final M c sched).
Proof.
  intros H. apply (invariant_run M Alive); [exact H|].
  intros c1 t c' e. apply Alive_step.
Qed.

Lemma Alive_reach ticks progs sched : Alive (final M (bcfg0 nl ticks progs) sched).
Proof. apply Alive_final, Alive_init. Qed.

(** no thread of a reachable configuration has faulted *)
Theorem breaker_no_fault : forall ticks progs sched th,
  In th (c_thr (final M (bcfg0 nl ticks progs) sched)) -> t_dead th = false.
Proof.
  intros ticks progs sched th Hin. apply In_nth_error in Hin. destruct Hin as [t Ht].
  destruct (Alive_reach ticks progs sched) as [_ H]. eapply H; eauto.
Qed.

(** no step of a reachable configuration answers [Fault] (or [Blocked]) *)
Theorem breaker_step_ok : forall ticks progs sched t th o l fresh,
  let c := final M (bcfg0 nl ticks progs) sched in
  nth_error (c_thr c) t = Some th -> view M th = Some (o, l, fresh) ->
  (exists l' s', bstep cfg nl l (c_sh c) = Next l' s') \/
  (exists r s', bstep cfg nl l (c_sh c) = Done r tt s').
Proof.
  intros ticks progs sched t th o l fresh c Hn Hv.
  destruct (Alive_reach ticks progs sched) as [HI _]. fold c in HI.
  pose proof (NFI_cfg_no_fault _ _ _ _ _ _ HI Hn Hv) as Hnf.
  pose proof (breaker_never_blocks cfg nl l (c_sh c)) as Hnb.
  destruct (bstep cfg nl l (c_sh c)) as [l' s'|r [] s'| |]; try contradiction; eauto.
Qed.

(** no fault event in any trace *)
Theorem breaker_trace_no_fault : forall ticks progs sched t o,
  ~ In (EFault t o) (trace M (bcfg0 nl ticks progs) sched).
Proof.
  intros ticks progs sched t o Hin. rewrite trace_steps_of in Hin. apply in_flat_map in Hin.
  destruct Hin as ([ck tk] & Hk & He). simpl in He.
  apply In_nth_error in Hk. destruct Hk as [k Hk].
  destruct (steps_of_reach _ _ _ _ _ _ Hk) as [s1 ->].
  destruct (Alive_reach ticks progs s1) as [HI _].
  unfold step_evs, step_thread in He.
  destruct (nth_error (c_thr (final M (bcfg0 nl ticks progs) s1)) tk) as [th|] eqn:Hn; [|destruct He].
  destruct (view M th) as [[[o' l] fresh]|] eqn:Hv; [|destruct He].
  pose proof (NFI_cfg_no_fault _ _ _ _ _ _ HI Hn Hv) as Hnf.
  change (m_step M l (c_sh (final M (bcfg0 nl ticks progs) s1)))
    with (bstep cfg nl l (c_sh (final M (bcfg0 nl ticks progs) s1))) in He.
  destruct (bstep cfg nl l (c_sh (final M (bcfg0 nl ticks progs) s1))); try contradiction; try destruct He;
    destruct fresh; simpl in He; intuition discriminate.
Qed.

End NoFault.

Print Assumptions breaker_never_blocks.
Print Assumptions breaker_no_fault.
Print Assumptions breaker_step_ok.
Print Assumptions breaker_trace_no_fault.
