(** C03 (D): reports.  Every CAS attempt on the state pointer - the trial CAS
    of CanRequest, the closing CAS of OnSuccess, the (re)opening CAS of
    OnFailure - that runs to completion leaves the inspected state object
    REPLACED, by exactly one successful CAS located between the attempt's own
    load of the pointer and the attempt itself; a failed attempt changes
    nothing but the listener log.  One reported success on a HALF_OPEN state
    closes the circuit (fresh window), one reported failure re-opens it for a
    full window. *)
From Coq Require Import List Arith Bool ZArith Lia.
From Garr Require Import Conc.Conc Pure.F64 Pure.Config Breaker.BreakerModel
  Breaker.ConcBase Breaker.ConcInv Breaker.ConcWin Breaker.ConcFreshStep Breaker.ConcFresh Breaker.ConcHist.
Import ListNotations.
Local Open Scope Z_scope.

(* the state object a program counter remembers having loaded *)
Definition wk_cs (k : wk) : option nat := match k with WKFailure cs => Some cs | _ => None end.

Definition carries (l : bpc) : option nat :=
  match l with
  | CRTick cs | CRTick2 cs | CRCas cs _ => Some cs
  | OSTick1 cs | OSSnap cs _ | OSTick2 cs _ | OSCas cs _ => Some cs
  | OFTick cs _ | OFCas cs _ _ => Some cs
  | WTick _ _ k | WCur _ _ k _ | WAddInst _ _ k _ | WOfferInst _ k _ | WAddCur _ k _
  | WAddNext _ _ k _ _ _ | WCasCur _ k _ _ _ | WOfferOld _ k _ _ | WOfferNext _ k _
  | WIter _ k _ | WHasNext _ k _ _ _ _ | WNext _ k _ _ _ _ | WRemove _ k _ _ _ _
  | WSumS _ k _ _ _ _ _ | WSumF _ k _ _ _ _ _ | WSnapStore _ k _ _ => wk_cs k
  | _ => None
  end.

Definition is_load (l : bpc) : bool :=
  match l with CRLoad | OSLoad | OFLoad => true | _ => false end.

Section Report.
Variable cfg : cb_config.
Variable nl : nat.
Notation M := (breaker cfg nl).

(* a remembered state object was loaded by the previous step, or was already remembered;
   and a step that continues the call is not a CAS *)
Lemma carry_next lj s l s' cs :
  bstep cfg nl lj s = Next l s' -> carries l = Some cs ->
  cas_of lj = None /\
  ((is_load lj = true /\ b_cur s = cs) \/ carries lj = Some cs).
Proof.
  intros H Hc.
  destruct lj; unfold_bstep H; repeat break1 H; try discriminate H;
    injection H as <- <-; simpl in Hc; try discriminate Hc; (split; [reflexivity|]);
    first [ right; simpl; exact Hc
          | injection Hc as <-; first [ left; split; reflexivity | right; reflexivity ] ].
Qed.

Section Log.
Variables (ticks : list Z) (progs : list (list bop)) (sched : list nat).
Notation L := (steps_of M (bcfg0 nl ticks progs) sched).

(* thread t performs no successful CAS at positions i .. k-1 *)
Definition no_own_cas (t i k : nat) : Prop :=
  forall m cm cs', (i <= m < k)%nat -> nth_error L m = Some (cm, t) -> ~ cas_succeeds cm t cs'.

(** every remembered state object was loaded, as the current one, by an earlier
    step of the same call, and the call made no CAS since *)
Theorem load_of_carrier : forall k ck t o l cs,
  nth_error L k = Some (ck, t) -> at_pc cfg nl ck t o l -> carries l = Some cs ->
  exists i ci li, (i < k)%nat /\ nth_error L i = Some (ci, t) /\ at_pc cfg nl ci t o li /\
    is_load li = true /\ b_cur (c_sh ci) = cs /\ no_own_cas t i k.
Proof.
  induction k as [k IH] using lt_wf_ind. intros ck t o l cs Hk Hat Hc.
  assert (Hl : forall o', l <> BInv o') by (intros o' ->; discriminate Hc).
  destruct (bprev _ _ _ _ _ _ _ _ _ _ Hk Hat Hl) as (j & cj & lj & s' & Hlt & Hj & Hatj & Hb & _ & Hown).
  destruct (carry_next _ _ _ _ _ Hb Hc) as [Hnc Hcase].
  assert (Hjn : forall cs', ~ cas_succeeds cj t cs').
  { intros cs' Hcs. apply (cas_succeeds_at cfg nl) in Hcs.
    destruct Hcs as (o' & l' & n' & Hat' & Hcas & _).
    destruct (at_pc_fun _ _ _ _ _ _ _ _ Hatj Hat') as [_ ->]. congruence. }
  destruct Hcase as [[Hld Hcur]|Hcj].
  - exists j, cj, lj. repeat split; auto.
    intros m cm cs' Hm Hnm. destruct (Nat.eq_dec m j) as [->|Hne].
    + rewrite Hj in Hnm. injection Hnm as <-. apply Hjn.
    + exfalso. eapply (Hown m cm t); [lia|exact Hnm|reflexivity].
  - destruct (IH j Hlt cj t o lj cs Hj Hatj Hcj) as (i & ci & li & Hi1 & Hi & Hati & Hld & Hcur & Hno).
    exists i, ci, li. repeat split; auto; try lia.
    intros m cm cs' Hm Hnm.
    destruct (Nat.lt_trichotomy m j) as [Hmj|[->|Hmj]].
    + eapply Hno; [|exact Hnm]. lia.
    + rewrite Hj in Hnm. injection Hnm as <-. apply Hjn.
    + exfalso. eapply (Hown m cm t); [lia|exact Hnm|reflexivity].
Qed.

Lemma cas_carries l cs n : cas_of l = Some (cs, n) -> carries l = Some cs.
Proof. destruct l; simpl; try discriminate; intros [= <- _]; reflexivity. Qed.

(** Every CAS attempt that runs to completion - whatever its kind, whatever
    its outcome - leaves the state object it inspected REPLACED, by exactly one
    successful CAS in the whole execution, located after the attempt's own load
    of the pointer and no later than the attempt itself; it is the attempt's
    own CAS iff it is at the same position. *)
Theorem cas_attempt_replaced : forall k ck t o l cs n,
  nth_error L k = Some (ck, t) -> at_pc cfg nl ck t o l -> cas_of l = Some (cs, n) ->
  exists i ci li, (i < k)%nat /\ nth_error L i = Some (ci, t) /\ at_pc cfg nl ci t o li /\
    is_load li = true /\ b_cur (c_sh ci) = cs /\
  exists j cj tj, (i < j <= k)%nat /\ nth_error L j = Some (cj, tj) /\ cas_succeeds cj tj cs /\
    (tj = t <-> j = k) /\ (cs < b_cur (c_sh (step_cfg M ck t)))%nat /\
    (forall j' cj' tj', nth_error L j' = Some (cj', tj') -> cas_succeeds cj' tj' cs -> j' = j).
Proof.
  intros k ck t o l cs n Hk Hat Hcas.
  destruct (load_of_carrier _ _ _ _ _ _ Hk Hat (cas_carries _ _ _ Hcas))
    as (i & ci & li & Hik & Hi & Hati & Hld & Hcur & Hno).
  exists i, ci, li. do 5 (split; [assumption|]).
  assert (Huniq : forall j cj tj, nth_error L j = Some (cj, tj) -> cas_succeeds cj tj cs ->
            forall j' cj' tj', nth_error L j' = Some (cj', tj') -> cas_succeeds cj' tj' cs -> j' = j).
  { intros j cj tj Hj Hc j' cj' tj' Hj' Hc'.
    exact (one_transition_per_state cfg nl ticks progs sched j' j cj' tj' cj tj cs Hj' Hj Hc' Hc). }
  destruct (Nat.eq_dec (b_cur (c_sh ck)) cs) as [E|Hne].
  - assert (Hc : cas_succeeds ck t cs).
    { apply (cas_succeeds_at cfg nl). exists o, l, n. auto. }
    exists k, ck, t. split; [lia|]. split; [exact Hk|]. split; [exact Hc|]. split; [tauto|]. split.
    + destruct (steps_of_enabled _ _ _ _ _ _ Hk) as (c' & e & Hs).
      rewrite (step_cfg_some _ _ _ _ _ Hs).
      eapply cas_step; [eapply log_inv1; exact Hk|exact Hc|exact Hs].
    + eapply Huniq; eauto.
  - destruct (cur_change_cas cfg nl ticks progs sched (k - i) i k ci t ck t cs
                (Nat.le_refl _) Hi Hk ltac:(lia) Hcur Hne) as (j & cj & tj & Hr & Hj & Hc).
    assert (Hnt : tj <> t).
    { intros ->. eapply Hno; [|exact Hj|exact Hc]. lia. }
    assert (Hij : i <> j).
    { intros ->. rewrite Hi in Hj. injection Hj as _ <-. contradiction. }
    exists j, cj, tj. split; [lia|]. split; [exact Hj|]. split; [exact Hc|]. split; [|split].
    + split; [contradiction|lia].
    + pose proof (cas_then_gt _ _ _ _ _ _ _ _ _ _ _ _ Hj Hk ltac:(lia) Hc).
      destruct (log_step_mono _ _ _ _ _ _ _ _ Hk) as [Hm _]. lia.
    + eapply Huniq; eauto.
Qed.

(** a failed CAS changes nothing but (possibly) the listener log; a failed report
    on a HALF_OPEN state changes nothing at all *)
Lemma cas_fail_noop l s cs n :
  cas_of l = Some (cs, n) -> b_cur s <> cs ->
  exists r s', bstep cfg nl l s = Done r tt s' /\
    b_states s' = b_states s /\ b_cur s' = b_cur s /\ b_wins s' = b_wins s /\
    b_buckets s' = b_buckets s /\ b_ticks s' = b_ticks s /\
    (match l with OSCas _ _ | OFCas _ _ None => s' = s /\ r = BU | _ => r = BU \/ r = BB false end).
Proof.
  intros Hc Hne. destruct l; simpl in Hc; try discriminate; injection Hc as -> ->; unfold bstep;
    (destruct (Nat.eqb_spec (b_cur s) cs) as [E|_]; [contradiction|]).
  - eexists _, _. split; [reflexivity|]. simpl. repeat split; auto.
  - eexists _, _. split; [reflexivity|]. simpl. repeat split; auto.
  - destruct e as [c|]; eexists _, _; (split; [reflexivity|]); simpl; repeat split; auto.
Qed.

Theorem failed_report_noop : forall k ck t o l cs n,
  nth_error L k = Some (ck, t) -> at_pc cfg nl ck t o l ->
  l = OSCas cs n \/ l = OFCas cs n None -> b_cur (c_sh ck) <> cs ->
  c_sh (step_cfg M ck t) = c_sh ck /\ ret_at cfg nl ck t = Some BU.
Proof.
  intros k ck t o l cs n _ [fresh Hst] Hl Hne.
  assert (Hc : cas_of l = Some (cs, n)) by (destruct Hl as [-> | ->]; reflexivity).
  destruct (cas_fail_noop _ _ _ _ Hc Hne) as (r & s' & Hb & _ & _ & _ & _ & _ & Hm).
  assert (E : s' = c_sh ck /\ r = BU) by (destruct Hl as [-> | ->]; exact Hm).
  destruct E as [-> ->].
  split; [eapply step_cfg_sh_done; eauto|]. unfold ret_at. rewrite Hst, Hb. reflexivity.
Qed.

(** concurrent reports on the same state object: exactly one transition.  If a
    report (OnSuccess or OnFailure that found [cs] HALF_OPEN) completes its CAS
    attempt at position [k], then exactly one CAS on [cs] succeeds in the whole
    execution, no later than [k]; and if that is not this report's own CAS, this
    report returns without touching the shared state. *)
Theorem reports_exactly_one_transition : forall k ck t o l cs n,
  nth_error L k = Some (ck, t) -> at_pc cfg nl ck t o l ->
  l = OSCas cs n \/ l = OFCas cs n None ->
  exists j cj tj, (j <= k)%nat /\ nth_error L j = Some (cj, tj) /\ cas_succeeds cj tj cs /\
    (forall j' cj' tj', nth_error L j' = Some (cj', tj') -> cas_succeeds cj' tj' cs -> j' = j) /\
    (cs < b_cur (c_sh (step_cfg M ck t)))%nat /\
    (j <> k -> c_sh (step_cfg M ck t) = c_sh ck /\ ret_at cfg nl ck t = Some BU).
Proof.
  intros k ck t o l cs n Hk Hat Hl.
  assert (Hc : cas_of l = Some (cs, n)) by (destruct Hl as [-> | ->]; reflexivity).
  destruct (cas_attempt_replaced _ _ _ _ _ _ _ Hk Hat Hc)
    as (i & ci & li & _ & _ & _ & _ & _ & j & cj & tj & Hr & Hj & Hcj & _ & Hgt & Huniq).
  exists j, cj, tj. split; [lia|]. split; [exact Hj|]. split; [exact Hcj|]. split; [exact Huniq|].
  split; [exact Hgt|]. intros Hjk.
  eapply failed_report_noop; eauto.
  intros E. apply Hjk. symmetry. eapply Huniq; [exact Hk|].
  apply (cas_succeeds_at cfg nl). exists o, l, n. auto.
Qed.

(** ** one reported success while HALF_OPEN closes the circuit *)

(* the OnSuccess call behind a closing CAS: it loaded [cs] when it was current and HALF_OPEN,
   and holds a fresh CLOSED state object with a window [w] of its own *)
Theorem os_call_of_cas : forall k ck t o cs n,
  nth_error L k = Some (ck, t) -> at_pc cfg nl ck t o (OSCas cs n) ->
  o = OnSuccess /\
  exists i ci st i3 c3 w,
    (i < i3 < k)%nat /\
    nth_error L i = Some (ci, t) /\ at_pc cfg nl ci t OnSuccess OSLoad /\
    b_cur (c_sh ci) = cs /\ nth1 (b_states (c_sh ci)) cs = Some st /\ st_kind st = KHalfOpen /\
    nth_error L i3 = Some (c3, t) /\ at_pc cfg nl c3 t OnSuccess (OSTick2 cs w) /\
    nth1 (b_states (c_sh ck)) n = Some (BState KClosed w (wrap64 (tick_of (c_sh c3) + 0)) 0) /\
    (cs < n)%nat.
Proof.
  intros k ck t o cs n Hk Hat.
  destruct (bprev _ _ _ _ _ _ _ _ _ _ Hk Hat ltac:(discriminate))
    as (i3 & c3 & l3 & s3 & Hlt3 & Hi3 & Hat3 & Hb3 & Hs3 & _).
  destruct (next_OSCas _ _ _ _ _ _ _ Hb3) as (w & -> & En & _ & _ & Est3).
  destruct (bprev _ _ _ _ _ _ _ _ _ _ Hi3 Hat3 ltac:(discriminate))
    as (i2 & c2 & l2 & s2 & Hlt2 & Hi2 & Hat2 & Hb2 & _ & _).
  destruct (next_OSTick2 _ _ _ _ _ _ _ Hb2) as (b & -> & _).
  destruct (bprev _ _ _ _ _ _ _ _ _ _ Hi2 Hat2 ltac:(discriminate))
    as (i1 & c1 & l1 & s1 & Hlt1 & Hi1 & Hat1 & Hb1 & _ & _).
  destruct (next_OSSnap _ _ _ _ _ _ _ Hb1) as (-> & _).
  destruct (bprev _ _ _ _ _ _ _ _ _ _ Hi1 Hat1 ltac:(discriminate))
    as (i & ci & l0 & s0 & Hlt0 & Hi & Hat0 & Hb0 & _ & _).
  destruct (next_OSTick1 _ _ _ _ _ _ Hb0) as (-> & _ & Ecur & st & Hst & Hkind).
  destruct (bprev _ _ _ _ _ _ _ _ _ _ Hi Hat0 ltac:(discriminate))
    as (i0 & c0 & li & si & _ & Hi0 & Hati & Hbi & _ & _).
  destruct (next_OSLoad _ _ _ _ _ Hbi) as (-> & _).
  destruct (binv_op _ _ _ _ _ _ _ _ _ _ Hi0 Hati) as [-> _].
  split; [reflexivity|].
  exists i, ci, st, i3, c3, w. split; [lia|]. do 7 (split; [assumption|]). split.
  - destruct (log_succ_mono _ _ _ _ _ _ _ _ _ _ _ Hi3 Hk Hlt3) as [_ Hx].
    apply (sext_nth _ _ Hx). rewrite Hs3, Est3, En. apply nth1_new.
  - destruct (log_mono _ _ _ _ _ _ _ _ _ _ _ Hi Hi3 ltac:(lia)) as [_ Hx].
    pose proof (sext_nth _ _ Hx _ _ Hst) as Hst'. apply nth1_le in Hst'. lia.
Qed.

Lemma oscas_step cs n s :
  bstep cfg nl (OSCas cs n) s =
  if Nat.eqb (b_cur s) cs then Done BU tt (notify_state nl (set_cur s n) KClosed) else Done BU tt s.
Proof. reflexivity. Qed.

Lemma ofcas_step cs n e s :
  bstep cfg nl (OFCas cs n e) s =
  if Nat.eqb (b_cur s) cs then Done BU tt (notify_state nl (set_cur s n) KOpen)
  else match e with Some c => Done BU tt (notify_count nl s c) | None => Done BU tt s end.
Proof. reflexivity. Qed.

(** the successful closing CAS: the pointer moves to a CLOSED state object, every listener
    hears CLOSED once, nothing else changes (the window of the new state is brand-new and
    empty: [T3_oscas_fresh_window]) *)
Theorem success_closes : forall k ck t o cs n,
  nth_error L k = Some (ck, t) -> at_pc cfg nl ck t o (OSCas cs n) -> cas_succeeds ck t cs ->
  let s' := c_sh (step_cfg M ck t) in
  exists w ts,
    b_cur s' = n /\ nth1 (b_states s') n = Some (BState KClosed w ts 0) /\
    b_states s' = b_states (c_sh ck) /\ b_wins s' = b_wins (c_sh ck) /\ b_buckets s' = b_buckets (c_sh ck) /\
    b_log s' = b_log (c_sh ck) ++ each nl (fun i => [(i, LStateChanged KClosed); (i, LCountUpdated 0 0)]).
Proof.
  intros k ck t o cs n Hk Hat Hc s'.
  destruct (os_call_of_cas _ _ _ _ _ _ Hk Hat) as (_ & i & ci & st & i3 & c3 & w & _ & _ & _ & _ & _ & _ & _ & _ & Hn & _).
  destruct Hat as [fresh Hst].
  assert (E : b_cur (c_sh ck) = cs) by (destruct Hc as (_ & _ & _ & _ & _ & _ & _ & E); exact E).
  pose proof (oscas_step cs n (c_sh ck)) as Hb. rewrite E, Nat.eqb_refl in Hb.
  subst s'. rewrite (step_cfg_sh_done M _ _ _ _ _ _ _ _ Hst Hb). simpl.
  exists w, (wrap64 (tick_of (c_sh c3) + 0)). repeat split; auto.
Qed.

(** ** one reported failure (re)opens the circuit for a full window *)

(* the state object an opening CAS holds: OPEN, deadline = the call's tick reading + open window *)
Theorem ofcas_state : forall k ck t o cs n e,
  nth_error L k = Some (ck, t) -> at_pc cfg nl ck t o (OFCas cs n e) ->
  exists i1 c1, (i1 < k)%nat /\ nth_error L i1 = Some (c1, t) /\ at_pc cfg nl c1 t o (OFTick cs e) /\
    nth1 (b_states (c_sh ck)) n =
      Some (BState KOpen 0 (wrap64 (tick_of (c_sh c1) + openw cfg)) (openw cfg)) /\
    (forall m cm tm, (i1 < m < k)%nat -> nth_error L m = Some (cm, tm) -> tm <> t).
Proof.
  intros k ck t o cs n e Hk Hat.
  destruct (bprev _ _ _ _ _ _ _ _ _ _ Hk Hat ltac:(discriminate))
    as (i1 & c1 & l1 & s1 & Hlt1 & Hi1 & Hat1 & Hb1 & Hs1 & Hown).
  destruct (next_OFCas _ _ _ _ _ _ _ _ Hb1) as (-> & En & _ & _ & Est).
  exists i1, c1. do 3 (split; [assumption|]). split; [|exact Hown].
  destruct (log_succ_mono _ _ _ _ _ _ _ _ _ _ _ Hi1 Hk Hlt1) as [_ Hx].
  apply (sext_nth _ _ Hx). rewrite Hs1, Est, En. apply nth1_new.
Qed.

(* the OnFailure call behind a re-opening CAS with no count: it loaded [cs] when it was
   current and HALF_OPEN *)
Theorem of_call_of_cas : forall k ck t o cs n,
  nth_error L k = Some (ck, t) -> at_pc cfg nl ck t o (OFCas cs n None) ->
  o = OnFailure /\
  exists i ci st i1 c1,
    (i < i1 < k)%nat /\
    nth_error L i = Some (ci, t) /\ at_pc cfg nl ci t OnFailure OFLoad /\
    b_cur (c_sh ci) = cs /\ nth1 (b_states (c_sh ci)) cs = Some st /\ st_kind st = KHalfOpen /\
    nth_error L i1 = Some (c1, t) /\ at_pc cfg nl c1 t OnFailure (OFTick cs None) /\
    nth1 (b_states (c_sh ck)) n =
      Some (BState KOpen 0 (wrap64 (tick_of (c_sh c1) + openw cfg)) (openw cfg)) /\
    (cs < n)%nat.
Proof.
  intros k ck t o cs n Hk Hat.
  destruct (ofcas_state _ _ _ _ _ _ _ Hk Hat) as (i1 & c1 & Hlt1 & Hi1 & Hat1 & Hn & _).
  destruct (bprev _ _ _ _ _ _ _ _ _ _ Hi1 Hat1 ltac:(discriminate))
    as (i & ci & l0 & s0 & Hlt0 & Hi & Hat0 & Hb0 & _ & _).
  destruct (next_OFTick_None _ _ _ _ _ _ Hb0) as (-> & _ & Ecur & st & Hst & Hkind).
  destruct (bprev _ _ _ _ _ _ _ _ _ _ Hi Hat0 ltac:(discriminate))
    as (i0 & c0 & li & si & _ & Hi0 & Hati & Hbi & _ & _).
  destruct (next_OFLoad _ _ _ _ _ Hbi) as (-> & _).
  destruct (binv_op _ _ _ _ _ _ _ _ _ _ Hi0 Hati) as [-> _].
  split; [reflexivity|].
  exists i, ci, st, i1, c1. split; [lia|]. do 8 (split; [assumption|]).
  destruct (log_inv1 _ _ _ _ _ _ _ _ Hk) as (_ & _ & HF).
  destruct Hat as [fresh Hstp].
  destruct (stepper_inv _ _ _ _ _ _ Hstp) as (th & Hnth & Hd & Hf).
  destruct fresh; [destruct Hf as [_ Hf]; discriminate Hf|].
  pose proof (Forall_nth_error _ _ _ _ HF (pcs_nth _ _ _ _ _ Hnth Hf)) as HP. simpl in HP. tauto.
Qed.

Theorem failure_reopens : forall k ck t o cs n e,
  nth_error L k = Some (ck, t) -> at_pc cfg nl ck t o (OFCas cs n e) -> cas_succeeds ck t cs ->
  let s' := c_sh (step_cfg M ck t) in
  exists i1 c1, (i1 < k)%nat /\ nth_error L i1 = Some (c1, t) /\ at_pc cfg nl c1 t o (OFTick cs e) /\
    b_cur s' = n /\
    nth1 (b_states s') n = Some (BState KOpen 0 (wrap64 (tick_of (c_sh c1) + openw cfg)) (openw cfg)) /\
    b_states s' = b_states (c_sh ck) /\ b_wins s' = b_wins (c_sh ck) /\ b_buckets s' = b_buckets (c_sh ck) /\
    b_log s' = b_log (c_sh ck) ++ each nl (fun i => [(i, LStateChanged KOpen); (i, LCountUpdated 0 0)]).
Proof.
  intros k ck t o cs n e Hk Hat Hc s'.
  destruct (ofcas_state _ _ _ _ _ _ _ Hk Hat) as (i1 & c1 & Hlt1 & Hi1 & Hat1 & Hn & _).
  destruct Hat as [fresh Hst].
  assert (E : b_cur (c_sh ck) = cs) by (destruct Hc as (_ & _ & _ & _ & _ & _ & _ & E); exact E).
  pose proof (ofcas_step cs n e (c_sh ck)) as Hb. rewrite E, Nat.eqb_refl in Hb.
  subst s'. rewrite (step_cfg_sh_done M _ _ _ _ _ _ _ _ Hst Hb). simpl.
  exists i1, c1. repeat split; auto.
Qed.

(** an uncontended attempt succeeds: if no OTHER thread's CAS on [cs] succeeds between
    the attempt's load and the attempt, the attempt's own CAS succeeds *)
Theorem uncontended_cas_succeeds : forall k ck t o l cs n,
  nth_error L k = Some (ck, t) -> at_pc cfg nl ck t o l -> cas_of l = Some (cs, n) ->
  (forall j cj tj, (j < k)%nat -> nth_error L j = Some (cj, tj) -> tj <> t -> ~ cas_succeeds cj tj cs) ->
  cas_succeeds ck t cs.
Proof.
  intros k ck t o l cs n Hk Hat Hcas Hnone.
  destruct (cas_attempt_replaced _ _ _ _ _ _ _ Hk Hat Hcas)
    as (i & ci & li & _ & _ & _ & _ & _ & j & cj & tj & Hr & Hj & Hcj & Hiff & _).
  destruct (Nat.eq_dec j k) as [->|Hne].
  - rewrite Hk in Hj. injection Hj as <- <-. exact Hcj.
  - exfalso. apply (Hnone j cj tj ltac:(lia) Hj); [|exact Hcj]. intros E. apply Hne. apply Hiff. exact E.
Qed.

(** the window of the CLOSED state installed by a success report is brand-new:
    empty reservoir, zero snapshot, zeroed current bucket (from [oscas_fresh_window]) *)
Theorem success_closes_fresh_window : forall k ck t o cs n,
  nth_error L k = Some (ck, t) -> at_pc cfg nl ck t o (OSCas cs n) -> cas_succeeds ck t cs ->
  let s' := c_sh (step_cfg M ck t) in
  exists w ts x bk,
    b_cur s' = n /\ nth1 (b_states s') n = Some (BState KClosed w ts 0) /\
    nth1 (b_wins s') w = Some x /\ w_cells x = [] /\ w_snap x = (0, 0) /\
    nth1 (b_buckets s') (w_cur x) = Some bk /\ bk_s bk = 0 /\ bk_f bk = 0.
Proof.
  intros k ck t o cs n Hk Hat Hc s'.
  destruct (success_closes _ _ _ _ _ _ Hk Hat Hc) as (w & ts & Hcur & Hn & Hsts & Hw & Hb & _).
  fold s' in Hcur, Hn, Hsts, Hw, Hb.
  destruct (steps_of_reach _ _ _ _ _ _ Hk) as [s1 E].
  destruct Hat as [fresh Hstp].
  destruct (stepper_inv _ _ _ _ _ _ Hstp) as (th & Hnth & _ & Hf).
  destruct fresh; [destruct Hf as [_ Hf]; discriminate Hf|].
  subst ck.
  destruct (oscas_fresh_window cfg nl ticks progs s1 th o cs n (nth_error_In _ _ Hnth) Hf)
    as (w' & ts' & x & bk & H1 & H2 & H3 & H4 & H5 & H6 & H7 & _).
  rewrite <- Hsts in H1. rewrite H1 in Hn. injection Hn as <- <-.
  exists w', ts', x, bk. rewrite Hw, Hb. repeat split; auto; rewrite Hsts; exact H1.
Qed.

End Log.
End Report.
