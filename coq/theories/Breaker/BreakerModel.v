(** Hand-written step machine for circuit-breaker/nonBlockingCircuitBreaker.go,
    slidingWindowCounter.go and eventCount.go.

    Granularity: one step per access of package cbreaker to shared memory -
    the atomic loads / CAS of the state pointer and of the current bucket,
    the snapshot atomic.Value, every [Ticker.Tick()] reading, and every CALL
    into the reservoir queue (Offer, Iterator, HasNext, Next, Remove) or into
    a bucket's adders (Add, Sum).  Inside this package the queue and the
    adders are bound to ATOMIC specification objects: the reservoir is the
    append-only cell list of the weakly-consistent-iterator specification
    (each iterator operation atomic), an adder is a counter.  That binding is
    what C01/C13 and C02/C09 establish for the real components; in the
    correspondence runs the calls are made atomic by wrappers
    (shim/vqueue, shim/vadder) around the REAL queue and adders.

    State objects, windows and buckets live in append-only lists (id =
    position + 1, 0 = none); ticks are int64 with Go's wrap-around.
    [b_ticks] is the stream of ticker readings (quantified over in theorems).
    Listener callbacks append to [b_log] (one entry per listener, in order). *)
From Coq Require Import List Arith Bool ZArith.
From Garr Require Import Conc.Conc Pure.F64 Pure.Config.
Import ListNotations.
Local Open Scope Z_scope.

Inductive kind := KClosed | KOpen | KHalfOpen.

Record bucket := Bucket { bk_ts : Z; bk_s : Z; bk_f : Z }.

Record swindow := Window {
  w_cur : nat;                      (* current bucket *)
  w_cells : list (nat * bool);      (* reservoir: (bucket id, still in the queue) in offer order *)
  w_snap : Z * Z                    (* snapshot EventCount (success, failure) *)
}.

Record bstate := BState {
  st_kind : kind;
  st_win : nat;                     (* its SlidingWindowCounter; 0 = the no-op counter *)
  st_timeout : Z;                   (* tick at creation + duration (wrapped) *)
  st_dur : Z                        (* timedOutTimeNanos *)
}.

Inductive levent :=
| LStateChanged (k : kind)
| LCountUpdated (s f : Z)
| LRejected.

Record bshared := BS {
  b_states : list bstate;
  b_cur : nat;                      (* nb.s *)
  b_wins : list swindow;
  b_buckets : list bucket;
  b_ticks : list Z;
  b_log : list (nat * levent)       (* (listener index, callback) *)
}.

Inductive bop := CanRequest | OnSuccess | OnFailure | WSuccess | WFailure | WCount.
Inductive bret := BU | BB (b : bool) | BCount (e : option (Z * Z)).

(* what to do with the EventCount a window report returned *)
Inductive wk := WKSuccess | WKFailure (cs : nat) | WKDirect.

(* iterator of the reservoir (owned by the trimming call) *)
Record it := It { i_cursor : option nat; i_val : nat; i_last : option nat }.

Inductive bpc :=
| BInv (o : bop)
(* CanRequest *)
| CRLoad
| CRTick (cs : nat)
| CRTick2 (cs : nat)
| CRCas (cs new : nat)
(* OnSuccess / OnFailure on the breaker *)
| OSLoad
| OSTick1 (cs : nat)
| OSSnap (cs b : nat)
| OSTick2 (cs w : nat)
| OSCas (cs new : nat)
| OFLoad
| OFTick (cs : nat) (e : option (Z * Z))
| OFCas (cs new : nat) (e : option (Z * Z))
(* SlidingWindowCounter.onEvent on window w *)
| WTick (w : nat) (succ : bool) (k : wk)
| WCur (w : nat) (succ : bool) (k : wk) (t : Z)
| WAddInst (w : nat) (succ : bool) (k : wk) (b : nat)
| WOfferInst (w : nat) (k : wk) (b : nat)
| WAddCur (succ : bool) (k : wk) (b : nat)
| WAddNext (w : nat) (succ : bool) (k : wk) (cb nb : nat) (t : Z)
| WCasCur (w : nat) (k : wk) (cb nb : nat) (t : Z)
| WOfferOld (w : nat) (k : wk) (cb : nat) (t : Z)
| WOfferNext (w : nat) (k : wk) (nb : nat)
| WIter (w : nat) (k : wk) (t : Z)
| WHasNext (w : nat) (k : wk) (t : Z) (i : it) (s f : Z)
| WNext (w : nat) (k : wk) (t : Z) (i : it) (s f : Z)
| WRemove (w : nat) (k : wk) (t : Z) (i : it) (s f : Z)
| WSumS (w : nat) (k : wk) (t : Z) (i : it) (s f : Z) (b : nat)
| WSumF (w : nat) (k : wk) (t : Z) (i : it) (s f : Z) (b : nat)
| WSnapStore (w : nat) (k : wk) (s f : Z)
| WSnapLoad (w : nat).

Section Breaker.
Variable cfg : cb_config.
Variable nlisteners : nat.

Definition bout := outcome bshared unit bpc bret.

Definition nth1 {A} (l : list A) (i : nat) : option A :=
  match i with O => None | S j => nth_error l j end.
Definition upd1 {A} (l : list A) (i : nat) (x : A) : list A :=
  match i with O => l | S j => upd l j x end.

Definition take_tick (s : bshared) : Z * bshared :=
  match b_ticks s with
  | [] => (0, s)
  | t :: r => (t, BS (b_states s) (b_cur s) (b_wins s) (b_buckets s) r (b_log s))
  end.

Definition with_log (s : bshared) (l : list (nat * levent)) : bshared :=
  BS (b_states s) (b_cur s) (b_wins s) (b_buckets s) (b_ticks s) (b_log s ++ l).

(* one callback on every listener, in registration order *)
Definition each (f : nat -> list (nat * levent)) : list (nat * levent) :=
  flat_map f (seq 0 nlisteners).

Definition notify_state (s : bshared) (k : kind) : bshared :=
  with_log s (each (fun i => [(i, LStateChanged k); (i, LCountUpdated 0 0)])).
Definition notify_count (s : bshared) (e : Z * Z) : bshared :=
  with_log s (each (fun i => [(i, LCountUpdated (fst e) (snd e))])).
Definition notify_rejected (s : bshared) : bshared :=
  with_log s (each (fun i => [(i, LRejected)])).

Definition new_state (s : bshared) (st : bstate) : nat * bshared :=
  (S (length (b_states s)),
   BS (b_states s ++ [st]) (b_cur s) (b_wins s) (b_buckets s) (b_ticks s) (b_log s)).
Definition new_bucket (s : bshared) (ts : Z) : nat * bshared :=
  (S (length (b_buckets s)),
   BS (b_states s) (b_cur s) (b_wins s) (b_buckets s ++ [Bucket ts 0 0]) (b_ticks s) (b_log s)).
Definition new_window (s : bshared) (cur : nat) : nat * bshared :=
  (S (length (b_wins s)),
   BS (b_states s) (b_cur s) (b_wins s ++ [Window cur [] (0, 0)]) (b_buckets s) (b_ticks s) (b_log s)).
Definition set_cur (s : bshared) (c : nat) : bshared :=
  BS (b_states s) c (b_wins s) (b_buckets s) (b_ticks s) (b_log s).
Definition set_win (s : bshared) (w : nat) (x : swindow) : bshared :=
  BS (b_states s) (b_cur s) (upd1 (b_wins s) w x) (b_buckets s) (b_ticks s) (b_log s).
Definition set_bucket (s : bshared) (b : nat) (x : bucket) : bshared :=
  BS (b_states s) (b_cur s) (b_wins s) (upd1 (b_buckets s) b x) (b_ticks s) (b_log s).

Definition bucket_add (s : bshared) (b : nat) (succ : bool) : option bshared :=
  match nth1 (b_buckets s) b with
  | None => None
  | Some bk =>
      Some (set_bucket s b (if succ then Bucket (bk_ts bk) (wrap64 (bk_s bk + 1)) (bk_f bk)
                            else Bucket (bk_ts bk) (bk_s bk) (wrap64 (bk_f bk + 1))))
  end.

Definition offer (s : bshared) (w b : nat) : option bshared :=
  match nth1 (b_wins s) w with
  | None => None
  | Some x => Some (set_win s w (Window (w_cur x) (w_cells x ++ [(b, true)]) (w_snap x)))
  end.

(* first live cell at index >= from *)
Fixpoint first_live (cells : list (nat * bool)) (from idx : nat) : option (nat * nat) :=
  match cells with
  | [] => None
  | (b, live) :: r =>
      if live && Nat.leb from idx then Some (idx, b) else first_live r from (S idx)
  end.

Definition iter_at (cells : list (nat * bool)) (from : nat) (last : option nat) : it :=
  match first_live cells from 0 with
  | Some (idx, b) => It (Some idx) b last
  | None => It None 0%nat last
  end.

Definition kill (cells : list (nat * bool)) (idx : nat) : list (nat * bool) :=
  match nth_error cells idx with
  | Some (b, _) => upd cells idx (b, false)
  | None => cells
  end.

Definition goto (p : bpc) (s : bshared) : bout := Next p s.
Definition fin (r : bret) (s : bshared) : bout := Done r tt s.

(* the EventCount returned by a window report reaches its consumer *)
Definition deliver (k : wk) (e : option (Z * Z)) (s : bshared) : bout :=
  match k with
  | WKDirect => fin (BCount e) s
  | WKSuccess =>
      match e with
      | Some c => fin BU (notify_count s c)
      | None => fin BU s
      end
  | WKFailure cs =>
      match e with
      | None => fin BU s
      | Some c =>
          if exceeds cfg (fst c) (snd c) then goto (OFTick cs e) s
          else fin BU (notify_count s c)
      end
  end.

Definition reject (s : bshared) : bout := fin (BB false) (notify_rejected s).

Definition bstep (l : bpc) (s : bshared) : bout :=
  match l with
  | BInv CanRequest => goto CRLoad s
  | BInv OnSuccess => goto OSLoad s
  | BInv OnFailure => goto OFLoad s
  | BInv WSuccess => goto (WTick 1 true WKDirect) s
  | BInv WFailure => goto (WTick 1 false WKDirect) s
  | BInv WCount => goto (WSnapLoad 1) s
  (* ---- CanRequest *)
  | CRLoad =>
      match nth1 (b_states s) (b_cur s) with
      | None => Fault
      | Some st =>
          match st_kind st with
          | KClosed => fin (BB true) s
          | _ => if 0 <? st_dur st then goto (CRTick (b_cur s)) s else reject s
          end
      end
  | CRTick cs =>
      match nth1 (b_states s) cs with
      | None => Fault
      | Some st =>
          let '(t, s') := take_tick s in
          if st_timeout st <=? t then goto (CRTick2 cs) s' else reject s'
      end
  | CRTick2 cs =>
      let '(t, s1) := take_tick s in
      let '(n, s2) := new_state s1 (BState KHalfOpen 0 (wrap64 (t + trial cfg)) (trial cfg)) in
      goto (CRCas cs n) s2
  | CRCas cs n =>
      if Nat.eqb (b_cur s) cs then fin (BB true) (notify_state (set_cur s n) KHalfOpen)
      else reject s
  (* ---- OnSuccess *)
  | OSLoad =>
      match nth1 (b_states s) (b_cur s) with
      | None => Fault
      | Some st =>
          match st_kind st with
          | KClosed => goto (WTick (st_win st) true WKSuccess) s
          | KHalfOpen => goto (OSTick1 (b_cur s)) s
          | KOpen => fin BU s
          end
      end
  | OSTick1 cs =>
      let '(t, s1) := take_tick s in
      let '(b, s2) := new_bucket s1 t in
      goto (OSSnap cs b) s2
  | OSSnap cs b =>
      let '(w, s1) := new_window s b in
      goto (OSTick2 cs w) s1
  | OSTick2 cs w =>
      let '(t, s1) := take_tick s in
      let '(n, s2) := new_state s1 (BState KClosed w (wrap64 (t + 0)) 0) in
      goto (OSCas cs n) s2
  | OSCas cs n =>
      if Nat.eqb (b_cur s) cs then fin BU (notify_state (set_cur s n) KClosed) else fin BU s
  (* ---- OnFailure *)
  | OFLoad =>
      match nth1 (b_states s) (b_cur s) with
      | None => Fault
      | Some st =>
          match st_kind st with
          | KClosed => goto (WTick (st_win st) false (WKFailure (b_cur s))) s
          | KHalfOpen => goto (OFTick (b_cur s) None) s
          | KOpen => fin BU s
          end
      end
  | OFTick cs e =>
      let '(t, s1) := take_tick s in
      let '(n, s2) := new_state s1 (BState KOpen 0 (wrap64 (t + openw cfg)) (openw cfg)) in
      goto (OFCas cs n e) s2
  | OFCas cs n e =>
      if Nat.eqb (b_cur s) cs then fin BU (notify_state (set_cur s n) KOpen)
      else match e with
           | Some c => fin BU (notify_count s c)
           | None => fin BU s
           end
  (* ---- SlidingWindowCounter.onEvent *)
  | WTick w succ k => let '(t, s') := take_tick s in goto (WCur w succ k t) s'
  | WCur w succ k t =>
      match nth1 (b_wins s) w with
      | None => Fault
      | Some x =>
          match nth1 (b_buckets s) (w_cur x) with
          | None => Fault
          | Some cb =>
              if t <? bk_ts cb then
                let '(b, s') := new_bucket s t in goto (WAddInst w succ k b) s'
              else if t <? wrap64 (bk_ts cb + interval cfg) then goto (WAddCur succ k (w_cur x)) s
              else let '(nb, s') := new_bucket s t in goto (WAddNext w succ k (w_cur x) nb t) s'
          end
      end
  | WAddInst w succ k b =>
      match bucket_add s b succ with Some s' => goto (WOfferInst w k b) s' | None => Fault end
  | WOfferInst w k b =>
      match offer s w b with Some s' => deliver k None s' | None => Fault end
  | WAddCur succ k b =>
      match bucket_add s b succ with Some s' => deliver k None s' | None => Fault end
  | WAddNext w succ k cb nb t =>
      match bucket_add s nb succ with Some s' => goto (WCasCur w k cb nb t) s' | None => Fault end
  | WCasCur w k cb nb t =>
      match nth1 (b_wins s) w with
      | None => Fault
      | Some x =>
          if Nat.eqb (w_cur x) cb then
            goto (WOfferOld w k cb t) (set_win s w (Window nb (w_cells x) (w_snap x)))
          else goto (WOfferNext w k nb) s
      end
  | WOfferOld w k cb t =>
      match offer s w cb with Some s' => goto (WIter w k t) s' | None => Fault end
  | WOfferNext w k nb =>
      match offer s w nb with Some s' => deliver k None s' | None => Fault end
  (* trimAndSum(t) *)
  | WIter w k t =>
      match nth1 (b_wins s) w with
      | None => Fault
      | Some x => goto (WHasNext w k t (iter_at (w_cells x) 0 None) 0 0) s
      end
  | WHasNext w k t i sc fc =>
      match i_cursor i with
      | Some _ => goto (WNext w k t i sc fc) s
      | None => goto (WSnapStore w k sc fc) s
      end
  | WNext w k t i sc fc =>
      match nth1 (b_wins s) w, i_cursor i with
      | Some x, Some c =>
          let b := i_val i in
          let i' := iter_at (w_cells x) (S c) (Some c) in
          match nth1 (b_buckets s) b with
          | None => Fault
          | Some bk =>
              if bk_ts bk <? wrap64 (t - window cfg) then goto (WRemove w k t i' sc fc) s
              else goto (WSumS w k t i' sc fc b) s
          end
      | Some _, None => goto (WHasNext w k t i sc fc) s   (* Next returned nil *)
      | None, _ => Fault
      end
  | WRemove w k t i sc fc =>
      match nth1 (b_wins s) w with
      | None => Fault
      | Some x =>
          let cells := match i_last i with Some c => kill (w_cells x) c | None => w_cells x end in
          goto (WHasNext w k t (It (i_cursor i) (i_val i) None) sc fc)
               (set_win s w (Window (w_cur x) cells (w_snap x)))
      end
  | WSumS w k t i sc fc b =>
      match nth1 (b_buckets s) b with
      | None => Fault
      | Some bk => goto (WSumF w k t i (wrap64 (sc + bk_s bk)) fc b) s
      end
  | WSumF w k t i sc fc b =>
      match nth1 (b_buckets s) b with
      | None => Fault
      | Some bk => goto (WHasNext w k t i sc (wrap64 (fc + bk_f bk))) s
      end
  | WSnapStore w k sc fc =>
      match nth1 (b_wins s) w with
      | None => Fault
      | Some x => deliver k (Some (sc, fc)) (set_win s w (Window (w_cur x) (w_cells x) (sc, fc)))
      end
  | WSnapLoad w =>
      match nth1 (b_wins s) w with
      | None => Fault
      | Some x => fin (BCount (Some (w_snap x))) s
      end
  end.

Definition breaker : machine bshared unit bpc bop bret :=
  Machine (fun _ o => BInv o) bstep (fun _ => false).

(* NewNonBlockingCircuitBreaker: newClosedState() reads the ticker twice, then the
   CLOSED transition is announced to every listener *)
Definition binit (ticks : list Z) : bshared :=
  let s0 := BS [] 0 [] [] ticks [] in
  let '(t1, s1) := take_tick s0 in
  let '(b, s2) := new_bucket s1 t1 in
  let '(w, s3) := new_window s2 b in
  let '(t2, s4) := take_tick s3 in
  let '(n, s5) := new_state s4 (BState KClosed w (wrap64 (t2 + 0)) 0) in
  notify_state (set_cur s5 n) KClosed.

(* NewSlidingWindowCounter alone (kind "window"): one reading, no listeners involved *)
Definition winit (ticks : list Z) : bshared :=
  let s0 := BS [] 0 [] [] ticks [] in
  let '(t1, s1) := take_tick s0 in
  let '(b, s2) := new_bucket s1 t1 in
  let '(w, s3) := new_window s2 b in
  s3.

End Breaker.
