(** The sliding-window counter alone (model operations WSuccess / WFailure /
    WCount on window 1 from [winit ticks]), driven by ONE thread, behaves
    exactly like the reference window [rwin_step] built from [report] of
    Ref.v (sequential part of C10). *)
From Coq Require Import List Arith Bool ZArith Lia.
From Garr Require Import Conc.Conc Pure.F64 Pure.Config Breaker.BreakerModel Breaker.Ref
  Breaker.SeqRefine.
Import ListNotations.
Local Open Scope Z_scope.

Local Arguments nth1 : simpl never.
Local Arguments upd1 : simpl never.

(** * The reference window *)

Record rwin := RW { rw_cur : rbucket; rw_res : list rbucket; rw_snap : Z * Z; rw_ticks : list Z }.

Definition window_op (o : bop) : bool :=
  match o with WSuccess | WFailure | WCount => true | _ => false end.

Section Window.
Variable cfg : cb_config.

(** a report reads one tick; the snapshot is replaced when the bucket rolled *)
Definition rwin_event (w : rwin) (succ : bool) : rwin * bret :=
  let t := hd 0 (rw_ticks w) in
  let '(cur', res', cnt) := report cfg (rw_cur w) (rw_res w) succ t in
  (RW cur' res' (match cnt with Some c => c | None => rw_snap w end) (tl (rw_ticks w)),
   BCount cnt).

Definition rwin_step (w : rwin) (o : bop) : rwin * bret :=
  match o with
  | WSuccess => rwin_event w true
  | WFailure => rwin_event w false
  | WCount => (w, BCount (Some (rw_snap w)))
  | _ => (w, BU)
  end.

Fixpoint rwin_run (w : rwin) (ops : list bop) : rwin * list bret :=
  match ops with
  | [] => (w, [])
  | o :: rest =>
      let '(w1, x) := rwin_step w o in
      let '(w2, xs) := rwin_run w1 rest in
      (w2, x :: xs)
  end.

(** NewSlidingWindowCounter: one reading *)
Definition rwin_init (ticks : list Z) : rwin :=
  RW (RB (hd 0 ticks) 0 0) [] (0, 0) (tl ticks).

Variable nl : nat.

Notation stp := (bstep cfg nl).
Notation reach := (reach cfg nl).
Notation completes := (completes cfg nl).

(** [Rwin] of SeqRefine.v plus the snapshot *)
Definition RwinS (wins : list swindow) (bks : list bucket) (w : nat)
           (cur : rbucket) (res : list rbucket) (snap : Z * Z) : Prop :=
  exists x, nth1 wins w = Some x /\ w_snap x = snap /\ P bks (w_cur x) cur /\
            Forall2 (P bks) (live (w_cells x)) res /\ ~ In (w_cur x) (live (w_cells x)).

Lemma report_simS sts c wins bks tks lg w cur res snap succ k :
  RwinS wins bks w cur res snap ->
  exists l1 s1 wins' bks',
    reach (WTick w succ k) (BS sts c wins bks tks lg) l1 s1 /\
    stp l1 s1 = deliver cfg nl k (snd (report cfg cur res succ (hd 0 tks)))
                        (BS sts c wins' bks' (tl tks) lg) /\
    RwinS wins' bks' w (fst (fst (report cfg cur res succ (hd 0 tks))))
                       (snd (fst (report cfg cur res succ (hd 0 tks))))
                       (match snd (report cfg cur res succ (hd 0 tks)) with
                        | Some e => e | None => snap end).
Proof.
  intros ([xc cells snap0] & Hx & Hsnap & Hcur & Hres & Hnin); simpl in *. subst snap0.
  set (t := hd 0 tks).
  assert (Hxc : (xc <= length bks)%nat) by (apply nth1_Some_le in Hcur; lia).
  pose proof (P_le _ _ _ Hres) as Hle.
  unfold report.
  destruct (t <? rb_ts cur) eqn:E1; [|destruct (t <? wrap64 (rb_ts cur + interval cfg)) eqn:E2];
    cbn [fst snd].
  - (* instant bucket *)
    do 4 eexists. split; [|split].
    + eapply reach_step. { cbn -[take_tick]. rewrite take_tick_eq. reflexivity. }
      eapply reach_step. { cbn -[wrap64]. rewrite Hx. cbn -[wrap64]. rewrite Hcur. cbn -[wrap64]. fold t. rewrite E1. reflexivity. }
      eapply reach_step. { cbn -[wrap64]. unfold bucket_add. cbn -[wrap64]. rewrite nth1_app_new. cbn -[wrap64]. reflexivity. }
      apply reach_refl.
    + cbn -[wrap64]. unfold offer. cbn -[wrap64]. rewrite Hx. cbn -[wrap64]. reflexivity.
    + unfold set_bucket; cbn [b_states b_cur b_wins b_buckets b_ticks b_log].
      set (b := S (length bks)).
      match goal with |- context [if succ then ?A else ?B] =>
        replace (if succ then A else B) with (bk_of (bump (RB t 0 0) succ))
          by (destruct succ; reflexivity) end.
      exists (Window xc (cells ++ [(b, true)]) snap). cbn [w_cur w_cells w_snap].
      split; [eapply nth1_upd1_same; eauto|]. split; [reflexivity|]. split; [|split].
      * apply P_upd; [unfold b; lia | apply P_app, Hcur].
      * rewrite live_app. apply Forall2_app.
        -- eapply Forall2_P_mono; [|exact Hres]. intros id rb Hin Hp.
           apply P_upd; [apply Hle in Hin; unfold b; lia | apply P_app, Hp].
        -- unfold live; simpl. constructor; [|constructor].
           unfold P. eapply nth1_upd1_same. apply nth1_app_new.
      * rewrite live_app. intros Hin. apply in_app_or in Hin.
        destruct Hin as [Hin|Hin]; [auto|]. unfold live in Hin; simpl in Hin.
        destruct Hin as [Hin|[]]. unfold b in Hin; lia.
  - (* same interval: count in the current bucket *)
    do 4 eexists. split; [|split].
    + eapply reach_step. { cbn -[take_tick]. rewrite take_tick_eq. reflexivity. }
      eapply reach_step. { cbn -[wrap64]. rewrite Hx. cbn -[wrap64]. rewrite Hcur. cbn -[wrap64]. fold t. rewrite E1, E2. reflexivity. }
      apply reach_refl.
    + cbn -[wrap64]. unfold bucket_add. cbn -[wrap64]. rewrite Hcur. cbn -[wrap64]. reflexivity.
    + unfold set_bucket; cbn [b_states b_cur b_wins b_buckets b_ticks b_log].
      match goal with |- context [if succ then ?A else ?B] =>
        replace (if succ then A else B) with (bk_of (bump cur succ))
          by (destruct succ; reflexivity) end.
      exists (Window xc cells snap). cbn [w_cur w_cells w_snap].
      split; [exact Hx|]. split; [reflexivity|]. split; [|split; [|exact Hnin]].
      * unfold P. eapply nth1_upd1_same. exact Hcur.
      * eapply Forall2_P_mono; [|exact Hres]. intros id rb Hin Hp.
        apply P_upd; [intros ->; auto | exact Hp].
  - (* roll *)
    set (nb := S (length bks)).
    set (bks2 := upd1 (bks ++ [Bucket t 0 0]) nb (bk_of (bump (RB t 0 0) succ))).
    set (cells1 := cells ++ [(xc, true)]).
    assert (Hmono : forall id rb, (id <= length bks)%nat -> P bks id rb -> P bks2 id rb).
    { intros id rb Hid Hp. apply P_upd; [unfold nb; lia | apply P_app, Hp]. }
    assert (Hres1 : Forall2 (P bks2) (live cells1) (res ++ [cur])).
    { unfold cells1. rewrite live_app. apply Forall2_app.
      - eapply Forall2_P_mono; [|exact Hres]. intros id rb Hin Hp. apply Hmono; auto.
      - unfold live; simpl. constructor; [|constructor]. apply Hmono; auto. }
    destruct (trim_spec cfg bks2 t cells1 (res ++ [cur]) 0 0 Hres1) as (T1 & T2 & T3).
    pose proof (P_valid _ _ _ Hres1) as Hv.
    set (res' := filter (keep cfg t) (res ++ [cur])) in *.
    eexists _, _, (upd1 wins w (Window nb (trim cfg bks2 t cells1) (sum_s res', sum_f res'))), bks2.
    split; [|split].
    + eapply reach_step. { cbn -[take_tick]. rewrite take_tick_eq. reflexivity. }
      eapply reach_step. { cbn -[wrap64]. rewrite Hx. cbn -[wrap64]. rewrite Hcur. cbn -[wrap64]. fold t. rewrite E1, E2. reflexivity. }
      eapply reach_step. { cbn -[wrap64]. unfold bucket_add. cbn -[wrap64]. rewrite nth1_app_new. cbn -[wrap64]. reflexivity. }
      unfold set_bucket; cbn [b_states b_cur b_wins b_buckets b_ticks b_log].
      match goal with |- context [if succ then ?A else ?B] =>
        replace (if succ then A else B) with (bk_of (bump (RB t 0 0) succ))
          by (destruct succ; reflexivity) end.
      fold nb. fold bks2.
      eapply reach_step. { cbn. rewrite Hx. cbn. rewrite Nat.eqb_refl. reflexivity. }
      eapply reach_step. { cbn. unfold offer. cbn. rewrite (nth1_upd1_same _ _ _ _ Hx). unfold set_win; cbn. rewrite upd1_upd1. reflexivity. }
      eapply reach_step. { cbn. rewrite (nth1_upd1_same _ _ _ _ Hx). cbn. reflexivity. }
      fold cells1.
      eapply reach_trans; [|apply reach_refl].
      apply (loop_sim cfg nl w k t sts c bks2 (tl tks) lg nb snap cells1 [] _ 0 0 None).
      * apply (nth1_upd1_same _ _ _ _ Hx).
      * exact Hv.
    + cbn. rewrite upd1_upd1. rewrite (nth1_upd1_same _ _ _ _ Hx). unfold set_win; cbn. rewrite upd1_upd1.
      rewrite T2. reflexivity.
    + exists (Window nb (trim cfg bks2 t cells1) (sum_s res', sum_f res')). cbn [w_cur w_cells w_snap].
      split; [apply (nth1_upd1_same _ _ _ _ Hx)|]. split; [reflexivity|].
      split; [|split; [exact T1|]].
      * unfold P, bks2. eapply nth1_upd1_same. apply nth1_app_new.
      * intros Hin. apply T3 in Hin. unfold cells1 in Hin. rewrite live_app in Hin.
        apply in_app_or in Hin. destruct Hin as [Hin|Hin].
        -- apply Hle in Hin. unfold nb in Hin. lia.
        -- unfold live in Hin; simpl in Hin. destruct Hin as [Hin|[]]. unfold nb in Hin. lia.
Qed.

(** * Simulation relation and the per-operation lemma *)

Definition RW_rel (s : bshared) (w : rwin) : Prop :=
  b_ticks s = rw_ticks w /\ b_log s = [] /\
  RwinS (b_wins s) (b_buckets s) 1 (rw_cur w) (rw_res w) (rw_snap w).

Lemma wop_sim s w o :
  RW_rel s w -> window_op o = true ->
  exists s', completes (BInv o) s (snd (rwin_step w o)) s' /\ RW_rel s' (fst (rwin_step w o)).
Proof.
  destruct s as [sts c wins bks tks lg], w as [cur res snap wtk].
  intros (Htk & Hlog & HW) Ho; simpl in Htk, Hlog, HW; subst wtk lg.
  assert (Hev : forall succ,
    exists s', completes (WTick 1 succ WKDirect) (BS sts c wins bks tks [])
                         (snd (rwin_event (RW cur res snap tks) succ)) s' /\
               RW_rel s' (fst (rwin_event (RW cur res snap tks) succ))).
  { intros succ.
    destruct (report_simS sts c wins bks tks [] 1%nat cur res snap succ WKDirect HW)
      as (l1 & s1 & wins' & bks' & Hr & Hd & HW').
    unfold rwin_event; cbn [rw_cur rw_res rw_snap rw_ticks].
    destruct (report cfg cur res succ (hd 0 tks)) as [[cur' res'] cnt]; cbn [fst snd] in *.
    eexists; split.
    - exists l1, s1. split; [exact Hr | exact Hd].
    - split; [reflexivity|]. split; [reflexivity|]. exact HW'. }
  destruct o; try discriminate Ho; clear Ho.
  - destruct (Hev true) as (s' & Hc & HR). exists s'. split; [|exact HR].
    eapply reach_completes; [|exact Hc]. eapply reach_step; [reflexivity | apply reach_refl].
  - destruct (Hev false) as (s' & Hc & HR). exists s'. split; [|exact HR].
    eapply reach_completes; [|exact Hc]. eapply reach_step; [reflexivity | apply reach_refl].
  - destruct HW as (x & Hx & Hsnap & HW). eexists; split.
    + eexists (WSnapLoad 1), _. split; [eapply reach_step; [reflexivity | apply reach_refl]|].
      cbn. rewrite Hx, Hsnap. reflexivity.
    + split; [reflexivity|]. split; [reflexivity|]. exists x. auto.
Qed.

Lemma RW_init ticks : RW_rel (winit ticks) (rwin_init ticks).
Proof.
  destruct ticks as [|t1 ticks]; cbn;
    (split; [reflexivity|]; split; [reflexivity|];
     eexists; split; [reflexivity|]; cbn; split; [reflexivity|]; split; [reflexivity|];
     split; [constructor | intros []]).
Qed.

Lemma wrun_ops : forall ops s w,
  RW_rel s w -> (forall o, In o ops -> window_op o = true) ->
  exists k s' e,
    runs cfg nl (quiet s ops) k (quiet s' []) e /\
    rets e = snd (rwin_run w ops) /\ RW_rel s' (fst (rwin_run w ops)).
Proof.
  induction ops as [|o ops IH]; intros s w HR Hops.
  - exists 0%nat, s, []. split; [reflexivity|]. split; [reflexivity | exact HR].
  - destruct (wop_sim s w o HR (Hops o (or_introl eq_refl))) as (s1 & Hc & HR1).
    destruct (solo_call cfg nl o s _ s1 ops Hc) as (k1 & Hk1).
    destruct (IH s1 _ HR1 (fun o' H => Hops o' (or_intror H))) as (k2 & s2 & e2 & Hk2 & He2 & HR2).
    exists (k1 + k2)%nat, s2, ([EInv 0%nat o; ERet 0%nat o (snd (rwin_step w o))] ++ e2).
    split; [eapply runs_trans; eassumption|].
    simpl rwin_run. destruct (rwin_step w o) as [w1 x]. simpl fst in *; simpl snd in *.
    destruct (rwin_run w1 ops) as [w2 xs]. simpl fst in *; simpl snd in *.
    split; [|exact HR2]. rewrite rets_app, He2. reflexivity.
Qed.

End Window.

(** C10, sequential part: one thread calling the window directly gets the
    reference's answers, consumes the same ticker readings, and never touches
    the listener log. *)
Theorem window_refines_reference : forall cfg nl ticks ops,
  (forall o, In o ops -> window_op o = true) ->
  exists n, forall m, (n <= m)%nat ->
    let '(c, e) := run (breaker cfg nl) (init bpc (winit ticks) tt [ops]) (repeat 0%nat m) in
    let '(w, xs) := rwin_run cfg (rwin_init ticks) ops in
    rets e = xs /\ b_ticks (c_sh c) = rw_ticks w /\ b_log (c_sh c) = [].
Proof.
  intros cfg nl ticks ops Hops.
  destruct (wrun_ops cfg nl ops _ _ (RW_init ticks) Hops) as (n & s' & e & Hn & He & HR).
  exists n. intros m Hm.
  assert (Hrun : runs cfg nl (quiet (winit ticks) ops) (n + (m - n)) (quiet s' []) (e ++ [])).
  { eapply runs_trans; [exact Hn | apply solo_idle]. }
  replace (n + (m - n))%nat with m in Hrun by lia. rewrite app_nil_r in Hrun.
  unfold runs in Hrun. change (init bpc (winit ticks) tt [ops]) with (quiet (winit ticks) ops).
  rewrite Hrun.
  destruct (rwin_run cfg (rwin_init ticks) ops) as [w xs]. simpl in He, HR.
  destruct HR as (Htk & Hlog & _). simpl. auto.
Qed.

Print Assumptions window_refines_reference.
