(** Concurrent safety of the circuit breaker, part 3 (T3b): a CLOSED state
    object installed by OnSuccess carries a brand-new, empty, private window.

    While a thread is between [OSSnap] and [OSCas] the window it created (and
    that window's current bucket) is referenced by nobody else: not by the
    state the pointer designates, not by any thread inside the sliding-window
    code.  Needs the pointer invariant (ConcInv) and the bucket accounting
    (ConcWin), plus two more accountings: who owns a state id (the pointer or
    the thread about to CAS it in) and who owns a window id (a state object or
    the thread about to wrap it in one). *)
From Coq Require Import List Arith Bool ZArith Lia.
From Garr Require Import Conc.Conc Pure.F64 Pure.Config Breaker.BreakerModel
  Breaker.ConcBase Breaker.ConcInv Breaker.ConcWin.
Import ListNotations.

(* the window a thread inside SlidingWindowCounter code operates on *)
Definition wreg (l : bpc) : option nat :=
  match l with
  | WTick w _ _ | WCur w _ _ _ | WAddInst w _ _ _ | WOfferInst w _ _
  | WAddNext w _ _ _ _ _ | WCasCur w _ _ _ _ | WOfferOld w _ _ _ | WOfferNext w _ _
  | WIter w _ _ | WHasNext w _ _ _ _ _ | WNext w _ _ _ _ _ | WRemove w _ _ _ _ _
  | WSumS w _ _ _ _ _ _ | WSumF w _ _ _ _ _ _ | WSnapStore w _ _ _ | WSnapLoad w => Some w
  | _ => None
  end.

(* the (published) bucket a thread is about to add to *)
Definition addcur (l : bpc) : option nat :=
  match l with WAddCur _ _ b => Some b | _ => None end.

Definition casn (l : bpc) : list nat :=
  match cas_of l with Some (_, n) => [n] | None => [] end.

Definition tick2w (l : bpc) : list nat :=
  match l with OSTick2 _ w => [w] | _ => [] end.

(* the private window / bucket of a thread in the OnSuccess HALF_OPEN -> CLOSED path *)
Definition fw (s : bshared) (l : bpc) : option nat :=
  match l with
  | OSTick2 _ w => Some w
  | OSCas _ n => match nth1 (b_states s) n with Some st => Some (st_win st) | None => None end
  | _ => None
  end.

Definition fb (s : bshared) (l : bpc) : option nat :=
  match l with
  | OSSnap _ b => Some b
  | _ => match fw s l with
         | Some w => match nth1 (b_wins s) w with Some x => Some (w_cur x) | None => None end
         | None => None
         end
  end.

Definition zero_bucket (s : bshared) (b : nat) : Prop :=
  exists ts, nth1 (b_buckets s) b = Some (Bucket ts 0 0).

Definition fresh_win (s : bshared) (w : nat) : Prop :=
  2 <= w /\ exists b, nth1 (b_wins s) w = Some (Window b [] (0%Z, 0%Z)) /\ zero_bucket s b.

Definition Pf (s : bshared) (l : bpc) : Prop :=
  match l with
  | OSSnap _ b => zero_bucket s b
  | OSTick2 _ w => fresh_win s w
  | OSCas _ n => exists w ts, nth1 (b_states s) n = Some (BState KClosed w ts 0) /\ fresh_win s w
  | _ => True
  end.

Definition Pv (s : bshared) (l : bpc) : Prop :=
  (forall w, wreg l = Some w -> w <= length (b_wins s)) /\
  (forall b, addcur l = Some b -> 1 <= b <= length (b_buckets s)).

Definition noclash (s : bshared) (l1 l2 : bpc) : Prop :=
  (forall w, fw s l1 = Some w -> wreg l2 <> Some w) /\
  (forall b, fb s l1 = Some b -> addcur l2 <> Some b).

Section Single.
Variable cfg : cb_config.
Variable nl : nat.

(** *** what one step of one thread can do (no invariant needed) *)

Lemma step_frame l s l' s' :
  pstep cfg nl l s = Some (l', s') ->
  (forall w x, nth1 (b_wins s) w = Some x -> wreg l <> Some w -> nth1 (b_wins s') w = Some x) /\
  (forall b x, nth1 (b_buckets s) b = Some x -> ~ In b (held l) -> addcur l <> Some b ->
               nth1 (b_buckets s') b = Some x) /\
  length (b_wins s) <= length (b_wins s') /\ length (b_buckets s) <= length (b_buckets s').
Proof.
  intros H.
  destruct l; unfold_step H; repeat break1 H; try discriminate H;
  injection H as <- <-; eqb_clean; subst; simpl;
  rewrite ?upd1_length, ?app_length; simpl;
  (split; [|split; [|lia]]).
  all: let w := fresh "w" in let x := fresh "x" in let Hw := fresh "Hw" in
       try (intros w x Hw Hne;
         first [ exact Hw | apply nth1_app; exact Hw
               | rewrite nth1_upd1;
                 match goal with |- (if Nat.eqb ?a ?b then _ else _) = _ =>
                   destruct (Nat.eqb_spec a b) as [E|E]; [exfalso; subst; apply Hne; reflexivity|exact Hw] end ]).
  all: let b := fresh "b" in let x := fresh "x" in let Hb := fresh "Hb" in
       intros b x Hb Hh Ha;
         first [ exact Hb | apply nth1_app; exact Hb
               | rewrite nth1_upd1;
                 match goal with |- (if Nat.eqb ?a ?b then _ else _) = _ =>
                   destruct (Nat.eqb_spec a b) as [E|E];
                   [exfalso; subst; first [apply Ha; reflexivity | apply Hh; left; reflexivity]|exact Hb] end ].
Qed.

(* ownership of state ids: the pointer, or the thread about to CAS the id in *)
Lemma step5 l s l' s' :
  pstep cfg nl l s = Some (l', s') ->
  length (b_states s) <= length (b_states s') <= S (length (b_states s)) /\
  forall n, eqn (b_cur s') n + cnt (casn l') n <=
            eqn (b_cur s) n + cnt (casn l) n +
            eqn n (S (length (b_states s))) * (length (b_states s') - length (b_states s)).
Proof.
  intros H.
  destruct l; unfold_step H; repeat break1 H; try discriminate H;
  injection H as <- <-; eqb_clean; subst;
  (split; [simpl; rewrite ?app_length; simpl; lia|]);
  simpl length; rewrite ?app_length; simpl length; intros n0; unfold casn; simpl; eqn_lia.
Qed.

(* ownership of window ids: a state object, or the thread about to wrap it in one *)
Lemma step3 l s l' s' :
  pstep cfg nl l s = Some (l', s') ->
  length (b_wins s) <= length (b_wins s') <= S (length (b_wins s)) /\
  forall w, 1 <= w ->
    cnt (map st_win (b_states s')) w + cnt (tick2w l') w <=
    cnt (map st_win (b_states s)) w + cnt (tick2w l) w +
    eqn w (S (length (b_wins s))) * (length (b_wins s') - length (b_wins s)).
Proof.
  intros H.
  destruct l; unfold_step H; repeat break1 H; try discriminate H;
  injection H as <- <-; eqb_clean; subst;
  (split; [simpl; rewrite ?upd1_length, ?app_length; simpl; lia|]);
  simpl length; rewrite ?upd1_length, ?app_length; simpl length; intros w0 Hw0; simpl;
  rewrite ?map_app, ?cnt_app; simpl; eqn_lia.
Qed.

(* where the window register of the sliding-window code comes from *)
Lemma wreg_step l s l' s' w :
  pstep cfg nl l s = Some (l', s') -> wreg l' = Some w ->
  wreg l = Some w \/ ((exists o, l = BInv o) /\ w = 1) \/
  ((l = OSLoad \/ l = OFLoad) /\ exists st, nth1 (b_states s) (b_cur s) = Some st /\ st_win st = w).
Proof.
  intros H.
  destruct l; unfold_step H; repeat break1 H; try discriminate H;
  injection H as <- <-; simpl; intros Hw; try discriminate Hw; auto;
  injection Hw as <-; eauto 8.
Qed.

(* the bucket register of [WAddCur] is the current bucket of the thread's window *)
Lemma addcur_step l s l' s' b :
  pstep cfg nl l s = Some (l', s') -> addcur l' = Some b ->
  exists w x, wreg l = Some w /\ nth1 (b_wins s) w = Some x /\ w_cur x = b.
Proof.
  intros H.
  destruct l; unfold_step H; repeat break1 H; try discriminate H;
  injection H as <- <-; simpl; intros Hb; try discriminate Hb.
  injection Hb as <-. eauto.
Qed.

(* a private window is either inherited from the previous pc or brand new *)
Lemma fw_step l s l' s' w :
  pstep cfg nl l s = Some (l', s') -> fw s' l' = Some w ->
  fw s l = Some w \/ w = S (length (b_wins s)).
Proof.
  intros H.
  destruct l; unfold_step H; repeat break1 H; try discriminate H;
  injection H as <- <-; simpl; rewrite ?nth1_new; simpl; intros Hw; try discriminate Hw; auto; right; congruence.
Qed.

Lemma fb_step l s l' s' b :
  pstep cfg nl l s = Some (l', s') -> fb s' l' = Some b ->
  fb s l = Some b \/ b = S (length (b_buckets s)).
Proof.
  intros H.
  destruct l; unfold_step H; repeat break1 H; try discriminate H;
  injection H as <- <-; simpl; rewrite ?nth1_new; simpl; intros Hb; try discriminate Hb; auto; right; congruence.
Qed.

Lemma Pf_step l s l' s' :
  1 <= length (b_wins s) -> Pf s l -> pstep cfg nl l s = Some (l', s') -> Pf s' l'.
Proof.
  intros H0 HP H.
  destruct l; unfold_step H; repeat break1 H; try discriminate H;
  injection H as <- <-; simpl in *; try exact I.
  - eexists; apply nth1_new.
  - eexists; apply nth1_new.
  - split; [lia|]. exists b. split; [apply nth1_new|exact HP].
  - eexists _, _. split; [apply nth1_new|exact HP].
  - eexists _, _. split; [apply nth1_new|exact HP].
Qed.

End Single.

