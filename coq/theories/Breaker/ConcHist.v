(** Log reasoning for the interleaving semantics: positions of the [steps_of]
    log, the step a thread takes at a position, and - the tool everything in
    ConcOne / ConcReport rests on - the PREVIOUS step of the same thread
    ([prev_step]): a thread that steps from a stored program counter [l] at
    log position [k] produced [l] itself at an earlier position [j], and took
    no step in between.  Chaining it reconstructs the whole call (load, tick
    readings, CAS) from its last step, without any ghost state.

    Second half: the breaker's state pointer along the log (monotone, state
    objects append-only, it moves only by a successful CAS). *)
From Coq Require Import List Arith Bool ZArith Lia.
From Garr Require Import Conc.Conc Pure.F64 Pure.Config Breaker.BreakerModel
  Breaker.ConcBase Breaker.ConcInv.
Import ListNotations.

(** * Generic part *)
Section Hist.
Context {sh ts lo op ret : Type}.
Variable M : machine sh ts lo op ret.
Notation config := (config sh ts lo op).

(* what thread [t] of [c] steps from: operation, program counter, is it the invocation *)
Definition stepper (c : config) (t : nat) : option (op * lo * bool) :=
  match nth_error (c_thr c) t with Some th => view M th | None => None end.

Lemma steps_of_app c s1 s2 :
  steps_of M c (s1 ++ s2) = steps_of M c s1 ++ steps_of M (final M c s1) s2.
Proof.
  revert c; induction s1 as [|t s1 IH]; intros c; [reflexivity|].
  simpl app. cbn [steps_of]. rewrite final_cons.
  destruct (step_thread M c t) as [[c' e]|] eqn:E.
  - rewrite (step_cfg_some _ _ _ _ _ E). simpl. f_equal. apply IH.
  - rewrite (step_cfg_none _ _ _ E). apply IH.
Qed.

(* the log up to position k is the log of a prefix of the schedule *)
Lemma steps_of_prefix c sched k ck t :
  nth_error (steps_of M c sched) k = Some (ck, t) ->
  exists s1 s2, sched = s1 ++ t :: s2 /\ ck = final M c s1 /\
    steps_of M c s1 = firstn k (steps_of M c sched) /\ step_thread M ck t <> None.
Proof.
  revert c k. induction sched as [|t0 s IH]; intros c k H.
  - destruct k; discriminate.
  - cbn [steps_of] in *. destruct (step_thread M c t0) as [[c' e]|] eqn:E.
    + destruct k as [|k].
      * injection H as <- <-. exists [], s. repeat split; auto. congruence.
      * cbn [nth_error] in H. destruct (IH _ _ H) as (s1 & s2 & H1 & H2 & H3 & H4).
        exists (t0 :: s1), s2. rewrite final_cons, (step_cfg_some _ _ _ _ _ E).
        repeat split; auto.
        -- simpl. f_equal. exact H1.
        -- cbn [steps_of]. rewrite E. simpl. f_equal. exact H3.
    + destruct (IH _ _ H) as (s1 & s2 & H1 & H2 & H3 & H4).
      exists (t0 :: s1), s2. rewrite final_cons, (step_cfg_none _ _ _ E).
      repeat split; auto.
      * simpl. f_equal. exact H1.
      * cbn [steps_of]. rewrite E. exact H3.
Qed.

Lemma steps_of_enabled c sched k ck t :
  nth_error (steps_of M c sched) k = Some (ck, t) -> exists c' e, step_thread M ck t = Some (c', e).
Proof.
  intros H. destruct (steps_of_prefix _ _ _ _ _ H) as (_ & _ & _ & _ & _ & H4).
  destruct (step_thread M ck t) as [[c' e]|]; [eauto|congruence].
Qed.

Lemma steps_of_head c s c' t : nth_error (steps_of M c s) 0 = Some (c', t) -> c' = c.
Proof.
  revert c; induction s as [|t0 s IH]; intros c H; [discriminate|].
  cbn [steps_of] in H. destruct (step_thread M c t0) as [[c1 e]|] eqn:E.
  - simpl in H. congruence.
  - apply IH. exact H.
Qed.

(* consecutive log entries: the next configuration is the successor *)
Lemma steps_of_succ c sched i ci ti cj tj :
  nth_error (steps_of M c sched) i = Some (ci, ti) ->
  nth_error (steps_of M c sched) (S i) = Some (cj, tj) -> cj = step_cfg M ci ti.
Proof.
  intros Hi Hj. destruct (steps_of_split _ _ _ _ _ _ Hi) as (s1 & s2 & ci' & e & H1 & H2 & H3).
  rewrite (step_cfg_some _ _ _ _ _ H2).
  assert (H0 : nth_error (steps_of M ci' s2) 0 = Some (cj, tj)).
  { rewrite <- H3, nth_error_skipn. rewrite Nat.add_0_r. exact Hj. }
  apply steps_of_head in H0. exact H0.
Qed.

Lemma steps_of_later' c sched i j ci ti cj tj :
  nth_error (steps_of M c sched) i = Some (ci, ti) ->
  nth_error (steps_of M c sched) j = Some (cj, tj) -> i < j ->
  exists s3, cj = final M (step_cfg M ci ti) s3.
Proof.
  intros Hi Hj Hlt.
  destruct (steps_of_later _ _ _ _ _ _ _ _ _ Hi Hj Hlt) as (s1 & ci' & e & s3 & E1 & E2 & E3).
  exists s3. rewrite (step_cfg_some _ _ _ _ _ E2). exact E3.
Qed.

(** ** the last step of a thread *)
Definition last_step (L : list (config * nat)) (t : nat) (o : op) (l : lo) : Prop :=
  exists j cj lj fresh s',
    nth_error L j = Some (cj, t) /\ stepper cj t = Some (o, lj, fresh) /\
    m_step M lj (c_sh cj) = Next l s' /\
    forall m cm tm, j < m -> nth_error L m = Some (cm, tm) -> tm <> t.

Lemma stepper_step c t c' e :
  step_thread M c t = Some (c', e) ->
  exists th o l fresh, nth_error (c_thr c) t = Some th /\ view M th = Some (o, l, fresh) /\
    stepper c t = Some (o, l, fresh) /\
    ((exists l' s', m_step M l (c_sh c) = Next l' s' /\
        c' = Config s' (upd (c_thr c) t (Thread (rest_prog th fresh) (t_ts th) (Some (o, l')) false))) \/
     (exists r u s', m_step M l (c_sh c) = Done r u s' /\
        c' = Config s' (upd (c_thr c) t (Thread (rest_prog th fresh) u None false))) \/
     (m_step M l (c_sh c) = Fault /\
        c' = Config (c_sh c) (upd (c_thr c) t (Thread (rest_prog th fresh) (t_ts th) None true)))).
Proof.
  unfold step_thread, stepper. destruct (nth_error (c_thr c) t) as [th|] eqn:Hn; [|discriminate].
  destruct (view M th) as [[[o l] fresh]|] eqn:Hv; [|discriminate].
  intros H. exists th, o, l, fresh. repeat split; auto.
  destruct (m_step M l (c_sh c)) as [l' s'|r u s'| |]; try discriminate; injection H as <- _.
  - left. eauto.
  - right; left. eauto.
  - right; right. auto.
Qed.

Lemma hist c0 :
  (forall t th, nth_error (c_thr c0) t = Some th -> t_cur th = None) ->
  forall sched t th o l,
    nth_error (c_thr (final M c0 sched)) t = Some th -> t_cur th = Some (o, l) ->
    last_step (steps_of M c0 sched) t o l.
Proof.
  intros H0 sched. induction sched as [|t0 sched IH] using rev_ind; intros t th o l Hth Hcur.
  - rewrite final_nil in Hth. rewrite (H0 _ _ Hth) in Hcur. discriminate.
  - rewrite final_app in Hth. rewrite steps_of_app.
    set (cf := final M c0 sched) in *. rewrite final_cons, final_nil in Hth.
    cbn [steps_of]. destruct (step_thread M cf t0) as [[c' e]|] eqn:E.
    + rewrite (step_cfg_some _ _ _ _ _ E) in Hth.
      destruct (Nat.eq_dec t t0) as [->|Hne].
      * destruct (stepper_step _ _ _ _ E) as (th0 & o0 & l0 & fresh & Hn & Hv & Hst & Hcase).
        assert (Hlen : nth_error (steps_of M c0 sched ++ [(cf, t0)]) (length (steps_of M c0 sched)) = Some (cf, t0)).
        { rewrite nth_error_app2 by lia. rewrite Nat.sub_diag. reflexivity. }
        assert (Hlast : forall m cm tm, length (steps_of M c0 sched) < m ->
                   nth_error (steps_of M c0 sched ++ [(cf, t0)]) m = Some (cm, tm) -> tm <> t0).
        { intros m cm tm Hm Hnth. exfalso.
          assert (m < length (steps_of M c0 sched ++ [(cf, t0)])) by (apply nth_error_Some; congruence).
          rewrite app_length in H. simpl in H. lia. }
        destruct Hcase as [(l' & s' & Hs & ->)|[(r & u & s' & Hs & ->)|(Hs & ->)]];
          simpl in Hth; rewrite nth_error_upd, Nat.eqb_refl, Hn in Hth; injection Hth as <-;
          simpl in Hcur; try discriminate.
        injection Hcur as <- <-.
        exists (length (steps_of M c0 sched)), cf, l0, fresh, s'. repeat split; auto.
      * assert (Hth' : nth_error (c_thr cf) t = Some th).
        { rewrite <- Hth, <- (step_cfg_some _ _ _ _ _ E). symmetry. apply step_cfg_other. exact Hne. }
        destruct (IH _ _ _ _ Hth' Hcur) as (j & cj & lj & fresh & s' & Hj & Hst & Hs & Hlast).
        assert (Hjl : j < length (steps_of M c0 sched)) by (apply nth_error_Some; congruence).
        exists j, cj, lj, fresh, s'. repeat split; auto.
        -- rewrite nth_error_app1 by exact Hjl. exact Hj.
        -- intros m cm tm Hm Hnth.
           destruct (Nat.lt_ge_cases m (length (steps_of M c0 sched))) as [Hl|Hl].
           ++ rewrite nth_error_app1 in Hnth by exact Hl. eapply Hlast; eauto.
           ++ rewrite nth_error_app2 in Hnth by exact Hl.
              destruct (m - length (steps_of M c0 sched)) as [|d]; simpl in Hnth.
              ** injection Hnth as _ <-. auto.
              ** destruct d; discriminate.
    + rewrite (step_cfg_none _ _ _ E) in Hth. rewrite app_nil_r. eapply IH; eauto.
Qed.

(* the step that produced the stored program counter thread [t] steps from at position [k] *)
Lemma prev_step c0 sched k ck t o l :
  (forall t th, nth_error (c_thr c0) t = Some th -> t_cur th = None) ->
  nth_error (steps_of M c0 sched) k = Some (ck, t) ->
  stepper ck t = Some (o, l, false) ->
  exists j cj lj fresh s',
    j < k /\ nth_error (steps_of M c0 sched) j = Some (cj, t) /\
    stepper cj t = Some (o, lj, fresh) /\ m_step M lj (c_sh cj) = Next l s' /\
    forall m cm tm, j < m < k -> nth_error (steps_of M c0 sched) m = Some (cm, tm) -> tm <> t.
Proof.
  intros H0 Hk Hst.
  destruct (steps_of_prefix _ _ _ _ _ Hk) as (s1 & s2 & E1 & E2 & E3 & _).
  unfold stepper in Hst. destruct (nth_error (c_thr ck) t) as [th|] eqn:Hn; [|discriminate].
  assert (Hcur : t_cur th = Some (o, l)).
  { unfold view in Hst. destruct (t_dead th); [discriminate|].
    destruct (t_cur th) as [[o' l']|]; [congruence|].
    destruct (t_prog th); discriminate. }
  rewrite E2 in Hn.
  destruct (hist c0 H0 s1 t th o l Hn Hcur) as (j & cj & lj & fresh & s' & Hj & Hs & Hm & Hlast).
  rewrite E3 in Hj, Hlast.
  assert (Hjk : j < k).
  { assert (j < length (firstn k (steps_of M c0 sched))) by (apply nth_error_Some; congruence).
    rewrite firstn_length in H. lia. }
  assert (Hfn : forall m, m < k -> nth_error (firstn k (steps_of M c0 sched)) m = nth_error (steps_of M c0 sched) m).
  { intros m Hm'. rewrite <- (firstn_skipn k (steps_of M c0 sched)) at 2.
    rewrite nth_error_app1; [reflexivity|].
    rewrite firstn_length. apply Nat.min_glb_lt; [exact Hm'|].
    apply Nat.lt_trans with k; [exact Hm'|]. apply nth_error_Some. congruence. }
  exists j, cj, lj, fresh, s'. repeat split; auto.
  - rewrite <- Hfn by exact Hjk. exact Hj.
  - intros m cm tm [Hm1 Hm2] Hnth. eapply Hlast; [exact Hm1|]. rewrite Hfn by exact Hm2. exact Hnth.
Qed.

Lemma init_idle (s0 : sh) (ts0 : ts) (progs : list (list op)) t th :
  nth_error (c_thr (init lo s0 ts0 progs)) t = Some th -> t_cur th = None.
Proof.
  unfold init; simpl. intros H. apply nth_error_In in H. apply in_map_iff in H.
  destruct H as (p & <- & _). reflexivity.
Qed.

(* a stored program counter is stepped from with [fresh = false] *)
Lemma stepper_stored c t th o l :
  nth_error (c_thr c) t = Some th -> t_dead th = false -> t_cur th = Some (o, l) ->
  stepper c t = Some (o, l, false).
Proof. intros H1 H2 H3. unfold stepper, view. rewrite H1, H2, H3. reflexivity. Qed.

Lemma stepper_inv c t o l fresh :
  stepper c t = Some (o, l, fresh) ->
  exists th, nth_error (c_thr c) t = Some th /\ t_dead th = false /\
    (if fresh then t_cur th = None /\ l = m_start M (t_ts th) o else t_cur th = Some (o, l)).
Proof.
  unfold stepper, view. destruct (nth_error (c_thr c) t) as [th|]; [|discriminate].
  destruct (t_dead th) eqn:Hd; [discriminate|].
  destruct (t_cur th) as [[o' l']|] eqn:Hc.
  - intros [= <- <- <-]. exists th. repeat split; auto.
  - destruct (t_prog th); [discriminate|]. intros [= <- <- <-]. exists th. repeat split; auto.
Qed.

(* the trace is the concatenation of the events of the logged steps *)
Lemma trace_steps_of c sched :
  trace M c sched = flat_map (fun x => step_evs M (fst x) (snd x)) (steps_of M c sched).
Proof.
  revert c; induction sched as [|t s IH]; intros c; [reflexivity|].
  rewrite trace_cons. cbn [steps_of].
  destruct (step_thread M c t) as [[c' e]|] eqn:E.
  - cbn [flat_map fst snd]. rewrite (step_cfg_some _ _ _ _ _ E). f_equal. apply IH.
  - rewrite (step_cfg_none _ _ _ E). unfold step_evs. rewrite E. simpl. apply IH.
Qed.

(* the shared state after the step *)
Lemma step_cfg_sh_next c t o l fresh l' s' :
  stepper c t = Some (o, l, fresh) -> m_step M l (c_sh c) = Next l' s' -> c_sh (step_cfg M c t) = s'.
Proof.
  unfold stepper, step_cfg, step_thread. destruct (nth_error (c_thr c) t) as [th|]; [|discriminate].
  intros -> ->. reflexivity.
Qed.

Lemma step_cfg_sh_done c t o l fresh r u s' :
  stepper c t = Some (o, l, fresh) -> m_step M l (c_sh c) = Done r u s' -> c_sh (step_cfg M c t) = s'.
Proof.
  unfold stepper, step_cfg, step_thread. destruct (nth_error (c_thr c) t) as [th|]; [|discriminate].
  intros -> ->. reflexivity.
Qed.

End Hist.

(** * The breaker along the log *)
Local Open Scope Z_scope.

Definition tick_of (s : bshared) : Z := hd 0 (b_ticks s).

Ltac unfold_bstep H :=
  unfold bstep in H; unfold reject, deliver in H;
  unfold goto, fin, take_tick, new_state, new_bucket, new_window,
    notify_state, notify_count, notify_rejected, with_log, set_cur, set_win, set_bucket,
    bucket_add, offer in H; simpl in H.

Ltac tick_clean :=
  unfold tick_of;
  try match goal with E : b_ticks _ = _ |- _ => rewrite E end; simpl.

Ltac conj_refl := repeat match goal with |- _ = _ /\ _ => split; [reflexivity|] end.

Section BStepInv.
Variable cfg : cb_config.
Variable nl : nat.

(** ** which step produces a given program counter *)
Lemma next_BInv l s s' o : bstep cfg nl l s = Next (BInv o) s' -> False.
Proof.
  intros H. destruct l; unfold_bstep H; repeat break1 H; discriminate H.
Qed.

Lemma next_CRLoad l s s' : bstep cfg nl l s = Next CRLoad s' -> l = BInv CanRequest /\ s' = s.
Proof.
  intros H. destruct l; unfold_bstep H; repeat break1 H; try discriminate H.
  injection H as <-. auto.
Qed.

Lemma next_CRTick l s s' cs :
  bstep cfg nl l s = Next (CRTick cs) s' ->
  l = CRLoad /\ s' = s /\ b_cur s = cs /\
  exists st, nth1 (b_states s) cs = Some st /\ st_kind st <> KClosed /\ 0 < st_dur st.
Proof.
  intros H. destruct l; unfold_bstep H; repeat break1 H; try discriminate H;
    injection H as <- <-; eqb_clean; conj_refl; eexists; (split; [eassumption|]);
    (split; [congruence|assumption]).
Qed.

Lemma next_CRTick2 l s s' cs :
  bstep cfg nl l s = Next (CRTick2 cs) s' ->
  l = CRTick cs /\ b_states s' = b_states s /\ b_cur s' = b_cur s /\ b_log s' = b_log s /\
  exists st, nth1 (b_states s) cs = Some st /\ st_timeout st <= tick_of s.
Proof.
  intros H. destruct l; unfold_bstep H; repeat break1 H; try discriminate H;
    injection H as <- <-; eqb_clean; conj_refl; eexists; (split; [eassumption|]);
    tick_clean; assumption.
Qed.

Lemma next_CRCas l s s' cs n :
  bstep cfg nl l s = Next (CRCas cs n) s' ->
  l = CRTick2 cs /\ n = S (length (b_states s)) /\ b_cur s' = b_cur s /\ b_log s' = b_log s /\
  b_states s' = b_states s ++ [BState KHalfOpen 0 (wrap64 (tick_of s + trial cfg)) (trial cfg)].
Proof.
  intros H. destruct l; unfold_bstep H; repeat break1 H; try discriminate H;
    injection H as <- <- <-; conj_refl; tick_clean; reflexivity.
Qed.

Lemma next_OSLoad l s s' : bstep cfg nl l s = Next OSLoad s' -> l = BInv OnSuccess /\ s' = s.
Proof.
  intros H. destruct l; unfold_bstep H; repeat break1 H; try discriminate H.
  injection H as <-. auto.
Qed.

Lemma next_OSTick1 l s s' cs :
  bstep cfg nl l s = Next (OSTick1 cs) s' ->
  l = OSLoad /\ s' = s /\ b_cur s = cs /\
  exists st, nth1 (b_states s) cs = Some st /\ st_kind st = KHalfOpen.
Proof.
  intros H. destruct l; unfold_bstep H; repeat break1 H; try discriminate H;
    injection H as <- <-; conj_refl; eexists; split; eassumption.
Qed.

Lemma next_OSSnap l s s' cs b :
  bstep cfg nl l s = Next (OSSnap cs b) s' ->
  l = OSTick1 cs /\ b_states s' = b_states s /\ b_cur s' = b_cur s /\ b_log s' = b_log s.
Proof.
  intros H. destruct l; unfold_bstep H; repeat break1 H; try discriminate H;
    injection H as <- <- <-; conj_refl; reflexivity.
Qed.

Lemma next_OSTick2 l s s' cs w :
  bstep cfg nl l s = Next (OSTick2 cs w) s' ->
  exists b, l = OSSnap cs b /\ b_states s' = b_states s /\ b_cur s' = b_cur s /\ b_log s' = b_log s.
Proof.
  intros H. destruct l; unfold_bstep H; repeat break1 H; try discriminate H;
    injection H as <- <- <-; eexists; conj_refl; reflexivity.
Qed.

Lemma next_OSCas l s s' cs n :
  bstep cfg nl l s = Next (OSCas cs n) s' ->
  exists w, l = OSTick2 cs w /\ n = S (length (b_states s)) /\ b_cur s' = b_cur s /\ b_log s' = b_log s /\
    b_states s' = b_states s ++ [BState KClosed w (wrap64 (tick_of s + 0)) 0].
Proof.
  intros H. destruct l; unfold_bstep H; repeat break1 H; try discriminate H;
    injection H as <- <- <-; eexists; conj_refl; tick_clean; reflexivity.
Qed.

Lemma next_OFLoad l s s' : bstep cfg nl l s = Next OFLoad s' -> l = BInv OnFailure /\ s' = s.
Proof.
  intros H. destruct l; unfold_bstep H; repeat break1 H; try discriminate H.
  injection H as <-. auto.
Qed.

(* a report reaches [OFTick cs None] only straight from its load of a HALF_OPEN state *)
Lemma next_OFTick_None l s s' cs :
  bstep cfg nl l s = Next (OFTick cs None) s' ->
  l = OFLoad /\ s' = s /\ b_cur s = cs /\
  exists st, nth1 (b_states s) cs = Some st /\ st_kind st = KHalfOpen.
Proof.
  intros H. destruct l; unfold_bstep H; repeat break1 H; try discriminate H;
    injection H as <- <-; conj_refl; eexists; split; eassumption.
Qed.

Lemma next_OFCas l s s' cs n e :
  bstep cfg nl l s = Next (OFCas cs n e) s' ->
  l = OFTick cs e /\ n = S (length (b_states s)) /\ b_cur s' = b_cur s /\ b_log s' = b_log s /\
  b_states s' = b_states s ++ [BState KOpen 0 (wrap64 (tick_of s + openw cfg)) (openw cfg)].
Proof.
  intros H. destruct l; unfold_bstep H; repeat break1 H; try discriminate H;
    injection H as <- <- <- <-; conj_refl; tick_clean; reflexivity.
Qed.

(** ** the state pointer moves only at a successful CAS *)
Lemma bstep_cur_next l s l' s' : bstep cfg nl l s = Next l' s' -> b_cur s' = b_cur s.
Proof.
  intros H. destruct l; unfold_bstep H; repeat break1 H; try discriminate H;
    injection H as <- <-; reflexivity.
Qed.

Lemma bstep_cur_done l s r u s' :
  bstep cfg nl l s = Done r u s' ->
  b_cur s' = b_cur s \/ exists cs n, cas_of l = Some (cs, n) /\ b_cur s = cs.
Proof.
  intros H. destruct l; unfold_bstep H; repeat break1 H; try discriminate H;
    injection H as <- <- <-; eqb_clean; try (left; reflexivity); right; simpl; eauto.
Qed.

End BStepInv.

(** ** log positions of a breaker execution *)
Section BLog.
Variable cfg : cb_config.
Variable nl : nat.
Notation M := (breaker cfg nl).

(* thread [t] of [c] steps from program counter [l] (inside a call of operation [o]) *)
Definition at_pc (c : bconfig) (t : nat) (o : bop) (l : bpc) : Prop :=
  exists fresh, stepper M c t = Some (o, l, fresh).

(* the return value of the step thread [t] takes from [c], if that step completes its call *)
Definition ret_at (c : bconfig) (t : nat) : option bret :=
  match stepper M c t with
  | Some (_, l, _) => match bstep cfg nl l (c_sh c) with Done r _ _ => Some r | _ => None end
  | None => None
  end.

(* [ret_at] is the return event of the step *)
Lemma ret_at_event c t r :
  ret_at c t = Some r <-> exists o, In (ERet t o r) (step_evs M c t).
Proof.
  unfold ret_at, stepper, step_evs, step_thread.
  destruct (nth_error (c_thr c) t) as [th|]; [|split; [discriminate|intros [o []]]].
  destruct (view M th) as [[[o l] fresh]|]; [|split; [discriminate|intros [o' []]]].
  change (m_step M l (c_sh c)) with (bstep cfg nl l (c_sh c)).
  destruct (bstep cfg nl l (c_sh c)) as [l' s'|r' u s'| |]; simpl.
  - split; [discriminate|]. intros [o' H]. destruct fresh; simpl in H; [destruct H as [H|[]]; discriminate H|destruct H].
  - split.
    + intros [= ->]. exists o. apply in_or_app. right. left. reflexivity.
    + intros [o' H]. apply in_app_or in H. destruct H as [H|[H|[]]].
      * destruct fresh; simpl in H; [destruct H as [H|[]]; discriminate H|destruct H].
      * congruence.
  - split; [discriminate|intros [o' []]].
  - split; [discriminate|]. intros [o' H]. apply in_app_or in H. destruct H as [H|[H|[]]]; [|discriminate H].
    destruct fresh; simpl in H; [destruct H as [H|[]]; discriminate H|destruct H].
Qed.

Lemma at_pc_fun c t o l o' l' : at_pc c t o l -> at_pc c t o' l' -> o' = o /\ l' = l.
Proof. intros [f H] [f' H']. rewrite H in H'. injection H' as <- <- <-. auto. Qed.

Lemma at_pc_stored c t o l :
  at_pc c t o l -> (forall o', l <> BInv o') -> stepper M c t = Some (o, l, false).
Proof.
  intros [fresh H] Hl. destruct fresh; [|exact H].
  destruct (stepper_inv _ _ _ _ _ _ H) as (th & _ & _ & _ & E). simpl in E. exfalso. eapply Hl; eauto.
Qed.

Lemma sext_trans s1 s2 s3 : sext s1 s2 -> sext s2 s3 -> sext s1 s3.
Proof. intros [l1 E1] [l2 E2]. exists (l1 ++ l2). rewrite E2, E1, app_assoc. reflexivity. Qed.

Lemma Inv1_step_sext c t c' e :
  Inv1 cfg (c_sh c) (pcs c) -> step_thread M c t = Some (c', e) -> sext (c_sh c) (c_sh c').
Proof.
  intros (HG1 & HG2 & HF) Hs.
  destruct (step_abs _ _ _ _ _ _ Hs) as (l0 & l & l' & Hn & Hsame & Hp & Hpcs).
  assert (HP : P1 cfg (c_sh c) l) by (eapply P1_same; [exact Hsame|eapply Forall_nth_error; eauto]).
  destruct (step1 _ _ _ _ _ _ HG1 HG2 HP Hp) as (He & _). exact He.
Qed.

Lemma Inv1_final_sext c sched :
  Inv1 cfg (c_sh c) (pcs c) -> sext (c_sh c) (c_sh (final M c sched)).
Proof.
  revert c. induction sched as [|t s IH]; intros c HI.
  - apply sext_refl.
  - rewrite final_cons. unfold step_cfg.
    destruct (step_thread M c t) as [[c' e]|] eqn:E.
    + eapply sext_trans; [eapply Inv1_step_sext; eauto|]. apply IH.
      eapply Inv1_step_cfg; eauto.
    + apply IH. exact HI.
Qed.

Section Log.
Variables (ticks : list Z) (progs : list (list bop)) (sched : list nat).
Notation L := (steps_of M (bcfg0 nl ticks progs) sched).

Lemma log_inv1 k ck t : nth_error L k = Some (ck, t) -> Inv1 cfg (c_sh ck) (pcs ck).
Proof. intros H. destruct (steps_of_reach _ _ _ _ _ _ H) as [s1 ->]. apply Inv1_reach. Qed.

Lemma log_succ_inv1 k ck t : nth_error L k = Some (ck, t) ->
  Inv1 cfg (c_sh (step_cfg M ck t)) (pcs (step_cfg M ck t)).
Proof.
  intros H. destruct (steps_of_reach _ _ _ _ _ _ H) as [s1 ->].
  replace (step_cfg M (final M (bcfg0 nl ticks progs) s1) t) with (final M (bcfg0 nl ticks progs) (s1 ++ [t]))
    by (rewrite final_app; reflexivity).
  apply Inv1_reach.
Qed.

(* between a position and a later one: pointer monotone, state objects append-only *)
Lemma log_succ_mono i j ci ti cj tj :
  nth_error L i = Some (ci, ti) -> nth_error L j = Some (cj, tj) -> (i < j)%nat ->
  (b_cur (c_sh (step_cfg M ci ti)) <= b_cur (c_sh cj))%nat /\ sext (c_sh (step_cfg M ci ti)) (c_sh cj).
Proof.
  intros Hi Hj Hlt. destruct (steps_of_later' _ _ _ _ _ _ _ _ _ Hi Hj Hlt) as [s3 ->].
  pose proof (log_succ_inv1 _ _ _ Hi) as HI. split.
  - apply Inv1_final. exact HI.
  - apply Inv1_final_sext. exact HI.
Qed.

Lemma log_step_mono i ci ti :
  nth_error L i = Some (ci, ti) ->
  (b_cur (c_sh ci) <= b_cur (c_sh (step_cfg M ci ti)))%nat /\ sext (c_sh ci) (c_sh (step_cfg M ci ti)).
Proof.
  intros Hi. destruct (steps_of_enabled _ _ _ _ _ _ Hi) as (c' & e & Hs).
  rewrite (step_cfg_some _ _ _ _ _ Hs). pose proof (log_inv1 _ _ _ Hi) as HI. split.
  - eapply Inv1_step_cfg; eauto.
  - eapply Inv1_step_sext; eauto.
Qed.

Lemma log_mono i j ci ti cj tj :
  nth_error L i = Some (ci, ti) -> nth_error L j = Some (cj, tj) -> (i <= j)%nat ->
  (b_cur (c_sh ci) <= b_cur (c_sh cj))%nat /\ sext (c_sh ci) (c_sh cj).
Proof.
  intros Hi Hj Hle. destruct (Nat.eq_dec i j) as [->|Hne].
  - rewrite Hi in Hj. injection Hj as <- <-. split; [lia|apply sext_refl].
  - destruct (log_step_mono _ _ _ Hi) as [H1 H2].
    destruct (log_succ_mono _ _ _ _ _ _ Hi Hj ltac:(lia)) as [H3 H4].
    split; [lia|eapply sext_trans; eauto].
Qed.

(* a step that moves the state pointer is a successful CAS on the state it moves away from *)
Lemma step_cur c t c' e :
  step_thread M c t = Some (c', e) ->
  b_cur (c_sh c') = b_cur (c_sh c) \/ cas_succeeds c t (b_cur (c_sh c)).
Proof.
  intros Hs. destruct (stepper_step _ _ _ _ _ Hs) as (th & o & l & fresh & Hn & Hv & Hst & Hcase).
  destruct Hcase as [(l' & s' & Hb & ->)|[(r & u & s' & Hb & ->)|(Hb & ->)]]; simpl.
  - left. eapply bstep_cur_next. exact Hb.
  - destruct (bstep_cur_done _ _ _ _ _ _ _ Hb) as [E|(cs & n & Hc & E)]; [left; exact E|right].
    destruct (stepper_inv _ _ _ _ _ _ Hst) as (th' & Hn' & Hd & Hf).
    rewrite Hn in Hn'. injection Hn' as <-.
    destruct fresh.
    + destruct Hf as [_ ->]. simpl in Hc. discriminate.
    + exists th, o, l. repeat split; auto.
      destruct l; simpl in Hc; try discriminate; injection Hc as <- _; symmetry; exact E.
  - left. reflexivity.
Qed.

Lemma log_next_exists i k ci ti ck tk :
  nth_error L i = Some (ci, ti) -> nth_error L k = Some (ck, tk) -> (i < k)%nat ->
  exists tj, nth_error L (S i) = Some (step_cfg M ci ti, tj).
Proof.
  intros Hi Hk Hlt.
  destruct (nth_error L (S i)) as [[cj tj]|] eqn:Hj.
  - exists tj. rewrite (steps_of_succ _ _ _ _ _ _ _ _ Hi Hj). reflexivity.
  - exfalso. apply nth_error_None in Hj.
    assert (k < length L)%nat by (apply nth_error_Some; congruence). lia.
Qed.

(* if the pointer is [cs] at position i and no longer at position k, a CAS on [cs] succeeded in between *)
Lemma cur_change_cas d : forall i k ci ti ck tk cs,
  (k - i <= d)%nat ->
  nth_error L i = Some (ci, ti) -> nth_error L k = Some (ck, tk) -> (i <= k)%nat ->
  b_cur (c_sh ci) = cs -> b_cur (c_sh ck) <> cs ->
  exists j cj tj, (i <= j < k)%nat /\ nth_error L j = Some (cj, tj) /\ cas_succeeds cj tj cs.
Proof.
  induction d as [|d IH]; intros i k ci ti ck tk cs Hd Hi Hk Hle Hci Hck.
  - assert (i = k) by lia. subst k. rewrite Hi in Hk. injection Hk as <- <-. contradiction.
  - destruct (Nat.eq_dec i k) as [->|Hne].
    { rewrite Hi in Hk. injection Hk as <- <-. contradiction. }
    destruct (log_next_exists _ _ _ _ _ _ Hi Hk ltac:(lia)) as [tj Hj].
    destruct (steps_of_enabled _ _ _ _ _ _ Hi) as (c' & e & Hs).
    destruct (step_cur _ _ _ _ Hs) as [E|E].
    + rewrite (step_cfg_some _ _ _ _ _ Hs) in Hj.
      destruct (IH (S i) k c' tj ck tk cs ltac:(lia) Hj Hk ltac:(lia) ltac:(congruence) Hck)
        as (j & cj & tj' & Hr & Hnj & Hc).
      exists j, cj, tj'. repeat split; auto; lia.
    + exists i, ci, ti. rewrite Hci in E. repeat split; auto; lia.
Qed.

(* a successful CAS moves the pointer strictly forward, for good *)
Lemma cas_then_gt j k cj tj ck tk cs :
  nth_error L j = Some (cj, tj) -> nth_error L k = Some (ck, tk) -> (j < k)%nat ->
  cas_succeeds cj tj cs -> (cs < b_cur (c_sh ck))%nat.
Proof.
  intros Hj Hk Hlt Hc.
  destruct (steps_of_enabled _ _ _ _ _ _ Hj) as (c' & e & Hs).
  destruct (cas_step _ _ _ _ _ _ _ (log_inv1 _ _ _ Hj) Hc Hs) as [_ Hgt].
  destruct (log_succ_mono _ _ _ _ _ _ Hj Hk Hlt) as [Hm _].
  rewrite (step_cfg_some _ _ _ _ _ Hs) in Hm. lia.
Qed.

(* [cas_succeeds] in terms of [at_pc] *)
Lemma cas_succeeds_at c t cs :
  cas_succeeds c t cs <->
  exists o l n, at_pc c t o l /\ cas_of l = Some (cs, n) /\ b_cur (c_sh c) = cs.
Proof.
  split.
  - intros (th & o & l & Hn & Hd & Hc & Hl & E). 
    destruct l; try contradiction; subst; eexists o, _, _;
      (split; [exists false; eapply stepper_stored; eauto|split; [reflexivity|reflexivity]]).
  - intros (o & l & n & [fresh Hst] & Hc & E).
    destruct (stepper_inv _ _ _ _ _ _ Hst) as (th & Hn & Hd & Hf).
    destruct fresh.
    + destruct Hf as [_ ->]. discriminate.
    + exists th, o, l. repeat split; auto.
      destruct l; simpl in Hc; try discriminate; injection Hc as <- _; reflexivity.
Qed.

(* a return value observed at a log position is a return event of the trace *)
Lemma ret_in_trace k ck t r :
  nth_error L k = Some (ck, t) -> ret_at ck t = Some r ->
  exists o, In (ERet t o r) (trace M (bcfg0 nl ticks progs) sched).
Proof.
  intros Hk Hr. apply ret_at_event in Hr. destruct Hr as [o Ho]. exists o.
  rewrite trace_steps_of. apply in_flat_map. exists (ck, t). split; [eapply nth_error_In; eauto|exact Ho].
Qed.

(* the previous step of the same call *)
Lemma bprev k ck t o l :
  nth_error L k = Some (ck, t) -> at_pc ck t o l -> (forall o', l <> BInv o') ->
  exists j cj lj s',
    (j < k)%nat /\ nth_error L j = Some (cj, t) /\ at_pc cj t o lj /\
    bstep cfg nl lj (c_sh cj) = Next l s' /\ c_sh (step_cfg M cj t) = s' /\
    forall m cm tm, (j < m < k)%nat -> nth_error L m = Some (cm, tm) -> tm <> t.
Proof.
  intros Hk Hat Hl. pose proof (at_pc_stored _ _ _ _ Hat Hl) as Hst.
  destruct (prev_step M _ _ _ _ _ _ _ (init_idle _ _ _) Hk Hst)
    as (j & cj & lj & fresh & s' & Hlt & Hj & Hsj & Hm & Hown).
  exists j, cj, lj, s'. repeat split; auto.
  - exists fresh. exact Hsj.
  - eapply step_cfg_sh_next; eauto.
Qed.

(* an invocation step: the operation is the one being invoked *)
Lemma binv_op k ck t o o' :
  nth_error L k = Some (ck, t) -> at_pc ck t o (BInv o') ->
  o = o' /\ stepper M ck t = Some (o, BInv o, true).
Proof.
  intros Hk [fresh Hst]. destruct fresh.
  - destruct (stepper_inv _ _ _ _ _ _ Hst) as (th & _ & _ & _ & E). simpl in E.
    injection E as ->. auto.
  - exfalso.
    destruct (prev_step M _ _ _ _ _ _ _ (init_idle _ _ _) Hk Hst)
      as (j & cj & lj & fresh & s' & _ & _ & _ & Hm & _).
    eapply next_BInv. exact Hm.
Qed.

End Log.
End BLog.
