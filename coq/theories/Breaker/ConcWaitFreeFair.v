(** Wait-freedom of the circuit breaker, part 4: scheduling consequences.

    A thread with program [p] that is scheduled [length p * cbound progs] times
    has returned from ALL its calls - whatever the other threads do: run,
    starve, or stay frozen for ever in the middle of any call
    ([breaker_thread_finishes], [breaker_frozen_midway]).  That is wait-freedom
    in the scheduling sense; for the lock-free queue (JdkTerminationFair) the
    threshold is the GLOBAL step budget, here it depends on the thread's own
    program only.

    Hence: every fair schedule ends with every operation returned
    ([breaker_fair_all_return], [breaker_fair_infinite]); every schedule can be
    extended to a complete one ([breaker_round_robin_finishes]); "finished"
    means that the calls returned are exactly the program, in order
    ([breaker_finished_all_returned]). *)
From Coq Require Import List Arith Bool ZArith Lia.
From Garr Require Import Conc.Conc Pure.F64 Pure.Config Breaker.BreakerModel
  Breaker.ConcBase Breaker.ConcHist Breaker.ConcWaitFreeInv Breaker.ConcWaitFreeRank
  Breaker.ConcWaitFreeMain.
Import ListNotations.

(** ** finished threads *)
Definition done_thr (th : bthread) : bool :=
  match t_prog th, t_cur th with
  | [], None => true
  | _, _ => false
  end.

Lemma done_thr_true th : done_thr th = true <-> t_prog th = [] /\ t_cur th = None.
Proof.
  unfold done_thr. destruct (t_prog th); destruct (t_cur th); split; intros H;
    try discriminate; try (destruct H; discriminate); auto.
Qed.

Definition finished (th : bthread) : Prop :=
  t_prog th = [] /\ t_cur th = None /\ t_dead th = false.

Section Fair.
Variable cfg : cb_config.
Variable nl : nat.
Notation M := (breaker cfg nl).

Lemma final_length (c : bconfig) sched : length (c_thr (final M c sched)) = length (c_thr c).
Proof.
  revert c. induction sched as [|t r IH]; intros c; [reflexivity|].
  rewrite final_cons, IH. apply step_cfg_length.
Qed.

(* a finished thread never moves again *)
Lemma done_step (c : bconfig) u t th :
  nth_error (c_thr c) t = Some th -> done_thr th = true ->
  nth_error (c_thr (step_cfg M c u)) t = Some th.
Proof.
  intros Hn Hi. destruct (Nat.eq_dec t u) as [->|Hne].
  - unfold step_cfg, step_thread. rewrite Hn.
    apply done_thr_true in Hi. destruct Hi as [Hp Hc].
    unfold view. rewrite Hc, Hp. destruct (t_dead th); exact Hn.
  - rewrite step_cfg_other by assumption. exact Hn.
Qed.

Lemma done_final (c : bconfig) sched t th :
  nth_error (c_thr c) t = Some th -> done_thr th = true ->
  nth_error (c_thr (final M c sched)) t = Some th.
Proof.
  revert c. induction sched as [|u r IH]; intros c Hn Hi; [exact Hn|].
  rewrite final_cons. apply IH; [|exact Hi]. apply done_step; assumption.
Qed.

(* an unfinished thread can ALWAYS step: no operation ever waits for anybody *)
Lemma unfinished_enabled R (c : bconfig) t th :
  WF cfg R c -> nth_error (c_thr c) t = Some th -> done_thr th = false ->
  exists c' e, step_thread M c t = Some (c', e).
Proof.
  intros [[HI Hd] _] Hn Hi.
  unfold step_thread. rewrite Hn.
  assert (Hv : exists o l fresh, view M th = Some (o, l, fresh)).
  { unfold view. rewrite (Hd _ _ Hn). unfold done_thr in Hi.
    destruct (t_cur th) as [[o l]|]; [eauto|].
    destruct (t_prog th) as [|o r]; [discriminate|eauto]. }
  destruct Hv as (o & l & fresh & Hv). rewrite Hv.
  change (m_step M l (c_sh c)) with (bstep cfg nl l (c_sh c)).
  pose proof (breaker_never_blocks cfg nl l (c_sh c)) as Hnb.
  destruct (bstep cfg nl l (c_sh c)); try contradiction; eauto.
Qed.

(* an unfinished thread holds at least one unit of its own potential *)
Lemma unfinished_phi R (c : bconfig) t th :
  WF cfg R c -> nth_error (c_thr c) t = Some th -> done_thr th = false ->
  1 <= phi_at (12 + 4 * R) c t.
Proof.
  intros [[HI Hd] Hc] Hn Hi. unfold phi_at. rewrite Hn. unfold thr_phi, done_thr in *.
  destruct (t_cur th) as [[o l]|] eqn:Hcur.
  - assert (HB : Pb (c_sh c) l).
    { destruct HI as (_ & _ & _ & _ & _ & HB). eapply Forall_nth_error; [exact HB|]. eapply pcs_nth; eauto. }
    pose proof (rank_bound (c_sh c) l HB). lia.
  - destruct (t_prog th) as [|o r]; [discriminate|]. simpl. lia.
Qed.

(* every schedule entry naming a thread that is still unfinished at the end is a
   step actually taken, and costs one unit of THAT THREAD's potential *)
Lemma occ_phi R : forall sched (c : bconfig) t th,
  WF cfg R c ->
  nth_error (c_thr (final M c sched)) t = Some th -> done_thr th = false ->
  count_occ Nat.eq_dec sched t + phi_at (12 + 4 * R) (final M c sched) t <= phi_at (12 + 4 * R) c t.
Proof.
  induction sched as [|u r IH]; intros c t th HW Hn Hi.
  - simpl. rewrite final_nil. lia.
  - rewrite final_cons in *. unfold step_cfg in *.
    destruct (step_thread M c u) as [[c' e]|] eqn:Hs.
    + pose proof (phi_at_step cfg nl R c u c' e t HW Hs) as Hstep.
      pose proof (IH c' t th (WF_step _ _ _ _ _ _ _ HW Hs) Hn Hi) as H.
      cbn [count_occ]. destruct (Nat.eq_dec u t) as [->|Hne].
      * rewrite Nat.eqb_refl in Hstep. lia.
      * apply Nat.eqb_neq in Hne. rewrite Hne in Hstep. lia.
    + pose proof (IH c t th HW Hn Hi) as H.
      cbn [count_occ]. destruct (Nat.eq_dec u t) as [->|Hne]; [exfalso|lia].
      destruct (nth_error (c_thr c) t) as [th0|] eqn:Hn0.
      * destruct (done_thr th0) eqn:Hi0.
        -- pose proof (done_final c r t th0 Hn0 Hi0) as Hf. congruence.
        -- destruct (unfinished_enabled R c t th0 HW Hn0 Hi0) as (c' & e & Hs'). congruence.
      * apply nth_error_None in Hn0.
        assert (t < length (c_thr (final M c r))) by (apply nth_error_Some; congruence).
        rewrite final_length in *. lia.
Qed.

(** ** a thread that is scheduled [length p * cbound progs] times has finished *)
Theorem breaker_thread_finishes : forall ticks (progs : list (list bop)) (sched : list nat) t p th,
  nth_error progs t = Some p ->
  length p * cbound progs <= count_occ Nat.eq_dec sched t ->
  nth_error (c_thr (final M (bcfg0 nl ticks progs) sched)) t = Some th ->
  finished th.
Proof.
  intros ticks progs sched t p th Hp Hocc Hn.
  pose proof (WF_init cfg nl ticks progs) as HW.
  pose proof (WF_reach cfg nl ticks progs sched) as HW'.
  destruct (done_thr th) eqn:Hi.
  - apply done_thr_true in Hi. destruct Hi as [Hpr Hc]. split; [exact Hpr|]. split; [exact Hc|].
    destruct HW' as [[_ Hd] _]. eapply Hd; eauto.
  - exfalso.
    pose proof (occ_phi (n_rep progs) sched _ t th HW Hn Hi) as H.
    pose proof (unfinished_phi (n_rep progs) _ t th HW' Hn Hi) as H1.
    fold (cbound progs) in H, H1.
    assert (E : phi_at (cbound progs) (bcfg0 nl ticks progs) t = length p * cbound progs).
    { unfold phi_at, bcfg0, init. cbn [c_thr]. rewrite nth_error_map, Hp. simpl.
      unfold thr_phi, mk_thread. simpl. lia. }
    lia.
Qed.

Lemma length_le_n_ops (progs : list (list bop)) t p : nth_error progs t = Some p -> length p <= n_ops progs.
Proof. intros H. unfold n_ops. exact (wsum_ge (@length bop) progs t p H). Qed.

Lemma nth_final_prog ticks (progs : list (list bop)) sched t th :
  nth_error (c_thr (final M (bcfg0 nl ticks progs) sched)) t = Some th ->
  exists p, nth_error progs t = Some p.
Proof.
  intros Hn.
  assert (H : t < length (c_thr (final M (bcfg0 nl ticks progs) sched))) by (apply nth_error_Some; congruence).
  rewrite final_length in H. unfold bcfg0, init in H. cbn [c_thr] in H. rewrite map_length in H.
  destruct (nth_error progs t) as [p|] eqn:E; [eauto|]. apply nth_error_None in E. lia.
Qed.

(* the same with the global step budget of [breaker_total_termination] as threshold *)
Corollary breaker_thread_finishes_global : forall ticks (progs : list (list bop)) (sched : list nat) t th,
  n_ops progs * cbound progs <= count_occ Nat.eq_dec sched t ->
  nth_error (c_thr (final M (bcfg0 nl ticks progs) sched)) t = Some th ->
  finished th.
Proof.
  intros ticks progs sched t th Hocc Hn.
  destruct (nth_final_prog _ _ _ _ _ Hn) as [p Hp].
  apply (breaker_thread_finishes ticks progs sched t p th Hp); [|exact Hn].
  pose proof (length_le_n_ops progs t p Hp).
  assert (length p * cbound progs <= n_ops progs * cbound progs) by (apply Nat.mul_le_mono_r; assumption).
  lia.
Qed.

(** ** under every fair schedule every operation returns *)
Theorem breaker_fair_all_return : forall ticks (progs : list (list bop)) (sched : list nat),
  (forall t p, nth_error progs t = Some p -> length p * cbound progs <= count_occ Nat.eq_dec sched t) ->
  forall t th, nth_error (c_thr (final M (bcfg0 nl ticks progs) sched)) t = Some th ->
    t_prog th = [] /\ t_cur th = None /\ t_dead th = false.
Proof.
  intros ticks progs sched Hfair t th Hn.
  destruct (nth_final_prog _ _ _ _ _ Hn) as [p Hp].
  apply (breaker_thread_finishes ticks progs sched t p th Hp); [|exact Hn]. apply Hfair. exact Hp.
Qed.

(** ** one thread frozen for ever: all the others still finish *)
Theorem breaker_frozen_others_finish : forall ticks (progs : list (list bop)) (f : nat) (sched : list nat),
  (forall t p, nth_error progs t = Some p -> t <> f ->
     length p * cbound progs <= count_occ Nat.eq_dec sched t) ->
  forall t th, t <> f ->
    nth_error (c_thr (final M (bcfg0 nl ticks progs) sched)) t = Some th ->
    t_prog th = [] /\ t_cur th = None /\ t_dead th = false.
Proof.
  intros ticks progs f sched Hfair t th Hne Hn.
  destruct (nth_final_prog _ _ _ _ _ Hn) as [p Hp].
  apply (breaker_thread_finishes ticks progs sched t p th Hp); [|exact Hn]. apply Hfair; assumption.
Qed.

Lemma frozen_untouched (c : bconfig) sched f :
  ~ In f sched -> nth_error (c_thr (final M c sched)) f = nth_error (c_thr c) f.
Proof.
  revert c. induction sched as [|u r IH]; intros c Hnin; [reflexivity|].
  rewrite final_cons, IH.
  - apply step_cfg_other. intros ->. apply Hnin. left. reflexivity.
  - intros H. apply Hnin. right. exact H.
Qed.

Lemma count_occ_app_ge (s1 s2 : list nat) t :
  count_occ Nat.eq_dec s2 t <= count_occ Nat.eq_dec (s1 ++ s2) t.
Proof. rewrite count_occ_app. lia. Qed.

(** any SET of threads may be suspended after an arbitrary prefix [s1] - at any
    atomic step inside any call - and never scheduled again: they stay exactly
    where they were, and every other thread that gets its turns finishes. *)
Theorem breaker_frozen_midway : forall ticks (progs : list (list bop)) (frozen : nat -> Prop) (s1 s2 : list nat),
  (forall f, frozen f -> ~ In f s2) ->
  (forall t p, nth_error progs t = Some p -> ~ frozen t ->
     length p * cbound progs <= count_occ Nat.eq_dec s2 t) ->
  let c := final M (bcfg0 nl ticks progs) (s1 ++ s2) in
  (forall f, frozen f -> nth_error (c_thr c) f = nth_error (c_thr (final M (bcfg0 nl ticks progs) s1)) f) /\
  forall t th, ~ frozen t -> nth_error (c_thr c) t = Some th ->
    t_prog th = [] /\ t_cur th = None /\ t_dead th = false.
Proof.
  intros ticks progs frozen s1 s2 Hnin Hfair c. split.
  - intros f Hf. unfold c. rewrite final_app. apply frozen_untouched. apply Hnin. exact Hf.
  - intros t th Hnf Hn. destruct (nth_final_prog _ _ _ _ _ Hn) as [p Hp].
    apply (breaker_thread_finishes ticks progs (s1 ++ s2) t p th Hp); [|exact Hn].
    apply (Nat.le_trans _ (count_occ Nat.eq_dec s2 t)); [apply Hfair; assumption|apply count_occ_app_ge].
Qed.

(** ** every schedule can be extended to a complete one *)
Fixpoint rounds (T k : nat) : list nat :=
  match k with
  | O => []
  | S k' => seq 0 T ++ rounds T k'
  end.

Lemma count_occ_seq a n t : a <= t < a + n -> 1 <= count_occ Nat.eq_dec (seq a n) t.
Proof.
  intros H. assert (Hin : In t (seq a n)) by (apply in_seq; exact H).
  apply (count_occ_In Nat.eq_dec) in Hin. lia.
Qed.

Lemma count_occ_rounds T k t : t < T -> k <= count_occ Nat.eq_dec (rounds T k) t.
Proof.
  intros Ht. induction k as [|k IH]; simpl; [lia|].
  rewrite count_occ_app. pose proof (count_occ_seq 0 T t). lia.
Qed.

Theorem breaker_round_robin_finishes : forall ticks (progs : list (list bop)) (sched : list nat),
  let c := final M (bcfg0 nl ticks progs) (sched ++ rounds (length progs) (n_ops progs * cbound progs)) in
  forall t th, nth_error (c_thr c) t = Some th ->
    t_prog th = [] /\ t_cur th = None /\ t_dead th = false.
Proof.
  intros ticks progs sched c. apply breaker_fair_all_return.
  intros t p Hp.
  assert (Ht : t < length progs) by (apply nth_error_Some; congruence).
  pose proof (length_le_n_ops progs t p Hp) as Hl.
  apply (Nat.le_trans _ (n_ops progs * cbound progs)); [apply Nat.mul_le_mono_r; exact Hl|].
  apply (Nat.le_trans _ (count_occ Nat.eq_dec (rounds (length progs) (n_ops progs * cbound progs)) t));
    [apply count_occ_rounds; exact Ht|apply count_occ_app_ge].
Qed.

(** ** "finished" = every call of the program has returned, in program order *)
Fixpoint ret_ops (t : nat) (evs : list (event bop bret)) : list bop :=
  match evs with
  | [] => []
  | ERet u o _ :: r => if Nat.eqb u t then o :: ret_ops t r else ret_ops t r
  | _ :: r => ret_ops t r
  end.

Lemma ret_ops_app t e1 e2 : ret_ops t (e1 ++ e2) = ret_ops t e1 ++ ret_ops t e2.
Proof.
  induction e1 as [|x e1 IH]; [reflexivity|]. destruct x as [u o|u o r|u o]; simpl; auto.
  destruct (Nat.eqb u t); simpl; rewrite IH; reflexivity.
Qed.

(* calls of a thread that have not returned yet *)
Definition todo (th : bthread) : list bop :=
  match t_cur th with Some (o, _) => [o] | None => [] end ++ t_prog th.

Definition todo_at (c : bconfig) (t : nat) : list bop :=
  match nth_error (c_thr c) t with Some th => todo th | None => [] end.

Lemma todo_step (c : bconfig) u t :
  Alive cfg c -> ret_ops t (step_evs M c u) ++ todo_at (step_cfg M c u) t = todo_at c t.
Proof.
  intros [HI Hd]. unfold step_evs, step_cfg, step_thread.
  destruct (nth_error (c_thr c) u) as [th|] eqn:Hn; [|reflexivity].
  destruct (view M th) as [[[o l] fresh]|] eqn:Hv; [|reflexivity].
  pose proof (NFI_cfg_no_fault _ _ _ _ _ _ _ _ HI Hn Hv) as Hnf.
  pose proof (breaker_never_blocks cfg nl l (c_sh c)) as Hnb.
  change (m_step M l (c_sh c)) with (bstep cfg nl l (c_sh c)).
  assert (Htodo : todo th = o :: rest_prog th fresh).
  { unfold view in Hv. destruct (t_dead th); [discriminate|]. unfold todo, rest_prog.
    destruct (t_cur th) as [[o' l']|].
    - injection Hv as <- <- <-. reflexivity.
    - destruct (t_prog th) as [|o' r]; [discriminate|]. injection Hv as <- <- <-. reflexivity. }
  assert (Hinv : ret_ops t (if fresh then [EInv u o] else []) = []) by (destruct fresh; reflexivity).
  destruct (bstep cfg nl l (c_sh c)) as [l' s'|r ts' s'| |]; try contradiction.
  - rewrite Hinv. unfold todo_at. cbn [c_thr]. rewrite nth_error_upd, Hn.
    destruct (Nat.eqb_spec u t) as [->|Hne]; [|reflexivity].
    rewrite Hn, Htodo. reflexivity.
  - rewrite ret_ops_app, Hinv. unfold todo_at. cbn [c_thr]. rewrite nth_error_upd, Hn.
    simpl. destruct (Nat.eqb_spec u t) as [->|Hne]; [|reflexivity].
    rewrite Hn, Htodo. reflexivity.
Qed.

Lemma todo_run : forall sched (c : bconfig) t,
  Alive cfg c -> ret_ops t (trace M c sched) ++ todo_at (final M c sched) t = todo_at c t.
Proof.
  induction sched as [|u r IH]; intros c t HC; [reflexivity|].
  rewrite trace_cons, final_cons, ret_ops_app, <- app_assoc.
  rewrite IH.
  - apply todo_step. exact HC.
  - unfold step_cfg. destruct (step_thread M c u) as [[c' e]|] eqn:E; [eapply Alive_step; eauto|exact HC].
Qed.

(* the calls returned by thread [t] so far, followed by its call in progress and the
   calls it has not started yet, are exactly its program *)
Theorem breaker_returns_prefix : forall ticks (progs : list (list bop)) (sched : list nat) t p,
  nth_error progs t = Some p ->
  ret_ops t (trace M (bcfg0 nl ticks progs) sched) ++ todo_at (final M (bcfg0 nl ticks progs) sched) t = p.
Proof.
  intros ticks progs sched t p Hp. rewrite todo_run by apply Alive_init.
  unfold todo_at, bcfg0, init. cbn [c_thr]. rewrite nth_error_map, Hp. reflexivity.
Qed.

(* once thread [t] has been scheduled [length p * cbound progs] times, every operation
   of its program has returned (and nothing else has) *)
Theorem breaker_finished_all_returned : forall ticks (progs : list (list bop)) (sched : list nat) t p,
  nth_error progs t = Some p ->
  length p * cbound progs <= count_occ Nat.eq_dec sched t ->
  ret_ops t (trace M (bcfg0 nl ticks progs) sched) = p.
Proof.
  intros ticks progs sched t p Hp Hocc.
  pose proof (breaker_returns_prefix ticks progs sched t p Hp) as H.
  unfold todo_at in H.
  destruct (nth_error (c_thr (final M (bcfg0 nl ticks progs) sched)) t) as [th|] eqn:Hn.
  - destruct (breaker_thread_finishes ticks progs sched t p th Hp Hocc Hn) as (H1 & H2 & _).
    unfold todo in H. rewrite H1, H2 in H. simpl in H. rewrite app_nil_r in H. exact H.
  - rewrite app_nil_r in H. exact H.
Qed.

(** ** infinite schedules *)
Definition prefix (sigma : nat -> nat) (n : nat) : list nat := map sigma (seq 0 n).

Definition inf_often (sigma : nat -> nat) (t : nat) : Prop :=
  forall n, exists m, n <= m /\ sigma m = t.

Lemma prefix_S sigma n : prefix sigma (S n) = prefix sigma n ++ [sigma n].
Proof. unfold prefix. rewrite seq_S, map_app. reflexivity. Qed.

Lemma prefix_add sigma n m : exists r, prefix sigma (n + m) = prefix sigma n ++ r.
Proof. unfold prefix. rewrite seq_app, map_app. eauto. Qed.

Lemma prefix_occ_mono sigma n n' t :
  n <= n' -> count_occ Nat.eq_dec (prefix sigma n) t <= count_occ Nat.eq_dec (prefix sigma n') t.
Proof.
  intros H. destruct (prefix_add sigma n (n' - n)) as [r Hr].
  replace (n + (n' - n)) with n' in Hr by lia. rewrite Hr, count_occ_app. lia.
Qed.

Lemma occ_unbounded sigma t :
  inf_often sigma t -> forall k, exists n, k <= count_occ Nat.eq_dec (prefix sigma n) t.
Proof.
  intros Hinf. induction k as [|k [n Hn]].
  - exists 0. lia.
  - destruct (Hinf n) as (m & Hm & Hs). exists (S m).
    rewrite prefix_S, count_occ_app. pose proof (prefix_occ_mono sigma n m t Hm).
    simpl. destruct (Nat.eq_dec (sigma m) t); [lia|contradiction].
Qed.

(** a thread that is scheduled infinitely often finishes its whole program after
    finitely many entries of the schedule and stays finished - whatever happens to
    the other threads (frozen for ever at any atomic step, starved, scheduled
    unfairly): nobody can prevent a caller of the breaker from returning *)
Theorem breaker_inf_often_finishes : forall ticks (progs : list (list bop)) (sigma : nat -> nat) t,
  inf_often sigma t ->
  exists n, forall n' th, n <= n' ->
    nth_error (c_thr (final M (bcfg0 nl ticks progs) (prefix sigma n'))) t = Some th ->
    t_prog th = [] /\ t_cur th = None /\ t_dead th = false.
Proof.
  intros ticks progs sigma t Hinf.
  destruct (nth_error progs t) as [p|] eqn:Hp.
  - destruct (occ_unbounded sigma t Hinf (length p * cbound progs)) as [n Hn].
    exists n. intros n' th Hle Hnth.
    apply (breaker_thread_finishes ticks progs (prefix sigma n') t p th Hp); [|exact Hnth].
    pose proof (prefix_occ_mono sigma n n' t Hle). lia.
  - exists 0. intros n' th _ Hnth. destruct (nth_final_prog _ _ _ _ _ Hnth) as [p Hp']. congruence.
Qed.

(** under every fair infinite schedule there is a point after which every thread
    has returned from all the calls of its program *)
Theorem breaker_fair_infinite : forall ticks (progs : list (list bop)) (sigma : nat -> nat),
  (forall t, t < length progs -> inf_often sigma t) ->
  exists n, forall n' t th, n <= n' ->
    nth_error (c_thr (final M (bcfg0 nl ticks progs) (prefix sigma n'))) t = Some th ->
    t_prog th = [] /\ t_cur th = None /\ t_dead th = false.
Proof.
  intros ticks progs sigma Hfair.
  assert (H : forall T, T <= length progs -> exists n, forall t, t < T ->
               n_ops progs * cbound progs <= count_occ Nat.eq_dec (prefix sigma n) t).
  { induction T as [|T IH]; intros HT.
    - exists 0. intros t Ht. lia.
    - destruct IH as [n1 H1]; [lia|].
      destruct (occ_unbounded sigma T (Hfair T HT) (n_ops progs * cbound progs)) as [n2 H2].
      exists (Nat.max n1 n2). intros t Ht.
      destruct (Nat.eq_dec t T) as [->|Hne].
      + pose proof (prefix_occ_mono sigma n2 (Nat.max n1 n2) T). lia.
      + pose proof (prefix_occ_mono sigma n1 (Nat.max n1 n2) t). specialize (H1 t). lia. }
  destruct (H (length progs) (le_n _)) as [n Hn].
  exists n. intros n' t th Hle Hnth.
  apply (breaker_fair_all_return ticks progs (prefix sigma n')) with (t := t); [|exact Hnth].
  intros t0 p0 Hp0.
  assert (Ht0 : t0 < length progs) by (apply nth_error_Some; congruence).
  pose proof (prefix_occ_mono sigma n n' t0 Hle). specialize (Hn t0 Ht0).
  pose proof (length_le_n_ops progs t0 p0 Hp0).
  assert (length p0 * cbound progs <= n_ops progs * cbound progs) by (apply Nat.mul_le_mono_r; assumption).
  lia.
Qed.

End Fair.

Print Assumptions breaker_thread_finishes.
Print Assumptions breaker_fair_all_return.
Print Assumptions breaker_frozen_others_finish.
Print Assumptions breaker_frozen_midway.
Print Assumptions breaker_round_robin_finishes.
Print Assumptions breaker_finished_all_returned.
Print Assumptions breaker_inf_often_finishes.
Print Assumptions breaker_fair_infinite.
