(** C03, "exactly one of the concurrent callers is admitted".

    ConcInv proves AT MOST one successful CAS per state object.  Here: AT
    LEAST one.  Everything is stated on the log [steps_of] of an arbitrary
    execution (any number of threads, programs, ticker stream, schedule).

    - [cr_call]: the log positions of ONE CanRequest call that saw the
      deadline expired (load, two tick readings, CAS), reconstructed from its
      last step ([cr_call_of_cas]);
    - (A) [rejected_after_expiry_implies_replaced];
    - (B) [exactly_one_trial];
    - (C) [winner_installs_half_open], [admitted_only_after_deadline],
          [others_rejected_until_trial_elapses]. *)
From Coq Require Import List Arith Bool ZArith Lia.
From Garr Require Import Conc.Conc Pure.F64 Pure.Config Breaker.BreakerModel
  Breaker.ConcBase Breaker.ConcInv Breaker.ConcHist.
Import ListNotations.
Local Open Scope Z_scope.

Section One.
Variable cfg : cb_config.
Variable nl : nat.
Notation M := (breaker cfg nl).

(** ** what a CAS step of CanRequest returns *)
Lemma crcas_step cs n s :
  bstep cfg nl (CRCas cs n) s =
  if Nat.eqb (b_cur s) cs then Done (BB true) tt (notify_state nl (set_cur s n) KHalfOpen)
  else Done (BB false) tt (notify_rejected nl s).
Proof. reflexivity. Qed.

Lemma crcas_ret c t o cs n :
  at_pc cfg nl c t o (CRCas cs n) -> ret_at cfg nl c t = Some (BB (Nat.eqb (b_cur (c_sh c)) cs)).
Proof.
  intros [fresh H]. unfold ret_at. rewrite H, crcas_step.
  destruct (Nat.eqb (b_cur (c_sh c)) cs); reflexivity.
Qed.

Section Log.
Variables (ticks : list Z) (progs : list (list bop)) (sched : list nat).
Notation L := (steps_of M (bcfg0 nl ticks progs) sched).

(** ** one CanRequest call that went all the way to its CAS *)
Record cr_call (t cs n i i1 i2 k : nat) (st : bstate) (tk t2 : Z) : Prop := {
  cc_order : (i < i1 /\ i1 < i2 /\ i2 < k)%nat;
  (* the invocation *)
  cc_inv : exists i0 c0, (i0 < i)%nat /\ nth_error L i0 = Some (c0, t) /\
             stepper M c0 t = Some (CanRequest, BInv CanRequest, true) /\
             forall m cm tm, (i0 < m < i)%nat -> nth_error L m = Some (cm, tm) -> tm <> t;
  (* the load of the state pointer: [cs] is current, not CLOSED, with a positive duration *)
  cc_load : exists ci, nth_error L i = Some (ci, t) /\ at_pc cfg nl ci t CanRequest CRLoad /\
             b_cur (c_sh ci) = cs /\ nth1 (b_states (c_sh ci)) cs = Some st /\
             st_kind st <> KClosed /\ 0 < st_dur st;
  (* checkTimeout: the reading [tk] is at or past the deadline of [cs] *)
  cc_tick : exists c1, nth_error L i1 = Some (c1, t) /\ at_pc cfg nl c1 t CanRequest (CRTick cs) /\
             tick_of (c_sh c1) = tk /\ st_timeout st <= tk;
  (* newHalfOpenState: the reading [t2] *)
  cc_tick2 : exists c2, nth_error L i2 = Some (c2, t) /\ at_pc cfg nl c2 t CanRequest (CRTick2 cs) /\
             tick_of (c_sh c2) = t2;
  (* the CAS, holding a fresh HALF_OPEN state object with deadline t2 + trial interval *)
  cc_cas : exists ck, nth_error L k = Some (ck, t) /\ at_pc cfg nl ck t CanRequest (CRCas cs n) /\
             nth1 (b_states (c_sh ck)) cs = Some st /\
             nth1 (b_states (c_sh ck)) n = Some (BState KHalfOpen 0 (wrap64 (t2 + trial cfg)) (trial cfg)) /\
             (cs < n)%nat;
  (* these are all the steps of thread t between the load and the CAS *)
  cc_own : forall m cm tm, (i < m < k)%nat -> m <> i1 -> m <> i2 ->
             nth_error L m = Some (cm, tm) -> tm <> t
}.

Lemma pc_not_inv_CRLoad : forall o', CRLoad <> BInv o'. Proof. discriminate. Qed.
Lemma pc_not_inv_CRTick cs : forall o', CRTick cs <> BInv o'. Proof. discriminate. Qed.
Lemma pc_not_inv_CRTick2 cs : forall o', CRTick2 cs <> BInv o'. Proof. discriminate. Qed.
Lemma pc_not_inv_CRCas cs n : forall o', CRCas cs n <> BInv o'. Proof. discriminate. Qed.

Theorem cr_call_of_cas k ck t o cs n :
  nth_error L k = Some (ck, t) -> at_pc cfg nl ck t o (CRCas cs n) ->
  o = CanRequest /\ exists i i1 i2 st tk t2, cr_call t cs n i i1 i2 k st tk t2.
Proof.
  intros Hk Hat.
  destruct (bprev _ _ _ _ _ _ _ _ _ _ Hk Hat (pc_not_inv_CRCas _ _))
    as (i2 & c2 & l2 & s2 & Hlt2 & Hi2 & Hat2 & Hb2 & Hs2 & Hown2).
  destruct (next_CRCas _ _ _ _ _ _ _ Hb2) as (-> & En & Ecur2 & _ & Est2).
  destruct (bprev _ _ _ _ _ _ _ _ _ _ Hi2 Hat2 (pc_not_inv_CRTick2 _))
    as (i1 & c1 & l1 & s1 & Hlt1 & Hi1 & Hat1 & Hb1 & Hs1 & Hown1).
  destruct (next_CRTick2 _ _ _ _ _ _ Hb1) as (-> & _ & _ & _ & st1 & Hst1 & Hto).
  destruct (bprev _ _ _ _ _ _ _ _ _ _ Hi1 Hat1 (pc_not_inv_CRTick _))
    as (i & ci & l0 & s0 & Hlt0 & Hi & Hat0 & Hb0 & Hs0 & Hown0).
  destruct (next_CRTick _ _ _ _ _ _ Hb0) as (-> & _ & Ecur & st & Hst & Hkind & Hdur).
  destruct (bprev _ _ _ _ _ _ _ _ _ _ Hi Hat0 pc_not_inv_CRLoad)
    as (i0 & c0 & li & si & Hlti & Hi0 & Hati & Hbi & Hsi & Howni).
  destruct (next_CRLoad _ _ _ _ _ Hbi) as (-> & _).
  destruct (binv_op _ _ _ _ _ _ _ _ _ _ Hi0 Hati) as [-> Hst0].
  split; [reflexivity|].
  (* the state object [cs] is the same at all positions *)
  assert (E1 : st1 = st).
  { destruct (log_mono _ _ _ _ _ _ _ _ _ _ _ Hi Hi1 ltac:(lia)) as [_ Hx].
    pose proof (sext_nth _ _ Hx _ _ Hst) as Hst'. congruence. }
  subst st1.
  assert (Hstk : nth1 (b_states (c_sh ck)) cs = Some st).
  { destruct (log_mono _ _ _ _ _ _ _ _ _ _ _ Hi Hk ltac:(lia)) as [_ Hx].
    exact (sext_nth _ _ Hx _ _ Hst). }
  assert (Hnk : nth1 (b_states (c_sh ck)) n =
                Some (BState KHalfOpen 0 (wrap64 (tick_of (c_sh c2) + trial cfg)) (trial cfg))).
  { destruct (log_succ_mono _ _ _ _ _ _ _ _ _ _ _ Hi2 Hk Hlt2) as [_ Hx].
    apply (sext_nth _ _ Hx). rewrite Hs2, Est2, En. apply nth1_new. }
  assert (Hcsn : (cs < n)%nat).
  { destruct (log_mono _ _ _ _ _ _ _ _ _ _ _ Hi Hi2 ltac:(lia)) as [_ Hx].
    pose proof (sext_nth _ _ Hx _ _ Hst) as Hst'. apply nth1_le in Hst'. lia. }
  exists i, i1, i2, st, (tick_of (c_sh c1)), (tick_of (c_sh c2)).
  constructor.
  - lia.
  - exists i0, c0. auto.
  - exists ci. repeat split; auto.
  - exists c1. repeat split; auto.
  - exists c2. repeat split; auto.
  - exists ck. repeat split; auto.
  - intros m cm tm Hm Hm1 Hm2 Hnth.
    destruct (Nat.lt_trichotomy m i1) as [H|[H|H]]; [eapply Hown0; [|exact Hnth]; lia|contradiction|].
    destruct (Nat.lt_trichotomy m i2) as [H'|[H'|H']]; [eapply Hown1; [|exact Hnth]; lia|contradiction|].
    eapply Hown2; [|exact Hnth]; lia.
Qed.

(** ** (A) a caller that saw the deadline expired and is rejected lost the race *)

(* the CAS step returns [true] exactly when it succeeds *)
Lemma crcas_admitted_iff c t o cs n :
  at_pc cfg nl c t o (CRCas cs n) ->
  (ret_at cfg nl c t = Some (BB true) <-> cas_succeeds c t cs) /\
  (ret_at cfg nl c t = Some (BB false) <-> b_cur (c_sh c) <> cs).
Proof.
  intros Hat. rewrite (crcas_ret _ _ _ _ _ Hat). split.
  - rewrite (cas_succeeds_at cfg nl). split.
    + intros [= E]. apply Nat.eqb_eq in E. exists o, (CRCas cs n), n. auto.
    + intros (o' & l' & n' & Hat' & Hc & E). apply Nat.eqb_eq in E. rewrite E. reflexivity.
  - destruct (Nat.eqb_spec (b_cur (c_sh c)) cs) as [E|E]; split; intros H; congruence.
Qed.

Theorem admitted : forall k ck t o cs n,
  nth_error L k = Some (ck, t) -> at_pc cfg nl ck t o (CRCas cs n) ->
  cas_succeeds ck t cs -> ret_at cfg nl ck t = Some (BB true).
Proof. intros k ck t o cs n _ Hat Hc. apply (crcas_admitted_iff _ _ _ _ _ Hat). exact Hc. Qed.

Lemma rejected_call_replaced t cs n i i1 i2 k st tk t2 ck :
  cr_call t cs n i i1 i2 k st tk t2 ->
  nth_error L k = Some (ck, t) -> b_cur (c_sh ck) <> cs ->
  exists j cj t', (i < j < k)%nat /\ nth_error L j = Some (cj, t') /\ t' <> t /\
    cas_succeeds cj t' cs /\ (cs < b_cur (c_sh ck))%nat.
Proof.
  intros [Hord _ (ci & Hi & Hati & Ecur & _) (c1 & Hi1 & Hat1 & _) (c2 & Hi2 & Hat2 & _) _ Hown] Hk Hne.
  destruct (cur_change_cas cfg nl ticks progs sched (k - i) i k ci t ck t cs
              (Nat.le_refl _) Hi Hk ltac:(lia) Ecur Hne) as (j & cj & tj & Hr & Hj & Hc).
  assert (Hnt : tj <> t).
  { intros ->.
    apply (cas_succeeds_at cfg nl) in Hc. destruct Hc as (o' & l' & n' & Hat' & Hcas & _).
    assert (Hcases : j = i \/ j = i1 \/ j = i2).
    { destruct (Nat.eq_dec j i) as [|N0]; [auto|]. destruct (Nat.eq_dec j i1) as [|N1]; [auto|].
      destruct (Nat.eq_dec j i2) as [|N2]; [auto|]. exfalso.
      eapply (Hown j cj t); [lia|assumption|assumption|exact Hj|reflexivity]. }
    destruct Hcases as [->|[->| ->]].
    - rewrite Hi in Hj. injection Hj as <-.
      destruct (at_pc_fun _ _ _ _ _ _ _ _ Hati Hat') as [_ ->]. discriminate.
    - rewrite Hi1 in Hj. injection Hj as <-.
      destruct (at_pc_fun _ _ _ _ _ _ _ _ Hat1 Hat') as [_ ->]. discriminate.
    - rewrite Hi2 in Hj. injection Hj as <-.
      destruct (at_pc_fun _ _ _ _ _ _ _ _ Hat2 Hat') as [_ ->]. discriminate. }
  exists j, cj, tj. repeat split; auto; try lia.
  - destruct (Nat.eq_dec i j) as [->|]; [|lia]. rewrite Hi in Hj. injection Hj as _ <-. contradiction.
  - eapply cas_then_gt; [exact Hj|exact Hk|lia|exact Hc].
Qed.

(** (A): a CanRequest call that loaded [cs] (not CLOSED), read a tick at or
    past its deadline and returns [false] at position [k]: between its load
    (position [i]) and its own CAS (position [k]) ANOTHER thread's CAS
    replaced [cs] - and the pointer is past [cs] for good. *)
Theorem rejected_after_expiry_implies_replaced : forall k ck t o cs n,
  nth_error L k = Some (ck, t) -> at_pc cfg nl ck t o (CRCas cs n) ->
  ret_at cfg nl ck t = Some (BB false) ->
  exists i i1 i2 st tk t2, cr_call t cs n i i1 i2 k st tk t2 /\
  exists j cj t', (i < j < k)%nat /\ nth_error L j = Some (cj, t') /\ t' <> t /\
    cas_succeeds cj t' cs /\ (cs < b_cur (c_sh ck))%nat.
Proof.
  intros k ck t o cs n Hk Hat Hret.
  destruct (cr_call_of_cas _ _ _ _ _ _ Hk Hat) as (-> & i & i1 & i2 & st & tk & t2 & Hcall).
  exists i, i1, i2, st, tk, t2. split; [exact Hcall|].
  eapply rejected_call_replaced; eauto.
  apply (crcas_admitted_iff _ _ _ _ _ Hat). exact Hret.
Qed.

(** ** steps of CanRequest calls *)
Definition is_cr_pc (l : bpc) : bool :=
  match l with BInv CanRequest | CRLoad | CRTick _ | CRTick2 _ | CRCas _ _ => true | _ => false end.

Lemma cr_pc_next l s l' s' : is_cr_pc l = true -> bstep cfg nl l s = Next l' s' -> is_cr_pc l' = true.
Proof.
  intros Hl H. destruct l; try discriminate Hl;
    try match goal with o : bop |- _ => destruct o; try discriminate Hl end;
    unfold_bstep H; repeat break1 H; try discriminate H; injection H as <- _; reflexivity.
Qed.

Lemma pc_inv_dec l : (exists o', l = BInv o') \/ (forall o', l <> BInv o').
Proof. destruct l; try (right; discriminate). left. eauto. Qed.

(* a thread inside a CanRequest call is at a CanRequest program counter *)
Lemma cr_op_pc : forall k ck t l,
  nth_error L k = Some (ck, t) -> at_pc cfg nl ck t CanRequest l -> is_cr_pc l = true.
Proof.
  induction k as [k IH] using lt_wf_ind. intros ck t l Hk Hat.
  destruct (pc_inv_dec l) as [[o' ->]|Hl].
  - destruct (binv_op _ _ _ _ _ _ _ _ _ _ Hk Hat) as [<- _]. reflexivity.
  - destruct (bprev _ _ _ _ _ _ _ _ _ _ Hk Hat Hl) as (j & cj & lj & s' & Hlt & Hj & Hatj & Hb & _).
    eapply cr_pc_next; [|exact Hb]. eapply IH; eauto.
Qed.

(* from position [p] on only CanRequest calls take steps: no result is reported *)
Definition cr_region (p : nat) : Prop :=
  forall m cm tm, (p <= m)%nat -> nth_error L m = Some (cm, tm) ->
    exists l, at_pc cfg nl cm tm CanRequest l.

Lemma region_cas p j cj tj cs :
  cr_region p -> (p <= j)%nat -> nth_error L j = Some (cj, tj) -> cas_succeeds cj tj cs ->
  exists n, at_pc cfg nl cj tj CanRequest (CRCas cs n).
Proof.
  intros Hreg Hp Hj Hc. destruct (Hreg _ _ _ Hp Hj) as [l Hat].
  pose proof (cr_op_pc _ _ _ _ Hj Hat) as Hcr.
  apply (cas_succeeds_at cfg nl) in Hc. destruct Hc as (o' & l' & n' & Hat' & Hcas & _).
  destruct (at_pc_fun _ _ _ _ _ _ _ _ Hat Hat') as [-> ->].
  destruct l; simpl in Hcr, Hcas; try discriminate. injection Hcas as -> ->. exists n'. exact Hat.
Qed.

(** ** (B) exactly one trial *)
Definition is_crcas_on (cs : nat) (x : bconfig * nat) : bool :=
  match stepper M (fst x) (snd x) with
  | Some (_, CRCas cs' _, _) => Nat.eqb cs' cs
  | _ => false
  end.

Lemma is_crcas_on_spec cs c t :
  is_crcas_on cs (c, t) = true <-> exists o n, at_pc cfg nl c t o (CRCas cs n).
Proof.
  unfold is_crcas_on, at_pc; simpl. split.
  - destruct (stepper M c t) as [[[o l] fresh]|]; [|discriminate].
    destruct l; try discriminate. intros E. apply Nat.eqb_eq in E. subst. eauto.
  - intros (o & n & fresh & ->). apply Nat.eqb_refl.
Qed.

Lemma first_such {A} (f : A -> bool) (l : list A) : forall k x,
  nth_error l k = Some x -> f x = true ->
  exists kw xw, (kw <= k)%nat /\ nth_error l kw = Some xw /\ f xw = true /\
    forall m y, (m < kw)%nat -> nth_error l m = Some y -> f y = false.
Proof.
  induction l as [|a r IH]; intros k x Hk Hx; [destruct k; discriminate|].
  destruct (f a) eqn:Ha.
  - exists 0%nat, a. repeat split; auto; try lia.
  - destruct k as [|k]; [simpl in Hk; congruence|]. simpl in Hk.
    destruct (IH _ _ Hk Hx) as (kw & xw & H1 & H2 & H3 & H4).
    exists (S kw), xw. repeat split; auto; try lia.
    intros [|m] y Hm Hy; simpl in Hy; [congruence|]. eapply H4; [|exact Hy]. lia.
Qed.

(* while [cs] is current nobody has yet attempted a CAS on it: an attempt would have succeeded *)
Lemma no_cas_before p cp tp cs k ck t o n :
  nth_error L p = Some (cp, tp) -> b_cur (c_sh cp) = cs ->
  nth_error L k = Some (ck, t) -> at_pc cfg nl ck t o (CRCas cs n) -> (p <= k)%nat.
Proof.
  intros Hp Hcur Hk Hat. destruct (Nat.le_gt_cases p k) as [H|H]; [exact H|exfalso].
  destruct (cr_call_of_cas _ _ _ _ _ _ Hk Hat) as (-> & i & i1 & i2 & st & tk & t2 & Hcall).
  destruct Hcall as [Hord _ (ci & Hi & _ & Ecur & _) _ _ _ _].
  destruct (log_mono _ _ _ _ _ _ _ _ _ _ _ Hi Hk ltac:(lia)) as [H1 _].
  destruct (log_mono _ _ _ _ _ _ _ _ _ _ _ Hk Hp ltac:(lia)) as [H2 _].
  assert (E : b_cur (c_sh ck) = cs) by lia.
  assert (Hc : cas_succeeds ck t cs).
  { apply (cas_succeeds_at cfg nl). exists CanRequest, (CRCas cs n), n. auto. }
  pose proof (cas_then_gt _ _ _ _ _ _ _ _ _ _ _ _ Hk Hp H Hc). lia.
Qed.

(** (B): [cs] is the current state object at position [p], and from [p] on
    only CanRequest calls run.  If at least one call reaches its CAS on [cs]
    (it loaded [cs] and read a tick past its deadline, see [cr_call_of_cas]),
    then EXACTLY ONE of these calls - the first to reach the CAS - is admitted:
    its CAS succeeds and it returns [true]; EVERY other call that reaches its
    CAS on [cs], anywhere in the execution, does so later and returns [false]. *)
Theorem exactly_one_trial : forall p cp tp cs,
  nth_error L p = Some (cp, tp) -> b_cur (c_sh cp) = cs -> cr_region p ->
  forall k ck t o n,
    nth_error L k = Some (ck, t) -> at_pc cfg nl ck t o (CRCas cs n) ->
  exists kw cw tw nw,
    (p <= kw <= k)%nat /\ nth_error L kw = Some (cw, tw) /\
    at_pc cfg nl cw tw CanRequest (CRCas cs nw) /\
    cas_succeeds cw tw cs /\ ret_at cfg nl cw tw = Some (BB true) /\
    forall k' ck' t' o' n',
      nth_error L k' = Some (ck', t') -> at_pc cfg nl ck' t' o' (CRCas cs n') -> k' <> kw ->
      (kw < k')%nat /\ ret_at cfg nl ck' t' = Some (BB false).
Proof.
  intros p cp tp cs Hp Hcur Hreg k ck t o n Hk Hat.
  assert (Hf : is_crcas_on cs (ck, t) = true) by (apply is_crcas_on_spec; eauto).
  destruct (first_such (is_crcas_on cs) L k (ck, t) Hk Hf) as (kw & [cw tw] & Hle & Hkw & Hfw & Hmin).
  apply is_crcas_on_spec in Hfw. destruct Hfw as (ow & nw & Hatw).
  pose proof (no_cas_before _ _ _ _ _ _ _ _ _ Hp Hcur Hkw Hatw) as Hpw.
  destruct (cr_call_of_cas _ _ _ _ _ _ Hkw Hatw) as (-> & _).
  assert (Ecw : b_cur (c_sh cw) = cs).
  { destruct (Nat.eq_dec (b_cur (c_sh cw)) cs) as [E|Hne]; [exact E|exfalso].
    destruct (cur_change_cas cfg nl ticks progs sched (kw - p) p kw cp tp cw tw cs
                (Nat.le_refl _) Hp Hkw Hpw Hcur Hne) as (j & cj & tj & Hr & Hj & Hc).
    destruct (region_cas p j cj tj cs Hreg ltac:(lia) Hj Hc) as [nj Hatj].
    assert (Hfj : is_crcas_on cs (cj, tj) = true) by (apply is_crcas_on_spec; eauto).
    rewrite (Hmin j (cj, tj) ltac:(lia) Hj) in Hfj. discriminate. }
  assert (Hcw : cas_succeeds cw tw cs).
  { apply (cas_succeeds_at cfg nl). exists CanRequest, (CRCas cs nw), nw. auto. }
  exists kw, cw, tw, nw.
  split; [lia|]. split; [exact Hkw|]. split; [exact Hatw|]. split; [exact Hcw|].
  split; [apply (crcas_admitted_iff _ _ _ _ _ Hatw); exact Hcw|].
  intros k' ck' t' o' n' Hk' Hat' Hne.
  assert (Hlt : (kw < k')%nat).
  { destruct (Nat.lt_ge_cases k' kw) as [Hlt|Hge]; [exfalso|lia].
    assert (Hf' : is_crcas_on cs (ck', t') = true) by (apply is_crcas_on_spec; eauto).
    rewrite (Hmin k' (ck', t') Hlt Hk') in Hf'. discriminate. }
  split; [exact Hlt|].
  apply (crcas_admitted_iff _ _ _ _ _ Hat').
  pose proof (cas_then_gt _ _ _ _ _ _ _ _ _ _ _ _ Hkw Hk' Hlt Hcw). lia.
Qed.

(** ** callers that see the deadline NOT expired (fail fast, cf. [C03_fail_fast]) *)
Lemma crtick_reject cs s st :
  nth1 (b_states s) cs = Some st -> tick_of s < st_timeout st ->
  exists s', bstep cfg nl (CRTick cs) s = Done (BB false) tt s' /\
    b_log s' = b_log s ++ map (fun i => (i, LRejected)) (seq 0 nl) /\
    b_states s' = b_states s /\ b_cur s' = b_cur s.
Proof.
  intros Hst Hlt. unfold bstep. rewrite Hst. unfold take_tick, tick_of in *.
  assert (E : (st_timeout st <=? hd 0 (b_ticks s)) = false) by (apply Z.leb_gt; exact Hlt).
  destruct (b_ticks s) as [|t0 r]; simpl in E; rewrite E;
    eexists; (split; [reflexivity|]); simpl;
    rewrite <- (each_single nl (fun i => (i, LRejected))); repeat split; reflexivity.
Qed.

Theorem not_expired_rejected : forall k ck t o cs st,
  nth_error L k = Some (ck, t) -> at_pc cfg nl ck t o (CRTick cs) ->
  nth1 (b_states (c_sh ck)) cs = Some st -> tick_of (c_sh ck) < st_timeout st ->
  ret_at cfg nl ck t = Some (BB false) /\
  b_log (c_sh (step_cfg M ck t)) = b_log (c_sh ck) ++ map (fun i => (i, LRejected)) (seq 0 nl) /\
  b_states (c_sh (step_cfg M ck t)) = b_states (c_sh ck) /\
  b_cur (c_sh (step_cfg M ck t)) = b_cur (c_sh ck).
Proof.
  intros k ck t o cs st _ [fresh Hst] Hn Hlt.
  destruct (crtick_reject _ _ _ Hn Hlt) as (s' & Hb & Hlog & Hsts & Hcur).
  rewrite (step_cfg_sh_done M _ _ _ _ _ _ _ _ Hst Hb).
  split; [|auto]. unfold ret_at. rewrite Hst, Hb. reflexivity.
Qed.

(** ** (C) what the winner installs, and who can be admitted next *)

(* the winning CAS: the pointer moves to the fresh HALF_OPEN state object whose deadline is
   (the winner's second tick reading) + trial interval; every listener hears HALF_OPEN once *)
Theorem winner_installs_half_open : forall t cs n i i1 i2 k st tk t2 ck,
  cr_call t cs n i i1 i2 k st tk t2 -> nth_error L k = Some (ck, t) -> cas_succeeds ck t cs ->
  let s' := c_sh (step_cfg M ck t) in
  b_cur s' = n /\
  nth1 (b_states s') n = Some (BState KHalfOpen 0 (wrap64 (t2 + trial cfg)) (trial cfg)) /\
  b_states s' = b_states (c_sh ck) /\
  b_log s' = b_log (c_sh ck) ++ each nl (fun i => [(i, LStateChanged KHalfOpen); (i, LCountUpdated 0 0)]).
Proof.
  intros t cs n i i1 i2 k st tk t2 ck Hcall Hk Hc s'.
  destruct Hcall as [_ _ _ _ _ (ck' & Hk' & [fresh Hst] & _ & Hn & _) _].
  rewrite Hk in Hk'. injection Hk' as <-.
  assert (E : b_cur (c_sh ck) = cs) by (destruct Hc as (_ & _ & _ & _ & _ & _ & _ & E); exact E).
  pose proof (crcas_step cs n (c_sh ck)) as Hb. rewrite E, Nat.eqb_refl in Hb.
  subst s'. rewrite (step_cfg_sh_done M _ _ _ _ _ _ _ _ Hst Hb). simpl.
  repeat split; auto.
Qed.

(* in a region without reports the current state object is never CLOSED *)
Lemma region_nonclosed p cp tp st0 :
  nth_error L p = Some (cp, tp) -> cr_region p ->
  nth1 (b_states (c_sh cp)) (b_cur (c_sh cp)) = Some st0 -> st_kind st0 <> KClosed ->
  forall d m cm tm, m = (p + d)%nat -> nth_error L m = Some (cm, tm) ->
  exists st, nth1 (b_states (c_sh cm)) (b_cur (c_sh cm)) = Some st /\ st_kind st <> KClosed.
Proof.
  intros Hp Hreg Hst0 Hk0. induction d as [|d IH]; intros m cm tm Hm Hnm.
  - rewrite Nat.add_0_r in Hm. subst m. rewrite Hp in Hnm. injection Hnm as <- <-. eauto.
  - destruct (nth_error L (p + d)) as [[c1 t1]|] eqn:H1.
    2:{ exfalso. apply nth_error_None in H1.
        assert (m < length L)%nat by (apply nth_error_Some; congruence). lia. }
    destruct (IH _ _ _ eq_refl H1) as (st & Hst & Hkind).
    subst m. replace (p + S d)%nat with (S (p + d)) in Hnm by lia.
    pose proof (steps_of_succ _ _ _ _ _ _ _ _ H1 Hnm) as ->.
    destruct (steps_of_enabled _ _ _ _ _ _ H1) as (c' & e & Hs).
    destruct (log_step_mono _ _ _ _ _ _ _ _ H1) as [_ Hx].
    rewrite (step_cfg_some _ _ _ _ _ Hs) in *.
    destruct (step_cur _ _ _ _ _ _ Hs) as [E|Hc].
    + rewrite E. exists st. split; [exact (sext_nth _ _ Hx _ _ Hst)|exact Hkind].
    + destruct (region_cas p (p + d)%nat c1 t1 _ Hreg ltac:(lia) H1 Hc) as [n Hat].
      destruct (cr_call_of_cas _ _ _ _ _ _ H1 Hat) as (_ & i & i1 & i2 & st' & tk & t2 & Hcall).
      pose proof (winner_installs_half_open _ _ _ _ _ _ _ _ _ _ _ Hcall H1 Hc) as Hw.
      rewrite (step_cfg_some _ _ _ _ _ Hs) in Hw. destruct Hw as (-> & Hn & _).
      eexists. split; [exact Hn|]. simpl. discriminate.
Qed.

(** In a region without reports (current state object not CLOSED at its
    start) EVERY admission is a successful CAS of a call that read a tick at or
    past the deadline of the state object it had loaded. *)
Theorem admitted_only_after_deadline : forall p cp tp st0,
  nth_error L p = Some (cp, tp) -> cr_region p ->
  nth1 (b_states (c_sh cp)) (b_cur (c_sh cp)) = Some st0 -> st_kind st0 <> KClosed ->
  forall k ck t, (p <= k)%nat -> nth_error L k = Some (ck, t) ->
    ret_at cfg nl ck t = Some (BB true) ->
  exists cs n i i1 i2 st tk t2,
    cr_call t cs n i i1 i2 k st tk t2 /\ cas_succeeds ck t cs /\ st_timeout st <= tk.
Proof.
  intros p cp tp st0 Hp Hreg Hst0 Hk0 k ck t Hpk Hk Hret.
  destruct (region_nonclosed _ _ _ _ Hp Hreg Hst0 Hk0 (k - p) k ck t ltac:(lia) Hk) as (st & Hst & Hkind).
  unfold ret_at in Hret. destruct (stepper M ck t) as [[[o l] fresh]|] eqn:Hstp; [|discriminate].
  destruct (bstep cfg nl l (c_sh ck)) as [| r u s' | |] eqn:Hb; try discriminate.
  injection Hret as ->. destruct u.
  destruct (admission_sources _ _ _ _ _ Hb) as [(-> & st' & Hst' & Hk' & _)|(cs & n & -> & Hcur & _)].
  - congruence.
  - assert (Hat : at_pc cfg nl ck t o (CRCas cs n)) by (exists fresh; exact Hstp).
    destruct (cr_call_of_cas _ _ _ _ _ _ Hk Hat) as (-> & i & i1 & i2 & st' & tk & t2 & Hcall).
    exists cs, n, i, i1, i2, st', tk, t2. split; [exact Hcall|]. split.
    + apply (cas_succeeds_at cfg nl). exists CanRequest, (CRCas cs n), n. auto.
    + destruct Hcall as [_ _ _ (c1 & _ & _ & _ & Hto) _ _ _]. exact Hto.
Qed.

Lemma cr_region_mono p q : cr_region p -> (p <= q)%nat -> cr_region q.
Proof. intros H Hle m cm tm Hm. apply H. lia. Qed.

(** (C) combined with (B): once the winner (position [kw]) has installed its
    HALF_OPEN state object [nw], and as long as no result is reported, every
    later admission (a call returning [true] at [k > kw]) is again the unique
    successful CAS on a state object [cs' >= nw] by a caller that read a tick
    at or past the deadline of [cs']; the deadline of [nw] is the winner's
    reading + trial interval; and the FIRST admission after the winner is of
    a caller that loaded [nw] itself: all others are rejected until the trial
    interval has elapsed on the ticker. *)
Theorem others_rejected_until_trial_elapses : forall p cp tp,
  nth_error L p = Some (cp, tp) -> cr_region p ->
  forall tw cs nw i i1 i2 kw stw tkw t2w cw,
    (p <= kw)%nat -> cr_call tw cs nw i i1 i2 kw stw tkw t2w ->
    nth_error L kw = Some (cw, tw) -> cas_succeeds cw tw cs ->
  forall k ck t, (kw < k)%nat -> nth_error L k = Some (ck, t) ->
    ret_at cfg nl ck t = Some (BB true) ->
  exists cs' n' j j1 j2 st' tk' t2',
    cr_call t cs' n' j j1 j2 k st' tk' t2' /\ cas_succeeds ck t cs' /\
    (nw <= cs')%nat /\ st_timeout st' <= tk' /\
    (cs' = nw -> st' = BState KHalfOpen 0 (wrap64 (t2w + trial cfg)) (trial cfg) /\
                 wrap64 (t2w + trial cfg) <= tk') /\
    ((forall m cm tm, (kw < m < k)%nat -> nth_error L m = Some (cm, tm) ->
        ret_at cfg nl cm tm <> Some (BB true)) -> cs' = nw).
Proof.
  intros p cp tp Hp Hreg tw cs nw i i1 i2 kw stw tkw t2w cw Hpk Hcall Hkw Hcw k ck t Hlt Hk Hret.
  destruct (winner_installs_half_open _ _ _ _ _ _ _ _ _ _ _ Hcall Hkw Hcw) as (Hcur & Hn & _).
  destruct (log_next_exists _ _ _ _ _ _ _ _ _ _ _ Hkw Hk Hlt) as [t1 H1].
  assert (Hreg1 : cr_region (S kw)) by (eapply cr_region_mono; [exact Hreg|lia]).
  assert (Hn1 : nth1 (b_states (c_sh (step_cfg M cw tw))) (b_cur (c_sh (step_cfg M cw tw))) =
                Some (BState KHalfOpen 0 (wrap64 (t2w + trial cfg)) (trial cfg))) by (rewrite Hcur; exact Hn).
  destruct (admitted_only_after_deadline _ _ _ _ H1 Hreg1 Hn1 ltac:(simpl; discriminate) k ck t ltac:(lia) Hk Hret)
    as (cs' & n' & j & j1 & j2 & st' & tk' & t2' & Hcall' & Hc' & Hto).
  exists cs', n', j, j1, j2, st', tk', t2'.
  destruct (log_mono _ _ _ _ _ _ _ _ _ _ _ H1 Hk ltac:(lia)) as [Hm Hx].
  assert (Ecs' : b_cur (c_sh ck) = cs') by (destruct Hc' as (_ & _ & _ & _ & _ & _ & _ & E); exact E).
  assert (Est : cs' = nw -> st' = BState KHalfOpen 0 (wrap64 (t2w + trial cfg)) (trial cfg)).
  { intros ->. destruct Hcall' as [_ _ _ _ _ (ck' & Hk' & _ & Hst' & _) _].
    rewrite Hk in Hk'. injection Hk' as <-.
    pose proof (sext_nth _ _ Hx _ _ Hn) as Hn'. congruence. }
  split; [exact Hcall'|]. split; [exact Hc'|]. split; [lia|]. split; [exact Hto|]. split.
  - intros E. split; [exact (Est E)|]. rewrite (Est E) in Hto. exact Hto.
  - intros Hnone. destruct (Nat.eq_dec cs' nw) as [E|Hne]; [exact E|exfalso].
    destruct (cur_change_cas cfg nl ticks progs sched (k - S kw) (S kw) k _ t1 ck t nw
                (Nat.le_refl _) H1 Hk ltac:(lia) Hcur ltac:(congruence)) as (m & cm & tm & Hr & Hnm & Hc).
    destruct (region_cas p m cm tm nw Hreg ltac:(lia) Hnm Hc) as [nm Hatm].
    apply (Hnone m cm tm ltac:(lia) Hnm).
    apply (crcas_admitted_iff _ _ _ _ _ Hatm). exact Hc.
Qed.

(* a loser of the race: rejected, one [LRejected] per listener, nothing else changes *)
Theorem loser_logs_rejection : forall k ck t o cs n,
  nth_error L k = Some (ck, t) -> at_pc cfg nl ck t o (CRCas cs n) -> b_cur (c_sh ck) <> cs ->
  ret_at cfg nl ck t = Some (BB false) /\
  b_log (c_sh (step_cfg M ck t)) = b_log (c_sh ck) ++ map (fun i => (i, LRejected)) (seq 0 nl) /\
  b_states (c_sh (step_cfg M ck t)) = b_states (c_sh ck) /\
  b_cur (c_sh (step_cfg M ck t)) = b_cur (c_sh ck).
Proof.
  intros k ck t o cs n _ Hat Hne. split; [apply (crcas_admitted_iff _ _ _ _ _ Hat); exact Hne|].
  destruct Hat as [fresh Hst]. pose proof (crcas_step cs n (c_sh ck)) as Hb.
  destruct (Nat.eqb_spec (b_cur (c_sh ck)) cs) as [E|_]; [contradiction|].
  rewrite (step_cfg_sh_done M _ _ _ _ _ _ _ _ Hst Hb). simpl.
  rewrite <- (each_single nl (fun i => (i, LRejected))). repeat split; reflexivity.
Qed.

(* callers that load the winner's successor and read a tick before ITS deadline
   (the winner's reading + trial interval) are rejected *)
Theorem successor_rejects_before_deadline : forall tw cs nw i i1 i2 kw stw tkw t2w cw,
  cr_call tw cs nw i i1 i2 kw stw tkw t2w -> nth_error L kw = Some (cw, tw) ->
  forall k ck t o, (kw <= k)%nat -> nth_error L k = Some (ck, t) -> at_pc cfg nl ck t o (CRTick nw) ->
    tick_of (c_sh ck) < wrap64 (t2w + trial cfg) ->
  ret_at cfg nl ck t = Some (BB false) /\
  b_log (c_sh (step_cfg M ck t)) = b_log (c_sh ck) ++ map (fun i => (i, LRejected)) (seq 0 nl) /\
  b_states (c_sh (step_cfg M ck t)) = b_states (c_sh ck) /\
  b_cur (c_sh (step_cfg M ck t)) = b_cur (c_sh ck).
Proof.
  intros tw cs nw i i1 i2 kw stw tkw t2w cw Hcall Hkw k ck t o Hle Hk Hat Hlt.
  destruct Hcall as [_ _ _ _ _ (cw' & Hkw' & _ & _ & Hn & _) _].
  rewrite Hkw in Hkw'. injection Hkw' as <-.
  destruct (log_mono _ _ _ _ _ _ _ _ _ _ _ Hkw Hk Hle) as [_ Hx].
  eapply not_expired_rejected; [exact Hk|exact Hat|exact (sext_nth _ _ Hx _ _ Hn)|exact Hlt].
Qed.

(** ** (B) as a count: the number of admitted CAS attempts on [cs] is exactly 1 *)
Definition admitted_on (cs : nat) (x : bconfig * nat) : bool :=
  is_crcas_on cs x && Nat.eqb (b_cur (c_sh (fst x))) cs.

Lemma admitted_on_spec cs c t :
  admitted_on cs (c, t) = true <->
  exists o n, at_pc cfg nl c t o (CRCas cs n) /\ ret_at cfg nl c t = Some (BB true).
Proof.
  unfold admitted_on. rewrite andb_true_iff, is_crcas_on_spec. simpl. split.
  - intros [(o & n & Hat) E]. exists o, n. split; [exact Hat|].
    rewrite (crcas_ret _ _ _ _ _ Hat), E. reflexivity.
  - intros (o & n & Hat & Hr). split; [eauto|].
    rewrite (crcas_ret _ _ _ _ _ Hat) in Hr. injection Hr as ->. reflexivity.
Qed.

Lemma filter_none {A} (f : A -> bool) (l : list A) :
  (forall k y, nth_error l k = Some y -> f y = false) -> filter f l = [].
Proof.
  induction l as [|a r IH]; intros H; [reflexivity|]. simpl.
  rewrite (H 0%nat a eq_refl). apply IH. intros k y Hk. apply (H (S k) y Hk).
Qed.

Lemma filter_unique {A} (f : A -> bool) (l : list A) : forall kw x,
  nth_error l kw = Some x -> f x = true ->
  (forall k y, nth_error l k = Some y -> f y = true -> k = kw) ->
  filter f l = [x].
Proof.
  induction l as [|a r IH]; intros kw x Hkw Hx Hu; [destruct kw; discriminate|].
  destruct kw as [|kw]; simpl in Hkw.
  - injection Hkw as ->. simpl. rewrite Hx. f_equal. apply filter_none.
    intros k y Hk. destruct (f y) eqn:E; [|reflexivity].
    specialize (Hu (S k) y Hk E). discriminate.
  - simpl. destruct (f a) eqn:Ea.
    + specialize (Hu 0%nat a eq_refl Ea). discriminate.
    + apply (IH kw x Hkw Hx). intros k y Hk Hy. specialize (Hu (S k) y Hk Hy). lia.
Qed.

Theorem exactly_one_trial_count : forall p cp tp cs,
  nth_error L p = Some (cp, tp) -> b_cur (c_sh cp) = cs -> cr_region p ->
  forall k ck t o n,
    nth_error L k = Some (ck, t) -> at_pc cfg nl ck t o (CRCas cs n) ->
  length (filter (admitted_on cs) L) = 1%nat.
Proof.
  intros p cp tp cs Hp Hcur Hreg k ck t o n Hk Hat.
  destruct (exactly_one_trial p cp tp cs Hp Hcur Hreg k ck t o n Hk Hat)
    as (kw & cw & tw & nw & _ & Hkw & Hatw & _ & Hretw & Hoth).
  rewrite (filter_unique (admitted_on cs) L kw (cw, tw) Hkw); [reflexivity| |].
  - apply admitted_on_spec. eauto.
  - intros k' [ck' t'] Hk' Hadm. apply admitted_on_spec in Hadm. destruct Hadm as (o' & n' & Hat' & Hr').
    destruct (Nat.eq_dec k' kw) as [E|Hne]; [exact E|exfalso].
    destruct (Hoth k' ck' t' o' n' Hk' Hat' Hne) as [_ Hf]. congruence.
Qed.

(** While the trial is running - as long as every reading of the ticker made
    (after the winner's CAS) by callers that inspect the winner's successor is
    before its deadline, and no result is reported - EVERY other caller is
    rejected. *)
Theorem all_rejected_while_trial_running : forall p cp tp,
  nth_error L p = Some (cp, tp) -> cr_region p ->
  forall tw cs nw i i1 i2 kw stw tkw t2w cw,
    (p <= kw)%nat -> cr_call tw cs nw i i1 i2 kw stw tkw t2w ->
    nth_error L kw = Some (cw, tw) -> cas_succeeds cw tw cs ->
    (forall m cm tm o, (kw < m)%nat -> nth_error L m = Some (cm, tm) ->
       at_pc cfg nl cm tm o (CRTick nw) -> tick_of (c_sh cm) < wrap64 (t2w + trial cfg)) ->
  forall k ck t, (kw < k)%nat -> nth_error L k = Some (ck, t) ->
    ret_at cfg nl ck t <> Some (BB true).
Proof.
  intros p cp tp Hp Hreg tw cs nw i i1 i2 kw stw tkw t2w cw Hpk Hcall Hkw Hcw Hticks.
  induction k as [k IH] using lt_wf_ind. intros ck t Hlt Hk Hret.
  destruct (others_rejected_until_trial_elapses p cp tp Hp Hreg tw cs nw i i1 i2 kw stw tkw t2w cw
              Hpk Hcall Hkw Hcw k ck t Hlt Hk Hret)
    as (cs' & n' & j & j1 & j2 & st' & tk' & t2' & Hcall' & Hc' & _ & _ & Hnw & Hfirst).
  assert (E : cs' = nw).
  { apply Hfirst. intros m cm tm [Hm1 Hm2] Hnm. exact (IH m Hm2 cm tm Hm1 Hnm). }
  subst cs'. destruct (Hnw eq_refl) as [_ Hge].
  destruct Hcall' as [Hord _ (cj & Hj & _ & Ecur & _) (c1 & Hj1 & Hat1 & Etk & _) _ _ _].
  assert (Hjk : (kw < j)%nat).
  { destruct (Nat.lt_ge_cases kw j) as [H|H]; [exact H|exfalso].
    destruct (log_mono _ _ _ _ _ _ _ _ _ _ _ Hj Hkw H) as [Hm _].
    assert (Ecw : b_cur (c_sh cw) = cs) by (destruct Hcw as (_ & _ & _ & _ & _ & _ & _ & E); exact E).
    destruct Hcall as [_ _ _ _ _ (cw' & _ & _ & _ & _ & Hlt') _]. lia. }
  pose proof (Hticks j1 c1 t CanRequest ltac:(lia) Hj1 Hat1) as Hlt1. lia.
Qed.

(* a CanRequest call returns a boolean *)
Lemma cr_pc_done l s r u s' : is_cr_pc l = true -> bstep cfg nl l s = Done r u s' -> exists b, r = BB b.
Proof.
  intros Hl H. destruct l; try discriminate Hl;
    try match goal with o : bop |- _ => destruct o; try discriminate Hl end;
    unfold_bstep H; repeat break1 H; try discriminate H; injection H as <- _ _; eauto.
Qed.

Theorem region_returns_bool : forall p k ck t r,
  cr_region p -> (p <= k)%nat -> nth_error L k = Some (ck, t) -> ret_at cfg nl ck t = Some r ->
  exists b, r = BB b.
Proof.
  intros p k ck t r Hreg Hpk Hk Hret. destruct (Hreg _ _ _ Hpk Hk) as [l Hat].
  pose proof (cr_op_pc _ _ _ _ Hk Hat) as Hcr. destruct Hat as [fresh Hst].
  unfold ret_at in Hret. rewrite Hst in Hret.
  destruct (bstep cfg nl l (c_sh ck)) as [| r' u s' | |] eqn:Hb; try discriminate.
  injection Hret as ->. eapply cr_pc_done; eauto.
Qed.

End Log.
End One.
