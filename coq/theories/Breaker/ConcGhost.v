(** Ghost reading of the execution log of the circuit-breaker step machine
    (groundwork for C10, upper bound and quiescent exactness).

    Every step taken is a log entry (configuration before the step, thread).
    [aentry] reads off such an entry the two kinds of facts the window theorems
    talk about:
      - [ATick t]      : the step is the ticker reading of a window report
                         ([WTick]) and it read [t];
      - [AAdd sc b ts] : the step is a bucket add ([WAddInst]/[WAddCur]/
                         [WAddNext]) of a success ([sc = true]) or failure on
                         bucket [b], whose timestamp (read in the configuration
                         the step starts from) is [ts].
    [alog] is the ghost log of an execution log.  [log_invariant] is the proof
    principle: an invariant over (ghost log, shared state, program counters)
    preserved by every abstract step holds along every execution.

    Also here, proved ONCE by case analysis over the program counters:
      - [step_buckets]: what one step does to the bucket store (nothing / one
        fresh zero bucket / one increment, exactly when the step is an add);
      - [step_wins]: a window never disappears and the bucket ids of its
        reservoir only grow at the end;
      - bucket timestamps are immutable ([bucket_ts_immutable]);
      - [adds_le_ops]: the number of add steps executed never exceeds the
        number of operations in the programs (one add per report at most). *)
From Coq Require Import List Arith Bool ZArith Lia.
From Garr Require Import Conc.Conc Pure.F64 Pure.Config Breaker.BreakerModel Breaker.ConcBase.
Import ListNotations.

Inductive aev := ATick (t : Z) | AAdd (succ : bool) (b : nat) (ts : Z).

Definition aev_of (l : bpc) (s : bshared) : list aev :=
  match l with
  | WTick _ _ _ => [ATick (hd 0%Z (b_ticks s))]
  | WAddInst _ sc _ b | WAddCur sc _ b | WAddNext _ sc _ _ b _ =>
      match nth1 (b_buckets s) b with
      | Some bk => [AAdd sc b (bk_ts bk)]
      | None => []
      end
  | _ => []
  end.

Definition aentry (x : bconfig * nat) : list (nat * aev) :=
  match nth_error (pcs (fst x)) (snd x) with
  | Some l => map (pair (snd x)) (aev_of l (c_sh (fst x)))
  | None => []
  end.

Definition alog (L : list (bconfig * nat)) : list (nat * aev) := flat_map aentry L.

Lemma aev_of_same l0 l s : same l0 l -> aev_of l0 s = aev_of l s.
Proof. intros [->|[-> [o ->]]]; reflexivity. Qed.

Lemma alog_app L1 L2 : alog (L1 ++ L2) = alog L1 ++ alog L2.
Proof. unfold alog. apply flat_map_app. Qed.

(** ** prefixes of the execution log are execution logs *)
Section Prefix.
Context {sh ts lo op ret : Type}.
Variable M : machine sh ts lo op ret.

Lemma steps_of_prefix : forall sched c j cj tj,
  nth_error (steps_of M c sched) j = Some (cj, tj) ->
  exists s1, firstn j (steps_of M c sched) = steps_of M c s1 /\ cj = final M c s1.
Proof.
  induction sched as [|t s IH]; intros c j cj tj H.
  - destruct j; discriminate.
  - cbn [steps_of] in *. destruct (step_thread M c t) as [[c' e]|] eqn:E.
    + destruct j as [|j].
      * injection H as <- <-. exists []. split; reflexivity.
      * cbn [nth_error] in H. destruct (IH _ _ _ _ H) as (s1 & H1 & H2).
        exists (t :: s1). cbn [steps_of firstn]. rewrite E, H1, final_cons, (step_cfg_some _ _ _ _ _ E).
        split; [reflexivity | exact H2].
    + destruct (IH _ _ _ _ H) as (s1 & H1 & H2).
      exists (t :: s1). cbn [steps_of]. rewrite E, final_cons, (step_cfg_none _ _ _ E). auto.
Qed.

Lemma steps_of_app : forall s1 s2 c,
  steps_of M c (s1 ++ s2) = steps_of M c s1 ++ steps_of M (final M c s1) s2.
Proof.
  induction s1 as [|t s1 IH]; intros s2 c; [reflexivity|].
  cbn [app steps_of]. rewrite final_cons. destruct (step_thread M c t) as [[c' e]|] eqn:E.
  - rewrite (step_cfg_some _ _ _ _ _ E). cbn [app]. rewrite IH. reflexivity.
  - rewrite (step_cfg_none _ _ _ E). apply IH.
Qed.
End Prefix.

Section Ghost.
Variable cfg : cb_config.
Variable nl : nat.
Notation M := (breaker cfg nl).

(** ** the proof principle *)
Lemma aentry_step c t c' e :
  step_thread M c t = Some (c', e) ->
  exists l0 l l', nth_error (pcs c) t = Some l0 /\ same l0 l /\
    pstep cfg nl l (c_sh c) = Some (l', c_sh c') /\ pcs c' = upd (pcs c) t l' /\
    aentry (c, t) = map (pair t) (aev_of l (c_sh c)).
Proof.
  intros Hs. destruct (step_abs _ _ _ _ _ _ Hs) as (l0 & l & l' & Hn & Hsame & Hp & Hpcs).
  exists l0, l, l'. repeat split; auto.
  unfold aentry. cbn [fst snd]. rewrite Hn, (aev_of_same _ _ _ Hsame). reflexivity.
Qed.

Lemma log_invariant_from (I : list (nat * aev) -> bshared -> list bpc -> Prop) :
  (forall A s ps t l0 l l' s', I A s ps -> nth_error ps t = Some l0 -> same l0 l ->
      pstep cfg nl l s = Some (l', s') -> I (A ++ map (pair t) (aev_of l s)) s' (upd ps t l')) ->
  forall sched c A0, I A0 (c_sh c) (pcs c) ->
    I (A0 ++ alog (steps_of M c sched)) (c_sh (final M c sched)) (pcs (final M c sched)).
Proof.
  intros Hstep. induction sched as [|t s IH]; intros c A0 H0.
  - cbn. rewrite app_nil_r. exact H0.
  - rewrite final_cons. cbn [steps_of]. unfold step_cfg.
    destruct (step_thread M c t) as [[c' e]|] eqn:E; [|apply IH; exact H0].
    destruct (aentry_step _ _ _ _ E) as (l0 & l & l' & Hn & Hsame & Hp & Hpcs & Ha).
    change (alog ((c, t) :: steps_of M c' s)) with (aentry (c, t) ++ alog (steps_of M c' s)).
    rewrite app_assoc. apply IH. rewrite Hpcs, Ha. eapply Hstep; eauto.
Qed.

Lemma log_invariant (I : list (nat * aev) -> bshared -> list bpc -> Prop) ticks progs :
  I [] (binit nl ticks) (map (fun _ => idle) progs) ->
  (forall A s ps t l0 l l' s', I A s ps -> nth_error ps t = Some l0 -> same l0 l ->
      pstep cfg nl l s = Some (l', s') -> I (A ++ map (pair t) (aev_of l s)) s' (upd ps t l')) ->
  forall sched, let c := final M (bcfg0 nl ticks progs) sched in
    I (alog (steps_of M (bcfg0 nl ticks progs) sched)) (c_sh c) (pcs c).
Proof.
  intros H0 Hstep sched.
  apply (log_invariant_from I Hstep sched (bcfg0 nl ticks progs) []).
  unfold bcfg0, init, pcs; simpl. rewrite map_map. exact H0.
Qed.

(** ** the effect of one step on the bucket store *)
Definition bump (sc : bool) (bk : bucket) : bucket :=
  if sc then Bucket (bk_ts bk) (wrap64 (bk_s bk + 1)) (bk_f bk)
  else Bucket (bk_ts bk) (bk_s bk) (wrap64 (bk_f bk + 1)).

Definition no_add (l : bpc) (s : bshared) : Prop :=
  forall sc b ts, ~ In (AAdd sc b ts) (aev_of l s).

Lemma step_buckets l s l' s' :
  pstep cfg nl l s = Some (l', s') ->
  (b_buckets s' = b_buckets s /\ no_add l s) \/
  (exists ts, b_buckets s' = b_buckets s ++ [Bucket ts 0 0] /\ no_add l s) \/
  (exists sc b bk, nth1 (b_buckets s) b = Some bk /\ aev_of l s = [AAdd sc b (bk_ts bk)] /\
                   b_buckets s' = upd1 (b_buckets s) b (bump sc bk)).
Proof.
  intros H.
  destruct l; unfold_step H; repeat break1 H; try discriminate H;
  injection H as <- <-; simpl;
  first [ left; split; [reflexivity|]; intros ? ? ? Hin; simpl in Hin;
          repeat match goal with E : nth1 _ _ = _ |- _ => rewrite E in Hin end;
          simpl in Hin; intuition discriminate
        | right; left; eexists; split; [reflexivity|]; intros ? ? ? Hin; simpl in Hin;
          repeat match goal with E : nth1 _ _ = _ |- _ => rewrite E in Hin end;
          simpl in Hin; intuition discriminate
        | right; right; do 3 eexists; split; [eassumption|];
          repeat match goal with E : nth1 _ _ = _ |- _ => rewrite E end;
          split; reflexivity ].
Qed.

(** ** the effect of one step on the windows *)
Lemma step_wins l s l' s' :
  pstep cfg nl l s = Some (l', s') ->
  forall w x, nth1 (b_wins s) w = Some x ->
    exists x' extra, nth1 (b_wins s') w = Some x' /\
                     map fst (w_cells x') = map fst (w_cells x) ++ extra.
Proof.
  intros H.
  destruct l; unfold_step H; repeat break1 H; try discriminate H;
  injection H as <- <-; eqb_clean; subst; simpl; intros w0 x0 Hw0;
  try (exists x0, []; rewrite app_nil_r; split; [first [exact Hw0 | apply nth1_app; exact Hw0] | reflexivity]);
  rewrite nth1_upd1;
    match goal with |- context [Nat.eqb ?a w0] => destruct (Nat.eqb_spec a w0) as [E|E] end;
    try (exists x0, []; rewrite app_nil_r; split; [exact Hw0 | reflexivity]);
    subst;
    repeat match goal with E1 : nth1 ?l ?w = Some ?a, E2 : nth1 ?l ?w = Some ?b |- _ =>
      rewrite E1 in E2; injection E2 as <- end;
    try match goal with E1 : nth1 ?l ?w = Some _ |- context [nth1 ?l ?w] => rewrite E1 end;
    eexists; simpl;
    first [ exists []; rewrite app_nil_r; split; [reflexivity|]; simpl; rewrite ?map_fst_kill; reflexivity
          | eexists; split; [reflexivity|]; simpl; rewrite map_app; reflexivity ].
Qed.

(** ** the effect of one step on the snapshots *)
Lemma step_snap l s l' s' :
  pstep cfg nl l s = Some (l', s') ->
  forall w x', nth1 (b_wins s') w = Some x' ->
    (exists x, nth1 (b_wins s) w = Some x /\ w_snap x' = w_snap x) \/
    w_snap x' = (0%Z, 0%Z) \/
    (exists w0 k sc fc, l = WSnapStore w0 k sc fc /\ w_snap x' = (sc, fc)).
Proof.
  intros H.
  destruct l; unfold_step H; repeat break1 H; try discriminate H;
  injection H as <- <-; eqb_clean; subst; simpl; intros w0 x0 Hw0;
  try (left; exists x0; split; [exact Hw0 | reflexivity]);
  try (destruct (nth1_app_inv _ _ _ _ Hw0) as [Hw1|[_ ->]];
       [left; exists x0; split; [exact Hw1 | reflexivity] | right; left; reflexivity]);
  rewrite nth1_upd1 in Hw0;
  match type of Hw0 with context [Nat.eqb ?a w0] => destruct (Nat.eqb_spec a w0) as [E|E] end;
  try (left; exists x0; split; [exact Hw0 | reflexivity]);
  subst;
  repeat match goal with E1 : nth1 ?l ?w = Some _, E2 : context [nth1 ?l ?w] |- _ => rewrite E1 in E2 end;
  injection Hw0 as <-; simpl;
  first [ left; eexists; split; [eassumption | reflexivity]
        | right; right; do 4 eexists; split; reflexivity ].
Qed.

(** ** bucket timestamps never change *)
Lemma step_bucket_ts l s l' s' :
  pstep cfg nl l s = Some (l', s') ->
  forall b bk, nth1 (b_buckets s) b = Some bk ->
    exists bk', nth1 (b_buckets s') b = Some bk' /\ bk_ts bk' = bk_ts bk.
Proof.
  intros H b bk Hb.
  destruct (step_buckets _ _ _ _ H) as [[E _]|[(ts & E & _)|(sc & b0 & bk0 & Hb0 & _ & E)]]; rewrite E.
  - exists bk. auto.
  - exists bk. split; [apply nth1_app; exact Hb | reflexivity].
  - rewrite nth1_upd1. destruct (Nat.eqb_spec b0 b) as [->|Hne].
    + rewrite Hb0. rewrite Hb in Hb0. injection Hb0 as <-.
      eexists; split; [reflexivity|]. destruct sc; reflexivity.
    + exists bk. auto.
Qed.

Theorem bucket_ts_immutable : forall sched c b bk,
  nth1 (b_buckets (c_sh c)) b = Some bk ->
  exists bk', nth1 (b_buckets (c_sh (final M c sched))) b = Some bk' /\ bk_ts bk' = bk_ts bk.
Proof.
  induction sched as [|t s IH]; intros c b bk Hb.
  - exists bk. auto.
  - rewrite final_cons. unfold step_cfg. destruct (step_thread M c t) as [[c' e]|] eqn:E; [|apply IH; exact Hb].
    destruct (step_abs _ _ _ _ _ _ E) as (l0 & l & l' & _ & _ & Hp & _).
    destruct (step_bucket_ts _ _ _ _ Hp _ _ Hb) as (bk1 & Hb1 & Hts).
    destruct (IH c' b bk1 Hb1) as (bk' & Hb' & Hts'). exists bk'. split; [exact Hb' | congruence].
Qed.

(** ** at most one add step per operation *)
Definition isadd (e : nat * aev) : bool := match snd e with AAdd _ _ _ => true | ATick _ => false end.
Definition nadd (A : list (nat * aev)) : nat := length (filter isadd A).

Lemma nadd_app A B : nadd (A ++ B) = nadd A + nadd B.
Proof. unfold nadd. rewrite filter_app, app_length. reflexivity. Qed.

(* a call that has reached [l] can still execute [phi l] add steps *)
Definition phi (l : bpc) : nat :=
  match l with
  | BInv _ | OSLoad | OFLoad | WTick _ _ _ | WCur _ _ _ _
  | WAddInst _ _ _ _ | WAddCur _ _ _ | WAddNext _ _ _ _ _ _ => 1
  | _ => 0
  end.

Lemma step_phi l s l' s' t :
  bstep cfg nl l s = Next l' s' -> nadd (map (pair t) (aev_of l s)) + phi l' <= phi l.
Proof.
  intros H.
  destruct l; unfold bstep in H; unfold reject, deliver in H;
  unfold goto, fin, take_tick, new_state, new_bucket, new_window,
    notify_state, notify_count, notify_rejected, with_log, set_cur, set_win, set_bucket,
    bucket_add, offer in H; simpl in H; repeat break1 H; try discriminate H;
  injection H as <- <-; unfold nadd; simpl;
  repeat match goal with E : nth1 _ _ = _ |- _ => rewrite E end; simpl; lia.
Qed.

Lemma phi_ge l s t : nadd (map (pair t) (aev_of l s)) <= phi l.
Proof.
  unfold nadd; destruct l; simpl; try lia;
  match goal with |- context [nth1 ?a ?b] => destruct (nth1 a b) end; simpl; lia.
Qed.

Definition pot_thread (th : bthread) : nat :=
  length (t_prog th) + match t_cur th with Some (_, l) => phi l | None => 0 end.
Definition pot (thr : list bthread) : nat := list_sum (map pot_thread thr).

Lemma pot_upd thr t th th' :
  nth_error thr t = Some th -> pot (upd thr t th') + pot_thread th = pot thr + pot_thread th'.
Proof.
  unfold pot. revert t; induction thr as [|a r IH]; intros [|t] H; simpl in *; try discriminate.
  - injection H as ->. lia.
  - specialize (IH _ H). lia.
Qed.

Lemma step_pot c t c' e :
  step_thread M c t = Some (c', e) -> nadd (aentry (c, t)) + pot (c_thr c') <= pot (c_thr c).
Proof.
  unfold step_thread, aentry, pcs. cbn [fst snd]. rewrite nth_error_map.
  destruct (nth_error (c_thr c) t) as [th|] eqn:Hn; [|discriminate]. cbn [option_map].
  unfold view. destruct (t_dead th); [discriminate|].
  unfold pc_of. destruct (t_cur th) as [[o l]|] eqn:Hcur.
  - cbn [rest_prog]. pose proof (phi_ge l (c_sh c) t) as Hge.
    change (m_step M l (c_sh c)) with (bstep cfg nl l (c_sh c)).
    destruct (bstep cfg nl l (c_sh c)) as [l' s'|r u s'| |] eqn:Hs; intros H; try discriminate;
      injection H as <- _; cbn [c_thr];
      match goal with |- context [upd _ _ ?x] => pose proof (pot_upd _ _ _ x Hn) as Hu end;
      unfold pot_thread in Hu at 1 2; cbn [t_prog t_cur] in Hu; rewrite Hcur in Hu.
    + pose proof (step_phi _ _ _ _ t Hs). lia.
    + lia.
    + lia.
  - destruct (t_prog th) as [|o rest] eqn:Hprog; [discriminate|].
    change (m_start M (t_ts th) o) with (BInv o). cbn [rest_prog tl].
    change (m_step M (BInv o) (c_sh c)) with (bstep cfg nl (BInv o) (c_sh c)).
    change (nadd (map (pair t) (aev_of idle (c_sh c)))) with 0.
    destruct (bstep cfg nl (BInv o) (c_sh c)) as [l' s'|r u s'| |] eqn:Hs; intros H; try discriminate;
      injection H as <- _; cbn [c_thr];
      match goal with |- context [upd _ _ ?x] => pose proof (pot_upd _ _ _ x Hn) as Hu end;
      unfold pot_thread in Hu at 1 2; cbn [t_prog t_cur] in Hu; rewrite Hcur, Hprog in Hu; rewrite Hprog; cbn [length tl] in Hu |- *.
    + pose proof (step_phi _ _ _ _ t Hs) as Hp. unfold nadd in Hp. simpl in Hp. lia.
    + lia.
    + lia.
Qed.

Lemma run_pot : forall sched c,
  nadd (alog (steps_of M c sched)) + pot (c_thr (final M c sched)) <= pot (c_thr c).
Proof.
  induction sched as [|t s IH]; intros c.
  - cbn. lia.
  - rewrite final_cons. cbn [steps_of]. unfold step_cfg.
    destruct (step_thread M c t) as [[c' e]|] eqn:E; [|apply IH].
    change (alog ((c, t) :: steps_of M c' s)) with (aentry (c, t) ++ alog (steps_of M c' s)).
    rewrite nadd_app. pose proof (step_pot _ _ _ _ E). specialize (IH c'). lia.
Qed.

Lemma pot_init (s0 : bshared) (progs : list (list bop)) : pot (c_thr (init bpc s0 tt progs)) = length (concat progs).
Proof.
  unfold init, pot. cbn [c_thr]. induction progs as [|p r IH]; [reflexivity|].
  cbn [map concat]. rewrite app_length, <- IH. unfold list_sum. cbn [fold_right].
  unfold pot_thread at 1. change (t_cur (mk_thread bpc tt p)) with (@None (bop * bpc)).
  change (t_prog (mk_thread bpc tt p)) with p. cbv beta iota. lia.
Qed.

(** the number of add steps executed is at most the number of operations called *)
Theorem adds_le_ops : forall ticks progs sched,
  nadd (alog (steps_of M (bcfg0 nl ticks progs) sched)) <= length (concat progs).
Proof.
  intros ticks progs sched. pose proof (run_pot sched (bcfg0 nl ticks progs)) as H.
  unfold bcfg0 in H at 3. rewrite pot_init in H. lia.
Qed.

End Ghost.
