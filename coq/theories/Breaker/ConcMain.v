(** Concurrent safety of the circuit-breaker step machine: the theorems, with
    the statements as posed, gathered from ConcInv / ConcWin / ConcFresh /
    ConcCount.  Any number of threads, any schedule, any ticker stream, any
    configuration, any number of listeners. *)
From Coq Require Import List Arith Bool ZArith.
From Garr Require Import Conc.Conc Pure.F64 Pure.Config Breaker.BreakerModel
  Breaker.ConcBase Breaker.ConcInv Breaker.ConcWin Breaker.ConcFreshStep Breaker.ConcFresh
  Breaker.ConcCount.
Import ListNotations.

(** T1 *)
Theorem T1_state_pointer_monotone : forall cfg nl ticks progs sched c t c' e,
  c = final (breaker cfg nl) (bcfg0 nl ticks progs) sched ->
  step_thread (breaker cfg nl) c t = Some (c', e) -> (b_cur (c_sh c) <= b_cur (c_sh c'))%nat.
Proof. exact state_pointer_monotone. Qed.

Theorem T1_one_transition_per_state : forall cfg nl ticks progs sched i j ci ti cj tj cs,
  let L := steps_of (breaker cfg nl) (bcfg0 nl ticks progs) sched in
  nth_error L i = Some (ci, ti) -> nth_error L j = Some (cj, tj) ->
  cas_succeeds ci ti cs -> cas_succeeds cj tj cs -> i = j.
Proof. exact one_transition_per_state. Qed.

(** T2 *)
Theorem T2_admission_sources : forall cfg nl l s s',
  bstep cfg nl l s = Done (BB true) tt s' ->
  (l = CRLoad /\ exists st, nth1 (b_states s) (b_cur s) = Some st /\ st_kind st = KClosed /\ s' = s) \/
  (exists cs n, l = CRCas cs n /\ b_cur s = cs /\ b_cur s' = n).
Proof. exact admission_sources. Qed.

Theorem T2_trial_cas_invariant : forall cfg nl ticks progs sched th o cs n,
  In th (c_thr (final (breaker cfg nl) (bcfg0 nl ticks progs) sched)) ->
  t_cur th = Some (o, CRCas cs n) ->
  let s := c_sh (final (breaker cfg nl) (bcfg0 nl ticks progs) sched) in
  (exists st, nth1 (b_states s) cs = Some st /\ st_kind st <> KClosed /\ (0 < st_dur st)%Z) /\
  (exists t2, nth1 (b_states s) n = Some (BState KHalfOpen 0 (wrap64 (t2 + trial cfg)) (trial cfg))).
Proof. exact trial_cas_invariant. Qed.

(** T3 *)
Theorem T3_nonclosed_no_counter : forall cfg nl ticks progs sched i st,
  nth1 (b_states (c_sh (final (breaker cfg nl) (bcfg0 nl ticks progs) sched))) i = Some st ->
  st_kind st <> KClosed -> st_win st = 0%nat.
Proof. exact nonclosed_no_counter. Qed.

Theorem T3_oscas_fresh_window : forall cfg nl ticks progs sched th o cs n,
  let c := final (breaker cfg nl) (bcfg0 nl ticks progs) sched in
  In th (c_thr c) -> t_cur th = Some (o, OSCas cs n) ->
  exists w ts x bk,
    nth1 (b_states (c_sh c)) n = Some (BState KClosed w ts 0) /\
    nth1 (b_wins (c_sh c)) w = Some x /\ w_cells x = [] /\ w_snap x = (0%Z, 0%Z) /\
    nth1 (b_buckets (c_sh c)) (w_cur x) = Some bk /\ bk_s bk = 0%Z /\ bk_f bk = 0%Z /\
    (forall i st, nth1 (b_states (c_sh c)) i = Some st -> st_win st = w -> i = n) /\
    b_cur (c_sh c) <> n /\
    (forall th2 o2 l2, In th2 (c_thr c) -> t_cur th2 = Some (o2, l2) ->
       wreg l2 <> Some w /\ addcur l2 <> Some (w_cur x) /\ ~ In (w_cur x) (held l2)).
Proof. exact oscas_fresh_window. Qed.

(** T4 *)
Theorem T4_window_invariant : forall cfg nl ticks progs sched,
  WInv (final (breaker cfg nl) (bcfg0 nl ticks progs) sched).
Proof. exact window_invariant. Qed.

Theorem T4_bucket_conservation : forall cfg nl succ ticks progs sched,
  wrap64 (sum_of succ (b_buckets (c_sh (final (breaker cfg nl) (bcfg0 nl ticks progs) sched)))) =
  wrap64 (Z.of_nat (nadds succ (steps_of (breaker cfg nl) (bcfg0 nl ticks progs) sched))).
Proof. exact bucket_conservation. Qed.

Print Assumptions T1_state_pointer_monotone.
Print Assumptions T1_one_transition_per_state.
Print Assumptions T2_admission_sources.
Print Assumptions T2_trial_cas_invariant.
Print Assumptions T3_nonclosed_no_counter.
Print Assumptions T3_oscas_fresh_window.
Print Assumptions T4_window_invariant.
Print Assumptions T4_bucket_conservation.
