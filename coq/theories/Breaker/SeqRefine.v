(** The breaker step machine driven by ONE thread refines the documented
    reference machine of Ref.v (sequential refinement). *)
From Coq Require Import List Arith Bool ZArith Lia.
From Garr Require Import Conc.Conc Pure.F64 Pure.Config Breaker.BreakerModel Breaker.Ref.
Import ListNotations.
Local Open Scope Z_scope.

Definition rets (e : list (event bop bret)) : list bret :=
  flat_map (fun x => match x with ERet _ _ r => [r] | _ => [] end) e.
Definition seq_cfg (cfg : cb_config) (nl : nat) (ticks : list Z) (ops : list bop) :=
  init bpc (binit nl ticks) tt [ops].

(** * 1-based append-only stores *)

Lemma nth1_Some_le {A} (l : list A) i x : nth1 l i = Some x -> (1 <= i <= length l)%nat.
Proof.
  destruct i as [|j]; simpl; intros H; [discriminate|].
  assert (j < length l)%nat by (apply nth_error_Some; congruence). lia.
Qed.

Lemma nth1_app_l {A} (l l' : list A) i x : nth1 l i = Some x -> nth1 (l ++ l') i = Some x.
Proof.
  destruct i as [|j]; simpl; intros H; [discriminate|].
  rewrite nth_error_app1; [exact H|]. apply nth_error_Some; congruence.
Qed.

Lemma nth1_app_new {A} (l : list A) x : nth1 (l ++ [x]) (S (length l)) = Some x.
Proof. simpl. rewrite nth_error_app2, Nat.sub_diag by lia. reflexivity. Qed.

Lemma nth1_upd1_same {A} (l : list A) i x y : nth1 l i = Some x -> nth1 (upd1 l i y) i = Some y.
Proof.
  destruct i as [|j]; simpl; intros H; [discriminate|].
  rewrite nth_error_upd, Nat.eqb_refl, H. reflexivity.
Qed.

Lemma nth1_upd1_other {A} (l : list A) i j y : i <> j -> nth1 (upd1 l i y) j = nth1 l j.
Proof.
  destruct i as [|i], j as [|j]; simpl; intros H; try reflexivity.
  rewrite nth_error_upd. destruct (Nat.eqb i j) eqn:E; [|reflexivity].
  apply Nat.eqb_eq in E. congruence.
Qed.

Lemma upd_upd {A} (l : list A) i x y : upd (upd l i x) i y = upd l i y.
Proof. revert i; induction l as [|a l IH]; intros [|i]; simpl; auto. f_equal. apply IH. Qed.

Lemma upd1_upd1 {A} (l : list A) i x y : upd1 (upd1 l i x) i y = upd1 l i y.
Proof. destruct i; simpl; [reflexivity | apply upd_upd]. Qed.

Lemma upd_same {A} (l : list A) i x : nth_error l i = Some x -> upd l i x = l.
Proof.
  revert i; induction l as [|a l IH]; intros [|i]; simpl; intros H; try discriminate.
  - congruence.
  - f_equal. apply IH, H.
Qed.

Lemma upd1_same {A} (l : list A) i x : nth1 l i = Some x -> upd1 l i x = l.
Proof. destruct i; simpl; intros H; [reflexivity | apply upd_same, H]. Qed.

Lemma upd_mid {A} (pre r : list A) a y : upd (pre ++ a :: r) (length pre) y = pre ++ y :: r.
Proof. induction pre as [|p pre IH]; simpl; [reflexivity | f_equal; exact IH]. Qed.

Lemma nth_error_mid {A} (pre r : list A) a : nth_error (pre ++ a :: r) (length pre) = Some a.
Proof. rewrite nth_error_app2, Nat.sub_diag by lia. reflexivity. Qed.

Local Arguments nth1 : simpl never.
Local Arguments upd1 : simpl never.

(** * Running one thread alone *)

Section Solo.
Variable cfg : cb_config.
Variable nl : nat.

Notation M := (breaker cfg nl).
Notation stp := (bstep cfg nl).
Notation thread := (Conc.thread unit bpc bop).
Notation config := (Conc.config bshared unit bpc bop).

(** thread-local execution of one call: internal steps ... *)
Inductive reach : bpc -> bshared -> bpc -> bshared -> Prop :=
| reach_refl l s : reach l s l s
| reach_step l s l1 s1 l' s' :
    stp l s = Next l1 s1 -> reach l1 s1 l' s' -> reach l s l' s'.

Lemma reach_trans l s l1 s1 l2 s2 :
  reach l s l1 s1 -> reach l1 s1 l2 s2 -> reach l s l2 s2.
Proof. induction 1; intros H2; [exact H2 | eapply reach_step; eauto]. Qed.

Lemma reach_snoc l s l1 s1 l2 s2 :
  reach l s l1 s1 -> stp l1 s1 = Next l2 s2 -> reach l s l2 s2.
Proof. intros H1 H2. eapply reach_trans; [exact H1|]. eapply reach_step; [exact H2 | apply reach_refl]. Qed.

(** ... up to the step that returns *)
Definition completes (l : bpc) (s : bshared) (r : bret) (s' : bshared) : Prop :=
  exists l1 s1, reach l s l1 s1 /\ stp l1 s1 = Done r tt s'.

Lemma reach_completes l s l1 s1 r s' :
  reach l s l1 s1 -> completes l1 s1 r s' -> completes l s r s'.
Proof. intros H (l2 & s2 & H2 & H3). exists l2, s2. split; [eapply reach_trans; eauto | exact H3]. Qed.

Definition runs (c : config) (k : nat) (c' : config) (e : list (event bop bret)) : Prop :=
  run M c (repeat 0%nat k) = (c', e).

Lemma run_app (c : config) a b :
  run M c (a ++ b) =
  let '(c1, e1) := run M c a in let '(c2, e2) := run M c1 b in (c2, e1 ++ e2).
Proof.
  revert c; induction a as [|t a IH]; intros c; simpl.
  - destruct (run M c b); reflexivity.
  - rewrite IH. destruct (run M (step_cfg M c t) a) as [c1 e1].
    destruct (run M c1 b) as [c2 e2]. rewrite app_assoc. reflexivity.
Qed.

Lemma runs_trans c k1 c1 e1 k2 c2 e2 :
  runs c k1 c1 e1 -> runs c1 k2 c2 e2 -> runs c (k1 + k2) c2 (e1 ++ e2).
Proof.
  unfold runs; intros H1 H2. rewrite repeat_app, run_app, H1, H2. reflexivity.
Qed.

Lemma runs_one c c' e :
  step_thread M c 0 = Some (c', e) -> runs c 1 c' e.
Proof.
  unfold runs; intros H; simpl. unfold step_cfg, step_evs. rewrite H, app_nil_r. reflexivity.
Qed.

Definition mid (s : bshared) (prog : list bop) (o : bop) (l : bpc) : config :=
  Config s [Thread prog tt (Some (o, l)) false].
Definition quiet (s : bshared) (prog : list bop) : config :=
  Config s [Thread prog tt None false].

Lemma solo_reach l s l' s' :
  reach l s l' s' -> forall o prog, exists k, runs (mid s prog o l) k (mid s' prog o l') [].
Proof.
  induction 1 as [l s | l s l1 s1 l' s' Hs _ IH]; intros o prog.
  - exists 0%nat. reflexivity.
  - destruct (IH o prog) as [k Hk]. exists (1 + k)%nat.
    change (@nil (event bop bret)) with (@nil (event bop bret) ++ []).
    eapply runs_trans; [|exact Hk]. apply runs_one.
    unfold step_thread, mid; cbn -[bstep]. rewrite Hs. reflexivity.
Qed.

Lemma solo_call o s r s' prog :
  completes (BInv o) s r s' ->
  exists k, runs (quiet s (o :: prog)) k (quiet s' prog) [EInv 0%nat o; ERet 0%nat o r].
Proof.
  intros (l1 & s1 & Hr & Hd).
  inversion Hr as [l0 s0 | l0 s0 l2 s2 l3 s3 Hs Hr']; subst.
  - destruct o; discriminate Hd.
  - destruct (solo_reach _ _ _ _ Hr' o prog) as [k Hk].
    exists (1 + (k + 1))%nat.
    change [EInv 0%nat o; ERet 0%nat o r] with ([EInv 0%nat o] ++ ([] ++ [@ERet bop bret 0%nat o r])).
    eapply runs_trans; [|eapply runs_trans; [exact Hk|]]; apply runs_one.
    + unfold step_thread, quiet, mid; cbn -[bstep]. rewrite Hs. reflexivity.
    + unfold step_thread, quiet, mid; cbn -[bstep]. rewrite Hd. reflexivity.
Qed.

Lemma solo_idle s k : runs (quiet s []) k (quiet s []) [].
Proof. induction k as [|k IH]; [reflexivity|]. unfold runs in *; simpl. unfold step_cfg, step_evs; simpl. rewrite IH. reflexivity. Qed.

End Solo.

(** * The reservoir iterator *)

Lemma first_live_skip pre : forall post from idx,
  (idx + length pre <= from)%nat ->
  first_live (pre ++ post) from idx = first_live post from (idx + length pre).
Proof.
  induction pre as [|[b lv] pre IH]; intros post from idx H; simpl in *.
  - rewrite Nat.add_0_r. reflexivity.
  - assert (E : Nat.leb from idx = false) by (apply Nat.leb_gt; lia).
    rewrite E, andb_false_r, IH by lia. f_equal. lia.
Qed.

Definition it_pos (post : list (nat * bool)) (n : nat) (last : option nat) : it :=
  match first_live post n n with
  | Some (idx, b) => It (Some idx) b last
  | None => It None 0%nat last
  end.

Lemma iter_at_pos pre post last :
  iter_at (pre ++ post) (length pre) last = it_pos post (length pre) last.
Proof. unfold iter_at, it_pos. rewrite first_live_skip by lia. reflexivity. Qed.

Lemma first_live_from l : forall from from' idx,
  (from <= idx)%nat -> (from' <= idx)%nat -> first_live l from idx = first_live l from' idx.
Proof.
  induction l as [|[x lv] l IH]; intros from from' idx H H'; simpl; [reflexivity|].
  replace (Nat.leb from idx) with true by (symmetry; apply Nat.leb_le; lia).
  replace (Nat.leb from' idx) with true by (symmetry; apply Nat.leb_le; lia).
  destruct lv; simpl; [reflexivity | apply IH; lia].
Qed.

Lemma it_pos_dead b r n last : it_pos ((b, false) :: r) n last = it_pos r (S n) last.
Proof.
  unfold it_pos; simpl. rewrite (first_live_from r n (S n) (S n)) by lia. reflexivity.
Qed.

Lemma it_pos_live b r n last : it_pos ((b, true) :: r) n last = It (Some n) b last.
Proof. unfold it_pos; simpl. rewrite Nat.leb_refl. reflexivity. Qed.

Lemma it_pos_nil n last : it_pos [] n last = It None 0%nat last.
Proof. reflexivity. Qed.

Lemma it_pos_last post n last last' :
  It (i_cursor (it_pos post n last)) (i_val (it_pos post n last)) last' = it_pos post n last'.
Proof. unfold it_pos. destruct (first_live post n n) as [[i x]|]; reflexivity. Qed.

Lemma it_pos_i_last post n last : i_last (it_pos post n last) = last.
Proof. unfold it_pos. destruct (first_live post n n) as [[i x]|]; reflexivity. Qed.

(** * trimAndSum *)

Section Sim.
Variable cfg : cb_config.
Variable nl : nat.

Notation stp := (bstep cfg nl).
Notation reach := (reach cfg nl).
Notation completes := (completes cfg nl).

Definition isold (bks : list bucket) (t : Z) (id : nat) : bool :=
  match nth1 bks id with
  | Some bk => bk_ts bk <? wrap64 (t - window cfg)
  | None => false
  end.

Fixpoint trim (bks : list bucket) (t : Z) (post : list (nat * bool)) : list (nat * bool) :=
  match post with
  | [] => []
  | (b, lv) :: r => (b, lv && negb (isold bks t b)) :: trim bks t r
  end.

Fixpoint accum (bks : list bucket) (t : Z) (post : list (nat * bool)) (sc fc : Z) : Z * Z :=
  match post with
  | [] => (sc, fc)
  | (b, lv) :: r =>
      if lv && negb (isold bks t b) then
        match nth1 bks b with
        | Some bk => accum bks t r (wrap64 (sc + bk_s bk)) (wrap64 (fc + bk_f bk))
        | None => accum bks t r sc fc
        end
      else accum bks t r sc fc
  end.

Definition valid (bks : list bucket) (post : list (nat * bool)) : Prop :=
  Forall (fun c => snd c = true -> nth1 bks (fst c) <> None) post.

Lemma loop_sim w k t sts c bks tks lg cur snap : forall post pre wins sc fc last,
  nth1 wins w = Some (Window cur (pre ++ post) snap) ->
  valid bks post ->
  reach (WHasNext w k t (it_pos post (length pre) last) sc fc) (BS sts c wins bks tks lg)
        (WSnapStore w k (fst (accum bks t post sc fc)) (snd (accum bks t post sc fc)))
        (BS sts c (upd1 wins w (Window cur (pre ++ trim bks t post) snap)) bks tks lg).
Proof.
  induction post as [|[b lv] r IH]; intros pre wins sc fc last Hw Hv.
  - simpl. rewrite (upd1_same _ _ _ Hw). eapply reach_step; [|apply reach_refl]. reflexivity.
  - inversion Hv as [|c0 r0 Hb Hv']; subst. destruct lv.
    + (* live cell *)
      rewrite it_pos_live.
      eapply reach_step; [reflexivity|].
      destruct (nth1 bks b) as [bk|] eqn:Eb; [|exfalso; apply Hb; auto].
      assert (Hcells : pre ++ (b, true) :: r = (pre ++ [(b, true)]) ++ r)
        by (rewrite <- app_assoc; reflexivity).
      assert (Hlen : length (pre ++ [(b, true)]) = S (length pre))
        by (rewrite app_length; simpl; lia).
      assert (Eo : isold bks t b = (bk_ts bk <? wrap64 (t - window cfg)))
        by (unfold isold; rewrite Eb; reflexivity).
      simpl trim. simpl accum. rewrite Eo, Eb.
      destruct (bk_ts bk <? wrap64 (t - window cfg)) eqn:Eold; cbn [andb negb]; cbv iota.
      * (* expired: Remove *)
        eapply reach_step.
        { cbn. rewrite Hw. cbn. rewrite Eb, Eold.
          rewrite Hcells, <- Hlen, iter_at_pos. reflexivity. }
        eapply reach_step.
        { cbn. rewrite Hw. cbn. rewrite it_pos_i_last, it_pos_last.
          unfold kill. rewrite nth_error_mid, upd_mid. reflexivity. }
        specialize (IH (pre ++ [(b, false)]) (upd1 wins w (Window cur (pre ++ (b, false) :: r) snap)) sc fc None).
        rewrite app_length in IH; simpl in IH. rewrite Nat.add_1_r in IH.
        rewrite Hlen. rewrite upd1_upd1 in IH.
        rewrite <- !app_assoc in IH. simpl in IH.
        unfold set_win; cbn [b_states b_cur b_wins b_buckets b_ticks b_log].
        apply IH; [|exact Hv'].
        eapply nth1_upd1_same; eauto.
      * (* kept: Sum *)
        eapply reach_step.
        { cbn. rewrite Hw. cbn. rewrite Eb, Eold.
          rewrite Hcells, <- Hlen, iter_at_pos. reflexivity. }
        eapply reach_step. { cbn. rewrite Eb. reflexivity. }
        eapply reach_step. { cbn. rewrite Eb. reflexivity. }
        specialize (IH (pre ++ [(b, true)]) wins (wrap64 (sc + bk_s bk)) (wrap64 (fc + bk_f bk)) (Some (length pre))).
        rewrite <- !app_assoc in IH. simpl app in IH. apply IH; [exact Hw | exact Hv'].
    + (* dead cell: skipped by the iterator *)
      rewrite it_pos_dead. simpl trim. simpl accum.
      specialize (IH (pre ++ [(b, false)]) wins sc fc last).
      rewrite app_length in IH; simpl in IH. rewrite Nat.add_1_r in IH.
      rewrite <- !app_assoc in IH. simpl in IH. apply IH; [exact Hw | exact Hv'].
Qed.

(** * The simulation relation *)

Definition bk_of (rb : rbucket) : bucket := Bucket (rb_ts rb) (rb_s rb) (rb_f rb).
Definition live (cells : list (nat * bool)) : list nat := map fst (filter snd cells).
Definition P (bks : list bucket) (id : nat) (rb : rbucket) : Prop := nth1 bks id = Some (bk_of rb).

Definition Rwin (wins : list swindow) (bks : list bucket) (w : nat)
           (cur : rbucket) (res : list rbucket) : Prop :=
  exists x, nth1 wins w = Some x /\ P bks (w_cur x) cur /\
            Forall2 (P bks) (live (w_cells x)) res /\ ~ In (w_cur x) (live (w_cells x)).

Definition Rst (wins : list swindow) (bks : list bucket) (st : bstate) (rs : rstate) : Prop :=
  match rs with
  | RClosed cur res => st_kind st = KClosed /\ Rwin wins bks (st_win st) cur res
  | ROpen d dur => st_kind st = KOpen /\ st_timeout st = d /\ st_dur st = dur
  | RHalfOpen d dur => st_kind st = KHalfOpen /\ st_timeout st = d /\ st_dur st = dur
  end.

Definition R (s : bshared) (r : ref) : Prop :=
  b_log s = r_log r /\ b_ticks s = r_ticks r /\
  exists st, nth1 (b_states s) (b_cur s) = Some st /\
             Rst (b_wins s) (b_buckets s) st (r_st r).

Lemma live_app a b : live (a ++ b) = live a ++ live b.
Proof. unfold live. rewrite filter_app, map_app. reflexivity. Qed.

Lemma P_valid bks : forall cells res, Forall2 (P bks) (live cells) res -> valid bks cells.
Proof.
  induction cells as [|[b lv] r IH]; intros res H; [constructor|].
  destruct lv; unfold live in H; simpl in H.
  - inversion H as [|? rb ? res' Hb Hr]; subst. constructor; [|eapply IH; exact Hr].
    simpl. intros _. unfold P in Hb. congruence.
  - constructor; [simpl; discriminate | eapply IH; exact H].
Qed.

Lemma P_le bks ids res : Forall2 (P bks) ids res -> forall id, In id ids -> (id <= length bks)%nat.
Proof.
  induction 1 as [|id0 rb ids res Hb _ IH]; intros id Hin; [destruct Hin|].
  destruct Hin as [<-|Hin]; [|apply IH, Hin]. apply nth1_Some_le in Hb. lia.
Qed.

Lemma trim_spec bks t : forall cells res sc fc,
  Forall2 (P bks) (live cells) res ->
  Forall2 (P bks) (live (trim bks t cells)) (filter (keep cfg t) res) /\
  accum bks t cells sc fc =
    (fold_left (fun a b => wrap64 (a + rb_s b)) (filter (keep cfg t) res) sc,
     fold_left (fun a b => wrap64 (a + rb_f b)) (filter (keep cfg t) res) fc) /\
  incl (live (trim bks t cells)) (live cells).
Proof.
  induction cells as [|[b lv] r IH]; intros res sc fc H.
  - unfold live in H; simpl in H. inversion H; subst. simpl. repeat split; [constructor | apply incl_refl].
  - destruct lv; unfold live in H; simpl in H.
    + inversion H as [|? rb ? res' Hb Hr]; subst.
      assert (Eo : isold bks t b = negb (keep cfg t rb)).
      { unfold isold, keep. rewrite Hb. simpl. rewrite negb_involutive. reflexivity. }
      simpl. rewrite Eo, negb_involutive, Hb.
      destruct (keep cfg t rb) eqn:Ek; simpl.
      * destruct (IH res' (wrap64 (sc + rb_s rb)) (wrap64 (fc + rb_f rb)) Hr) as (H1 & H2 & H3).
        unfold live in *; simpl. repeat split; [constructor; assumption | exact H2 |].
        intros y [<-|Hy]; [left; reflexivity | right; apply H3, Hy].
      * destruct (IH res' sc fc Hr) as (H1 & H2 & H3).
        unfold live in *; simpl. repeat split; [assumption | exact H2 |].
        intros y Hy; right; apply H3, Hy.
    + simpl. destruct (IH res sc fc H) as (H1 & H2 & H3).
      unfold live in *; simpl. repeat split; assumption.
Qed.

Lemma take_tick_eq sts c wins bks tks lg :
  take_tick (BS sts c wins bks tks lg) = (hd 0 tks, BS sts c wins bks (tl tks) lg).
Proof. destruct tks; reflexivity. Qed.

Lemma rtick_eq rs tks lg : rtick (Ref rs tks lg) = (hd 0 tks, Ref rs (tl tks) lg).
Proof. destruct tks; reflexivity. Qed.

Lemma P_app bks y id rb : P bks id rb -> P (bks ++ [y]) id rb.
Proof. unfold P. apply nth1_app_l. Qed.

Lemma P_upd bks i y id rb : i <> id -> P bks id rb -> P (upd1 bks i y) id rb.
Proof. unfold P. intros Hne H. rewrite nth1_upd1_other; assumption. Qed.

Lemma Forall2_P_mono bks bks' ids res :
  (forall id rb, In id ids -> P bks id rb -> P bks' id rb) ->
  Forall2 (P bks) ids res -> Forall2 (P bks') ids res.
Proof.
  intros Hm H; induction H as [|id rb ids res Hb _ IH]; constructor.
  - apply Hm; [left; reflexivity | exact Hb].
  - apply IH. intros id' rb' Hin; apply Hm; right; exact Hin.
Qed.

Lemma bump_bk rb (succ : bool) :
  (if succ then Bucket (bk_ts (bk_of rb)) (wrap64 (bk_s (bk_of rb) + 1)) (bk_f (bk_of rb))
   else Bucket (bk_ts (bk_of rb)) (bk_s (bk_of rb)) (wrap64 (bk_f (bk_of rb) + 1)))
  = bk_of (bump rb succ).
Proof. destruct succ; reflexivity. Qed.

Lemma report_sim sts c wins bks tks lg w cur res succ k :
  Rwin wins bks w cur res ->
  exists l1 s1 wins' bks',
    reach (WTick w succ k) (BS sts c wins bks tks lg) l1 s1 /\
    stp l1 s1 = deliver cfg nl k (snd (report cfg cur res succ (hd 0 tks)))
                        (BS sts c wins' bks' (tl tks) lg) /\
    Rwin wins' bks' w (fst (fst (report cfg cur res succ (hd 0 tks))))
                      (snd (fst (report cfg cur res succ (hd 0 tks)))).
Proof.
  intros ([xc cells snap] & Hx & Hcur & Hres & Hnin); simpl in *.
  set (t := hd 0 tks).
  assert (Hxc : (xc <= length bks)%nat) by (apply nth1_Some_le in Hcur; lia).
  pose proof (P_le _ _ _ Hres) as Hle.
  unfold report.
  destruct (t <? rb_ts cur) eqn:E1; [|destruct (t <? wrap64 (rb_ts cur + interval cfg)) eqn:E2];
    cbn [fst snd].
  - (* instant bucket *)
    do 4 eexists. split; [|split].
    + eapply reach_step. { cbn -[take_tick]. rewrite take_tick_eq. reflexivity. }
      eapply reach_step. { cbn -[wrap64]. rewrite Hx. cbn -[wrap64]. rewrite Hcur. cbn -[wrap64]. fold t. rewrite E1. reflexivity. }
      eapply reach_step. { cbn -[wrap64]. unfold bucket_add. cbn -[wrap64]. rewrite nth1_app_new. cbn -[wrap64]. reflexivity. }
      apply reach_refl.
    + cbn -[wrap64]. unfold offer. cbn -[wrap64]. rewrite Hx. cbn -[wrap64]. reflexivity.
    + unfold set_bucket; cbn [b_states b_cur b_wins b_buckets b_ticks b_log].
      set (b := S (length bks)).
      match goal with |- context [if succ then ?A else ?B] =>
        replace (if succ then A else B) with (bk_of (bump (RB t 0 0) succ))
          by (destruct succ; reflexivity) end.
      exists (Window xc (cells ++ [(b, true)]) snap). cbn [w_cur w_cells].
      split; [eapply nth1_upd1_same; eauto|]. split; [|split].
      * apply P_upd; [unfold b; lia | apply P_app, Hcur].
      * rewrite live_app. apply Forall2_app.
        -- eapply Forall2_P_mono; [|exact Hres]. intros id rb Hin Hp.
           apply P_upd; [apply Hle in Hin; unfold b; lia | apply P_app, Hp].
        -- unfold live; simpl. constructor; [|constructor].
           unfold P. eapply nth1_upd1_same. apply nth1_app_new.
      * rewrite live_app. intros Hin. apply in_app_or in Hin.
        destruct Hin as [Hin|Hin]; [auto|]. unfold live in Hin; simpl in Hin.
        destruct Hin as [Hin|[]]. unfold b in Hin; lia.
  - (* same interval: count in the current bucket *)
    do 4 eexists. split; [|split].
    + eapply reach_step. { cbn -[take_tick]. rewrite take_tick_eq. reflexivity. }
      eapply reach_step. { cbn -[wrap64]. rewrite Hx. cbn -[wrap64]. rewrite Hcur. cbn -[wrap64]. fold t. rewrite E1, E2. reflexivity. }
      apply reach_refl.
    + cbn -[wrap64]. unfold bucket_add. cbn -[wrap64]. rewrite Hcur. cbn -[wrap64]. reflexivity.
    + unfold set_bucket; cbn [b_states b_cur b_wins b_buckets b_ticks b_log].
      match goal with |- context [if succ then ?A else ?B] =>
        replace (if succ then A else B) with (bk_of (bump cur succ))
          by (destruct succ; reflexivity) end.
      exists (Window xc cells snap). cbn [w_cur w_cells].
      split; [exact Hx|]. split; [|split; [|exact Hnin]].
      * unfold P. eapply nth1_upd1_same. exact Hcur.
      * eapply Forall2_P_mono; [|exact Hres]. intros id rb Hin Hp.
        apply P_upd; [intros ->; auto | exact Hp].
  - (* roll *)
    set (nb := S (length bks)).
    set (bks2 := upd1 (bks ++ [Bucket t 0 0]) nb (bk_of (bump (RB t 0 0) succ))).
    set (cells1 := cells ++ [(xc, true)]).
    assert (Hmono : forall id rb, (id <= length bks)%nat -> P bks id rb -> P bks2 id rb).
    { intros id rb Hid Hp. apply P_upd; [unfold nb; lia | apply P_app, Hp]. }
    assert (Hres1 : Forall2 (P bks2) (live cells1) (res ++ [cur])).
    { unfold cells1. rewrite live_app. apply Forall2_app.
      - eapply Forall2_P_mono; [|exact Hres]. intros id rb Hin Hp. apply Hmono; auto.
      - unfold live; simpl. constructor; [|constructor]. apply Hmono; auto. }
    destruct (trim_spec bks2 t cells1 (res ++ [cur]) 0 0 Hres1) as (T1 & T2 & T3).
    pose proof (P_valid _ _ _ Hres1) as Hv.
    set (res' := filter (keep cfg t) (res ++ [cur])) in *.
    eexists _, _, (upd1 wins w (Window nb (trim bks2 t cells1) (sum_s res', sum_f res'))), bks2.
    split; [|split].
    + eapply reach_step. { cbn -[take_tick]. rewrite take_tick_eq. reflexivity. }
      eapply reach_step. { cbn -[wrap64]. rewrite Hx. cbn -[wrap64]. rewrite Hcur. cbn -[wrap64]. fold t. rewrite E1, E2. reflexivity. }
      eapply reach_step. { cbn -[wrap64]. unfold bucket_add. cbn -[wrap64]. rewrite nth1_app_new. cbn -[wrap64]. reflexivity. }
      unfold set_bucket; cbn [b_states b_cur b_wins b_buckets b_ticks b_log].
      match goal with |- context [if succ then ?A else ?B] =>
        replace (if succ then A else B) with (bk_of (bump (RB t 0 0) succ))
          by (destruct succ; reflexivity) end.
      fold nb. fold bks2.
      eapply reach_step. { cbn. rewrite Hx. cbn. rewrite Nat.eqb_refl. reflexivity. }
      eapply reach_step. { cbn. unfold offer. cbn. rewrite (nth1_upd1_same _ _ _ _ Hx). unfold set_win; cbn. rewrite upd1_upd1. reflexivity. }
      eapply reach_step. { cbn. rewrite (nth1_upd1_same _ _ _ _ Hx). cbn. reflexivity. }
      fold cells1.
      eapply reach_trans; [|apply reach_refl].
      apply (loop_sim w k t sts c bks2 (tl tks) lg nb snap cells1 [] _ 0 0 None).
      * apply (nth1_upd1_same _ _ _ _ Hx).
      * exact Hv.
    + cbn. rewrite upd1_upd1. rewrite (nth1_upd1_same _ _ _ _ Hx). unfold set_win; cbn. rewrite upd1_upd1.
      rewrite T2. reflexivity.
    + exists (Window nb (trim bks2 t cells1) (sum_s res', sum_f res')). cbn [w_cur w_cells].
      split; [apply (nth1_upd1_same _ _ _ _ Hx)|]. split; [|split; [exact T1|]].
      * unfold P, bks2. eapply nth1_upd1_same. apply nth1_app_new.
      * intros Hin. apply T3 in Hin. unfold cells1 in Hin. rewrite live_app in Hin.
        apply in_app_or in Hin. destruct Hin as [Hin|Hin].
        -- apply Hle in Hin. unfold nb in Hin. lia.
        -- unfold live in Hin; simpl in Hin. destruct Hin as [Hin|[]]. unfold nb in Hin. lia.
Qed.

(** * One lemma per operation *)

Definition canreq_ref (r : ref) (d dur : Z) : ref * bret :=
  if 0 <? dur then
    let '(t, r1) := rtick r in
    if d <=? t then
      let '(t2, r2) := rtick r1 in
      (rlog (rset r2 (RHalfOpen (wrap64 (t2 + trial cfg)) (trial cfg))) (say_state nl KHalfOpen), BB true)
    else (rlog r1 (say_rejected nl), BB false)
  else (rlog r (say_rejected nl), BB false).

Lemma canreq_sim sts c wins bks tks lg st rs :
  nth1 sts c = Some st -> st_kind st <> KClosed -> Rst wins bks st rs ->
  exists s', completes (BInv CanRequest) (BS sts c wins bks tks lg)
                       (snd (ref_step cfg nl (Ref rs tks lg) CanRequest)) s' /\
             R s' (fst (ref_step cfg nl (Ref rs tks lg) CanRequest)).
Proof.
  intros Hst Hk HR.
  assert (E : ref_step cfg nl (Ref rs tks lg) CanRequest =
              canreq_ref (Ref rs tks lg) (st_timeout st) (st_dur st)).
  { destruct rs; simpl in HR; [destruct HR; contradiction| |];
      destruct HR as (_ & <- & <-); reflexivity. }
  rewrite E. unfold canreq_ref.
  assert (Hload : forall A (x y : A), match st_kind st with KClosed => x | _ => y end = y)
    by (intros A x y; destruct (st_kind st); [contradiction| |]; reflexivity).
  destruct (0 <? st_dur st) eqn:E0.
  - rewrite rtick_eq. destruct (st_timeout st <=? hd 0 tks) eqn:E1.
    + rewrite rtick_eq. cbn [fst snd]. eexists; split.
      * eexists _, _. split.
        { eapply reach_step. { reflexivity. }
          eapply reach_step. { cbn. rewrite Hst, Hload, E0. reflexivity. }
          eapply reach_step. { cbn -[take_tick]. rewrite Hst, take_tick_eq, E1. reflexivity. }
          eapply reach_step. { cbn -[take_tick wrap64]. rewrite take_tick_eq. cbn -[wrap64]. reflexivity. }
          apply reach_refl. }
        cbn -[wrap64]. rewrite Nat.eqb_refl. reflexivity.
      * split; [reflexivity|]. split; [reflexivity|]. cbn -[wrap64].
        eexists. split; [apply nth1_app_new|]. cbn -[wrap64]. auto.
    + cbn [fst snd]. eexists; split.
      * eexists _, _. split.
        { eapply reach_step. { reflexivity. }
          eapply reach_step. { cbn. rewrite Hst, Hload, E0. reflexivity. }
          apply reach_refl. }
        cbn -[take_tick]. rewrite Hst, take_tick_eq, E1. reflexivity.
      * split; [reflexivity|]. split; [reflexivity|]. cbn.
        exists st. split; assumption.
  - cbn [fst snd]. eexists; split.
    * eexists _, _. split.
      { eapply reach_step. { reflexivity. } apply reach_refl. }
      cbn. rewrite Hst, Hload, E0. reflexivity.
    * split; [reflexivity|]. split; [reflexivity|]. cbn.
      exists st. split; assumption.
Qed.

(** the transition to OPEN (from HALF_OPEN, or a tripping failure report) *)
Lemma trip_sim sts c wins bks tks lg e :
  exists s', completes (OFTick c e) (BS sts c wins bks tks lg) BU s' /\
    R s' (rlog (rset (Ref (ROpen 0 0) (tl tks) lg)
                     (ROpen (wrap64 (hd 0 tks + openw cfg)) (openw cfg))) (say_state nl KOpen)).
Proof.
  eexists; split.
  - eexists _, _. split.
    { eapply reach_step. { cbn -[take_tick wrap64]. rewrite take_tick_eq. cbn -[wrap64]. reflexivity. }
      apply reach_refl. }
    cbn -[wrap64]. rewrite Nat.eqb_refl. reflexivity.
  - split; [reflexivity|]. split; [reflexivity|]. cbn -[wrap64].
    eexists. split; [apply nth1_app_new|]. cbn -[wrap64]. auto.
Qed.

Lemma op_sim s r o :
  R s r -> breaker_op o = true ->
  exists s', completes (BInv o) s (snd (ref_step cfg nl r o)) s' /\
             R s' (fst (ref_step cfg nl r o)).
Proof.
  destruct s as [sts c wins bks tks lg], r as [rst rtk rlg].
  intros (Hlog & Htk & st & Hst & HR) Ho; simpl in Hlog, Htk, Hst, HR; subst rtk rlg.
  destruct o; try discriminate Ho; clear Ho.
  - (* CanRequest *)
    destruct rst as [cur res|d dur|d dur].
    + destruct HR as (Hk & HW). eexists; split.
      * eexists CRLoad, _. split; [eapply reach_step; [reflexivity|apply reach_refl]|].
        cbn. rewrite Hst, Hk. reflexivity.
      * split; [reflexivity|]. split; [reflexivity|]. exists st. split; [exact Hst|]. split; assumption.
    + apply canreq_sim with (st := st); auto. destruct HR as (Hk & _). congruence.
    + apply canreq_sim with (st := st); auto. destruct HR as (Hk & _). congruence.
  - (* OnSuccess *)
    destruct rst as [cur res|d dur|d dur].
    + destruct HR as (Hk & HW).
      destruct (report_sim sts c wins bks tks lg (st_win st) cur res true WKSuccess HW)
        as (l1 & s1 & wins' & bks' & Hr & Hd & HW').
      cbn -[report]. rewrite rtick_eq.
      destruct (report cfg cur res true (hd 0 tks)) as [[cur' res'] cnt]; cbn [fst snd] in *.
      assert (Hpre : reach (BInv OnSuccess) (BS sts c wins bks tks lg)
                           (WTick (st_win st) true WKSuccess) (BS sts c wins bks tks lg)).
      { eapply reach_step. { reflexivity. }
        eapply reach_step. { cbn. rewrite Hst, Hk. reflexivity. }
        apply reach_refl. }
      destruct cnt as [[sc fc]|]; cbn in Hd.
      * eexists; split.
        { exists l1, s1. split; [eapply reach_trans; [exact Hpre | exact Hr] | exact Hd]. }
        split; [reflexivity|]. split; [reflexivity|]. exists st. split; [exact Hst|].
        split; assumption.
      * eexists; split.
        { exists l1, s1. split; [eapply reach_trans; [exact Hpre | exact Hr] | exact Hd]. }
        split; [reflexivity|]. split; [reflexivity|]. exists st. split; [exact Hst|].
        split; assumption.
    + (* OPEN: ignored *)
      destruct HR as (Hk & HW). eexists; split.
      * eexists OSLoad, _. split; [eapply reach_step; [reflexivity|apply reach_refl]|].
        cbn. rewrite Hst, Hk. reflexivity.
      * split; [reflexivity|]. split; [reflexivity|]. exists st. split; [exact Hst|]. split; assumption.
    + (* HALF_OPEN -> CLOSED with a new window *)
      destruct HR as (Hk & HW). cbn. rewrite !rtick_eq. cbn [fst snd].
      eexists; split.
      * eexists _, _. split.
        { eapply reach_step. { reflexivity. }
          eapply reach_step. { cbn. rewrite Hst, Hk. reflexivity. }
          eapply reach_step. { cbn -[take_tick]. rewrite take_tick_eq. cbn. reflexivity. }
          eapply reach_step. { cbn. reflexivity. }
          eapply reach_step. { cbn -[take_tick wrap64]. rewrite take_tick_eq. cbn -[wrap64]. reflexivity. }
          apply reach_refl. }
        cbn -[wrap64]. rewrite Nat.eqb_refl. reflexivity.
      * split; [reflexivity|]. split; [reflexivity|]. cbn -[wrap64].
        eexists. split; [apply nth1_app_new|]. cbn -[wrap64]. split; [reflexivity|].
        eexists. split; [apply nth1_app_new|]. cbn.
        split; [apply nth1_app_new|]. split; [constructor | intros []].
  - (* OnFailure *)
    destruct rst as [cur res|d dur|d dur].
    + destruct HR as (Hk & HW).
      destruct (report_sim sts c wins bks tks lg (st_win st) cur res false (WKFailure c) HW)
        as (l1 & s1 & wins' & bks' & Hr & Hd & HW').
      cbn -[report]. rewrite rtick_eq.
      destruct (report cfg cur res false (hd 0 tks)) as [[cur' res'] cnt]; cbn [fst snd] in *.
      assert (Hpre : reach (BInv OnFailure) (BS sts c wins bks tks lg)
                           (WTick (st_win st) false (WKFailure c)) (BS sts c wins bks tks lg)).
      { eapply reach_step. { reflexivity. }
        eapply reach_step. { cbn. rewrite Hst, Hk. reflexivity. }
        apply reach_refl. }
      destruct cnt as [[sc fc]|]; cbn in Hd.
      * destruct (exceeds cfg sc fc) eqn:Ex.
        -- change (rset (Ref (RClosed cur res) (tl tks) lg) (RClosed cur' res')) with (Ref (RClosed cur' res') (tl tks) lg). rewrite rtick_eq. cbn [fst snd].
           destruct (trip_sim sts c wins' bks' (tl tks) lg (Some (sc, fc))) as (s' & Hc & HR').
           exists s'. split; [|exact HR'].
           eapply reach_completes; [|exact Hc].
           eapply reach_snoc; [eapply reach_trans; [exact Hpre | exact Hr] | exact Hd].
        -- eexists; split.
           { exists l1, s1. split; [eapply reach_trans; [exact Hpre | exact Hr] | exact Hd]. }
           split; [reflexivity|]. split; [reflexivity|]. exists st. split; [exact Hst|].
           split; assumption.
      * eexists; split.
        { exists l1, s1. split; [eapply reach_trans; [exact Hpre | exact Hr] | exact Hd]. }
        split; [reflexivity|]. split; [reflexivity|]. exists st. split; [exact Hst|].
        split; assumption.
    + (* OPEN: ignored *)
      destruct HR as (Hk & HW). eexists; split.
      * eexists OFLoad, _. split; [eapply reach_step; [reflexivity|apply reach_refl]|].
        cbn. rewrite Hst, Hk. reflexivity.
      * split; [reflexivity|]. split; [reflexivity|]. exists st. split; [exact Hst|]. split; assumption.
    + (* HALF_OPEN -> OPEN *)
      destruct HR as (Hk & HW). cbn -[wrap64]. rewrite rtick_eq. cbn [fst snd].
      destruct (trip_sim sts c wins bks tks lg None) as (s' & Hc & HR').
      exists s'. split; [|exact HR'].
      eapply reach_completes; [|exact Hc].
      eapply reach_step. { reflexivity. }
      eapply reach_step. { cbn. rewrite Hst, Hk. reflexivity. }
      apply reach_refl.
Qed.

(** * The whole run *)

Lemma R_init ticks : R (binit nl ticks) (ref_init nl ticks).
Proof.
  destruct ticks as [|t1 [|t2 ticks]]; cbn -[wrap64];
    (split; [reflexivity|]; split; [reflexivity|];
     eexists; split; [reflexivity|]; cbn -[wrap64]; split; [reflexivity|];
     eexists; split; [reflexivity|]; cbn; split; [reflexivity|];
     split; [constructor | intros []]).
Qed.

Lemma rets_app e1 e2 : rets (e1 ++ e2) = rets e1 ++ rets e2.
Proof. unfold rets. apply flat_map_app. Qed.

Lemma run_ops : forall ops s r,
  R s r -> (forall o, In o ops -> breaker_op o = true) ->
  exists k s' e,
    runs cfg nl (quiet s ops) k (quiet s' []) e /\
    rets e = snd (ref_run cfg nl r ops) /\ R s' (fst (ref_run cfg nl r ops)).
Proof.
  induction ops as [|o ops IH]; intros s r HR Hops.
  - exists 0%nat, s, []. split; [reflexivity|]. split; [reflexivity | exact HR].
  - destruct (op_sim s r o HR (Hops o (or_introl eq_refl))) as (s1 & Hc & HR1).
    destruct (solo_call cfg nl o s _ s1 ops Hc) as (k1 & Hk1).
    destruct (IH s1 _ HR1 (fun o' H => Hops o' (or_intror H))) as (k2 & s2 & e2 & Hk2 & He2 & HR2).
    exists (k1 + k2)%nat, s2, ([EInv 0%nat o; ERet 0%nat o (snd (ref_step cfg nl r o))] ++ e2).
    split; [eapply runs_trans; eassumption|].
    simpl ref_run. destruct (ref_step cfg nl r o) as [r1 x]. simpl fst in *; simpl snd in *.
    destruct (ref_run cfg nl r1 ops) as [r2 xs]. simpl fst in *; simpl snd in *.
    split; [|exact HR2]. rewrite rets_app, He2. reflexivity.
Qed.

End Sim.

Theorem breaker_refines_reference : forall cfg nl ticks ops,
  (forall o, In o ops -> breaker_op o = true) ->
  exists n, forall m, (n <= m)%nat ->
    let '(c, e) := run (breaker cfg nl) (seq_cfg cfg nl ticks ops) (repeat 0%nat m) in
    let '(r, xs) := ref_run cfg nl (ref_init nl ticks) ops in
    rets e = xs /\ b_log (c_sh c) = r_log r /\ b_ticks (c_sh c) = r_ticks r.
Proof.
  intros cfg nl ticks ops Hops.
  destruct (run_ops cfg nl ops _ _ (R_init nl ticks) Hops) as (n & s' & e & Hn & He & HR).
  exists n. intros m Hm.
  assert (Hrun : runs cfg nl (quiet (binit nl ticks) ops) (n + (m - n)) (quiet s' []) (e ++ [])).
  { eapply runs_trans; [exact Hn | apply solo_idle]. }
  replace (n + (m - n))%nat with m in Hrun by lia. rewrite app_nil_r in Hrun.
  unfold runs in Hrun. change (seq_cfg cfg nl ticks ops) with (quiet (binit nl ticks) ops).
  rewrite Hrun.
  destruct (ref_run cfg nl (ref_init nl ticks) ops) as [r xs]. simpl in He, HR.
  destruct HR as (Hlog & Htk & _). simpl. auto.
Qed.

Print Assumptions breaker_refines_reference.
