(** Non-vacuity of the C10 theorems of ConcUpper.v / ConcQuiescent.v on a concrete run:
    two reporters race to roll the bucket (thread 0 wins the CAS, thread 1 loses and
    archives its bucket as an instant bucket while thread 0 is summing), then a third
    reporter sees the ticker step back (instant bucket), and finally rolls. *)
From Coq Require Import List Arith Bool ZArith Lia.
From Garr Require Import Conc.Conc Pure.F64 Pure.Config Breaker.BreakerModel Breaker.Ref
  Breaker.SeqRefine Breaker.WindowSeq Breaker.ConcBase Breaker.ConcWin Breaker.ConcCount
  Breaker.ConcGhost Breaker.ConcUpper Breaker.ConcOwn Breaker.ConcQuiescent.
Import ListNotations.
Local Open Scope Z_scope.

Definition ycfg : cb_config :=
  {| thr := of_bits 4602678819172646912 (* 0.5 *); minreq := 1; trial := 10; openw := 10;
     window := 100; interval := 5 |}.

(* two readings for the constructor, then: 1, 2 (same interval), 7, 8 (both roll), 3 (back in time), 50 *)
Definition yticks : list Z := [0; 0; 1; 2; 7; 8; 3; 50].
Definition yprogs : list (list bop) :=
  [[WSuccess; WSuccess]; [WFailure; WSuccess]; [WSuccess; WFailure]].
Definition ysched1 : list nat :=
  ([0;0;0;0] ++ [1;1;1;1] ++ [0;0;0;0] ++ [1;1;1;1] ++ [0;0;0;0;0;0;0;0] ++ [1;1] ++ [0])%nat.
Notation yM := (breaker ycfg 0).
Notation yc0 := (bcfg0 0 yticks yprogs).
Notation ylog := (steps_of yM yc0 ysched1).

Lemma yprogs_small : (Z.of_nat (length (concat yprogs)) < 2 ^ 62)%Z.
Proof. vm_compute. reflexivity. Qed.

(** ** (A): the winner of the roll returns (1, 1) at log position 26; by then 3 success adds
    and 1 failure add with a recent timestamp have been executed (its own and the loser's
    adds went to buckets it did not visit) *)
Example upper_pc :
  option_map (fun x => (snd x, nth_error (pcs (fst x)) (snd x))) (nth_error ylog 26) =
  Some (0%nat, Some (WSnapStore 1 WKDirect 1 1)).
Proof. vm_compute. reflexivity. Qed.

Example upper_values :
  (tick_read 0 (firstn 26 ylog), recent_adds ycfg true 7 (firstn 26 ylog),
   recent_adds ycfg false 7 (firstn 26 ylog)) = (Some 7, 3%nat, 1%nat).
Proof. vm_compute. reflexivity. Qed.

Example upper_trace :
  trace yM yc0 ysched1 =
  [EInv 0%nat WSuccess; ERet 0%nat WSuccess (BCount None);
   EInv 1%nat WFailure; ERet 1%nat WFailure (BCount None);
   EInv 0%nat WSuccess; EInv 1%nat WSuccess; ERet 1%nat WSuccess (BCount None);
   ERet 0%nat WSuccess (BCount (Some (1, 1)))].
Proof. vm_compute. reflexivity. Qed.

(* at that point the reservoir holds buckets 1 (the archived one) and 3 (the loser's instant bucket) *)
Example upper_values_window :
  (option_map (fun x => b_wins (c_sh (fst x))) (nth_error ylog 26),
   recent_adds_on ycfg true 7 [1; 3]%nat (firstn 26 ylog),
   recent_adds_on ycfg false 7 [1; 3]%nat (firstn 26 ylog)) =
  (Some [Window 2 [(1%nat, true); (3%nat, true)] (0, 0)], 2%nat, 1%nat).
Proof. vm_compute. reflexivity. Qed.

(* the theorem instantiated on this run *)
Example upper_instance :
  exists t, tick_read 0 (firstn 26 ylog) = Some t /\
    (0 <= 1 <= Z.of_nat (recent_adds ycfg true t (firstn 26 ylog)))%Z /\
    (0 <= 1 <= Z.of_nat (recent_adds ycfg false t (firstn 26 ylog)))%Z.
Proof.
  destruct (nth_error ylog 26) as [[cj tid]|] eqn:E; [|vm_compute in E; discriminate E].
  pose proof upper_pc as Hpc. rewrite E in Hpc. cbn [option_map fst snd] in Hpc.
  injection Hpc as Htid Hpc. subst tid.
  exact (count_upper_bound ycfg 0 yticks yprogs ysched1 26 cj 0%nat 1%nat WKDirect 1 1 yprogs_small E Hpc).
Qed.

(** ** (B): thread 2 then reports a success at tick 3 < 7 (instant bucket); every call has
    returned; its next report reads 50 and rolls *)
Definition ysched2 : list nat := (ysched1 ++ repeat 2 5)%nat.
Notation yc := (final yM yc0 ysched2).

Example quiescent_state :
  (forallb (fun th => match t_cur th with None => true | Some _ => false end) (c_thr yc),
   map (fun th => t_prog th) (c_thr yc), b_wins (c_sh yc), b_buckets (c_sh yc), b_ticks (c_sh yc)) =
  (true, [[]; []; [WFailure]],
   [Window 2 [(1%nat, true); (3%nat, true); (4%nat, true)] (1, 1)],
   [Bucket 0 1 1; Bucket 7 1 0; Bucket 8 1 0; Bucket 3 1 0], [50]).
Proof. vm_compute. reflexivity. Qed.

(* the model run: the roll at tick 50 reports all 4 successes and the failure *)
Example quiescent_run :
  snd (run yM yc (repeat 2%nat 30)) = [EInv 2%nat WFailure; ERet 2%nat WFailure (BCount (Some (4, 1)))].
Proof. vm_compute. reflexivity. Qed.

Example quiescent_log_counts :
  (recent_adds ycfg true 50 (steps_of yM yc0 ysched2), recent_adds ycfg false 50 (steps_of yM yc0 ysched2),
   nadds true (steps_of yM yc0 ysched2), nadds false (steps_of yM yc0 ysched2)) = (4%nat, 1%nat, 4%nat, 1%nat).
Proof. vm_compute. reflexivity. Qed.

(* the theorem instantiated on this configuration: all its hypotheses hold *)
Example quiescent_instance :
  exists n c', run yM yc (repeat 2%nat n) =
    (c', [EInv 2%nat WFailure; ERet 2%nat WFailure (BCount (Some (4, 1)))]).
Proof.
  destruct (nth_error (c_thr yc) 2) as [th|] eqn:Hn; [|vm_compute in Hn; discriminate Hn].
  assert (Hth : (t_dead th, t_prog th) = (false, [WFailure])).
  { assert (E : Some th = nth_error (c_thr yc) 2) by (symmetry; exact Hn).
    vm_compute in E. injection E as ->. reflexivity. }
  injection Hth as Hdead Hprog.
  assert (Hq : forall th', In th' (c_thr yc) -> t_cur th' = None).
  { intros th' Hin.
    assert (Hall : forallb (fun th => match t_cur th with None => true | Some _ => false end) (c_thr yc) = true)
      by (vm_compute; reflexivity).
    rewrite forallb_forall in Hall. specialize (Hall th' Hin). destruct (t_cur th'); [discriminate|reflexivity]. }
  assert (Hx : nth1 (b_wins (c_sh yc)) 1 = Some (Window 2 [(1%nat, true); (3%nat, true); (4%nat, true)] (1, 1)))
    by (vm_compute; reflexivity).
  assert (Hcb : nth1 (b_buckets (c_sh yc)) 2 = Some (Bucket 7 1 0)) by (vm_compute; reflexivity).
  assert (Ht1 : (7 <= hd 0 (b_ticks (c_sh yc)))%Z) by (vm_compute; discriminate).
  assert (Ht2 : (wrap64 (7 + interval ycfg) <= hd 0 (b_ticks (c_sh yc)))%Z) by (vm_compute; discriminate).
  assert (Hall : forall b bk, nth1 (b_buckets (c_sh yc)) b = Some bk ->
            (cut ycfg (hd 0 (b_ticks (c_sh yc))) <= bk_ts bk)%Z ->
            In b (roll_ids (Window 2 [(1%nat, true); (3%nat, true); (4%nat, true)] (1, 1)))).
  { intros b bk Hb _.
    assert (Eb : b_buckets (c_sh yc) = [Bucket 0 1 1; Bucket 7 1 0; Bucket 8 1 0; Bucket 3 1 0])
      by (vm_compute; reflexivity).
    rewrite Eb in Hb. unfold roll_ids, live. simpl.
    destruct b as [|[|[|[|[|b]]]]]; try discriminate Hb; try tauto.
    destruct b; discriminate Hb. }
  destruct (quiescent_roll_exact_all ycfg 0 yticks yprogs ysched2 2%nat th WFailure []
              (Window 2 [(1%nat, true); (3%nat, true); (4%nat, true)] (1, 1)) (Bucket 7 1 0) yprogs_small
              Hq Hn Hdead Hprog (or_intror eq_refl) Hx Hcb Ht1 Ht2 Hall)
    as (n & c' & Hrun).
  exists n, c'. rewrite Hrun. vm_compute. reflexivity.
Qed.

(* the same through [quiescent_roll_exact_untrimmed]: one window, no trimmed cell *)
Example quiescent_instance_untrimmed :
  exists n c', run yM yc (repeat 2%nat n) =
    (c', [EInv 2%nat WFailure; ERet 2%nat WFailure (BCount (Some (4, 1)))]).
Proof.
  destruct (nth_error (c_thr yc) 2) as [th|] eqn:Hn; [|vm_compute in Hn; discriminate Hn].
  assert (Hth : (t_dead th, t_prog th) = (false, [WFailure])).
  { assert (E : Some th = nth_error (c_thr yc) 2) by (symmetry; exact Hn).
    vm_compute in E. injection E as ->. reflexivity. }
  injection Hth as Hdead Hprog.
  assert (Hq : forall th', In th' (c_thr yc) -> t_cur th' = None).
  { intros th' Hin.
    assert (Hall : forallb (fun th => match t_cur th with None => true | Some _ => false end) (c_thr yc) = true)
      by (vm_compute; reflexivity).
    rewrite forallb_forall in Hall. specialize (Hall th' Hin). destruct (t_cur th'); [discriminate|reflexivity]. }
  assert (Hx : nth1 (b_wins (c_sh yc)) 1 = Some (Window 2 [(1%nat, true); (3%nat, true); (4%nat, true)] (1, 1)))
    by (vm_compute; reflexivity).
  assert (Hcb : nth1 (b_buckets (c_sh yc)) 2 = Some (Bucket 7 1 0)) by (vm_compute; reflexivity).
  assert (Ht1 : (7 <= hd 0 (b_ticks (c_sh yc)))%Z) by (vm_compute; discriminate).
  assert (Ht2 : (wrap64 (7 + interval ycfg) <= hd 0 (b_ticks (c_sh yc)))%Z) by (vm_compute; discriminate).
  assert (Hone : length (b_wins (c_sh yc)) = 1%nat) by (vm_compute; reflexivity).
  destruct (quiescent_roll_exact_untrimmed ycfg 0 yticks yprogs ysched2 2%nat th WFailure []
              (Window 2 [(1%nat, true); (3%nat, true); (4%nat, true)] (1, 1)) (Bucket 7 1 0) yprogs_small
              Hq Hn Hdead Hprog (or_intror eq_refl) Hx Hcb Ht1 Ht2 Hone)
    as (n & c' & Hrun).
  { intros b bk Hin. simpl in Hin. destruct Hin as [E|[E|[E|[]]]]; discriminate E. }
  exists n, c'. rewrite Hrun. vm_compute. reflexivity.
Qed.

(** ** a later roll (tick 105, cut-off 5): the buckets with timestamps 0 and 3 are older than the
    window and are excluded; the roll reports the 2 successes of the buckets stamped 7 and 8 *)
Definition zticks : list Z := [0; 0; 1; 2; 7; 8; 3; 105].
Notation zc := (final yM (bcfg0 0 zticks yprogs) ysched2).

Example late_roll :
  (snd (run yM zc (repeat 2%nat 30)),
   recent_adds ycfg true 105 (steps_of yM (bcfg0 0 zticks yprogs) ysched2),
   recent_adds ycfg false 105 (steps_of yM (bcfg0 0 zticks yprogs) ysched2),
   b_wins (c_sh (fst (run yM zc (repeat 2%nat 30))))) =
  ([EInv 2%nat WFailure; ERet 2%nat WFailure (BCount (Some (2, 0)))], 2%nat, 0%nat,
   [Window 5 [(1%nat, false); (3%nat, true); (4%nat, false); (2%nat, true)] (2, 0)]).
Proof. vm_compute. reflexivity. Qed.
