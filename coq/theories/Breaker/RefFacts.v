(** Readable corollaries about the documented reference machine of Ref.v:
    the trip rule (A1), OPEN / HALF_OPEN behaviour (A2), every listener is
    called exactly once and in order (A3), what the sliding window keeps (A4).
    Conventions: the reading a call consumes is [hd 0 (r_ticks r)] (0 once the
    stream is exhausted), the next one is [hd 0 (tl (r_ticks r))]. *)
From Coq Require Import List Arith Bool ZArith Lia.
From Garr Require Import Pure.F64 Pure.Config Breaker.BreakerModel Breaker.Ref.
Import ListNotations.
Local Open Scope Z_scope.

Lemma rtick_hd_tl r : rtick r = (hd 0 (r_ticks r), Ref (r_st r) (tl (r_ticks r)) (r_log r)).
Proof. destruct r as [st [|t tk] lg]; reflexivity. Qed.

(** * A1: the trip rule *)

Lemma exceeds_iff cfg s f :
  exceeds cfg s f = true <->
  0 < wrap64 (s + f) /\ minreq cfg <= wrap64 (s + f) /\ fltb (thr cfg) (failure_rate s f) = true.
Proof.
  unfold exceeds. rewrite !andb_true_iff, Z.ltb_lt, Z.leb_le. tauto.
Qed.

Definition is_open (r : ref) : Prop := match r_st r with ROpen _ _ => True | _ => False end.
Definition is_closed (r : ref) : Prop := match r_st r with RClosed _ _ => True | _ => False end.

Section Facts.
Variable cfg : cb_config.
Variable nl : nat.

(** complete description of a failure report in CLOSED *)
Lemma failure_closed r cur res :
  r_st r = RClosed cur res ->
  let t := hd 0 (r_ticks r) in
  let t2 := hd 0 (tl (r_ticks r)) in
  let '(cur', res', cnt) := report cfg cur res false t in
  ref_step cfg nl r OnFailure =
  match cnt with
  | None => (Ref (RClosed cur' res') (tl (r_ticks r)) (r_log r), BU)
  | Some (s, f) =>
      if exceeds cfg s f
      then (Ref (ROpen (wrap64 (t2 + openw cfg)) (openw cfg)) (tl (tl (r_ticks r)))
                (r_log r ++ say_state nl KOpen), BU)
      else (Ref (RClosed cur' res') (tl (r_ticks r)) (r_log r ++ say_count nl s f), BU)
  end.
Proof.
  destruct r as [st tk lg]; simpl; intros ->.
  unfold ref_step; cbn [r_st]. rewrite rtick_hd_tl; cbn [r_st r_ticks r_log].
  destruct (report cfg cur res false (hd 0 tk)) as [[cur' res'] [[s f]|]]; [|reflexivity].
  destruct (exceeds cfg s f); [|reflexivity].
  unfold rset; cbn [r_st r_ticks r_log]. rewrite rtick_hd_tl. reflexivity.
Qed.

(** the circuit opens IFF the report rolled the bucket and the count exceeds the threshold *)
Theorem trip_iff r cur res :
  r_st r = RClosed cur res ->
  (is_open (fst (ref_step cfg nl r OnFailure)) <->
   exists s f, snd (report cfg cur res false (hd 0 (r_ticks r))) = Some (s, f) /\
               exceeds cfg s f = true).
Proof.
  intros H. pose proof (failure_closed r cur res H) as E; cbv zeta in E.
  destruct (report cfg cur res false (hd 0 (r_ticks r))) as [[cur' res'] [[s f]|]];
    cbn [snd]; rewrite E.
  - destruct (exceeds cfg s f) eqn:Ex; unfold is_open; cbn.
    + split; [intros _; exists s, f; auto | auto].
    + split; [intros [] | intros (s' & f' & Hs & Hx); congruence].
  - unfold is_open; cbn. split; [intros [] | intros (s' & f' & Hs & _); discriminate].
Qed.

Theorem trip_iff_unfolded r cur res :
  r_st r = RClosed cur res ->
  (is_open (fst (ref_step cfg nl r OnFailure)) <->
   exists s f, snd (report cfg cur res false (hd 0 (r_ticks r))) = Some (s, f) /\
               0 < wrap64 (s + f) /\ minreq cfg <= wrap64 (s + f) /\
               fltb (thr cfg) (failure_rate s f) = true).
Proof.
  intros H. rewrite (trip_iff r cur res H).
  split; intros (s & f & Hs & Hx); exists s, f; (split; [exact Hs | apply exceeds_iff; exact Hx]).
Qed.

(** ... and then: OPEN until (next reading + circuitOpenWindow), announced once *)
Theorem trip_result r cur res s f :
  r_st r = RClosed cur res ->
  snd (report cfg cur res false (hd 0 (r_ticks r))) = Some (s, f) ->
  exceeds cfg s f = true ->
  ref_step cfg nl r OnFailure =
  (Ref (ROpen (wrap64 (hd 0 (tl (r_ticks r)) + openw cfg)) (openw cfg))
       (tl (tl (r_ticks r))) (r_log r ++ say_state nl KOpen), BU).
Proof.
  intros H Hs Hx. pose proof (failure_closed r cur res H) as E; cbv zeta in E.
  destruct (report cfg cur res false (hd 0 (r_ticks r))) as [[cur' res'] cnt].
  cbn [snd] in Hs; subst cnt. rewrite Hx in E. exact E.
Qed.

(** otherwise the breaker stays CLOSED *)
Theorem no_trip_stays_closed r cur res :
  r_st r = RClosed cur res ->
  ~ is_open (fst (ref_step cfg nl r OnFailure)) ->
  r_st (fst (ref_step cfg nl r OnFailure)) =
    RClosed (fst (fst (report cfg cur res false (hd 0 (r_ticks r)))))
            (snd (fst (report cfg cur res false (hd 0 (r_ticks r))))) /\
  r_ticks (fst (ref_step cfg nl r OnFailure)) = tl (r_ticks r).
Proof.
  intros H. pose proof (failure_closed r cur res H) as E; cbv zeta in E.
  destruct (report cfg cur res false (hd 0 (r_ticks r))) as [[cur' res'] [[s f]|]];
    rewrite E; [destruct (exceeds cfg s f)|]; unfold is_open; cbn; intros Hn; auto.
  exfalso; auto.
Qed.

(** a success report never changes the kind of state *)
Lemma success_closed r cur res :
  r_st r = RClosed cur res ->
  let '(cur', res', cnt) := report cfg cur res true (hd 0 (r_ticks r)) in
  ref_step cfg nl r OnSuccess =
  (Ref (RClosed cur' res') (tl (r_ticks r))
       (r_log r ++ match cnt with Some (s, f) => say_count nl s f | None => [] end), BU).
Proof.
  destruct r as [st tk lg]; simpl; intros ->.
  unfold ref_step; cbn [r_st]. rewrite rtick_hd_tl; cbn [r_st r_ticks r_log].
  destruct (report cfg cur res true (hd 0 tk)) as [[cur' res'] [[s f]|]]; [reflexivity|].
  unfold rset; cbn. rewrite app_nil_r. reflexivity.
Qed.

Theorem success_keeps_closed r cur res :
  r_st r = RClosed cur res -> is_closed (fst (ref_step cfg nl r OnSuccess)).
Proof.
  intros H. pose proof (success_closed r cur res H) as E.
  destruct (report cfg cur res true (hd 0 (r_ticks r))) as [[cur' res'] cnt].
  rewrite E. exact I.
Qed.

(** * A2: OPEN and HALF_OPEN *)

Definition waiting (r : ref) (d dur : Z) : Prop :=
  r_st r = ROpen d dur \/ r_st r = RHalfOpen d dur.

Theorem canrequest_before_deadline r d dur :
  waiting r d dur -> 0 < dur -> hd 0 (r_ticks r) < d ->
  ref_step cfg nl r CanRequest =
  (Ref (r_st r) (tl (r_ticks r)) (r_log r ++ say_rejected nl), BB false).
Proof.
  destruct r as [st tk lg]; unfold waiting; simpl; intros H Hd Ht.
  apply Z.ltb_lt in Hd. assert (Hle : (d <=? hd 0 tk) = false) by (apply Z.leb_gt; exact Ht).
  destruct H as [-> | ->]; unfold ref_step; cbn [r_st]; rewrite Hd, rtick_hd_tl;
    cbn [r_st r_ticks r_log]; rewrite Hle; reflexivity.
Qed.

Theorem canrequest_after_deadline r d dur :
  waiting r d dur -> 0 < dur -> d <= hd 0 (r_ticks r) ->
  ref_step cfg nl r CanRequest =
  (Ref (RHalfOpen (wrap64 (hd 0 (tl (r_ticks r)) + trial cfg)) (trial cfg))
       (tl (tl (r_ticks r))) (r_log r ++ say_state nl KHalfOpen), BB true).
Proof.
  destruct r as [st tk lg]; unfold waiting; simpl; intros H Hd Ht.
  apply Z.ltb_lt in Hd. apply Z.leb_le in Ht.
  destruct H as [-> | ->]; unfold ref_step; cbn [r_st]; rewrite Hd, rtick_hd_tl;
    cbn [r_st r_ticks r_log]; rewrite Ht, rtick_hd_tl; reflexivity.
Qed.

(** a state without duration rejects without even reading the ticker *)
Theorem canrequest_no_duration r d dur :
  waiting r d dur -> dur <= 0 ->
  ref_step cfg nl r CanRequest = (Ref (r_st r) (r_ticks r) (r_log r ++ say_rejected nl), BB false).
Proof.
  destruct r as [st tk lg]; unfold waiting; simpl; intros H Hd.
  assert (E : (0 <? dur) = false) by (apply Z.ltb_ge; exact Hd).
  destruct H as [-> | ->]; unfold ref_step; cbn [r_st]; rewrite E; reflexivity.
Qed.

Theorem open_ignores_reports r d dur o :
  r_st r = ROpen d dur -> o = OnSuccess \/ o = OnFailure -> ref_step cfg nl r o = (r, BU).
Proof. intros H [-> | ->]; unfold ref_step; rewrite H; reflexivity. Qed.

Theorem halfopen_success r d dur :
  r_st r = RHalfOpen d dur ->
  ref_step cfg nl r OnSuccess =
  (Ref (RClosed (RB (hd 0 (r_ticks r)) 0 0) []) (tl (tl (r_ticks r)))
       (r_log r ++ say_state nl KClosed), BU).
Proof.
  destruct r as [st tk lg]; simpl; intros ->. unfold ref_step; cbn [r_st].
  rewrite rtick_hd_tl; cbn [r_st r_ticks r_log]. rewrite rtick_hd_tl. reflexivity.
Qed.

Theorem halfopen_failure r d dur :
  r_st r = RHalfOpen d dur ->
  ref_step cfg nl r OnFailure =
  (Ref (ROpen (wrap64 (hd 0 (r_ticks r) + openw cfg)) (openw cfg)) (tl (r_ticks r))
       (r_log r ++ say_state nl KOpen), BU).
Proof.
  destruct r as [st tk lg]; simpl; intros ->. unfold ref_step; cbn [r_st].
  rewrite rtick_hd_tl. reflexivity.
Qed.

Theorem canrequest_closed r cur res :
  r_st r = RClosed cur res -> ref_step cfg nl r CanRequest = (r, BB true).
Proof. intros H. unfold ref_step; rewrite H; reflexivity. Qed.

End Facts.

(** * A4: what the sliding window keeps *)

Section Window.
Variable cfg : cb_config.

Lemma bump_success b : bump b true = RB (rb_ts b) (wrap64 (rb_s b + 1)) (rb_f b).
Proof. reflexivity. Qed.
Lemma bump_failure b : bump b false = RB (rb_ts b) (rb_s b) (wrap64 (rb_f b + 1)).
Proof. reflexivity. Qed.

(** the three cases of a report are exhaustive and exclusive *)
Lemma report_cases cur (t : Z) :
  t < rb_ts cur \/
  (rb_ts cur <= t /\ t < wrap64 (rb_ts cur + interval cfg)) \/
  (rb_ts cur <= t /\ wrap64 (rb_ts cur + interval cfg) <= t).
Proof. lia. Qed.

(** rolling: the old bucket is archived, expired buckets are dropped, the rest is the count *)
Theorem report_roll cur res succ t :
  rb_ts cur <= t -> wrap64 (rb_ts cur + interval cfg) <= t ->
  let res' := filter (keep cfg t) (res ++ [cur]) in
  report cfg cur res succ t = (bump (RB t 0 0) succ, res', Some (sum_s res', sum_f res')).
Proof.
  intros H1 H2. unfold report.
  replace (t <? rb_ts cur) with false by (symmetry; apply Z.ltb_ge; exact H1).
  replace (t <? wrap64 (rb_ts cur + interval cfg)) with false by (symmetry; apply Z.ltb_ge; exact H2).
  reflexivity.
Qed.

Lemma keep_iff t b : keep cfg t b = true <-> wrap64 (t - window cfg) <= rb_ts b.
Proof. unfold keep. rewrite negb_true_iff, Z.ltb_ge. tauto. Qed.

Theorem kept_are_recent t l b :
  In b (filter (keep cfg t) l) <-> In b l /\ wrap64 (t - window cfg) <= rb_ts b.
Proof. rewrite filter_In, keep_iff. tauto. Qed.

Theorem dropped_are_old t l b :
  In b l -> ~ In b (filter (keep cfg t) l) -> rb_ts b < wrap64 (t - window cfg).
Proof.
  intros Hin Hn. destruct (Z_lt_le_dec (rb_ts b) (wrap64 (t - window cfg))) as [H|H]; [exact H|].
  exfalso. apply Hn. apply kept_are_recent. auto.
Qed.

(** the rolling event itself: alone in the new current bucket, absent from the count *)
Theorem roll_event_in_new_bucket cur res succ t :
  rb_ts cur <= t -> wrap64 (rb_ts cur + interval cfg) <= t ->
  fst (fst (report cfg cur res succ t)) = (if succ then RB t 1 0 else RB t 0 1).
Proof. intros H1 H2. rewrite report_roll by assumption. destruct succ; reflexivity. Qed.

Theorem roll_count_ignores_event cur res succ succ' t :
  rb_ts cur <= t -> wrap64 (rb_ts cur + interval cfg) <= t ->
  snd (report cfg cur res succ t) = snd (report cfg cur res succ' t) /\
  snd (fst (report cfg cur res succ t)) = snd (fst (report cfg cur res succ' t)).
Proof. intros H1 H2. rewrite !report_roll by assumption. split; reflexivity. Qed.

(** not rolling, older than the current bucket: an instant bucket is appended *)
Theorem report_instant cur res succ t :
  t < rb_ts cur ->
  report cfg cur res succ t = (cur, res ++ [if succ then RB t 1 0 else RB t 0 1], None).
Proof.
  intros H. unfold report. replace (t <? rb_ts cur) with true by (symmetry; apply Z.ltb_lt; exact H).
  destruct succ; reflexivity.
Qed.

(** not rolling, inside the interval: exactly one counter of the current bucket grows by one *)
Theorem report_same_interval cur res succ t :
  rb_ts cur <= t -> t < wrap64 (rb_ts cur + interval cfg) ->
  report cfg cur res succ t =
  (if succ then RB (rb_ts cur) (wrap64 (rb_s cur + 1)) (rb_f cur)
   else RB (rb_ts cur) (rb_s cur) (wrap64 (rb_f cur + 1)), res, None).
Proof.
  intros H1 H2. unfold report.
  replace (t <? rb_ts cur) with false by (symmetry; apply Z.ltb_ge; exact H1).
  replace (t <? wrap64 (rb_ts cur + interval cfg)) with true by (symmetry; apply Z.ltb_lt; exact H2).
  destruct succ; reflexivity.
Qed.

(** in the non-rolling cases nothing is dropped and nothing is reported *)
Theorem no_roll_keeps_everything cur res succ t :
  t < wrap64 (rb_ts cur + interval cfg) \/ t < rb_ts cur ->
  snd (report cfg cur res succ t) = None /\
  exists extra, snd (fst (report cfg cur res succ t)) = res ++ extra.
Proof.
  intros H. destruct (Z_lt_le_dec t (rb_ts cur)) as [H1|H1].
  - rewrite report_instant by exact H1. split; [reflexivity | eexists; reflexivity].
  - destruct H as [H|H]; [|lia]. rewrite report_same_interval by assumption.
    split; [reflexivity | exists []; rewrite app_nil_r; reflexivity].
Qed.

End Window.

(** * A3: every listener exactly once, in registration order *)

Lemma levent_eq_dec (a b : nat * levent) : {a = b} + {a <> b}.
Proof. repeat decide equality. Qed.

Lemma flat_map_single {A B} (g : A -> B) l : flat_map (fun i => [g i]) l = map g l.
Proof. induction l as [|a l IH]; simpl; [reflexivity | f_equal; exact IH]. Qed.

Lemma nth_error_seq0 n i : (i < n)%nat -> nth_error (seq 0 n) i = Some i.
Proof.
  intros H. rewrite (nth_error_nth' _ 0%nat) by (rewrite seq_length; exact H).
  rewrite seq_nth by exact H. reflexivity.
Qed.

Lemma NoDup_count_1 (l : list (nat * levent)) x :
  NoDup l -> In x l -> count_occ levent_eq_dec l x = 1%nat.
Proof. intros Hn Hin. apply (proj1 (NoDup_count_occ' levent_eq_dec l) Hn x Hin). Qed.

Section Listeners.
Variable nl : nat.

(** ** rejections and counts: one callback per listener *)

Lemma say_rejected_eq : say_rejected nl = map (fun i => (i, LRejected)) (seq 0 nl).
Proof. apply flat_map_single. Qed.

Lemma say_count_eq s f : say_count nl s f = map (fun i => (i, LCountUpdated s f)) (seq 0 nl).
Proof. apply (flat_map_single (fun i => (i, LCountUpdated s f))). Qed.

Lemma say_state_eq k :
  say_state nl k = flat_map (fun i => [(i, LStateChanged k); (i, LCountUpdated 0 0)]) (seq 0 nl).
Proof. reflexivity. Qed.

Section One.
Variable e : levent.
Let one := map (fun i : nat => (i, e)) (seq 0 nl).

Lemma one_length : length one = nl.
Proof. unfold one. rewrite map_length, seq_length. reflexivity. Qed.

Lemma one_nth i : (i < nl)%nat -> nth_error one i = Some (i, e).
Proof. intros H. unfold one. apply map_nth_error with (f := fun i : nat => (i, e)), nth_error_seq0, H. Qed.

Lemma one_listeners : map fst one = seq 0 nl.
Proof. unfold one. rewrite map_map. simpl. apply map_id. Qed.

Lemma one_In i e' : In (i, e') one <-> (i < nl)%nat /\ e' = e.
Proof.
  unfold one. rewrite in_map_iff. split.
  - intros (j & Hj & Hin). inversion Hj; subst. apply in_seq in Hin. split; [lia | reflexivity].
  - intros (Hi & ->). exists i. split; [reflexivity | apply in_seq; lia].
Qed.

Lemma one_NoDup : NoDup one.
Proof.
  apply (NoDup_map_inv fst). rewrite one_listeners. apply seq_NoDup.
Qed.

Lemma one_count i e' :
  count_occ levent_eq_dec one (i, e') =
  if (i <? nl)%nat then (if levent_eq_dec (i, e') (i, e) then 1%nat else 0%nat) else 0%nat.
Proof.
  destruct (i <? nl)%nat eqn:E.
  - apply Nat.ltb_lt in E. destruct (levent_eq_dec (i, e') (i, e)) as [H|H].
    + inversion H; subst. apply NoDup_count_1; [apply one_NoDup | apply one_In; auto].
    + apply count_occ_not_In. intros Hin. apply one_In in Hin. destruct Hin as (_ & ->). auto.
  - apply Nat.ltb_ge in E. apply count_occ_not_In. intros Hin. apply one_In in Hin. lia.
Qed.
End One.

Theorem say_rejected_length : length (say_rejected nl) = nl.
Proof. rewrite say_rejected_eq. apply one_length. Qed.
Theorem say_rejected_nth i : (i < nl)%nat -> nth_error (say_rejected nl) i = Some (i, LRejected).
Proof. rewrite say_rejected_eq. apply one_nth. Qed.
Theorem say_rejected_In i e : In (i, e) (say_rejected nl) <-> (i < nl)%nat /\ e = LRejected.
Proof. rewrite say_rejected_eq. apply one_In. Qed.
Theorem say_rejected_listeners : map fst (say_rejected nl) = seq 0 nl.
Proof. rewrite say_rejected_eq. apply one_listeners. Qed.
Theorem say_rejected_NoDup : NoDup (map fst (say_rejected nl)).
Proof. rewrite say_rejected_listeners. apply seq_NoDup. Qed.
Theorem say_rejected_once i :
  count_occ levent_eq_dec (say_rejected nl) (i, LRejected) = if (i <? nl)%nat then 1%nat else 0%nat.
Proof.
  rewrite say_rejected_eq, one_count. destruct (i <? nl)%nat; [|reflexivity].
  destruct (levent_eq_dec (i, LRejected) (i, LRejected)); congruence.
Qed.

Theorem say_count_length s f : length (say_count nl s f) = nl.
Proof. rewrite say_count_eq. apply one_length. Qed.
Theorem say_count_nth s f i :
  (i < nl)%nat -> nth_error (say_count nl s f) i = Some (i, LCountUpdated s f).
Proof. rewrite say_count_eq. apply one_nth. Qed.
Theorem say_count_In s f i e :
  In (i, e) (say_count nl s f) <-> (i < nl)%nat /\ e = LCountUpdated s f.
Proof. rewrite say_count_eq. apply one_In. Qed.
Theorem say_count_listeners s f : map fst (say_count nl s f) = seq 0 nl.
Proof. rewrite say_count_eq. apply one_listeners. Qed.
Theorem say_count_NoDup s f : NoDup (map fst (say_count nl s f)).
Proof. rewrite say_count_listeners. apply seq_NoDup. Qed.
Theorem say_count_once s f i :
  count_occ levent_eq_dec (say_count nl s f) (i, LCountUpdated s f) =
  if (i <? nl)%nat then 1%nat else 0%nat.
Proof.
  rewrite say_count_eq, one_count. destruct (i <? nl)%nat; [|reflexivity].
  destruct (levent_eq_dec (i, LCountUpdated s f) (i, LCountUpdated s f)); congruence.
Qed.

(** ** transitions: the state change, then a zero count, listener by listener *)

Section State.
Variable k : kind.
Let f := fun i : nat => [(i, LStateChanged k); (i, LCountUpdated 0 0)].

Lemma pairs_length l : length (flat_map f l) = (2 * length l)%nat.
Proof. induction l as [|a l IH]; simpl; [reflexivity | rewrite IH; lia]. Qed.

Lemma pairs_nth n : forall start i, (i < n)%nat ->
  nth_error (flat_map f (seq start n)) (2 * i) = Some ((start + i)%nat, LStateChanged k) /\
  nth_error (flat_map f (seq start n)) (2 * i + 1) = Some ((start + i)%nat, LCountUpdated 0 0).
Proof.
  induction n as [|n IH]; intros start i Hi; [lia|].
  destruct i as [|i].
  - simpl. rewrite Nat.add_0_r. split; reflexivity.
  - replace (2 * S i)%nat with (S (S (2 * i))) by lia.
    replace (S (S (2 * i)) + 1)%nat with (S (S (2 * i + 1))) by lia.
    simpl seq. simpl flat_map. simpl nth_error.
    destruct (IH (S start) i ltac:(lia)) as (H1 & H2).
    replace (start + S i)%nat with (S start + i)%nat by lia. split; assumption.
Qed.

Lemma pairs_In l i e :
  In (i, e) (flat_map f l) <-> In i l /\ (e = LStateChanged k \/ e = LCountUpdated 0 0).
Proof.
  rewrite in_flat_map. split.
  - intros (j & Hj & [H|[H|[]]]); inversion H; subst; auto.
  - intros (Hi & [-> | ->]); exists i; (split; [exact Hi|]); simpl; auto.
Qed.

Lemma pairs_NoDup l : NoDup l -> NoDup (flat_map f l).
Proof.
  induction 1 as [|a l Hn _ IH]; simpl; [constructor|].
  constructor; [|constructor; [|exact IH]].
  - intros [H|H]; [discriminate H|]. apply pairs_In in H. tauto.
  - intros H. apply pairs_In in H. tauto.
Qed.

Lemma pairs_changes l :
  filter (fun x => match snd x with LStateChanged _ => true | _ => false end) (flat_map f l)
  = map (fun i => (i, LStateChanged k)) l.
Proof. induction l as [|a l IH]; simpl; [reflexivity | f_equal; exact IH]. Qed.

Lemma pairs_counts l :
  filter (fun x => match snd x with LCountUpdated _ _ => true | _ => false end) (flat_map f l)
  = map (fun i => (i, LCountUpdated 0 0)) l.
Proof. induction l as [|a l IH]; simpl; [reflexivity | f_equal; exact IH]. Qed.

Theorem say_state_length : length (say_state nl k) = (2 * nl)%nat.
Proof. rewrite say_state_eq. fold f. rewrite pairs_length, seq_length. reflexivity. Qed.

(** listener [i] gets its state change at position 2i and the zero count right behind it *)
Theorem say_state_nth i : (i < nl)%nat ->
  nth_error (say_state nl k) (2 * i) = Some (i, LStateChanged k) /\
  nth_error (say_state nl k) (2 * i + 1) = Some (i, LCountUpdated 0 0).
Proof. intros H. rewrite say_state_eq. fold f. exact (pairs_nth nl 0%nat i H). Qed.

Theorem say_state_In i e :
  In (i, e) (say_state nl k) <-> (i < nl)%nat /\ (e = LStateChanged k \/ e = LCountUpdated 0 0).
Proof.
  rewrite say_state_eq. fold f. rewrite pairs_In, in_seq. split; intros (H1 & H2); (split; [lia | exact H2]).
Qed.

Theorem say_state_NoDup : NoDup (say_state nl k).
Proof. rewrite say_state_eq. fold f. apply pairs_NoDup, seq_NoDup. Qed.

(** per callback kind: listeners 0 .. nl-1, each once, in order *)
Theorem say_state_changes :
  filter (fun x => match snd x with LStateChanged _ => true | _ => false end) (say_state nl k)
  = map (fun i => (i, LStateChanged k)) (seq 0 nl).
Proof. rewrite say_state_eq. fold f. apply pairs_changes. Qed.

Theorem say_state_counts :
  filter (fun x => match snd x with LCountUpdated _ _ => true | _ => false end) (say_state nl k)
  = map (fun i => (i, LCountUpdated 0 0)) (seq 0 nl).
Proof. rewrite say_state_eq. fold f. apply pairs_counts. Qed.

Theorem say_state_once i :
  count_occ levent_eq_dec (say_state nl k) (i, LStateChanged k) = (if (i <? nl)%nat then 1%nat else 0%nat) /\
  count_occ levent_eq_dec (say_state nl k) (i, LCountUpdated 0 0) = (if (i <? nl)%nat then 1%nat else 0%nat).
Proof.
  destruct (i <? nl)%nat eqn:E.
  - apply Nat.ltb_lt in E.
    split; apply NoDup_count_1; try apply say_state_NoDup; apply say_state_In; auto.
  - apply Nat.ltb_ge in E.
    split; apply count_occ_not_In; intros H; apply say_state_In in H; lia.
Qed.

End State.
End Listeners.

Print Assumptions trip_iff_unfolded.
Print Assumptions trip_result.
Print Assumptions canrequest_after_deadline.
Print Assumptions report_roll.
Print Assumptions say_state_once.
