(** Sanity checks (non-vacuity) for the concurrent theorems: a concrete run in
    which the breaker trips (CLOSED -> OPEN), two callers race for the trial
    request (one wins the CAS, the other is rejected), and a success report
    closes the circuit again through [OSCas]. *)
From Coq Require Import List Arith Bool ZArith.
From Garr Require Import Conc.Conc Pure.F64 Pure.Config Breaker.BreakerModel
  Breaker.ConcBase Breaker.ConcInv Breaker.ConcCount.
Import ListNotations.
Local Open Scope Z_scope.

Definition xcfg : cb_config :=
  {| thr := of_bits 4602678819172646912 (* 0.5 *); minreq := 1; trial := 10; openw := 10;
     window := 100; interval := 5 |}.

Definition xticks : list Z := [0; 0; 1; 7; 8; 20; 21; 22; 23; 24; 25].
Definition xprogs : list (list bop) := [[OnFailure; OnFailure]; [CanRequest]; [CanRequest]; [OnSuccess]].
Definition xsched : list nat :=
  (repeat 0 40 ++ [1; 1; 1; 1] ++ [2; 2; 2; 2] ++ [2] ++ [1] ++ repeat 3 8)%nat.

Definition xM := breaker xcfg 2.
Definition xc0 := bcfg0 2 xticks xprogs.

(* decidable version of [cas_succeeds]: the expected state of a CAS that will succeed *)
Definition cas_b (x : bconfig * nat) : option nat :=
  match nth_error (c_thr (fst x)) (snd x) with
  | Some th =>
      if t_dead th then None else
      match t_cur th with
      | Some (_, l) =>
          match cas_of l with
          | Some (cs, _) => if Nat.eqb (b_cur (c_sh (fst x))) cs then Some cs else None
          | None => None
          end
      | None => None
      end
  | None => None
  end.

Lemma cas_b_spec c t cs : cas_b (c, t) = Some cs -> cas_succeeds c t cs.
Proof.
  unfold cas_b, cas_succeeds; simpl.
  destruct (nth_error (c_thr c) t) as [th|]; [|discriminate].
  destruct (t_dead th) eqn:Hd; [discriminate|].
  destruct (t_cur th) as [[o l]|] eqn:Hc; [|discriminate].
  destruct (cas_of l) as [[cs' n]|] eqn:Hl; [|discriminate].
  destruct (Nat.eqb_spec (b_cur (c_sh c)) cs') as [E|E]; [|discriminate].
  intros [= <-]. exists th, o, l. repeat split; auto.
  destruct l; simpl in Hl; try discriminate; injection Hl as <- _; reflexivity.
Qed.

(* the successful CASes of the run, in order: 1 -> 2 (OPEN), 2 -> 4 (HALF_OPEN; the
   competitor holding state 3 loses), 4 -> 5 (CLOSED) *)
Example run_cas :
  filter (fun o => match o with Some _ => true | None => false end)
         (map cas_b (steps_of xM xc0 xsched)) = [Some 1%nat; Some 2%nat; Some 4%nat].
Proof. vm_compute. reflexivity. Qed.

Example run_final :
  let s := c_sh (final xM xc0 xsched) in
  (b_cur s, map st_kind (b_states s), map st_win (b_states s), length (b_wins s)) =
  (5%nat, [KClosed; KOpen; KHalfOpen; KHalfOpen; KClosed], [1; 0; 0; 0; 2]%nat, 2%nat).
Proof. vm_compute. reflexivity. Qed.

(* admissions / rejections of the two racing callers, and the returns *)
Example run_trace :
  filter (fun e => match e with ERet _ CanRequest _ => true | _ => false end)
         (trace xM xc0 xsched) = [ERet 2%nat CanRequest (BB true); ERet 1%nat CanRequest (BB false)].
Proof. vm_compute. reflexivity. Qed.

(* two failure reports were added, no success report *)
Example run_counts :
  (nadds false (steps_of xM xc0 xsched), nadds true (steps_of xM xc0 xsched),
   sum_of false (b_buckets (c_sh (final xM xc0 xsched))),
   sum_of true (b_buckets (c_sh (final xM xc0 xsched)))) = (2%nat, 0%nat, 2, 0).
Proof. vm_compute. reflexivity. Qed.
