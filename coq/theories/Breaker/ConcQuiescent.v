(** C10, exactness after quiescence ([quiescent_roll_exact]).

    From ANY configuration reached by a concurrent execution (any number of
    threads, any programs, any ticker stream, any interleaving) in which every
    call has returned, a reporter whose ticker reading makes it roll returns
    EXACTLY the sum, over the buckets with timestamp >= t - window among the
    archived buckets (live reservoir cells) and the bucket this roll archives
    (the current one), of the success / failure counters; and that sum equals
    the number of add steps the execution log contains for those buckets -
    whoever executed them: the winner of the roll CAS, a loser (its bucket went
    to the reservoir as an instant bucket), or a reporter that saw the ticker
    step back.

    Layers:
      - [roll_from_state]: the sequential simulation of WindowSeq.v
        ([report_simS]) started from an arbitrary shared state in which the
        window is well formed (what [WInv] gives in every reachable state);
      - [solo_call_at]: one thread running alone inside a configuration with
        any number of other (idle) threads;
      - [quiescent_roll_returns]: the two combined, against the shared state;
      - [window_sum_log]: the sum against the execution log (uses the counter
        invariant K1/K2 of ConcUpper.v and the distinctness of bucket ids);
      - [quiescent_roll_exact]: everything together;
        [quiescent_roll_exact_all]: if no bucket inside the window has been
        trimmed, the count is the number of ALL recent adds of the log - the
        upper bound of [count_upper_bound] is attained. *)
From Coq Require Import List Arith Bool ZArith Lia.
From Garr Require Import Conc.Conc Pure.F64 Pure.Config Breaker.BreakerModel Breaker.Ref
  Breaker.SeqRefine Breaker.WindowSeq Breaker.ConcBase Breaker.ConcWin Breaker.ConcGhost Breaker.ConcUpper
  Breaker.ConcOwn.
Import ListNotations.

Local Arguments nth1 : simpl never.
Local Arguments upd1 : simpl never.

(** * The window of a shared state read as reference buckets *)

Definition rb_of (bk : bucket) : rbucket := RB (bk_ts bk) (bk_s bk) (bk_f bk).
Definition rb_at (bks : list bucket) (id : nat) : rbucket :=
  match nth1 bks id with Some bk => rb_of bk | None => RB 0 0 0 end.

Lemma P_rb_at bks id bk : nth1 bks id = Some bk -> P bks id (rb_at bks id).
Proof. intros H. unfold P, rb_at. rewrite H. destruct bk; reflexivity. Qed.

Lemma Forall2_rb_at bks idl :
  (forall id, In id idl -> nth1 bks id <> None) -> Forall2 (P bks) idl (map (rb_at bks) idl).
Proof.
  induction idl as [|id r IH]; intros H; simpl; constructor.
  - destruct (nth1 bks id) as [bk|] eqn:E; [eapply P_rb_at; exact E | exfalso; apply (H id); [left; reflexivity | exact E]].
  - apply IH. intros id' Hin. apply H. right. exact Hin.
Qed.

(* window [w] of [s] is well formed: its current bucket and its live reservoir cells are
   allocated, and the current bucket is not archived *)
Definition wok (s : bshared) (w : nat) (x : swindow) : Prop :=
  nth1 (b_wins s) w = Some x /\
  (forall id, id = w_cur x \/ In id (live (w_cells x)) -> nth1 (b_buckets s) id <> None) /\
  ~ In (w_cur x) (live (w_cells x)).

(* the buckets a roll sums: the live reservoir cells in offer order, then the bucket being archived *)
Definition roll_ids (x : swindow) : list nat := live (w_cells x) ++ [w_cur x].

Section Quiescent.
Variable cfg : cb_config.
Variable nl : nat.
Notation M := (breaker cfg nl).

(* what trimAndSum(t) returns on those buckets: the reference sums over the kept ones *)
Definition roll_kept (s : bshared) (x : swindow) (t : Z) : list rbucket :=
  filter (keep cfg t) (map (rb_at (b_buckets s)) (roll_ids x)).
Definition roll_count (s : bshared) (x : swindow) (t : Z) : Z * Z :=
  (sum_s (roll_kept s x t), sum_f (roll_kept s x t)).

(** * A roll from an arbitrary well-formed state *)
Lemma roll_from_state s w x cb succ k :
  wok s w x -> nth1 (b_buckets s) (w_cur x) = Some cb ->
  let t := hd 0%Z (b_ticks s) in
  (t <? bk_ts cb)%Z = false -> (t <? wrap64 (bk_ts cb + interval cfg))%Z = false ->
  exists l1 s1 s',
    reach cfg nl (WTick w succ k) s l1 s1 /\
    bstep cfg nl l1 s1 = deliver cfg nl k (Some (roll_count s x t)) s' /\
    b_ticks s' = tl (b_ticks s) /\ b_log s' = b_log s /\ b_states s' = b_states s /\ b_cur s' = b_cur s.
Proof.
  intros (Hx & Hval & Hnin) Hcb t E1 E2.
  destruct s as [sts c wins bks tks lg]. cbn [b_wins b_buckets b_ticks b_log b_states b_cur] in *.
  assert (HR : RwinS wins bks w (rb_at bks (w_cur x)) (map (rb_at bks) (live (w_cells x))) (w_snap x)).
  { exists x. split; [exact Hx|]. split; [reflexivity|]. split; [eapply P_rb_at; eauto|].
    split; [|exact Hnin]. apply Forall2_rb_at. intros id Hin. apply Hval. right. exact Hin. }
  destruct (report_simS cfg nl sts c wins bks tks lg w _ _ _ succ k HR) as (l1 & s1 & wins' & bks' & Hr & Hd & _).
  assert (Ets : rb_ts (rb_at bks (w_cur x)) = bk_ts cb) by (unfold rb_at; rewrite Hcb; reflexivity).
  unfold report in Hd. rewrite Ets in Hd. fold t in Hd. rewrite E1, E2 in Hd. cbn [fst snd] in Hd.
  exists l1, s1, (BS sts c wins' bks' (tl tks) lg). split; [exact Hr|]. split; [|repeat split].
  rewrite Hd. unfold roll_count, roll_kept, roll_ids. cbn [b_buckets]. rewrite map_app. reflexivity.
Qed.

(** * One thread running alone among other threads *)
Lemma run_one c r c' e : step_thread M c r = Some (c', e) -> run M c [r] = (c', e).
Proof. intros H. simpl. unfold step_cfg, step_evs. rewrite H, app_nil_r. reflexivity. Qed.

Lemma run_app2 c a b c1 e1 c2 e2 :
  run M c a = (c1, e1) -> run M c1 b = (c2, e2) -> run M c (a ++ b) = (c2, e1 ++ e2).
Proof. intros H1 H2. rewrite (run_app cfg nl). rewrite H1, H2. reflexivity. Qed.

Lemma nth_error_upd_same {X} (l : list X) i x y : nth_error l i = Some x -> nth_error (upd l i y) i = Some y.
Proof. intros H. rewrite nth_error_upd, Nat.eqb_refl, H. reflexivity. Qed.

Lemma solo_reach_at l s l' s' :
  reach cfg nl l s l' s' ->
  forall thr r prog o, nth_error thr r = Some (Thread prog tt (Some (o, l)) false) ->
  exists k, run M (Config s thr) (repeat r k) =
            (Config s' (upd thr r (Thread prog tt (Some (o, l')) false)), []).
Proof.
  induction 1 as [l s | l s l1 s1 l' s' Hs _ IH]; intros thr r prog o Hn.
  - exists 0. simpl. rewrite (ConcBase.upd_same _ _ _ Hn). reflexivity.
  - destruct (IH (upd thr r (Thread prog tt (Some (o, l1)) false)) r prog o) as [k Hk].
    { eapply nth_error_upd_same; eauto. }
    exists (1 + k). rewrite repeat_app.
    change (@nil (event bop bret)) with (@nil (event bop bret) ++ []).
    eapply run_app2; [apply run_one|].
    + unfold step_thread. cbn [c_thr c_sh]. rewrite Hn. cbn -[bstep]. rewrite Hs. reflexivity.
    + rewrite Hk. rewrite upd_upd. reflexivity.
Qed.

Lemma solo_call_at o s ret s' thr r th rest :
  completes cfg nl (BInv o) s ret s' ->
  nth_error thr r = Some th -> t_dead th = false -> t_cur th = None -> t_prog th = o :: rest ->
  exists k, run M (Config s thr) (repeat r k) =
            (Config s' (upd thr r (Thread rest tt None false)), [EInv r o; ERet r o ret]).
Proof.
  intros (l1 & s1 & Hr & Hd) Hn Hdead Hcur Hprog.
  destruct th as [pr [] cu dd]. cbn [t_dead t_cur t_prog] in *. subst pr cu dd.
  inversion Hr as [l0 s0 | l0 s0 l2 s2 l3 s3 Hs Hr']; subst.
  - destruct o; discriminate Hd.
  - destruct (solo_reach_at _ _ _ _ Hr' (upd thr r (Thread rest tt (Some (o, l2)) false)) r rest o) as [k Hk].
    { eapply nth_error_upd_same; eauto. }
    rewrite upd_upd in Hk.
    exists (1 + (k + 1)). rewrite !repeat_app.
    change [EInv r o; ERet r o ret] with ([EInv r o] ++ ([] ++ [@ERet bop bret r o ret])).
    eapply run_app2; [apply run_one | eapply run_app2; [exact Hk | apply run_one]].
    + unfold step_thread. cbn [c_thr c_sh]. rewrite Hn. cbn -[bstep]. rewrite Hs. reflexivity.
    + unfold step_thread. cbn [c_thr c_sh]. rewrite (nth_error_upd_same _ _ _ _ Hn).
      cbn -[bstep]. rewrite Hd. rewrite upd_upd. reflexivity.
Qed.

(** * Reachable configurations: the window is well formed *)
Lemma live_incl cells id : In id (live cells) -> In id (map fst cells).
Proof.
  unfold live. intros H. apply in_map_iff in H. destruct H as ([b lv] & <- & Hin).
  apply filter_In in Hin. destruct Hin as [Hin _]. apply in_map_iff. exists (b, lv). auto.
Qed.

Lemma nth1_valid {X} (l : list X) i : 1 <= i <= length l -> nth1 l i <> None.
Proof.
  destruct i as [|j]; [lia|]. intros H. unfold nth1. apply nth_error_Some. lia.
Qed.

Lemma wok_of_WInv c w x : WInv c -> nth1 (b_wins (c_sh c)) w = Some x -> wok (c_sh c) w x.
Proof.
  intros HW Hx. split; [exact Hx|]. split.
  - intros id Hid. apply nth1_valid. apply (wi_valid _ HW w x id Hx).
    destruct Hid as [->|Hid]; [left; reflexivity | right; apply live_incl; exact Hid].
  - intros Hin. apply (wi_cur _ HW w x Hx). apply live_incl. exact Hin.
Qed.

Lemma NoDup_live cells : NoDup (map fst cells) -> NoDup (live cells).
Proof.
  unfold live. induction cells as [|[b lv] r IH]; intros H; simpl in *; [constructor|].
  inversion H as [|? ? Hnin Hnd]; subst. destruct lv; simpl; [|apply IH; exact Hnd].
  constructor; [|apply IH; exact Hnd]. intros Hin. apply Hnin. apply (live_incl r b Hin).
Qed.

Lemma NoDup_snoc {X} (l : list X) a : NoDup l -> ~ In a l -> NoDup (l ++ [a]).
Proof.
  induction l as [|b l IH]; intros Hl Ha; simpl.
  - constructor; [intros []|constructor].
  - inversion Hl as [|? ? Hb Hl']; subst. constructor.
    + intros Hin. apply in_app_or in Hin. destruct Hin as [Hin|[->|[]]]; [auto|]. apply Ha. left. reflexivity.
    + apply IH; [exact Hl'|]. intros Hin. apply Ha. right. exact Hin.
Qed.

Lemma NoDup_roll_ids c w x : WInv c -> nth1 (b_wins (c_sh c)) w = Some x -> NoDup (roll_ids x).
Proof.
  intros HW Hx. unfold roll_ids. apply NoDup_snoc.
  - apply NoDup_live. exact (wi_nodup _ HW w x Hx).
  - intros Hin. apply (wi_cur _ HW w x Hx). apply live_incl. exact Hin.
Qed.

(* window 1 (the window of the constructor) exists in every reachable configuration *)
Lemma win1_reach ticks progs sched :
  exists x, nth1 (b_wins (c_sh (final M (bcfg0 nl ticks progs) sched))) 1 = Some x.
Proof.
  apply (invariant_run M (fun c => exists x, nth1 (b_wins (c_sh c)) 1 = Some x)).
  - unfold bcfg0, init, binit, take_tick. cbn [c_sh]. destruct ticks as [|t1 [|t2 r]]; simpl; eexists; reflexivity.
  - intros c t c' e [x Hx] Hs. destruct (step_abs _ _ _ _ _ _ Hs) as (l0 & l & l' & _ & _ & Hp & _).
    destruct (step_wins _ _ _ _ _ _ Hp _ _ Hx) as (x' & _ & Hx' & _). exists x'. exact Hx'.
Qed.

(** * Exactness against the shared state *)
Theorem quiescent_roll_returns : forall ticks progs sched r th o rest x cb,
  let c := final M (bcfg0 nl ticks progs) sched in
  nth_error (c_thr c) r = Some th -> t_dead th = false -> t_cur th = None -> t_prog th = o :: rest ->
  (o = WSuccess \/ o = WFailure) ->
  nth1 (b_wins (c_sh c)) 1 = Some x -> nth1 (b_buckets (c_sh c)) (w_cur x) = Some cb ->
  let t := hd 0%Z (b_ticks (c_sh c)) in
  (bk_ts cb <= t)%Z -> (wrap64 (bk_ts cb + interval cfg) <= t)%Z ->
  exists n c',
    run M c (repeat r n) = (c', [EInv r o; ERet r o (BCount (Some (roll_count (c_sh c) x t)))]) /\
    b_ticks (c_sh c') = tl (b_ticks (c_sh c)).
Proof.
  intros ticks progs sched r th o rest x cb c Hn Hdead Hcur Hprog Ho Hx Hcb t Ht1 Ht2.
  pose proof (window_invariant cfg nl ticks progs sched) as HW. fold c in HW.
  pose proof (wok_of_WInv c 1 x HW Hx) as Hok.
  assert (E1 : (t <? bk_ts cb)%Z = false) by (apply Z.ltb_ge; exact Ht1).
  assert (E2 : (t <? wrap64 (bk_ts cb + interval cfg))%Z = false) by (apply Z.ltb_ge; exact Ht2).
  assert (Hc : forall succ : bool, o = (if succ then WSuccess else WFailure) ->
     exists s', completes cfg nl (BInv o) (c_sh c) (BCount (Some (roll_count (c_sh c) x t))) s' /\
                b_ticks s' = tl (b_ticks (c_sh c))).
  { intros succ ->.
    destruct (roll_from_state (c_sh c) 1 x cb succ WKDirect Hok Hcb E1 E2) as (l1 & s1 & s' & Hr & Hd & Htk & _).
    exists s'. split; [|exact Htk]. exists l1, s1. split; [|exact Hd].
    eapply reach_step; [|exact Hr]. destruct succ; reflexivity. }
  assert (Hc' : exists s', completes cfg nl (BInv o) (c_sh c) (BCount (Some (roll_count (c_sh c) x t))) s' /\
                b_ticks s' = tl (b_ticks (c_sh c))).
  { destruct Ho as [->| ->]; [apply (Hc true) | apply (Hc false)]; reflexivity. }
  destruct Hc' as (s' & Hcomp & Htk).
  destruct (solo_call_at o (c_sh c) _ s' (c_thr c) r th rest Hcomp Hn Hdead Hcur Hprog) as (n & Hrun).
  exists n, (Config s' (upd (c_thr c) r (Thread rest tt None false))). split; [|exact Htk].
  destruct c as [sh thr]. exact Hrun.
Qed.

(** * The sum against the execution log *)
Section SumLog.
Variables (A : list (nat * aev)) (s : bshared) (t : Z).
Hypothesis HK1 : K1 A s.
Hypothesis HK2 : K2 A s.
Hypothesis Hnw : nowrap A.

Lemma gadd_cons succ Q b r e :
  gadd succ Q (fun b' => memb b' (b :: r)) e =
  gadd succ Q (fun b' => Nat.eqb b' b) e || gadd succ Q (fun b' => memb b' r) e.
Proof. rewrite <- gadd_or. reflexivity. Qed.

Lemma cntG_cons succ Q b r :
  ~ In b r ->
  cntG succ Q (fun b' => memb b' (b :: r)) A =
  cntG succ Q (fun b' => Nat.eqb b' b) A + cntG succ Q (fun b' => memb b' r) A.
Proof.
  intros Hnin. unfold cntG.
  rewrite (filter_ext _ _ (gadd_cons succ Q b r)). apply filter_len_or.
  intros [u e] _ Hp Hq. unfold gadd in Hp, Hq. simpl in Hp, Hq. destruct e as [|sc b' ts]; [discriminate|].
  apply andb_prop in Hp. destruct Hp as [_ Hp]. apply andb_prop in Hq. destruct Hq as [_ Hq].
  apply Nat.eqb_eq in Hp. subst b'. apply memb_In in Hq. contradiction.
Qed.

(* the logged adds on one bucket, split by the timestamp test *)
Lemma cntG_bucket succ b bk :
  nth1 (b_buckets s) b = Some bk ->
  cntG succ (recent cfg t) (fun b' => Nat.eqb b' b) A =
  if (cut cfg t <=? bk_ts bk)%Z then cntT succ b A else 0.
Proof.
  intros Hb. unfold cntT, cntG.
  destruct (cut cfg t <=? bk_ts bk)%Z eqn:E.
  - f_equal. apply filter_ext_in. intros [u e] Hin. unfold gadd. simpl. destruct e as [|sc b' ts]; [reflexivity|].
    rewrite (Nat.eqb_sym b b'). destruct (Nat.eqb_spec b' b) as [->|Hne]; [|rewrite !andb_false_r; reflexivity].
    destruct (HK2 _ _ _ _ Hin eq_refl) as (bk2 & Hbk2 & Hts). rewrite Hb in Hbk2. injection Hbk2 as <-.
    unfold recent, anyts. rewrite <- Hts, E. reflexivity.
  - destruct (length (filter (gadd succ (recent cfg t) (fun b' => Nat.eqb b' b)) A)) eqn:El; [reflexivity|exfalso].
    destruct (filter_len_pos (gadd succ (recent cfg t) (fun b' => Nat.eqb b' b)) A) as ([u e] & Hin & Hg); [lia|].
    unfold gadd in Hg. simpl in Hg. destruct e as [|sc b' ts]; [discriminate|].
    apply andb_prop in Hg. destruct Hg as [Hg Hb']. apply andb_prop in Hg. destruct Hg as [_ Hr].
    apply Nat.eqb_eq in Hb'. subst b'.
    destruct (HK2 _ _ _ _ Hin eq_refl) as (bk2 & Hbk2 & Hts). rewrite Hb in Hbk2. injection Hbk2 as <-.
    unfold recent in Hr. rewrite <- Hts in Hr. congruence.
Qed.

Lemma fold_sum_log (succ : bool) : forall idl acc,
  NoDup idl -> (forall id, In id idl -> nth1 (b_buckets s) id <> None) ->
  (0 <= acc)%Z ->
  (acc + Z.of_nat (cntG succ (recent cfg t) (fun b' => memb b' idl) A) < 2 ^ 63)%Z ->
  fold_left (fun a rb => wrap64 (a + (if succ then rb_s rb else rb_f rb)))
            (filter (keep cfg t) (map (rb_at (b_buckets s)) idl)) acc =
  (acc + Z.of_nat (cntG succ (recent cfg t) (fun b' => memb b' idl) A))%Z.
Proof.
  induction idl as [|b r IH]; intros acc Hnd Hval Hacc Hlt.
  - simpl. unfold cntG. simpl.
    assert (E : filter (gadd succ (recent cfg t) (fun _ => false)) A = []).
    { clear. induction A as [|[u e] A' IH]; [reflexivity|]. simpl. unfold gadd at 1. simpl.
      destruct e; [exact IH|]. rewrite andb_false_r. exact IH. }
    change (fun b' : nat => memb b' []) with (fun _ : nat => false). rewrite E. simpl. lia.
  - inversion Hnd as [|? ? Hnin Hnd']; subst.
    destruct (nth1 (b_buckets s) b) as [bk|] eqn:Hb; [|exfalso; apply (Hval b); [left; reflexivity | exact Hb]].
    rewrite (cntG_cons succ (recent cfg t) b r Hnin) in Hlt |- *.
    rewrite (cntG_bucket succ b bk Hb) in Hlt |- *.
    assert (Erb : rb_at (b_buckets s) b = rb_of bk) by (unfold rb_at; rewrite Hb; reflexivity).
    cbn [map filter]. rewrite Erb. unfold keep at 1. cbn [rb_of rb_ts].
    fold (cut cfg t).
    assert (Hval' : forall id, In id r -> nth1 (b_buckets s) id <> None) by (intros id Hin; apply Hval; right; exact Hin).
    destruct (cut cfg t <=? bk_ts bk)%Z eqn:E.
    + apply Z.leb_le in E. replace (bk_ts bk <? cut cfg t)%Z with false by (symmetry; apply Z.ltb_ge; exact E).
      cbn [negb fold_left rb_s rb_f].
      assert (Ev : (if succ then bk_s bk else bk_f bk) = Z.of_nat (cntT succ b A)).
      { destruct (HK1 _ _ Hb) as [Es Ef]. destruct succ; assumption. }
      change (if succ then rb_s (rb_of bk) else rb_f (rb_of bk)) with (if succ then bk_s bk else bk_f bk).
      rewrite Ev. rewrite wrap64_small by lia.
      rewrite IH; [lia | exact Hnd' | exact Hval' | lia | lia].
    + apply Z.leb_gt in E. replace (bk_ts bk <? cut cfg t)%Z with true by (symmetry; apply Z.ltb_lt; exact E).
      cbn [negb]. rewrite IH; [lia | exact Hnd' | exact Hval' | lia | lia].
Qed.

Lemma sum_log idl :
  NoDup idl -> (forall id, In id idl -> nth1 (b_buckets s) id <> None) ->
  sum_s (filter (keep cfg t) (map (rb_at (b_buckets s)) idl)) =
    Z.of_nat (cntG true (recent cfg t) (fun b' => memb b' idl) A) /\
  sum_f (filter (keep cfg t) (map (rb_at (b_buckets s)) idl)) =
    Z.of_nat (cntG false (recent cfg t) (fun b' => memb b' idl) A).
Proof.
  intros Hnd Hval. unfold nowrap in Hnw.
  pose proof (cntG_le_nadd true (recent cfg t) (fun b' => memb b' idl) A).
  pose proof (cntG_le_nadd false (recent cfg t) (fun b' => memb b' idl) A).
  split.
  - unfold sum_s. rewrite (fold_sum_log true idl 0%Z Hnd Hval); lia.
  - unfold sum_f. rewrite (fold_sum_log false idl 0%Z Hnd Hval); lia.
Qed.
End SumLog.

(* [recent_adds_on cfg succ t idl L] (ConcUpper.v): logged add steps of outcome [succ] in [L]
   with a recent timestamp whose target is one of [idl] *)
Notation recent_adds_on := (ConcUpper.recent_adds_on cfg).

Theorem window_sum_log : forall ticks progs sched w x t,
  (Z.of_nat (length (concat progs)) < 2 ^ 62)%Z ->
  let c := final M (bcfg0 nl ticks progs) sched in
  let log := steps_of M (bcfg0 nl ticks progs) sched in
  nth1 (b_wins (c_sh c)) w = Some x ->
  roll_count (c_sh c) x t =
    (Z.of_nat (recent_adds_on true t (roll_ids x) log), Z.of_nat (recent_adds_on false t (roll_ids x) log)).
Proof.
  intros ticks progs sched w x t Hlen c log Hx.
  pose proof (J_reach cfg nl ticks progs sched Hlen) as HJ. cbv zeta in HJ. fold c log in HJ.
  destruct HJ as (H1 & H2 & _ & _).
  pose proof (window_invariant cfg nl ticks progs sched) as HW. fold c in HW.
  assert (Hnw : nowrap (alog log)).
  { unfold nowrap. pose proof (adds_le_ops cfg nl ticks progs sched). fold log in H. lia. }
  destruct (wok_of_WInv c w x HW Hx) as (_ & Hval & _).
  destruct (sum_log (alog log) (c_sh c) t H1 H2 Hnw (roll_ids x) (NoDup_roll_ids c w x HW Hx)) as [Es Ef].
  { intros id Hin. apply Hval. unfold roll_ids in Hin. apply in_app_or in Hin.
    destruct Hin as [Hin|[<-|[]]]; [right; exact Hin | left; reflexivity]. }
  unfold roll_count, roll_kept, recent_adds_on. rewrite Es, Ef. reflexivity.
Qed.

(** * (B) *)
Theorem quiescent_roll_exact : forall ticks progs sched r th o rest x cb,
  (Z.of_nat (length (concat progs)) < 2 ^ 62)%Z ->
  let c := final M (bcfg0 nl ticks progs) sched in
  let log := steps_of M (bcfg0 nl ticks progs) sched in
  (forall th', In th' (c_thr c) -> t_cur th' = None) ->            (* every call has returned *)
  nth_error (c_thr c) r = Some th -> t_dead th = false -> t_prog th = o :: rest ->
  (o = WSuccess \/ o = WFailure) ->
  nth1 (b_wins (c_sh c)) 1 = Some x -> nth1 (b_buckets (c_sh c)) (w_cur x) = Some cb ->
  let t := hd 0%Z (b_ticks (c_sh c)) in
  (bk_ts cb <= t)%Z -> (wrap64 (bk_ts cb + interval cfg) <= t)%Z ->   (* the reading makes it roll *)
  exists n c' S F,
    run M c (repeat r n) = (c', [EInv r o; ERet r o (BCount (Some (S, F)))]) /\
    (S, F) = roll_count (c_sh c) x t /\
    S = Z.of_nat (recent_adds_on true t (roll_ids x) log) /\
    F = Z.of_nat (recent_adds_on false t (roll_ids x) log).
Proof.
  intros ticks progs sched r th o rest x cb Hlen c log Hq Hn Hdead Hprog Ho Hx Hcb t Ht1 Ht2.
  assert (Hcur : t_cur th = None) by (apply Hq; eapply nth_error_In; exact Hn).
  destruct (quiescent_roll_returns ticks progs sched r th o rest x cb Hn Hdead Hcur Hprog Ho Hx Hcb Ht1 Ht2)
    as (n & c' & Hrun & _).
  pose proof (window_sum_log ticks progs sched 1 x t Hlen Hx) as E. fold c log in E.
  exists n, c', (fst (roll_count (c_sh c) x t)), (snd (roll_count (c_sh c) x t)).
  rewrite <- surjective_pairing. split; [exact Hrun|]. split; [reflexivity|].
  rewrite E. split; reflexivity.
Qed.

(* if every bucket whose timestamp lies inside the window is still in the reservoir or current
   (nothing inside the window has been trimmed, nothing lives in another window), the roll
   reports ALL the recent adds of the log: the bound of [count_upper_bound] is attained *)
Theorem quiescent_roll_exact_all : forall ticks progs sched r th o rest x cb,
  (Z.of_nat (length (concat progs)) < 2 ^ 62)%Z ->
  let c := final M (bcfg0 nl ticks progs) sched in
  let log := steps_of M (bcfg0 nl ticks progs) sched in
  (forall th', In th' (c_thr c) -> t_cur th' = None) ->
  nth_error (c_thr c) r = Some th -> t_dead th = false -> t_prog th = o :: rest ->
  (o = WSuccess \/ o = WFailure) ->
  nth1 (b_wins (c_sh c)) 1 = Some x -> nth1 (b_buckets (c_sh c)) (w_cur x) = Some cb ->
  let t := hd 0%Z (b_ticks (c_sh c)) in
  (bk_ts cb <= t)%Z -> (wrap64 (bk_ts cb + interval cfg) <= t)%Z ->
  (forall b bk, nth1 (b_buckets (c_sh c)) b = Some bk -> (cut cfg t <= bk_ts bk)%Z -> In b (roll_ids x)) ->
  exists n c',
    run M c (repeat r n) =
      (c', [EInv r o; ERet r o (BCount (Some (Z.of_nat (recent_adds cfg true t log),
                                               Z.of_nat (recent_adds cfg false t log))))]).
Proof.
  intros ticks progs sched r th o rest x cb Hlen c log Hq Hn Hdead Hprog Ho Hx Hcb t Ht1 Ht2 Hall.
  destruct (quiescent_roll_exact ticks progs sched r th o rest x cb Hlen Hq Hn Hdead Hprog Ho Hx Hcb Ht1 Ht2)
    as (n & c' & S & F & Hrun & _ & ES & EF).
  fold c log t in Hrun, ES, EF.
  pose proof (J_reach cfg nl ticks progs sched Hlen) as HJ. cbv zeta in HJ. fold c log in HJ.
  destruct HJ as (_ & H2 & _ & _).
  assert (E : forall succ, recent_adds_on succ t (roll_ids x) log = recent_adds cfg succ t log).
  { intros succ. unfold recent_adds_on, recent_adds, cntG. f_equal. apply filter_ext_in.
    intros [u e] Hin. unfold gadd. simpl. destruct e as [|sc b ts]; [reflexivity|].
    unfold anyb. destruct (Bool.eqb sc succ && recent cfg t ts) eqn:Eg; [|reflexivity].
    apply andb_prop in Eg. destruct Eg as [_ Er]. unfold recent in Er. apply Z.leb_le in Er.
    destruct (H2 _ _ _ _ Hin eq_refl) as (bk & Hbk & Hts). simpl. apply memb_In. apply (Hall b bk Hbk). lia. }
  exists n, c'. rewrite Hrun, ES, EF, !E. reflexivity.
Qed.

(** * Nothing is lost: where the recent adds of the log are at quiescence *)

(* every logged add with a timestamp inside the window is counted by the roll, or its bucket
   has been trimmed from the reservoir of window 1 by an earlier roll, or it belongs to the
   window of another CLOSED period of the breaker *)
Theorem quiescent_roll_accounting : forall ticks progs sched x e sc b ts,
  let c := final M (bcfg0 nl ticks progs) sched in
  (forall th', In th' (c_thr c) -> t_cur th' = None) ->
  nth1 (b_wins (c_sh c)) 1 = Some x ->
  In e (alog (steps_of M (bcfg0 nl ticks progs) sched)) -> snd e = AAdd sc b ts ->
  In b (roll_ids x) \/ In (b, false) (w_cells x) \/
  (exists w' x', w' <> 1 /\ nth1 (b_wins (c_sh c)) w' = Some x' /\
                 (b = w_cur x' \/ In b (map fst (w_cells x')))).
Proof.
  intros ticks progs sched x e sc b ts c Hq Hx Hin He.
  destruct (quiescent_adds_archived cfg nl ticks progs sched e sc b ts Hq Hin He) as (w' & x' & Hx' & Hb).
  fold c in Hx'. destruct (Nat.eq_dec w' 1) as [->|Hne].
  - rewrite Hx in Hx'. injection Hx' as <-. unfold roll_ids.
    destruct Hb as [->|Hb]; [left; apply in_or_app; right; left; reflexivity|].
    apply in_map_iff in Hb. destruct Hb as ([b' lv] & Eb & Hcell). simpl in Eb. subst b'.
    destruct lv; [left | right; left; exact Hcell].
    apply in_or_app. left. unfold live. apply in_map_iff. exists (b, true). split; [reflexivity|].
    apply filter_In. auto.
  - right. right. exists w', x'. auto.
Qed.

(* one window only (the breaker has not been re-closed) and no bucket inside the window has
   been trimmed: the roll reports ALL the recent adds of the log - every event of every
   reporter, including the losers of the roll CAS and the back-in-time reporters *)
Theorem quiescent_roll_exact_untrimmed : forall ticks progs sched r th o rest x cb,
  (Z.of_nat (length (concat progs)) < 2 ^ 62)%Z ->
  let c := final M (bcfg0 nl ticks progs) sched in
  let log := steps_of M (bcfg0 nl ticks progs) sched in
  (forall th', In th' (c_thr c) -> t_cur th' = None) ->
  nth_error (c_thr c) r = Some th -> t_dead th = false -> t_prog th = o :: rest ->
  (o = WSuccess \/ o = WFailure) ->
  nth1 (b_wins (c_sh c)) 1 = Some x -> nth1 (b_buckets (c_sh c)) (w_cur x) = Some cb ->
  let t := hd 0%Z (b_ticks (c_sh c)) in
  (bk_ts cb <= t)%Z -> (wrap64 (bk_ts cb + interval cfg) <= t)%Z ->
  length (b_wins (c_sh c)) = 1 ->
  (forall b bk, In (b, false) (w_cells x) -> nth1 (b_buckets (c_sh c)) b = Some bk ->
                (bk_ts bk < cut cfg t)%Z) ->
  exists n c',
    run M c (repeat r n) =
      (c', [EInv r o; ERet r o (BCount (Some (Z.of_nat (recent_adds cfg true t log),
                                               Z.of_nat (recent_adds cfg false t log))))]).
Proof.
  intros ticks progs sched r th o rest x cb Hlen c log Hq Hn Hdead Hprog Ho Hx Hcb t Ht1 Ht2 Hone Hdeadcells.
  destruct (quiescent_roll_exact ticks progs sched r th o rest x cb Hlen Hq Hn Hdead Hprog Ho Hx Hcb Ht1 Ht2)
    as (n & c' & S & F & Hrun & _ & ES & EF).
  fold c log t in Hrun, ES, EF.
  pose proof (J_reach cfg nl ticks progs sched Hlen) as HJ. cbv zeta in HJ. fold c log in HJ.
  destruct HJ as (_ & H2 & _ & _).
  assert (E : forall succ, recent_adds_on succ t (roll_ids x) log = recent_adds cfg succ t log).
  { intros succ. unfold recent_adds_on, recent_adds, cntG. f_equal. apply filter_ext_in.
    intros [u e] Hin. unfold gadd. simpl. destruct e as [|sc b ts]; [reflexivity|].
    unfold anyb. destruct (Bool.eqb sc succ && recent cfg t ts) eqn:Eg; [|reflexivity].
    apply andb_prop in Eg. destruct Eg as [_ Er]. unfold recent in Er. apply Z.leb_le in Er.
    simpl. apply memb_In.
    destruct (quiescent_roll_accounting ticks progs sched x (u, AAdd sc b ts) sc b ts Hq Hx Hin eq_refl)
      as [Hr|[Hd|(w' & x' & Hne & Hx' & _)]]; [exact Hr | exfalso | exfalso].
    - destruct (H2 _ _ _ _ Hin eq_refl) as (bk & Hbk & Hts).
      pose proof (Hdeadcells b bk Hd Hbk). lia.
    - fold c in Hx'. apply nth1_le in Hx'. lia. }
  exists n, c'. rewrite Hrun, ES, EF, !E. reflexivity.
Qed.

(** * The same through the breaker: OnSuccess / OnFailure on a CLOSED breaker *)

(* the callbacks a count (s, f) triggers: one [LCountUpdated] per listener *)
Definition count_callbacks (e : Z * Z) : list (nat * levent) :=
  each nl (fun i => [(i, LCountUpdated (fst e) (snd e))]).

Lemma breaker_roll_from_state s st x cb (succ : bool) :
  nth1 (b_states s) (b_cur s) = Some st -> st_kind st = KClosed ->
  wok s (st_win st) x -> nth1 (b_buckets s) (w_cur x) = Some cb ->
  let t := hd 0%Z (b_ticks s) in
  (t <? bk_ts cb)%Z = false -> (t <? wrap64 (bk_ts cb + interval cfg))%Z = false ->
  let o := if succ then OnSuccess else OnFailure in
  let e := roll_count s x t in
  exists s',
    completes cfg nl (BInv o) s BU s' /\
    if (negb succ && exceeds cfg (fst e) (snd e))%bool
    then b_log s' = b_log s ++ say_state nl KOpen /\
         exists st', nth1 (b_states s') (b_cur s') = Some st' /\ st_kind st' = KOpen
    else b_log s' = b_log s ++ count_callbacks e /\ b_cur s' = b_cur s /\ b_states s' = b_states s.
Proof.
  intros Hst Hk Hok Hcb t E1 E2 o e.
  set (k := if succ then WKSuccess else WKFailure (b_cur s)).
  destruct (roll_from_state s (st_win st) x cb succ k Hok Hcb E1 E2) as (l1 & s1 & s2 & Hr & Hd & Htk & Hlog & Hsts & Hcur).
  fold t e in Hd.
  assert (Hpre : reach cfg nl (BInv o) s (WTick (st_win st) succ k) s).
  { unfold o, k. destruct succ.
    - eapply reach_step; [reflexivity|]. eapply reach_step; [|apply reach_refl]. cbn. rewrite Hst, Hk. reflexivity.
    - eapply reach_step; [reflexivity|]. eapply reach_step; [|apply reach_refl]. cbn. rewrite Hst, Hk. reflexivity. }
  destruct (negb succ && exceeds cfg (fst e) (snd e))%bool eqn:Ex.
  - (* the failure trips the breaker *)
    apply andb_prop in Ex. destruct Ex as [Es Ex]. destruct succ; [discriminate Es|]. clear Es.
    unfold k in Hd. cbn [deliver] in Hd. rewrite Ex in Hd.
    destruct s2 as [sts2 c2 wins2 bks2 tks2 lg2]. cbn [b_log b_cur b_states b_ticks] in *. subst c2 lg2.
    destruct (trip_sim cfg nl sts2 (b_cur s) wins2 bks2 tks2 (b_log s) (Some e)) as (s' & Hc & HR).
    exists s'. split.
    + eapply reach_completes; [|exact Hc]. eapply reach_snoc; [eapply reach_trans; [exact Hpre | exact Hr] | exact Hd].
    + destruct HR as (Hl & _ & st' & Hst' & HRst). split; [exact Hl|]. exists st'. split; [exact Hst'|].
      simpl in HRst. tauto.
  - (* the count goes to the listeners *)
    exists (notify_count nl s2 e). split.
    + exists l1, s1. split; [eapply reach_trans; [exact Hpre | exact Hr]|].
      rewrite Hd. unfold k. destruct succ; cbn [deliver]; [reflexivity|].
      cbn [negb andb] in Ex. rewrite Ex. reflexivity.
    + unfold notify_count, with_log. cbn [b_log b_cur b_states]. rewrite Hlog. auto.
Qed.

Theorem quiescent_breaker_report : forall ticks progs sched r th o rest st x cb,
  (Z.of_nat (length (concat progs)) < 2 ^ 62)%Z ->
  let c := final M (bcfg0 nl ticks progs) sched in
  let log := steps_of M (bcfg0 nl ticks progs) sched in
  (forall th', In th' (c_thr c) -> t_cur th' = None) ->
  nth_error (c_thr c) r = Some th -> t_dead th = false -> t_prog th = o :: rest ->
  (o = OnSuccess \/ o = OnFailure) ->
  nth1 (b_states (c_sh c)) (b_cur (c_sh c)) = Some st -> st_kind st = KClosed ->
  nth1 (b_wins (c_sh c)) (st_win st) = Some x -> nth1 (b_buckets (c_sh c)) (w_cur x) = Some cb ->
  let t := hd 0%Z (b_ticks (c_sh c)) in
  (bk_ts cb <= t)%Z -> (wrap64 (bk_ts cb + interval cfg) <= t)%Z ->
  let S := Z.of_nat (recent_adds_on true t (roll_ids x) log) in
  let F := Z.of_nat (recent_adds_on false t (roll_ids x) log) in
  exists n c',
    run M c (repeat r n) = (c', [EInv r o; ERet r o BU]) /\
    match o with
    | OnFailure =>
        if exceeds cfg S F
        then b_log (c_sh c') = b_log (c_sh c) ++ say_state nl KOpen /\
             exists st', nth1 (b_states (c_sh c')) (b_cur (c_sh c')) = Some st' /\ st_kind st' = KOpen
        else b_log (c_sh c') = b_log (c_sh c) ++ count_callbacks (S, F) /\ b_cur (c_sh c') = b_cur (c_sh c)
    | _ => b_log (c_sh c') = b_log (c_sh c) ++ count_callbacks (S, F) /\ b_cur (c_sh c') = b_cur (c_sh c)
    end.
Proof.
  intros ticks progs sched r th o rest st x cb Hlen c log Hq Hn Hdead Hprog Ho Hst Hk Hx Hcb t Ht1 Ht2 S F.
  assert (Hcur : t_cur th = None) by (apply Hq; eapply nth_error_In; exact Hn).
  pose proof (window_invariant cfg nl ticks progs sched) as HW. fold c in HW.
  pose proof (wok_of_WInv c (st_win st) x HW Hx) as Hok.
  assert (E1 : (t <? bk_ts cb)%Z = false) by (apply Z.ltb_ge; exact Ht1).
  assert (E2 : (t <? wrap64 (bk_ts cb + interval cfg))%Z = false) by (apply Z.ltb_ge; exact Ht2).
  pose proof (window_sum_log ticks progs sched (st_win st) x t Hlen Hx) as E. fold c log S F in E.
  destruct Ho as [-> | ->].
  - destruct (breaker_roll_from_state (c_sh c) st x cb true Hst Hk Hok Hcb E1 E2) as (s' & Hc & Hres).
    fold t in Hres. rewrite E in Hres. cbn [negb andb fst snd] in Hres, Hc.
    destruct (solo_call_at OnSuccess (c_sh c) _ s' (c_thr c) r th rest Hc Hn Hdead Hcur Hprog) as (n & Hrun).
    exists n, (Config s' (upd (c_thr c) r (Thread rest tt None false))).
    split; [destruct c; exact Hrun|]. cbn [c_sh]. tauto.
  - destruct (breaker_roll_from_state (c_sh c) st x cb false Hst Hk Hok Hcb E1 E2) as (s' & Hc & Hres).
    fold t in Hres. rewrite E in Hres. cbn [negb andb fst snd] in Hres, Hc.
    destruct (solo_call_at OnFailure (c_sh c) _ s' (c_thr c) r th rest Hc Hn Hdead Hcur Hprog) as (n & Hrun).
    exists n, (Config s' (upd (c_thr c) r (Thread rest tt None false))).
    split; [destruct c; exact Hrun|]. cbn [c_sh].
    destruct (exceeds cfg S F); tauto.
Qed.

End Quiescent.

Print Assumptions quiescent_roll_returns.
Print Assumptions quiescent_roll_exact.
Print Assumptions quiescent_roll_exact_all.
Print Assumptions quiescent_roll_accounting.
Print Assumptions quiescent_roll_exact_untrimmed.
Print Assumptions quiescent_breaker_report.
