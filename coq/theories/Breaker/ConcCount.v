(** Concurrent safety of the circuit breaker, part 4 (T4, conservation): no
    report is lost or counted twice by the buckets.  The sum over ALL buckets of
    the success (resp. failure) counters equals, modulo 2^64, the number of
    [WAddInst]/[WAddCur]/[WAddNext] steps with [succ = true] (resp. [false])
    executed so far. *)
From Coq Require Import List Arith Bool ZArith Lia.
From Garr Require Import Conc.Conc Pure.F64 Pure.Config Breaker.BreakerModel Breaker.ConcBase.
Import ListNotations.
Local Open Scope Z_scope.

Lemma wrap64_add_r a b : wrap64 (a + wrap64 b) = wrap64 (a + b).
Proof.
  unfold wrap64. f_equal.
  replace (a + ((b + 2 ^ 63) mod 2 ^ 64 - 2 ^ 63) + 2 ^ 63) with (a + (b + 2 ^ 63) mod 2 ^ 64) by ring.
  rewrite Zplus_mod_idemp_r. f_equal. ring.
Qed.

(* the counter a report with outcome [succ] increments *)
Definition bk_of (succ : bool) (b : bucket) : Z := if succ then bk_s b else bk_f b.

Fixpoint sum_of (succ : bool) (bks : list bucket) : Z :=
  match bks with [] => 0 | b :: r => bk_of succ b + sum_of succ r end.

Lemma sum_of_snoc succ l x : sum_of succ (l ++ [x]) = sum_of succ l + bk_of succ x.
Proof. induction l as [|a l IH]; simpl; [ring|]. rewrite IH. ring. Qed.

Lemma sum_of_upd succ l i x x' :
  nth_error l i = Some x -> sum_of succ (upd l i x') = sum_of succ l - bk_of succ x + bk_of succ x'.
Proof.
  revert i; induction l as [|a l IH]; intros [|i] H; simpl in *; try discriminate.
  - injection H as ->. ring.
  - rewrite (IH _ H). ring.
Qed.

Lemma sum_of_upd1 succ l i x x' :
  nth1 l i = Some x -> sum_of succ (upd1 l i x') = sum_of succ l - bk_of succ x + bk_of succ x'.
Proof. destruct i as [|i]; [discriminate|]. apply sum_of_upd. Qed.

(* the step about to be taken from pc [l] in shared state [s] adds one report with outcome [succ] *)
Definition add_step (l : bpc) (s : bshared) (succ : bool) : bool :=
  match l with
  | WAddInst _ sc _ b | WAddCur sc _ b | WAddNext _ sc _ _ b _ =>
      Bool.eqb sc succ && match nth1 (b_buckets s) b with Some _ => true | None => false end
  | _ => false
  end.

Definition is_add (succ : bool) (x : bconfig * nat) : bool :=
  match nth_error (pcs (fst x)) (snd x) with
  | Some l => add_step l (c_sh (fst x)) succ
  | None => false
  end.

(* number of add steps with outcome [succ] among the steps taken *)
Definition nadds (succ : bool) (L : list (bconfig * nat)) : nat := length (filter (is_add succ) L).

Definition b2z (b : bool) : Z := if b then 1 else 0.

Section Count.
Variable cfg : cb_config.
Variable nl : nat.
Notation M := (breaker cfg nl).

Lemma stepc succ l s l' s' :
  pstep cfg nl l s = Some (l', s') ->
  wrap64 (sum_of succ (b_buckets s')) = wrap64 (sum_of succ (b_buckets s) + b2z (add_step l s succ)).
Proof.
  intros H.
  destruct l; unfold_step H; repeat break1 H; try discriminate H;
  injection H as <- <-; simpl;
  repeat match goal with E : nth1 _ _ = _ |- _ => rewrite E end;
  rewrite ?sum_of_snoc; simpl; rewrite ?Z.add_0_r; try reflexivity;
  try (erewrite sum_of_upd1 by eassumption);
  unfold bk_of; simpl;
  repeat (simpl; match goal with
          | |- context [if ?b then _ else _] => is_var b; destruct b
          | |- context [Bool.eqb ?b _] => is_var b; destruct b
          end);
  simpl; rewrite ?wrap64_add_r; f_equal; ring.
Qed.

Lemma add_step_same l0 l s succ : same l0 l -> add_step l0 s succ = add_step l s succ.
Proof. intros [->|[-> [o ->]]]; reflexivity. Qed.

Lemma step_count succ c t c' e :
  step_thread M c t = Some (c', e) ->
  wrap64 (sum_of succ (b_buckets (c_sh c'))) =
  wrap64 (sum_of succ (b_buckets (c_sh c)) + b2z (is_add succ (c, t))).
Proof.
  intros Hs. destruct (step_abs _ _ _ _ _ _ Hs) as (l0 & l & l' & Hn & Hsame & Hp & _).
  unfold is_add. simpl. rewrite Hn, (add_step_same _ _ _ _ Hsame). eapply stepc; eauto.
Qed.

Lemma wrap64_congr a b c : wrap64 a = wrap64 b -> wrap64 (a + c) = wrap64 (b + c).
Proof.
  intros H. rewrite (Z.add_comm a), (Z.add_comm b), <- (wrap64_add_r c a), <- (wrap64_add_r c b), H.
  reflexivity.
Qed.

Lemma count_run succ sched : forall c,
  wrap64 (sum_of succ (b_buckets (c_sh (final M c sched)))) =
  wrap64 (sum_of succ (b_buckets (c_sh c)) + Z.of_nat (nadds succ (steps_of M c sched))).
Proof.
  induction sched as [|t r IH]; intros c.
  - simpl. rewrite Z.add_0_r. reflexivity.
  - rewrite final_cons. cbn [steps_of]. unfold step_cfg.
    destruct (step_thread M c t) as [[c' e]|] eqn:E; [|apply IH].
    rewrite IH. unfold nadds. cbn [filter].
    pose proof (step_count succ _ _ _ _ E) as Hc.
    apply (wrap64_congr _ _ (Z.of_nat (length (filter (is_add succ) (steps_of M c' r))))) in Hc.
    rewrite Hc. f_equal.
    destruct (is_add succ (c, t)); cbn [b2z length]; lia.
Qed.

Lemma sum_init succ ticks : sum_of succ (b_buckets (binit nl ticks)) = 0.
Proof.
  unfold binit, take_tick. destruct ticks as [|t1 [|t2 r]]; simpl; destruct succ; reflexivity.
Qed.

(** T4 (conservation): modulo 2^64, the success (failure) counters of all buckets
    add up to the number of success (failure) add steps executed *)
Theorem bucket_conservation : forall succ ticks progs sched,
  wrap64 (sum_of succ (b_buckets (c_sh (final M (bcfg0 nl ticks progs) sched)))) =
  wrap64 (Z.of_nat (nadds succ (steps_of M (bcfg0 nl ticks progs) sched))).
Proof.
  intros succ ticks progs sched. rewrite count_run. unfold bcfg0 at 1, init. cbn [c_sh].
  rewrite sum_init. reflexivity.
Qed.

End Count.

Print Assumptions bucket_conservation.
