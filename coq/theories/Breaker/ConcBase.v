(** Concurrent safety of the circuit-breaker step machine: common ground.

    - [steps_of], [cas_succeeds], [bcfg0] (the vocabulary of the theorems);
    - an abstraction of configurations to (shared state, list of program
      counters) and of [step_thread] to [pstep], so that every invariant is a
      predicate [bshared -> list bpc -> Prop] and every preservation proof is a
      statement about ONE [bstep];
    - list / counting lemmas used by the invariants. *)
From Coq Require Import List Arith Bool ZArith Lia.
From Garr Require Import Conc.Conc Pure.F64 Pure.Config Breaker.BreakerModel.
Import ListNotations.

Arguments wrap64 : simpl never.

(* every step actually taken: (configuration before the step, thread that stepped) *)
Fixpoint steps_of {sh ts lo op ret} (M : machine sh ts lo op ret) (c : config sh ts lo op) (sched : list nat)
  : list (config sh ts lo op * nat) :=
  match sched with
  | [] => []
  | t :: s => match step_thread M c t with
              | Some (c', _) => (c, t) :: steps_of M c' s
              | None => steps_of M c s
              end
  end.

(* thread t of c is about to execute a state-pointer CAS expecting cs, and it will succeed *)
Definition cas_succeeds (c : config bshared unit bpc bop) (t cs : nat) : Prop :=
  exists th o l, nth_error (c_thr c) t = Some th /\ t_dead th = false /\ t_cur th = Some (o, l) /\
    (match l with CRCas cs' _ | OSCas cs' _ | OFCas cs' _ _ => cs' = cs | _ => False end) /\
    b_cur (c_sh c) = cs.

Definition bcfg0 nl ticks (progs : list (list bop)) := init bpc (binit nl ticks) tt progs.

Notation bconfig := (config bshared unit bpc bop).
Notation bthread := (thread unit bpc bop).

(** ** [steps_of] versus [final] *)
Section StepsOf.
Context {sh ts lo op ret : Type}.
Variable M : machine sh ts lo op ret.

Lemma step_cfg_some c t c' e : step_thread M c t = Some (c', e) -> step_cfg M c t = c'.
Proof. intros H. unfold step_cfg. rewrite H. reflexivity. Qed.

Lemma step_cfg_none c t : step_thread M c t = None -> step_cfg M c t = c.
Proof. intros H. unfold step_cfg. rewrite H. reflexivity. Qed.

(* the i-th step taken starts from a reachable configuration, is enabled, and
   everything after it is the list of steps of the successor *)
Lemma steps_of_split c sched i ci ti :
  nth_error (steps_of M c sched) i = Some (ci, ti) ->
  exists s1 s2 ci' e,
    ci = final M c s1 /\ step_thread M ci ti = Some (ci', e) /\
    skipn (S i) (steps_of M c sched) = steps_of M ci' s2.
Proof.
  revert c i. induction sched as [|t s IH]; intros c i H.
  - destruct i; discriminate.
  - cbn [steps_of] in *. destruct (step_thread M c t) as [[c' e]|] eqn:E.
    + destruct i as [|i].
      * injection H as <- <-. exists [], s, c', e. repeat split; auto.
      * cbn [nth_error] in H. destruct (IH _ _ H) as (s1 & s2 & ci' & e' & H1 & H2 & H3).
        exists (t :: s1), s2, ci', e'. rewrite final_cons, (step_cfg_some _ _ _ _ E).
        repeat split; auto.
    + destruct (IH _ _ H) as (s1 & s2 & ci' & e' & H1 & H2 & H3).
      exists (t :: s1), s2, ci', e'. rewrite final_cons, (step_cfg_none _ _ E). auto.
Qed.

Lemma steps_of_reach c sched j cj tj :
  nth_error (steps_of M c sched) j = Some (cj, tj) -> exists s1, cj = final M c s1.
Proof.
  intros H. destruct (steps_of_split _ _ _ _ _ H) as (s1 & _ & _ & _ & H1 & _). eauto.
Qed.

Lemma nth_error_skipn {A} (l : list A) n k : nth_error (skipn n l) k = nth_error l (n + k).
Proof.
  revert l; induction n as [|n IH]; intros l; simpl; [reflexivity|].
  destruct l; simpl; [destruct k; reflexivity|apply IH].
Qed.

(* a later step starts from a configuration reached from the successor of an earlier one *)
Lemma steps_of_later c sched i j ci ti cj tj :
  nth_error (steps_of M c sched) i = Some (ci, ti) ->
  nth_error (steps_of M c sched) j = Some (cj, tj) -> i < j ->
  exists s1 ci' e s3, ci = final M c s1 /\ step_thread M ci ti = Some (ci', e) /\ cj = final M ci' s3.
Proof.
  intros Hi Hj Hlt.
  destruct (steps_of_split _ _ _ _ _ Hi) as (s1 & s2 & ci' & e & H1 & H2 & H3).
  assert (Hj' : nth_error (steps_of M ci' s2) (j - S i) = Some (cj, tj)).
  { rewrite <- H3, nth_error_skipn. replace (S i + (j - S i)) with j by lia. exact Hj. }
  destruct (steps_of_reach _ _ _ _ _ Hj') as [s3 H4].
  exists s1, ci', e, s3. auto.
Qed.
End StepsOf.

(** ** Generic list facts *)
Lemma map_upd {A B} (f : A -> B) l i x : map f (upd l i x) = upd (map f l) i (f x).
Proof. revert i; induction l as [|a l IH]; intros [|i]; simpl; auto. rewrite IH. reflexivity. Qed.

Lemma Forall_upd {A} (P : A -> Prop) l i x : Forall P l -> P x -> Forall P (upd l i x).
Proof.
  intros H Hx. revert i; induction H as [|a l Ha Hl IH]; intros [|i]; simpl; auto.
Qed.

Lemma Forall_nth_error {A} (P : A -> Prop) l i x : Forall P l -> nth_error l i = Some x -> P x.
Proof. intros H Hn. rewrite Forall_forall in H. apply H. eapply nth_error_In; eauto. Qed.

Lemma nth1_app {A} (l l' : list A) i x : nth1 l i = Some x -> nth1 (l ++ l') i = Some x.
Proof.
  destruct i as [|j]; simpl; [discriminate|]. intros H.
  rewrite nth_error_app1; [exact H|]. apply nth_error_Some. congruence.
Qed.

Lemma nth1_le {A} (l : list A) i x : nth1 l i = Some x -> 1 <= i <= length l.
Proof.
  destruct i as [|j]; simpl; [discriminate|]. intros H.
  assert (j < length l) by (apply nth_error_Some; congruence). lia.
Qed.

Lemma nth1_new {A} (l : list A) x : nth1 (l ++ [x]) (S (length l)) = Some x.
Proof. simpl. rewrite nth_error_app2 by lia. rewrite Nat.sub_diag. reflexivity. Qed.

Lemma nth1_app_inv {A} (l : list A) x i y :
  nth1 (l ++ [x]) i = Some y -> nth1 l i = Some y \/ (i = S (length l) /\ y = x).
Proof.
  destruct i as [|j]; simpl; [discriminate|]. intros H.
  destruct (Nat.lt_ge_cases j (length l)) as [Hl|Hl].
  - rewrite nth_error_app1 in H by assumption. auto.
  - rewrite nth_error_app2 in H by assumption.
    destruct (j - length l) as [|k] eqn:E; simpl in H.
    + right. split; [lia|congruence].
    + destruct k; discriminate.
Qed.

Lemma nth1_upd1 {A} (l : list A) i j x :
  nth1 (upd1 l i x) j = if Nat.eqb i j then (match nth1 l i with Some _ => Some x | None => None end) else nth1 l j.
Proof.
  destruct i as [|i], j as [|j]; simpl; try reflexivity.
  apply nth_error_upd.
Qed.

Lemma upd1_length {A} (l : list A) i x : length (upd1 l i x) = length l.
Proof. destruct i; simpl; [reflexivity|apply upd_length]. Qed.

(** ** Abstraction: program counters and abstract steps *)
Definition idle : bpc := BInv CanRequest.

Definition pc_of (th : bthread) : bpc :=
  match t_cur th with Some (_, l) => l | None => idle end.

Definition pcs (c : bconfig) : list bpc := map pc_of (c_thr c).

(* the thread's stored pc [l0] versus the pc [l] it steps from: a thread between
   two calls is stored as [idle] and steps from [BInv o] *)
Definition same (l0 l : bpc) : Prop := l0 = l \/ (l0 = idle /\ exists o, l = BInv o).

Section Abs.
Variable cfg : cb_config.
Variable nl : nat.

Definition pstep (l : bpc) (s : bshared) : option (bpc * bshared) :=
  match bstep cfg nl l s with
  | Next l' s' => Some (l', s')
  | Done _ _ s' => Some (idle, s')
  | Fault => Some (idle, s)
  | Blocked => None
  end.

Lemma step_abs c t c' e :
  step_thread (breaker cfg nl) c t = Some (c', e) ->
  exists l0 l l', nth_error (pcs c) t = Some l0 /\ same l0 l /\
    pstep l (c_sh c) = Some (l', c_sh c') /\ pcs c' = upd (pcs c) t l'.
Proof.
  unfold step_thread. destruct (nth_error (c_thr c) t) as [th|] eqn:Hn; [|discriminate].
  unfold view. destruct (t_dead th); [discriminate|].
  assert (Hp : nth_error (pcs c) t = Some (pc_of th)).
  { unfold pcs. rewrite nth_error_map, Hn. reflexivity. }
  destruct (t_cur th) as [[o l]|] eqn:Hcur.
  - assert (Hpc : pc_of th = l) by (unfold pc_of; rewrite Hcur; reflexivity).
    simpl. unfold pstep.
    destruct (bstep cfg nl l (c_sh c)) as [l' s'|r u s'| |] eqn:Hs; intros H; try discriminate;
      injection H as Hc He; subst c'; eexists _, l, _; (split; [exact Hp|]); (split; [left; exact Hpc|]);
      rewrite Hs; (split; [reflexivity|]); unfold pcs; simpl; rewrite map_upd; reflexivity.
  - assert (Hpc : pc_of th = idle) by (unfold pc_of; rewrite Hcur; reflexivity).
    destruct (t_prog th) as [|o rest]; [discriminate|].
    change (m_start (breaker cfg nl) (t_ts th) o) with (BInv o).
    remember (BInv o) as l eqn:Hl. simpl. unfold pstep.
    destruct (bstep cfg nl l (c_sh c)) as [l' s'|r u s'| |] eqn:Hs; intros H; try discriminate;
      injection H as Hc He; subst c'; eexists _, l, _; (split; [exact Hp|]);
      (split; [right; split; [exact Hpc|eexists; exact Hl]|]);
      rewrite Hs; (split; [reflexivity|]); unfold pcs; simpl; rewrite map_upd; reflexivity.
Qed.

(* an abstract invariant preserved by abstract steps holds in every reachable configuration *)
Lemma abs_invariant (I : bshared -> list bpc -> Prop) ticks progs :
  I (binit nl ticks) (map (fun _ => idle) progs) ->
  (forall s ps t l0 l l' s', I s ps -> nth_error ps t = Some l0 -> same l0 l ->
      pstep l s = Some (l', s') -> I s' (upd ps t l')) ->
  forall sched, let c := final (breaker cfg nl) (bcfg0 nl ticks progs) sched in I (c_sh c) (pcs c).
Proof.
  intros H0 Hstep sched.
  apply (invariant_run (breaker cfg nl) (fun c => I (c_sh c) (pcs c))).
  - unfold bcfg0, init, pcs; simpl. rewrite map_map. exact H0.
  - intros c t c' e HI Hs. destruct (step_abs _ _ _ _ Hs) as (l0 & l & l' & Hn & Hsame & Hp & Hpcs).
    rewrite Hpcs. eapply Hstep; eauto.
Qed.

End Abs.

Lemma pcs_In c th o l : In th (c_thr c) -> t_cur th = Some (o, l) -> In l (pcs c).
Proof.
  intros Hin Hcur. unfold pcs. apply in_map_iff. exists th. split; [|exact Hin].
  unfold pc_of. rewrite Hcur. reflexivity.
Qed.

Lemma pcs_nth c t th o l :
  nth_error (c_thr c) t = Some th -> t_cur th = Some (o, l) -> nth_error (pcs c) t = Some l.
Proof.
  intros Hn Hcur. unfold pcs. rewrite nth_error_map, Hn. simpl. unfold pc_of. rewrite Hcur. reflexivity.
Qed.

(** ** Counting occurrences (resource accounting) *)
Definition eqn (a b : nat) : nat := if Nat.eqb a b then 1 else 0.

Fixpoint cnt (l : list nat) (x : nat) : nat :=
  match l with
  | [] => 0
  | a :: r => eqn a x + cnt r x
  end.

Lemma cnt_app l1 l2 x : cnt (l1 ++ l2) x = cnt l1 x + cnt l2 x.
Proof. induction l1 as [|a l IH]; simpl; [reflexivity|]. rewrite IH. lia. Qed.

Lemma cnt_In l x : In x l <-> 1 <= cnt l x.
Proof.
  induction l as [|a l IH]; simpl; [split; [tauto|lia]|]. unfold eqn.
  destruct (Nat.eqb_spec a x) as [->|Hne]; split; intros H; try lia; auto.
  - destruct H as [H|H]; [congruence|]. apply IH in H. lia.
  - right. apply IH. lia.
Qed.

Lemma cnt_NoDup l : (forall x, cnt l x <= 1) -> NoDup l.
Proof.
  induction l as [|a l IH]; intros H; constructor.
  - intros Hin. apply cnt_In in Hin. specialize (H a). simpl in H. unfold eqn in H. rewrite Nat.eqb_refl in H. lia.
  - apply IH. intros x. specialize (H x). simpl in H. lia.
Qed.

Section FlatCnt.
Context {A : Type}.
Variable f : A -> list nat.

Definition fcnt (l : list A) (x : nat) : nat := cnt (flat_map f l) x.

Lemma fcnt_cons a l x : fcnt (a :: l) x = cnt (f a) x + fcnt l x.
Proof. unfold fcnt; simpl. apply cnt_app. Qed.

Lemma fcnt_snoc l a x : fcnt (l ++ [a]) x = fcnt l x + cnt (f a) x.
Proof.
  unfold fcnt. rewrite flat_map_app, cnt_app. simpl. rewrite app_nil_r. reflexivity.
Qed.

Lemma fcnt_upd l i a a' x :
  nth_error l i = Some a -> fcnt (upd l i a') x + cnt (f a) x = fcnt l x + cnt (f a') x.
Proof.
  revert i; induction l as [|b l IH]; intros i H.
  - destruct i; discriminate.
  - destruct i as [|i]; simpl in *.
    + injection H as ->. rewrite !fcnt_cons. lia.
    + rewrite !fcnt_cons. specialize (IH _ H). lia.
Qed.

Lemma fcnt_ge l i a x : nth_error l i = Some a -> cnt (f a) x <= fcnt l x.
Proof.
  revert i; induction l as [|b l IH]; intros i H.
  - destruct i; discriminate.
  - rewrite fcnt_cons. destruct i as [|i]; simpl in *.
    + injection H as ->. lia.
    + specialize (IH _ H). lia.
Qed.

Lemma fcnt_ge2 l i j a b x :
  nth_error l i = Some a -> nth_error l j = Some b -> i <> j ->
  cnt (f a) x + cnt (f b) x <= fcnt l x.
Proof.
  revert i j; induction l as [|c l IH]; intros i j Hi Hj Hne.
  - destruct i; discriminate.
  - rewrite fcnt_cons. destruct i as [|i], j as [|j]; simpl in *; try congruence.
    + injection Hi as ->. pose proof (fcnt_ge _ _ _ x Hj). lia.
    + injection Hj as ->. pose proof (fcnt_ge _ _ _ x Hi). lia.
    + assert (i <> j) by congruence. specialize (IH _ _ Hi Hj H). lia.
Qed.

Lemma fcnt_In l x : 1 <= fcnt l x -> exists i a, nth_error l i = Some a /\ 1 <= cnt (f a) x.
Proof.
  induction l as [|b l IH]; unfold fcnt; simpl; [lia|].
  rewrite cnt_app. intros H.
  destruct (Nat.le_gt_cases 1 (cnt (f b) x)) as [Hb|Hb].
  - exists 0, b. auto.
  - destruct IH as (i & a & Hi & Ha); [unfold fcnt; lia|]. exists (S i), a. auto.
Qed.
End FlatCnt.

Lemma fcnt_upd1 {A} (f : A -> list nat) l i a a' x :
  nth1 l i = Some a -> fcnt f (upd1 l i a') x + cnt (f a) x = fcnt f l x + cnt (f a') x.
Proof. destruct i as [|i]; simpl; [discriminate|]. apply fcnt_upd. Qed.

Lemma fcnt_ge1 {A} (f : A -> list nat) l i a x : nth1 l i = Some a -> cnt (f a) x <= fcnt f l x.
Proof. destruct i as [|i]; simpl; [discriminate|]. apply fcnt_ge. Qed.

Lemma fcnt_ge21 {A} (f : A -> list nat) l i j a b x :
  nth1 l i = Some a -> nth1 l j = Some b -> i <> j -> cnt (f a) x + cnt (f b) x <= fcnt f l x.
Proof.
  destruct i as [|i], j as [|j]; simpl; try discriminate. intros Hi Hj Hne.
  eapply fcnt_ge2; eauto.
Qed.

Arguments nth1 : simpl never.
Arguments upd1 : simpl never.

(** ** Tactics shared by the invariant proofs *)
(** generic case-splitting on the [match]es of a hypothesis, innermost scrutinee first *)
Ltac find_inner x k :=
  lazymatch x with
  | context [match ?y with _ => _ end] => find_inner y k
  | _ => k x
  end.
Ltac break1 H :=
  match type of H with
  | context [match ?x with _ => _ end] => find_inner x ltac:(fun y => destruct y eqn:?; cbv beta iota in H)
  end.
Ltac eqb_clean :=
  repeat match goal with
  | H : Nat.eqb _ _ = true |- _ => apply Nat.eqb_eq in H
  | H : Nat.eqb _ _ = false |- _ => apply Nat.eqb_neq in H
  | H : Z.ltb _ _ = true |- _ => apply Z.ltb_lt in H
  | H : Z.ltb _ _ = false |- _ => apply Z.ltb_ge in H
  | H : Z.leb _ _ = true |- _ => apply Z.leb_le in H
  | H : Z.leb _ _ = false |- _ => apply Z.leb_gt in H
  end.

Ltac unfold_step H :=
  unfold pstep in H;
  unfold bstep in H; unfold reject, deliver in H;
  unfold goto, fin, take_tick, new_state, new_bucket, new_window,
    notify_state, notify_count, notify_rejected, with_log, set_cur, set_win, set_bucket,
    bucket_add, offer in H; simpl in H.

Ltac destr_hyps :=
  repeat match goal with
  | H : _ /\ _ |- _ => destruct H
  | H : exists _, _ |- _ => destruct H
  end.

Ltac dedup :=
  repeat match goal with
  | H1 : ?a = Some ?x, H2 : ?a = Some ?y |- _ =>
      let E := fresh in assert (E : y = x) by congruence; subst y; clear H2
  end.


Lemma upd_same {A} (l : list A) i x : nth_error l i = Some x -> upd l i x = l.
Proof.
  revert i; induction l as [|a l IH]; intros [|i] H; simpl in *; try discriminate.
  - congruence.
  - rewrite IH by assumption. reflexivity.
Qed.

Lemma map_fst_kill cells c : map fst (kill cells c) = map fst cells.
Proof.
  unfold kill. destruct (nth_error cells c) as [[b live]|] eqn:E; [|reflexivity].
  rewrite map_upd. apply upd_same. rewrite nth_error_map, E. reflexivity.
Qed.

Arguments fcnt : simpl never.
Arguments eqn : simpl never.

Ltac eqn_lia :=
  unfold eqn in *;
  repeat match goal with
  | |- context [Nat.eqb ?a ?b] => destruct (Nat.eqb_spec a b)
  | H : context [Nat.eqb ?a ?b] |- _ => destruct (Nat.eqb_spec a b)
  end; try lia.
