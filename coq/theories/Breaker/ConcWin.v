(** Concurrent safety of the circuit breaker, part 2 (T4): the sliding window.
    No bucket is ever counted twice: every bucket id occurs at most once among
    (current buckets of all windows) + (reservoir cells of all windows) +
    (buckets held in the registers of threads that are about to offer/install
    them).  Proved by resource accounting: every step conserves the number of
    occurrences of every bucket id, except that it may create one fresh id. *)
From Coq Require Import List Arith Bool ZArith Lia.
From Garr Require Import Conc.Conc Pure.F64 Pure.Config Breaker.BreakerModel Breaker.ConcBase.
Import ListNotations.

(* the buckets of a window: the current one and the reservoir, in offer order *)
Definition wb (x : swindow) : list nat := w_cur x :: map fst (w_cells x).

(* the bucket a thread holds privately: created or un-published by it, not yet offered *)
Definition held (l : bpc) : list nat :=
  match l with
  | WAddInst _ _ _ b | WOfferInst _ _ b | OSSnap _ b => [b]
  | WAddNext _ _ _ _ nb _ | WCasCur _ _ _ nb _ | WOfferNext _ _ nb => [nb]
  | WOfferOld _ _ cb _ => [cb]
  | _ => []
  end.

Definition cw (s : bshared) (b : nat) : nat := fcnt wb (b_wins s) b.
Definition ch (ps : list bpc) (b : nat) : nat := fcnt held ps b.

(* generic resource argument: a step that conserves occurrences, except for at
   most one occurrence of the brand-new id [S len], preserves
   "every id occurs at most once and every occurring id is allocated" *)
Lemma res_preserved (dom : nat -> Prop) (tot tot' : nat -> nat) (len len' : nat) :
  (forall x, dom x -> tot x <= 1 /\ (1 <= tot x -> 1 <= x <= len)) ->
  len <= len' <= S len ->
  (forall x, dom x -> tot' x <= tot x + eqn x (S len) * (len' - len)) ->
  forall x, dom x -> tot' x <= 1 /\ (1 <= tot' x -> 1 <= x <= len').
Proof.
  intros H Hl Hd x Hx. specialize (H x Hx). specialize (Hd x Hx).
  unfold eqn in Hd. destruct (Nat.eqb_spec x (S len)) as [->|Hne]; lia.
Qed.

Section Inv4.
Variable cfg : cb_config.
Variable nl : nat.

Ltac t_cw :=
  intros ?b; unfold cw; simpl;
  repeat match goal with
  | H : nth1 ?l ?w = Some ?x |- context [fcnt wb (upd1 ?l ?w ?x') ?b] =>
      let E := fresh "E" in
      pose proof (fcnt_upd1 wb l w x x' b H) as E;
      generalize dependent (fcnt wb (upd1 l w x') b); intros
  end;
  rewrite ?fcnt_snoc; unfold wb in *; simpl in *;
  rewrite ?map_fst_kill, ?map_app, ?cnt_app in *; simpl in *;
  eqn_lia.

(* conservation of bucket occurrences by one step of one thread *)
Lemma step4 l s l' s' :
  pstep cfg nl l s = Some (l', s') ->
  length (b_buckets s) <= length (b_buckets s') <= S (length (b_buckets s)) /\
  forall b, cw s' b + cnt (held l') b <=
            cw s b + cnt (held l) b +
            eqn b (S (length (b_buckets s))) * (length (b_buckets s') - length (b_buckets s)).
Proof.
  intros H.
  destruct l; unfold_step H; repeat break1 H; try discriminate H;
  injection H as <- <-; eqb_clean; subst;
  (split; [simpl; rewrite ?upd1_length, ?app_length; simpl; lia|]);
  simpl length; rewrite ?upd1_length, ?app_length; simpl length;
  solve [t_cw].
Qed.

Definition Inv4 (s : bshared) (ps : list bpc) : Prop :=
  forall b, cw s b + ch ps b <= 1 /\ (1 <= cw s b + ch ps b -> 1 <= b <= length (b_buckets s)).

Lemma held_same l0 l : same l0 l -> held l0 = held l.
Proof. intros [->|[-> [o ->]]]; reflexivity. Qed.

Lemma Inv4_step s ps t l0 l l' s' :
  Inv4 s ps -> nth_error ps t = Some l0 -> same l0 l -> pstep cfg nl l s = Some (l', s') ->
  Inv4 s' (upd ps t l').
Proof.
  intros HI Hn Hsame Hp. destruct (step4 _ _ _ _ Hp) as [Hlen Hc].
  unfold Inv4. intros b0.
  apply (res_preserved (fun _ => True) (fun b => cw s b + ch ps b) (fun b => cw s' b + ch (upd ps t l') b)
           (length (b_buckets s)) (length (b_buckets s'))); auto.
  intros b _. specialize (Hc b). unfold ch.
  pose proof (fcnt_upd held ps t l0 l' b Hn) as E. rewrite (held_same _ _ Hsame) in E. lia.
Qed.

Lemma ch_idle {A} (progs : list A) b : ch (map (fun _ => idle) progs) b = 0.
Proof. unfold ch. induction progs as [|p r IH]; [reflexivity|]. simpl map. rewrite fcnt_cons, IH. reflexivity. Qed.

Lemma Inv4_init ticks (progs : list (list bop)) : Inv4 (binit nl ticks) (map (fun _ => idle) progs).
Proof.
  intros b. rewrite ch_idle. unfold binit, take_tick.
  destruct ticks as [|t1 [|t2 r]]; simpl; unfold cw; simpl;
    change [Window 1 [] (0%Z, 0%Z)] with ([] ++ [Window 1 [] (0%Z, 0%Z)]);
    rewrite fcnt_snoc; unfold fcnt; simpl; eqn_lia.
Qed.

Notation M := (breaker cfg nl).

Lemma Inv4_reach ticks progs sched :
  let c := final M (bcfg0 nl ticks progs) sched in Inv4 (c_sh c) (pcs c).
Proof.
  apply (abs_invariant cfg nl Inv4).
  - apply Inv4_init.
  - intros s ps t l0 l l' s' HI Hn Hs Hp. eapply Inv4_step; eauto.
Qed.

(** *** consequences of the accounting invariant *)
Section Conseq.
Variables (s : bshared) (ps : list bpc).
Hypothesis HI : Inv4 s ps.

Lemma in_wb_cnt x b : In b (wb x) -> 1 <= cnt (wb x) b.
Proof. apply cnt_In. Qed.

Lemma I4_win_nodup w x : nth1 (b_wins s) w = Some x -> NoDup (wb x).
Proof.
  intros Hw. apply cnt_NoDup. intros b. destruct (HI b) as [H _].
  pose proof (fcnt_ge1 wb _ _ _ b Hw) as Gw. unfold cw in H. lia.
Qed.

Lemma I4_win_valid w x b :
  nth1 (b_wins s) w = Some x -> In b (wb x) -> 1 <= b <= length (b_buckets s).
Proof.
  intros Hw Hb. apply cnt_In in Hb. destruct (HI b) as [_ H]. apply H.
  pose proof (fcnt_ge1 wb _ _ _ b Hw) as Gw. unfold cw. lia.
Qed.

Lemma I4_win_disj w1 w2 x1 x2 b :
  nth1 (b_wins s) w1 = Some x1 -> nth1 (b_wins s) w2 = Some x2 ->
  In b (wb x1) -> In b (wb x2) -> w1 = w2.
Proof.
  intros H1 H2 B1 B2. apply cnt_In in B1. apply cnt_In in B2.
  destruct (Nat.eq_dec w1 w2) as [E|Hne]; [exact E|exfalso].
  pose proof (fcnt_ge21 wb _ _ _ _ _ b H1 H2 Hne) as G2. destruct (HI b) as [H _]. unfold cw in H. lia.
Qed.

Lemma I4_held_valid t l b :
  nth_error ps t = Some l -> In b (held l) -> 1 <= b <= length (b_buckets s).
Proof.
  intros Ht Hb. apply cnt_In in Hb. destruct (HI b) as [_ H]. apply H.
  pose proof (fcnt_ge held _ _ _ b Ht) as Gh. unfold ch. lia.
Qed.

Lemma I4_held_fresh t l b w x :
  nth_error ps t = Some l -> In b (held l) -> nth1 (b_wins s) w = Some x -> ~ In b (wb x).
Proof.
  intros Ht Hb Hw Hin. apply cnt_In in Hb. apply cnt_In in Hin. destruct (HI b) as [H _].
  pose proof (fcnt_ge held _ _ _ b Ht) as Gh. pose proof (fcnt_ge1 wb _ _ _ b Hw) as Gw. unfold cw, ch in H. lia.
Qed.

Lemma I4_held_distinct t1 t2 l1 l2 b :
  nth_error ps t1 = Some l1 -> nth_error ps t2 = Some l2 ->
  In b (held l1) -> In b (held l2) -> t1 = t2.
Proof.
  intros H1 H2 B1 B2. apply cnt_In in B1. apply cnt_In in B2.
  destruct (Nat.eq_dec t1 t2) as [E|Hne]; [exact E|exfalso].
  pose proof (fcnt_ge2 held _ _ _ _ _ b H1 H2 Hne) as G2. destruct (HI b) as [H _]. unfold ch in H. lia.
Qed.
End Conseq.

(** *** T4 *)
Definition thread_at (c : bconfig) (t : nat) (l : bpc) : Prop :=
  exists th o, nth_error (c_thr c) t = Some th /\ t_cur th = Some (o, l).

Record WInv (c : bconfig) : Prop := {
  (* no bucket occurs twice in the reservoir of a window *)
  wi_nodup : forall w x, nth1 (b_wins (c_sh c)) w = Some x -> NoDup (map fst (w_cells x));
  (* the current bucket has not been archived *)
  wi_cur : forall w x, nth1 (b_wins (c_sh c)) w = Some x -> ~ In (w_cur x) (map fst (w_cells x));
  (* every bucket id of a window (current or archived) is allocated *)
  wi_valid : forall w x b, nth1 (b_wins (c_sh c)) w = Some x ->
      b = w_cur x \/ In b (map fst (w_cells x)) -> 1 <= b <= length (b_buckets (c_sh c));
  (* no bucket belongs to two different windows *)
  wi_disj : forall w1 w2 x1 x2 b,
      nth1 (b_wins (c_sh c)) w1 = Some x1 -> nth1 (b_wins (c_sh c)) w2 = Some x2 ->
      b = w_cur x1 \/ In b (map fst (w_cells x1)) -> b = w_cur x2 \/ In b (map fst (w_cells x2)) -> w1 = w2;
  (* a bucket held by a thread about to add to / install / offer it is allocated, is in
     no reservoir and current in no window, and is held by that thread only *)
  wi_held_valid : forall t l b, thread_at c t l -> In b (held l) -> 1 <= b <= length (b_buckets (c_sh c));
  wi_held : forall t l b w x, thread_at c t l -> In b (held l) ->
      nth1 (b_wins (c_sh c)) w = Some x -> b <> w_cur x /\ ~ In b (map fst (w_cells x));
  wi_held_distinct : forall t1 t2 l1 l2 b, thread_at c t1 l1 -> thread_at c t2 l2 ->
      In b (held l1) -> In b (held l2) -> t1 = t2
}.

Lemma thread_at_pcs c t l : thread_at c t l -> nth_error (pcs c) t = Some l.
Proof. intros (th & o & H1 & H2). eapply pcs_nth; eauto. Qed.

Lemma in_wb x b : b = w_cur x \/ In b (map fst (w_cells x)) -> In b (wb x).
Proof. unfold wb. simpl. intros [->|H]; auto. Qed.

Theorem window_invariant : forall ticks progs sched,
  WInv (final M (bcfg0 nl ticks progs) sched).
Proof.
  intros ticks progs sched. pose proof (Inv4_reach ticks progs sched) as HI. simpl in HI.
  set (c := final M (bcfg0 nl ticks progs) sched) in *.
  constructor.
  - intros w x Hw. pose proof (I4_win_nodup _ _ HI _ _ Hw) as H. inversion H; assumption.
  - intros w x Hw. pose proof (I4_win_nodup _ _ HI _ _ Hw) as H. inversion H; assumption.
  - intros w x b Hw Hb. eapply I4_win_valid; eauto using in_wb.
  - intros w1 w2 x1 x2 b H1 H2 B1 B2. eapply I4_win_disj; eauto using in_wb.
  - intros t l b Ht Hb. eapply I4_held_valid; eauto using thread_at_pcs.
  - intros t l b w x Ht Hb Hw.
    pose proof (I4_held_fresh _ _ HI _ _ _ _ _ (thread_at_pcs _ _ _ Ht) Hb Hw) as H.
    unfold wb in H; simpl in H.
    split; [intros E; apply H; left; symmetry; exact E | intros Hin; apply H; right; exact Hin].
  - intros t1 t2 l1 l2 b H1 H2 B1 B2. eapply I4_held_distinct; eauto using thread_at_pcs.
Qed.

End Inv4.

Print Assumptions window_invariant.
