(** C10: no event is lost.  Every add step of the execution log targets a
    bucket that is, at every later instant, owned by somebody: it is the current
    bucket of a window, a cell of a window's reservoir (live, or dead once
    trimAndSum has removed it), or it is carried by a thread that is about to
    install / archive it.  Hence, once every call has returned
    ([quiescent_adds_archived]), every logged add sits in a bucket that is
    current or archived in some window - including the adds of reporters that
    lost the roll CAS and of reporters that saw the ticker step backwards.

    Ownership can only be lost by a faulting thread; the faults of the window
    code (missing window, missing bucket) are excluded by a small invariant
    ([Gw]/[Pw]: window registers designate allocated windows) together with the
    bucket accounting of ConcWin.v. *)
From Coq Require Import List Arith Bool ZArith Lia.
From Garr Require Import Conc.Conc Pure.F64 Pure.Config Breaker.BreakerModel
  Breaker.ConcBase Breaker.ConcInv Breaker.ConcWin Breaker.ConcFreshStep Breaker.ConcGhost.
Import ListNotations.

Definition wvalid (s : bshared) (w : nat) : Prop := nth1 (b_wins s) w <> None.

(* the window a thread operates on, or is about to wrap in a CLOSED state, is allocated *)
Definition Pw (s : bshared) (l : bpc) : Prop :=
  match l with
  | OSTick2 _ w => wvalid s w
  | _ => forall w, wreg l = Some w -> wvalid s w
  end.

(* window 1 exists; the window of every CLOSED state object is allocated *)
Definition Gw (s : bshared) : Prop :=
  wvalid s 1 /\
  forall i st, nth1 (b_states s) i = Some st -> st_kind st = KClosed -> wvalid s (st_win st).

Section Own.
Variable cfg : cb_config.
Variable nl : nat.
Notation M := (breaker cfg nl).

Lemma wvalid_step l s l' s' w :
  pstep cfg nl l s = Some (l', s') -> wvalid s w -> wvalid s' w.
Proof.
  intros Hp Hw. unfold wvalid in *. destruct (nth1 (b_wins s) w) as [x|] eqn:E; [|congruence].
  destruct (step_wins _ _ _ _ _ _ Hp _ _ E) as (x' & _ & E' & _). congruence.
Qed.

Lemma Pw_mono l s l' s' l1 : pstep cfg nl l s = Some (l', s') -> Pw s l1 -> Pw s' l1.
Proof.
  intros Hp H. destruct l1; simpl in *;
  first [ eapply wvalid_step; [exact Hp | exact H]
        | intros w0 Hw; eapply wvalid_step; [exact Hp | apply H; exact Hw] ].
Qed.

Lemma Pw_same s l0 l : same l0 l -> Pw s l0 -> Pw s l.
Proof. intros [->|[_ [o ->]]] H; [exact H|]. simpl. intros w [=]. Qed.

Lemma stepw l s l' s' :
  Gw s -> Pw s l -> pstep cfg nl l s = Some (l', s') -> Gw s' /\ Pw s' l'.
Proof.
  intros [G1 G2] HP Hp.
  pose proof (fun w => wvalid_step _ _ _ _ w Hp) as Hmono.
  assert (HG' : Gw s').
  { split; [apply Hmono; exact G1|].
    destruct l; unfold_step Hp; repeat break1 Hp; try discriminate Hp;
    injection Hp as <- <-; simpl in *; intros i0 st0 Hi Hk;
    try (apply Hmono; eapply G2; eassumption);
    (apply nth1_app_inv in Hi; destruct Hi as [Hi|[_ ->]];
     [apply Hmono; eapply G2; eassumption | simpl in *; first [discriminate Hk | apply Hmono; exact HP]]). }
  split; [exact HG'|].
  destruct l; unfold_step Hp; repeat break1 Hp; try discriminate Hp;
  injection Hp as <- <-; simpl in *;
  try (intros w0 Hw0; first [discriminate Hw0 | injection Hw0 as <-]);
  try solve [ apply Hmono; apply HP; reflexivity
            | apply Hmono; exact G1
            | apply Hmono; eapply G2; eassumption
            | unfold wvalid; simpl; rewrite nth1_new; discriminate ].
Qed.

(** ** ownership is never lost *)
Ltac t_cw :=
  intros ?b; unfold cw; simpl;
  repeat match goal with
  | H : nth1 ?l ?w = Some ?x |- context [fcnt wb (upd1 ?l ?w ?x') ?b] =>
      let E := fresh "E" in
      pose proof (fcnt_upd1 wb l w x x' b H) as E;
      generalize dependent (fcnt wb (upd1 l w x') b); intros
  end;
  rewrite ?fcnt_snoc; unfold wb in *; simpl in *;
  rewrite ?map_fst_kill, ?map_app, ?cnt_app in *; simpl in *;
  eqn_lia.

Lemma step4_ge l s l' s' :
  Pw s l -> (forall b, In b (held l) -> nth1 (b_buckets s) b <> None) ->
  pstep cfg nl l s = Some (l', s') ->
  forall b, cw s b + cnt (held l) b <= cw s' b + cnt (held l') b.
Proof.
  intros HP Hh H.
  destruct l; unfold_step H; repeat break1 H; try discriminate H;
  injection H as <- <-; eqb_clean; subst; simpl in HP, Hh;
  try (exfalso; first [ eapply HP; [reflexivity | eassumption]
                      | eapply Hh; [left; reflexivity | eassumption] ]);
  solve [t_cw].
Qed.

(** ** the invariant *)
Definition Owned (s : bshared) (ps : list bpc) (b : nat) : Prop := 1 <= cw s b + ch ps b.

Definition K3 (A : list (nat * aev)) (s : bshared) (ps : list bpc) : Prop :=
  forall e sc b ts, In e A -> snd e = AAdd sc b ts -> Owned s ps b.

Definition OwnInv (A : list (nat * aev)) (s : bshared) (ps : list bpc) : Prop :=
  Gw s /\ Forall (Pw s) ps /\ Inv4 s ps /\ K3 A s ps /\
  (forall t l b, nth_error ps t = Some l -> addcur l = Some b -> Owned s ps b).

Lemma add_owner l s sc b ts :
  aev_of l s = [AAdd sc b ts] -> In b (held l) \/ addcur l = Some b.
Proof.
  destruct l; simpl; try discriminate;
  destruct (nth1 (b_buckets s) _); try discriminate; intros [= _ <- _]; auto.
Qed.

Lemma aev_add_inv l s e : In e (aev_of l s) -> (exists t, e = ATick t) \/ aev_of l s = [e].
Proof.
  destruct l; simpl; try tauto.
  - intros [<-|[]]. left. eauto.
  - destruct (nth1 (b_buckets s) b); simpl; [intros [<-|[]]; auto | tauto].
  - destruct (nth1 (b_buckets s) b); simpl; [intros [<-|[]]; auto | tauto].
  - destruct (nth1 (b_buckets s) nb); simpl; [intros [<-|[]]; auto | tauto].
Qed.

Lemma OwnInv_step A s ps t l0 l l' s' :
  OwnInv A s ps -> nth_error ps t = Some l0 -> same l0 l -> pstep cfg nl l s = Some (l', s') ->
  OwnInv (A ++ map (pair t) (aev_of l s)) s' (upd ps t l').
Proof.
  intros (HG & HF & H4 & H3 & HO) Hn Hsame Hp.
  assert (HPl : Pw s l) by (eapply Pw_same; [exact Hsame | eapply Forall_nth_error; eauto]).
  assert (Hheld : held l0 = held l) by (apply held_same; exact Hsame).
  assert (Hhv : forall b, In b (held l) -> nth1 (b_buckets s) b <> None).
  { intros b Hb. rewrite <- Hheld in Hb. pose proof (I4_held_valid _ _ H4 _ _ _ Hn Hb) as Hv.
    destruct b as [|j]; [lia|]. unfold nth1. apply nth_error_Some. lia. }
  assert (Hmono : forall b, Owned s ps b -> Owned s' (upd ps t l') b).
  { intros b Hb. unfold Owned in *. pose proof (step4_ge _ _ _ _ HPl Hhv Hp b) as Hge.
    pose proof (fcnt_upd held ps t l0 l' b Hn) as E. unfold ch. rewrite Hheld in E. unfold ch in Hb. lia. }
  destruct (stepw _ _ _ _ HG HPl Hp) as [HG' HP'].
  split; [exact HG'|]. split.
  { apply Forall_upd; [|exact HP']. eapply Forall_impl; [|exact HF]. intros a Ha. eapply Pw_mono; eauto. }
  split; [eapply Inv4_step; eauto|]. split.
  - intros e sc b ts Hin He. apply in_app_or in Hin. destruct Hin as [Hin|Hin].
    + apply Hmono. eapply H3; eauto.
    + apply in_map_iff in Hin. destruct Hin as (e0 & <- & Hin). simpl in He. subst e0.
      apply Hmono. destruct (aev_add_inv _ _ _ Hin) as [[t0 E]|E]; [discriminate E|].
      destruct (add_owner _ _ _ _ _ E) as [Hh|Ha].
      * unfold Owned. rewrite <- Hheld in Hh. apply cnt_In in Hh.
        pose proof (fcnt_ge held _ _ _ b Hn) as Gh. unfold ch. lia.
      * destruct Hsame as [->|[-> [o ->]]]; [eapply HO; eauto | discriminate Ha].
  - intros t1 l1 b Hn1 Ha. rewrite nth_error_upd in Hn1.
    destruct (Nat.eqb_spec t t1) as [->|Hne].
    + rewrite Hn in Hn1. injection Hn1 as <-.
      destruct (addcur_step _ _ _ _ _ _ _ Hp Ha) as (w & x & _ & Hx & <-).
      apply Hmono. unfold Owned. pose proof (fcnt_ge1 wb _ _ _ (w_cur x) Hx) as Gw.
      unfold cw. unfold wb at 1 in Gw. simpl in Gw. unfold eqn in Gw. rewrite Nat.eqb_refl in Gw. lia.
    + apply Hmono. eapply HO; eauto.
Qed.

Lemma OwnInv_init ticks (progs : list (list bop)) : OwnInv [] (binit nl ticks) (map (fun _ => idle) progs).
Proof.
  split; [|split; [|split; [|split]]].
  - unfold Gw, wvalid, binit, take_tick. destruct ticks as [|t1 [|t2 r]]; simpl;
      (split; [discriminate|]); intros i st Hi _;
      destruct i as [|[|i]]; try discriminate Hi; try (destruct i; discriminate Hi);
      injection Hi as <-; simpl; discriminate.
  - apply Forall_forall. intros l Hin. apply in_map_iff in Hin. destruct Hin as (p & <- & _).
    simpl. intros w [=].
  - apply Inv4_init.
  - intros e sc b ts [].
  - intros t l b Hn Ha. assert (l = idle).
    { clear Ha. revert t Hn. induction progs as [|p r IH]; intros [|t] Hn; simpl in Hn; try discriminate;
        [congruence | eauto]. }
    subst l. discriminate Ha.
Qed.

Theorem OwnInv_reach ticks progs sched :
  let c := final M (bcfg0 nl ticks progs) sched in
  OwnInv (alog (steps_of M (bcfg0 nl ticks progs) sched)) (c_sh c) (pcs c).
Proof.
  apply (log_invariant cfg nl OwnInv).
  - apply OwnInv_init.
  - intros A s ps t l0 l l' s' HI Hn Hs Hp. eapply OwnInv_step; eauto.
Qed.

(** ** at every instant: every logged add is owned *)
Theorem adds_owned : forall ticks progs sched e sc b ts,
  let c := final M (bcfg0 nl ticks progs) sched in
  In e (alog (steps_of M (bcfg0 nl ticks progs) sched)) -> snd e = AAdd sc b ts ->
  (exists w x, nth1 (b_wins (c_sh c)) w = Some x /\ (b = w_cur x \/ In b (map fst (w_cells x)))) \/
  (exists t l, nth_error (pcs c) t = Some l /\ In b (held l)).
Proof.
  intros ticks progs sched e sc b ts c Hin He.
  destruct (OwnInv_reach ticks progs sched) as (_ & _ & _ & H3 & _). fold c in H3.
  pose proof (H3 _ _ _ _ Hin He) as Ho. unfold Owned in Ho.
  destruct (Nat.le_gt_cases 1 (cw (c_sh c) b)) as [Hc|Hc].
  - left. unfold cw in Hc. destruct (fcnt_In wb _ _ Hc) as (i & x & Hi & Hx).
    exists (S i), x. split; [exact Hi|]. apply cnt_In in Hx. unfold wb in Hx. simpl in Hx.
    destruct Hx as [<-|Hx]; auto.
  - right. assert (Hh : 1 <= ch (pcs c) b) by lia. unfold ch in Hh.
    destruct (fcnt_In held _ _ Hh) as (t & l & Ht & Hl). exists t, l. split; [exact Ht|].
    apply cnt_In. exact Hl.
Qed.

(** ** once every call has returned: every logged add is in a current or archived bucket *)
Theorem quiescent_adds_archived : forall ticks progs sched e sc b ts,
  let c := final M (bcfg0 nl ticks progs) sched in
  (forall th, In th (c_thr c) -> t_cur th = None) ->
  In e (alog (steps_of M (bcfg0 nl ticks progs) sched)) -> snd e = AAdd sc b ts ->
  exists w x, nth1 (b_wins (c_sh c)) w = Some x /\ (b = w_cur x \/ In b (map fst (w_cells x))).
Proof.
  intros ticks progs sched e sc b ts c Hq Hin He.
  destruct (adds_owned ticks progs sched e sc b ts Hin He) as [H|(t & l & Ht & Hl)]; [exact H|exfalso].
  fold c in Ht. unfold pcs in Ht. rewrite nth_error_map in Ht.
  destruct (nth_error (c_thr c) t) as [th|] eqn:Hn; [|discriminate Ht].
  injection Ht as <-. unfold pc_of in Hl. rewrite (Hq th (nth_error_In _ _ Hn)) in Hl. destruct Hl.
Qed.

End Own.

Print Assumptions quiescent_adds_archived.
