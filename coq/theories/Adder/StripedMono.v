(** Monotonicity of the striped adder under non-negative updates (exact
    arithmetic, [Z.add]): the base, every attached cell and the set of attached
    cells only grow, non-empty slots never change, and no array holds a cell twice. *)
From Coq Require Import List Arith Bool ZArith Lia Permutation.
From Garr Require Import Conc.Conc Pure.F64 Adder.StripedModel Adder.AdderSpec Adder.StripedLib
  Adder.StripedInv Adder.StripedUpdate Adder.StripedSteps Adder.StripedCells Adder.StripedArrays
  Adder.StripedPres Adder.StripedProofs Adder.StripedLocal Adder.StripedPhase Adder.StripedStrip.
Import ListNotations.
Local Open Scope Z_scope.

Definition idn (z : Z) : Z := z.

Definition NN (s : ashared) : Prop :=
  0 <= a_base s /\ forall i v, nth_error (a_cells s) i = Some v -> 0 <= v.

Definition ND (s : ashared) : Prop := forall a, NoDup (filter nz (arr_of s a)).

Definition LE (s s' : ashared) : Prop :=
  a_base s <= a_base s' /\
  (forall c v, In c (att s) -> get_cell s c = Some v -> exists v', get_cell s' c = Some v' /\ v <= v') /\
  (forall a i c, nth_error (arr_of s a) i = Some c -> c <> O -> nth_error (arr_of s' a) i = Some c) /\
  incl (att s) (att s') /\
  (a_table s <> None -> a_table s' <> None).

Lemma LE_refl s : LE s s.
Proof. repeat split; auto using incl_refl; try lia. intros c v _ H. exists v. split; [exact H|lia]. Qed.

Lemma LE_trans s1 s2 s3 : LE s1 s2 -> LE s2 s3 -> LE s1 s3.
Proof.
  intros (A1 & A2 & A3 & A4 & A5) (B1 & B2 & B3 & B4 & B5). repeat split.
  - lia.
  - intros c v Hc Hv. destruct (A2 c v Hc Hv) as (v' & Hv' & Hle).
    destruct (B2 c v' (A4 c Hc) Hv') as (v'' & Hv'' & Hle'). exists v''. split; [exact Hv''|lia].
  - intros a i c H Hc. apply B3; auto.
  - eapply incl_tran; eauto.
  - auto.
Qed.

Lemma facts_heq s s' :
  a_table s' = a_table s -> a_arrays s' = a_arrays s -> a_cells s' = a_cells s ->
  a_base s <= a_base s' -> NN s -> ND s -> NN s' /\ ND s' /\ LE s s'.
Proof.
  intros Et Ea Ec Hb [Hn1 Hn2] Hd.
  pose proof (att_heq _ _ Et Ea) as Eatt. pose proof (arr_of_heq _ _ Ea) as Earo.
  split; [|split].
  - split; [lia|]. rewrite Ec. exact Hn2.
  - intros a. rewrite Earo. apply Hd.
  - repeat split.
    + exact Hb.
    + intros c v _ H. exists v. rewrite (get_cell_heq _ _ Ec). split; [exact H|lia].
    + intros a i c. rewrite Earo. auto.
    + rewrite Eatt. apply incl_refl.
    + rewrite Et. auto.
Qed.

(** changes of cells only *)
Lemma facts_cells s s' :
  a_table s' = a_table s -> a_arrays s' = a_arrays s -> a_base s' = a_base s ->
  (forall i v, nth_error (a_cells s') i = Some v -> 0 <= v) ->
  (forall c v, In c (att s) -> get_cell s c = Some v -> exists v', get_cell s' c = Some v' /\ v <= v') ->
  NN s -> ND s -> NN s' /\ ND s' /\ LE s s'.
Proof.
  intros Et Ea Eb Hc Hm [Hn1 Hn2] Hd.
  pose proof (att_heq _ _ Et Ea) as Eatt. pose proof (arr_of_heq _ _ Ea) as Earo.
  split; [|split].
  - split; [lia|exact Hc].
  - intros a. rewrite Earo. apply Hd.
  - repeat split.
    + lia.
    + exact Hm.
    + intros a i c. rewrite Earo. auto.
    + rewrite Eatt. apply incl_refl.
    + rewrite Et. auto.
Qed.

(** changes of arrays / table only *)
Lemma facts_arrays s s' :
  a_cells s' = a_cells s -> a_base s' = a_base s ->
  (forall a i c, nth_error (arr_of s a) i = Some c -> c <> O -> nth_error (arr_of s' a) i = Some c) ->
  ND s' -> incl (att s) (att s') -> (a_table s <> None -> a_table s' <> None) ->
  NN s -> NN s' /\ ND s' /\ LE s s'.
Proof.
  intros Ec Eb Hp Hd Hi Ht [Hn1 Hn2].
  split; [|split; [exact Hd|]].
  - split; [lia|]. rewrite Ec. exact Hn2.
  - repeat split; auto.
    + lia.
    + intros c v _ H. exists v. rewrite (get_cell_heq _ _ Ec). split; [exact H|lia].
Qed.

Lemma nn_upd cells i v : (forall j w, nth_error cells j = Some w -> 0 <= w) -> 0 <= v ->
  forall j w, nth_error (upd cells i v) j = Some w -> 0 <= w.
Proof.
  intros H Hv j w. rewrite nth_error_upd. destruct (Nat.eqb i j).
  - destruct (nth_error cells i); intros E; [injection E as <-; exact Hv|discriminate].
  - apply H.
Qed.

Lemma nn_app cells v : (forall j w, nth_error cells j = Some w -> 0 <= w) -> 0 <= v ->
  forall j w, nth_error (cells ++ [v]) j = Some w -> 0 <= w.
Proof.
  intros H Hv j w E. destruct (Nat.ltb_spec j (length cells)).
  - rewrite nth_error_app1 in E by assumption. eapply H; eauto.
  - rewrite nth_error_app2 in E by assumption. destruct (j - length cells)%nat; simpl in E.
    + injection E as <-. exact Hv.
    + destruct n; discriminate.
Qed.

(** a CAS on a cell that adds a non-negative amount, or a write to a non-attached cell *)
Lemma facts_set_cell s c v :
  NN s -> ND s -> 0 <= v ->
  (In c (att s) -> exists v0, get_cell s c = Some v0 /\ v0 <= v) ->
  NN (set_cell s c v) /\ ND (set_cell s c v) /\ LE s (set_cell s c v).
Proof.
  intros Hn Hd Hv Hc. apply facts_cells; try (destruct c; reflexivity); auto.
  - destruct c as [|i]; simpl; [apply Hn|]. apply nn_upd; [apply Hn|exact Hv].
  - intros c0 v0 Hin Hg. rewrite get_cell_set_cell. destruct (Nat.eqb_spec c c0) as [<-|Hne].
    + destruct (Hc Hin) as (v1 & Hg1 & Hle). rewrite Hg1. rewrite Hg in Hg1. injection Hg1 as <-.
      exists v. split; [reflexivity|exact Hle].
    + exists v0. split; [exact Hg|lia].
Qed.

Lemma facts_new_cell s v s' :
  a_table s' = a_table s -> a_arrays s' = a_arrays s -> a_base s' = a_base s -> a_cells s' = a_cells s ++ [v] ->
  NN s -> ND s -> 0 <= v -> NN s' /\ ND s' /\ LE s s'.
Proof.
  intros Et Ea Eb Ec Hn Hd Hv. apply facts_cells; auto.
  - rewrite Ec. apply nn_app; [apply Hn|exact Hv].
  - intros c v0 _ Hg. exists v0. split; [|lia]. unfold get_cell in *. destruct c as [|i]; [discriminate|].
    rewrite Ec. rewrite nth_error_app1; [exact Hg|]. apply nth_error_Some. congruence.
Qed.

Lemma facts_set_slot s a j r :
  (a < length (a_arrays s))%nat -> nth_error (arr_of s a) j = Some O -> r <> O -> ~ In r (arr_of s a) ->
  NN s -> ND s ->
  NN (set_slot s a j r) /\ ND (set_slot s a j r) /\ LE s (set_slot s a j r).
Proof.
  intros Ha Hj Hr Hnin Hn Hd. rewrite (set_slot_eq _ _ _ _ Ha).
  set (s' := AS _ _ _ _ _ _).
  assert (Haro : forall a', arr_of s' a' = if Nat.eqb a a' then upd (arr_of s a) j r else arr_of s a').
  { intros a'. unfold arr_of at 1. simpl. apply arr_of_upd. exact Ha. }
  destruct (filter_nz_upd_zero _ _ _ Hj Hr) as (l1 & l2 & E1 & E2).
  apply facts_arrays; try reflexivity; auto.
  - intros a' i c. rewrite Haro. destruct (Nat.eqb_spec a a') as [<-|Hne]; [|auto].
    intros Hi Hc. rewrite nth_error_upd_other; [exact Hi|]. intros <-. rewrite Hj in Hi. congruence.
  - intros a'. rewrite Haro. destruct (Nat.eqb_spec a a') as [<-|Hne]; [|apply Hd].
    rewrite E2. apply (Permutation_NoDup (Permutation_middle l1 l2 r)). constructor.
    + rewrite <- E1. intros Hin. apply in_filter_nz in Hin. tauto.
    + rewrite <- E1. apply Hd.
  - unfold att. simpl. destruct (a_table s) as [tab|]; [|apply incl_refl].
    rewrite Haro. destruct (Nat.eqb_spec a (fst tab)) as [<-|Hne]; [|apply incl_refl].
    rewrite E1, E2. intros x. rewrite !in_app_iff. simpl. tauto.
Qed.

Lemma facts_new_array s k :
  (forall tab, a_table s = Some tab -> (fst tab < length (a_arrays s))%nat) ->
  NN s -> ND s ->
  NN (snd (new_array s k)) /\ ND (snd (new_array s k)) /\ LE s (snd (new_array s k)).
Proof.
  intros Ht Hn Hd. destruct (new_array_facts s k) as (Haro & _ & Hatt).
  apply facts_arrays; try reflexivity; auto.
  - intros a i c. rewrite Haro. destruct (Nat.eqb_spec a (length (a_arrays s))) as [->|Hne]; [|auto].
    unfold arr_of. rewrite nth_overflow by lia. destruct i; discriminate.
  - intros a. rewrite Haro. destruct (Nat.eqb_spec a (length (a_arrays s))); [|apply Hd].
    rewrite filter_nz_repeat. constructor.
  - rewrite (Hatt Ht). apply incl_refl.
Qed.

Lemma facts_replace_zero s arr X :
  (arr < length (a_arrays s))%nat -> (forall c, In c (arr_of s arr) -> c = O) ->
  NoDup (filter nz X) -> (forall tab, a_table s = Some tab -> fst tab <> arr) ->
  NN s -> ND s ->
  let s' := AS (a_base s) (a_busy s) (a_table s) (upd (a_arrays s) arr X) (a_cells s) (a_rnd s) in
  NN s' /\ ND s' /\ LE s s'.
Proof.
  intros Ha Hz Hx Ht Hn Hd s'.
  assert (Haro : forall a', arr_of s' a' = if Nat.eqb arr a' then X else arr_of s a').
  { intros a'. unfold arr_of at 1. simpl. apply arr_of_upd. exact Ha. }
  apply facts_arrays; try reflexivity; auto.
  - intros a' i c. rewrite Haro. destruct (Nat.eqb_spec arr a') as [<-|Hne]; [|auto].
    intros Hi Hc. apply nth_error_In in Hi. apply Hz in Hi. contradiction.
  - intros a'. rewrite Haro. destruct (Nat.eqb_spec arr a'); [exact Hx|apply Hd].
  - unfold att. simpl. destruct (a_table s) as [tab|] eqn:E; [|apply incl_refl].
    rewrite Haro. destruct (Nat.eqb_spec arr (fst tab)) as [E'|_]; [|apply incl_refl].
    exfalso. apply (Ht tab eq_refl). auto.
Qed.

Lemma facts_set_table s nt :
  incl (att s) (att (set_table s (Some nt))) -> NN s -> ND s ->
  NN (set_table s (Some nt)) /\ ND (set_table s (Some nt)) /\ LE s (set_table s (Some nt)).
Proof. intros Hi Hn Hd. apply facts_arrays; try reflexivity; auto. simpl. discriminate. Qed.

Lemma nn_get_cell s c v : NN s -> get_cell s c = Some v -> 0 <= v.
Proof. intros [_ H] E. destruct c; [discriminate|]. apply (H _ _ E). Qed.

Section Mono.
Variable f64 : bool.
Variable maxcells : Z.
Notation step := (astep Z.add f64 maxcells).
Notation MZ := (striped Z.add f64 maxcells).

Ltac brk :=
  repeat match goal with
  | |- context [take_rnd ?s] =>
      let H := fresh "Hrnd" in pose proof (take_rnd_shape s) as H; destruct (take_rnd s); simpl in H
  | |- context [enter_acc ?x ?i ?u ?s] =>
      let st := fresh "st" in let s1 := fresh "s1" in let E := fresh "Eacc" in let H := fresh "Hacc" in
      destruct (enter_acc_shape x i u s) as (st & s1 & E & H); rewrite E
  | |- context [match a_table ?s with _ => _ end] => destruct (a_table s) eqn:?
  | |- context [if ?b then _ else _] => destruct b eqn:?
  | |- context [match get_slot ?s ?a ?i with _ => _ end] => destruct (get_slot s a i) as [[|?]|] eqn:?
  | |- context [match get_cell ?s ?c with _ => _ end] => destruct (get_cell s c) eqn:?
  | |- context [match nth_error ?l ?c with _ => _ end] => destruct (nth_error l c) eqn:?
  end; cbn [fst snd goto fin rehash new_cell new_array].

Ltac quiet :=
  apply facts_heq; auto;
  first [reflexivity | simpl; intuition congruence
        | simpl; repeat match goal with H : a_base _ = _ |- _ => rewrite H end; lia ].

Lemma upd_step x l s :
  Glob idn s -> ltok x l s -> 0 <= x -> (forall r, In r (owned l) -> ~ In r (att s)) -> NN s -> ND s ->
  match step l s with
  | Next _ s' | Done _ _ s' => NN s' /\ ND s' /\ LE s s'
  | _ => True
  end.
Proof.
  intros G Hk Hx Hown Hn Hd.
  destruct l; simpl in Hk; try contradiction; cbn [astep]; brk; auto.
  all: try (quiet; fail).
  - (* AddCellCas *)
    destruct Hk as [-> Hin]. apply Z.eqb_eq in Heqb. subst z.
    pose proof (nn_get_cell _ _ _ Hn Heqo). apply facts_set_cell; auto; try lia.
    intros _. exists v. split; [exact Heqo|lia].
  - (* L3, f64 *)
    destruct Hk as [Hr _]. eapply facts_new_cell with (v := 0); try reflexivity; auto; lia.
  - (* L3 *)
    destruct Hk as [Hr _]. eapply facts_new_cell with (v := r_x st); try reflexivity; auto; lia.
  - (* L3f *)
    destruct Hk as (Hr & _ & _). apply facts_set_cell; auto; try lia.
    intros Hin. exfalso. apply (Hown r); [left; reflexivity|exact Hin].
  - (* L8 *)
    destruct Hk as (Hr & Hg & Ht & Hj & Hlt).
    destruct (gl_tab G _ Ht) as [Ha _]. destruct (get_cell_valid _ _ _ Hg) as [Hr0 _].
    apply facts_set_slot; auto.
    intros Hin. apply (Hown r); [left; reflexivity|].
    unfold att. rewrite Ht. apply in_filter_nz. split; assumption.
  - (* L11 *)
    destruct Hk as (Hr & Hin & _).
    match goal with H : (?z0 =? v) = true |- _ => apply Z.eqb_eq in H; subst z0 end.
    pose proof (nn_get_cell _ _ _ Hn Heqo). apply facts_set_cell; auto; try lia.
    intros _. exists v. split; [exact Heqo|lia].
  - destruct Hk as (Hr & Hin & _).
    match goal with H : (?z0 =? v) = true |- _ => apply Z.eqb_eq in H; subst z0 end.
    pose proof (nn_get_cell _ _ _ Hn Heqo). apply facts_set_cell; auto; try lia.
    intros _. exists v. split; [exact Heqo|lia].
  - (* L15: allocation *)
    apply (facts_new_array s (cap_of s (fst tab) * 4)); auto.
    intros tb E. apply (gl_tab G _ E).
  - (* Lcopy *)
    destruct Hk as (Hr & [n Ht] & Hft & Hlen & Harr & Hne & Hz).
    destruct (nth_error_arr_of _ _ _ Heqo) as [El _].
    apply facts_replace_zero; auto.
    + rewrite Hz. intros c Hc. apply repeat_spec in Hc. exact Hc.
    + rewrite filter_app.
      destruct (nth_error_arr_of _ _ _ Heqo0) as [El0 _]. rewrite <- El0, Hz, skipn_repeat, filter_nz_repeat, app_nil_r.
      rewrite <- El, Hlen, firstn_all. apply Hd.
    + intros tb E. rewrite Ht in E. injection E as <-. simpl. auto.
  - (* L16 *)
    destruct Hk as (Hr & Hnn & Hok & Hf & Htl). apply facts_set_table; auto.
    change (att (set_table s (Some newtab))) with (filter nz (arr_of s (fst newtab))). rewrite Hf. apply incl_refl.
  - (* C4, f64 *)
    destruct Hk as [Hr Hz].
    destruct (facts_new_array s 4) as (N1 & D1 & L1); auto.
    { intros tb E. rewrite Heqo in E. discriminate. }
    destruct (facts_new_cell (snd (new_array s 4)) 0 (snd (new_cell (snd (new_array s 4)) 0))) as (N2 & D2 & L2);
      try reflexivity; auto; try lia.
    split; [exact N2|]. split; [exact D2|]. eapply LE_trans; eauto.
  - destruct Hk as [Hr Hz].
    destruct (facts_new_array s 4) as (N1 & D1 & L1); auto.
    { intros tb E. rewrite Heqo in E. discriminate. }
    destruct (facts_new_cell (snd (new_array s 4)) (r_x st) (snd (new_cell (snd (new_array s 4)) (r_x st)))) as (N2 & D2 & L2);
      try reflexivity; auto; try lia.
    split; [exact N2|]. split; [exact D2|]. eapply LE_trans; eauto.
  - (* C4f *)
    destruct Hk as (Hr & Ht & _). apply facts_set_cell; auto; try lia.
    intros Hin. exfalso. apply (Hown r); [left; reflexivity|exact Hin].
  - (* C5 *)
    destruct Hk as (Hr & Ht & Hz & Hg & Harr & Hlen).
    destruct (get_cell_valid _ _ _ Hg) as [Hr0 _].
    pose proof (land1_lt (r_index st)) as Hi.
    apply facts_set_slot; auto.
    + rewrite (nth_error_nth' _ _ O) by lia. f_equal.
      destruct (nth_In_or_zero (arr_of s arr) (Z.to_nat (Z.land (r_index st) 1))) as [E|E]; [exact E|].
      apply (Hz arr). exact E.
    + intros Hin. apply Hr0. apply (Hz arr). exact Hin.
  - (* C6 *)
    destruct Hk as (Hr & Ht & _). apply facts_set_table; auto.
    unfold att at 1. rewrite Ht. intros c [].
Qed.

(** ** configurations of mixed programs *)

Definition ops_all (Pop : aop -> Prop) (c : acfg) : Prop :=
  forall t th, nth_error (c_thr c) t = Some th ->
    (forall o, In o (t_prog th) -> Pop o) /\ (forall o l, t_cur th = Some (o, l) -> Pop o).

Lemma ops_all_step Pop (c : acfg) t c' e :
  ops_all Pop c -> step_thread MZ c t = Some (c', e) -> ops_all Pop c'.
Proof.
  intros Hall H.
  destruct (step_after Z.add f64 maxcells _ _ _ _ H) as (th & Hn & Hd & Ha).
  destruct (Hall _ _ Hn) as [Hp Hc].
  assert (Hgen : forall pr o out, (forall o', In o' pr -> Pop o') -> Pop o ->
            after c t th pr o out = Some c' -> ops_all Pop c').
  { intros pr o out Hpr Ho Hafter. unfold after in Hafter.
    destruct out as [l' s'|r ts' s'| |]; try discriminate; injection Hafter as <-;
      intros t' th' Hn'; simpl in Hn'; apply nth_upd_cases in Hn';
      (destruct Hn' as [[-> ->]|[_ Hn']]; [|apply (Hall _ _ Hn')]); simpl; split; auto;
      try (intros; discriminate).
    intros o0 l0 E. injection E as <- <-. exact Ho. }
  destruct (t_cur th) as [[o l]|] eqn:Ec.
  - eapply Hgen; [| |exact Ha]; eauto.
  - destruct Ha as (o & pr & Hpp & Ha). eapply Hgen; [| |exact Ha].
    + intros o' Ho'. apply Hp. rewrite Hpp. right. exact Ho'.
    + apply Hp. rewrite Hpp. left. reflexivity.
Qed.

Definition nnop (o : aop) : Prop := 0 <= delta o.

Definition MI (T : Z) (c : acfg) : Prop :=
  prog_ok c /\ ops_all nnop c /\ Inv idn T (strip c) /\ NN (c_sh c) /\ ND (c_sh c).

Lemma has_dead_strip (c : acfg) : has_dead (strip c) -> has_dead c.
Proof.
  intros (th & Hin & Hd). simpl in Hin. apply in_map_iff in Hin. destruct Hin as (th0 & <- & Hin0).
  exists th0. split; [exact Hin0|exact Hd].
Qed.

Lemma idn_add a b : idn (idn a + b) = idn (a + b).
Proof. reflexivity. Qed.

Lemma MI_step T (c : acfg) t c' e :
  MI T c -> step_thread MZ c t = Some (c', e) ->
  has_dead c' \/ (MI T c' /\ LE (c_sh c) (c_sh c')).
Proof.
  intros (Hok & Hnn & HI & Hn & Hd) H.
  destruct (strip_step Z.add f64 maxcells c t c' e Hok H) as [Hok' Htri].
  pose proof (ops_all_step nnop c t c' e Hnn H) as Hnn'.
  (* the shared state *)
  assert (Hst : has_dead c' \/ (NN (c_sh c') /\ ND (c_sh c') /\ LE (c_sh c) (c_sh c'))).
  { destruct (step_after Z.add f64 maxcells _ _ _ _ H) as (th & Hnth & Hdd & Ha).
    destruct (Hok _ _ Hnth) as [_ Hcur]. destruct (Hnn _ _ Hnth) as [_ Hcn].
    destruct (t_cur th) as [[o l]|] eqn:Ec.
    - destruct (Hcur o l eq_refl) as [Hro Hsum].
      destruct (is_update o) eqn:Hu.
      + assert (Hns : nth_error (c_thr (strip c)) t = Some (strip_th th)).
        { simpl. rewrite nth_error_map, Hnth. reflexivity. }
        destruct (iv_thr HI _ _ Hns) as (_ & _ & Hc). unfold strip_th in Hc. simpl in Hc.
        rewrite Ec in Hc. simpl in Hc. rewrite Hu in Hc. destruct Hc as [_ Hk].
        assert (Hown : forall r, In r (owned l) -> ~ In r (att (c_sh c))).
        { intros r Hr. assert (Hr' : In r (ownedth (strip_th th))).
          { unfold ownedth, strip_th. simpl. rewrite Ec. simpl. rewrite Hu. exact Hr. }
          apply (iv_own HI _ _ _ Hns Hr'). }
        pose proof (upd_step (delta o) l (c_sh c) (iv_glob HI) Hk (Hcn o l eq_refl) Hown Hn Hd) as Hup.
        unfold after in Ha. destruct (step l (c_sh c)) as [l' s'|r ts' s'| |]; try discriminate;
          injection Ha as <-.
        * right. exact Hup.
        * right. exact Hup.
        * left. eapply has_dead_upd. exact Hnth.
      + destruct Hro as [Hro|Hro]; [congruence|]. subst o.
        pose proof (step_sumpc Z.add f64 maxcells l (c_sh c) (Hsum eq_refl)) as Hs.
        unfold after in Ha. destruct (step l (c_sh c)) as [l' s'|r ts' s'| |]; try contradiction;
          injection Ha as <-.
        * destruct Hs as [_ ->]. right. simpl. auto using LE_refl.
        * destruct Hs as [-> _]. right. simpl. auto using LE_refl.
        * left. eapply has_dead_upd. exact Hnth.
    - destruct Ha as (o & pr & _ & Ha). right.
      assert (E : c_sh c' = c_sh c).
      { unfold after in Ha. destruct o; simpl in Ha; injection Ha as <-; reflexivity. }
      rewrite E. auto using LE_refl. }
  destruct Hst as [Hdead|(Hn' & Hd' & Hle)]; [left; exact Hdead|].
  destruct Htri as [Hdead|[[Es Esh]|[e' Hs]]].
  - left. exact Hdead.
  - right. split; [|exact Hle].
    split; [exact Hok'|split; [exact Hnn'|split; [rewrite Es; exact HI|split; assumption]]].
  - destruct (pres_step idn idn_add Z.add (fun a b => eq_refl) f64 maxcells T (strip c) t (strip c') e'
                (or_intror HI) Hs) as [Hdead|HI'].
    + left. apply has_dead_strip. exact Hdead.
    + right. split; [|exact Hle].
      split; [exact Hok'|split; [exact Hnn'|split; [exact HI'|split; assumption]]].
Qed.

End Mono.
