(** RandomCellAdder, C16: any alternation of single-goroutine phases (all
    operations of the API) and concurrent update phases that have finished,
    starting from a fresh adder with [n > 0] cells: in every single-goroutine
    phase the results are those of a plain int64 number.
    [spec_run]/[rets] are [StripedSeq.spec_run]/[StripedSeq.rets]. *)
From Coq Require Import List Arith Bool ZArith Lia.
From Garr Require Import Conc.Conc Pure.F64 Adder.StripedModel Adder.SimpleModel Adder.AdderSpec
     Adder.SimpleSeqLib Adder.SimpleRC Adder.SimpleRCSeq Adder.SimpleRCPhase.
Import ListNotations.
Local Open Scope Z_scope.

Inductive rc_reach16 (n : nat) : rshared -> Z -> Prop :=
| rr16_init rnd : rc_reach16 n (rinit n rnd) 0
| rr16_seq s v ops m c e :
    rc_reach16 n s v -> Forall op_ok ops ->
    run rc_adder (Config s [mk_thread rpc tt ops]) (repeat 0%nat m) = (c, e) -> all_done c ->
    rc_reach16 n (c_sh c) (fst (spec_run wadd v ops))
| rr16_conc s v progs sched :
    rc_reach16 n s v -> updates_only progs ->
    all_done (final rc_adder (init rpc s tt progs) sched) ->
    rc_reach16 n (c_sh (final rc_adder (init rpc s tt progs) sched)) (wadd v (total progs)).

Theorem rc_C16_state n s v :
  (0 < n)%nat -> rc_reach16 n s v ->
  length (rc_cells s) = n /\ cells_sum (rc_cells s) = v.
Proof.
  intros Hn. induction 1 as [rnd|s v ops m c e _ IH Hok Hrun Hdone|s v progs sched _ IH Hup Hdone].
  - simpl. split; [apply repeat_length|].
    rewrite cells_sum_zsum, zsum_repeat0. reflexivity.
  - destruct IH as (Hl & <-).
    destruct (rc_seq_done s ops m c e ltac:(lia) Hok Hrun Hdone) as (_ & H2 & H3).
    split; [congruence|exact H2].
  - destruct IH as (Hl & <-).
    destruct (rc_update_phase s progs sched ltac:(lia) Hup Hdone) as (H1 & H2).
    split; [congruence|exact H1].
Qed.

Print Assumptions rc_C16_state.

(** in every single-goroutine phase the results are those of the plain number *)
Theorem rc_C16 n s v ops m c e :
  (0 < n)%nat -> rc_reach16 n s v -> Forall op_ok ops ->
  run rc_adder (Config s [mk_thread rpc tt ops]) (repeat 0%nat m) = (c, e) -> all_done c ->
  rets e = snd (spec_run wadd v ops).
Proof.
  intros Hn Hr Hok Hrun Hdone. destruct (rc_C16_state n s v Hn Hr) as (Hl & <-).
  apply (rc_seq_done s ops m c e ltac:(lia) Hok Hrun Hdone).
Qed.

Print Assumptions rc_C16.

(** ... and such a phase always finishes: after enough steps of the goroutine
    the run has produced exactly these results *)
Theorem rc_C16_total n s v ops :
  (0 < n)%nat -> rc_reach16 n s v -> Forall op_ok ops ->
  exists k, forall m, (k <= m)%nat ->
    rets (snd (run rc_adder (Config s [mk_thread rpc tt ops]) (repeat 0%nat m))) =
    snd (spec_run wadd v ops).
Proof.
  intros Hn Hr Hok. destruct (rc_C16_state n s v Hn Hr) as (Hl & <-).
  destruct (rc_sequential_number s ops ltac:(lia) Hok) as [k Hk].
  exists k. intros m Hm. specialize (Hk m Hm).
  destruct (run rc_adder (Config s [mk_thread rpc tt ops]) (repeat 0%nat m)) as [c e].
  apply Hk.
Qed.

Print Assumptions rc_C16_total.
