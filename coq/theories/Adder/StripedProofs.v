(** The striped adder never loses, duplicates or tears an update:
    after any interleaving of update-only programs, once every call has
    returned, a Sum returns the (wrapped) total of everything that was added. *)
From Coq Require Import List Arith Bool ZArith Lia Permutation.
From Garr Require Import Conc.Conc Pure.F64 Adder.StripedModel Adder.AdderSpec Adder.StripedLib
  Adder.StripedInv Adder.StripedUpdate Adder.StripedSteps Adder.StripedCells Adder.StripedArrays
  Adder.StripedPres.
Import ListNotations.
Local Open Scope Z_scope.

Section Generic.
Variable nrm : Z -> Z.
Hypothesis nrm_add : forall a b, nrm (nrm a + b) = nrm (a + b).
Hypothesis nrm_0 : nrm 0 = 0.
Variable vadd : Z -> Z -> Z.
Hypothesis vadd_def : forall a b, vadd a b = nrm (a + b).
Variable f64 : bool.
Variable maxcells : Z.

Notation M := (striped vadd f64 maxcells).
Notation step := (astep vadd f64 maxcells).

(** ** every step preserves the invariant (or some thread has faulted) *)

Lemma step_after (c : acfg) t c' e :
  step_thread M c t = Some (c', e) ->
  exists th, nth_error (c_thr c) t = Some th /\ t_dead th = false /\
    match t_cur th with
    | Some (o, l) => after c t th (t_prog th) o (step l (c_sh c)) = Some c'
    | None => exists o pr, t_prog th = o :: pr /\ after c t th pr o (step (AInv o) (c_sh c)) = Some c'
    end.
Proof.
  unfold step_thread. destruct (nth_error (c_thr c) t) as [th|] eqn:Hn; [|discriminate].
  unfold view. destruct (t_dead th) eqn:Hd; [discriminate|].
  intros H. exists th. split; [reflexivity|]. split; [exact Hd|].
  destruct (t_cur th) as [[o l]|] eqn:Hcur.
  - unfold rest_prog in H. cbv beta iota in H.
    change (m_step M l (c_sh c)) with (step l (c_sh c)) in H. unfold after.
    destruct (step l (c_sh c)); try discriminate; injection H as <- _; reflexivity.
  - destruct (t_prog th) as [|o pr] eqn:Hprog; [discriminate|]. exists o, pr. split; [reflexivity|].
    unfold rest_prog in H. cbv beta iota in H. rewrite Hprog in H. simpl tl in H.
    change (m_step M (m_start M (t_ts th) o) (c_sh c)) with (step (AInv o) (c_sh c)) in H.
    unfold after.
    destruct (step (AInv o) (c_sh c)); try discriminate; injection H as <- _; reflexivity.
Qed.

Lemma has_dead_step (c : acfg) t c' e :
  has_dead c -> step_thread M c t = Some (c', e) -> has_dead c'.
Proof.
  intros (th & Hin & Hd) H.
  apply In_nth_error in Hin. destruct Hin as [i Hi].
  assert (Hc' : c' = step_cfg M c t) by (unfold step_cfg; rewrite H; reflexivity).
  destruct (Nat.eq_dec i t) as [->|Hne].
  - unfold step_thread in H. rewrite Hi in H. unfold view in H. rewrite Hd in H. discriminate.
  - exists th. split; [|exact Hd]. apply nth_error_In with (n := i).
    rewrite Hc'. rewrite step_cfg_other by exact Hne. exact Hi.
Qed.

Theorem pres_step (T : Z) (c : acfg) t c' e :
  P nrm T c -> step_thread M c t = Some (c', e) -> P nrm T c'.
Proof.
  intros [Hdead|HI] H.
  - left. eapply has_dead_step; eauto.
  - destruct (step_after _ _ _ _ H) as (th & Hn & Hd & Hs).
    destruct (iv_thr HI _ _ Hn) as (_ & Hp & Hc).
    destruct (t_cur th) as [[o l]|] eqn:Hcur.
    + destruct Hc as [Hu Hk].
      destruct l; simpl in Hk; try contradiction.
      all: first
        [ eapply pres_add; try eassumption; exact I
        | eapply pres_attach; try eassumption; exact I
        | eapply pres_grow; try eassumption; exact I
        | eapply pres_create; try eassumption; exact I ].
    + destruct Hs as (o & pr & Hprog & Hs).
      assert (Hu : is_update o = true) by (apply Hp; rewrite Hprog; left; reflexivity).
      assert (Hp' : forall o', In o' pr -> is_update o' = true).
      { intros o' Ho'. apply Hp. rewrite Hprog. right. exact Ho'. }
      destruct o; try discriminate; simpl in Hs; injection Hs as <-; right;
        (eapply Inv_Q with (th := th); try eassumption; try reflexivity;
         [ split; [reflexivity|split; [exact Hp'|split; [exact Hu|reflexivity]]]
         | unfold lockedth; rewrite Hcur; reflexivity
         | unfold ownedth; rewrite Hcur; apply incl_refl
         | unfold pend_th; rewrite Hcur, Hprog; unfold zsum; cbn [t_prog t_cur effected delta map fold_right]; ring ]).
Qed.

(** ** the initial configuration *)

Lemma total_zsum (progs : list (list aop)) : total progs = zsum (map delta (concat progs)).
Proof. reflexivity. Qed.

Lemma pending_init (progs : list (list aop)) :
  pending (map (mk_thread apc tt) progs) = total progs.
Proof.
  induction progs as [|p ps IH]; [reflexivity|].
  change (pending (map (mk_thread apc tt) (p :: ps)))
    with (pend_th (mk_thread apc tt p) + pending (map (mk_thread apc tt) ps)).
  rewrite IH, !total_zsum. simpl concat. rewrite map_app, zsum_app.
  unfold pend_th, mk_thread. cbn [t_prog t_cur]. ring.
Qed.

Lemma Inv_init rnd progs :
  updates_only progs -> Inv nrm (total progs) (init apc (ainit rnd) tt progs).
Proof.
  intros Hup.
  assert (Hth : forall t th, nth_error (map (mk_thread apc tt) progs) t = Some th ->
                exists p, In p progs /\ th = mk_thread apc tt p).
  { intros t th H. apply nth_error_In in H. apply in_map_iff in H. destruct H as (p & <- & Hp). eauto. }
  constructor; simpl.
  - constructor; simpl; auto; try discriminate; try congruence.
    + intros _ _ a cc. unfold arr_of. simpl. destruct a; intros [].
    + constructor.
    + intros cc [].
  - intros t th H. destruct (Hth _ _ H) as (p & Hp & ->). split; [reflexivity|]. split; [|exact I].
    intros o Ho. apply (Hup p o Hp Ho).
  - intros t th H. destruct (Hth _ _ H) as (p & Hp & ->). discriminate.
  - intros t1 t2 th1 th2 H1 _. destruct (Hth _ _ H1) as (p & Hp & ->). discriminate.
  - intros t th r H. destruct (Hth _ _ H) as (p & Hp & ->). intros [].
  - unfold att. simpl. unfold cellsum. simpl. rewrite pending_init. f_equal.
Qed.

Lemma pending_done (thr : list athread) :
  (forall th, In th thr -> t_prog th = [] /\ t_cur th = None /\ t_dead th = false) -> pending thr = 0.
Proof.
  unfold pending. induction thr as [|th thr IH]; intros H; simpl; [reflexivity|].
  rewrite IH by (intros th' Hin; apply H; right; exact Hin).
  destruct (H th (or_introl eq_refl)) as (Hp & Hc & _).
  unfold pend_th. rewrite Hp, Hc. reflexivity.
Qed.

(** the state invariant of quiescent configurations *)
Theorem striped_quiescent_sum rnd progs sched :
  updates_only progs ->
  let c := final M (init apc (ainit rnd) tt progs) sched in
  all_done c ->
  Glob nrm (c_sh c) /\
  nrm (a_base (c_sh c) + cellsum (c_sh c) (att (c_sh c))) = nrm (total progs).
Proof.
  intros Hup c Hdone.
  assert (HP : P nrm (total progs) c).
  { unfold c. apply invariant_run.
    - right. apply Inv_init. exact Hup.
    - intros c0 t c' e H0 Hs. eapply pres_step; eauto. }
  destruct HP as [(th & Hin & Hd)|HI].
  - destruct (Hdone th Hin) as (_ & _ & Hd'). congruence.
  - split; [apply (iv_glob HI)|].
    rewrite <- (iv_sum HI). rewrite (pending_done _ Hdone). f_equal. ring.
Qed.

(** ** a Sum running alone *)

Definition sumcfg (s : ashared) (l : apc) : acfg :=
  Config s [Thread (@nil aop) tt (Some (Sum, l)) false].

Definition solo (s : ashared) (l : apc) (v : Z) : Prop :=
  exists k, In (ERet 0%nat Sum (RZ v)) (trace M (sumcfg s l) (repeat 0%nat k)).

Lemma solo_next s l l' v : step l s = Next l' s -> solo s l' v -> solo s l v.
Proof.
  intros E [k Hk]. exists (S k). simpl repeat. rewrite trace_cons. apply in_or_app. right.
  assert (Es : step_cfg M (sumcfg s l) 0 = sumcfg s l').
  { unfold step_cfg, step_thread, sumcfg. simpl.
    change (astep vadd f64 maxcells l s) with (step l s). rewrite E. reflexivity. }
  rewrite Es. exact Hk.
Qed.

Lemma solo_fin s l v : step l s = Done (RZ v) tt s -> solo s l v.
Proof.
  intros E. exists 1%nat. simpl repeat. rewrite trace_cons. apply in_or_app. left.
  unfold step_evs, step_thread, sumcfg. simpl.
  change (astep vadd f64 maxcells l s) with (step l s). rewrite E. simpl. left. reflexivity.
Qed.

Lemma skipn_nth_cons (l : list nat) i : (i < length l)%nat -> skipn i l = nth i l O :: skipn (S i) l.
Proof.
  revert i; induction l as [|a l IH]; intros [|i] H; simpl in *; try lia; auto.
  rewrite IH by lia. reflexivity.
Qed.

Lemma in_skipn_nth (l : list nat) j c : In c (skipn j l) -> exists i, (j <= i)%nat /\ nth i l O = c /\ (i < length l)%nat.
Proof.
  revert j; induction l as [|a l IH]; intros j H.
  - destruct j; contradiction.
  - destruct j as [|j].
    + change (skipn 0 (a :: l)) with (a :: l) in H. apply In_nth with (d := O) in H.
      destruct H as (i & Hi & E). exists i. repeat split; auto. lia.
    + simpl in H. destruct (IH j H) as (i & Hi & E & Hl). exists (S i). simpl. repeat split; auto; lia.
Qed.

Lemma fold_vadd (vals : list Z) (b : Z) :
  nrm b = b -> fold_left vadd vals b = nrm (b + zsum vals).
Proof.
  intros Hb. unfold zsum. rewrite <- (fold_vadd_nrm nrm nrm_add vals b Hb).
  revert b Hb. induction vals as [|v vals IH]; intros b Hb; simpl; [reflexivity|].
  rewrite vadd_def. apply IH. apply (nrm_idem nrm nrm_add).
Qed.

Lemma solo_loop s tab :
  Glob nrm s -> a_table s = Some tab ->
  forall n i sum, n = (snd tab - i)%nat -> (i < snd tab)%nat ->
  solo s (S3 None sum tab i)
       (fold_left vadd (map (cellval s) (filter nz (skipn i (arr_of s (fst tab))))) sum).
Proof.
  intros G Ht. destruct (gl_tab G _ Ht) as [Hft Hlen].
  set (arr := arr_of s (fst tab)) in *.
  assert (Hslot : forall i, (i < snd tab)%nat -> get_slot s (fst tab) i = Some (nth i arr O)).
  { intros i Hi. unfold get_slot. rewrite (arr_of_nth_error _ _ Hft). fold arr.
    apply nth_error_nth'. lia. }
  assert (Hend : forall i, (snd tab <= i)%nat -> filter nz (skipn i arr) = []).
  { intros i Hi. apply filter_nz_all_zero. intros cc Hc.
    destruct (in_skipn_nth _ _ _ Hc) as (k & Hk & <- & _). apply (gl_tail G _ Ht). lia. }
  induction n as [|n IH]; intros i sum Hn Hi; [lia|].
  rewrite (skipn_nth_cons arr i) by lia.
  destruct (nth i arr O) as [|cc] eqn:Ec.
  - (* empty slot *)
    change (filter nz (O :: skipn (S i) arr)) with (filter nz (skipn (S i) arr)).
    destruct (Nat.ltb_spec (S i) (snd tab)) as [Hlt|Hge].
    + eapply solo_next; [|apply IH; lia].
      simpl. rewrite (Hslot i Hi), Ec. destruct (Nat.ltb_spec (S i) (snd tab)); [reflexivity|lia].
    + rewrite (Hend (S i) Hge). simpl. apply solo_fin.
      simpl. rewrite (Hslot i Hi), Ec. destruct (Nat.ltb_spec (S i) (snd tab)); [lia|reflexivity].
  - (* a cell *)
    assert (Hin : In (S cc) (att s)).
    { unfold att. rewrite Ht. fold arr. apply in_filter_nz. split; [|discriminate].
      rewrite <- Ec. apply nth_In. lia. }
    assert (Hv : valid_cell s (S cc)) by (split; [discriminate|apply (gl_valid G _ Hin)]).
    destruct (valid_get_cell _ _ Hv) as [v Hg].
    assert (Ecv : cellval s (S cc) = v) by (unfold cellval; rewrite Hg; reflexivity).
    simpl in Hg.
    change (filter nz (S cc :: skipn (S i) arr)) with (S cc :: filter nz (skipn (S i) arr)).
    cbn [map fold_left]. rewrite Ecv.
    eapply solo_next; [simpl; rewrite (Hslot i Hi), Ec; reflexivity|].
    destruct (Nat.ltb_spec (S i) (snd tab)) as [Hlt|Hge].
    + eapply solo_next; [|apply IH; lia].
      simpl. rewrite Hg. destruct (Nat.ltb_spec (S i) (snd tab)); [reflexivity|lia].
    + rewrite (Hend (S i) Hge). simpl. apply solo_fin.
      simpl. rewrite Hg. destruct (Nat.ltb_spec (S i) (snd tab)); [lia|reflexivity].
Qed.

(** a Sum alone returns base plus the attached cells *)
Lemma solo_sum s :
  Glob nrm s ->
  solo_returns M tt s Sum (RZ (nrm (a_base s + cellsum s (att s)))).
Proof.
  intros G.
  assert (Hstart : forall v, solo s (S1 None) v -> solo_returns M tt s Sum (RZ v)).
  { intros v [k Hk]. exists (S k). simpl repeat. rewrite trace_cons. apply in_or_app. right. exact Hk. }
  apply Hstart. eapply solo_next; [reflexivity|].
  pose proof (gl_base G) as Hb.
  destruct (a_table s) as [tab|] eqn:Ht.
  - destruct (Nat.eqb_spec (snd tab) 0) as [E0|E0].
    + assert (Ea : att s = []).
      { unfold att. rewrite Ht. apply filter_nz_all_zero. intros cc Hc.
        apply In_nth with (d := O) in Hc. destruct Hc as (i & _ & <-). apply (gl_tail G _ Ht). lia. }
      rewrite Ea. unfold cellsum. simpl. rewrite Z.add_0_r, Hb.
      apply solo_fin. simpl. rewrite Ht. destruct (Nat.eqb_spec (snd tab) 0); [reflexivity|contradiction].
    + eapply solo_next.
      * simpl. rewrite Ht. destruct (Nat.eqb_spec (snd tab) 0); [contradiction|reflexivity].
      * pose proof (solo_loop s tab G Ht (snd tab - 0) 0 (a_base s) eq_refl ltac:(lia)) as HL.
        simpl skipn in HL. rewrite (fold_vadd _ _ Hb) in HL.
        unfold cellsum, att. rewrite Ht. exact HL.
  - assert (Ea : att s = []) by (unfold att; rewrite Ht; reflexivity).
    rewrite Ea. unfold cellsum. simpl. rewrite Z.add_0_r, Hb.
    apply solo_fin. simpl. rewrite Ht. reflexivity.
Qed.

(** the main theorem, generic in the adder kind *)
Theorem striped_no_lost_update_gen rnd progs sched :
  updates_only progs ->
  let c := final M (init apc (ainit rnd) tt progs) sched in
  all_done c ->
  solo_returns M tt (c_sh c) Sum (RZ (nrm (total progs))).
Proof.
  intros Hup c Hdone.
  destruct (striped_quiescent_sum rnd progs sched Hup Hdone) as [G Hs].
  fold c in G, Hs. rewrite <- Hs. apply solo_sum. exact G.
Qed.

End Generic.

(** ** the two adder kinds *)

Lemma wrap64_0 : wrap64 0 = 0.
Proof. reflexivity. Qed.

Section StripedCorrect.
Variable f64 : bool.
Variable maxcells : Z.

(** int64 variant ([wadd]): Sum returns the wrapped total *)
Theorem striped_no_lost_update : forall (rnd : list Z) (progs : list (list aop)) (sched : list nat),
  updates_only progs ->
  let c := final (striped wadd f64 maxcells) (init apc (ainit rnd) tt progs) sched in
  all_done c ->
  solo_returns (striped wadd f64 maxcells) tt (c_sh c) Sum (RZ (wrap64 (total progs))).
Proof.
  intros rnd progs sched Hup c Hdone.
  apply (striped_no_lost_update_gen wrap64 wrap64_add_l wrap64_0 wadd (fun a b => eq_refl)
           f64 maxcells rnd progs sched Hup Hdone).
Qed.

(** exact variant ([Z.add], the float adders on exactly representable sums) *)
Theorem striped_no_lost_update_exact : forall (rnd : list Z) (progs : list (list aop)) (sched : list nat),
  updates_only progs ->
  let c := final (striped Z.add f64 maxcells) (init apc (ainit rnd) tt progs) sched in
  all_done c ->
  solo_returns (striped Z.add f64 maxcells) tt (c_sh c) Sum (RZ (total progs)).
Proof.
  intros rnd progs sched Hup c Hdone.
  apply (striped_no_lost_update_gen (fun z => z) (fun a b => eq_refl) eq_refl Z.add (fun a b => eq_refl)
           f64 maxcells rnd progs sched Hup Hdone).
Qed.

(** the state invariant of quiescent configurations, int64 variant *)
Theorem striped_quiescent_state : forall (rnd : list Z) (progs : list (list aop)) (sched : list nat),
  updates_only progs ->
  let c := final (striped wadd f64 maxcells) (init apc (ainit rnd) tt progs) sched in
  all_done c ->
  wrap64 (a_base (c_sh c) + cellsum (c_sh c) (att (c_sh c))) = wrap64 (total progs).
Proof.
  intros rnd progs sched Hup c Hdone.
  apply (striped_quiescent_sum wrap64 wrap64_add_l wrap64_0 wadd (fun a b => eq_refl)
           f64 maxcells rnd progs sched Hup Hdone).
Qed.

End StripedCorrect.

(** the two concrete machines of the model file *)
Corollary jdk_adder_no_lost_update maxcells rnd progs sched :
  updates_only progs ->
  let c := final (jdk_adder maxcells) (init apc (ainit rnd) tt progs) sched in
  all_done c ->
  solo_returns (jdk_adder maxcells) tt (c_sh c) Sum (RZ (wrap64 (total progs))).
Proof. apply striped_no_lost_update. Qed.

Corollary jdk_f64_adder_no_lost_update maxcells rnd progs sched :
  updates_only progs ->
  let c := final (jdk_f64_adder maxcells) (init apc (ainit rnd) tt progs) sched in
  all_done c ->
  solo_returns (jdk_f64_adder maxcells) tt (c_sh c) Sum (RZ (total progs)).
Proof. apply striped_no_lost_update_exact. Qed.

Print Assumptions striped_no_lost_update.
Print Assumptions striped_no_lost_update_exact.
Print Assumptions striped_quiescent_state.
Print Assumptions jdk_adder_no_lost_update.
Print Assumptions jdk_f64_adder_no_lost_update.
