(** RandomCellAdder: a concurrent update phase started from an ARBITRARY state
    (at least one cell) loses no update: once every goroutine has returned the
    wrap-around sum of the cells is the old one plus the exact total added. *)
From Coq Require Import List Arith Bool ZArith Lia.
From Garr Require Import Conc.Conc Pure.F64 Adder.StripedModel Adder.SimpleModel Adder.AdderSpec
     Adder.SimpleRC.
Import ListNotations.
Local Open Scope Z_scope.

Lemma RI_init_gen (s0 : rshared) progs : updates_only progs ->
  RI (length (rc_cells s0)) (zsum (rc_cells s0) + total progs) (init rpc s0 tt progs).
Proof.
  intros Hu. constructor; simpl.
  - reflexivity.
  - intros t th H. apply nth_error_In in H. apply in_map_iff in H.
    destruct H as [p [<- Hp]]. unfold rtok; simpl. repeat split.
    intros o Ho. eapply Hu; eauto.
  - rewrite total_pending. apply congr64_refl.
Qed.

Lemma RI_reach (s0 : rshared) progs sched :
  (0 < length (rc_cells s0))%nat -> updates_only progs ->
  RI (length (rc_cells s0)) (zsum (rc_cells s0) + total progs)
     (final rc_adder (init rpc s0 tt progs) sched).
Proof.
  intros Hn Hu.
  apply invariant_run with (P := RI (length (rc_cells s0)) (zsum (rc_cells s0) + total progs)).
  - apply RI_init_gen; exact Hu.
  - intros c0 t c' e H0 Hs. eapply RI_step; eauto.
Qed.

Theorem rc_update_phase : forall (s0 : rshared) progs sched,
  (0 < length (rc_cells s0))%nat -> updates_only progs ->
  let c := final rc_adder (init rpc s0 tt progs) sched in
  all_done c ->
  cells_sum (rc_cells (c_sh c)) = wadd (cells_sum (rc_cells s0)) (total progs) /\
  length (rc_cells (c_sh c)) = length (rc_cells s0).
Proof.
  intros s0 progs sched Hn Hu c Hdone.
  pose proof (RI_reach s0 progs sched Hn Hu) as HI. fold c in HI.
  split; [|apply (ri_len HI)].
  rewrite !cells_sum_zsum. unfold wadd. rewrite wrap64_wrap64_add.
  apply wrap64_of_congr64.
  pose proof (ri_sum HI) as Hs. rewrite (pending_done _ Hdone) in Hs.
  rewrite Z.add_0_r in Hs. exact Hs.
Qed.

Print Assumptions rc_update_phase.

(** the number of cells never changes during an update phase (also before
    the goroutines have finished) *)
Theorem rc_update_phase_length : forall (s0 : rshared) progs sched,
  (0 < length (rc_cells s0))%nat -> updates_only progs ->
  length (rc_cells (c_sh (final rc_adder (init rpc s0 tt progs) sched))) = length (rc_cells s0).
Proof. intros s0 progs sched Hn Hu. apply (ri_len (RI_reach s0 progs sched Hn Hu)). Qed.

Print Assumptions rc_update_phase_length.
