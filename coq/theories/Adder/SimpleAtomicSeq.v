(** Atomic adders (atomicAdder.go, atomicF64Adder.go): one goroutine running
    ANY operations (including SumAndReset, Store, Reset) alone from any value
    behaves like a plain number.  [spec_run]/[rets] are
    [StripedSeq.spec_run]/[StripedSeq.rets] (re-exported as notations by
    SimpleSeqLib). *)
From Coq Require Import List Arith Bool ZArith Lia.
From Garr Require Import Conc.Conc Adder.StripedModel Adder.SimpleModel Adder.AdderSpec
     Adder.StripedSeq Adder.SimpleSeqLib.
Import ListNotations.
Local Open Scope Z_scope.

Section AtomicSeq.
Variable vadd : Z -> Z -> Z.
Variable f64 : bool.
Notation M := (atomic_machine vadd f64).
Notation truns := (runs M).

Lemma atomic_add_alone (x v : Z) l :
  tstep vadd f64 l v = (if f64 then Next (TLoad x) v else Next (TAdd x) v) ->
  truns l v RU (vadd v x).
Proof.
  intros E. destruct f64 eqn:Ef.
  - eapply runs_next; [exact E|].
    eapply runs_next; [simpl; reflexivity|].
    apply runs_done. simpl. rewrite Z.eqb_refl. reflexivity.
  - eapply runs_next; [exact E|].
    apply runs_done. reflexivity.
Qed.

Lemma atomic_op_alone (v : Z) (o : aop) :
  True -> True ->
  exists v' r, truns (m_start M tt o) v r v' /\ True /\
               counter_spec vadd ((fun z : Z => z) v) o = ((fun z : Z => z) v', r).
Proof.
  intros _ _. cbv beta. change (m_start M tt o) with (TInv o).
  destruct o as [x| | | | | |x].
  - exists (vadd v x), RU. split; [|auto]. apply atomic_add_alone. simpl. destruct f64; reflexivity.
  - exists (vadd v 1), RU. split; [|auto]. apply atomic_add_alone. simpl. destruct f64; reflexivity.
  - exists (vadd v (-1)), RU. split; [|auto]. apply atomic_add_alone. simpl. destruct f64; reflexivity.
  - exists v, (RZ v). split; [|auto].
    eapply runs_next; [reflexivity|]. apply runs_done. reflexivity.
  - exists 0, RU. split; [|auto].
    eapply runs_next; [reflexivity|]. apply runs_done. reflexivity.
  - exists 0, (RZ v). split; [|auto].
    eapply runs_next; [reflexivity|].
    eapply runs_next; [reflexivity|]. apply runs_done. reflexivity.
  - exists x, RU. split; [|auto].
    eapply runs_next; [reflexivity|]. apply runs_done. reflexivity.
Qed.

Theorem atomic_sequential_number : forall (ops : list aop) (v : Z),
  exists n, forall m, (n <= m)%nat ->
    let '(c, e) := run M (Config v [mk_thread tpc tt ops]) (repeat 0%nat m) in
    rets e = snd (spec_run vadd v ops) /\
    c_sh c = fst (spec_run vadd v ops).
Proof.
  intros ops v.
  destruct (sequential_number_gen M vadd (fun _ => True) (fun z => z) (fun _ => True)
              atomic_op_alone ops v I) as [n Hn].
  { apply Forall_forall. intros; exact I. }
  exists n. intros m Hm. specialize (Hn m Hm).
  destruct (run M (Config v [mk_thread tpc tt ops]) (repeat 0%nat m)) as [c e].
  destruct Hn as (H1 & _ & H2). split; assumption.
Qed.

Theorem atomic_seq_done : forall (v : Z) (ops : list aop) m c e,
  run M (Config v [mk_thread tpc tt ops]) (repeat 0%nat m) = (c, e) -> all_done c ->
  rets e = snd (spec_run vadd v ops) /\
  c_sh c = fst (spec_run vadd v ops).
Proof.
  intros v ops m c e Hrun Hdone.
  destruct (seq_done_gen M vadd (fun _ => True) (fun z => z) (fun _ => True)
              atomic_op_alone v ops m c e I) as (H1 & _ & H2); auto.
  apply Forall_forall. intros; exact I.
Qed.

End AtomicSeq.

Print Assumptions atomic_sequential_number.
Print Assumptions atomic_seq_done.

(** ** instances *)
Theorem atomic_adder_sequential_number : forall (ops : list aop) (v : Z),
  exists n, forall m, (n <= m)%nat ->
    let '(c, e) := run atomic_adder (Config v [mk_thread tpc tt ops]) (repeat 0%nat m) in
    rets e = snd (spec_run wadd v ops) /\
    c_sh c = fst (spec_run wadd v ops).
Proof. exact (atomic_sequential_number wadd false). Qed.

Theorem atomic_adder_seq_done : forall (v : Z) (ops : list aop) m c e,
  run atomic_adder (Config v [mk_thread tpc tt ops]) (repeat 0%nat m) = (c, e) -> all_done c ->
  rets e = snd (spec_run wadd v ops) /\
  c_sh c = fst (spec_run wadd v ops).
Proof. exact (atomic_seq_done wadd false). Qed.

Theorem atomic_f64_adder_sequential_number : forall (ops : list aop) (v : Z),
  exists n, forall m, (n <= m)%nat ->
    let '(c, e) := run atomic_f64_adder (Config v [mk_thread tpc tt ops]) (repeat 0%nat m) in
    rets e = snd (spec_run Z.add v ops) /\
    c_sh c = fst (spec_run Z.add v ops).
Proof. exact (atomic_sequential_number Z.add true). Qed.

Theorem atomic_f64_adder_seq_done : forall (v : Z) (ops : list aop) m c e,
  run atomic_f64_adder (Config v [mk_thread tpc tt ops]) (repeat 0%nat m) = (c, e) -> all_done c ->
  rets e = snd (spec_run Z.add v ops) /\
  c_sh c = fst (spec_run Z.add v ops).
Proof. exact (atomic_seq_done Z.add true). Qed.

Print Assumptions atomic_adder_sequential_number.
Print Assumptions atomic_adder_seq_done.
Print Assumptions atomic_f64_adder_sequential_number.
Print Assumptions atomic_f64_adder_seq_done.
