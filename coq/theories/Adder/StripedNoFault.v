(** Absence of faults of the striped adder, for ALL programs and schedules.

    A [Fault] outcome of [astep] models an index out of range / nil
    dereference of the Go code: a missing slot ([get_slot = None]), a missing
    cell ([get_cell = None]), a missing table at a type assertion, a missing
    array in the [copy].  The invariants of StripedInv.v are proved in the
    form [has_dead c \/ Inv c]: faults are absorbed there.  Here they are
    excluded, by a SHAPE invariant that is independent of [Inv], of the
    arithmetic ([vadd] arbitrary) and of the programs (updates, Sum, Reset,
    SumAndReset, Store in any mixture):

    - [SH s]: the published table points at a live array at least as long
      as its length field, and every array slot holds 0 or a live cell id;
    - [nf l s]: what the registers of a thread at pc [l] know: table registers
      are [tab_ok], slot indices are below the table length, cell ids are
      valid, a thread that has seen a table knows there still is one, the
      private arrays of the growth / creation / reset paths are long enough;
    - [mono s s']: the heap only grows (arrays are never removed and never
      shrink, cells are never removed, the table is never un-published), and
      every [nf] fact is stable under [mono]. *)
From Coq Require Import List Arith Bool ZArith Lia.
From Garr Require Import Conc.Conc Pure.F64 Adder.StripedModel Adder.AdderSpec Adder.StripedLib
  Adder.StripedInv Adder.StripedPres Adder.StripedProofs Adder.StripedLocal.
Import ListNotations.
Local Open Scope Z_scope.

(** ** the shape of the heap *)

Definition SH (s : ashared) : Prop :=
  (forall tab, a_table s = Some tab -> tab_ok s tab) /\
  (forall a c, In c (arr_of s a) -> (c <= length (a_cells s))%nat).

Definition mono (s s' : ashared) : Prop :=
  (a_table s <> None -> a_table s' <> None) /\
  (length (a_arrays s) <= length (a_arrays s'))%nat /\
  (forall a, (a < length (a_arrays s))%nat -> (length (arr_of s a) <= length (arr_of s' a))%nat) /\
  (length (a_cells s) <= length (a_cells s'))%nat.

Lemma mono_refl s : mono s s.
Proof. unfold mono. repeat split; auto. Qed.

Lemma mono_trans s1 s2 s3 : mono s1 s2 -> mono s2 s3 -> mono s1 s3.
Proof.
  intros (A1 & A2 & A3 & A4) (B1 & B2 & B3 & B4). repeat split; auto; try lia.
  intros a Ha. specialize (A3 a Ha). specialize (B3 a ltac:(lia)). lia.
Qed.

Lemma tab_ok_mono s s' tab : mono s s' -> tab_ok s tab -> tab_ok s' tab.
Proof.
  intros (_ & M2 & M3 & _) [H1 H2]. split; [lia|]. specialize (M3 _ H1). lia.
Qed.

Lemma valid_mono s s' r : mono s s' -> valid_cell s r -> valid_cell s' r.
Proof. intros (_ & _ & _ & M4) [H1 H2]. split; [exact H1|lia]. Qed.

Lemma table_mono s s' : mono s s' -> a_table s <> None -> a_table s' <> None.
Proof. intros (M1 & _). exact M1. Qed.

(** what a thread at pc [l] knows *)
Definition nf (l : apc) (s : ashared) : Prop :=
  match l with
  | AddSlot _ tab probe => tab_ok s tab /\ (Z.to_nat probe < snd tab)%nat
  | AddCellLoad _ _ c | AddCellCas _ _ c _ => valid_cell s c
  | L2 _ tab => a_table s <> None /\ tab_ok s tab /\ (0 < snd tab)%nat
  | L3 _ _ => a_table s <> None
  | L3f _ r | L4 _ r | L5 _ r | L6 _ r => a_table s <> None /\ valid_cell s r
  | L7 _ r rs j => valid_cell s r /\ tab_ok s rs /\ (j < snd rs)%nat
  | L8 _ r _ _ => valid_cell s r
  | L10 _ tab c | L11 _ tab c _ => a_table s <> None /\ tab_ok s tab /\ valid_cell s c
  | L12 _ tab | L13 _ tab | L14 _ tab | L15 _ tab => a_table s <> None /\ tab_ok s tab
  | Lcopy _ tab arr => tab_ok s tab /\ tab_ok s (arr, (snd tab * 4)%nat)
  | L16 _ nt => tab_ok s nt
  | C4f _ arr r | C5 _ arr r => tab_ok s (arr, 2%nat) /\ valid_cell s r
  | C6 _ arr => tab_ok s (arr, 2%nat)
  | S3 _ _ tab i => tab_ok s tab /\ (i < snd tab)%nat
  | S4 _ _ tab _ c => tab_ok s tab /\ valid_cell s c
  | T3 arr len _ _ | T4 arr len _ => tab_ok s (arr, len)
  | _ => True
  end.

Lemma nf_mono l s s' : mono s s' -> nf l s -> nf l s'.
Proof.
  intros Hm H.
  destruct l; simpl in *; try exact I;
    repeat match goal with H : _ /\ _ |- _ => destruct H end;
    repeat match goal with |- _ /\ _ => split end;
    eauto using tab_ok_mono, valid_mono, table_mono.
Qed.

(** ** the primitive heap operations keep the shape and only grow the heap *)

Definition ok2 (s s' : ashared) : Prop := SH s' /\ mono s s'.

Lemma ok2_trans s1 s2 s3 : ok2 s1 s2 -> ok2 s2 s3 -> ok2 s1 s3.
Proof. intros [_ M1] [S2 M2]. split; [exact S2|eapply mono_trans; eauto]. Qed.

Lemma ok_heq s s' :
  SH s -> a_table s' = a_table s -> a_arrays s' = a_arrays s -> a_cells s' = a_cells s -> ok2 s s'.
Proof.
  intros [H1 H2] Et Ea Ec. split.
  - split.
    + intros tab E. rewrite Et in E. specialize (H1 _ E). unfold tab_ok, arr_of in *. rewrite Ea. exact H1.
    + intros a c. unfold arr_of. rewrite Ea, Ec. apply H2.
  - unfold mono, arr_of. rewrite Et, Ea, Ec. repeat split; auto.
Qed.

Lemma ok_refl s : SH s -> ok2 s s.
Proof. intros H. apply ok_heq; auto. Qed.

Lemma ok_set_cell s c v : SH s -> ok2 s (set_cell s c v).
Proof.
  intros [H1 H2]. destruct c as [|i]; [apply ok_refl; split; assumption|].
  split.
  - split; [exact H1|]. intros a c0 Hin. simpl. rewrite upd_length. apply (H2 a c0 Hin).
  - unfold mono. simpl. rewrite upd_length. repeat split; auto.
Qed.

Lemma ok_new_cell s v : SH s -> ok2 s (snd (new_cell s v)).
Proof.
  intros [H1 H2]. split.
  - split; [exact H1|]. intros a c Hin. simpl. rewrite app_length. specialize (H2 a c Hin). lia.
  - unfold mono. simpl. rewrite app_length. repeat split; auto. lia.
Qed.

Lemma new_cell_valid s v : valid_cell (snd (new_cell s v)) (fst (new_cell s v)).
Proof. unfold valid_cell. simpl. rewrite app_length. simpl. split; [discriminate|lia]. Qed.

Lemma arr_of_new_array s k a :
  arr_of (snd (new_array s k)) a = if Nat.eqb a (length (a_arrays s)) then repeat O k else arr_of s a.
Proof. unfold arr_of. simpl. apply arr_of_app. Qed.

Lemma ok_new_array s k : SH s -> ok2 s (snd (new_array s k)).
Proof.
  intros [H1 H2].
  assert (Hm : mono s (snd (new_array s k))).
  { unfold mono. repeat split; auto.
    - simpl. rewrite app_length. lia.
    - intros a Ha. rewrite arr_of_new_array. destruct (Nat.eqb_spec a (length (a_arrays s))); [lia|auto]. }
  split; [|exact Hm]. split.
  - intros tab E. apply (tab_ok_mono s); [exact Hm|]. apply H1. exact E.
  - intros a c. rewrite arr_of_new_array. destruct (Nat.eqb_spec a (length (a_arrays s))).
    + intros Hin. apply repeat_spec in Hin. subst c. lia.
    + apply H2.
Qed.

Lemma new_array_tab_ok s k : tab_ok (snd (new_array s k)) (fst (new_array s k), k).
Proof.
  unfold tab_ok. cbn [fst snd]. rewrite arr_of_new_array. simpl fst. rewrite Nat.eqb_refl, repeat_length.
  split; [|lia]. simpl. rewrite app_length. simpl. lia.
Qed.

Lemma ok_arrays_upd s a x :
  SH s -> (a < length (a_arrays s))%nat ->
  (length (arr_of s a) <= length x)%nat ->
  (forall c, In c x -> (c <= length (a_cells s))%nat) ->
  ok2 s (AS (a_base s) (a_busy s) (a_table s) (upd (a_arrays s) a x) (a_cells s) (a_rnd s)).
Proof.
  intros [H1 H2] Ha Hlen Hin.
  set (s' := AS _ _ _ _ _ _).
  assert (Haro : forall a', arr_of s' a' = if Nat.eqb a a' then x else arr_of s a').
  { intros a'. unfold arr_of at 1. simpl. apply arr_of_upd. exact Ha. }
  assert (Hm : mono s s').
  { unfold mono. simpl. rewrite upd_length. repeat split; auto.
    intros a' Ha'. rewrite Haro. destruct (Nat.eqb_spec a a') as [<-|]; [exact Hlen|auto]. }
  split; [|exact Hm]. split.
  - intros tab E. apply (tab_ok_mono s); [exact Hm|]. apply H1. exact E.
  - intros a' c. rewrite Haro. destruct (Nat.eqb_spec a a'); [apply Hin|apply H2].
Qed.

Lemma ok_set_slot s a j r : SH s -> (r <= length (a_cells s))%nat -> ok2 s (set_slot s a j r).
Proof.
  intros HS Hr. unfold set_slot. destruct (nth_error (a_arrays s) a) as [x|] eqn:E; [|apply ok_refl; exact HS].
  destruct (nth_error_arr_of _ _ _ E) as [Ex Ha].
  apply ok_arrays_upd; auto.
  - rewrite Ex, upd_length. lia.
  - intros c Hc. apply in_upd in Hc. destruct Hc as [->|Hc]; [exact Hr|].
    apply (proj2 HS a). rewrite Ex. exact Hc.
Qed.

Lemma ok_set_table s nt : SH s -> tab_ok s nt -> ok2 s (set_table s (Some nt)).
Proof.
  intros [H1 H2] Hnt. split.
  - split; [|exact H2]. simpl. intros tab E. injection E as <-. exact Hnt.
  - unfold mono. simpl. repeat split; auto. discriminate.
Qed.

Lemma in_firstn {A} (x : A) n l : In x (firstn n l) -> In x l.
Proof. intros H. rewrite <- (firstn_skipn n l). apply in_or_app. left. exact H. Qed.

Lemma in_skipn {A} (x : A) n l : In x (skipn n l) -> In x l.
Proof. intros H. rewrite <- (firstn_skipn n l). apply in_or_app. right. exact H. Qed.

Lemma ok_lcopy s (tab : nat * nat) arr old new :
  SH s -> nth_error (a_arrays s) (fst tab) = Some old -> nth_error (a_arrays s) arr = Some new ->
  (snd tab <= length old)%nat ->
  ok2 s (AS (a_base s) (a_busy s) (a_table s)
            (upd (a_arrays s) arr (firstn (snd tab) old ++ skipn (snd tab) new)) (a_cells s) (a_rnd s)).
Proof.
  intros HS Eo En Hlen.
  destruct (nth_error_arr_of _ _ _ Eo) as [Exo Hao].
  destruct (nth_error_arr_of _ _ _ En) as [Exn Han].
  apply ok_arrays_upd; auto.
  - rewrite Exn, app_length, firstn_length, skipn_length. lia.
  - intros c Hc. apply in_app_or in Hc. destruct Hc as [Hc|Hc].
    + apply (proj2 HS (fst tab)). rewrite Exo. eapply in_firstn; eauto.
    + apply (proj2 HS arr). rewrite Exn. eapply in_skipn; eauto.
Qed.

(** reading a slot / a cell cannot fail *)
Lemma get_slot_some s tab i :
  tab_ok s tab -> (i < snd tab)%nat -> exists c, get_slot s (fst tab) i = Some c /\ In c (arr_of s (fst tab)).
Proof.
  intros [H1 H2] Hi. unfold get_slot. rewrite (arr_of_nth_error _ _ H1).
  destruct (nth_error (arr_of s (fst tab)) i) as [c|] eqn:E.
  - exists c. split; [reflexivity|]. eapply nth_error_In; eauto.
  - apply nth_error_None in E. lia.
Qed.

Lemma slot_valid s a c : SH s -> In (S c) (arr_of s a) -> valid_cell s (S c).
Proof. intros [_ H2] Hin. split; [discriminate|]. apply (H2 a). exact Hin. Qed.

Lemma cap_of_len s a : (a < length (a_arrays s))%nat -> cap_of s a = length (arr_of s a).
Proof. intros H. unfold cap_of. rewrite (arr_of_nth_error _ _ H). reflexivity. Qed.

(** ** one step *)

Section Step.
Variable vadd : Z -> Z -> Z.
Variable f64 : bool.
Variable maxcells : Z.
Notation step := (astep vadd f64 maxcells).
Notation M := (striped vadd f64 maxcells).

Definition good (s : ashared) (out : outcome ashared unit apc aret) : Prop :=
  match out with
  | Next l' s' => ok2 s s' /\ nf l' s'
  | Done _ _ s' => ok2 s s'
  | Fault => False
  | Blocked => True
  end.

(** a step that leaves table, arrays and cells alone and moves to a pc whose
    knowledge already holds *)
Lemma good_next_heq s s' l' :
  SH s -> a_table s' = a_table s -> a_arrays s' = a_arrays s -> a_cells s' = a_cells s ->
  nf l' s -> good s (Next l' s').
Proof.
  intros HS Et Ea Ec Hn. assert (Hok : ok2 s s') by (apply ok_heq; assumption).
  split; [exact Hok|]. eapply nf_mono; [apply Hok|exact Hn].
Qed.

Lemma good_done_heq s s' r :
  SH s -> a_table s' = a_table s -> a_arrays s' = a_arrays s -> a_cells s' = a_cells s ->
  good s (Done r tt s').
Proof. intros. simpl. apply ok_heq; assumption. Qed.

Lemma good_next_ok s s' l' : ok2 s s' -> nf l' s -> good s (Next l' s').
Proof. intros Hok Hn. split; [exact Hok|]. eapply nf_mono; [apply Hok|exact Hn]. Qed.

Lemma good_enter_acc x i u s : SH s -> good s (enter_acc x i u s).
Proof.
  intros HS. destruct (enter_acc_shape x i u s) as (st & s1 & E & _ & Et & Ea & _ & _ & Ec).
  rewrite E. apply good_next_heq; auto. exact I.
Qed.

Lemma good_enter_acc_rnd x u s : SH s -> good s (let '(r, s') := take_rnd s in enter_acc x r u s').
Proof.
  intros HS. pose proof (take_rnd_shape s) as (Et0 & Ea0 & _ & _ & Ec0).
  destruct (take_rnd s) as [r s0]. simpl in Et0, Ea0, Ec0.
  destruct (enter_acc_shape x r u s0) as (st & s1 & E & _ & Et & Ea & _ & _ & Ec).
  rewrite E. apply good_next_heq; try congruence. exact I.
Qed.

Lemma good_rehash st s : SH s -> good s (rehash st s).
Proof. intros HS. unfold rehash, goto. apply good_next_heq; auto. exact I. Qed.

(** end of a Sum scan *)
Lemma good_finish (k : option Z) sum s :
  SH s -> good s (match k with None => fin (RZ sum) s | Some _ => goto (T1 0 (RZ sum)) s end).
Proof.
  intros HS. destruct k; unfold fin, goto.
  - apply good_next_heq; auto. exact I.
  - apply good_done_heq; auto.
Qed.

Lemma good_sum_next (k : option Z) sum tab i s :
  SH s -> tab_ok s tab ->
  good s (if Nat.ltb (S i) (snd tab) then goto (S3 k sum tab (S i)) s
          else match k with None => fin (RZ sum) s | Some _ => goto (T1 0 (RZ sum)) s end).
Proof.
  intros HS Ht. destruct (Nat.ltb_spec (S i) (snd tab)) as [Hlt|Hge].
  - unfold goto. apply good_next_heq; auto. split; [exact Ht|exact Hlt].
  - apply good_finish. exact HS.
Qed.

Ltac heq_next := apply good_next_heq; [assumption|reflexivity|reflexivity|reflexivity|].
Ltac heq_done := apply good_done_heq; [assumption|reflexivity|reflexivity|reflexivity].

Theorem nf_step l s : SH s -> nf l s -> good s (step l s).
Proof.
  intros HS Hk.
  destruct l as [o|x|x|x b|x tab probe|x probe c|x probe c v|st|st tab|st tab|st r|st r|st r|st r
                |st r rs j|st r rs j|st done|st tab c|st tab c v|st tab|st tab|st tab|st tab|st tab arr
                |st nt|st|st|st|st|st|st arr r|st arr r|st arr|st|st v|k|k sum|k sum tab i|k sum tab i c
                |v ret|ret|arr len i ret|arr len ret];
    cbn [astep]; cbn [nf] in Hk.
  - (* AInv *)
    destruct o; unfold goto; heq_next; exact I.
  - (* AddLoadTab *)
    destruct (a_table s) as [tab|] eqn:Et; [|unfold goto; heq_next; exact I].
    destruct (nmask tab <? 0) eqn:Em.
    + apply good_enter_acc_rnd. exact HS.
    + pose proof (take_rnd_shape s) as (Et0 & Ea0 & _ & _ & Ec0).
      destruct (take_rnd s) as [r s0]. simpl in Et0, Ea0, Ec0. unfold goto.
      apply good_next_heq; auto. cbn [nf]. split; [apply (proj1 HS); exact Et|].
      apply Z.ltb_ge in Em. unfold nmask in *.
      pose proof (land_le_r r (Z.of_nat (snd tab) - 1) Em). lia.
  - (* AddLoadBase *) unfold goto; heq_next; exact I.
  - (* AddCasBase *)
    destruct (a_base s =? b).
    + unfold fin. heq_done.
    + apply good_enter_acc_rnd. exact HS.
  - (* AddSlot *)
    destruct Hk as [Ht Hp]. destruct (get_slot_some s tab _ Ht Hp) as (c & -> & Hin).
    destruct c as [|c].
    + apply good_enter_acc. exact HS.
    + unfold goto. heq_next. cbn [nf]. eapply slot_valid; eauto.
  - (* AddCellLoad *)
    destruct (valid_get_cell _ _ Hk) as [v ->]. unfold goto. heq_next. exact Hk.
  - (* AddCellCas *)
    destruct (valid_get_cell _ _ Hk) as [cur ->]. destruct (cur =? v).
    + unfold fin. simpl. apply ok_set_cell. exact HS.
    + apply good_enter_acc. exact HS.
  - (* L1 *)
    destruct (a_table s) as [tab|] eqn:Et; [|unfold goto; heq_next; exact I].
    destruct (nmask tab <? 0) eqn:Em; unfold goto; heq_next; [exact I|].
    cbn [nf]. split; [congruence|]. split; [apply (proj1 HS); exact Et|].
    apply Z.ltb_ge in Em. unfold nmask in Em. lia.
  - (* L2 *)
    destruct Hk as (Hnn & Ht & Hpos).
    assert (Hi : (slot_of (r_index st) tab < snd tab)%nat).
    { apply slot_of_lt. apply Z.ltb_ge. unfold nmask. lia. }
    destruct (get_slot_some s tab _ Ht Hi) as (c & -> & Hin).
    destruct c as [|c].
    + unfold goto. heq_next. exact Hnn.
    + destruct (negb (r_unc st)); [apply good_rehash; exact HS|].
      unfold goto. heq_next. cbn [nf]. split; [exact Hnn|]. split; [exact Ht|]. eapply slot_valid; eauto.
  - (* L3 *)
    destruct (a_busy s =? 0); [|apply good_rehash; exact HS].
    set (v := if f64 then 0 else r_x st).
    pose proof (ok_new_cell s v HS) as Hok. pose proof (new_cell_valid s v) as Hv.
    destruct (new_cell s v) as [r s'] eqn:En. cbn [fst snd] in Hok, Hv.
    destruct f64; unfold goto; (split; [exact Hok|]); cbn [nf]; (split; [|exact Hv]);
      apply (table_mono s); [apply Hok|exact Hk|apply Hok|exact Hk].
  - (* L3f *)
    unfold goto. apply good_next_ok; [apply ok_set_cell; exact HS|exact Hk].
  - (* L4 *)
    destruct (a_busy s =? 0); [unfold goto; heq_next; exact Hk|apply good_rehash; exact HS].
  - (* L5 *)
    destruct (a_busy s =? 0); [unfold goto; heq_next; exact Hk|apply good_rehash; exact HS].
  - (* L6 *)
    destruct Hk as [Hnn Hv].
    destruct (a_table s) as [rs|] eqn:Et; [|congruence].
    destruct (nmask rs <? 0) eqn:Em; unfold goto; heq_next; [exact I|].
    cbn [nf]. split; [exact Hv|]. split; [apply (proj1 HS); exact Et|]. apply slot_of_lt. exact Em.
  - (* L7 *)
    destruct Hk as (Hv & Ht & Hj). destruct (get_slot_some s rs j Ht Hj) as (c & -> & Hin).
    destruct c; unfold goto; heq_next; [exact Hv|exact I].
  - (* L8 *)
    unfold goto. apply good_next_ok; [|exact I]. apply ok_set_slot; [exact HS|apply Hk].
  - (* L9 *)
    destruct done; [unfold fin; heq_done|unfold goto; heq_next; exact I].
  - (* L10 *)
    destruct Hk as (Hnn & Ht & Hv). destruct (valid_get_cell _ _ Hv) as [v ->].
    unfold goto. heq_next. cbn [nf]. auto.
  - (* L11 *)
    destruct Hk as (Hnn & Ht & Hv). destruct (valid_get_cell _ _ Hv) as [cur ->].
    destruct (cur =? v).
    + unfold fin. simpl. apply ok_set_cell. exact HS.
    + destruct (nmask tab >=? maxcells); [apply good_rehash; exact HS|].
      unfold goto. heq_next. cbn [nf]. auto.
  - (* L12 *)
    destruct Hk as (Hnn & Ht). destruct (a_table s) as [cur|] eqn:Et; [|congruence].
    destruct (negb (fst cur =? fst tab)%nat); [apply good_rehash; exact HS|].
    destruct (negb (r_collide st)); [apply good_rehash; exact HS|].
    unfold goto. heq_next. cbn [nf]. split; [congruence|exact Ht].
  - (* L13 *)
    destruct (a_busy s =? 0); [unfold goto; heq_next; exact Hk|apply good_rehash; exact HS].
  - (* L14 *)
    destruct (a_busy s =? 0); [unfold goto; heq_next; exact Hk|apply good_rehash; exact HS].
  - (* L15 *)
    destruct Hk as (Hnn & Ht). destruct (a_table s) as [rs|] eqn:Et; [|congruence].
    destruct (Nat.eqb_spec (fst rs) (fst tab)) as [Ef|Ef]; [|unfold goto; heq_next; exact I].
    destruct Ht as [Ht1 Ht2]. rewrite (cap_of_len _ _ Ht1).
    destruct (Nat.ltb_spec (snd tab) (length (arr_of s (fst tab)))) as [Hlt|Hge].
    + unfold goto. heq_next. cbn [nf]. unfold tab_ok. cbn [fst snd]. rewrite Ef. split; [exact Ht1|lia].
    + set (k := (length (arr_of s (fst tab)) * 4)%nat).
      pose proof (ok_new_array s k HS) as Hok. pose proof (new_array_tab_ok s k) as Hnew.
      destruct (new_array s k) as [arr s'] eqn:En. cbn [fst snd] in Hok, Hnew.
      unfold goto. split; [exact Hok|]. cbn [nf]. split.
      * apply (tab_ok_mono s); [apply Hok|]. split; assumption.
      * assert (Ek : k = (snd tab * 4)%nat) by (unfold k; lia). rewrite <- Ek. exact Hnew.
  - (* Lcopy *)
    destruct Hk as ([Ht1 Ht2] & [Ha1 Ha2]). cbn [fst snd] in Ha1, Ha2.
    rewrite (arr_of_nth_error _ _ Ht1), (arr_of_nth_error _ _ Ha1).
    assert (Hok : ok2 s (AS (a_base s) (a_busy s) (a_table s)
              (upd (a_arrays s) arr (firstn (snd tab) (arr_of s (fst tab)) ++ skipn (snd tab) (arr_of s arr)))
              (a_cells s) (a_rnd s))).
    { apply ok_lcopy; auto using arr_of_nth_error. }
    unfold goto. split; [exact Hok|]. cbn [nf]. unfold tab_ok. cbn [fst snd].
    simpl a_arrays. rewrite upd_length. split; [exact Ha1|].
    unfold arr_of at 1. simpl a_arrays. rewrite arr_of_upd by exact Ha1. rewrite Nat.eqb_refl.
    rewrite app_length, firstn_length, skipn_length. fold (arr_of s (fst tab)) (arr_of s arr). lia.
  - (* L16 *)
    unfold goto. apply good_next_ok; [|exact I]. apply ok_set_table; assumption.
  - (* L17 *) unfold goto. heq_next. exact I.
  - (* C1 *) destruct (a_busy s =? 0); unfold goto; heq_next; exact I.
  - (* C2 *) destruct (a_table s); unfold goto; heq_next; exact I.
  - (* C3 *) destruct (a_busy s =? 0); unfold goto; heq_next; exact I.
  - (* C4 *)
    destruct (a_table s) as [tb|] eqn:Et; [unfold goto; heq_next; exact I|].
    pose proof (ok_new_array s 4 HS) as Hok1. pose proof (new_array_tab_ok s 4) as Hnew.
    destruct (new_array s 4) as [arr s1] eqn:En. cbn [fst snd] in Hok1, Hnew.
    set (v := if f64 then 0 else r_x st).
    pose proof (ok_new_cell s1 v (proj1 Hok1)) as Hok2. pose proof (new_cell_valid s1 v) as Hv.
    destruct (new_cell s1 v) as [r s2] eqn:Ec. cbn [fst snd] in Hok2, Hv.
    assert (Hok : ok2 s s2) by (eapply ok2_trans; eauto).
    assert (Ht2 : tab_ok s2 (arr, 2%nat)).
    { apply (tab_ok_mono s1); [apply Hok2|]. destruct Hnew as [N1 N2]. split; [exact N1|]. cbn [fst snd] in *. lia. }
    destruct f64; unfold goto; (split; [exact Hok|]); cbn [nf]; auto.
  - (* C4f *)
    unfold goto. apply good_next_ok; [apply ok_set_cell; exact HS|exact Hk].
  - (* C5 *)
    destruct Hk as [Ht Hv]. unfold goto. apply good_next_ok; [|exact Ht].
    apply ok_set_slot; [exact HS|apply Hv].
  - (* C6 *)
    unfold goto. apply good_next_ok; [|exact I]. apply ok_set_table; assumption.
  - (* B1 *) unfold goto. heq_next. exact I.
  - (* B2 *) destruct (a_base s =? v); [unfold fin; heq_done|unfold goto; heq_next; exact I].
  - (* S1 *) unfold goto. heq_next. exact I.
  - (* S2 *)
    destruct (a_table s) as [tab|] eqn:Et; [|apply good_finish; exact HS].
    destruct (Nat.eqb_spec (snd tab) 0) as [E0|E0]; [apply good_finish; exact HS|].
    unfold goto. heq_next. cbn [nf]. split; [apply (proj1 HS); exact Et|lia].
  - (* S3 *)
    destruct Hk as [Ht Hi]. destruct (get_slot_some s tab i Ht Hi) as (c & -> & Hin).
    destruct c as [|c].
    + apply good_sum_next; assumption.
    + unfold goto. heq_next. cbn [nf]. split; [exact Ht|]. eapply slot_valid; eauto.
  - (* S4 *)
    destruct Hk as [Ht Hv]. destruct (valid_get_cell _ _ Hv) as [v ->].
    apply good_sum_next; assumption.
  - (* T1 *) unfold goto. heq_next. exact I.
  - (* T2 *)
    destruct (a_table s) as [tab|] eqn:Et; [|unfold fin; heq_done].
    pose proof (ok_new_array s (snd tab) HS) as Hok. pose proof (new_array_tab_ok s (snd tab)) as Hnew.
    destruct (new_array s (snd tab)) as [arr s'] eqn:En. cbn [fst snd] in Hok, Hnew.
    destruct (snd tab =? 0)%nat; unfold goto; (split; [exact Hok|exact Hnew]).
  - (* T3 *)
    pose proof (ok_new_cell s 0 HS) as Hok1. pose proof (new_cell_valid s 0) as Hv.
    destruct (new_cell s 0) as [c s1] eqn:Ec. cbn [fst snd] in Hok1, Hv.
    assert (Hok2 : ok2 s1 (set_slot s1 arr i c)) by (apply ok_set_slot; [apply Hok1|apply Hv]).
    assert (Hok : ok2 s (set_slot s1 arr i c)) by (eapply ok2_trans; eauto).
    destruct (S i <? len)%nat; unfold goto; (split; [exact Hok|]); cbn [nf];
      (apply (tab_ok_mono s); [apply Hok|exact Hk]).
  - (* T4 *)
    unfold fin. simpl. apply ok_set_table; assumption.
Qed.

(** ** configurations *)

Definition NFI (c : acfg) : Prop :=
  SH (c_sh c) /\
  forall t th, nth_error (c_thr c) t = Some th ->
    t_dead th = false /\ forall o l, t_cur th = Some (o, l) -> nf l (c_sh c).

Lemma NFI_step (c : acfg) t c' e : NFI c -> step_thread M c t = Some (c', e) -> NFI c'.
Proof.
  intros [HS Hth] H.
  destruct (step_after vadd f64 maxcells _ _ _ _ H) as (th & Hn & Hd & Ha).
  assert (Hgen : forall pr o l, nf l (c_sh c) -> after c t th pr o (step l (c_sh c)) = Some c' -> NFI c').
  { intros pr o l Hl Hafter. pose proof (nf_step l (c_sh c) HS Hl) as Hg.
    unfold after in Hafter.
    destruct (step l (c_sh c)) as [l' s'|r ts' s'| |]; try discriminate; [| |contradiction];
      injection Hafter as <-; simpl in Hg.
    - destruct Hg as [[HS' Hm] Hl']. split; [exact HS'|]. simpl.
      intros t' th' Hn'. apply nth_upd_cases in Hn'. destruct Hn' as [[-> ->]|[_ Hn']].
      + split; [reflexivity|]. simpl. intros o0 l0 E. injection E as <- <-. exact Hl'.
      + destruct (Hth _ _ Hn') as [Hd' Hc']. split; [exact Hd'|].
        intros o0 l0 E. eapply nf_mono; [exact Hm|]. eapply Hc'; eauto.
    - destruct Hg as [HS' Hm]. split; [exact HS'|]. simpl.
      intros t' th' Hn'. apply nth_upd_cases in Hn'. destruct Hn' as [[-> ->]|[_ Hn']].
      + split; [reflexivity|]. simpl. intros; discriminate.
      + destruct (Hth _ _ Hn') as [Hd' Hc']. split; [exact Hd'|].
        intros o0 l0 E. eapply nf_mono; [exact Hm|]. eapply Hc'; eauto. }
  destruct (t_cur th) as [[o l]|] eqn:Hcur.
  - eapply Hgen; [|exact Ha]. eapply (proj2 (Hth _ _ Hn)); eauto.
  - destruct Ha as (o & pr & _ & Ha). eapply Hgen; [|exact Ha]. exact I.
Qed.

Lemma NFI_final (c : acfg) sched : NFI c -> NFI (final M c sched).
Proof.
  intros H. apply invariant_run; [exact H|]. intros c0 t c' e H0 Hs. eapply NFI_step; eauto.
Qed.

Lemma NFI_no_dead (c : acfg) : NFI c -> forall th, In th (c_thr c) -> t_dead th = false.
Proof.
  intros [_ H] th Hin. apply In_nth_error in Hin. destruct Hin as [t Ht]. apply (H _ _ Ht).
Qed.

Lemma NFI_not_has_dead (c : acfg) : NFI c -> ~ has_dead c.
Proof. intros H (th & Hin & Hd). rewrite (NFI_no_dead c H th Hin) in Hd. discriminate. Qed.

Lemma NFI_init s0 progs : SH s0 -> NFI (init apc s0 tt progs).
Proof.
  intros HS. split; [exact HS|]. simpl. intros t th H. apply nth_error_In in H. apply in_map_iff in H.
  destruct H as (p & <- & _). split; [reflexivity|]. simpl. intros; discriminate.
Qed.

Lemma SH_ainit rnd : SH (ainit rnd).
Proof.
  split; simpl.
  - intros tab E. discriminate.
  - intros a c. unfold arr_of. simpl. destruct a; intros [].
Qed.

(** no thread ever faults, from every well-shaped start state *)
Theorem striped_no_fault_from : forall (s0 : ashared) (progs : list (list aop)) (sched : list nat),
  SH s0 ->
  forall th, In th (c_thr (final M (init apc s0 tt progs) sched)) -> t_dead th = false.
Proof.
  intros s0 progs sched HS. apply NFI_no_dead. apply NFI_final. apply NFI_init. exact HS.
Qed.

(** ... in particular from the initial state, for ALL programs *)
Theorem striped_no_fault : forall (rnd : list Z) (progs : list (list aop)) (sched : list nat),
  forall th, In th (c_thr (final M (init apc (ainit rnd) tt progs) sched)) -> t_dead th = false.
Proof. intros rnd progs sched. apply striped_no_fault_from. apply SH_ainit. Qed.

(** no step of a reachable configuration is a fault *)
Theorem striped_step_not_fault : forall (rnd : list Z) (progs : list (list aop)) (sched : list nat) t o,
  ~ In (EFault t o) (trace M (init apc (ainit rnd) tt progs) sched).
Proof.
  intros rnd progs sched t o.
  assert (Hgen : forall c, NFI c -> ~ In (EFault t o) (trace M c sched)).
  { induction sched as [|t0 sched IH]; intros c HN; [intros []|].
    rewrite trace_cons. intros Hin. apply in_app_or in Hin. destruct Hin as [Hin|Hin].
    - unfold step_evs in Hin. destruct (step_thread M c t0) as [[c' e]|] eqn:Es; [|contradiction].
      pose proof (NFI_step c t0 c' e HN Es) as HN'.
      unfold step_thread in Es. destruct (nth_error (c_thr c) t0) as [th|] eqn:Hn; [|discriminate].
      destruct (view M th) as [[[o0 l0] fresh]|]; [|discriminate].
      destruct (m_step M l0 (c_sh c)) as [l' s'|r ts' s'| |]; try discriminate; injection Es as <- <-.
      + destruct fresh; simpl in Hin; intuition discriminate.
      + apply in_app_or in Hin. destruct Hin as [Hin|[Hin|[]]]; [|discriminate].
        destruct fresh; simpl in Hin; intuition discriminate.
      + apply (NFI_not_has_dead _ HN'). eapply has_dead_upd. exact Hn.
    - unfold step_cfg in Hin. destruct (step_thread M c t0) as [[c' e]|] eqn:Es.
      + apply (IH c'); [eapply NFI_step; eauto|exact Hin].
      + apply (IH c); assumption. }
  apply Hgen. apply NFI_init. apply SH_ainit.
Qed.

End Step.

(** ** the statements asked for: update-only programs and reader programs,
    for every adder kind ([wadd], [Z.add], or any other [vadd]) *)

(** programs of updates (of any sign) and Sums *)
Definition rw_progs (progs : list (list aop)) : Prop :=
  forall p o, In p progs -> In o p -> is_update o = true \/ o = Sum.

Theorem striped_no_fault_updates :
  forall (vadd : Z -> Z -> Z) (f64 : bool) (maxcells : Z) (rnd : list Z) (progs : list (list aop)) (sched : list nat),
  updates_only progs ->
  forall th, In th (c_thr (final (striped vadd f64 maxcells) (init apc (ainit rnd) tt progs) sched)) ->
             t_dead th = false.
Proof. intros vadd f64 maxcells rnd progs sched _. apply striped_no_fault. Qed.

Theorem striped_no_fault_readers :
  forall (vadd : Z -> Z -> Z) (f64 : bool) (maxcells : Z) (rnd : list Z) (progs : list (list aop)) (sched : list nat),
  rw_progs progs ->
  forall th, In th (c_thr (final (striped vadd f64 maxcells) (init apc (ainit rnd) tt progs) sched)) ->
             t_dead th = false.
Proof. intros vadd f64 maxcells rnd progs sched _. apply striped_no_fault. Qed.

Corollary jdk_adder_no_fault maxcells rnd progs sched :
  forall th, In th (c_thr (final (jdk_adder maxcells) (init apc (ainit rnd) tt progs) sched)) -> t_dead th = false.
Proof. apply striped_no_fault. Qed.

Corollary jdk_f64_adder_no_fault maxcells rnd progs sched :
  forall th, In th (c_thr (final (jdk_f64_adder maxcells) (init apc (ainit rnd) tt progs) sched)) -> t_dead th = false.
Proof. apply striped_no_fault. Qed.

Print Assumptions striped_no_fault_from.
Print Assumptions striped_no_fault.
Print Assumptions striped_step_not_fault.
Print Assumptions striped_no_fault_updates.
Print Assumptions striped_no_fault_readers.
