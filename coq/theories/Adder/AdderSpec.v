(** Vocabulary shared by the adder theorems: the sequential "single number"
    specification, update-only programs and their exact total. *)
From Coq Require Import List Arith Bool ZArith.
From Garr Require Import Conc.Conc Pure.F64 Adder.StripedModel.
Import ListNotations.
Local Open Scope Z_scope.

Definition aret_eqb (a b : aret) : bool :=
  match a, b with
  | RU, RU => true
  | RZ x, RZ y => Z.eqb x y
  | _, _ => false
  end.

(** the amount an update adds *)
Definition delta (o : aop) : Z :=
  match o with Add x => x | Inc => 1 | Dec => -1 | _ => 0 end.

Definition is_update (o : aop) : bool :=
  match o with Add _ | Inc | Dec => true | _ => false end.

(** a single number, with the addition of the adder kind as a parameter
    ([wadd] for the int64 adders, [Z.add] for the float adders on exact sums) *)
Definition counter_spec (vadd : Z -> Z -> Z) (v : Z) (o : aop) : Z * aret :=
  match o with
  | Add x => (vadd v x, RU)
  | Inc => (vadd v 1, RU)
  | Dec => (vadd v (-1), RU)
  | Sum => (v, RZ v)
  | Reset => (0, RU)
  | SumAndReset => (0, RZ v)
  | Store x => (x, RU)
  end.

Definition updates_only (progs : list (list aop)) : Prop :=
  forall p o, In p progs -> In o p -> is_update o = true.

(** exact total of everything the programs add (before wrap-around) *)
Definition total (progs : list (list aop)) : Z :=
  fold_right Z.add 0 (map delta (concat progs)).

(** every thread has returned from all its calls *)
Definition all_done {shared tstate local op} (c : config shared tstate local op) : Prop :=
  forall th, In th (c_thr c) -> t_prog th = [] /\ t_cur th = None /\ t_dead th = false.

(** a fresh thread calling [o] alone from shared state [s] returns [r]
    (after some number of its own steps) *)
Definition solo_returns {shared tstate local op ret} (M : machine shared tstate local op ret)
           (ts0 : tstate) (s : shared) (o : op) (r : ret) : Prop :=
  exists k, In (ERet 0%nat o r) (trace M (Config s [mk_thread local ts0 [o]]) (repeat 0%nat k)).
