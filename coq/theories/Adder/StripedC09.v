(** C09: a concurrent Sum sees every finished update and only whole updates:
    with non-negative updates its result lies between the amount applied when
    it was invoked and the amount applied when it returns; results of Sums that
    follow each other never decrease and never exceed the total. *)
From Coq Require Import List Arith Bool ZArith Lia Permutation.
From Garr Require Import Conc.Conc Pure.F64 Adder.StripedModel Adder.AdderSpec Adder.StripedLib
  Adder.StripedInv Adder.StripedPres Adder.StripedProofs Adder.StripedLocal Adder.StripedPhase
  Adder.StripedStrip Adder.StripedMono Adder.StripedRead Adder.StripedReadW Breaker.ConcBase.
Import ListNotations.
Local Open Scope Z_scope.

Lemma delta_le_total progs p o :
  reader_progs progs -> In p progs -> In o p -> delta o <= total progs.
Proof.
  intros Hrp Hp Ho. rewrite total_zsum.
  assert (Hnn : forall l, (forall x, In x l -> 0 <= x) -> 0 <= zsum l).
  { induction l as [|a l IH]; intros H; simpl; [lia|].
    pose proof (H a (or_introl eq_refl)). assert (0 <= zsum l) by (apply IH; intros; apply H; right; auto). lia. }
  assert (Hin : In (delta o) (map delta (concat progs))).
  { apply in_map. apply in_concat. eauto. }
  apply in_split in Hin. destruct Hin as (l1 & l2 & E). rewrite E, zsum_app. simpl.
  assert (Hall : forall x, In x (l1 ++ delta o :: l2) -> 0 <= x).
  { rewrite <- E. intros x Hx. apply in_map_iff in Hx. destruct Hx as (o' & <- & Ho').
    apply in_concat in Ho'. destruct Ho' as (p' & Hp' & Ho''). apply (Hrp p' o' Hp' Ho''). }
  assert (0 <= zsum l1) by (apply Hnn; intros; apply Hall; apply in_or_app; auto).
  assert (0 <= zsum l2) by (apply Hnn; intros; apply Hall; apply in_or_app; right; right; auto).
  lia.
Qed.

Section C09.
Variable f64 : bool.
Variable maxcells : Z.
Notation MZ := (striped Z.add f64 maxcells).
Notation MW := (striped wadd f64 maxcells).

Lemma has_dead_final_gen vadd (c : acfg) sched :
  has_dead c -> has_dead (final (striped vadd f64 maxcells) c sched).
Proof.
  intros H. apply invariant_run; [exact H|]. intros c1 t c' e H1 Hs. eapply has_dead_step; eauto.
Qed.

Lemma P3_init rnd progs :
  reader_progs progs -> P3 (total progs) (init apc (ainit rnd) tt progs).
Proof.
  intros Hrp. right. split; [apply MI_init; exact Hrp|].
  assert (Hth : forall t th, nth_error (map (mk_thread apc tt) progs) t = Some th ->
                exists p, In p progs /\ th = mk_thread apc tt p).
  { intros t th H. apply nth_error_In in H. apply in_map_iff in H. destruct H as (p & <- & Hp). eauto. }
  split.
  - intros t th H. destruct (Hth _ _ H) as (p & Hp & ->). split; simpl.
    + intros o Ho. eapply delta_le_total; eauto.
    + intros; discriminate.
  - intros t th l H Hc. destruct (Hth _ _ H) as (p & Hp & ->). discriminate.
Qed.

Lemma P3_final T (c : acfg) sched : P3 T c -> P3 T (final MZ c sched).
Proof.
  intros H. apply invariant_run; [exact H|]. intros c1 t c' e H1 Hs. eapply P3_step; eauto.
Qed.

(** (2a) for the int64 adders, in terms of reachable configurations *)
Theorem sum_bounds_core_wadd rnd progs s1 t thi pr ci' ei s3 thj cj' ej r :
  reader_progs progs -> total progs < 2 ^ 62 ->
  let c0 := init apc (ainit rnd) tt progs in
  let ci := final MW c0 s1 in
  nth_error (c_thr ci) t = Some thi -> t_cur thi = None -> t_prog thi = Sum :: pr ->
  step_thread MW ci t = Some (ci', ei) ->
  let cj := final MW ci' s3 in
  nth_error (c_thr cj) t = Some thj -> t_prog thj = pr ->
  step_thread MW cj t = Some (cj', ej) -> In (ERet t Sum (RZ r)) ej ->
  no_dead cj' ->
  applied (c_sh ci) <= r <= applied (c_sh cj') /\ applied (c_sh cj') <= total progs.
Proof.
  intros Hrp Hsmall c0 ci Hni Hci Hpi Hsi cj Hnj Hpj Hsj Hret Hnd.
  assert (HT : 2 * total progs < 2 ^ 63) by lia.
  assert (Hndj : no_dead cj).
  { intros th Hin. destruct (t_dead th) eqn:E; [|reflexivity]. exfalso. apply (no_dead_not _ Hnd).
    eapply has_dead_step; [|exact Hsj]. exists th. auto. }
  assert (Hndi' : no_dead ci').
  { intros th Hin. destruct (t_dead th) eqn:E; [|reflexivity]. exfalso. apply (no_dead_not _ Hndj).
    apply has_dead_final_gen. exists th. auto. }
  assert (Hndi : no_dead ci).
  { intros th Hin. destruct (t_dead th) eqn:E; [|reflexivity]. exfalso. apply (no_dead_not _ Hndi').
    eapply has_dead_step; [|exact Hsi]. exists th. auto. }
  pose proof (P3_init rnd progs Hrp) as HP0. fold c0 in HP0.
  assert (Ei : ci = final MZ c0 s1).
  { unfold ci, final. rewrite (run_coincide f64 maxcells (total progs) HT c0 s1 HP0 Hndi). reflexivity. }
  assert (HPi : P3 (total progs) ci) by (rewrite Ei; apply P3_final; exact HP0).
  assert (Hsafe_i : safe_cfg ci).
  { destruct HPi as [Hd|(HM & HTt & HR)]; [exfalso; exact (no_dead_not _ Hndi Hd)|].
    apply (P3_safe (total progs) HT); assumption. }
  rewrite (step_thread_coincide f64 maxcells ci t Hsafe_i) in Hsi.
  assert (HPi' : P3 (total progs) ci') by (eapply P3_step; eauto).
  assert (Ej : cj = final MZ ci' s3).
  { unfold cj, final. rewrite (run_coincide f64 maxcells (total progs) HT ci' s3 HPi' Hndj). reflexivity. }
  assert (HPj : P3 (total progs) cj) by (rewrite Ej; apply P3_final; exact HPi').
  assert (Hsafe_j : safe_cfg cj).
  { destruct HPj as [Hd|(HM & HTt & HR)]; [exfalso; exact (no_dead_not _ Hndj Hd)|].
    apply (P3_safe (total progs) HT); assumption. }
  rewrite (step_thread_coincide f64 maxcells cj t Hsafe_j) in Hsj.
  rewrite Ei in Hni, Hsi. rewrite Ej in Hnj, Hsj. rewrite Ei.
  eapply (sum_bounds_core f64 maxcells rnd progs s1 t thi pr ci' ei s3 thj cj' ej r); eauto.
Qed.

(** the same in terms of positions in the log of steps *)
Theorem sum_bounds_log rnd progs sched i j t ci cj thi thj pr cj' ej r :
  reader_progs progs -> total progs < 2 ^ 62 ->
  let log := steps_of MW (init apc (ainit rnd) tt progs) sched in
  nth_error log i = Some (ci, t) -> nth_error log j = Some (cj, t) -> (i < j)%nat ->
  nth_error (c_thr ci) t = Some thi -> t_cur thi = None -> t_prog thi = Sum :: pr ->
  nth_error (c_thr cj) t = Some thj -> t_prog thj = pr ->
  step_thread MW cj t = Some (cj', ej) -> In (ERet t Sum (RZ r)) ej ->
  no_dead cj' ->
  applied (c_sh ci) <= r <= applied (c_sh cj') /\ applied (c_sh cj') <= total progs.
Proof.
  intros Hrp Hsmall log Hi Hj Hlt Hni Hci Hpi Hnj Hpj Hsj Hret Hnd.
  destruct (steps_of_later MW _ _ _ _ _ _ _ _ Hi Hj Hlt) as (s1 & ci' & e & s3 & E1 & Hsi & E2).
  subst ci cj.
  eapply (sum_bounds_core_wadd rnd progs s1 t thi pr ci' e s3 thj cj' ej r); eauto.
Qed.

(** exact arithmetic (the float adders on exactly representable sums) *)
Theorem sum_bounds_log_exact rnd progs sched i j t ci cj thi thj pr cj' ej r :
  reader_progs progs ->
  let log := steps_of MZ (init apc (ainit rnd) tt progs) sched in
  nth_error log i = Some (ci, t) -> nth_error log j = Some (cj, t) -> (i < j)%nat ->
  nth_error (c_thr ci) t = Some thi -> t_cur thi = None -> t_prog thi = Sum :: pr ->
  nth_error (c_thr cj) t = Some thj -> t_prog thj = pr ->
  step_thread MZ cj t = Some (cj', ej) -> In (ERet t Sum (RZ r)) ej ->
  no_dead cj' ->
  applied (c_sh ci) <= r <= applied (c_sh cj') /\ applied (c_sh cj') <= total progs.
Proof.
  intros Hrp log Hi Hj Hlt Hni Hci Hpi Hnj Hpj Hsj Hret Hnd.
  destruct (steps_of_later MZ _ _ _ _ _ _ _ _ Hi Hj Hlt) as (s1 & ci' & e & s3 & E1 & Hsi & E2).
  subst ci cj.
  eapply (sum_bounds_core f64 maxcells rnd progs s1 t thi pr ci' e s3 thj cj' ej r); eauto.
Qed.

(** ** Sums that follow each other in real time never decrease *)

Lemma no_dead_back vadd (c : acfg) sched :
  no_dead (final (striped vadd f64 maxcells) c sched) -> no_dead c.
Proof.
  intros H th Hin. destruct (t_dead th) eqn:E; [|reflexivity]. exfalso. apply (no_dead_not _ H).
  apply has_dead_final_gen. exists th. auto.
Qed.

Lemma reach_P3 rnd progs sched :
  reader_progs progs -> total progs < 2 ^ 62 ->
  let c0 := init apc (ainit rnd) tt progs in
  no_dead (final MW c0 sched) ->
  final MW c0 sched = final MZ c0 sched /\ P3 (total progs) (final MW c0 sched).
Proof.
  intros Hrp Hsmall c0 Hnd. assert (HT : 2 * total progs < 2 ^ 63) by lia.
  pose proof (P3_init rnd progs Hrp) as HP0. fold c0 in HP0.
  assert (E : final MW c0 sched = final MZ c0 sched).
  { unfold final. rewrite (run_coincide f64 maxcells (total progs) HT c0 sched HP0 Hnd). reflexivity. }
  split; [exact E|]. rewrite E. apply P3_final. exact HP0.
Qed.

Lemma applied_mono_reach rnd progs s1 s3 :
  reader_progs progs -> total progs < 2 ^ 62 ->
  let c0 := init apc (ainit rnd) tt progs in
  no_dead (final MW c0 (s1 ++ s3)) ->
  applied (c_sh (final MW c0 s1)) <= applied (c_sh (final MW c0 (s1 ++ s3))).
Proof.
  intros Hrp Hsmall c0 Hnd. assert (HT : 2 * total progs < 2 ^ 63) by lia.
  rewrite final_app in *.
  pose proof (no_dead_back wadd _ _ Hnd) as Hnd1.
  destruct (reach_P3 rnd progs s1 Hrp Hsmall Hnd1) as [_ HP]. fold c0 in HP.
  set (c1 := final MW c0 s1) in *.
  assert (E : final MW c1 s3 = final MZ c1 s3).
  { unfold final. rewrite (run_coincide f64 maxcells (total progs) HT c1 s3 HP Hnd). reflexivity. }
  destruct HP as [Hd|(HM & _)]; [exfalso; exact (no_dead_not _ Hnd1 Hd)|].
  rewrite E in *. apply (applied_run f64 maxcells (total progs) c1 s3 HM Hnd).
Qed.

Theorem sums_monotone rnd progs sched
        i1 j1 t1 ci1 cj1 thi1 thj1 pr1 cj1' ej1 r1
        i2 j2 t2 ci2 cj2 thi2 thj2 pr2 cj2' ej2 r2 :
  reader_progs progs -> total progs < 2 ^ 62 ->
  let log := steps_of MW (init apc (ainit rnd) tt progs) sched in
  (* the first Sum *)
  nth_error log i1 = Some (ci1, t1) -> nth_error log j1 = Some (cj1, t1) -> (i1 < j1)%nat ->
  nth_error (c_thr ci1) t1 = Some thi1 -> t_cur thi1 = None -> t_prog thi1 = Sum :: pr1 ->
  nth_error (c_thr cj1) t1 = Some thj1 -> t_prog thj1 = pr1 ->
  step_thread MW cj1 t1 = Some (cj1', ej1) -> In (ERet t1 Sum (RZ r1)) ej1 ->
  (* the second Sum, invoked after the first has returned *)
  nth_error log i2 = Some (ci2, t2) -> nth_error log j2 = Some (cj2, t2) -> (i2 < j2)%nat ->
  nth_error (c_thr ci2) t2 = Some thi2 -> t_cur thi2 = None -> t_prog thi2 = Sum :: pr2 ->
  nth_error (c_thr cj2) t2 = Some thj2 -> t_prog thj2 = pr2 ->
  step_thread MW cj2 t2 = Some (cj2', ej2) -> In (ERet t2 Sum (RZ r2)) ej2 ->
  (j1 < i2)%nat -> no_dead cj2' ->
  r1 <= r2 /\ r2 <= total progs.
Proof.
  intros Hrp Hsmall log Hi1 Hj1 Hlt1 Hni1 Hci1 Hpi1 Hnj1 Hpj1 Hsj1 Hret1
         Hi2 Hj2 Hlt2 Hni2 Hci2 Hpi2 Hnj2 Hpj2 Hsj2 Hret2 Hord Hnd.
  (* the configuration after the first return leads to the second invocation *)
  destruct (steps_of_later MW _ _ _ _ _ _ _ _ Hj1 Hi2 Hord) as (s1 & c1' & e1 & s3 & E1 & Hs1 & E2).
  rewrite Hsj1 in Hs1. injection Hs1 as <- <-.
  destruct (steps_of_later MW _ _ _ _ _ _ _ _ Hi2 Hj2 Hlt2) as (s2 & c2' & e2 & s4 & E3 & Hs2 & E4).
  assert (Hnd_j2 : no_dead cj2).
  { intros th Hin. destruct (t_dead th) eqn:E; [|reflexivity]. exfalso. apply (no_dead_not _ Hnd).
    eapply has_dead_step; [|exact Hsj2]. exists th. auto. }
  assert (Hnd_c2' : no_dead c2') by (rewrite E4 in Hnd_j2; eapply no_dead_back; eauto).
  assert (Hnd_i2 : no_dead ci2).
  { intros th Hin. destruct (t_dead th) eqn:E; [|reflexivity]. exfalso. apply (no_dead_not _ Hnd_c2').
    eapply has_dead_step; [|exact Hs2]. exists th. auto. }
  assert (Hnd_j1' : no_dead cj1') by (rewrite E2 in Hnd_i2; eapply no_dead_back; eauto).
  destruct (sum_bounds_log rnd progs sched i1 j1 t1 ci1 cj1 thi1 thj1 pr1 cj1' ej1 r1 Hrp Hsmall
              Hi1 Hj1 Hlt1 Hni1 Hci1 Hpi1 Hnj1 Hpj1 Hsj1 Hret1 Hnd_j1') as [[_ Hu1] _].
  destruct (sum_bounds_log rnd progs sched i2 j2 t2 ci2 cj2 thi2 thj2 pr2 cj2' ej2 r2 Hrp Hsmall
              Hi2 Hj2 Hlt2 Hni2 Hci2 Hpi2 Hnj2 Hpj2 Hsj2 Hret2 Hnd) as [[Hl2 Hu2] Ht2].
  assert (Hmono : applied (c_sh cj1') <= applied (c_sh ci2)).
  { assert (Ec1 : cj1' = final MW (init apc (ainit rnd) tt progs) (s1 ++ [t1])).
    { rewrite final_app, <- E1. simpl. rewrite final_cons. unfold step_cfg. rewrite Hsj1. reflexivity. }
    assert (Ec2 : ci2 = final MW (init apc (ainit rnd) tt progs) ((s1 ++ [t1]) ++ s3)).
    { rewrite final_app, <- Ec1. exact E2. }
    rewrite Ec1, Ec2. apply applied_mono_reach; auto. rewrite <- Ec2. exact Hnd_i2. }
  lia.
Qed.

End C09.

Print Assumptions sum_bounds_log.
Print Assumptions sum_bounds_log_exact.
Print Assumptions sums_monotone.
