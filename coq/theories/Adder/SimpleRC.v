(** Random-cell adder (adder/randomCellAdder.go): no update is lost, for every
    number of cells n > 0 (the index [land r (n-1)] is always in range, also
    when n is not a power of two), and a Sum called alone returns the
    wrap-around sum of the cells. *)
From Coq Require Import List Arith Bool ZArith Lia.
From Garr Require Import Conc.Conc Pure.F64
     Adder.StripedModel Adder.SimpleModel Adder.AdderSpec.
Import ListNotations.
Local Open Scope Z_scope.

Definition cells_sum (l : list Z) : Z := fold_left wadd l 0%Z.

(** ** wrap-around arithmetic *)
Definition zsum (l : list Z) : Z := fold_right Z.add 0 l.

Definition congr64 (a b : Z) : Prop := exists k, a = b + k * 2 ^ 64.

Lemma congr64_refl a : congr64 a a.
Proof. exists 0. lia. Qed.

Lemma congr64_sym a b : congr64 a b -> congr64 b a.
Proof. intros [k H]. exists (- k). lia. Qed.

Lemma congr64_trans a b c : congr64 a b -> congr64 b c -> congr64 a c.
Proof. intros [k H] [k' H']. exists (k + k'). lia. Qed.

Lemma congr64_add a b c d : congr64 a b -> congr64 c d -> congr64 (a + c) (b + d).
Proof. intros [k H] [k' H']. exists (k + k'). lia. Qed.

Lemma wrap64_congr64 z : congr64 (wrap64 z) z.
Proof.
  unfold congr64, wrap64. exists (- ((z + 2 ^ 63) / 2 ^ 64)).
  pose proof (Z.div_mod (z + 2 ^ 63) (2 ^ 64)) as H.
  assert (N : 2 ^ 64 <> 0) by (intro E; discriminate E).
  specialize (H N). lia.
Qed.

Lemma wrap64_of_congr64 a b : congr64 a b -> wrap64 a = wrap64 b.
Proof.
  intros [k ->]. unfold wrap64.
  replace (b + k * 2 ^ 64 + 2 ^ 63) with (b + 2 ^ 63 + k * 2 ^ 64) by lia.
  rewrite Z_mod_plus_full. reflexivity.
Qed.

Lemma wrap64_wrap64_add a b : wrap64 (wrap64 a + b) = wrap64 (a + b).
Proof.
  apply wrap64_of_congr64. apply congr64_add; [apply wrap64_congr64|apply congr64_refl].
Qed.

Lemma wadd_assoc a b c : wadd (wadd a b) c = wadd a (wadd b c).
Proof.
  unfold wadd. apply wrap64_of_congr64.
  eapply congr64_trans; [apply congr64_add; [apply wrap64_congr64|apply congr64_refl]|].
  apply congr64_sym.
  eapply congr64_trans; [apply congr64_add; [apply congr64_refl|apply wrap64_congr64]|].
  exists 0. lia.
Qed.

Lemma wadd_comm a b : wadd a b = wadd b a.
Proof. unfold wadd. f_equal. lia. Qed.

Lemma fold_left_wadd l acc : fold_left wadd l (wrap64 acc) = wrap64 (acc + zsum l).
Proof.
  revert acc; induction l as [|a l IH]; intros acc; simpl.
  - f_equal. lia.
  - unfold wadd at 2. rewrite wrap64_wrap64_add, IH. f_equal. lia.
Qed.

Lemma cells_sum_zsum l : cells_sum l = wrap64 (zsum l).
Proof.
  unfold cells_sum. change 0 with (wrap64 0) at 1. rewrite fold_left_wadd. reflexivity.
Qed.

(** ** list facts *)
Lemma zsum_app l1 l2 : zsum (l1 ++ l2) = zsum l1 + zsum l2.
Proof. induction l1 as [|a l1 IH]; simpl; [reflexivity|rewrite IH; lia]. Qed.

Lemma zsum_upd l i v : (i < length l)%nat -> zsum (upd l i v) = zsum l - nth i l 0 + v.
Proof.
  revert i; induction l as [|a l IH]; intros i Hi; simpl in *.
  - lia.
  - destruct i as [|i]; simpl.
    + lia.
    + rewrite IH by lia. lia.
Qed.

Lemma zsum_repeat0 n : zsum (repeat 0 n) = 0.
Proof. induction n as [|n IH]; simpl; [reflexivity|exact IH]. Qed.

Lemma map_upd {A B} (f : A -> B) l i x : map f (upd l i x) = upd (map f l) i (f x).
Proof.
  revert i; induction l as [|a l IH]; intros i; simpl.
  - reflexivity.
  - destruct i; simpl; [reflexivity|rewrite IH; reflexivity].
Qed.

Lemma skipn_nth {A} (l : list A) i d :
  (i < length l)%nat -> skipn i l = nth i l d :: skipn (S i) l.
Proof.
  revert i; induction l as [|a l IH]; intros i Hi; simpl in *.
  - lia.
  - destruct i as [|i]; [reflexivity|]. simpl. apply IH. lia.
Qed.

(** ** the index is always in range *)
Lemma land_le_r a b : 0 <= b -> 0 <= Z.land a b <= b.
Proof.
  intros Hb. split.
  - apply Z.land_nonneg. right. exact Hb.
  - assert (H : b = Z.ldiff b a + Z.land a b).
    { rewrite <- (Z.lor_ldiff_and b a) at 1. rewrite (Z.land_comm b a).
      assert (D : Z.land (Z.ldiff b a) (Z.land a b) = 0).
      { rewrite Z.land_assoc, Z.land_ldiff. apply Z.land_0_l. }
      rewrite <- Z.lxor_lor by exact D. rewrite <- Z.add_nocarry_lxor by exact D. reflexivity. }
    assert (0 <= Z.ldiff b a) by (apply Z.ldiff_nonneg; left; exact Hb).
    lia.
Qed.

Lemma idx_lt (n : nat) r : (0 < n)%nat -> (Z.to_nat (Z.land r (Z.of_nat n - 1)) < n)%nat.
Proof.
  intros Hn. pose proof (land_le_r r (Z.of_nat n - 1)) as H. lia.
Qed.

(** ** no lost update *)
Notation rcfg := (config rshared unit rpc aop).
Notation rthread := (thread unit rpc aop).

Definition thr_pending (th : rthread) : Z :=
  zsum (map delta (t_prog th)) +
  match t_cur th with
  | Some (o, RInv _) => delta o
  | Some (_, RAdd x _) => x
  | _ => 0
  end.

Definition pending (l : list rthread) : Z := zsum (map thr_pending l).

Definition rtok (n : nat) (th : rthread) : Prop :=
  t_dead th = false /\
  (forall o, In o (t_prog th) -> is_update o = true) /\
  match t_cur th with
  | None => True
  | Some (o, RInv o') => o = o' /\ is_update o = true
  | Some (o, RAdd x i) => (i < n)%nat
  | _ => False
  end.

Record RI (n : nat) (T : Z) (c : rcfg) : Prop := {
  ri_len : length (rc_cells (c_sh c)) = n;
  ri_thr : forall t th, nth_error (c_thr c) t = Some th -> rtok n th;
  ri_sum : congr64 (zsum (rc_cells (c_sh c)) + pending (c_thr c)) T
}.

Arguments ri_len {n T c}. Arguments ri_thr {n T c}. Arguments ri_sum {n T c}.

Lemma pending_upd l t th th' :
  nth_error l t = Some th -> pending (upd l t th') = pending l - thr_pending th + thr_pending th'.
Proof.
  intros H. unfold pending. rewrite map_upd, zsum_upd.
  - rewrite (nth_indep _ 0 (thr_pending th)).
    + rewrite map_nth. rewrite (nth_error_nth _ _ _ H). reflexivity.
    + rewrite map_length. apply nth_error_Some. congruence.
  - rewrite map_length. apply nth_error_Some. congruence.
Qed.

Lemma total_pending progs :
  pending (map (mk_thread rpc tt) progs) = total progs.
Proof.
  unfold total. change (fold_right Z.add 0) with zsum.
  induction progs as [|p progs IH].
  - reflexivity.
  - change (pending (map (mk_thread rpc tt) (p :: progs)))
      with (thr_pending (mk_thread rpc tt p) + pending (map (mk_thread rpc tt) progs)).
    rewrite IH. simpl concat. rewrite map_app, zsum_app. unfold thr_pending; simpl. lia.
Qed.

Lemma RI_init n rnd progs : updates_only progs ->
  RI n (total progs) (init rpc (rinit n rnd) tt progs).
Proof.
  intros Hu. constructor; simpl.
  - apply repeat_length.
  - intros t th H. apply nth_error_In in H. apply in_map_iff in H.
    destruct H as [p [<- Hp]]. unfold rtok; simpl. repeat split.
    intros o Ho. eapply Hu; eauto.
  - rewrite zsum_repeat0, total_pending. apply congr64_refl.
Qed.

Lemma RI_update n T c t th th' sh' :
  RI n T c -> nth_error (c_thr c) t = Some th ->
  length (rc_cells sh') = n ->
  rtok n th' ->
  congr64 (zsum (rc_cells sh') + thr_pending th') (zsum (rc_cells (c_sh c)) + thr_pending th) ->
  RI n T (Config sh' (upd (c_thr c) t th')).
Proof.
  intros HI Hn Hlen Htok Hsum. constructor; simpl.
  - exact Hlen.
  - intros t' th0 H0. rewrite nth_error_upd, Hn in H0.
    destruct (Nat.eqb t t'); [injection H0 as <-; exact Htok|].
    eapply (ri_thr HI); eauto.
  - rewrite (pending_upd _ _ _ th' Hn).
    destruct Hsum as [k Hk]. destruct (ri_sum HI) as [k' Hk'].
    exists (k + k'). lia.
Qed.

Lemma rstep_inv o s : is_update o = true ->
  exists r s', rc_take s = (r, s') /\ rc_cells s' = rc_cells s /\
    rstep (RInv o) s =
    Next (RAdd (delta o) (Z.to_nat (Z.land r (Z.of_nat (length (rc_cells s)) - 1)))) s'.
Proof.
  intros Hu. destruct (rc_take s) as [r s'] eqn:E. exists r, s'.
  split; [reflexivity|]. split.
  - unfold rc_take in E. destruct (rc_rnd s); injection E as _ <-; reflexivity.
  - destruct o; try discriminate; simpl; rewrite E; reflexivity.
Qed.

Lemma RI_step n T c t c' e : (0 < n)%nat ->
  RI n T c -> step_thread rc_adder c t = Some (c', e) -> RI n T c'.
Proof.
  intros Hn HI Hs. unfold step_thread in Hs.
  destruct (nth_error (c_thr c) t) as [th|] eqn:Hnth; [|discriminate].
  destruct (ri_thr HI _ _ Hnth) as (Hdead & Hprog & Hcur).
  pose proof (ri_len HI) as Hlen.
  unfold view in Hs. rewrite Hdead in Hs.
  destruct (t_cur th) as [[o l]|] eqn:Ec.
  - destruct l as [o'|x i| | | | |]; try contradiction.
    + (* RInv stored *)
      destruct Hcur as [<- Hu].
      destruct (rstep_inv o (c_sh c) Hu) as (r & s' & Et & Ecells & Est).
      change (m_step rc_adder) with rstep in Hs. rewrite Est in Hs. injection Hs as <- _.
      eapply RI_update; [exact HI|exact Hnth|congruence| |].
      * unfold rtok; simpl. repeat split; auto. rewrite Hlen. apply idx_lt; exact Hn.
      * rewrite Ecells. unfold thr_pending; simpl. rewrite Ec. apply congr64_refl.
    + (* RAdd *)
      simpl in Hs. injection Hs as <- _.
      eapply RI_update; [exact HI|exact Hnth| | |].
      * simpl. rewrite upd_length. exact Hlen.
      * unfold rtok; simpl. auto.
      * simpl. rewrite zsum_upd by (rewrite Hlen; exact Hcur).
        unfold thr_pending; simpl. rewrite Ec. unfold rc_get, wadd.
        destruct (wrap64_congr64 (nth i (rc_cells (c_sh c)) 0 + x)) as [k Hk].
        exists k. lia.
  - destruct (t_prog th) as [|o rest] eqn:Ep; [discriminate|].
    assert (Hu : is_update o = true) by (apply Hprog; left; reflexivity).
    destruct (rstep_inv o (c_sh c) Hu) as (r & s' & Et & Ecells & Est).
    change (m_step rc_adder) with rstep in Hs. change (m_start rc_adder (t_ts th) o) with (RInv o) in Hs. rewrite Est in Hs. injection Hs as <- _.
    eapply RI_update; [exact HI|exact Hnth|congruence| |].
    * unfold rtok; simpl. rewrite Ep. repeat split; auto.
      -- intros o' Ho'. apply Hprog. right. exact Ho'.
      -- rewrite Hlen. apply idx_lt; exact Hn.
    * rewrite Ecells. unfold thr_pending; simpl. rewrite Ec, Ep. simpl. exists 0. lia.
Qed.

Lemma pending_done (l : list rthread) :
  (forall th, In th l -> t_prog th = [] /\ t_cur th = None /\ t_dead th = false) ->
  pending l = 0.
Proof.
  unfold pending. induction l as [|th l IH]; intros H; simpl.
  - reflexivity.
  - rewrite IH by (intros th' Hin; apply H; right; exact Hin).
    destruct (H th (or_introl eq_refl)) as (Hp & Hc & _).
    unfold thr_pending. rewrite Hp, Hc. reflexivity.
Qed.

Theorem rc_no_lost_update : forall (n : nat) (rnd : list Z) progs sched,
  (0 < n)%nat -> updates_only progs ->
  let c := final rc_adder (init rpc (rinit n rnd) tt progs) sched in
  all_done c -> cells_sum (rc_cells (c_sh c)) = wrap64 (total progs).
Proof.
  intros n rnd progs sched Hn Hu c Hdone.
  assert (HI : RI n (total progs) c).
  { unfold c. apply invariant_run with (P := RI n (total progs)).
    - apply RI_init; exact Hu.
    - intros c0 t c' e H0 Hs. eapply RI_step; eauto. }
  rewrite cells_sum_zsum. apply wrap64_of_congr64.
  pose proof (ri_sum HI) as Hs. rewrite (pending_done _ Hdone) in Hs.
  rewrite Z.add_0_r in Hs. exact Hs.
Qed.

Print Assumptions rc_no_lost_update.

(** ** Sum called alone *)
Local Opaque skipn.
Lemma sumL_run (s : rshared) m : forall i acc,
  (i + S m = length (rc_cells s))%nat ->
  In (ERet 0%nat Sum (RZ (fold_left wadd (skipn i (rc_cells s)) acc)))
     (trace rc_adder (Config s [Thread (@nil aop) tt (Some (Sum, RSumL acc i)) false])
            (repeat 0%nat (S m))).
Proof.
  induction m as [|m IH]; intros i acc Hi.
  - simpl repeat. rewrite trace_cons. apply in_or_app. left.
    unfold step_evs, step_thread. simpl.
    destruct (Nat.ltb_spec (S i) (length (rc_cells s))) as [L|L]; [lia|].
    simpl. left. rewrite (skipn_nth _ i 0) by lia.
    rewrite skipn_all2 by lia. reflexivity.
  - change (repeat 0%nat (S (S m))) with (0%nat :: repeat 0%nat (S m)).
    rewrite trace_cons. apply in_or_app. right.
    unfold step_cfg, step_thread. simpl.
    destruct (Nat.ltb_spec (S i) (length (rc_cells s))) as [L|L]; [|lia].
    simpl. rewrite (skipn_nth _ i 0) by lia. simpl.
    apply IH. lia.
Qed.

Theorem rc_sum_solo : forall (s : rshared), (0 < length (rc_cells s))%nat ->
  solo_returns rc_adder tt s Sum (RZ (cells_sum (rc_cells s))).
Proof.
  intros s Hlen. unfold solo_returns.
  destruct (length (rc_cells s)) as [|m] eqn:El; [lia|].
  exists (S (S m)). change (repeat 0%nat (S (S m))) with (0%nat :: repeat 0%nat (S m)).
  rewrite trace_cons. apply in_or_app. right.
  unfold step_cfg, step_thread. simpl.
  unfold cells_sum. change (rc_cells s) with (skipn 0 (rc_cells s)) at 1.
  apply sumL_run. rewrite El. reflexivity.
Qed.

Print Assumptions rc_sum_solo.
