(** C09 for the int64 adders: as long as the total stays below 2^62 nothing
    wraps, the [wadd] machine makes exactly the steps of the exact machine, and
    the bounds on concurrent Sums carry over. *)
From Coq Require Import List Arith Bool ZArith Lia Permutation.
From Garr Require Import Conc.Conc Pure.F64 Adder.StripedModel Adder.AdderSpec Adder.StripedLib
  Adder.StripedInv Adder.StripedPres Adder.StripedProofs Adder.StripedLocal Adder.StripedPhase
  Adder.StripedStrip Adder.StripedMono Adder.StripedRead.
Import ListNotations.
Local Open Scope Z_scope.

Lemma wrap64_small z : 0 <= z < 2 ^ 63 -> wrap64 z = z.
Proof. intros H. unfold wrap64. rewrite Z.mod_small by lia. lia. Qed.

(** the additions a step may perform stay in range *)
Definition safe_add (l : apc) (s : ashared) : Prop :=
  match l with
  | AddCasBase x b => a_base s = b -> wrap64 (b + x) = b + x
  | AddCellCas x _ c v => get_cell s c = Some v -> wrap64 (v + x) = v + x
  | L11 st _ c v => get_cell s c = Some v -> wrap64 (v + r_x st) = v + r_x st
  | B2 st v => a_base s = v -> wrap64 (v + r_x st) = v + r_x st
  | S4 _ sum _ _ c => forall v, get_cell s c = Some v -> wrap64 (sum + v) = sum + v
  | _ => True
  end.

Lemma astep_coincide f64 maxcells l s :
  safe_add l s -> astep wadd f64 maxcells l s = astep Z.add f64 maxcells l s.
Proof.
  intros H. destruct l; simpl in H; try reflexivity; cbn [astep].
  - destruct (a_base s =? b) eqn:E; [|reflexivity]. apply Z.eqb_eq in E. unfold wadd. rewrite (H E). reflexivity.
  - destruct (get_cell s c) as [cur|] eqn:Eg; [|reflexivity].
    destruct (cur =? v) eqn:E; [|reflexivity]. apply Z.eqb_eq in E. subst cur. unfold wadd. rewrite (H eq_refl). reflexivity.
  - destruct (get_cell s c) as [cur|] eqn:Eg; [|reflexivity].
    destruct (cur =? v) eqn:E; [|reflexivity]. apply Z.eqb_eq in E. subst cur. unfold wadd. rewrite (H eq_refl). reflexivity.
  - destruct (a_base s =? v) eqn:E; [|reflexivity]. apply Z.eqb_eq in E. unfold wadd. rewrite (H E). reflexivity.
  - destruct (get_cell s c) as [v|] eqn:Eg; [|reflexivity]. unfold wadd. rewrite (H v eq_refl). reflexivity.
Qed.

Definition safe_cfg (c : acfg) : Prop :=
  forall t th o l, nth_error (c_thr c) t = Some th -> t_cur th = Some (o, l) -> safe_add l (c_sh c).

Section Coincide.
Variable f64 : bool.
Variable maxcells : Z.
Notation MZ := (striped Z.add f64 maxcells).
Notation MW := (striped wadd f64 maxcells).

Lemma step_thread_coincide (c : acfg) t : safe_cfg c -> step_thread MW c t = step_thread MZ c t.
Proof.
  intros Hs. unfold step_thread. destruct (nth_error (c_thr c) t) as [th|] eqn:Hn; [|reflexivity].
  unfold view. destruct (t_dead th); [reflexivity|].
  destruct (t_cur th) as [[o l]|] eqn:Ec.
  - change (m_step MW l (c_sh c)) with (astep wadd f64 maxcells l (c_sh c)).
    change (m_step MZ l (c_sh c)) with (astep Z.add f64 maxcells l (c_sh c)).
    rewrite (astep_coincide f64 maxcells l (c_sh c) (Hs _ _ _ _ Hn Ec)). reflexivity.
  - destruct (t_prog th) as [|o pr]; [reflexivity|].
    change (m_step MW (m_start MW (t_ts th) o) (c_sh c)) with (astep wadd f64 maxcells (AInv o) (c_sh c)).
    change (m_step MZ (m_start MZ (t_ts th) o) (c_sh c)) with (astep Z.add f64 maxcells (AInv o) (c_sh c)).
    rewrite (astep_coincide f64 maxcells (AInv o) (c_sh c) I). reflexivity.
Qed.


(** ** every reader's partial sum is bounded by the applied amount *)

Definition sE : ashared := ainit [].

Lemma sE_Glob : Glob idn sE.
Proof. apply (iv_glob (Inv_init idn eq_refl [] [] ltac:(intros p o []))). Qed.

Lemma sE_NN : NN sE.
Proof. split; simpl; [lia|]. intros i v E. destruct i; discriminate. Qed.

Lemma GM_E s : NN s -> GM sE s.
Proof. intros [H _]. split; [exact H|]. intros c []. Qed.

Lemma psum_wE arr n : psum (w sE) arr n = 0.
Proof. induction n as [|n IH]; [reflexivity|]. rewrite psum_S, IH. unfold w. simpl. reflexivity. Qed.

Lemma ub_applied s (tab : nat * nat) n :
  Glob idn s -> NN s -> ND s -> a_table s <> None ->
  a_base s + psum (cellval s) (arr_of s (fst tab)) n <= applied s.
Proof.
  intros G Hn Hd Hnn. set (arr := arr_of s (fst tab)). unfold applied, psum.
  rewrite <- (zsum_filter_nz (cellval s) (posl arr n)) by reflexivity.
  assert (zsum (map (cellval s) (filter nz (posl arr n))) <= cellsum s (att s)); [|lia].
  unfold cellsum. apply zsum_incl_le.
  - apply posl_nodup. apply Hd.
  - intros c Hc. apply in_filter_nz in Hc. destruct Hc as [Hc Hnz].
    destruct (in_posl _ _ _ Hc Hnz) as (p & _ & Ep). apply nth_error_In in Ep.
    apply (gl_slots G Hnn (fst tab)); assumption.
  - intros c _. apply cellval_nn. exact Hn.
Qed.

Lemma cellval_le_cellsum s c l : NN s -> In c l -> cellval s c <= cellsum s l.
Proof.
  intros Hn Hin. apply in_split in Hin. destruct Hin as (l1 & l2 & ->).
  rewrite cellsum_app. unfold cellsum at 2. simpl. fold (cellsum s l2).
  pose proof (cellsum_nn s l1 Hn). pose proof (cellsum_nn s l2 Hn). lia.
Qed.

Variable T : Z.
Hypothesis T_small : 2 * T < 2 ^ 63.

Definition AllR (c : acfg) : Prop :=
  forall t th l, nth_error (c_thr c) t = Some th -> t_cur th = Some (Sum, l) -> rdr sE l (c_sh c).

Definition leT (o : aop) : Prop := delta o <= T.

Definition P3 (c : acfg) : Prop := has_dead c \/ (MI T c /\ ops_all leT c /\ AllR c).

Lemma P3_step (c : acfg) t c' e : P3 c -> step_thread MZ c t = Some (c', e) -> P3 c'.
Proof.
  intros [Hdead|(HM & HT & HR)] H.
  - left. eapply has_dead_step; eauto.
  - destruct (MI_step f64 maxcells T c t c' e HM H) as [Hdead|[HM' HLE]]; [left; exact Hdead|].
    right. split; [exact HM'|]. split; [eapply ops_all_step; eauto|].
    destruct (MI_glob T c HM) as (G & Hn & Hd). destruct (MI_glob T c' HM') as (G' & Hn' & Hd').
    intros t' th' l' Hn'th Hc'.
    assert (Ec' : c' = step_cfg MZ c t) by (unfold step_cfg; rewrite H; reflexivity).
    destruct (Nat.eq_dec t' t) as [->|Hne].
    + destruct (step_after Z.add f64 maxcells _ _ _ _ H) as (th & Hnth & Hdd & Ha).
      destruct HM as (Hok & _). destruct (Hok _ _ Hnth) as [_ Hcur].
      destruct (t_cur th) as [[o l]|] eqn:Ec.
      * unfold after in Ha.
        destruct (astep Z.add f64 maxcells l (c_sh c)) as [l1 s1|r ts1 s1| |] eqn:Es; try discriminate;
          injection Ha as <-; simpl in Hn'th;
          rewrite nth_error_upd_same in Hn'th by (apply nth_error_Some; congruence);
          injection Hn'th as <-; simpl in Hc'; try discriminate.
        injection Hc' as -> <-. destruct (Hcur Sum l eq_refl) as [_ Hs]. specialize (Hs eq_refl).
        pose proof (rdr_own f64 maxcells sE l (c_sh c) Hs (HR _ _ _ Hnth Ec) (GM_E _ Hn) sE_Glob sE_NN G Hn Hd) as Hown.
        pose proof (step_sumpc Z.add f64 maxcells l (c_sh c) Hs) as Hsp.
        rewrite Es in Hown, Hsp. destruct Hsp as [_ ->]. exact Hown.
      * destruct Ha as (o & prr & Hp & Ha). unfold after in Ha.
        destruct o; simpl in Ha; injection Ha as <-; simpl in Hn'th;
          rewrite nth_error_upd_same in Hn'th by (apply nth_error_Some; congruence);
          injection Hn'th as <-; simpl in Hc'; try discriminate.
        injection Hc' as <-. exact I.
    + rewrite Ec' in Hn'th. rewrite step_cfg_other in Hn'th by auto.
      eapply rdr_LE; eauto.
Qed.

Lemma P3_safe (c : acfg) : MI T c -> ops_all leT c -> AllR c -> safe_cfg c.
Proof.
  intros HM HT HR t th o l Hn Hc.
  destruct (MI_glob T c HM) as (G & Hnn & Hd).
  pose proof (applied_le_total T c HM) as Hap.
  destruct HM as (Hok & Hnop & HI & _).
  destruct (Hok _ _ Hn) as [_ Hcur]. destruct (Hcur o l Hc) as [Hro Hsum].
  destruct (Hnop _ _ Hn) as [_ Hcn]. pose proof (Hcn o l Hc) as Ho0. unfold nnop in Ho0.
  destruct (HT _ _ Hn) as [_ HcT]. pose proof (HcT o l Hc) as HoT. unfold leT in HoT.
  pose proof (proj1 Hnn) as Hb0.
  assert (Hbase : a_base (c_sh c) <= T).
  { unfold applied in Hap. pose proof (cellsum_nn (c_sh c) (att (c_sh c)) Hnn). lia. }
  assert (Hcell : forall c0 v, In c0 (att (c_sh c)) -> get_cell (c_sh c) c0 = Some v -> 0 <= v <= T).
  { intros c0 v Hin Hg. assert (E : cellval (c_sh c) c0 = v) by (unfold cellval; rewrite Hg; reflexivity).
    pose proof (cellval_le_cellsum _ _ _ Hnn Hin). pose proof (cellval_nn (c_sh c) c0 Hnn).
    unfold applied in Hap. lia. }
  destruct (is_update o) eqn:Hu.
  - (* an update *)
    assert (Hns : nth_error (c_thr (strip c)) t = Some (strip_th th)).
    { simpl. rewrite nth_error_map, Hn. reflexivity. }
    destruct (iv_thr HI _ _ Hns) as (_ & _ & Hk). unfold strip_th in Hk. simpl in Hk.
    rewrite Hc in Hk. simpl in Hk. rewrite Hu in Hk. destruct Hk as [_ Hk].
    destruct l; simpl in Hk; try contradiction; simpl; auto.
    + intros E. subst. apply wrap64_small. lia.
    + destruct Hk as [-> Hin]. intros Hg. destruct (Hcell _ _ Hin Hg). apply wrap64_small. lia.
    + destruct Hk as (Hx & Hin & _). intros Hg. destruct (Hcell _ _ Hin Hg). apply wrap64_small. lia.
    + intros E. subst. apply wrap64_small. lia.
  - (* a Sum *)
    destruct Hro as [Hro|Hro]; [congruence|]. subst o. specialize (Hsum eq_refl).
    destruct l; simpl in Hsum; try contradiction; destruct k; try contradiction; simpl; auto.
    intros v Hg. pose proof (HR _ _ _ Hn Hc) as Hr. simpl in Hr.
    destruct Hr as ((Hnn' & _ & _ & Hlo & Hhi) & Hci & Hnz).
    rewrite psum_wE in Hlo. simpl in Hlo.
    assert (Ev : cellval (c_sh c) c0 = v) by (unfold cellval; rewrite Hg; reflexivity).
    pose proof (ub_applied (c_sh c) tab (S i) G Hnn Hd Hnn') as Hub.
    rewrite psum_S, (nth_nth_error _ _ O _ Hci), Ev in Hub.
    pose proof (cellval_nn (c_sh c) c0 Hnn). apply wrap64_small. lia.
Qed.

(** the [wadd] machine and the exact machine make the same run *)
Lemma run_coincide (c : acfg) sched :
  P3 c -> no_dead (final MW c sched) -> run MW c sched = run MZ c sched.
Proof.
  revert c; induction sched as [|t sched IH]; intros c HP Hnd; [reflexivity|].
  assert (Hsafe : safe_cfg c).
  { destruct HP as [Hdead|(HM & HT & HR)]; [|apply P3_safe; assumption].
    exfalso. apply (no_dead_not _ Hnd).
    apply invariant_run; [exact Hdead|]. intros c1 t1 c1' e1 H1 Hs. eapply has_dead_step; eauto. }
  assert (Est : step_thread MW c t = step_thread MZ c t) by (apply step_thread_coincide; exact Hsafe).
  assert (Ecfg : step_cfg MW c t = step_cfg MZ c t) by (unfold step_cfg; rewrite Est; reflexivity).
  assert (Eev : step_evs MW c t = step_evs MZ c t) by (unfold step_evs; rewrite Est; reflexivity).
  cbn [run]. rewrite Eev, Ecfg.
  rewrite final_cons, Ecfg in Hnd.
  rewrite (IH (step_cfg MZ c t)); [reflexivity| |exact Hnd].
  unfold step_cfg. destruct (step_thread MZ c t) as [[c' e]|] eqn:Es; [eapply P3_step; eauto|exact HP].
Qed.

End Coincide.
